/-
Proofs.FnSRender — Chinese rendering of lunar / Taoist / Buddhist dates (string-mode generated code = model; split from the worker's FnS4; helper prefix `s4_`).
-/
import Proofs.FnSBase
import Model.TaoFoto
import Model.Fmt
import Model.CivilFest
import Proofs.FnSFmt
import Proofs.FnSTaoFoto

namespace FnSEq
open Gen.Fn (Err)

/-! ### 4. Chinese rendering of lunar / Taoist / Buddhist dates (code points via `cpToString`) -/
section Rendering
open Gen.Tables
theorem s4_DAY_cp : LunarUtil.DAY = LunarUtil.DAY_cp.map Model.cpToString := by decide +kernel
theorem s4_MONTH_cp : LunarUtil.MONTH = LunarUtil.MONTH_cp.map Model.cpToString := by decide +kernel
theorem s4_NUMBER_cp : LunarUtil.NUMBER = LunarUtil.NUMBER_cp.map Model.cpToString := by decide +kernel

theorem s4_cpToString_nil : Model.cpToString [] = "" := rfl
theorem s4_cpToString_append (a b : List Nat) :
    Model.cpToString (a ++ b) = Model.cpToString a ++ Model.cpToString b := by
  unfold Model.cpToString; rw [List.map_append, String.ofList_append]

/-- a string table that is the rendering of a code-point table: the totalised readers correspond -/
theorem s4_strGetD_cp (T : List String) (Tcp : List (List Nat)) (h : T = Tcp.map Model.cpToString) (i : Int) :
    Model.strGetD T i = Model.cpToString (Model.cpTbl Tcp i) := by
  subst h
  unfold Model.strGetD Model.cpTbl
  by_cases hi : i < 0
  · simp [hi, s4_cpToString_nil]
  · simp only [hi, if_false, List.getD, List.getElem?_map]
    cases Tcp[i.toNat]? <;> simp [s4_cpToString_nil]

theorem s4_len_DAY : LunarUtil.DAY.length = 31 := by decide
theorem s4_len_MONTH : LunarUtil.MONTH.length = 13 := by decide
theorem s4_len_NUMBER : LunarUtil.NUMBER.length = 13 := by decide

theorem lunarGetDayInChinese_eq (l : Gen.FnS.Lunar) (h0 : 0 ≤ l.day) (h1 : l.day ≤ 30) :
    Gen.FnS.calendar_Lunar_GetDayInChinese l = .ok (Model.cpToString (Model.dayCp l.day)) := by
  unfold Gen.FnS.calendar_Lunar_GetDayInChinese Model.dayCp
  rw [sidx_eq_strGetD _ _ h0 (by rw [s4_len_DAY]; omega), s4_strGetD_cp _ _ s4_DAY_cp]

theorem lunarGetDayInChinese_panic (l : Gen.FnS.Lunar) (h : l.day < 0 ∨ 30 < l.day) :
    Gen.FnS.calendar_Lunar_GetDayInChinese l = .error .panic := by
  unfold Gen.FnS.calendar_Lunar_GetDayInChinese
  rw [sidx_panic _ _ (by rw [s4_len_DAY]; omega)]

theorem s4_run : "" ++ "闰" = String.singleton (Char.ofNat Model.cpRun) := by decide +kernel

theorem s4_cpToString_cons (a : Nat) (l : List Nat) :
    Model.cpToString (a :: l) = String.singleton (Char.ofNat a) ++ Model.cpToString l := by
  unfold Model.cpToString; rw [List.map_cons, String.ofList_cons]

theorem lunarGetMonthInChinese_eq (l : Gen.FnS.Lunar) (h0 : -12 ≤ l.month) (h1 : l.month ≤ 12) :
    Gen.FnS.calendar_Lunar_GetMonthInChinese l = .ok (Model.cpToString (Model.monthCp l.month)) := by
  unfold Gen.FnS.calendar_Lunar_GetMonthInChinese Model.monthCp
  by_cases hm : l.month < 0
  · simp only [hm, decide_true, if_true]
    rw [sidx_eq_strGetD _ _ (by omega) (by rw [s4_len_MONTH]; omega), s4_strGetD_cp _ _ s4_MONTH_cp,
      s4_cpToString_cons, ← s4_run]; rfl
  · simp only [hm, decide_false, if_false, Bool.false_eq_true]
    rw [sidx_eq_strGetD _ _ (by omega) (by rw [s4_len_MONTH]; omega), s4_strGetD_cp _ _ s4_MONTH_cp]
    simp only [sb_bind_ok, String.empty_append]; rfl

theorem lunarGetMonthInChinese_panic (l : Gen.FnS.Lunar) (h : l.month < -12 ∨ 12 < l.month) :
    Gen.FnS.calendar_Lunar_GetMonthInChinese l = .error .panic := by
  unfold Gen.FnS.calendar_Lunar_GetMonthInChinese
  by_cases hm : l.month < 0
  · simp only [hm, decide_true, if_true]
    rw [sidx_panic _ _ (by rw [s4_len_MONTH]; omega)]; rfl
  · simp only [hm, decide_false, if_false, Bool.false_eq_true]
    rw [sidx_panic _ _ (by rw [s4_len_MONTH]; omega)]; rfl

def s4_yearLoop (y : String) : Except Err String := do
  let mut s : String := ""
  let mut j : Int := (Gen.FnS.strLen y)
  let lo2 : Int := 0
  for k1 in [0:((j - lo2 + 0) / 1).toNat] do
    let i : Int := lo2 + 1 * (k1 : Int)
    let t3 ← Gen.FnS.strSlice y i (i + 1)
    let t4 ← Gen.FnS.runeAt (t3.toList) 0
    let t5 ← Gen.FnS.sidx Gen.Tables.LunarUtil.«NUMBER» (t4 - 48)
    s := (s ++ t5)
  return s

/-- one-byte characters -/
def s4_ascii (l : List Char) : Prop := ∀ c ∈ l, c.utf8Size = 1

theorem s4_ascii_size (l : List Char) (h : s4_ascii l) : l.utf8Encode.size = l.length := by
  induction l with
  | nil => rfl
  | cons c l ih =>
    rw [List.utf8Encode_cons, ByteArray.size_append, ih (fun x hx => h x (List.mem_cons_of_mem _ hx)),
      List.utf8Encode_singleton, String.utf8EncodeChar_eq_singleton (h c (List.mem_cons_self ..)),
      List.size_toByteArray]
    simp; omega

theorem s4_extract_mid (A B C : ByteArray) :
    (A ++ (B ++ C)).extract A.size (A.size + B.size) = B := by
  rw [ByteArray.extract_append]
  have h1 : A.extract A.size (A.size + B.size) = ByteArray.empty := by
    rw [ByteArray.extract_eq_empty_iff]; omega
  have h2 : (B ++ C).extract (A.size - A.size) (A.size + B.size - A.size) = B := by
    rw [Nat.sub_self, Nat.add_sub_cancel_left, ByteArray.extract_append, ByteArray.extract_zero_size]
    have : C.extract (0 - B.size) (B.size - B.size) = ByteArray.empty := by
      rw [ByteArray.extract_eq_empty_iff]; omega
    rw [this, ByteArray.append_empty]
  rw [h1, h2, ByteArray.empty_append]

theorem s4_fromUTF8 (l : List Char) : String.fromUTF8? l.utf8Encode = some (String.ofList l) := by
  unfold String.fromUTF8?
  have h : l.utf8Encode.IsValidUTF8 := ⟨l, rfl⟩
  rw [dif_pos h]
  exact congrArg some (String.toByteArray_inj.1 (by rw [String.toByteArray_ofList]; rfl))

/-- `s[i:i+1]` of a string whose characters up to position i are one-byte characters -/
theorem s4_strSlice_one (pre : List Char) (c : Char) (post : List Char) (hp : s4_ascii pre) (hc : c.utf8Size = 1) :
    Gen.FnS.strSlice (String.ofList (pre ++ c :: post)) (pre.length : Int) ((pre.length : Int) + 1)
      = .ok (String.ofList [c]) := by
  have hc1 : [c].utf8Encode.size = 1 := s4_ascii_size [c] (by intro x hx; simp at hx; subst hx; exact hc)
  have henc : (pre ++ c :: post).utf8Encode = pre.utf8Encode ++ ([c].utf8Encode ++ post.utf8Encode) := by
    rw [List.utf8Encode_append, List.utf8Encode_cons]
  have hlen : Gen.FnS.strLen (String.ofList (pre ++ c :: post)) = pre.length + 1 + post.utf8Encode.size := by
    unfold Gen.FnS.strLen
    rw [← String.size_toByteArray, String.toByteArray_ofList, henc, ByteArray.size_append, ByteArray.size_append,
      s4_ascii_size pre hp, hc1]
    omega
  unfold Gen.FnS.strSlice
  have hcond : ¬ ((pre.length : Int) < 0 ∨ (pre.length : Int) + 1 < pre.length ∨
      Gen.FnS.strLen (String.ofList (pre ++ c :: post)) < (pre.length : Int) + 1) := by
    rw [hlen]; omega
  rw [if_neg hcond]
  have hx : (String.ofList (pre ++ c :: post)).toUTF8.extract (pre.length : Int).toNat ((pre.length : Int) + 1).toNat
      = [c].utf8Encode := by
    show (String.ofList (pre ++ c :: post)).toByteArray.extract _ _ = _
    rw [String.toByteArray_ofList, henc]
    have e1 : (pre.length : Int).toNat = pre.utf8Encode.size := by rw [s4_ascii_size pre hp]; omega
    have e2 : ((pre.length : Int) + 1).toNat = pre.utf8Encode.size + [c].utf8Encode.size := by
      rw [s4_ascii_size pre hp, hc1]; omega
    rw [e1, e2, s4_extract_mid]
  rw [hx, s4_fromUTF8]; rfl

theorem s4_digitChar_ascii (d : Nat) (h : d < 10) : (Nat.digitChar d).utf8Size = 1 := by
  have : d = 0 ∨ d = 1 ∨ d = 2 ∨ d = 3 ∨ d = 4 ∨ d = 5 ∨ d = 6 ∨ d = 7 ∨ d = 8 ∨ d = 9 := by omega
  rcases this with h|h|h|h|h|h|h|h|h|h <;> subst h <;> rfl

theorem s4_digitChar_toNat (d : Nat) (h : d < 10) : (Nat.digitChar d).toNat = 48 + d := by
  have : d = 0 ∨ d = 1 ∨ d = 2 ∨ d = 3 ∨ d = 4 ∨ d = 5 ∨ d = 6 ∨ d = 7 ∨ d = 8 ∨ d = 9 := by omega
  rcases this with h|h|h|h|h|h|h|h|h|h <;> subst h <;> rfl

theorem s4_digitsFuel (fuel n : Nat) (h : n < fuel) :
    Nat.toDigits 10 n = (Model.digitsFuel fuel n).map Nat.digitChar ∧ ∀ d ∈ Model.digitsFuel fuel n, d < 10 := by
  induction fuel generalizing n with
  | zero => omega
  | succ fuel ih =>
    unfold Model.digitsFuel
    by_cases hn : n < 10
    · rw [if_pos hn, Nat.toDigits_of_lt_base hn]
      exact ⟨rfl, by intro d hd; simp at hd; omega⟩
    · rw [if_neg hn, Nat.toDigits_eq_if (by omega), if_neg hn]
      have := ih (n / 10) (by omega)
      refine ⟨by rw [this.1]; simp, ?_⟩
      intro d hd
      rcases List.mem_append.1 hd with hd | hd
      · exact this.2 d hd
      · simp at hd; omega

theorem s4_digitsOf (n : Nat) :
    Nat.toDigits 10 n = (Model.digitsOf n).map Nat.digitChar ∧ ∀ d ∈ Model.digitsOf n, d < 10 :=
  s4_digitsFuel (n + 1) n (by omega)

theorem s4_ascii_digits (l : List Nat) (h : ∀ d ∈ l, d < 10) : s4_ascii (l.map Nat.digitChar) := by
  intro c hc
  obtain ⟨d, hd, rfl⟩ := List.mem_map.1 hc
  exact s4_digitChar_ascii d (h d hd)

/-- the rendering of a digit list through `NUMBER` -/
def s4_numCp (l : List Nat) : List Nat := l.flatMap fun (d : Nat) => Model.cpTbl LunarUtil.NUMBER_cp (Int.ofNat d)

theorem s4_yearLoop_body (pre l : List Nat) (acc : String) (hpre : ∀ d ∈ pre, d < 10) (hl : ∀ d ∈ l, d < 10) :
    forIn (m := Except Err) (List.range' pre.length l.length 1) acc
      (fun (k1 : Nat) (__s : String) => do
        let t3 ← Gen.FnS.strSlice (String.ofList ((pre ++ l).map Nat.digitChar)) (0 + 1 * (k1 : Int)) (0 + 1 * (k1 : Int) + 1)
        let t4 ← Gen.FnS.runeAt t3.toList 0
        let t5 ← Gen.FnS.sidx LunarUtil.NUMBER (t4 - 48)
        pure (ForInStep.yield (__s ++ t5)))
    = .ok (acc ++ Model.cpToString (s4_numCp l)) := by
  induction l generalizing pre acc with
  | nil => simp [s4_numCp, s4_cpToString_nil, pure, Except.pure]
  | cons d l ih =>
    have hd : d < 10 := hl d (List.mem_cons_self ..)
    have hl' : ∀ x ∈ l, x < 10 := fun x hx => hl x (List.mem_cons_of_mem _ hx)
    have hpre' : ∀ x ∈ pre ++ [d], x < 10 := by
      intro x hx; rcases List.mem_append.1 hx with hx | hx
      · exact hpre x hx
      · simp at hx; omega
    have hslice : Gen.FnS.strSlice (String.ofList ((pre ++ d :: l).map Nat.digitChar)) (0 + 1 * (pre.length : Int))
        (0 + 1 * (pre.length : Int) + 1) = .ok (String.ofList [Nat.digitChar d]) := by
      have := s4_strSlice_one (pre.map Nat.digitChar) (Nat.digitChar d) (l.map Nat.digitChar)
        (s4_ascii_digits pre hpre) (s4_digitChar_ascii d hd)
      rw [List.length_map] at this
      rw [List.map_append, List.map_cons, Int.zero_add, Int.one_mul]
      exact this
    have hrune : Gen.FnS.runeAt (String.ofList [Nat.digitChar d]).toList 0 = .ok ((48 + d : Nat) : Int) := by
      rw [String.toList_ofList, ← s4_digitChar_toNat d hd]; rfl
    have hnum : Gen.FnS.sidx LunarUtil.NUMBER (((48 + d : Nat) : Int) - 48)
        = .ok (Model.cpToString (Model.cpTbl LunarUtil.NUMBER_cp (Int.ofNat d))) := by
      have e : ((48 + d : Nat) : Int) - 48 = Int.ofNat d := by simp; omega
      rw [e, sidx_eq_strGetD _ _ (by simp) (by rw [s4_len_NUMBER]; simp; omega), s4_strGetD_cp _ _ s4_NUMBER_cp]
    simp only [List.length_cons, List.range'_succ, List.forIn_cons, hslice, hrune, hnum, sb_bind_ok]
    have hih := ih (pre ++ [d]) (acc ++ Model.cpToString (Model.cpTbl LunarUtil.NUMBER_cp (Int.ofNat d))) hpre' hl'
    rw [List.length_append, List.length_singleton, List.append_assoc, List.singleton_append] at hih
    simp only [pure, Except.pure, bind, Except.bind] at hih ⊢
    rw [hih, String.append_assoc, ← s4_cpToString_append]
    rfl

theorem s4_strLen_digits (l : List Nat) (h : ∀ d ∈ l, d < 10) :
    Gen.FnS.strLen (String.ofList (l.map Nat.digitChar)) = l.length := by
  unfold Gen.FnS.strLen
  rw [← String.size_toByteArray, String.toByteArray_ofList, s4_ascii_size _ (s4_ascii_digits l h), List.length_map]

/-- the `GetYearInChinese` loop on the decimal rendering of a natural number -/
theorem s4_yearLoop_nat (n : Nat) : s4_yearLoop (toString n) = .ok (Model.cpToString (Model.yearCp (n : Int))) := by
  have hts : toString n = String.ofList (Nat.toDigits 10 n) := rfl
  obtain ⟨hd, hlt⟩ := s4_digitsOf n
  rw [hts, hd]
  unfold s4_yearLoop
  simp only [Std.Legacy.Range.forIn_eq_forIn_range']
  have hsz : Std.Legacy.Range.size
      [:((Gen.FnS.strLen (String.ofList ((Model.digitsOf n).map Nat.digitChar)) - 0 + 0) / 1).toNat]
      = (Model.digitsOf n).length := by
    rw [s4_strLen_digits _ hlt]; simp [Std.Legacy.Range.size]
  rw [hsz]
  have := s4_yearLoop_body [] (Model.digitsOf n) "" (by simp) hlt
  simp only [List.nil_append, List.length_nil] at this
  rw [this]
  simp only [sb_bind_ok, String.empty_append]
  rfl

theorem s4_yearLoop_int (y : Int) (h : 0 ≤ y) :
    s4_yearLoop (Gen.FnS.fmtD y) = .ok (Model.cpToString (Model.yearCp y)) := by
  obtain ⟨n, rfl⟩ := Int.eq_ofNat_of_zero_le h
  exact s4_yearLoop_nat n

/-- a negative year: the first byte is '-' (45), `NUMBER[45 - 48]` panics -/
theorem s4_yearLoop_neg (y : Int) (h : y < 0) : s4_yearLoop (Gen.FnS.fmtD y) = .error .panic := by
  obtain ⟨m, rfl⟩ := Int.eq_negSucc_of_lt_zero h
  have hts : Gen.FnS.fmtD (Int.negSucc m) = String.ofList ([] ++ '-' :: Nat.toDigits 10 (m + 1)) := by
    show "-" ++ String.ofList (Nat.toDigits 10 (m + 1)) = _
    apply s4_toList_inj
    simp only [String.toList_append, String.toList_ofList]; rfl
  have hslice := s4_strSlice_one [] '-' (Nat.toDigits 10 (m + 1)) (by intro c hc; simp at hc) rfl
  rw [← hts] at hslice
  have hlen : ∃ k : Nat, ((Gen.FnS.strLen (Gen.FnS.fmtD (Int.negSucc m)) - 0 + 0) / 1).toNat = k + 1 := by
    refine ⟨(Nat.toDigits 10 (m + 1)).utf8Encode.size, ?_⟩
    rw [hts]; unfold Gen.FnS.strLen
    rw [← String.size_toByteArray, String.toByteArray_ofList, List.nil_append, List.utf8Encode_cons,
      ByteArray.size_append]
    have : ['-'].utf8Encode.size = 1 := rfl
    rw [this]; simp; omega
  obtain ⟨k, hk⟩ := hlen
  unfold s4_yearLoop
  simp only [Std.Legacy.Range.forIn_eq_forIn_range']
  have hsz : Std.Legacy.Range.size [:((Gen.FnS.strLen (Gen.FnS.fmtD (Int.negSucc m)) - 0 + 0) / 1).toNat] = k + 1 := by
    rw [hk]; simp [Std.Legacy.Range.size]
  rw [hsz, List.range'_succ, List.forIn_cons]
  have h0 : (0 : Int) + 1 * ((0 : Nat) : Int) = (([] : List Char).length : Int) := by simp
  rw [h0, hslice]
  have hr : Gen.FnS.runeAt (String.ofList ['-']).toList 0 = .ok 45 := by rw [String.toList_ofList]; rfl
  simp only [sb_bind_ok, hr]
  rw [sidx_panic _ _ (Or.inl (by omega))]; rfl

section Chinese
variable (l : Gen.FnS.Lunar)

/-- `Lunar.GetYearInChinese` for a non-negative year (the model does not cover negative years) -/
theorem lunarGetYearInChinese_eq (h : 0 ≤ l.year) :
    Gen.FnS.calendar_Lunar_GetYearInChinese l = .ok (Model.cpToString (Model.yearCp l.year)) :=
  s4_yearLoop_int l.year h

theorem lunarGetYearInChinese_panic (h : l.year < 0) :
    Gen.FnS.calendar_Lunar_GetYearInChinese l = .error .panic :=
  s4_yearLoop_neg l.year h

theorem s4_nian : Model.cpToString [Model.cpNian] = "年" := by decide +kernel
theorem s4_yue : Model.cpToString [Model.cpYue] = "月" := by decide +kernel

theorem s4_lunarCp (y m d : Int) :
    Model.cpToString (Model.lunarCp y m d) =
      Model.cpToString (Model.yearCp y) ++ "年" ++ Model.cpToString (Model.monthCp m) ++ "月" ++
        Model.cpToString (Model.dayCp d) := by
  unfold Model.lunarCp
  simp only [s4_cpToString_append, s4_nian, s4_yue]

/-- `Lunar.String()` -/
theorem lunarString_eq (hy : 0 ≤ l.year) (m0 : -12 ≤ l.month) (m1 : l.month ≤ 12) (d0 : 0 ≤ l.day) (d1 : l.day ≤ 30) :
    Gen.FnS.calendar_Lunar_String l = .ok (Model.cpToString (Model.lunarCp l.year l.month l.day)) := by
  unfold Gen.FnS.calendar_Lunar_String
  rw [lunarGetYearInChinese_eq l hy, lunarGetMonthInChinese_eq l m0 m1, lunarGetDayInChinese_eq l d0 d1, s4_lunarCp]
  rfl
end Chinese

section TaoFotoChinese
variable (t : Gen.FnS.Tao) (f : Gen.FnS.Foto) (terms : List Model.Solar)

theorem taoGetYearInChinese_eq (h : 0 ≤ Model.taoYear (lunarToM t.lunar terms)) :
    Gen.FnS.calendar_Tao_GetYearInChinese t
      = .ok (Model.cpToString (Model.yearCp (Model.taoYear (lunarToM t.lunar terms)))) :=
  s4_yearLoop_int _ h
theorem taoGetMonthInChinese_eq (m0 : -12 ≤ t.lunar.month) (m1 : t.lunar.month ≤ 12) :
    Gen.FnS.calendar_Tao_GetMonthInChinese t = .ok (Model.cpToString (Model.monthCp t.lunar.month)) := by
  unfold Gen.FnS.calendar_Tao_GetMonthInChinese; rw [lunarGetMonthInChinese_eq _ m0 m1]
theorem taoGetDayInChinese_eq (d0 : 0 ≤ t.lunar.day) (d1 : t.lunar.day ≤ 30) :
    Gen.FnS.calendar_Tao_GetDayInChinese t = .ok (Model.cpToString (Model.dayCp t.lunar.day)) := by
  unfold Gen.FnS.calendar_Tao_GetDayInChinese; rw [lunarGetDayInChinese_eq _ d0 d1]
/-- `Tao.ToString()` / `Tao.String()`: the lunar rendering with the Taoist year -/
theorem taoToString_eq (hy : 0 ≤ Model.taoYear (lunarToM t.lunar terms))
    (m0 : -12 ≤ t.lunar.month) (m1 : t.lunar.month ≤ 12) (d0 : 0 ≤ t.lunar.day) (d1 : t.lunar.day ≤ 30) :
    Gen.FnS.calendar_Tao_ToString t
      = .ok (Model.cpToString (Model.lunarCp (Model.taoYear (lunarToM t.lunar terms)) t.lunar.month t.lunar.day)) := by
  unfold Gen.FnS.calendar_Tao_ToString
  rw [taoGetYearInChinese_eq t terms hy, taoGetMonthInChinese_eq t m0 m1, taoGetDayInChinese_eq t d0 d1, s4_lunarCp]
  rfl
theorem taoString_eq (hy : 0 ≤ Model.taoYear (lunarToM t.lunar terms))
    (m0 : -12 ≤ t.lunar.month) (m1 : t.lunar.month ≤ 12) (d0 : 0 ≤ t.lunar.day) (d1 : t.lunar.day ≤ 30) :
    Gen.FnS.calendar_Tao_String t
      = .ok (Model.cpToString (Model.lunarCp (Model.taoYear (lunarToM t.lunar terms)) t.lunar.month t.lunar.day)) := by
  unfold Gen.FnS.calendar_Tao_String; rw [taoToString_eq t terms hy m0 m1 d0 d1]

theorem fotoGetYearInChinese_eq (h : 0 ≤ Model.fotoYear (lunarToM f.lunar terms)) :
    Gen.FnS.calendar_Foto_GetYearInChinese f
      = .ok (Model.cpToString (Model.yearCp (Model.fotoYear (lunarToM f.lunar terms)))) :=
  s4_yearLoop_int _ h
theorem fotoGetMonthInChinese_eq (m0 : -12 ≤ f.lunar.month) (m1 : f.lunar.month ≤ 12) :
    Gen.FnS.calendar_Foto_GetMonthInChinese f = .ok (Model.cpToString (Model.monthCp f.lunar.month)) := by
  unfold Gen.FnS.calendar_Foto_GetMonthInChinese; rw [lunarGetMonthInChinese_eq _ m0 m1]
theorem fotoGetDayInChinese_eq (d0 : 0 ≤ f.lunar.day) (d1 : f.lunar.day ≤ 30) :
    Gen.FnS.calendar_Foto_GetDayInChinese f = .ok (Model.cpToString (Model.dayCp f.lunar.day)) := by
  unfold Gen.FnS.calendar_Foto_GetDayInChinese; rw [lunarGetDayInChinese_eq _ d0 d1]
theorem fotoToString_eq (hy : 0 ≤ Model.fotoYear (lunarToM f.lunar terms))
    (m0 : -12 ≤ f.lunar.month) (m1 : f.lunar.month ≤ 12) (d0 : 0 ≤ f.lunar.day) (d1 : f.lunar.day ≤ 30) :
    Gen.FnS.calendar_Foto_ToString f
      = .ok (Model.cpToString (Model.lunarCp (Model.fotoYear (lunarToM f.lunar terms)) f.lunar.month f.lunar.day)) := by
  unfold Gen.FnS.calendar_Foto_ToString
  rw [fotoGetYearInChinese_eq f terms hy, fotoGetMonthInChinese_eq f m0 m1, fotoGetDayInChinese_eq f d0 d1, s4_lunarCp]
  rfl
theorem fotoString_eq (hy : 0 ≤ Model.fotoYear (lunarToM f.lunar terms))
    (m0 : -12 ≤ f.lunar.month) (m1 : f.lunar.month ≤ 12) (d0 : 0 ≤ f.lunar.day) (d1 : f.lunar.day ≤ 30) :
    Gen.FnS.calendar_Foto_String f
      = .ok (Model.cpToString (Model.lunarCp (Model.fotoYear (lunarToM f.lunar terms)) f.lunar.month f.lunar.day)) := by
  unfold Gen.FnS.calendar_Foto_String; rw [fotoToString_eq f terms hy m0 m1 d0 d1]
end TaoFotoChinese
end Rendering


end FnSEq
