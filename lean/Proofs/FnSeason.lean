/-
Proofs.FnSeason — Lunar.GetShuJiu and Lunar.GetFu: generated code = model (split from the worker's FnMisc; helper prefix `mi_`).
-/
import Proofs.FnMiscBase

namespace FnEq
open Gen.Fn

/-! ## 6. Lunar.GetShuJiu, Lunar.GetFu -/

/-! ### `daysBetween a b ≥ 0` for valid `a ≤ b` -/

theorem mi_baseDom_nonneg (m : Int) : 0 ≤ Model.baseDaysOfMonth m := by
  unfold Model.baseDaysOfMonth; repeat' split
  all_goals omega

theorem mi_dom_nonneg (y m : Int) : 0 ≤ Model.daysOfMonth y m := by
  have := mi_baseDom_nonneg m
  unfold Model.daysOfMonth; repeat' split
  all_goals omega

theorem mi_doy_nonneg (y : Int) : 0 ≤ Model.daysOfYear y := by
  unfold Model.daysOfYear; repeat' split
  all_goals omega

theorem mi_sum_nonneg (g : Int → Int) (hg : ∀ i, 0 ≤ g i) (k : Nat) (lo : Int) : 0 ≤ c1_sum g k lo := by
  induction k generalizing lo with
  | zero => simp [c1_sum]
  | succ k ih => simp only [c1_sum]; have := hg lo; have := ih (lo + 1); omega

theorem mi_sum_succ (g : Int → Int) (k : Nat) (lo : Int) :
    c1_sum g (k + 1) lo = c1_sum g k lo + g (lo + k) := by
  induction k generalizing lo with
  | zero => simp [c1_sum]
  | succ k ih =>
    rw [c1_sum, ih (lo + 1), c1_sum]
    have : lo + 1 + (k : Int) = lo + ((k + 1 : Nat) : Int) := by omega
    rw [this]; omega

/-- sum of the first `k` month lengths of year `y` -/
def mi_S (y : Int) (k : Nat) : Int := c1_sum (Model.daysOfMonth y) k 1

theorem mi_S_succ (y : Int) (k : Nat) : mi_S y (k + 1) = mi_S y k + Model.daysOfMonth y (1 + k) :=
  mi_sum_succ _ k 1

theorem mi_S_mono (y : Int) (k j : Nat) : mi_S y k ≤ mi_S y (k + j) := by
  induction j with
  | zero => simp
  | succ j ih =>
    rw [← Nat.add_assoc, mi_S_succ]
    have := mi_dom_nonneg y (1 + ((k + j : Nat) : Int)); omega

theorem mi_S_le (y : Int) (k k' : Nat) (h : k ≤ k') : mi_S y k ≤ mi_S y k' := by
  obtain ⟨j, rfl⟩ := Nat.exists_eq_add_of_le h
  exact mi_S_mono y k j

theorem mi_S_nonneg (y : Int) (k : Nat) : 0 ≤ mi_S y k := mi_sum_nonneg _ (mi_dom_nonneg y) k 1

theorem mi_S_12 (y : Int) : mi_S y 12 = Model.daysOfYear y := by
  simp only [mi_S, c1_sum, Model.daysOfMonth, Model.daysOfYear, Model.baseDaysOfMonth]
  by_cases h : y = 1582
  · subst h; decide
  · cases hl : Model.isLeapYear y <;> simp [h]

/-- day of month with the ten dropped days of October 1582 closed up -/
def mi_adj (y m d : Int) : Int := if y = 1582 ∧ m = 10 ∧ d ≥ 15 then d - 10 else d

theorem mi_validYmd_facts (y m d : Int) (hv : Model.validYmd y m d = true) :
    1 ≤ m ∧ m ≤ 12 ∧ 1 ≤ d ∧ d ≤ 31 ∧
      (if y = 1582 ∧ m = 10 then ¬ (4 < d ∧ d < 15) else d ≤ Model.daysOfMonth y m) := by
  simp only [Model.validYmd, Bool.and_eq_true, decide_eq_true_eq] at hv
  obtain ⟨⟨⟨⟨h1, h2⟩, h3⟩, h4⟩, h5⟩ := hv
  refine ⟨h1, h2, h3, h4, ?_⟩
  by_cases c : y = 1582 ∧ m = 10
  · rw [if_pos c] at h5 ⊢
    have : d ≤ 4 ∨ 15 ≤ d := by simpa using h5
    omega
  · rw [if_neg c] at h5 ⊢
    simpa using h5

theorem mi_diy_valid (y m d : Int) (hv : Model.validYmd y m d = true) :
    Model.daysInYear y m d = some (mi_S y (m - 1).toNat + mi_adj y m d) ∧
      1 ≤ mi_adj y m d ∧ mi_adj y m d ≤ Model.daysOfMonth y m := by
  obtain ⟨h1, h2, h3, h4, h5⟩ := mi_validYmd_facts y m d hv
  unfold Model.daysInYear mi_adj
  simp only [c1_daysInYearLoop]
  by_cases c : y = 1582 ∧ m = 10
  · rw [if_pos c] at h5
    obtain ⟨rfl, rfl⟩ := c
    have hd : Model.daysOfMonth 1582 10 = 21 := by decide
    rw [hd]
    by_cases c1 : d ≥ 15
    · simp [c1, mi_S]; omega
    · have c2 : ¬ d > 4 := by omega
      simp [c1, c2, mi_S]; omega
  · rw [if_neg c] at h5
    have c' : ¬ (y = 1582 ∧ m = 10 ∧ d ≥ 15) := fun e => c ⟨e.1, e.2.1⟩
    simp [c, c', mi_S]
    omega

/-- (year, month, day) lexicographic `≤` -/
def mi_le3 (ay am ad by_ bm bd : Int) : Prop :=
  ay < by_ ∨ (ay = by_ ∧ (am < bm ∨ (am = bm ∧ ad ≤ bd)))

theorem mi_diy_bounds (y m d : Int) (hv : Model.validYmd y m d = true) :
    ∃ v, Model.daysInYear y m d = some v ∧ mi_S y (m - 1).toNat + 1 ≤ v ∧
      v ≤ mi_S y m.toNat ∧ v ≤ Model.daysOfYear y ∧ 1 ≤ v := by
  obtain ⟨e, l, u⟩ := mi_diy_valid y m d hv
  obtain ⟨h1, h2, _⟩ := mi_validYmd_facts y m d hv
  refine ⟨_, e, by omega, ?_, ?_, ?_⟩
  · have hk : m.toNat = (m - 1).toNat + 1 := by omega
    have hm : (1 : Int) + ((m - 1).toNat : Int) = m := by omega
    rw [hk, mi_S_succ, hm]; omega
  · have hk : m.toNat = (m - 1).toNat + 1 := by omega
    have hm : (1 : Int) + ((m - 1).toNat : Int) = m := by omega
    have := mi_S_le y m.toNat 12 (by omega)
    rw [mi_S_12, hk, mi_S_succ, hm] at this
    omega
  · have := mi_S_nonneg y (m - 1).toNat; omega

theorem mi_daysBetween_nonneg (ay am ad by_ bm bd : Int)
    (ha : Model.validYmd ay am ad = true) (hb : Model.validYmd by_ bm bd = true)
    (hle : mi_le3 ay am ad by_ bm bd) :
    ∃ n, Model.daysBetween ay am ad by_ bm bd = some n ∧ 0 ≤ n := by
  obtain ⟨va, ea, la, ua, ya, pa⟩ := mi_diy_bounds ay am ad ha
  obtain ⟨vb, eb, lb, ub, yb, pb⟩ := mi_diy_bounds by_ bm bd hb
  unfold Model.daysBetween
  rw [ea, eb]
  simp only
  unfold mi_le3 at hle
  by_cases hy : ay = by_
  · subst hy
    rw [if_pos rfl]
    refine ⟨_, rfl, ?_⟩
    rcases hle with h | ⟨_, h | ⟨hm, hd⟩⟩
    · omega
    · have ham := (mi_validYmd_facts ay am ad ha).1
      have := mi_S_le ay am.toNat (bm - 1).toNat (by omega)
      omega
    · subst hm
      obtain ⟨ea', _, _⟩ := mi_diy_valid ay am ad ha
      obtain ⟨eb', _, _⟩ := mi_diy_valid ay am bd hb
      rw [ea] at ea'; rw [eb] at eb'
      injection ea' with ea'; injection eb' with eb'
      have hf := mi_validYmd_facts ay am ad ha
      have hg := mi_validYmd_facts ay am bd hb
      unfold mi_adj at ea' eb'
      by_cases c : ay = 1582 ∧ am = 10
      · obtain ⟨rfl, rfl⟩ := c
        simp only [true_and] at ea' eb' hf hg
        have h5 := hf.2.2.2.2
        have h6 := hg.2.2.2.2
        simp only [if_true] at h5 h6
        split at ea' <;> split at eb' <;> omega
      · have c1 : ¬ (ay = 1582 ∧ am = 10 ∧ ad ≥ 15) := fun e => c ⟨e.1, e.2.1⟩
        have c2 : ¬ (ay = 1582 ∧ am = 10 ∧ bd ≥ 15) := fun e => c ⟨e.1, e.2.1⟩
        rw [if_neg c1] at ea'; rw [if_neg c2] at eb'
        omega
  · have hlt : ay < by_ := by omega
    have hgt : ¬ ay > by_ := by omega
    rw [if_neg hy, if_neg hgt]
    refine ⟨_, rfl, ?_⟩
    have := mi_sum_nonneg Model.daysOfYear mi_doy_nonneg (by_ - ay - 1).toNat (ay + 1)
    rw [c1_yearsLoop]
    omega

/-! ### GetShuJiu -/

theorem mi_newSolarYmd_of_valid (y m d : Int) (h : Model.validYmd y m d = true) :
    Model.newSolarYmd y m d = some ⟨y, m, d, 0, 0, 0⟩ := by
  unfold Model.newSolarYmd Model.newSolar
  have : Model.validHms 0 0 0 = true := by decide
  simp [h, this]

/-- `NewSolarFromYmd(s.GetYear(), s.GetMonth(), s.GetDay())` on a valid day is `midnight`. -/
theorem mi_newYmd_midnight (s : Gen.Fn.Solar) (h : Model.validYmd s.year s.month s.day = true) :
    Gen.Fn.calendar_NewSolarFromYmd s.year s.month s.day = .ok (ofM (Model.midnight (toM s))) := by
  rw [newSolarFromYmd_eq, mi_newSolarYmd_of_valid _ _ _ h]; rfl

/-- … and on an invalid day it panics. -/
theorem mi_newYmd_panic (s : Gen.Fn.Solar) (h : Model.validYmd s.year s.month s.day = false) :
    Gen.Fn.calendar_NewSolarFromYmd s.year s.month s.day = .error .panic := by
  rw [newSolarFromYmd_eq]; unfold Model.newSolarYmd Model.newSolar; simp [h]

open Gen.Fn in
/-- The generated `GetShuJiu` after `current` and `start` have been chosen (verbatim copy of the
tail of the generated `do` block). -/
def mi_sjTailG (fuel : Nat) (current start : Solar) : Except Err (Option ShuJiu) := do
  let t14 ← calendar_Solar_NextDay fuel start 81
  let mut «end» : Solar := t14
  let t15 ← calendar_Solar_IsBefore current start
  let mut t17 : Bool := t15
  if !t17 then
    let t16 ← calendar_Solar_IsBefore current «end»
    t17 := (!t16)
  if t17 then
    return none
  let t18 ← calendar_Solar_Subtract current start
  let mut days : Int := t18
  let t19 ← calendar_NewShuJiu ((Int.tmod days 9) + 1)
  return (some t19)

theorem mi_sj_split (fuel : Nat) (a1 a2 : Gen.Fn.Solar) (lunar : Gen.Fn.Lunar) :
    Gen.Fn.calendar_Lunar_GetShuJiu fuel a1 a2 lunar =
      (Gen.Fn.calendar_NewSolarFromYmd lunar.solar.year lunar.solar.month lunar.solar.day >>= fun cur =>
       Gen.Fn.calendar_NewSolarFromYmd a1.year a1.month a1.day >>= fun s0 =>
       if (toM cur).isBefore (toM s0) then
         Gen.Fn.calendar_NewSolarFromYmd a2.year a2.month a2.day >>= fun s => mi_sjTailG fuel cur s
       else mi_sjTailG fuel cur s0) := by
  simp only [Gen.Fn.calendar_Lunar_GetShuJiu, mi_sjTailG, getYear_eq, getMonth_eq, getDay_eq,
    c1_ok_bind, solarIsBefore_eq]

/-- The model's `shuJiu` after `current` and `start` have been chosen: `none` = panic,
`some none` = not in the period, `some (some i)` = index `i`. -/
def mi_sjTailM (cur start : Model.Solar) : Option (Option Int) :=
  match start.nextDay 81 with
  | none => none
  | some end_ =>
    if cur.isBefore start || !cur.isBefore end_ then some none
    else
      match cur.subtract start with
      | none => none
      | some days => some (some (days % 9 + 1))

/-- result of `GetShuJiu` / `GetFu` from the model's answer (the name string is outside the subset) -/
def mi_sjRes (r : Option (Option Int)) : Except Gen.Fn.Err (Option Gen.Fn.ShuJiu) :=
  match r with
  | none => .error .panic
  | some none => .ok none
  | some (some i) => .ok (some ⟨i⟩)

theorem mi_sjTail_eq (fuel : Nat) (cur start : Gen.Fn.Solar)
    (hc : cur.month ≤ 13) (hs : start.month ≤ 13) (hnd : mi_NextDayOk fuel start 81)
    (hnn : (toM cur).isBefore (toM start) = false → ∀ days, (toM cur).subtract (toM start) = some days →
      0 ≤ days) :
    mi_sjTailG fuel cur start = mi_sjRes (mi_sjTailM (toM cur) (toM start)) := by
  unfold mi_NextDayOk at hnd
  simp only [mi_sjTailG, mi_sjTailM, hnd, solarIsBefore_eq, solarSubtract_eq cur start hc hs]
  cases (toM start).nextDay 81 with
  | none => rfl
  | some e =>
    simp only [c1_ok_bind, toM_ofM]
    by_cases hb : (toM cur).isBefore (toM start) = true
    · simp [hb, mi_sjRes]
    · have hb' : (toM cur).isBefore (toM start) = false := by simpa using hb
      by_cases he : (toM cur).isBefore e = true
      · cases hd : (toM cur).subtract (toM start) with
        | none => simp [hb', he, mi_sjRes]
        | some days =>
          have h0 := hnn hb' days hd
          simp [hb', he, mi_sjRes, Gen.Fn.calendar_NewShuJiu, Int.tmod_eq_emod_of_nonneg h0]
      · simp [hb', he, mi_sjRes]

/-- the `start` day `GetShuJiu` settles on -/
def mi_sjStart (cur a1 a2 : Model.Solar) : Model.Solar :=
  if (Model.midnight cur).isBefore (Model.midnight a1) then Model.midnight a2 else Model.midnight a1

theorem mi_shuJiu_model (l : Model.Lunar) :
    l.shuJiu.map (Option.map Prod.snd) =
      mi_sjTailM (Model.midnight l.solar)
        (mi_sjStart l.solar (Model.termByName l.terms "DONG_ZHI") (Model.termByName l.terms "冬至")) := by
  unfold Model.Lunar.shuJiu mi_sjTailM mi_sjStart
  simp only
  generalize (if (Model.midnight l.solar).isBefore (Model.midnight (Model.termByName l.terms "DONG_ZHI")) = true
    then Model.midnight (Model.termByName l.terms "冬至")
    else Model.midnight (Model.termByName l.terms "DONG_ZHI")) = start
  cases start.nextDay 81 with
  | none => rfl
  | some e =>
    simp only
    by_cases c : ((Model.midnight l.solar).isBefore start || !(Model.midnight l.solar).isBefore e) = true
    · rw [if_pos c, if_pos c]; rfl
    · rw [if_neg c, if_neg c]
      cases (Model.midnight l.solar).subtract start <;> rfl

/-- for two midnights, "not before" is `≤` on (year, month, day) -/
theorem mi_midnight_le3 (a b : Model.Solar)
    (h : (Model.midnight b).isBefore (Model.midnight a) = false) :
    mi_le3 a.year a.month a.day b.year b.month b.day := by
  have h' : ¬ ((Model.midnight b).isBefore (Model.midnight a) = true) := by simp [h]
  rw [c1_isBefore_iff] at h'
  unfold c1_lex6 Model.midnight at h'
  unfold mi_le3
  simp only at h'
  omega

theorem mi_midnight_sub_nonneg (a b : Model.Solar)
    (ha : Model.validYmd a.year a.month a.day = true) (hb : Model.validYmd b.year b.month b.day = true)
    (h : (Model.midnight b).isBefore (Model.midnight a) = false) :
    ∀ days, (Model.midnight b).subtract (Model.midnight a) = some days → 0 ≤ days := by
  intro days hd
  obtain ⟨n, hn, h0⟩ := mi_daysBetween_nonneg _ _ _ _ _ _ ha hb (mi_midnight_le3 a b h)
  have : (Model.midnight b).subtract (Model.midnight a) = some n := hn
  rw [this] at hd; injection hd with hd; omega

theorem mi_midnight_idem (a : Model.Solar) : Model.midnight (Model.midnight a) = Model.midnight a := rfl

/-- `Lunar.GetShuJiu`.  Atoms: `a1` = `lunar.jieQi["DONG_ZHI"]`, `a2` = `lunar.jieQi["冬至"]`, bound to the
model's term-table entries.  Guards: the civil day of the receiver and of `a1` are valid days (they come
from validating constructors), `a2` too when it is used; the `NextDay(81)` call is `mi_NextDayOk`.
The result is the model's (index only; the name is a string outside the subset). -/
theorem lunarGetShuJiu_eq (fuel : Nat) (a1 a2 : Gen.Fn.Solar) (lunar : Gen.Fn.Lunar)
    (terms : List Model.Solar)
    (h1 : toM a1 = Model.termByName terms "DONG_ZHI") (h2 : toM a2 = Model.termByName terms "冬至")
    (hv : Model.validYmd lunar.solar.year lunar.solar.month lunar.solar.day = true)
    (hv1 : Model.validYmd a1.year a1.month a1.day = true)
    (hv2 : (Model.midnight (toM lunar.solar)).isBefore (Model.midnight (toM a1)) = true →
      Model.validYmd a2.year a2.month a2.day = true)
    (hnd : mi_NextDayOk fuel (ofM (mi_sjStart (toM lunar.solar) (toM a1) (toM a2))) 81) :
    Gen.Fn.calendar_Lunar_GetShuJiu fuel a1 a2 lunar =
      mi_sjRes ((mi_lunarToM lunar terms).shuJiu.map (Option.map Prod.snd)) := by
  rw [mi_shuJiu_model, mi_sj_split, mi_newYmd_midnight _ hv, mi_newYmd_midnight _ hv1]
  simp only [c1_ok_bind]
  show _ = mi_sjRes (mi_sjTailM (Model.midnight (toM lunar.solar))
    (mi_sjStart (toM lunar.solar) (Model.termByName terms "DONG_ZHI") (Model.termByName terms "冬至")))
  rw [← h1, ← h2]
  unfold mi_sjStart at hnd ⊢
  have hcm : (ofM (Model.midnight (toM lunar.solar))).month ≤ 13 := by
    have := (mi_validYmd_facts _ _ _ hv).2.1
    show lunar.solar.month ≤ 13
    omega
  by_cases hb : (Model.midnight (toM lunar.solar)).isBefore (Model.midnight (toM a1)) = true
  · have hv2' := hv2 hb
    have hb0 : (toM (ofM (Model.midnight (toM lunar.solar)))).isBefore
        (toM (ofM (Model.midnight (toM a1)))) = true := hb
    rw [if_pos hb] at hnd
    rw [if_pos hb, if_pos hb0]
    rw [mi_newYmd_midnight _ hv2', c1_ok_bind]
    have hsm : (ofM (Model.midnight (toM a2))).month ≤ 13 := by
      have := (mi_validYmd_facts _ _ _ hv2').2.1
      show a2.month ≤ 13
      omega
    rw [mi_sjTail_eq fuel _ _ hcm hsm hnd]
    · simp only [toM_ofM]
    · simp only [toM_ofM]
      exact fun hh => mi_midnight_sub_nonneg (toM a2) (toM lunar.solar) hv2' hv hh
  · have hb0 : ¬ (toM (ofM (Model.midnight (toM lunar.solar)))).isBefore
        (toM (ofM (Model.midnight (toM a1)))) = true := hb
    rw [if_neg hb] at hnd
    rw [if_neg hb, if_neg hb0]
    have hsm : (ofM (Model.midnight (toM a1))).month ≤ 13 := by
      have := (mi_validYmd_facts _ _ _ hv1).2.1
      show a1.month ≤ 13
      omega
    rw [mi_sjTail_eq fuel _ _ hcm hsm hnd]
    · simp only [toM_ofM]
    · simp only [toM_ofM]
      exact fun hh => mi_midnight_sub_nonneg (toM a1) (toM lunar.solar) hv1 hv hh

theorem lunarGetShuJiu_panic_current (fuel : Nat) (a1 a2 : Gen.Fn.Solar) (lunar : Gen.Fn.Lunar)
    (hv : Model.validYmd lunar.solar.year lunar.solar.month lunar.solar.day = false) :
    Gen.Fn.calendar_Lunar_GetShuJiu fuel a1 a2 lunar = .error .panic := by
  rw [mi_sj_split, mi_newYmd_panic _ hv]; rfl

/-! ### GetFu -/

open Gen.Fn in
def mi_fuG4 (fuel : Nat) (current liQiuSolar start : Solar) (days : Int) : Except Err (Option Fu) := do
  let mut start := start
  let mut days := days
  let t23 ← calendar_Solar_IsAfter liQiuSolar start
  if t23 then
    if decide (days < 10) then
      let t24 ← calendar_NewFu (days + 11)
      return (some t24)
    let t25 ← calendar_Solar_NextDay fuel start 10
    start := t25
    let t26 ← calendar_Solar_Subtract current start
    days := t26
  if decide (days < 10) then
    let t27 ← calendar_NewFu (days + 1)
    return (some t27)
  return none

open Gen.Fn in
def mi_fuG3 (fuel : Nat) (current liQiu start : Solar) : Except Err (Option Fu) := do
  let t17 ← calendar_Solar_NextDay fuel start 10
  let t18 ← calendar_Solar_Subtract current t17
  let t19 ← calendar_Solar_GetYear liQiu
  let t20 ← calendar_Solar_GetMonth liQiu
  let t21 ← calendar_Solar_GetDay liQiu
  let t22 ← calendar_NewSolarFromYmd t19 t20 t21
  mi_fuG4 fuel current t22 t17 t18

open Gen.Fn in
def mi_fuG2 (fuel : Nat) (current liQiu start : Solar) : Except Err (Option Fu) := do
  let t14 ← calendar_Solar_NextDay fuel start 10
  let t15 ← calendar_Solar_Subtract current t14
  if decide (t15 < 10) then
    let t16 ← calendar_NewFu (t15 + 1)
    return (some t16)
  mi_fuG3 fuel current liQiu t14

open Gen.Fn in
def mi_fuG1 (fuel : Nat) (current liQiu start : Solar) (add : Int) : Except Err (Option Fu) := do
  let t10 ← calendar_Solar_NextDay fuel start add
  let t11 ← calendar_Solar_IsBefore current t10
  if t11 then
    return none
  let t12 ← calendar_Solar_Subtract current t10
  if decide (t12 < 10) then
    let t13 ← calendar_NewFu (t12 + 1)
    return (some t13)
  mi_fuG2 fuel current liQiu t10

theorem mi_fu_split (fuel : Nat) (a1 a2 : Gen.Fn.Solar) (a3 lunar : Gen.Fn.Lunar) :
    Gen.Fn.calendar_Lunar_GetFu fuel a1 a2 a3 lunar =
      (Gen.Fn.calendar_NewSolarFromYmd lunar.solar.year lunar.solar.month lunar.solar.day >>= fun cur =>
       Gen.Fn.calendar_NewSolarFromYmd a1.year a1.month a1.day >>= fun s0 =>
       mi_fuG1 fuel cur a2 s0 ((if 6 - a3.dayGanIndex < 0 then 6 - a3.dayGanIndex + 10 else 6 - a3.dayGanIndex) + 20)) := by
  simp only [Gen.Fn.calendar_Lunar_GetFu, mi_fuG1, mi_fuG2, mi_fuG3, mi_fuG4, getYear_eq, getMonth_eq,
    getDay_eq, c1_ok_bind, mi_lunarGetDayGanIndex_eq]
  by_cases h : 6 - a3.dayGanIndex < 0 <;>
    simp only [h, decide_true, decide_false, if_true, if_false, Bool.false_eq_true]

def mi_fuRes (r : Option (Option Int)) : Except Gen.Fn.Err (Option Gen.Fn.Fu) :=
  match r with
  | none => .error .panic
  | some none => .ok none
  | some (some i) => .ok (some ⟨i⟩)

/-- `Model.Lunar.fu` with the names dropped, in the same four stages as the generated code. -/
def mi_fuM4 (cur lqMid start3 : Model.Solar) (days3 : Int) : Option (Option Int) :=
  if lqMid.isAfter start3 then
    if days3 < 10 then some (some (days3 + 11))
    else
      match start3.nextDay 10 with
      | none => none
      | some start4 =>
        match cur.subtract start4 with
        | none => none
        | some days4 => if days4 < 10 then some (some (days4 + 1)) else some none
  else if days3 < 10 then some (some (days3 + 1)) else some none

def mi_fuM3 (cur lqMid start2 : Model.Solar) : Option (Option Int) :=
  match start2.nextDay 10 with
  | none => none
  | some start3 =>
    match cur.subtract start3 with
    | none => none
    | some days3 => mi_fuM4 cur lqMid start3 days3

def mi_fuM2 (cur lqMid start : Model.Solar) : Option (Option Int) :=
  match start.nextDay 10 with
  | none => none
  | some start2 =>
    match cur.subtract start2 with
    | none => none
    | some days2 => if days2 < 10 then some (some (days2 + 1)) else mi_fuM3 cur lqMid start2

def mi_fuM1 (cur lqMid xzMid : Model.Solar) (add : Int) : Option (Option Int) :=
  match xzMid.nextDay add with
  | none => none
  | some start =>
    if cur.isBefore start then some none
    else
      match cur.subtract start with
      | none => none
      | some days => if days < 10 then some (some (days + 1)) else mi_fuM2 cur lqMid start

def mi_fuAdd (g : Int) : Int := (if 6 - g < 0 then 6 - g + 10 else 6 - g) + 20

theorem mi_fu_model (l : Model.Lunar) :
    l.fu.map (Option.map Prod.snd) =
      mi_fuM1 (Model.midnight l.solar) (Model.midnight (Model.termByName l.terms "立秋"))
        (Model.midnight (Model.termByName l.terms "夏至"))
        (mi_fuAdd (Model.dayGanOf (Model.termByName l.terms "夏至"))) := by
  unfold Model.Lunar.fu mi_fuM1 mi_fuM2 mi_fuM3 mi_fuM4 mi_fuAdd
  simp only
  generalize Model.midnight l.solar = cur
  generalize Model.midnight (Model.termByName l.terms "立秋") = lq
  cases (Model.midnight (Model.termByName l.terms "夏至")).nextDay
      ((if 6 - Model.dayGanOf (Model.termByName l.terms "夏至") < 0 then
        6 - Model.dayGanOf (Model.termByName l.terms "夏至") + 10
        else 6 - Model.dayGanOf (Model.termByName l.terms "夏至")) + 20) with
  | none => rfl
  | some start =>
    simp only
    by_cases hb : cur.isBefore start = true
    · rw [if_pos hb, if_pos hb]; rfl
    · rw [if_neg hb, if_neg hb]
      cases cur.subtract start with
      | none => rfl
      | some days =>
        simp only
        by_cases hd : days < 10
        · rw [if_pos hd, if_pos hd]; rfl
        · rw [if_neg hd, if_neg hd]
          cases start.nextDay 10 with
          | none => rfl
          | some start2 =>
            simp only
            cases cur.subtract start2 with
            | none => rfl
            | some days2 =>
              simp only
              by_cases hd2 : days2 < 10
              · rw [if_pos hd2, if_pos hd2]; rfl
              · rw [if_neg hd2, if_neg hd2]
                cases start2.nextDay 10 with
                | none => rfl
                | some start3 =>
                  simp only
                  cases cur.subtract start3 with
                  | none => rfl
                  | some days3 =>
                    simp only
                    by_cases ha : lq.isAfter start3 = true
                    · rw [if_pos ha, if_pos ha]
                      by_cases hd3 : days3 < 10
                      · rw [if_pos hd3, if_pos hd3]; rfl
                      · rw [if_neg hd3, if_neg hd3]
                        cases start3.nextDay 10 with
                        | none => rfl
                        | some start4 =>
                          simp only
                          cases cur.subtract start4 with
                          | none => rfl
                          | some days4 =>
                            simp only
                            by_cases hd4 : days4 < 10
                            · rw [if_pos hd4, if_pos hd4]; rfl
                            · rw [if_neg hd4, if_neg hd4]; rfl
                    · rw [if_neg ha, if_neg ha]
                      by_cases hd3 : days3 < 10
                      · rw [if_pos hd3, if_pos hd3]; rfl
                      · rw [if_neg hd3, if_neg hd3]; rfl

theorem mi_nextDay_valid (s r : Model.Solar) (n : Int) (h : s.nextDay n = some r) : r.valid = true := by
  unfold Model.Solar.nextDay Model.newSolar at h
  simp only at h
  split at h
  · rename_i hv; injection h with h; subst h; exact hv
  · cases h

theorem mi_valid_month13 (r : Model.Solar) (h : r.valid = true) : r.month ≤ 13 := by
  have := c1_valid_month (ofM r) (by simpa using h)
  have e : (ofM r).month = r.month := rfl
  omega

theorem mi_fuG4_eq (fuel : Nat) (cur lqS start : Gen.Fn.Solar) (days : Int)
    (hc : cur.month ≤ 13) (hsv : (toM start).valid = true)
    (hnd10 : ∀ s : Model.Solar, s.valid = true → mi_NextDayOk fuel (ofM s) 10) :
    mi_fuG4 fuel cur lqS start days = mi_fuRes (mi_fuM4 (toM cur) (toM lqS) (toM start) days) := by
  have hnd := hnd10 (toM start) hsv
  unfold mi_NextDayOk at hnd
  simp only [ofM_toM] at hnd
  simp only [mi_fuG4, mi_fuM4, solarIsAfter_eq, c1_ok_bind, hnd]
  by_cases ha : (toM lqS).isAfter (toM start) = true
  · by_cases hd : days < 10
    · simp [ha, hd, mi_fuRes, Gen.Fn.calendar_NewFu]
    · cases hn : (toM start).nextDay 10 with
      | none => simp [ha, hd, mi_fuRes]
      | some r =>
        have hr := mi_valid_month13 r (mi_nextDay_valid _ _ _ hn)
        have hsub := solarSubtract_eq cur (ofM r) hc hr
        simp only [toM_ofM] at hsub
        cases hs : (toM cur).subtract r with
        | none => simp [ha, hd, mi_fuRes, hsub, hs]
        | some d4 =>
          by_cases hd4 : d4 < 10 <;> simp [ha, hd, mi_fuRes, hsub, hs, hd4, Gen.Fn.calendar_NewFu]
  · by_cases hd : days < 10 <;> simp [ha, hd, mi_fuRes, Gen.Fn.calendar_NewFu]

theorem mi_fuG3_eq (fuel : Nat) (cur liQiu start : Gen.Fn.Solar)
    (hc : cur.month ≤ 13) (hsv : (toM start).valid = true)
    (hvq : Model.validYmd liQiu.year liQiu.month liQiu.day = true)
    (hnd10 : ∀ s : Model.Solar, s.valid = true → mi_NextDayOk fuel (ofM s) 10) :
    mi_fuG3 fuel cur liQiu start =
      mi_fuRes (mi_fuM3 (toM cur) (Model.midnight (toM liQiu)) (toM start)) := by
  have hnd := hnd10 (toM start) hsv
  unfold mi_NextDayOk at hnd
  simp only [ofM_toM] at hnd
  simp only [mi_fuG3, mi_fuM3, hnd, getYear_eq, getMonth_eq, getDay_eq, c1_ok_bind]
  cases hn : (toM start).nextDay 10 with
  | none => rfl
  | some r =>
    have hrv := mi_nextDay_valid _ _ _ hn
    have hr := mi_valid_month13 r hrv
    have hsub := solarSubtract_eq cur (ofM r) hc hr
    simp only [toM_ofM] at hsub
    simp only [c1_ok_bind, hsub]
    cases hs : (toM cur).subtract r with
    | none => rfl
    | some d3 =>
      simp only [c1_ok_bind, mi_newYmd_midnight _ hvq]
      rw [mi_fuG4_eq fuel cur _ (ofM r) d3 hc (by simpa using hrv) hnd10]
      simp only [toM_ofM]

theorem mi_fuG2_eq (fuel : Nat) (cur liQiu start : Gen.Fn.Solar)
    (hc : cur.month ≤ 13) (hsv : (toM start).valid = true)
    (hvq : Model.validYmd liQiu.year liQiu.month liQiu.day = true)
    (hnd10 : ∀ s : Model.Solar, s.valid = true → mi_NextDayOk fuel (ofM s) 10) :
    mi_fuG2 fuel cur liQiu start =
      mi_fuRes (mi_fuM2 (toM cur) (Model.midnight (toM liQiu)) (toM start)) := by
  have hnd := hnd10 (toM start) hsv
  unfold mi_NextDayOk at hnd
  simp only [ofM_toM] at hnd
  simp only [mi_fuG2, mi_fuM2, hnd]
  cases hn : (toM start).nextDay 10 with
  | none => rfl
  | some r =>
    have hrv := mi_nextDay_valid _ _ _ hn
    have hr := mi_valid_month13 r hrv
    have hsub := solarSubtract_eq cur (ofM r) hc hr
    simp only [toM_ofM] at hsub
    simp only [c1_ok_bind, hsub]
    cases hs : (toM cur).subtract r with
    | none => rfl
    | some d2 =>
      simp only [c1_ok_bind]
      by_cases hd : d2 < 10
      · simp [hd, mi_fuRes, Gen.Fn.calendar_NewFu]
      · simp only [hd, decide_false, Bool.false_eq_true, if_false]
        rw [mi_fuG3_eq fuel cur liQiu (ofM r) hc (by simpa using hrv) hvq hnd10]
        simp only [toM_ofM]

theorem mi_fuG1_eq (fuel : Nat) (cur liQiu start : Gen.Fn.Solar) (add : Int)
    (hc : cur.month ≤ 13)
    (hvq : Model.validYmd liQiu.year liQiu.month liQiu.day = true)
    (hnd : mi_NextDayOk fuel start add)
    (hnd10 : ∀ s : Model.Solar, s.valid = true → mi_NextDayOk fuel (ofM s) 10) :
    mi_fuG1 fuel cur liQiu start add =
      mi_fuRes (mi_fuM1 (toM cur) (Model.midnight (toM liQiu)) (toM start) add) := by
  unfold mi_NextDayOk at hnd
  simp only [mi_fuG1, mi_fuM1, hnd]
  cases hn : (toM start).nextDay add with
  | none => rfl
  | some r =>
    have hrv := mi_nextDay_valid _ _ _ hn
    have hr := mi_valid_month13 r hrv
    have hsub := solarSubtract_eq cur (ofM r) hc hr
    simp only [toM_ofM] at hsub
    simp only [c1_ok_bind, hsub, solarIsBefore_eq, toM_ofM]
    by_cases hb : (toM cur).isBefore r = true
    · simp [hb, mi_fuRes]
    · simp only [hb]
      cases hs : (toM cur).subtract r with
      | none => rfl
      | some d1 =>
        simp only [c1_ok_bind]
        by_cases hd : d1 < 10
        · simp [hd, mi_fuRes, Gen.Fn.calendar_NewFu]
        · simp only [hd, decide_false, Bool.false_eq_true, if_false]
          rw [mi_fuG2_eq fuel cur liQiu (ofM r) hc (by simpa using hrv) hvq hnd10]
          simp only [toM_ofM]

/-- `Lunar.GetFu`.  Atoms: `a1` = `lunar.jieQi["夏至"]`, `a2` = `lunar.jieQi["立秋"]` (the model's term-table
entries), `a3` = `xiaZhi.GetLunar()` of which only the day stem index is read (= `Model.dayGanOf` of the
solstice).  Guards: the civil days of the receiver, of `a1` and of `a2` are valid days; the `NextDay` calls
are `mi_NextDayOk` (the first on the solstice day with the computed offset, the others with 10 days
on valid receivers).  The result is the model's index (the period name 初伏/中伏/末伏 is a string outside the
subset; the proof matches the generated `return`s one to one with the model's branches:
`mi_fuM1 … mi_fuM4`). -/
theorem lunarGetFu_eq (fuel : Nat) (a1 a2 : Gen.Fn.Solar) (a3 lunar : Gen.Fn.Lunar)
    (terms : List Model.Solar)
    (h1 : toM a1 = Model.termByName terms "夏至") (h2 : toM a2 = Model.termByName terms "立秋")
    (h3 : a3.dayGanIndex = Model.dayGanOf (toM a1))
    (hv : Model.validYmd lunar.solar.year lunar.solar.month lunar.solar.day = true)
    (hv1 : Model.validYmd a1.year a1.month a1.day = true)
    (hv2 : Model.validYmd a2.year a2.month a2.day = true)
    (hnd : mi_NextDayOk fuel (ofM (Model.midnight (toM a1))) (mi_fuAdd (Model.dayGanOf (toM a1))))
    (hnd10 : ∀ s : Model.Solar, s.valid = true → mi_NextDayOk fuel (ofM s) 10) :
    Gen.Fn.calendar_Lunar_GetFu fuel a1 a2 a3 lunar =
      mi_fuRes ((mi_lunarToM lunar terms).fu.map (Option.map Prod.snd)) := by
  rw [mi_fu_model, mi_fu_split, mi_newYmd_midnight _ hv, mi_newYmd_midnight _ hv1]
  simp only [c1_ok_bind]
  show _ = mi_fuRes (mi_fuM1 (Model.midnight (toM lunar.solar))
    (Model.midnight (Model.termByName terms "立秋")) (Model.midnight (Model.termByName terms "夏至"))
    (mi_fuAdd (Model.dayGanOf (Model.termByName terms "夏至"))))
  rw [← h1, ← h2, h3]
  have hcm : (ofM (Model.midnight (toM lunar.solar))).month ≤ 13 := by
    have := (mi_validYmd_facts _ _ _ hv).2.1
    show lunar.solar.month ≤ 13
    omega
  have := mi_fuG1_eq fuel (ofM (Model.midnight (toM lunar.solar))) a2 (ofM (Model.midnight (toM a1)))
    (mi_fuAdd (Model.dayGanOf (toM a1))) hcm hv2 hnd hnd10
  simp only [toM_ofM] at this
  exact this

theorem lunarGetFu_panic_current (fuel : Nat) (a1 a2 : Gen.Fn.Solar) (a3 lunar : Gen.Fn.Lunar)
    (hv : Model.validYmd lunar.solar.year lunar.solar.month lunar.solar.day = false) :
    Gen.Fn.calendar_Lunar_GetFu fuel a1 a2 a3 lunar = .error .panic := by
  rw [mi_fu_split, mi_newYmd_panic _ hv]; rfl



end FnEq
