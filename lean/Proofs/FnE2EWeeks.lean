/-
Proofs.FnE2EWeeks — end-to-end corollaries on the GENERATED GetWeeksOfMonth (number of week rows, index of the last day, range 3..6).
-/
import Proofs.CivilStep
import Proofs.CivilArith
import Proofs.FnCivil1
import Proofs.WeekSpec
import Proofs.FnWeek

namespace FnE2E

open FnEq

/-! ## 7. Weeks of a month -/

/-- `SolarUtil.GetWeeksOfMonth` in closed form (`Model.weeksOfMonth_eq`): the number of 7-day rows
needed for the month's days after the lead-in offset of its first day.  Atom `a1` =
`GetWeek(year, month, 1)`. -/
theorem getWeeksOfMonth_closed (a1 y m start : Int) (h1 : 1 ≤ m) (h12 : m ≤ 12)
    (ha : a1 = Model.week y m 1) (hs : 0 ≤ start ∧ start ≤ 6) :
    Gen.Fn.SolarUtil_GetWeeksOfMonth a1 y m start =
      .ok ((Model.daysOfMonth y m + (Model.jdn y m 1 + 7000001 - start) % 7 + 6) / 7) := by
  rw [getWeeksOfMonth_eq' a1 y m start h1 h12 ha, Model.weeksOfMonth_eq y m start hs]

/-- `SolarUtil.GetWeeksOfMonth` is the number of week rows `SolarMonth.GetWeeks(start)` lists
(`Model.monthWeeks_length`; its guards — year ≥ 1, not October 1582 — are carried over), and the
rows start 7 days apart from the first row's first day. -/
theorem getWeeksOfMonth_rows (a1 y m start : Int) (h1 : 1 ≤ m) (h12 : m ≤ 12)
    (ha : a1 = Model.week y m 1) (hy : 1 ≤ y) (hn : ¬ (y = 1582 ∧ m = 10))
    (hs : 0 ≤ start ∧ start ≤ 6) :
    ∃ rows : List Model.SolarWeek, Model.monthWeeks y m start = some rows ∧
      Gen.Fn.SolarUtil_GetWeeksOfMonth a1 y m start = .ok (rows.length : Int) ∧
      ∀ i : Nat, i < rows.length → ∃ w, rows[i]? = some w ∧ w.start = start ∧
        (∃ f, w.firstDay = some f ∧ f.jdn =
          (match (Model.SolarWeek.mk y m 1 start).firstDay with
            | some f0 => f0.jdn | none => 0) + 7 * i) := by
  obtain ⟨l, el, hlen, hget⟩ := Model.monthWeeks_length y m start hy ⟨h1, h12⟩ hn hs
  refine ⟨l, el, ?_, hget⟩
  rw [getWeeksOfMonth_eq' a1 y m start h1 h12 ha, hlen]

/-- `GetWeeksOfMonth` is the week-in-month index of the month's last day
(`Model.weeksOfMonth_eq_last_index_partial`, all months except October 1582). -/
theorem getWeeksOfMonth_last_index (a1 y m start : Int) (h1 : 1 ≤ m) (h12 : m ≤ 12)
    (ha : a1 = Model.week y m 1) (hn : ¬ (y = 1582 ∧ m = 10)) :
    Gen.Fn.SolarUtil_GetWeeksOfMonth a1 y m start =
      .ok (Model.SolarWeek.mk y m (Model.daysOfMonth y m) start).index := by
  rw [getWeeksOfMonth_eq' a1 y m start h1 h12 ha,
    Model.weeksOfMonth_eq_last_index_partial y m start hn]

/-- … and for October 1582 (21 existing days, last day numbered 31). -/
theorem getWeeksOfMonth_last_index_1582 (a1 start : Int) (ha : a1 = Model.week 1582 10 1) :
    Gen.Fn.SolarUtil_GetWeeksOfMonth a1 1582 10 start =
      .ok (Model.SolarWeek.mk 1582 10 31 start).index := by
  rw [getWeeksOfMonth_eq' a1 1582 10 start (by decide) (by decide) ha,
    Model.weeksOfMonth_eq_last_index_1582 start]

/-- a month has between 3 and 6 week rows (3 occurs: October 1582 has 21 days and begins on a
Monday, so with `start = 1` it fills exactly three rows; `Model.daysOfMonth_bounds`) -/
theorem getWeeksOfMonth_range (a1 y m start r : Int) (h1 : 1 ≤ m) (h12 : m ≤ 12)
    (ha : a1 = Model.week y m 1) (hs : 0 ≤ start ∧ start ≤ 6)
    (h : Gen.Fn.SolarUtil_GetWeeksOfMonth a1 y m start = .ok r) : 3 ≤ r ∧ r ≤ 6 := by
  rw [getWeeksOfMonth_closed a1 y m start h1 h12 ha hs] at h
  injection h with h
  subst h
  have hb := Model.daysOfMonth_bounds y m h1 h12
  omega

/-- the 3-row case is attained -/
theorem getWeeksOfMonth_oct1582_monday :
    Gen.Fn.SolarUtil_GetWeeksOfMonth (Model.week 1582 10 1) 1582 10 1 = .ok 3 := by
  rw [getWeeksOfMonth_closed _ 1582 10 1 (by decide) (by decide) rfl (by decide)]
  congr 1

/-- the month excluded from `getWeeksOfMonth_rows`: for October 1582 the row count agrees too
(checked for the seven week starts by evaluation of the model's `monthWeeks`) -/
theorem e2e_rows_1582 : (List.range 7).all (fun (s : Nat) =>
    (Model.monthWeeks 1582 10 (s : Int)).map (fun l => (l.length : Int)) ==
      some (Model.weeksOfMonth 1582 10 (s : Int))) = true := by decide

theorem getWeeksOfMonth_rows_1582 (a1 start : Int) (ha : a1 = Model.week 1582 10 1)
    (hs : 0 ≤ start ∧ start ≤ 6) :
    ∃ rows : List Model.SolarWeek, Model.monthWeeks 1582 10 start = some rows ∧
      Gen.Fn.SolarUtil_GetWeeksOfMonth a1 1582 10 start = .ok (rows.length : Int) := by
  rw [getWeeksOfMonth_eq' a1 1582 10 start (by decide) (by decide) ha]
  obtain ⟨k, rfl⟩ := Int.eq_ofNat_of_zero_le hs.1
  have hk : k < 7 := by omega
  have h := List.all_eq_true.mp e2e_rows_1582 k (List.mem_range.mpr hk)
  have h := eq_of_beq h
  cases e : Model.monthWeeks 1582 10 (k : Int) with
  | none => rw [e] at h; cases h
  | some rows =>
    rw [e] at h
    refine ⟨rows, rfl, ?_⟩
    injection h with h
    exact congrArg Except.ok h.symm


end FnE2E
