/-
Proofs.FnContains — calendar.contains: generated code = list membership (split from the worker's FnMisc; helper prefix `mi_`).
-/
import Proofs.FnMiscBase

namespace FnEq
open Gen.Fn

/-! ## 5. contains -/

theorem mi_idx_drop (arr : List Int) (s : Nat) (x : Int) (l : List Int) (h : arr.drop s = x :: l) :
    Gen.Fn.idx arr (0 + 1 * (s : Int)) = .ok x := by
  have h0 : ¬ (0 + 1 * (s : Int) < 0) := by omega
  have h1 : (0 + 1 * (s : Int)).toNat = s := by omega
  have h2 : arr[s]? = some x := by
    have := List.getElem?_drop (xs := arr) (i := s) (j := 0)
    rw [h] at this
    simpa using this.symm
  unfold Gen.Fn.idx
  rw [if_neg h0, h1, h2]
  rfl

theorem mi_contains_loop (arr : List Int) (n : Int) (l : List Int) (s : Nat) (h : arr.drop s = l) :
    forIn (m := Except Gen.Fn.Err) (List.range' s l.length 1) ((none : Option Bool), PUnit.unit)
      (fun (k1 : Nat) (__s : Option Bool × PUnit) => do
        let t3 ← Gen.Fn.idx arr (0 + 1 * (k1 : Int))
        if decide (n = t3) = true then pure (ForInStep.done (some true, ()))
        else pure (ForInStep.yield (none, ()))) =
      Except.ok (if n ∈ l then (some true, PUnit.unit) else (none, PUnit.unit)) := by
  induction l generalizing s with
  | nil => simp
  | cons x l ih =>
    have hd : arr.drop (s + 1) = l := by
      have := congrArg List.tail h
      simpa using this
    simp only [List.length_cons, List.range'_succ, List.forIn_cons, mi_idx_drop arr s x l h, c1_ok_bind]
    by_cases hx : n = x
    · simp [hx]
    · simp only [hx, decide_false, Bool.false_eq_true, if_false]
      refine (ih (s + 1) hd).trans ?_
      simp [hx]

theorem contains_eq (arr : List Int) (n : Int) :
    Gen.Fn.calendar_contains arr n = .ok (decide (n ∈ arr)) := by
  simp only [Gen.Fn.calendar_contains, Std.Legacy.Range.forIn_eq_forIn_range']
  have hsz : Std.Legacy.Range.size [:(((arr.length : Int) - 0 + 0) / 1).toNat] = arr.length := by
    simp [Std.Legacy.Range.size]
  rw [hsz]
  have := mi_contains_loop arr n arr 0 rfl
  simp only [c1_pure] at this ⊢
  rw [this]
  by_cases h : n ∈ arr <;> simp [h]

theorem contains_eq' (arr : List Int) (n : Int) :
    Gen.Fn.calendar_contains arr n = .ok (arr.contains n) := by
  rw [contains_eq]; congr 1; simp


end FnEq
