/-
FnS3 — string-mode generated accessors of the EIGHT-CHARACTER object (`Gen.FnS.EightChar`) and of the
hour object (`Gen.FnS.LunarTime`) tied to `Model.EightChar` / `Model.Almanac`.
-/
import Proofs.FnSBase
import Proofs.FnS2
set_option linter.unusedVariables false
namespace FnSEq
open Gen.Fn (Err)

/-! ### 0. conversion -/

def ecToM (e : Gen.FnS.EightChar) (terms : List Model.Solar) : Model.EightChar := ⟨e.sect, lunarToM e.lunar terms⟩

section
variable (e : Gen.FnS.EightChar) (t : List Model.Solar)
@[simp] theorem ecToM_sect : (ecToM e t).sect = e.sect := rfl
@[simp] theorem ecToM_lunar : (ecToM e t).lunar = lunarToM e.lunar t := rfl
@[simp] theorem ecToM_yearG : (ecToM e t).yearG = e.lunar.yearGanIndexExact := rfl
@[simp] theorem ecToM_yearZ : (ecToM e t).yearZ = e.lunar.yearZhiIndexExact := rfl
@[simp] theorem ecToM_monthG : (ecToM e t).monthG = e.lunar.monthGanIndexExact := rfl
@[simp] theorem ecToM_monthZ : (ecToM e t).monthZ = e.lunar.monthZhiIndexExact := rfl
theorem ecToM_dayG : (ecToM e t).dayG = if e.sect = 2 then e.lunar.dayGanIndexExact2 else e.lunar.dayGanIndexExact := rfl
theorem ecToM_dayZ : (ecToM e t).dayZ = if e.sect = 2 then e.lunar.dayZhiIndexExact2 else e.lunar.dayZhiIndexExact := rfl
@[simp] theorem ecToM_timeG : (ecToM e t).timeG = e.lunar.timeGanIndex := rfl
@[simp] theorem ecToM_timeZ : (ecToM e t).timeZ = e.lunar.timeZhiIndex := rfl
end

/-! ### 1. EightChar: stems, branches, pillars -/
section EC
variable (e : Gen.FnS.EightChar) (t : List Model.Solar)

theorem eightCharGetYearGan_eq (g0 : -1 ≤ (ecToM e t).yearG) (g1 : (ecToM e t).yearG < 10) :
    Gen.FnS.calendar_EightChar_GetYearGan e = .ok (Model.ganStr (ecToM e t).yearG) := by
  unfold Gen.FnS.calendar_EightChar_GetYearGan; rw [lunarGetYearGanExact_eq _ g0 g1]; rfl
theorem eightCharGetYearZhi_eq (z0 : -1 ≤ (ecToM e t).yearZ) (z1 : (ecToM e t).yearZ < 12) :
    Gen.FnS.calendar_EightChar_GetYearZhi e = .ok (Model.zhiStr (ecToM e t).yearZ) := by
  unfold Gen.FnS.calendar_EightChar_GetYearZhi; rw [lunarGetYearZhiExact_eq _ z0 z1]; rfl
theorem eightCharGetMonthGan_eq (g0 : -1 ≤ (ecToM e t).monthG) (g1 : (ecToM e t).monthG < 10) :
    Gen.FnS.calendar_EightChar_GetMonthGan e = .ok (Model.ganStr (ecToM e t).monthG) := by
  unfold Gen.FnS.calendar_EightChar_GetMonthGan; rw [lunarGetMonthGanExact_eq _ g0 g1]; rfl
theorem eightCharGetMonthZhi_eq (z0 : -1 ≤ (ecToM e t).monthZ) (z1 : (ecToM e t).monthZ < 12) :
    Gen.FnS.calendar_EightChar_GetMonthZhi e = .ok (Model.zhiStr (ecToM e t).monthZ) := by
  unfold Gen.FnS.calendar_EightChar_GetMonthZhi; rw [lunarGetMonthZhiExact_eq _ z0 z1]; rfl
theorem eightCharGetTimeGan_eq (g0 : -1 ≤ (ecToM e t).timeG) (g1 : (ecToM e t).timeG < 10) :
    Gen.FnS.calendar_EightChar_GetTimeGan e = .ok (Model.ganStr (ecToM e t).timeG) := by
  unfold Gen.FnS.calendar_EightChar_GetTimeGan; rw [lunarGetTimeGan_eq _ g0 g1]; rfl
theorem eightCharGetTimeZhi_eq (z0 : -1 ≤ (ecToM e t).timeZ) (z1 : (ecToM e t).timeZ < 12) :
    Gen.FnS.calendar_EightChar_GetTimeZhi e = .ok (Model.zhiStr (ecToM e t).timeZ) := by
  unfold Gen.FnS.calendar_EightChar_GetTimeZhi; rw [lunarGetTimeZhi_eq _ z0 z1]; rfl

theorem eightCharGetDayGan_eq (g0 : -1 ≤ (ecToM e t).dayG) (g1 : (ecToM e t).dayG < 10) :
    Gen.FnS.calendar_EightChar_GetDayGan e = .ok (Model.ganStr (ecToM e t).dayG) := by
  unfold Gen.FnS.calendar_EightChar_GetDayGan
  rw [ecToM_dayG] at g0 g1 ⊢
  by_cases hs : e.sect = 2
  · simp only [hs, if_true, decide_true] at g0 g1 ⊢
    rw [lunarGetDayGanExact2_eq _ g0 g1]
  · simp only [hs, if_false, decide_false] at g0 g1 ⊢
    rw [lunarGetDayGanExact_eq _ g0 g1]; rfl

theorem eightCharGetDayZhi_eq (z0 : -1 ≤ (ecToM e t).dayZ) (z1 : (ecToM e t).dayZ < 12) :
    Gen.FnS.calendar_EightChar_GetDayZhi e = .ok (Model.zhiStr (ecToM e t).dayZ) := by
  unfold Gen.FnS.calendar_EightChar_GetDayZhi
  rw [ecToM_dayZ] at z0 z1 ⊢
  by_cases hs : e.sect = 2
  · simp only [hs, if_true, decide_true] at z0 z1 ⊢
    rw [lunarGetDayZhiExact2_eq _ z0 z1]
  · simp only [hs, if_false, decide_false] at z0 z1 ⊢
    rw [lunarGetDayZhiExact_eq _ z0 z1]; rfl

/-- `GetDayGanIndex` / `GetDayZhiIndex`: the sect-selected indices (no guard) -/
theorem eightCharGetDayGanIndex_eq : Gen.FnS.calendar_EightChar_GetDayGanIndex e = .ok (ecToM e t).dayG := by
  unfold Gen.FnS.calendar_EightChar_GetDayGanIndex
  rw [ecToM_dayG]
  by_cases hs : e.sect = 2
  · simp only [hs, if_true, decide_true]; rfl
  · simp only [hs, if_false, decide_false]; rfl
theorem eightCharGetDayZhiIndex_eq : Gen.FnS.calendar_EightChar_GetDayZhiIndex e = .ok (ecToM e t).dayZ := by
  unfold Gen.FnS.calendar_EightChar_GetDayZhiIndex
  rw [ecToM_dayZ]
  by_cases hs : e.sect = 2
  · simp only [hs, if_true, decide_true]; rfl
  · simp only [hs, if_false, decide_false]; rfl

/- pillars -/
theorem eightCharGetYear_eq (g0 : -1 ≤ (ecToM e t).yearG) (g1 : (ecToM e t).yearG < 10)
    (z0 : -1 ≤ (ecToM e t).yearZ) (z1 : (ecToM e t).yearZ < 12) :
    Gen.FnS.calendar_EightChar_GetYear e = .ok (Model.EightChar.pillarStr (ecToM e t).yearG (ecToM e t).yearZ) := by
  unfold Gen.FnS.calendar_EightChar_GetYear; rw [lunarGetYearInGanZhiExact_eq _ g0 g1 z0 z1]; rfl
theorem eightCharGetMonth_eq (g0 : -1 ≤ (ecToM e t).monthG) (g1 : (ecToM e t).monthG < 10)
    (z0 : -1 ≤ (ecToM e t).monthZ) (z1 : (ecToM e t).monthZ < 12) :
    Gen.FnS.calendar_EightChar_GetMonth e = .ok (Model.EightChar.pillarStr (ecToM e t).monthG (ecToM e t).monthZ) := by
  unfold Gen.FnS.calendar_EightChar_GetMonth; rw [lunarGetMonthInGanZhiExact_eq _ g0 g1 z0 z1]; rfl
theorem eightCharGetTime_eq (g0 : -1 ≤ (ecToM e t).timeG) (g1 : (ecToM e t).timeG < 10)
    (z0 : -1 ≤ (ecToM e t).timeZ) (z1 : (ecToM e t).timeZ < 12) :
    Gen.FnS.calendar_EightChar_GetTime e = .ok (Model.EightChar.pillarStr (ecToM e t).timeG (ecToM e t).timeZ) := by
  unfold Gen.FnS.calendar_EightChar_GetTime; rw [lunarGetTimeInGanZhi_eq _ g0 g1 z0 z1]; rfl
/-- the day pillar: sect 2 reads the `Exact2` indices, any other sect the `Exact` ones (`dayG`/`dayZ`) -/
theorem eightCharGetDay_eq (g0 : -1 ≤ (ecToM e t).dayG) (g1 : (ecToM e t).dayG < 10)
    (z0 : -1 ≤ (ecToM e t).dayZ) (z1 : (ecToM e t).dayZ < 12) :
    Gen.FnS.calendar_EightChar_GetDay e = .ok (Model.EightChar.pillarStr (ecToM e t).dayG (ecToM e t).dayZ) := by
  unfold Gen.FnS.calendar_EightChar_GetDay
  rw [ecToM_dayG] at g0 g1 ⊢; rw [ecToM_dayZ] at z0 z1 ⊢
  by_cases hs : e.sect = 2
  · simp only [hs, if_true, decide_true] at g0 g1 z0 z1 ⊢
    rw [lunarGetDayInGanZhiExact2_eq _ g0 g1 z0 z1]
  · simp only [hs, if_false, decide_false] at g0 g1 z0 z1 ⊢
    rw [lunarGetDayInGanZhiExact_eq _ g0 g1 z0 z1]; rfl

/-- `EightChar.String` -/
theorem eightCharString_eq
    (yg0 : -1 ≤ (ecToM e t).yearG) (yg1 : (ecToM e t).yearG < 10) (yz0 : -1 ≤ (ecToM e t).yearZ) (yz1 : (ecToM e t).yearZ < 12)
    (mg0 : -1 ≤ (ecToM e t).monthG) (mg1 : (ecToM e t).monthG < 10) (mz0 : -1 ≤ (ecToM e t).monthZ) (mz1 : (ecToM e t).monthZ < 12)
    (dg0 : -1 ≤ (ecToM e t).dayG) (dg1 : (ecToM e t).dayG < 10) (dz0 : -1 ≤ (ecToM e t).dayZ) (dz1 : (ecToM e t).dayZ < 12)
    (tg0 : -1 ≤ (ecToM e t).timeG) (tg1 : (ecToM e t).timeG < 10) (tz0 : -1 ≤ (ecToM e t).timeZ) (tz1 : (ecToM e t).timeZ < 12) :
    Gen.FnS.calendar_EightChar_String e = .ok (
      Model.EightChar.pillarStr (ecToM e t).yearG (ecToM e t).yearZ ++ " " ++
      Model.EightChar.pillarStr (ecToM e t).monthG (ecToM e t).monthZ ++ " " ++
      Model.EightChar.pillarStr (ecToM e t).dayG (ecToM e t).dayZ ++ " " ++
      Model.EightChar.pillarStr (ecToM e t).timeG (ecToM e t).timeZ) := by
  unfold Gen.FnS.calendar_EightChar_String
  rw [eightCharGetYear_eq e t yg0 yg1 yz0 yz1, eightCharGetMonth_eq e t mg0 mg1 mz0 mz1,
    eightCharGetDay_eq e t dg0 dg1 dz0 dz1, eightCharGetTime_eq e t tg0 tg1 tz0 tz1]; rfl

/-! ### 2. EightChar: five elements, NaYin, ten gods -/

theorem eightCharGetYearWuXing_eq (g0 : -1 ≤ (ecToM e t).yearG) (g1 : (ecToM e t).yearG < 10)
    (z0 : -1 ≤ (ecToM e t).yearZ) (z1 : (ecToM e t).yearZ < 12) :
    Gen.FnS.calendar_EightChar_GetYearWuXing e = .ok (Model.EightChar.wuXing (ecToM e t).yearG (ecToM e t).yearZ) := by
  unfold Gen.FnS.calendar_EightChar_GetYearWuXing
  rw [eightCharGetYearGan_eq e t g0 g1, eightCharGetYearZhi_eq e t z0 z1]
  simp only [sb_bind_ok, mlookupS_eq_lookupStr]; rfl
theorem eightCharGetMonthWuXing_eq (g0 : -1 ≤ (ecToM e t).monthG) (g1 : (ecToM e t).monthG < 10)
    (z0 : -1 ≤ (ecToM e t).monthZ) (z1 : (ecToM e t).monthZ < 12) :
    Gen.FnS.calendar_EightChar_GetMonthWuXing e = .ok (Model.EightChar.wuXing (ecToM e t).monthG (ecToM e t).monthZ) := by
  unfold Gen.FnS.calendar_EightChar_GetMonthWuXing
  rw [eightCharGetMonthGan_eq e t g0 g1, eightCharGetMonthZhi_eq e t z0 z1]
  simp only [sb_bind_ok, mlookupS_eq_lookupStr]; rfl
theorem eightCharGetDayWuXing_eq (g0 : -1 ≤ (ecToM e t).dayG) (g1 : (ecToM e t).dayG < 10)
    (z0 : -1 ≤ (ecToM e t).dayZ) (z1 : (ecToM e t).dayZ < 12) :
    Gen.FnS.calendar_EightChar_GetDayWuXing e = .ok (Model.EightChar.wuXing (ecToM e t).dayG (ecToM e t).dayZ) := by
  unfold Gen.FnS.calendar_EightChar_GetDayWuXing
  rw [eightCharGetDayGan_eq e t g0 g1, eightCharGetDayZhi_eq e t z0 z1]
  simp only [sb_bind_ok, mlookupS_eq_lookupStr]; rfl
theorem eightCharGetTimeWuXing_eq (g0 : -1 ≤ (ecToM e t).timeG) (g1 : (ecToM e t).timeG < 10)
    (z0 : -1 ≤ (ecToM e t).timeZ) (z1 : (ecToM e t).timeZ < 12) :
    Gen.FnS.calendar_EightChar_GetTimeWuXing e = .ok (Model.EightChar.wuXing (ecToM e t).timeG (ecToM e t).timeZ) := by
  unfold Gen.FnS.calendar_EightChar_GetTimeWuXing
  rw [eightCharGetTimeGan_eq e t g0 g1, eightCharGetTimeZhi_eq e t z0 z1]
  simp only [sb_bind_ok, mlookupS_eq_lookupStr]; rfl

theorem eightCharGetYearNaYin_eq (g0 : -1 ≤ (ecToM e t).yearG) (g1 : (ecToM e t).yearG < 10)
    (z0 : -1 ≤ (ecToM e t).yearZ) (z1 : (ecToM e t).yearZ < 12) :
    Gen.FnS.calendar_EightChar_GetYearNaYin e = .ok (Model.EightChar.naYin (ecToM e t).yearG (ecToM e t).yearZ) := by
  unfold Gen.FnS.calendar_EightChar_GetYearNaYin
  rw [eightCharGetYear_eq e t g0 g1 z0 z1]
  simp only [sb_bind_ok, mlookupS_eq_lookupStr]; rfl
theorem eightCharGetMonthNaYin_eq (g0 : -1 ≤ (ecToM e t).monthG) (g1 : (ecToM e t).monthG < 10)
    (z0 : -1 ≤ (ecToM e t).monthZ) (z1 : (ecToM e t).monthZ < 12) :
    Gen.FnS.calendar_EightChar_GetMonthNaYin e = .ok (Model.EightChar.naYin (ecToM e t).monthG (ecToM e t).monthZ) := by
  unfold Gen.FnS.calendar_EightChar_GetMonthNaYin
  rw [eightCharGetMonth_eq e t g0 g1 z0 z1]
  simp only [sb_bind_ok, mlookupS_eq_lookupStr]; rfl
theorem eightCharGetDayNaYin_eq (g0 : -1 ≤ (ecToM e t).dayG) (g1 : (ecToM e t).dayG < 10)
    (z0 : -1 ≤ (ecToM e t).dayZ) (z1 : (ecToM e t).dayZ < 12) :
    Gen.FnS.calendar_EightChar_GetDayNaYin e = .ok (Model.EightChar.naYin (ecToM e t).dayG (ecToM e t).dayZ) := by
  unfold Gen.FnS.calendar_EightChar_GetDayNaYin
  rw [eightCharGetDay_eq e t g0 g1 z0 z1]
  simp only [sb_bind_ok, mlookupS_eq_lookupStr]; rfl
theorem eightCharGetTimeNaYin_eq (g0 : -1 ≤ (ecToM e t).timeG) (g1 : (ecToM e t).timeG < 10)
    (z0 : -1 ≤ (ecToM e t).timeZ) (z1 : (ecToM e t).timeZ < 12) :
    Gen.FnS.calendar_EightChar_GetTimeNaYin e = .ok (Model.EightChar.naYin (ecToM e t).timeG (ecToM e t).timeZ) := by
  unfold Gen.FnS.calendar_EightChar_GetTimeNaYin
  rw [eightCharGetTime_eq e t g0 g1 z0 z1]
  simp only [sb_bind_ok, mlookupS_eq_lookupStr]; rfl

theorem eightCharGetYearShiShenGan_eq (d0 : -1 ≤ (ecToM e t).dayG) (d1 : (ecToM e t).dayG < 10)
    (g0 : -1 ≤ (ecToM e t).yearG) (g1 : (ecToM e t).yearG < 10) :
    Gen.FnS.calendar_EightChar_GetYearShiShenGan e = .ok ((ecToM e t).shiShenGan (ecToM e t).yearG) := by
  unfold Gen.FnS.calendar_EightChar_GetYearShiShenGan
  rw [eightCharGetDayGan_eq e t d0 d1, eightCharGetYearGan_eq e t g0 g1]
  simp only [sb_bind_ok, mlookupS_eq_lookupStr]; rfl
theorem eightCharGetMonthShiShenGan_eq (d0 : -1 ≤ (ecToM e t).dayG) (d1 : (ecToM e t).dayG < 10)
    (g0 : -1 ≤ (ecToM e t).monthG) (g1 : (ecToM e t).monthG < 10) :
    Gen.FnS.calendar_EightChar_GetMonthShiShenGan e = .ok ((ecToM e t).shiShenGan (ecToM e t).monthG) := by
  unfold Gen.FnS.calendar_EightChar_GetMonthShiShenGan
  rw [eightCharGetDayGan_eq e t d0 d1, eightCharGetMonthGan_eq e t g0 g1]
  simp only [sb_bind_ok, mlookupS_eq_lookupStr]; rfl
theorem eightCharGetTimeShiShenGan_eq (d0 : -1 ≤ (ecToM e t).dayG) (d1 : (ecToM e t).dayG < 10)
    (g0 : -1 ≤ (ecToM e t).timeG) (g1 : (ecToM e t).timeG < 10) :
    Gen.FnS.calendar_EightChar_GetTimeShiShenGan e = .ok ((ecToM e t).shiShenGan (ecToM e t).timeG) := by
  unfold Gen.FnS.calendar_EightChar_GetTimeShiShenGan
  rw [eightCharGetDayGan_eq e t d0 d1, eightCharGetTimeGan_eq e t g0 g1]
  simp only [sb_bind_ok, mlookupS_eq_lookupStr]; rfl
/-- the day stem's own "ten god" is the constant 日主 (day master), NOT `shiShenGan e e.dayG` (which is 比肩) -/
theorem eightCharGetDayShiShenGan_eq : Gen.FnS.calendar_EightChar_GetDayShiShenGan e = .ok "日主" := rfl

end EC

/-! ### 3. EightChar: DiShi (twelve life stages) -/

theorem s3_tmod2 (x : Int) : (Int.tmod x 2 = 0) ↔ (x % 2 = 0) := by
  constructor
  · intro h; exact Int.emod_eq_zero_of_dvd (Int.dvd_of_tmod_eq_zero h)
  · intro h; exact Int.tmod_eq_zero_of_dvd (Int.dvd_of_emod_eq_zero h)

/-- the index into `CHANG_SHENG` computed by `getDiShi` (the model's `diShi` reads the table there) -/
def s3_diShiIndex (e : Model.EightChar) (zhiIndex : Int) : Int :=
  let base := (Model.lookupS Gen.Tables.calendar.changShengOffset (Model.ganStr e.dayG)).getD 0
  let i := if e.dayG % 2 = 0 then base + zhiIndex else base - zhiIndex
  let i := if i ≥ 12 then i - 12 else i
  if i < 0 then i + 12 else i

theorem s3_diShi_index (e : Model.EightChar) (z : Int) :
    e.diShi z = Model.strGetD Gen.Tables.calendar.CHANG_SHENG (s3_diShiIndex e z) := rfl

theorem s3_CHANG_SHENG_length : Gen.Tables.calendar.CHANG_SHENG.length = 12 := by decide

section DiShi
variable (e : Gen.FnS.EightChar) (t : List Model.Solar)

/-- what `getDiShi` does once the day stem is readable: the table read at `s3_diShiIndex`, with Go's bounds panic -/
theorem s3_getDiShi_total (z : Int) (d0 : -1 ≤ (ecToM e t).dayG) (d1 : (ecToM e t).dayG < 10) :
    Gen.FnS.calendar_EightChar_getDiShi e z =
      Gen.FnS.sidx Gen.Tables.calendar.CHANG_SHENG (s3_diShiIndex (ecToM e t) z) := by
  unfold Gen.FnS.calendar_EightChar_getDiShi
  rw [eightCharGetDayGan_eq e t d0 d1, eightCharGetDayGanIndex_eq e t]
  simp only [sb_bind_ok, mlookupI_eq, s3_diShiIndex]
  generalize (Model.lookupS Gen.Tables.calendar.changShengOffset (Model.ganStr (ecToM e t).dayG)).getD 0 = base
  by_cases hp : (ecToM e t).dayG % 2 = 0
  · have hp' : Int.tmod (ecToM e t).dayG 2 = 0 := (s3_tmod2 _).mpr hp
    simp only [hp, hp', decide_true, if_true]
    by_cases h1 : base + z ≥ 12
    · simp only [h1, decide_true, if_true]
      by_cases h2 : base + z - 12 < 0
      · simp [h2]
      · simp [h2]
    · simp only [h1, decide_false, if_false]
      by_cases h2 : base + z < 0
      · simp [h2]
      · simp [h2]
  · have hp' : ¬ Int.tmod (ecToM e t).dayG 2 = 0 := fun h => hp ((s3_tmod2 _).mp h)
    simp only [hp, hp', decide_false, if_false]
    by_cases h1 : base - z ≥ 12
    · simp only [h1, decide_true, if_true]
      by_cases h2 : base - z - 12 < 0
      · simp [h2]
      · simp [h2]
    · simp only [h1, decide_false, if_false]
      by_cases h2 : base - z < 0
      · simp [h2]
      · simp [h2]

/-- private `getDiShi(zhiIndex)`: equal to the model whenever the computed index lies inside the 12-entry table -/
theorem eightCharGetDiShi_eq (z : Int) (d0 : -1 ≤ (ecToM e t).dayG) (d1 : (ecToM e t).dayG < 10)
    (i0 : 0 ≤ s3_diShiIndex (ecToM e t) z) (i1 : s3_diShiIndex (ecToM e t) z < 12) :
    Gen.FnS.calendar_EightChar_getDiShi e z = .ok ((ecToM e t).diShi z) := by
  rw [s3_getDiShi_total e t z d0 d1, s3_diShi_index]
  exact sidx_eq_strGetD _ _ i0 (by rw [s3_CHANG_SHENG_length]; exact_mod_cast i1)

theorem eightCharGetDiShi_panic (z : Int) (d0 : -1 ≤ (ecToM e t).dayG) (d1 : (ecToM e t).dayG < 10)
    (h : s3_diShiIndex (ecToM e t) z < 0 ∨ 12 ≤ s3_diShiIndex (ecToM e t) z) :
    Gen.FnS.calendar_EightChar_getDiShi e z = .error .panic := by
  rw [s3_getDiShi_total e t z d0 d1]
  exact sidx_panic _ _ (by rw [s3_CHANG_SHENG_length]; exact_mod_cast h)

end DiShi

/-- every stem's offset in `changShengOffset` is a table position -/
theorem s3_changShengOffset_range (g : Int) (g0 : -1 ≤ g) (g1 : g < 10) :
    0 ≤ (Model.lookupS Gen.Tables.calendar.changShengOffset (Model.ganStr g)).getD 0 ∧
    (Model.lookupS Gen.Tables.calendar.changShengOffset (Model.ganStr g)).getD 0 ≤ 11 := by
  have key : ∀ n : Fin 11, 0 ≤ (Model.lookupS Gen.Tables.calendar.changShengOffset (Model.ganStr ((n.val : Int) - 1))).getD 0 ∧
      (Model.lookupS Gen.Tables.calendar.changShengOffset (Model.ganStr ((n.val : Int) - 1))).getD 0 ≤ 11 := by decide
  have h := key ⟨(g + 1).toNat, by omega⟩
  have hg : (((g + 1).toNat : Nat) : Int) - 1 = g := by omega
  simpa only [hg] using h

/-- for stems −1..9 and branches −12..12 the index is inside the table -/
theorem s3_diShiIndex_range (e : Model.EightChar) (z : Int) (d0 : -1 ≤ e.dayG) (d1 : e.dayG < 10)
    (z0 : -12 ≤ z) (z1 : z ≤ 12) : 0 ≤ s3_diShiIndex e z ∧ s3_diShiIndex e z < 12 := by
  have hb := s3_changShengOffset_range e.dayG d0 d1
  unfold s3_diShiIndex
  generalize (Model.lookupS Gen.Tables.calendar.changShengOffset (Model.ganStr e.dayG)).getD 0 = base at hb ⊢
  simp only []
  split <;> split <;> split <;> omega

section DiShi2
variable (e : Gen.FnS.EightChar) (t : List Model.Solar)

/-- `getDiShi` with the ranges every library-built object satisfies -/
theorem eightCharGetDiShi_eq' (z : Int) (d0 : -1 ≤ (ecToM e t).dayG) (d1 : (ecToM e t).dayG < 10)
    (z0 : -12 ≤ z) (z1 : z ≤ 12) :
    Gen.FnS.calendar_EightChar_getDiShi e z = .ok ((ecToM e t).diShi z) :=
  eightCharGetDiShi_eq e t z d0 d1 (s3_diShiIndex_range _ z d0 d1 z0 z1).1 (s3_diShiIndex_range _ z d0 d1 z0 z1).2

theorem eightCharGetYearDiShi_eq (d0 : -1 ≤ (ecToM e t).dayG) (d1 : (ecToM e t).dayG < 10)
    (z0 : -12 ≤ (ecToM e t).yearZ) (z1 : (ecToM e t).yearZ ≤ 12) :
    Gen.FnS.calendar_EightChar_GetYearDiShi e = .ok (ecToM e t).yearDiShi := by
  unfold Gen.FnS.calendar_EightChar_GetYearDiShi
  simp only [lunarGetYearZhiIndexExact_eq, sb_bind_ok]
  exact eightCharGetDiShi_eq' e t _ d0 d1 z0 z1
theorem eightCharGetMonthDiShi_eq (d0 : -1 ≤ (ecToM e t).dayG) (d1 : (ecToM e t).dayG < 10)
    (z0 : -12 ≤ (ecToM e t).monthZ) (z1 : (ecToM e t).monthZ ≤ 12) :
    Gen.FnS.calendar_EightChar_GetMonthDiShi e = .ok (ecToM e t).monthDiShi := by
  unfold Gen.FnS.calendar_EightChar_GetMonthDiShi
  simp only [lunarGetMonthZhiIndexExact_eq, sb_bind_ok]
  exact eightCharGetDiShi_eq' e t _ d0 d1 z0 z1
/-- after the `fix:` commit the day stage uses the sect-selected branch `dayZ` -/
theorem eightCharGetDayDiShi_eq (d0 : -1 ≤ (ecToM e t).dayG) (d1 : (ecToM e t).dayG < 10)
    (z0 : -12 ≤ (ecToM e t).dayZ) (z1 : (ecToM e t).dayZ ≤ 12) :
    Gen.FnS.calendar_EightChar_GetDayDiShi e = .ok (ecToM e t).dayDiShi := by
  unfold Gen.FnS.calendar_EightChar_GetDayDiShi
  rw [eightCharGetDayZhiIndex_eq e t]
  simp only [sb_bind_ok]
  rw [eightCharGetDiShi_eq' e t _ d0 d1 z0 z1]; rfl
theorem eightCharGetTimeDiShi_eq (d0 : -1 ≤ (ecToM e t).dayG) (d1 : (ecToM e t).dayG < 10)
    (z0 : -12 ≤ (ecToM e t).timeZ) (z1 : (ecToM e t).timeZ ≤ 12) :
    Gen.FnS.calendar_EightChar_GetTimeDiShi e = .ok (ecToM e t).timeDiShi := by
  unfold Gen.FnS.calendar_EightChar_GetTimeDiShi
  simp only [lunarGetTimeZhiIndex_eq, sb_bind_ok]
  exact eightCharGetDiShi_eq' e t _ d0 d1 z0 z1
end DiShi2

/-! ### 4. the hour object `LunarTime` — second route of the route-agreement property: every accessor is the SAME model
function (`Model.positionXi`, `Model.chong`, `Model.tianShen` …) that the `Lunar.GetTimeX` accessors use, applied to the
object's own `ganIndex` / `zhiIndex` (and the day branch `lunar.dayZhiIndexExact` for the heavenly spirit). -/

theorem s3_len_POSITION_XI : Gen.Tables.LunarUtil.POSITION_XI.length = 11 := by decide
theorem s3_len_POSITION_YANG_GUI : Gen.Tables.LunarUtil.POSITION_YANG_GUI.length = 11 := by decide
theorem s3_len_POSITION_YIN_GUI : Gen.Tables.LunarUtil.POSITION_YIN_GUI.length = 11 := by decide
theorem s3_len_POSITION_FU : Gen.Tables.LunarUtil.POSITION_FU.length = 11 := by decide
theorem s3_len_POSITION_FU_2 : Gen.Tables.LunarUtil.POSITION_FU_2.length = 11 := by decide
theorem s3_len_POSITION_CAI : Gen.Tables.LunarUtil.POSITION_CAI.length = 11 := by decide
theorem s3_len_CHONG : Gen.Tables.LunarUtil.CHONG.length = 12 := by decide
theorem s3_len_CHONG_GAN : Gen.Tables.LunarUtil.CHONG_GAN.length = 10 := by decide
theorem s3_len_CHONG_GAN_TIE : Gen.Tables.LunarUtil.CHONG_GAN_TIE.length = 10 := by decide
theorem s3_len_SHENG_XIAO : Gen.Tables.LunarUtil.SHENG_XIAO.length = 13 := by decide
theorem s3_len_TIAN_SHEN : Gen.Tables.LunarUtil.TIAN_SHEN.length = 13 := by decide

section LT
variable (lt : Gen.FnS.LunarTime)

@[simp] theorem lunarTimeGetGanIndex_eq : Gen.FnS.calendar_LunarTime_GetGanIndex lt = .ok lt.ganIndex := rfl

theorem lunarTimeGetGan_eq (g0 : -1 ≤ lt.ganIndex) (g1 : lt.ganIndex < 10) :
    Gen.FnS.calendar_LunarTime_GetGan lt = .ok (Model.ganStr lt.ganIndex) := by
  unfold Gen.FnS.calendar_LunarTime_GetGan; rw [sidx_GAN _ g0 g1]
theorem lunarTimeGetGan_panic (h : lt.ganIndex < -1 ∨ 10 ≤ lt.ganIndex) :
    Gen.FnS.calendar_LunarTime_GetGan lt = .error .panic := by
  unfold Gen.FnS.calendar_LunarTime_GetGan; rw [sidx_GAN_panic _ h]
theorem lunarTimeGetZhi_eq (z0 : -1 ≤ lt.zhiIndex) (z1 : lt.zhiIndex < 12) :
    Gen.FnS.calendar_LunarTime_GetZhi lt = .ok (Model.zhiStr lt.zhiIndex) := by
  unfold Gen.FnS.calendar_LunarTime_GetZhi; rw [sidx_ZHI _ z0 z1]
theorem lunarTimeGetZhi_panic (h : lt.zhiIndex < -1 ∨ 12 ≤ lt.zhiIndex) :
    Gen.FnS.calendar_LunarTime_GetZhi lt = .error .panic := by
  unfold Gen.FnS.calendar_LunarTime_GetZhi; rw [sidx_ZHI_panic _ h]
theorem lunarTimeGetGanZhi_eq (g0 : -1 ≤ lt.ganIndex) (g1 : lt.ganIndex < 10) (z0 : -1 ≤ lt.zhiIndex) (z1 : lt.zhiIndex < 12) :
    Gen.FnS.calendar_LunarTime_GetGanZhi lt = .ok (Model.EightChar.pillarStr lt.ganIndex lt.zhiIndex) := by
  unfold Gen.FnS.calendar_LunarTime_GetGanZhi
  rw [lunarTimeGetGan_eq lt g0 g1, lunarTimeGetZhi_eq lt z0 z1]; rfl

theorem lunarTimeGetShengXiao_eq (z0 : -1 ≤ lt.zhiIndex) (z1 : lt.zhiIndex < 12) :
    Gen.FnS.calendar_LunarTime_GetShengXiao lt = .ok (Model.shengXiao lt.zhiIndex) := by
  unfold Gen.FnS.calendar_LunarTime_GetShengXiao
  rw [sidx_eq_strGetD _ _ (by omega) (by rw [s3_len_SHENG_XIAO]; omega)]; rfl
theorem lunarTimeGetShengXiao_panic (h : lt.zhiIndex < -1 ∨ 12 ≤ lt.zhiIndex) :
    Gen.FnS.calendar_LunarTime_GetShengXiao lt = .error .panic := by
  unfold Gen.FnS.calendar_LunarTime_GetShengXiao
  rw [sidx_panic _ _ (by rw [s3_len_SHENG_XIAO]; omega)]

/- positions by stem -/
theorem lunarTimeGetPositionXi_eq (g0 : -1 ≤ lt.ganIndex) (g1 : lt.ganIndex < 10) :
    Gen.FnS.calendar_LunarTime_GetPositionXi lt = .ok (Model.positionXi lt.ganIndex) := by
  unfold Gen.FnS.calendar_LunarTime_GetPositionXi
  rw [sidx_eq_strGetD _ _ (by omega) (by rw [s3_len_POSITION_XI]; omega)]; rfl
theorem lunarTimeGetPositionXi_panic (h : lt.ganIndex < -1 ∨ 10 ≤ lt.ganIndex) :
    Gen.FnS.calendar_LunarTime_GetPositionXi lt = .error .panic := by
  unfold Gen.FnS.calendar_LunarTime_GetPositionXi
  rw [sidx_panic _ _ (by rw [s3_len_POSITION_XI]; omega)]
theorem lunarTimeGetPositionXiDesc_eq (g0 : -1 ≤ lt.ganIndex) (g1 : lt.ganIndex < 10) :
    Gen.FnS.calendar_LunarTime_GetPositionXiDesc lt = .ok (Model.positionDesc (Model.positionXi lt.ganIndex)) := by
  unfold Gen.FnS.calendar_LunarTime_GetPositionXiDesc
  rw [lunarTimeGetPositionXi_eq lt g0 g1]; simp only [sb_bind_ok, mlookupS_eq_lookupStr]; rfl

theorem lunarTimeGetPositionYangGui_eq (g0 : -1 ≤ lt.ganIndex) (g1 : lt.ganIndex < 10) :
    Gen.FnS.calendar_LunarTime_GetPositionYangGui lt = .ok (Model.positionYangGui lt.ganIndex) := by
  unfold Gen.FnS.calendar_LunarTime_GetPositionYangGui
  rw [sidx_eq_strGetD _ _ (by omega) (by rw [s3_len_POSITION_YANG_GUI]; omega)]; rfl
theorem lunarTimeGetPositionYangGui_panic (h : lt.ganIndex < -1 ∨ 10 ≤ lt.ganIndex) :
    Gen.FnS.calendar_LunarTime_GetPositionYangGui lt = .error .panic := by
  unfold Gen.FnS.calendar_LunarTime_GetPositionYangGui
  rw [sidx_panic _ _ (by rw [s3_len_POSITION_YANG_GUI]; omega)]
theorem lunarTimeGetPositionYangGuiDesc_eq (g0 : -1 ≤ lt.ganIndex) (g1 : lt.ganIndex < 10) :
    Gen.FnS.calendar_LunarTime_GetPositionYangGuiDesc lt = .ok (Model.positionDesc (Model.positionYangGui lt.ganIndex)) := by
  unfold Gen.FnS.calendar_LunarTime_GetPositionYangGuiDesc
  rw [lunarTimeGetPositionYangGui_eq lt g0 g1]; simp only [sb_bind_ok, mlookupS_eq_lookupStr]; rfl

theorem lunarTimeGetPositionYinGui_eq (g0 : -1 ≤ lt.ganIndex) (g1 : lt.ganIndex < 10) :
    Gen.FnS.calendar_LunarTime_GetPositionYinGui lt = .ok (Model.positionYinGui lt.ganIndex) := by
  unfold Gen.FnS.calendar_LunarTime_GetPositionYinGui
  rw [sidx_eq_strGetD _ _ (by omega) (by rw [s3_len_POSITION_YIN_GUI]; omega)]; rfl
theorem lunarTimeGetPositionYinGui_panic (h : lt.ganIndex < -1 ∨ 10 ≤ lt.ganIndex) :
    Gen.FnS.calendar_LunarTime_GetPositionYinGui lt = .error .panic := by
  unfold Gen.FnS.calendar_LunarTime_GetPositionYinGui
  rw [sidx_panic _ _ (by rw [s3_len_POSITION_YIN_GUI]; omega)]
theorem lunarTimeGetPositionYinGuiDesc_eq (g0 : -1 ≤ lt.ganIndex) (g1 : lt.ganIndex < 10) :
    Gen.FnS.calendar_LunarTime_GetPositionYinGuiDesc lt = .ok (Model.positionDesc (Model.positionYinGui lt.ganIndex)) := by
  unfold Gen.FnS.calendar_LunarTime_GetPositionYinGuiDesc
  rw [lunarTimeGetPositionYinGui_eq lt g0 g1]; simp only [sb_bind_ok, mlookupS_eq_lookupStr]; rfl

theorem lunarTimeGetPositionCai_eq (g0 : -1 ≤ lt.ganIndex) (g1 : lt.ganIndex < 10) :
    Gen.FnS.calendar_LunarTime_GetPositionCai lt = .ok (Model.positionCai lt.ganIndex) := by
  unfold Gen.FnS.calendar_LunarTime_GetPositionCai
  rw [sidx_eq_strGetD _ _ (by omega) (by rw [s3_len_POSITION_CAI]; omega)]; rfl
theorem lunarTimeGetPositionCai_panic (h : lt.ganIndex < -1 ∨ 10 ≤ lt.ganIndex) :
    Gen.FnS.calendar_LunarTime_GetPositionCai lt = .error .panic := by
  unfold Gen.FnS.calendar_LunarTime_GetPositionCai
  rw [sidx_panic _ _ (by rw [s3_len_POSITION_CAI]; omega)]
theorem lunarTimeGetPositionCaiDesc_eq (g0 : -1 ≤ lt.ganIndex) (g1 : lt.ganIndex < 10) :
    Gen.FnS.calendar_LunarTime_GetPositionCaiDesc lt = .ok (Model.positionDesc (Model.positionCai lt.ganIndex)) := by
  unfold Gen.FnS.calendar_LunarTime_GetPositionCaiDesc
  rw [lunarTimeGetPositionCai_eq lt g0 g1]; simp only [sb_bind_ok, mlookupS_eq_lookupStr]; rfl

/-- `GetPositionFuBySect(sect)`: school 1 reads `POSITION_FU`, every other value `POSITION_FU_2` -/
theorem lunarTimeGetPositionFuBySect_eq (sect : Int) (g0 : -1 ≤ lt.ganIndex) (g1 : lt.ganIndex < 10) :
    Gen.FnS.calendar_LunarTime_GetPositionFuBySect lt sect = .ok (Model.positionFu lt.ganIndex sect) := by
  unfold Gen.FnS.calendar_LunarTime_GetPositionFuBySect Model.positionFu
  by_cases hs : sect = 1
  · subst hs
    simp only [decide_true, if_true]
    rw [sidx_eq_strGetD _ _ (by omega) (by rw [s3_len_POSITION_FU]; omega)]
  · have hs' : ¬ (1 = sect) := fun h => hs h.symm
    simp only [hs, hs', decide_false, Bool.false_eq_true, if_false]
    rw [sidx_eq_strGetD _ _ (by omega) (by rw [s3_len_POSITION_FU_2]; omega)]
theorem lunarTimeGetPositionFuBySect_panic (sect : Int) (h : lt.ganIndex < -1 ∨ 10 ≤ lt.ganIndex) :
    Gen.FnS.calendar_LunarTime_GetPositionFuBySect lt sect = .error .panic := by
  unfold Gen.FnS.calendar_LunarTime_GetPositionFuBySect
  by_cases hs : 1 = sect
  · simp only [hs, decide_true, if_true]
    rw [sidx_panic _ _ (by rw [s3_len_POSITION_FU]; omega)]
  · simp only [hs, decide_false, Bool.false_eq_true, if_false]
    rw [sidx_panic _ _ (by rw [s3_len_POSITION_FU_2]; omega)]
theorem lunarTimeGetPositionFu_eq (g0 : -1 ≤ lt.ganIndex) (g1 : lt.ganIndex < 10) :
    Gen.FnS.calendar_LunarTime_GetPositionFu lt = .ok (Model.positionFu lt.ganIndex 2) := by
  unfold Gen.FnS.calendar_LunarTime_GetPositionFu
  rw [lunarTimeGetPositionFuBySect_eq lt 2 g0 g1]
theorem lunarTimeGetPositionFuDescBySect_eq (sect : Int) (g0 : -1 ≤ lt.ganIndex) (g1 : lt.ganIndex < 10) :
    Gen.FnS.calendar_LunarTime_GetPositionFuDescBySect lt sect
      = .ok (Model.positionDesc (Model.positionFu lt.ganIndex sect)) := by
  unfold Gen.FnS.calendar_LunarTime_GetPositionFuDescBySect
  rw [lunarTimeGetPositionFuBySect_eq lt sect g0 g1]; simp only [sb_bind_ok, mlookupS_eq_lookupStr]; rfl
theorem lunarTimeGetPositionFuDesc_eq (g0 : -1 ≤ lt.ganIndex) (g1 : lt.ganIndex < 10) :
    Gen.FnS.calendar_LunarTime_GetPositionFuDesc lt = .ok (Model.positionDesc (Model.positionFu lt.ganIndex 2)) := by
  unfold Gen.FnS.calendar_LunarTime_GetPositionFuDesc
  rw [lunarTimeGetPositionFuDescBySect_eq lt 2 g0 g1]

/- NaYin, Sha -/
theorem lunarTimeGetNaYin_eq (g0 : -1 ≤ lt.ganIndex) (g1 : lt.ganIndex < 10) (z0 : -1 ≤ lt.zhiIndex) (z1 : lt.zhiIndex < 12) :
    Gen.FnS.calendar_LunarTime_GetNaYin lt = .ok (Model.naYinOf lt.ganIndex lt.zhiIndex) := by
  unfold Gen.FnS.calendar_LunarTime_GetNaYin
  rw [lunarTimeGetGanZhi_eq lt g0 g1 z0 z1]; simp only [sb_bind_ok, mlookupS_eq_lookupStr]; rfl
theorem lunarTimeGetSha_eq (z0 : -1 ≤ lt.zhiIndex) (z1 : lt.zhiIndex < 12) :
    Gen.FnS.calendar_LunarTime_GetSha lt = .ok (Model.sha lt.zhiIndex) := by
  unfold Gen.FnS.calendar_LunarTime_GetSha
  rw [lunarTimeGetZhi_eq lt z0 z1]; simp only [sb_bind_ok, mlookupS_eq_lookupStr]; rfl

/- clash: the tables `CHONG` (12), `CHONG_GAN`, `CHONG_GAN_TIE` (10) have NO leading "" entry: index −1 panics -/
theorem lunarTimeGetChong_eq (z0 : 0 ≤ lt.zhiIndex) (z1 : lt.zhiIndex < 12) :
    Gen.FnS.calendar_LunarTime_GetChong lt = .ok (Model.chong lt.zhiIndex) := by
  unfold Gen.FnS.calendar_LunarTime_GetChong
  rw [sidx_eq_strGetD _ _ z0 (by rw [s3_len_CHONG]; omega)]; rfl
theorem lunarTimeGetChong_panic (h : lt.zhiIndex < 0 ∨ 12 ≤ lt.zhiIndex) :
    Gen.FnS.calendar_LunarTime_GetChong lt = .error .panic := by
  unfold Gen.FnS.calendar_LunarTime_GetChong
  rw [sidx_panic _ _ (by rw [s3_len_CHONG]; omega)]
theorem lunarTimeGetChongGan_eq (g0 : 0 ≤ lt.ganIndex) (g1 : lt.ganIndex < 10) :
    Gen.FnS.calendar_LunarTime_GetChongGan lt = .ok (Model.chongGan lt.ganIndex) := by
  unfold Gen.FnS.calendar_LunarTime_GetChongGan
  rw [sidx_eq_strGetD _ _ g0 (by rw [s3_len_CHONG_GAN]; omega)]; rfl
theorem lunarTimeGetChongGan_panic (h : lt.ganIndex < 0 ∨ 10 ≤ lt.ganIndex) :
    Gen.FnS.calendar_LunarTime_GetChongGan lt = .error .panic := by
  unfold Gen.FnS.calendar_LunarTime_GetChongGan
  rw [sidx_panic _ _ (by rw [s3_len_CHONG_GAN]; omega)]
theorem lunarTimeGetChongGanTie_eq (g0 : 0 ≤ lt.ganIndex) (g1 : lt.ganIndex < 10) :
    Gen.FnS.calendar_LunarTime_GetChongGanTie lt = .ok (Model.chongGanTie lt.ganIndex) := by
  unfold Gen.FnS.calendar_LunarTime_GetChongGanTie
  rw [sidx_eq_strGetD _ _ g0 (by rw [s3_len_CHONG_GAN_TIE]; omega)]; rfl
theorem lunarTimeGetChongGanTie_panic (h : lt.ganIndex < 0 ∨ 10 ≤ lt.ganIndex) :
    Gen.FnS.calendar_LunarTime_GetChongGanTie lt = .error .panic := by
  unfold Gen.FnS.calendar_LunarTime_GetChongGanTie
  rw [sidx_panic _ _ (by rw [s3_len_CHONG_GAN_TIE]; omega)]

end LT

/-! ### 5. hour object: heavenly spirit -/

/-- every branch's offset in `ZHI_TIAN_SHEN_OFFSET` is non-negative -/
theorem s3_tianShenOffset_nonneg (z : Int) (z0 : -1 ≤ z) (z1 : z < 12) :
    0 ≤ (Model.lookupS Gen.Tables.LunarUtil.ZHI_TIAN_SHEN_OFFSET (Model.zhiStr z)).getD 0 := by
  have key : ∀ n : Fin 13, 0 ≤ (Model.lookupS Gen.Tables.LunarUtil.ZHI_TIAN_SHEN_OFFSET (Model.zhiStr ((n.val : Int) - 1))).getD 0 := by
    decide
  have h := key ⟨(z + 1).toNat, by omega⟩
  have hg : (((z + 1).toNat : Nat) : Int) - 1 = z := by omega
  simpa only [hg] using h

section LT2
variable (lt : Gen.FnS.LunarTime)

/-- `GetTianShen`: Go's truncating `%` equals the model's `%` as soon as `zhiIndex + offset ≥ 0` -/
theorem lunarTimeGetTianShen_eq' (d0 : -1 ≤ lt.lunar.dayZhiIndexExact) (d1 : lt.lunar.dayZhiIndexExact < 12)
    (h : 0 ≤ lt.zhiIndex + (Model.lookupS Gen.Tables.LunarUtil.ZHI_TIAN_SHEN_OFFSET (Model.zhiStr lt.lunar.dayZhiIndexExact)).getD 0) :
    Gen.FnS.calendar_LunarTime_GetTianShen lt = .ok (Model.tianShen lt.zhiIndex lt.lunar.dayZhiIndexExact) := by
  unfold Gen.FnS.calendar_LunarTime_GetTianShen Model.tianShen
  rw [lunarGetDayZhiExact_eq _ d0 d1]
  simp only [sb_bind_ok, mlookupI_eq]
  rw [Int.tmod_eq_emod_of_nonneg h]
  generalize lt.zhiIndex + (Model.lookupS Gen.Tables.LunarUtil.ZHI_TIAN_SHEN_OFFSET (Model.zhiStr lt.lunar.dayZhiIndexExact)).getD 0 = x
  rw [sidx_eq_strGetD _ _ (by omega) (by rw [s3_len_TIAN_SHEN]; omega)]

theorem lunarTimeGetTianShen_eq (z0 : 0 ≤ lt.zhiIndex) (d0 : -1 ≤ lt.lunar.dayZhiIndexExact) (d1 : lt.lunar.dayZhiIndexExact < 12) :
    Gen.FnS.calendar_LunarTime_GetTianShen lt = .ok (Model.tianShen lt.zhiIndex lt.lunar.dayZhiIndexExact) :=
  lunarTimeGetTianShen_eq' lt d0 d1 (by have := s3_tianShenOffset_nonneg _ d0 d1; omega)

theorem lunarTimeGetTianShenType_eq (z0 : 0 ≤ lt.zhiIndex) (d0 : -1 ≤ lt.lunar.dayZhiIndexExact) (d1 : lt.lunar.dayZhiIndexExact < 12) :
    Gen.FnS.calendar_LunarTime_GetTianShenType lt
      = .ok (Model.tianShenType (Model.tianShen lt.zhiIndex lt.lunar.dayZhiIndexExact)) := by
  unfold Gen.FnS.calendar_LunarTime_GetTianShenType
  rw [lunarTimeGetTianShen_eq lt z0 d0 d1]; simp only [sb_bind_ok, mlookupS_eq_lookupStr]; rfl

theorem lunarTimeGetTianShenLuck_eq (z0 : 0 ≤ lt.zhiIndex) (d0 : -1 ≤ lt.lunar.dayZhiIndexExact) (d1 : lt.lunar.dayZhiIndexExact < 12) :
    Gen.FnS.calendar_LunarTime_GetTianShenLuck lt
      = .ok (Model.tianShenLuck (Model.tianShen lt.zhiIndex lt.lunar.dayZhiIndexExact)) := by
  unfold Gen.FnS.calendar_LunarTime_GetTianShenLuck
  rw [lunarTimeGetTianShenType_eq lt z0 d0 d1]; simp only [sb_bind_ok, mlookupS_eq_lookupStr]; rfl

end LT2


/-! ### 6. hour object: clash animal (a `for … range` with `return` inside) -/

/-- the search loop of `GetChongShengXiao` on arbitrary tables: first position of `c` in `T`, then `S` there -/
theorem s3_findLoop (T S : List String) (c : String)
    (f : Nat → Option String × Unit → Except Err (ForInStep (Option String × Unit)))
    (hf : ∀ k s, f k s = (do
        let v ← Gen.FnS.sidx T (k : Int)
        if decide (v = c) = true then do
          let t3 ← Gen.FnS.sidx S (k : Int)
          pure (ForInStep.done (some t3, ()))
        else pure (ForInStep.yield (none, ()))))
    (hS : T.length ≤ S.length) :
    ∀ (n start : Nat), start + n ≤ T.length →
      forIn (List.range' start n) ((none : Option String), ()) f
        = .ok ((match ((T.drop start).take n).findIdx? (· == c) with
                | some i => some (S.getD (start + i) "") | none => none), ()) := by
  intro n
  induction n with
  | zero => intro start _; rfl
  | succ n ih =>
    intro start h
    have hlt : start < T.length := by omega
    have hT : Gen.FnS.sidx T (start : Int) = .ok T[start] := by
      rw [sidx_eq_getD T start (by omega) (by omega)]
      simp [List.getD, List.getElem?_eq_getElem hlt]
    have hSs : Gen.FnS.sidx S (start : Int) = .ok (S.getD start "") := by
      rw [sidx_eq_getD S start (by omega) (by omega)]; simp
    have hdrop : (T.drop start).take (n + 1) = T[start] :: (T.drop (start + 1)).take n := by
      rw [List.drop_eq_getElem_cons hlt, List.take_succ_cons]
    rw [List.range'_succ, List.forIn_cons, hf, hT, hdrop, List.findIdx?_cons]
    by_cases hv : T[start] = c
    · simp [hv, hSs, bind, Except.bind, pure, Except.pure]
    · have hv' : (T[start] == c) = false := by simpa using hv
      simp only [sb_bind_ok, hv, hv', decide_false, Bool.false_eq_true, if_false]
      have := ih (start + 1) (by omega)
      simp only [bind, Except.bind, pure, Except.pure] at this ⊢
      rw [this]
      cases List.findIdx? (fun x => x == c) (List.take n (List.drop (start + 1) T)) with
      | none => rfl
      | some i => simp [Nat.add_assoc, Nat.add_comm 1 i]

section LT3
variable (lt : Gen.FnS.LunarTime)

theorem lunarTimeGetChongShengXiao_eq (z0 : 0 ≤ lt.zhiIndex) (z1 : lt.zhiIndex < 12) :
    Gen.FnS.calendar_LunarTime_GetChongShengXiao lt = .ok (Model.chongShengXiao lt.zhiIndex) := by
  unfold Gen.FnS.calendar_LunarTime_GetChongShengXiao Model.chongShengXiao
  rw [lunarTimeGetChong_eq lt z0 z1]
  simp only [sb_bind_ok]
  rw [Std.Legacy.Range.forIn_eq_forIn_range']
  have h := s3_findLoop Gen.Tables.LunarUtil.ZHI Gen.Tables.LunarUtil.SHENG_XIAO (Model.chong lt.zhiIndex) _
    (fun k s => rfl) (by rw [sb_ZHI_length, s3_len_SHENG_XIAO]; omega) 13 0 (by rw [sb_ZHI_length]; omega)
  have hsz : (Std.Legacy.Range.mk 0 13 1 (by decide)).size = 13 := by decide
  have htk : List.take 13 (List.drop 0 Gen.Tables.LunarUtil.ZHI) = Gen.Tables.LunarUtil.ZHI := by
    rw [List.drop_zero]; exact List.take_of_length_le (by rw [sb_ZHI_length]; omega)
  simp only [hsz]
  rw [htk] at h
  rw [h]
  simp only [sb_bind_ok]
  cases List.findIdx? (fun x => x == Model.chong lt.zhiIndex) Gen.Tables.LunarUtil.ZHI with
  | none => rfl
  | some i => simp only [Nat.zero_add]; rfl

theorem lunarTimeGetChongDesc_eq (g0 : 0 ≤ lt.ganIndex) (g1 : lt.ganIndex < 10) (z0 : 0 ≤ lt.zhiIndex) (z1 : lt.zhiIndex < 12) :
    Gen.FnS.calendar_LunarTime_GetChongDesc lt = .ok (Model.chongDesc lt.ganIndex lt.zhiIndex) := by
  unfold Gen.FnS.calendar_LunarTime_GetChongDesc
  rw [lunarTimeGetChongGan_eq lt g0 g1, lunarTimeGetChong_eq lt z0 z1, lunarTimeGetChongShengXiao_eq lt z0 z1]; rfl

end LT3

/-! ### 7. EightChar: TaiYuan, TaiXi -/

theorem s3_len_HE_GAN_5 : Gen.Tables.LunarUtil.HE_GAN_5.length = 10 := by decide
theorem s3_len_HE_ZHI_6 : Gen.Tables.LunarUtil.HE_ZHI_6.length = 12 := by decide

section Tai
variable (e : Gen.FnS.EightChar) (t : List Model.Solar)

/-- `GetTaiYuan`: the guards are exactly those under which the shifted indices stay readable (−1..9 / −1..11) -/
theorem eightCharGetTaiYuan_eq (g0 : -2 ≤ (ecToM e t).monthG) (g1 : (ecToM e t).monthG < 19)
    (z0 : -4 ≤ (ecToM e t).monthZ) (z1 : (ecToM e t).monthZ < 21) :
    Gen.FnS.calendar_EightChar_GetTaiYuan e = .ok (ecToM e t).taiYuan := by
  simp only [ecToM_monthG, ecToM_monthZ] at g0 g1 z0 z1
  unfold Gen.FnS.calendar_EightChar_GetTaiYuan Model.EightChar.taiYuan
  simp only [lunarGetMonthGanIndexExact_eq, lunarGetMonthZhiIndexExact_eq, sb_bind_ok, ecToM_monthG, ecToM_monthZ]
  by_cases hg : e.lunar.monthGanIndexExact + 1 ≥ 10 <;> by_cases hz : e.lunar.monthZhiIndexExact + 3 ≥ 12 <;>
    simp only [hg, hz, decide_true, decide_false, Bool.false_eq_true, if_true, if_false] <;>
    rw [sidx_GAN _ (by omega) (by omega), sidx_ZHI _ (by omega) (by omega)] <;> rfl

theorem eightCharGetTaiYuanNaYin_eq (g0 : -2 ≤ (ecToM e t).monthG) (g1 : (ecToM e t).monthG < 19)
    (z0 : -4 ≤ (ecToM e t).monthZ) (z1 : (ecToM e t).monthZ < 21) :
    Gen.FnS.calendar_EightChar_GetTaiYuanNaYin e = .ok (Model.lookupStr Gen.Tables.LunarUtil.NAYIN (ecToM e t).taiYuan) := by
  unfold Gen.FnS.calendar_EightChar_GetTaiYuanNaYin
  rw [eightCharGetTaiYuan_eq e t g0 g1 z0 z1]; simp only [sb_bind_ok, mlookupS_eq_lookupStr]; rfl

/-- `GetTaiXi`: `HE_GAN_5` / `HE_ZHI_6` have no leading "" entry, so −1 panics -/
theorem eightCharGetTaiXi_eq (g0 : 0 ≤ (ecToM e t).dayG) (g1 : (ecToM e t).dayG < 10)
    (z0 : 0 ≤ (ecToM e t).dayZ) (z1 : (ecToM e t).dayZ < 12) :
    Gen.FnS.calendar_EightChar_GetTaiXi e = .ok (ecToM e t).taiXi := by
  unfold Gen.FnS.calendar_EightChar_GetTaiXi Model.EightChar.taiXi
  rw [ecToM_dayG] at g0 g1 ⊢; rw [ecToM_dayZ] at z0 z1 ⊢
  simp only [lunarGetDayGanIndexExact_eq, lunarGetDayZhiIndexExact_eq, lunarGetDayGanIndexExact2_eq,
    lunarGetDayZhiIndexExact2_eq, sb_bind_ok]
  by_cases hs : e.sect = 2
  · simp only [hs, if_true, decide_true] at g0 g1 z0 z1 ⊢
    rw [sidx_eq_strGetD _ _ g0 (by rw [s3_len_HE_GAN_5]; omega), sidx_eq_strGetD _ _ z0 (by rw [s3_len_HE_ZHI_6]; omega)]; rfl
  · simp only [hs, if_false, decide_false, Bool.false_eq_true] at g0 g1 z0 z1 ⊢
    rw [sidx_eq_strGetD _ _ g0 (by rw [s3_len_HE_GAN_5]; omega), sidx_eq_strGetD _ _ z0 (by rw [s3_len_HE_ZHI_6]; omega)]; rfl

theorem eightCharGetTaiXiNaYin_eq (g0 : 0 ≤ (ecToM e t).dayG) (g1 : (ecToM e t).dayG < 10)
    (z0 : 0 ≤ (ecToM e t).dayZ) (z1 : (ecToM e t).dayZ < 12) :
    Gen.FnS.calendar_EightChar_GetTaiXiNaYin e = .ok (Model.lookupStr Gen.Tables.LunarUtil.NAYIN (ecToM e t).taiXi) := by
  unfold Gen.FnS.calendar_EightChar_GetTaiXiNaYin
  rw [eightCharGetTaiXi_eq e t g0 g1 z0 z1]; simp only [sb_bind_ok, mlookupS_eq_lookupStr]; rfl

end Tai

/-! ### 8. EightChar: MingGong, ShenGong (`for … break` searches and `for cond {}` fuel loops) -/

theorem s3_strCompare_zero (a b : String) : (Gen.FnS.strCompare a b = 0) ↔ b = a := by
  unfold Gen.FnS.strCompare
  by_cases h : a = b
  · subst h; simp [String.lt_irrefl]
  · have h' : ¬ b = a := fun x => h x.symm
    by_cases hl : a < b <;> simp [h, h', hl]

/-- the `for i := 0; i < size; i++ { if T[i] == s { idx = i; break } }` search over any table -/
theorem s3_breakLoop (T : List String) (s : String)
    (f : Nat → Int → Except Err (ForInStep Int))
    (hf : ∀ k acc, f k acc = (do
        let t ← Gen.FnS.sidx T (0 + 1 * (k : Int))
        if decide (Gen.FnS.strCompare s t = 0) = true then pure (ForInStep.done (0 + 1 * (k : Int)))
        else pure (ForInStep.yield acc))) :
    ∀ (n start : Nat) (init : Int), start + n ≤ T.length →
      forIn (List.range' start n) init f
        = .ok (match ((T.drop start).take n).findIdx? (· == s) with
                | some i => ((start + i : Nat) : Int) | none => init) := by
  intro n
  induction n with
  | zero => intro start init _; rfl
  | succ n ih =>
    intro start init h
    have hlt : start < T.length := by omega
    have hT : Gen.FnS.sidx T (0 + 1 * (start : Int)) = .ok T[start] := by
      rw [sidx_eq_getD T _ (by omega) (by omega)]
      simp [List.getD, List.getElem?_eq_getElem hlt]
    have hdrop : (T.drop start).take (n + 1) = T[start] :: (T.drop (start + 1)).take n := by
      rw [List.drop_eq_getElem_cons hlt, List.take_succ_cons]
    rw [List.range'_succ, List.forIn_cons, hf, hT, hdrop, List.findIdx?_cons]
    by_cases hv : T[start] = s
    · have hc : Gen.FnS.strCompare s s = 0 := (s3_strCompare_zero _ _).mpr rfl
      simp [hv, hc, bind, Except.bind, pure, Except.pure]
    · have hv' : (T[start] == s) = false := by simpa using hv
      have hc : ¬ Gen.FnS.strCompare s T[start] = 0 := fun x => hv ((s3_strCompare_zero _ _).mp x)
      simp only [sb_bind_ok, hc, hv', decide_false, Bool.false_eq_true, if_false]
      have := ih (start + 1) init (by omega)
      simp only [bind, Except.bind, pure, Except.pure] at this ⊢
      rw [this]
      cases List.findIdx? (fun x => x == s) (List.take n (List.drop (start + 1) T)) with
      | none => rfl
      | some i => simp [Nat.add_assoc, Nat.add_comm 1 i]

/-- whole-table form: the loop result is the model's `findIdxD` -/
theorem s3_breakLoop_all (T : List String) (s : String) (n : Nat) (hn : T.length = n)
    (f : Nat → Int → Except Err (ForInStep Int))
    (hf : ∀ k acc, f k acc = (do
        let t ← Gen.FnS.sidx T (0 + 1 * (k : Int))
        if decide (Gen.FnS.strCompare s t = 0) = true then pure (ForInStep.done (0 + 1 * (k : Int)))
        else pure (ForInStep.yield acc))) :
    forIn (List.range' 0 n) (0 : Int) f = .ok (Model.EightChar.findIdxD T s) := by
  rw [s3_breakLoop T s f hf n 0 0 (by omega)]
  have : List.take n (List.drop 0 T) = T := by rw [List.drop_zero]; exact List.take_of_length_le (by omega)
  rw [this]; unfold Model.EightChar.findIdxD
  cases List.findIdx? (fun x => x == s) T with
  | none => rfl
  | some i => simp

theorem s3_findIdxD_range (T : List String) (s : String) :
    0 ≤ Model.EightChar.findIdxD T s ∧ Model.EightChar.findIdxD T s < max 1 (T.length : Int) := by
  unfold Model.EightChar.findIdxD
  cases hf : T.findIdx? (· == s) with
  | none => simp only; omega
  | some i =>
    have := (List.findIdx?_eq_some_iff_getElem.mp hf).1
    simp only; omega

/-- `for g > c { g -= c }` with `k` rounds of fuel (both model helpers `reduceGan`, `reduce12` are instances) -/
def s3_red (c : Int) : Nat → Int → Int
  | 0, g => g
  | k + 1, g => if g ≤ c then g else s3_red c k (g - c)

theorem s3_reduceGan_eq : ∀ (k : Nat) (g : Int), Model.EightChar.reduceGan k g = s3_red 10 k g
  | 0, _ => rfl
  | k + 1, g => by unfold Model.EightChar.reduceGan s3_red; rw [s3_reduceGan_eq k]
theorem s3_reduce12_eq : ∀ (k : Nat) (g : Int), Model.EightChar.reduce12 k g = s3_red 12 k g
  | 0, _ => rfl
  | k + 1, g => by unfold Model.EightChar.reduce12 s3_red; rw [s3_reduce12_eq k]

/-- enough fuel is enough fuel -/
theorem s3_red_fuel (c : Int) (hc : 0 < c) : ∀ (k k' : Nat) (g : Int), 1 ≤ k → 1 ≤ k' → g ≤ c * k → g ≤ c * k' →
    s3_red c k g = s3_red c k' g := by
  intro k
  induction k with
  | zero => intro k' g h; omega
  | succ k ih =>
    intro k' g _ hk' h1 h2
    cases k' with
    | zero => omega
    | succ k' =>
      unfold s3_red
      by_cases hg : g ≤ c
      · simp [hg]
      · simp only [hg, if_false]
        have e1 : c * ((k + 1 : Nat) : Int) = c * (k : Int) + c := by rw [Int.natCast_succ, Int.mul_add, Int.mul_one]
        have e2 : c * ((k' + 1 : Nat) : Int) = c * (k' : Int) + c := by rw [Int.natCast_succ, Int.mul_add, Int.mul_one]
        rw [e1] at h1; rw [e2] at h2
        have p1 : 0 < c * (k : Int) := by omega
        have p2 : 0 < c * (k' : Int) := by omega
        have q1 : 1 ≤ k := by
          rcases Nat.eq_zero_or_pos k with h0 | h0
          · subst h0; simp at p1
          · exact h0
        have q2 : 1 ≤ k' := by
          rcases Nat.eq_zero_or_pos k' with h0 | h0
          · subst h0; simp at p2
          · exact h0
        exact ih k' (g - c) q1 q2 (by omega) (by omega)

theorem s3_red_range (c : Int) (hc : 0 < c) : ∀ (k : Nat) (g : Int), 0 ≤ g → g ≤ c * k → 1 ≤ k →
    0 ≤ s3_red c k g ∧ s3_red c k g ≤ c := by
  intro k
  induction k with
  | zero => intro g _ _ h; omega
  | succ k ih =>
    intro g h0 h1 _
    unfold s3_red
    by_cases hg : g ≤ c
    · rw [if_pos hg]; exact ⟨h0, hg⟩
    · simp only [hg, if_false]
      have e1 : c * ((k + 1 : Nat) : Int) = c * (k : Int) + c := by rw [Int.natCast_succ, Int.mul_add, Int.mul_one]
      rw [e1] at h1
      have p1 : 0 < c * (k : Int) := by omega
      have q1 : 1 ≤ k := by
        rcases Nat.eq_zero_or_pos k with h0 | h0
        · subst h0; simp at p1
        · exact h0
      exact ih (g - c) (by omega) (by omega) q1

/-- the generated fuel loop: done within `k` rounds iff `1 ≤ k` and `g ≤ c·k` -/
theorem s3_fuelLoop (c : Int) (hc : 0 < c) (f : Nat → Int × Bool → Except Err (ForInStep (Int × Bool)))
    (hf : ∀ k s, f k s = if decide (s.fst ≤ c) = true then pure (ForInStep.done (s.fst, true))
                         else pure (ForInStep.yield (s.fst - c, s.snd))) :
    ∀ (k start : Nat) (g : Int), 1 ≤ k → g ≤ c * k →
      forIn (List.range' start k) ((g, false) : Int × Bool) f = .ok (s3_red c k g, true) := by
  intro k
  induction k with
  | zero => intro start g h; omega
  | succ k ih =>
    intro start g _ h1
    rw [List.range'_succ, List.forIn_cons, hf]
    unfold s3_red
    by_cases hg : g ≤ c
    · simp [hg, bind, Except.bind, pure, Except.pure]
    · simp only [hg, decide_false, Bool.false_eq_true, if_false]
      have e1 : c * ((k + 1 : Nat) : Int) = c * (k : Int) + c := by rw [Int.natCast_succ, Int.mul_add, Int.mul_one]
      rw [e1] at h1
      have p1 : 0 < c * (k : Int) := by omega
      have q1 : 1 ≤ k := by
        rcases Nat.eq_zero_or_pos k with h0 | h0
        · subst h0; simp at p1
        · exact h0
      have := ih (start + 1) (g - c) q1 (by omega)
      simp only [bind, Except.bind, pure, Except.pure] at this ⊢
      exact this

theorem s3_len_MONTH_ZHI : Gen.Tables.calendar.MONTH_ZHI.length = 13 := by decide

/-- the branch offset of `GetMingGong` (always 1..14; 13 and 14 are outside `MONTH_ZHI`) -/
def s3_mgOffset (e : Model.EightChar) : Int :=
  let o := Model.EightChar.findIdxD Gen.Tables.calendar.MONTH_ZHI (Model.zhiStr e.monthZ)
         + Model.EightChar.findIdxD Gen.Tables.calendar.MONTH_ZHI (Model.zhiStr e.timeZ)
  if o ≥ 14 then 26 - o else 14 - o
/-- the stem number of `GetMingGong` before the `for ganIndex > 10` reduction -/
def s3_mgGan0 (e : Model.EightChar) : Int := (e.lunar.yearGanIndexExact + 1) * 2 + s3_mgOffset e

theorem s3_mingGong_unfold (e : Model.EightChar) :
    e.mingGong = Model.strGetD Gen.Tables.LunarUtil.GAN (Model.EightChar.reduceGan 10 (s3_mgGan0 e))
      ++ Model.strGetD Gen.Tables.calendar.MONTH_ZHI (s3_mgOffset e) := rfl

section Gong
variable (e : Gen.FnS.EightChar) (t : List Model.Solar)

theorem eightCharGetMingGong_eq' (fuel : Nat)
    (mz0 : -1 ≤ (ecToM e t).monthZ) (mz1 : (ecToM e t).monthZ < 12)
    (tz0 : -1 ≤ (ecToM e t).timeZ) (tz1 : (ecToM e t).timeZ < 12)
    (ho : s3_mgOffset (ecToM e t) ≤ 12)
    (hg0 : 0 ≤ s3_mgGan0 (ecToM e t)) (hg1 : s3_mgGan0 (ecToM e t) ≤ 100)
    (hf1 : 1 ≤ fuel) (hf : s3_mgGan0 (ecToM e t) ≤ 10 * fuel) :
    Gen.FnS.calendar_EightChar_GetMingGong fuel e = .ok (ecToM e t).mingGong := by
  unfold Gen.FnS.calendar_EightChar_GetMingGong
  rw [eightCharGetMonthZhi_eq e t mz0 mz1, eightCharGetTimeZhi_eq e t tz0 tz1]
  have h13 : ((13 - 0 + 0) / 1 : Int).toNat = 13 := by decide
  have hsz13 : (Std.Legacy.Range.mk 0 13 1 (by decide)).size = 13 := by decide
  have hszf : (Std.Legacy.Range.mk 0 fuel 1 (by decide)).size = fuel := by simp [Std.Legacy.Range.size]
  simp only [Gen.FnS.calendar_EightChar_GetLunar, lunarGetYearGanIndexExact_eq, sb_bind_ok, h13,
    Std.Legacy.Range.forIn_eq_forIn_range', hsz13, hszf]
  rw [s3_breakLoop_all Gen.Tables.calendar.MONTH_ZHI (Model.zhiStr (ecToM e t).monthZ) 13 s3_len_MONTH_ZHI _ (fun _ _ => rfl)]
  simp only [sb_bind_ok]
  rw [s3_breakLoop_all Gen.Tables.calendar.MONTH_ZHI (Model.zhiStr (ecToM e t).timeZ) 13 s3_len_MONTH_ZHI _ (fun _ _ => rfl)]
  simp only [sb_bind_ok]
  rw [s3_mingGong_unfold]
  unfold s3_mgGan0 s3_mgOffset at hg0 hg1 hf
  unfold s3_mgOffset at ho
  unfold s3_mgGan0 s3_mgOffset
  simp only [ecToM_lunar, lunarToM_yearGanIndexExact, ecToM_monthZ, ecToM_timeZ] at ho hg0 hg1 hf mz0 mz1 tz0 tz1 ⊢
  have hmi := s3_findIdxD_range Gen.Tables.calendar.MONTH_ZHI (Model.zhiStr e.lunar.monthZhiIndexExact)
  have hti := s3_findIdxD_range Gen.Tables.calendar.MONTH_ZHI (Model.zhiStr e.lunar.timeZhiIndex)
  rw [s3_len_MONTH_ZHI] at hmi hti
  by_cases h14 : Model.EightChar.findIdxD Gen.Tables.calendar.MONTH_ZHI (Model.zhiStr e.lunar.monthZhiIndexExact) +
      Model.EightChar.findIdxD Gen.Tables.calendar.MONTH_ZHI (Model.zhiStr e.lunar.timeZhiIndex) ≥ 14
  · simp only [h14, decide_true, if_true, pure_bind] at ho hg0 hg1 hf ⊢
    rw [s3_fuelLoop 10 (by decide) _ (fun _ _ => rfl) fuel 0 _ hf1 hf]
    simp only [sb_bind_ok, Bool.not_true, Bool.false_eq_true, if_false]
    rw [s3_red_fuel 10 (by decide) fuel 10 _ hf1 (by decide) hf (by omega), ← s3_reduceGan_eq]
    have hr := s3_red_range 10 (by decide) 10 _ hg0 (by omega) (by decide)
    rw [← s3_reduceGan_eq] at hr
    rw [sidx_eq_strGetD _ _ hr.1 (by rw [sb_GAN_length]; omega),
      sidx_eq_strGetD _ _ (by omega) (by rw [s3_len_MONTH_ZHI]; omega)]; rfl
  · simp only [h14, decide_false, Bool.false_eq_true, if_false, pure_bind] at ho hg0 hg1 hf ⊢
    rw [s3_fuelLoop 10 (by decide) _ (fun _ _ => rfl) fuel 0 _ hf1 hf]
    simp only [sb_bind_ok, Bool.not_true, Bool.false_eq_true, if_false]
    rw [s3_red_fuel 10 (by decide) fuel 10 _ hf1 (by decide) hf (by omega), ← s3_reduceGan_eq]
    have hr := s3_red_range 10 (by decide) 10 _ hg0 (by omega) (by decide)
    rw [← s3_reduceGan_eq] at hr
    rw [sidx_eq_strGetD _ _ hr.1 (by rw [sb_GAN_length]; omega),
      sidx_eq_strGetD _ _ (by omega) (by rw [s3_len_MONTH_ZHI]; omega)]; rfl
end Gong

theorem s3_monthZhiIdx_pos (z : Int) (z0 : 0 ≤ z) (z1 : z < 12) :
    1 ≤ Model.EightChar.findIdxD Gen.Tables.calendar.MONTH_ZHI (Model.zhiStr z) := by
  have key : ∀ n : Fin 12, 1 ≤ Model.EightChar.findIdxD Gen.Tables.calendar.MONTH_ZHI (Model.zhiStr (n.val : Int)) := by decide
  have h := key ⟨z.toNat, by omega⟩
  have hg : ((z.toNat : Nat) : Int) = z := by omega
  simpa only [hg] using h

section Gong2
variable (e : Gen.FnS.EightChar) (t : List Model.Solar)

/-- `GetMingGong` on the ranges of every library-built object; 4 rounds of fuel always suffice -/
theorem eightCharGetMingGong_eq (fuel : Nat) (hfuel : 4 ≤ fuel)
    (yg0 : -1 ≤ (ecToM e t).yearG) (yg1 : (ecToM e t).yearG < 10)
    (mz0 : 0 ≤ (ecToM e t).monthZ) (mz1 : (ecToM e t).monthZ < 12)
    (tz0 : 0 ≤ (ecToM e t).timeZ) (tz1 : (ecToM e t).timeZ < 12) :
    Gen.FnS.calendar_EightChar_GetMingGong fuel e = .ok (ecToM e t).mingGong := by
  have hmi := s3_findIdxD_range Gen.Tables.calendar.MONTH_ZHI (Model.zhiStr (ecToM e t).monthZ)
  have hti := s3_findIdxD_range Gen.Tables.calendar.MONTH_ZHI (Model.zhiStr (ecToM e t).timeZ)
  have hmi1 := s3_monthZhiIdx_pos _ mz0 mz1
  have hti1 := s3_monthZhiIdx_pos _ tz0 tz1
  rw [s3_len_MONTH_ZHI] at hmi hti
  have hyg : (ecToM e t).lunar.yearGanIndexExact = (ecToM e t).yearG := rfl
  have ho : 1 ≤ s3_mgOffset (ecToM e t) ∧ s3_mgOffset (ecToM e t) ≤ 12 := by
    unfold s3_mgOffset; simp only []; split <;> omega
  refine eightCharGetMingGong_eq' e t fuel (by omega) mz1 (by omega) tz1 ho.2 ?_ ?_ (by omega) ?_ <;>
    (unfold s3_mgGan0; rw [hyg]; omega)

theorem eightCharGetMingGongNaYin_eq (fuel : Nat) (hfuel : 4 ≤ fuel)
    (yg0 : -1 ≤ (ecToM e t).yearG) (yg1 : (ecToM e t).yearG < 10)
    (mz0 : 0 ≤ (ecToM e t).monthZ) (mz1 : (ecToM e t).monthZ < 12)
    (tz0 : 0 ≤ (ecToM e t).timeZ) (tz1 : (ecToM e t).timeZ < 12) :
    Gen.FnS.calendar_EightChar_GetMingGongNaYin fuel e
      = .ok (Model.lookupStr Gen.Tables.LunarUtil.NAYIN (ecToM e t).mingGong) := by
  unfold Gen.FnS.calendar_EightChar_GetMingGongNaYin
  rw [eightCharGetMingGong_eq e t fuel hfuel yg0 yg1 mz0 mz1 tz0 tz1]; simp only [sb_bind_ok, mlookupS_eq_lookupStr]; rfl

end Gong2

/-- `GetShenGong`: month position in `MONTH_ZHI` plus hour position in `LunarUtil.ZHI` -/
def s3_sgSum (e : Model.EightChar) : Int :=
  Model.EightChar.findIdxD Gen.Tables.calendar.MONTH_ZHI (Model.zhiStr e.monthZ)
    + Model.EightChar.findIdxD Gen.Tables.LunarUtil.ZHI (Model.zhiStr e.timeZ)
def s3_sgOffset (e : Model.EightChar) : Int := Model.EightChar.reduce12 10 (s3_sgSum e)
def s3_sgGan0 (e : Model.EightChar) : Int := (e.lunar.yearGanIndexExact + 1) * 2 + s3_sgOffset e % 12

theorem s3_shenGong_unfold (e : Model.EightChar) :
    e.shenGong = Model.strGetD Gen.Tables.LunarUtil.GAN (Model.EightChar.reduceGan 10 (s3_sgGan0 e))
      ++ Model.strGetD Gen.Tables.calendar.MONTH_ZHI (s3_sgOffset e) := rfl

theorem s3_sgSum_range (e : Model.EightChar) : 0 ≤ s3_sgSum e ∧ s3_sgSum e ≤ 24 := by
  have hmi := s3_findIdxD_range Gen.Tables.calendar.MONTH_ZHI (Model.zhiStr e.monthZ)
  have hti := s3_findIdxD_range Gen.Tables.LunarUtil.ZHI (Model.zhiStr e.timeZ)
  rw [s3_len_MONTH_ZHI] at hmi; rw [sb_ZHI_length] at hti
  unfold s3_sgSum; omega

theorem s3_sgOffset_range (e : Model.EightChar) : 0 ≤ s3_sgOffset e ∧ s3_sgOffset e ≤ 12 := by
  have h := s3_sgSum_range e
  unfold s3_sgOffset; rw [s3_reduce12_eq]
  exact s3_red_range 12 (by decide) 10 _ h.1 (by omega) (by decide)

section Gong3
variable (e : Gen.FnS.EightChar) (t : List Model.Solar)

theorem eightCharGetShenGong_eq' (fuel : Nat)
    (mz0 : -1 ≤ (ecToM e t).monthZ) (mz1 : (ecToM e t).monthZ < 12)
    (tz0 : -1 ≤ (ecToM e t).timeZ) (tz1 : (ecToM e t).timeZ < 12)
    (hg0 : 0 ≤ s3_sgGan0 (ecToM e t)) (hg1 : s3_sgGan0 (ecToM e t) ≤ 100)
    (hf2 : 2 ≤ fuel) (hf : s3_sgGan0 (ecToM e t) ≤ 10 * fuel) :
    Gen.FnS.calendar_EightChar_GetShenGong fuel e = .ok (ecToM e t).shenGong := by
  unfold Gen.FnS.calendar_EightChar_GetShenGong
  rw [eightCharGetMonthZhi_eq e t mz0 mz1, eightCharGetTimeZhi_eq e t tz0 tz1]
  have h13 : ((13 - 0 + 0) / 1 : Int).toNat = 13 := by decide
  have hsz13 : (Std.Legacy.Range.mk 0 13 1 (by decide)).size = 13 := by decide
  have hszf : (Std.Legacy.Range.mk 0 fuel 1 (by decide)).size = fuel := by simp [Std.Legacy.Range.size]
  simp only [Gen.FnS.calendar_EightChar_GetLunar, lunarGetYearGanIndexExact_eq, sb_bind_ok, h13,
    Std.Legacy.Range.forIn_eq_forIn_range', hsz13, hszf]
  rw [s3_breakLoop_all Gen.Tables.calendar.MONTH_ZHI (Model.zhiStr (ecToM e t).monthZ) 13 s3_len_MONTH_ZHI _ (fun _ _ => rfl)]
  simp only [sb_bind_ok]
  rw [s3_breakLoop_all Gen.Tables.LunarUtil.ZHI (Model.zhiStr (ecToM e t).timeZ) 13 sb_ZHI_length _ (fun _ _ => rfl)]
  simp only [sb_bind_ok]
  have hsum := s3_sgSum_range (ecToM e t)
  have hoff := s3_sgOffset_range (ecToM e t)
  have hsumdef : Model.EightChar.findIdxD Gen.Tables.calendar.MONTH_ZHI (Model.zhiStr (ecToM e t).monthZ) +
      Model.EightChar.findIdxD Gen.Tables.LunarUtil.ZHI (Model.zhiStr (ecToM e t).timeZ) = s3_sgSum (ecToM e t) := rfl
  rw [hsumdef]
  rw [s3_fuelLoop 12 (by decide) _ (fun _ _ => rfl) fuel 0 _ (by omega) (by omega)]
  simp only [sb_bind_ok, Bool.not_true, Bool.false_eq_true, if_false, pure_bind]
  rw [s3_red_fuel 12 (by decide) fuel 10 _ (by omega) (by decide) (by omega) (by omega), ← s3_reduce12_eq]
  have hoffdef : Model.EightChar.reduce12 10 (s3_sgSum (ecToM e t)) = s3_sgOffset (ecToM e t) := rfl
  rw [hoffdef, Int.tmod_eq_emod_of_nonneg hoff.1]
  have hgdef : (e.lunar.yearGanIndexExact + 1) * 2 + s3_sgOffset (ecToM e t) % 12 = s3_sgGan0 (ecToM e t) := rfl
  rw [hgdef]
  rw [s3_fuelLoop 10 (by decide) _ (fun _ _ => rfl) fuel 0 _ (by omega) hf]
  simp only [sb_bind_ok, Bool.not_true, Bool.false_eq_true, if_false]
  rw [s3_red_fuel 10 (by decide) fuel 10 _ (by omega) (by decide) hf (by omega), ← s3_reduceGan_eq]
  have hr := s3_red_range 10 (by decide) 10 _ hg0 (by omega) (by decide)
  rw [← s3_reduceGan_eq] at hr
  rw [sidx_eq_strGetD _ _ hr.1 (by rw [sb_GAN_length]; omega),
    sidx_eq_strGetD _ _ hoff.1 (by rw [s3_len_MONTH_ZHI]; omega)]
  rw [s3_shenGong_unfold]; rfl

/-- `GetShenGong` on the ranges of every library-built object; 4 rounds of fuel always suffice
(the branch ranges are only needed to read the month / hour branch names) -/
theorem eightCharGetShenGong_eq (fuel : Nat) (hfuel : 4 ≤ fuel)
    (yg0 : -1 ≤ (ecToM e t).yearG) (yg1 : (ecToM e t).yearG < 10)
    (mz0 : -1 ≤ (ecToM e t).monthZ) (mz1 : (ecToM e t).monthZ < 12)
    (tz0 : -1 ≤ (ecToM e t).timeZ) (tz1 : (ecToM e t).timeZ < 12) :
    Gen.FnS.calendar_EightChar_GetShenGong fuel e = .ok (ecToM e t).shenGong := by
  have hoff := s3_sgOffset_range (ecToM e t)
  have hyg : (ecToM e t).lunar.yearGanIndexExact = (ecToM e t).yearG := rfl
  refine eightCharGetShenGong_eq' e t fuel mz0 mz1 tz0 tz1 ?_ ?_ (by omega) ?_ <;>
    (unfold s3_sgGan0; rw [hyg]; omega)

theorem eightCharGetShenGongNaYin_eq (fuel : Nat) (hfuel : 4 ≤ fuel)
    (yg0 : -1 ≤ (ecToM e t).yearG) (yg1 : (ecToM e t).yearG < 10)
    (mz0 : -1 ≤ (ecToM e t).monthZ) (mz1 : (ecToM e t).monthZ < 12)
    (tz0 : -1 ≤ (ecToM e t).timeZ) (tz1 : (ecToM e t).timeZ < 12) :
    Gen.FnS.calendar_EightChar_GetShenGongNaYin fuel e
      = .ok (Model.lookupStr Gen.Tables.LunarUtil.NAYIN (ecToM e t).shenGong) := by
  unfold Gen.FnS.calendar_EightChar_GetShenGongNaYin
  rw [eightCharGetShenGong_eq e t fuel hfuel yg0 yg1 mz0 mz1 tz0 tz1]; simp only [sb_bind_ok, mlookupS_eq_lookupStr]; rfl
end Gong3

/-! ### 9. xun / xunKong (through worker FnS2's bridge `getXun_pillar` / `getXunKong_pillar` and its `Lunar` accessors):
guard = a proper pillar (stem 0..9, branch 0..11) -/
section Xun
variable (e : Gen.FnS.EightChar) (t : List Model.Solar)

theorem eightCharGetYearXun_eq (g0 : 0 ≤ (ecToM e t).yearG) (g1 : (ecToM e t).yearG < 10)
    (z0 : 0 ≤ (ecToM e t).yearZ) (z1 : (ecToM e t).yearZ < 12) :
    Gen.FnS.calendar_EightChar_GetYearXun e = .ok (Model.EightChar.xun (ecToM e t).yearG (ecToM e t).yearZ) := by
  unfold Gen.FnS.calendar_EightChar_GetYearXun; rw [lunarGetYearXunExact_eq _ g0 g1 z0 z1]; rfl
theorem eightCharGetYearXunKong_eq (g0 : 0 ≤ (ecToM e t).yearG) (g1 : (ecToM e t).yearG < 10)
    (z0 : 0 ≤ (ecToM e t).yearZ) (z1 : (ecToM e t).yearZ < 12) :
    Gen.FnS.calendar_EightChar_GetYearXunKong e = .ok (Model.EightChar.xunKong (ecToM e t).yearG (ecToM e t).yearZ) := by
  unfold Gen.FnS.calendar_EightChar_GetYearXunKong; rw [lunarGetYearXunKongExact_eq _ g0 g1 z0 z1]; rfl
theorem eightCharGetMonthXun_eq (g0 : 0 ≤ (ecToM e t).monthG) (g1 : (ecToM e t).monthG < 10)
    (z0 : 0 ≤ (ecToM e t).monthZ) (z1 : (ecToM e t).monthZ < 12) :
    Gen.FnS.calendar_EightChar_GetMonthXun e = .ok (Model.EightChar.xun (ecToM e t).monthG (ecToM e t).monthZ) := by
  unfold Gen.FnS.calendar_EightChar_GetMonthXun; rw [lunarGetMonthXunExact_eq _ g0 g1 z0 z1]; rfl
theorem eightCharGetMonthXunKong_eq (g0 : 0 ≤ (ecToM e t).monthG) (g1 : (ecToM e t).monthG < 10)
    (z0 : 0 ≤ (ecToM e t).monthZ) (z1 : (ecToM e t).monthZ < 12) :
    Gen.FnS.calendar_EightChar_GetMonthXunKong e = .ok (Model.EightChar.xunKong (ecToM e t).monthG (ecToM e t).monthZ) := by
  unfold Gen.FnS.calendar_EightChar_GetMonthXunKong; rw [lunarGetMonthXunKongExact_eq _ g0 g1 z0 z1]; rfl
theorem eightCharGetTimeXun_eq (g0 : 0 ≤ (ecToM e t).timeG) (g1 : (ecToM e t).timeG < 10)
    (z0 : 0 ≤ (ecToM e t).timeZ) (z1 : (ecToM e t).timeZ < 12) :
    Gen.FnS.calendar_EightChar_GetTimeXun e = .ok (Model.EightChar.xun (ecToM e t).timeG (ecToM e t).timeZ) := by
  unfold Gen.FnS.calendar_EightChar_GetTimeXun; rw [lunarGetTimeXun_eq _ g0 g1 z0 z1]; rfl
theorem eightCharGetTimeXunKong_eq (g0 : 0 ≤ (ecToM e t).timeG) (g1 : (ecToM e t).timeG < 10)
    (z0 : 0 ≤ (ecToM e t).timeZ) (z1 : (ecToM e t).timeZ < 12) :
    Gen.FnS.calendar_EightChar_GetTimeXunKong e = .ok (Model.EightChar.xunKong (ecToM e t).timeG (ecToM e t).timeZ) := by
  unfold Gen.FnS.calendar_EightChar_GetTimeXunKong; rw [lunarGetTimeXunKong_eq _ g0 g1 z0 z1]; rfl

theorem eightCharGetDayXun_eq (g0 : 0 ≤ (ecToM e t).dayG) (g1 : (ecToM e t).dayG < 10)
    (z0 : 0 ≤ (ecToM e t).dayZ) (z1 : (ecToM e t).dayZ < 12) :
    Gen.FnS.calendar_EightChar_GetDayXun e = .ok (Model.EightChar.xun (ecToM e t).dayG (ecToM e t).dayZ) := by
  unfold Gen.FnS.calendar_EightChar_GetDayXun
  rw [ecToM_dayG] at g0 g1 ⊢; rw [ecToM_dayZ] at z0 z1 ⊢
  by_cases hs : e.sect = 2
  · simp only [hs, if_true, decide_true] at g0 g1 z0 z1 ⊢
    rw [lunarGetDayXunExact2_eq _ g0 g1 z0 z1]
  · simp only [hs, if_false, decide_false, Bool.false_eq_true] at g0 g1 z0 z1 ⊢
    rw [lunarGetDayXunExact_eq _ g0 g1 z0 z1]
theorem eightCharGetDayXunKong_eq (g0 : 0 ≤ (ecToM e t).dayG) (g1 : (ecToM e t).dayG < 10)
    (z0 : 0 ≤ (ecToM e t).dayZ) (z1 : (ecToM e t).dayZ < 12) :
    Gen.FnS.calendar_EightChar_GetDayXunKong e = .ok (Model.EightChar.xunKong (ecToM e t).dayG (ecToM e t).dayZ) := by
  unfold Gen.FnS.calendar_EightChar_GetDayXunKong
  rw [ecToM_dayG] at g0 g1 ⊢; rw [ecToM_dayZ] at z0 z1 ⊢
  by_cases hs : e.sect = 2
  · simp only [hs, if_true, decide_true] at g0 g1 z0 z1 ⊢
    rw [lunarGetDayXunKongExact2_eq _ g0 g1 z0 z1]
  · simp only [hs, if_false, decide_false, Bool.false_eq_true] at g0 g1 z0 z1 ⊢
    rw [lunarGetDayXunKongExact_eq _ g0 g1 z0 z1]
end Xun

section LTXun
variable (lt : Gen.FnS.LunarTime)
theorem lunarTimeGetXun_eq (g0 : 0 ≤ lt.ganIndex) (g1 : lt.ganIndex < 10) (z0 : 0 ≤ lt.zhiIndex) (z1 : lt.zhiIndex < 12) :
    Gen.FnS.calendar_LunarTime_GetXun lt = .ok (Model.EightChar.xun lt.ganIndex lt.zhiIndex) := by
  unfold Gen.FnS.calendar_LunarTime_GetXun
  rw [lunarTimeGetGanZhi_eq lt (by omega) g1 (by omega) z1, sb_bind_ok, getXun_pillar _ _ g0 g1 z0 z1]
theorem lunarTimeGetXunKong_eq (g0 : 0 ≤ lt.ganIndex) (g1 : lt.ganIndex < 10) (z0 : 0 ≤ lt.zhiIndex) (z1 : lt.zhiIndex < 12) :
    Gen.FnS.calendar_LunarTime_GetXunKong lt = .ok (Model.EightChar.xunKong lt.ganIndex lt.zhiIndex) := by
  unfold Gen.FnS.calendar_LunarTime_GetXunKong
  rw [lunarTimeGetGanZhi_eq lt (by omega) g1 (by omega) z1, sb_bind_ok, getXunKong_pillar _ _ g0 g1 z0 z1]
end LTXun

/-! ### 10. sect, lunar -/
section Misc
variable (e : Gen.FnS.EightChar) (t : List Model.Solar)
@[simp] theorem eightCharGetSect_eq : Gen.FnS.calendar_EightChar_GetSect e = .ok (ecToM e t).sect := rfl
@[simp] theorem eightCharGetLunar_eq : Gen.FnS.calendar_EightChar_GetLunar e = .ok e.lunar := rfl
/-- `SetSect`: anything but 1 becomes 2 (`Model.mkEightChar`) -/
theorem eightCharSetSect_eq (sect : Int) :
    (Gen.FnS.calendar_EightChar_SetSect e sect).map (fun r => ecToM r t)
      = .ok (Model.mkEightChar (lunarToM e.lunar t) sect) := by
  unfold Gen.FnS.calendar_EightChar_SetSect Model.mkEightChar
  by_cases hs : sect = 1
  · subst hs; rfl
  · have hb : (sect != 1) = true := by simpa using hs
    simp only [hs, hb, ne_eq, not_false_eq_true, decide_true, if_true]; rfl
end Misc

section Axioms
#print axioms eightCharGetYear_eq
#print axioms eightCharGetMonth_eq
#print axioms eightCharGetDay_eq
#print axioms eightCharGetTime_eq
#print axioms eightCharString_eq
#print axioms eightCharGetYearGan_eq
#print axioms eightCharGetYearZhi_eq
#print axioms eightCharGetMonthGan_eq
#print axioms eightCharGetMonthZhi_eq
#print axioms eightCharGetDayGan_eq
#print axioms eightCharGetDayZhi_eq
#print axioms eightCharGetTimeGan_eq
#print axioms eightCharGetTimeZhi_eq
#print axioms eightCharGetDayGanIndex_eq
#print axioms eightCharGetDayZhiIndex_eq
#print axioms eightCharGetYearWuXing_eq
#print axioms eightCharGetMonthWuXing_eq
#print axioms eightCharGetDayWuXing_eq
#print axioms eightCharGetTimeWuXing_eq
#print axioms eightCharGetYearNaYin_eq
#print axioms eightCharGetMonthNaYin_eq
#print axioms eightCharGetDayNaYin_eq
#print axioms eightCharGetTimeNaYin_eq
#print axioms eightCharGetYearShiShenGan_eq
#print axioms eightCharGetMonthShiShenGan_eq
#print axioms eightCharGetDayShiShenGan_eq
#print axioms eightCharGetTimeShiShenGan_eq
#print axioms eightCharGetDiShi_eq
#print axioms eightCharGetDiShi_panic
#print axioms eightCharGetDiShi_eq'
#print axioms eightCharGetYearDiShi_eq
#print axioms eightCharGetMonthDiShi_eq
#print axioms eightCharGetDayDiShi_eq
#print axioms eightCharGetTimeDiShi_eq
#print axioms eightCharGetYearXun_eq
#print axioms eightCharGetYearXunKong_eq
#print axioms eightCharGetMonthXun_eq
#print axioms eightCharGetMonthXunKong_eq
#print axioms eightCharGetDayXun_eq
#print axioms eightCharGetDayXunKong_eq
#print axioms eightCharGetTimeXun_eq
#print axioms eightCharGetTimeXunKong_eq
#print axioms eightCharGetTaiYuan_eq
#print axioms eightCharGetTaiYuanNaYin_eq
#print axioms eightCharGetTaiXi_eq
#print axioms eightCharGetTaiXiNaYin_eq
#print axioms eightCharGetMingGong_eq'
#print axioms eightCharGetMingGong_eq
#print axioms eightCharGetMingGongNaYin_eq
#print axioms eightCharGetShenGong_eq'
#print axioms eightCharGetShenGong_eq
#print axioms eightCharGetShenGongNaYin_eq
#print axioms eightCharSetSect_eq
#print axioms lunarTimeGetGan_eq
#print axioms lunarTimeGetZhi_eq
#print axioms lunarTimeGetGanZhi_eq
#print axioms lunarTimeGetShengXiao_eq
#print axioms lunarTimeGetPositionXi_eq
#print axioms lunarTimeGetPositionXiDesc_eq
#print axioms lunarTimeGetPositionYangGui_eq
#print axioms lunarTimeGetPositionYangGuiDesc_eq
#print axioms lunarTimeGetPositionYinGui_eq
#print axioms lunarTimeGetPositionYinGuiDesc_eq
#print axioms lunarTimeGetPositionFuBySect_eq
#print axioms lunarTimeGetPositionFu_eq
#print axioms lunarTimeGetPositionFuDescBySect_eq
#print axioms lunarTimeGetPositionFuDesc_eq
#print axioms lunarTimeGetPositionCai_eq
#print axioms lunarTimeGetPositionCaiDesc_eq
#print axioms lunarTimeGetNaYin_eq
#print axioms lunarTimeGetSha_eq
#print axioms lunarTimeGetTianShen_eq'
#print axioms lunarTimeGetTianShen_eq
#print axioms lunarTimeGetTianShenType_eq
#print axioms lunarTimeGetTianShenLuck_eq
#print axioms lunarTimeGetChong_eq
#print axioms lunarTimeGetChongGan_eq
#print axioms lunarTimeGetChongGanTie_eq
#print axioms lunarTimeGetChongShengXiao_eq
#print axioms lunarTimeGetChongDesc_eq
#print axioms lunarTimeGetXun_eq
#print axioms lunarTimeGetXunKong_eq
#print axioms lunarTimeGetPositionFuBySect_panic
#print axioms lunarTimeGetChong_panic
end Axioms
end FnSEq
