import Model.JieQi
import Model.AstroWF
import Proofs.FmtOrder
import Proofs.CivilArith
set_option linter.unusedVariables false
namespace Model
open Gen.Tables

/-! ## table facts -/

theorem names_len : Gen.Tables.calendar.JIE_QI_IN_USE.length = 31 ∧ Gen.Tables.calendar.JIE_QI.length = 24 := by
  decide

theorem names_nodup : Gen.Tables.calendar.JIE_QI_IN_USE.Nodup := by
  decide

theorem names_canonical : (List.range 31).all (fun i =>
    (Gen.Tables.calendar.JIE_QI_IN_USE.getD i "" |> convertJieQi) == Gen.Tables.calendar.JIE_QI.getD ((i + 23) % 24) "?") = true := by
  decide

theorem filters_parity : (List.range 31).all (fun i =>
    (jieConditions.contains (convertJieQi (Gen.Tables.calendar.JIE_QI_IN_USE.getD i "")) == (i % 2 == 0)) &&
    (qiConditions.contains (convertJieQi (Gen.Tables.calendar.JIE_QI_IN_USE.getD i "")) == (i % 2 == 1))) = true := by
  decide

theorem jie_qi_partition : Gen.Tables.calendar.JIE_QI.all (fun n => jieQiIsJie n != jieQiIsQi n) = true := by
  decide

theorem getD_eq_getElem' {α : Type} (l : List α) (d : α) (i : Nat) (h : i < l.length) : l.getD i d = l[i] := by
  simp [List.getD_eq_getElem?_getD, List.getElem?_eq_getElem h]

theorem termIndex_names : (List.range 31).all (fun i =>
    termIndex (calendar.JIE_QI_IN_USE.getD i "") == some i) = true := by
  decide

/-- generic: mapping a function that agrees pointwise with a second list is zipping -/
theorem map_pair_eq_zip {α β : Type} (f : α → β) (d : β) :
    ∀ (ns : List α) (ts : List β), ns.length = ts.length →
      (∀ i, i < ns.length → ∀ h : i < ns.length, f ns[i] = ts.getD i d) →
      ns.map (fun k => (k, f k)) = ns.zip ts := by
  intro ns ts hl hf
  apply List.ext_getElem
  · simp [hl]
  · intro i h1 h2
    simp only [List.length_map] at h1
    have h3 : i < ts.length := by omega
    simp only [List.getElem_map, List.getElem_zip]
    rw [hf i h1 h1, getD_eq_getElem' _ _ _ h3]

theorem termIndex_name (i : Nat) (h : i < 31) : termIndex (calendar.JIE_QI_IN_USE.getD i "") = some i := by
  have := termIndex_names
  rw [List.all_eq_true] at this
  have := this i (List.mem_range.mpr h)
  exact eq_of_beq this

theorem termEntries_eq (ts : List Solar) (h : ts.length = 31) :
    termEntries ts = Gen.Tables.calendar.JIE_QI_IN_USE.zip ts := by
  unfold termEntries
  apply map_pair_eq_zip (fun k => termByName ts k) nilSolar
  · rw [names_len.1, h]
  · intro i hi hi'
    rw [names_len.1] at hi
    have := termIndex_name i hi
    rw [getD_eq_getElem' _ _ _ hi'] at this
    simp only [termByName, this]

/-! ## printed order = key order = chronological order -/

theorem stampValid_parts (a : Solar) (ha : stampValid a = true) :
    a.valid = true ∧ 0 ≤ a.year ∧ a.year ≤ 9999 := by
  unfold stampValid at ha
  simp only [Bool.and_eq_true, decide_eq_true_eq] at ha
  exact ⟨ha.1.1, ha.1.2, ha.2⟩

theorem stampValid_bounds (a : Solar) (ha : stampValid a = true) :
    0 ≤ a.year ∧ a.year ≤ 9999 ∧ 1 ≤ a.month ∧ a.month ≤ 12 ∧ 1 ≤ a.day ∧ a.day ≤ 31 ∧
    0 ≤ a.hour ∧ a.hour ≤ 23 ∧ 0 ≤ a.minute ∧ a.minute ≤ 59 ∧ 0 ≤ a.second ∧ a.second ≤ 59 := by
  obtain ⟨hv, h0, h1⟩ := stampValid_parts a ha
  obtain ⟨b1, b2, b3, b4, _⟩ := (validYmd_iff_step _ _ _).1 (valid_parts a hv).1
  have := hms_bounds a hv
  omega

theorem stampValid_inWidth (a : Solar) (ha : stampValid a = true) : InWidth a := by
  have := stampValid_bounds a ha
  unfold InWidth
  omega

theorem cmp_lt_iff (x y : Int) : (compare x y == Ordering.lt) = decide (x < y) := by
  by_cases h : x < y
  · simp [Int.compare_eq_lt.mpr h, h]
  · by_cases h2 : y < x
    · simp [Int.compare_eq_gt.mpr h2, h]
    · have : x = y := by omega
      subst this; simp

theorem cmp_gt_iff (x y : Int) : (compare x y == Ordering.gt) = decide (y < x) := by
  by_cases h : y < x
  · simp [Int.compare_eq_gt.mpr h, h]
  · by_cases h2 : x < y
    · simp [Int.compare_eq_lt.mpr h2, h]
    · have : x = y := by omega
      subst this; simp

theorem key_eq_key14 (a : Solar) : a.key = key14 a := rfl

theorem strLt_ymdhms_iff (a b : Solar) (ha : stampValid a = true) (hb : stampValid b = true) :
    strLt a.toYmdHms b.toYmdHms = true ↔ a.key < b.key := by
  unfold strLt
  rw [cmp_toYmdHms a b (stampValid_inWidth a ha) (stampValid_inWidth b hb), cmp_lt_iff]
  simp [key_eq_key14]

/-- day number order is (year, month, day) order, no year bound -/
theorem jdn_lt_iff_lex_all (y m d y' m' d' : Int) (hv : validYmd y m d = true) (hv' : validYmd y' m' d' = true) :
    jdn y m d < jdn y' m' d' ↔ (y < y' ∨ (y = y' ∧ (m < m' ∨ (m = m' ∧ d < d')))) := by
  constructor
  · intro hlt
    by_cases h : (y < y' ∨ (y = y' ∧ (m < m' ∨ (m = m' ∧ d < d'))))
    · exact h
    · by_cases h' : (y' < y ∨ (y' = y ∧ (m' < m ∨ (m' = m ∧ d' < d))))
      · have := lex_jdn_lt _ _ _ _ _ _ hv' hv h'
        omega
      · have e1 : y = y' := by omega
        have e2 : m = m' := by omega
        have e3 : d = d' := by omega
        subst e1 e2 e3
        omega
  · exact lex_jdn_lt _ _ _ _ _ _ hv hv'

theorem key_lt_aux (a b c d e f a' b' c' d' e' f' J J' : Int)
    (h1 : J < J' ↔ (a < a' ∨ (a = a' ∧ (b < b' ∨ (b = b' ∧ c < c')))))
    (h2 : J' < J ↔ (a' < a ∨ (a' = a ∧ (b' < b ∨ (b' = b ∧ c' < c)))))
    (b0 : 1 ≤ b ∧ b ≤ 12 ∧ 1 ≤ c ∧ c ≤ 31)
    (b0' : 1 ≤ b' ∧ b' ≤ 12 ∧ 1 ≤ c' ∧ c' ≤ 31)
    (b1 : 0 ≤ d ∧ d ≤ 23 ∧ 0 ≤ e ∧ e ≤ 59 ∧ 0 ≤ f ∧ f ≤ 59)
    (b2 : 0 ≤ d' ∧ d' ≤ 23 ∧ 0 ≤ e' ∧ e' ≤ 59 ∧ 0 ≤ f' ∧ f' ≤ 59) :
    ((((a * 100 + b) * 100 + c) * 100 + d) * 100 + e) * 100 + f <
      ((((a' * 100 + b') * 100 + c') * 100 + d') * 100 + e') * 100 + f' ↔
      J * 86400 + (d*3600+e*60+f) < J' * 86400 + (d'*3600+e'*60+f') := by
  have t : J < J' ∨ J = J' ∨ J' < J := by omega
  rcases t with t | t | t
  · have := h1.1 t; omega
  · have n1 : ¬ (a < a' ∨ (a = a' ∧ (b < b' ∨ (b = b' ∧ c < c')))) := fun h => by have := h1.2 h; omega
    have n2 : ¬ (a' < a ∨ (a' = a ∧ (b' < b ∨ (b' = b ∧ c' < c)))) := fun h => by have := h2.2 h; omega
    have e1 : a = a' := by omega
    have e2 : b = b' := by omega
    have e3 : c = c' := by omega
    subst e1 e2 e3 t
    omega
  · have := h2.1 t; omega

theorem key_lt_iff_stamp (a b : Solar) (ha : stampValid a = true) (hb : stampValid b = true) :
    a.key < b.key ↔ a.stamp < b.stamp := by
  obtain ⟨hva, _, _⟩ := stampValid_parts a ha
  obtain ⟨hvb, _, _⟩ := stampValid_parts b hb
  have h1 := jdn_lt_iff_lex_all _ _ _ _ _ _ (valid_parts a hva).1 (valid_parts b hvb).1
  have h2 := jdn_lt_iff_lex_all _ _ _ _ _ _ (valid_parts b hvb).1 (valid_parts a hva).1
  have ba := stampValid_bounds a ha
  have bb := stampValid_bounds b hb
  exact key_lt_aux _ _ _ _ _ _ _ _ _ _ _ _ _ _ h1 h2 (by omega) (by omega) (by omega) (by omega)

/-! ## the scan -/

/-- Specification of the scan. `sel` = the entries that pass the filter, in table order. -/
def selected (filters : List String) (ts : List Solar) : List (String × Solar) :=
  (termEntries ts).filter (fun e => filters.isEmpty || filters.contains (convertJieQi e.1))

def dayKey (s : Solar) : Int := (s.year * 100 + s.month) * 100 + s.day

def passes (filters : List String) (e : String × Solar) : Bool :=
  filters.isEmpty || filters.contains (convertJieQi e.1)

def conv (e : String × Solar) : String × Solar := (convertJieQi e.1, e.2)

/-- the printed key `pk` is ordered like the numeric key `K` on the stamps satisfying `V` -/
def KeyOrd (pk : Solar → List Char) (K : Solar → Int) (V : Solar → Prop) : Prop :=
  ∀ a b, V a → V b → cmpChars (pk a) (pk b) = compare (K a) (K b)

theorem KeyOrd.lt {pk K V} (h : KeyOrd pk K V) (a b : Solar) (ha : V a) (hb : V b) :
    strLt (pk a) (pk b) = decide (K a < K b) := by
  unfold strLt; rw [h a b ha hb, cmp_lt_iff]

theorem KeyOrd.gt {pk K V} (h : KeyOrd pk K V) (a b : Solar) (ha : V a) (hb : V b) :
    strGt (pk a) (pk b) = decide (K b < K a) := by
  unfold strGt; rw [h a b ha hb, cmp_gt_iff]

theorem KeyOrd.le {pk K V} (h : KeyOrd pk K V) (a b : Solar) (ha : V a) (hb : V b) :
    strLe (pk a) (pk b) = decide (K a ≤ K b) := by
  have h1 := h.gt a b ha hb
  unfold strGt at h1
  unfold strLe
  by_cases hc : K a ≤ K b
  · have : ¬ K b < K a := by omega
    simp only [this, decide_false, beq_eq_false_iff_ne] at h1
    simp [hc, h1]
  · have : K b < K a := by omega
    simp only [this, decide_true, beq_iff_eq] at h1
    simp [hc, h1]

theorem fwd_some {pk K V} (ho : KeyOrd pk K V) (now : Solar) (hn : V now) (filters : List String) :
    ∀ (es : List (String × Solar)) (n : String × Solar), V n.2 → (∀ e ∈ es, V e.2 ∧ K n.2 ≤ K e.2) →
      nearScan pk (pk now) true filters es (some n) = some n := by
  intro es
  induction es with
  | nil => intro n _ _; simp [nearScan]
  | cons hd rest ih =>
    intro n hv hall
    obtain ⟨k, s⟩ := hd
    obtain ⟨nk, ns⟩ := n
    have ih' := ih (nk, ns) hv (fun e he => hall e (List.mem_cons_of_mem _ he))
    obtain ⟨hvs, hks⟩ := hall (k, s) List.mem_cons_self
    have hlt : strLt (pk s) (pk ns) = false := by
      rw [ho.lt s ns hvs hv]; simp only [decide_eq_false_iff_not]; simp only at hks; omega
    simp only [nearScan, hlt, if_true]
    split
    · exact ih'
    · split
      · exact ih'
      · simp only [Bool.false_eq_true, if_false]; exact ih'

theorem fwd_none {pk K V} (ho : KeyOrd pk K V) (now : Solar) (hn : V now) (filters : List String) :
    ∀ (es : List (String × Solar)), (∀ e ∈ es, V e.2) → es.Pairwise (fun a b => K a.2 ≤ K b.2) →
      nearScan pk (pk now) true filters es none =
        ((es.filter (passes filters)).find? (fun e => decide (K now < K e.2))).map conv := by
  intro es
  induction es with
  | nil => intro _ _; simp [nearScan]
  | cons hd rest ih =>
    intro hall hp
    obtain ⟨k, s⟩ := hd
    rw [List.pairwise_cons] at hp
    have ih' := ih (fun e he => hall e (List.mem_cons_of_mem _ he)) hp.2
    have hvs : V s := hall (k, s) List.mem_cons_self
    have hle := ho.le s now hvs hn
    by_cases hpass : passes filters (k, s) = true
    · have hc : (!filters.isEmpty && !filters.contains (convertJieQi k)) = false := by
        unfold passes at hpass
        cases h1 : filters.isEmpty <;> cases h2 : filters.contains (convertJieQi k) <;> simp_all
      simp only [nearScan, hc, Bool.false_eq_true, if_false, if_true, hle, List.filter_cons, hpass]
      by_cases hk : K s ≤ K now
      · have : ¬ K now < K s := by omega
        simp only [hk, decide_true, if_true, List.find?_cons, this, decide_false]
        exact ih'
      · have h2 : K now < K s := by omega
        simp only [hk, decide_false, Bool.false_eq_true, if_false, List.find?_cons, h2, decide_true,
          Option.map_some]
        exact fwd_some ho now hn filters rest (convertJieQi k, s) hvs
          (fun e he => ⟨hall e (List.mem_cons_of_mem _ he), hp.1 e he⟩)
    · have hc : (!filters.isEmpty && !filters.contains (convertJieQi k)) = true := by
        unfold passes at hpass
        cases h1 : filters.isEmpty <;> cases h2 : filters.contains (convertJieQi k) <;> simp_all
      simp only [nearScan, hc, if_true, List.filter_cons, hpass, Bool.false_eq_true, if_false]
      exact ih'

theorem bwd_scan {pk K V} (ho : KeyOrd pk K V) (now : Solar) (hn : V now) (filters : List String) :
    ∀ (es : List (String × Solar)) (near : Option (String × Solar)), (∀ e ∈ es, V e.2) →
      es.Pairwise (fun a b => K a.2 < K b.2) →
      (∀ n, near = some n → V n.2 ∧ ∀ e ∈ es, K n.2 < K e.2) →
      nearScan pk (pk now) false filters es near =
        match ((es.filter (passes filters)).filter (fun e => decide (K e.2 ≤ K now))).getLast? with
        | some e => some (conv e)
        | none => near := by
  intro es
  induction es with
  | nil => intro near _ _ _; simp [nearScan]
  | cons hd rest ih =>
    intro near hall hp hnear
    obtain ⟨k, s⟩ := hd
    rw [List.pairwise_cons] at hp
    have hall' : ∀ e ∈ rest, V e.2 := fun e he => hall e (List.mem_cons_of_mem _ he)
    have hnear' : ∀ n, near = some n → V n.2 ∧ ∀ e ∈ rest, K n.2 < K e.2 :=
      fun n h => ⟨(hnear n h).1, fun e he => (hnear n h).2 e (List.mem_cons_of_mem _ he)⟩
    have ih' := ih near hall' hp.2 hnear'
    have hvs : V s := hall (k, s) List.mem_cons_self
    have hgt := ho.gt s now hvs hn
    by_cases hpass : passes filters (k, s) = true
    · have hc : (!filters.isEmpty && !filters.contains (convertJieQi k)) = false := by
        unfold passes at hpass
        cases h1 : filters.isEmpty <;> cases h2 : filters.contains (convertJieQi k) <;> simp_all
      by_cases hk : K s ≤ K now
      · have h2 : ¬ K now < K s := by omega
        have ihs := ih (some (convertJieQi k, s)) hall' hp.2
          (fun n h => by cases h; exact ⟨hvs, hp.1⟩)
        have hstep : nearScan pk (pk now) false filters ((k, s) :: rest) near =
            nearScan pk (pk now) false filters rest (some (convertJieQi k, s)) := by
          cases near with
          | none =>
            simp only [nearScan, hc, Bool.false_eq_true, if_false, hgt, h2, decide_false]
          | some n =>
            obtain ⟨nk, ns⟩ := n
            obtain ⟨hvn, hkn⟩ := hnear (nk, ns) rfl
            have h3 : K ns < K s := hkn (k, s) List.mem_cons_self
            have hgt2 := ho.gt s ns hvs hvn
            simp only [nearScan, hc, Bool.false_eq_true, if_false, hgt, h2, decide_false, hgt2, h3,
              decide_true, if_true]
        rw [hstep, ihs]
        simp only [List.filter_cons, hpass, if_true, hk, decide_true, List.getLast?_cons]
        cases (List.filter (fun e => decide (K e.2 ≤ K now)) (List.filter (passes filters) rest)).getLast? with
        | none => rfl
        | some e => rfl
      · have h2 : K now < K s := by omega
        simp only [nearScan, hc, Bool.false_eq_true, if_false, hgt, h2, decide_true, if_true,
          List.filter_cons, hpass, hk, decide_false]
        exact ih'
    · have hc : (!filters.isEmpty && !filters.contains (convertJieQi k)) = true := by
        unfold passes at hpass
        cases h1 : filters.isEmpty <;> cases h2 : filters.contains (convertJieQi k) <;> simp_all
      simp only [nearScan, hc, if_true, List.filter_cons, hpass, Bool.false_eq_true, if_false]
      exact ih'

/-! ## what `termsOk` gives -/

theorem allAdj_pairwise {α : Type} (f : α → α → Bool) (P : α → Prop) (R : α → α → Prop)
    (hR : ∀ a b, P a → P b → f a b = true → R a b) (ht : ∀ a b c, R a b → R b c → R a c) :
    ∀ l : List α, (∀ a ∈ l, P a) → allAdj f l = true → l.Pairwise R := by
  intro l
  induction l with
  | nil => intro _ _; exact List.Pairwise.nil
  | cons a t ih =>
    intro hP hadj
    cases t with
    | nil => exact List.pairwise_singleton _ _
    | cons b r =>
      simp only [allAdj, Bool.and_eq_true] at hadj
      have hPt : ∀ x ∈ b :: r, P x := fun x hx => hP x (List.mem_cons_of_mem _ hx)
      have ihp := ih hPt hadj.2
      have hab : R a b := hR a b (hP a List.mem_cons_self) (hPt b List.mem_cons_self) hadj.1
      rw [List.pairwise_cons]
      refine ⟨?_, ihp⟩
      intro x hx
      rw [List.mem_cons] at hx
      rcases hx with rfl | hx
      · exact hab
      · rw [List.pairwise_cons] at ihp
        exact ht a b x hab (ihp.1 x hx)

theorem dayKey_lt_of_gap (a b : Solar) (ha : stampValid a = true) (hb : stampValid b = true)
    (h1 : a.key < b.key) (h2 : 1261440 ≤ b.stamp - a.stamp) : dayKey a < dayKey b := by
  have ba := stampValid_bounds a ha
  have bb := stampValid_bounds b hb
  by_cases h : dayKey a < dayKey b
  · exact h
  · exfalso
    unfold Solar.key at h1
    unfold dayKey at h
    have e1 : a.year = b.year := by omega
    have e2 : a.month = b.month := by omega
    have e3 : a.day = b.day := by omega
    unfold Solar.stamp Solar.jdn Solar.secOfDay at h2
    rw [e1, e2, e3] at h2
    omega

theorem termsOk_facts (y : Int) (ts : List Solar) (h : termsOk y ts = true) :
    ts.length = 31 ∧ (∀ a ∈ ts, stampValid a = true) ∧
    ts.Pairwise (fun a b => a.key < b.key) ∧ ts.Pairwise (fun a b => dayKey a < dayKey b) := by
  unfold termsOk at h
  simp only [Bool.and_eq_true, decide_eq_true_eq, List.all_eq_true] at h
  obtain ⟨⟨⟨hl, hv⟩, hadj⟩, _⟩ := h
  refine ⟨hl, hv, ?_, ?_⟩
  · apply allAdj_pairwise _ (fun a => stampValid a = true) _ _ _ ts hv hadj
    · intro a b _ _ hf
      simp only [Bool.and_eq_true, decide_eq_true_eq] at hf
      exact hf.1.1
    · intro a b c h1 h2; omega
  · apply allAdj_pairwise _ (fun a => stampValid a = true) _ _ _ ts hv hadj
    · intro a b ha hb hf
      simp only [Bool.and_eq_true, decide_eq_true_eq] at hf
      exact dayKey_lt_of_gap a b ha hb hf.1.1 hf.1.2
    · intro a b c h1 h2; omega

theorem entries_facts (y : Int) (ts : List Solar) (h : termsOk y ts = true) :
    (∀ e ∈ termEntries ts, stampValid e.2 = true) ∧
    (termEntries ts).Pairwise (fun a b => a.2.key < b.2.key) ∧
    (termEntries ts).Pairwise (fun a b => dayKey a.2 < dayKey b.2) := by
  obtain ⟨hl, hv, hp1, hp2⟩ := termsOk_facts y ts h
  have hsnd : (termEntries ts).map Prod.snd = ts := by
    rw [termEntries_eq ts hl]
    exact List.map_snd_zip (by rw [names_len.1, hl]; exact Nat.le_refl _)
  refine ⟨?_, ?_, ?_⟩
  · intro e he
    apply hv
    rw [← hsnd]
    exact List.mem_map_of_mem he
  · have := hp1
    rw [← hsnd, List.pairwise_map] at this
    exact this
  · have := hp2
    rw [← hsnd, List.pairwise_map] at this
    exact this

theorem keyOrd_hms : KeyOrd Solar.toYmdHms Solar.key (fun s => stampValid s = true) :=
  fun a b ha hb => cmp_toYmdHms a b (stampValid_inWidth a ha) (stampValid_inWidth b hb)

theorem keyOrd_ymd : KeyOrd Solar.toYmd dayKey (fun s => stampValid s = true) :=
  fun a b ha hb => cmp_toYmd a b (stampValid_inWidth a ha) (stampValid_inWidth b hb)

theorem map_conv_of_match (x : Option (String × Solar)) :
    (match x with
      | some e => some (conv e)
      | none => none) = x.map conv := by
  cases x <;> rfl

/-- next term = the EARLIEST selected entry STRICTLY AFTER now -/
theorem near_forward (y : Int) (l : Lunar) (filters : List String) (hts : termsOk y l.terms = true) (hnow : stampValid l.solar = true) :
    l.nearJieQi true filters false =
      ((selected filters l.terms).find? (fun e => decide (l.solar.key < e.2.key))).map (fun e => (convertJieQi e.1, e.2)) := by
  obtain ⟨hv, hp1, hp2⟩ := entries_facts y l.terms hts
  have := fwd_none keyOrd_hms l.solar hnow filters (termEntries l.terms) hv
    (hp1.imp (by intro a b h; omega))
  unfold Lunar.nearJieQi selected
  simp only [Bool.false_eq_true, if_false]
  exact this

/-- previous term = the LATEST selected entry AT OR BEFORE now -/
theorem near_backward (y : Int) (l : Lunar) (filters : List String) (hts : termsOk y l.terms = true) (hnow : stampValid l.solar = true) :
    l.nearJieQi false filters false =
      (((selected filters l.terms).filter (fun e => decide (e.2.key ≤ l.solar.key))).getLast?).map (fun e => (convertJieQi e.1, e.2)) := by
  obtain ⟨hv, hp1, hp2⟩ := entries_facts y l.terms hts
  have := bwd_scan keyOrd_hms l.solar hnow filters (termEntries l.terms) none hv hp1
    (by intro n h; cases h)
  rw [map_conv_of_match] at this
  unfold Lunar.nearJieQi selected
  simp only [Bool.false_eq_true, if_false]
  exact this

theorem near_forward_day (y : Int) (l : Lunar) (filters : List String) (hts : termsOk y l.terms = true) (hnow : stampValid l.solar = true) :
    l.nearJieQi true filters true =
      ((selected filters l.terms).find? (fun e => decide (dayKey l.solar < dayKey e.2))).map (fun e => (convertJieQi e.1, e.2)) := by
  obtain ⟨hv, hp1, hp2⟩ := entries_facts y l.terms hts
  have := fwd_none keyOrd_ymd l.solar hnow filters (termEntries l.terms) hv
    (hp2.imp (by intro a b h; omega))
  unfold Lunar.nearJieQi selected
  simp only [if_true]
  exact this

theorem near_backward_day (y : Int) (l : Lunar) (filters : List String) (hts : termsOk y l.terms = true) (hnow : stampValid l.solar = true) :
    l.nearJieQi false filters true =
      (((selected filters l.terms).filter (fun e => decide (dayKey e.2 ≤ dayKey l.solar))).getLast?).map (fun e => (convertJieQi e.1, e.2)) := by
  obtain ⟨hv, hp1, hp2⟩ := entries_facts y l.terms hts
  have := bwd_scan keyOrd_ymd l.solar hnow filters (termEntries l.terms) none hv hp2
    (by intro n h; cases h)
  rw [map_conv_of_match] at this
  unfold Lunar.nearJieQi selected
  simp only [if_true]
  exact this

/-! ## the term of a day -/

theorem sameDay_iff (a b : Solar) : sameDay a b = true ↔ a.year = b.year ∧ a.month = b.month ∧ a.day = b.day := by
  unfold sameDay
  simp only [Bool.and_eq_true, beq_iff_eq, and_assoc]

/-- two different table entries never fall on the same civil day (gap ≥ 14.6 days) -/
theorem terms_distinct_days (y : Int) (ts : List Solar) (h : termsOk y ts = true) (i j : Nat) (hi : i < j) (hj : j < 31) :
    ¬ sameDay (ts.getD i nilSolar) (ts.getD j nilSolar) = true := by
  obtain ⟨hl, _, _, hp⟩ := termsOk_facts y ts h
  rw [List.pairwise_iff_getElem] at hp
  have h1 : i < ts.length := by omega
  have h2 : j < ts.length := by omega
  have := hp i j h1 h2 hi
  rw [getD_eq_getElem' _ _ _ h1, getD_eq_getElem' _ _ _ h2, sameDay_iff]
  intro ⟨e1, e2, e3⟩
  unfold dayKey at this
  rw [e1, e2, e3] at this
  omega

theorem find?_unique {α : Type} (p : α → Bool) (l : List α) (x : α) (hx : x ∈ l) (hp : p x = true)
    (hu : ∀ y ∈ l, p y = true → y = x) : l.find? p = some x := by
  cases hf : l.find? p with
  | none =>
    rw [List.find?_eq_none] at hf
    exact absurd hp (hf x hx)
  | some y =>
    rw [hu y (List.mem_of_find?_eq_some hf) (List.find?_some hf)]

abbrev entryAt (ts : List Solar) (j : Nat) : String × Solar :=
  (calendar.JIE_QI_IN_USE.getD j "", ts.getD j nilSolar)

theorem entries_length (ts : List Solar) (hl : ts.length = 31) : (termEntries ts).length = 31 := by
  rw [termEntries_eq ts hl, List.length_zip, names_len.1, hl]; rfl

theorem entries_get (ts : List Solar) (hl : ts.length = 31) (j : Nat) (hj : j < 31)
    (h : j < (termEntries ts).length) : (termEntries ts)[j] = entryAt ts j := by
  have h1 : j < calendar.JIE_QI_IN_USE.length := by rw [names_len.1]; exact hj
  have h2 : j < ts.length := by omega
  simp only [termEntries_eq ts hl, List.getElem_zip, entryAt, getD_eq_getElem' _ _ _ h1,
    getD_eq_getElem' _ _ _ h2]

/-- common core of `GetJieQi` / `GetJie` / `GetQi`: `L` is the part of the table with index in `I` -/
theorem spec_core (ts : List Solar) (solar : Solar)
    (hd : ∀ i j, i < j → j < 31 → ¬ sameDay (ts.getD i nilSolar) (ts.getD j nilSolar) = true)
    (L : List (String × Solar)) (I : Nat → Prop)
    (hL1 : ∀ e ∈ L, ∃ j, j < 31 ∧ I j ∧ e = entryAt ts j)
    (hL2 : ∀ j, j < 31 → I j → entryAt ts j ∈ L) :
    (∀ i, i < 31 → I i → sameDay (ts.getD i nilSolar) solar = true →
      (match L.find? (fun e => sameDay e.2 solar) with
        | some e => convertJieQi e.1
        | none => "") = convertJieQi (calendar.JIE_QI_IN_USE.getD i "")) ∧
    ((∀ i, i < 31 → I i → sameDay (ts.getD i nilSolar) solar = false) →
      (match L.find? (fun e => sameDay e.2 solar) with
        | some e => convertJieQi e.1
        | none => "") = "") := by
  constructor
  · intro i hi hI hs
    have : L.find? (fun e => sameDay e.2 solar) = some (entryAt ts i) := by
      apply find?_unique _ _ _ (hL2 i hi hI) hs
      intro e he hpe
      obtain ⟨j, hj, _, rfl⟩ := hL1 e he
      simp only at hpe
      have hij : sameDay (ts.getD i nilSolar) (ts.getD j nilSolar) = true := by
        rw [sameDay_iff] at hs hpe ⊢
        omega
      have hji : sameDay (ts.getD j nilSolar) (ts.getD i nilSolar) = true := by
        rw [sameDay_iff] at hs hpe ⊢
        omega
      have : i = j := by
        by_cases h1 : i < j
        · exact absurd hij (hd i j h1 hj)
        · by_cases h2 : j < i
          · exact absurd hji (hd j i h2 hi)
          · omega
      rw [this]
    rw [this]
  · intro hall
    have : L.find? (fun e => sameDay e.2 solar) = none := by
      rw [List.find?_eq_none]
      intro e he
      obtain ⟨j, hj, hI, rfl⟩ := hL1 e he
      simp only [hall j hj hI]
      exact Bool.false_ne_true
    rw [this]

theorem everyOtherE_mem (l : List (String × Solar)) :
    ∀ e ∈ everyOtherE l, ∃ k, ∃ h : 2 * k < l.length, e = l[2 * k] := by
  induction l using everyOtherE.induct with
  | case1 a b r ih =>
    intro e he
    simp only [everyOtherE, List.mem_cons] at he
    rcases he with rfl | he
    · exact ⟨0, by simp, rfl⟩
    · obtain ⟨k, h, rfl⟩ := ih e he
      refine ⟨k + 1, by simp only [List.length_cons]; omega, ?_⟩
      have : 2 * (k + 1) = 2 * k + 1 + 1 := by omega
      simp only [this, List.getElem_cons_succ]
  | case2 a =>
    intro e he
    simp only [everyOtherE, List.mem_singleton] at he
    exact ⟨0, by simp, by simp [he]⟩
  | case3 => intro e he; simp [everyOtherE] at he

theorem everyOtherE_get (l : List (String × Solar)) :
    ∀ k, ∀ h : 2 * k < l.length, l[2 * k] ∈ everyOtherE l := by
  induction l using everyOtherE.induct with
  | case1 a b r ih =>
    intro k h
    cases k with
    | zero => simp [everyOtherE]
    | succ k =>
      have h' : 2 * k < r.length := by simp only [List.length_cons] at h; omega
      have e : 2 * (k + 1) = 2 * k + 1 + 1 := by omega
      simp only [everyOtherE, e, List.getElem_cons_succ, List.mem_cons]
      exact Or.inr (ih k h')
  | case2 a =>
    intro k h
    have : k = 0 := by simp only [List.length_singleton] at h; omega
    subst this
    simp [everyOtherE]
  | case3 => intro k h; simp at h

theorem jieQi_spec (y : Int) (l : Lunar) (hts : termsOk y l.terms = true) :
    (∀ i, i < 31 → sameDay (l.terms.getD i nilSolar) l.solar = true →
        l.jieQi = convertJieQi (Gen.Tables.calendar.JIE_QI_IN_USE.getD i "")) ∧
    ((∀ i, i < 31 → sameDay (l.terms.getD i nilSolar) l.solar = false) → l.jieQi = "") := by
  obtain ⟨hl, _⟩ := termsOk_facts y l.terms hts
  have hlen := entries_length l.terms hl
  have core := spec_core l.terms l.solar (fun i j => terms_distinct_days y l.terms hts i j)
    (termEntries l.terms) (fun _ => True)
    (by
      intro e he
      obtain ⟨j, hj, rfl⟩ := List.mem_iff_getElem.mp he
      exact ⟨j, by omega, trivial, entries_get l.terms hl j (by omega) hj⟩)
    (by
      intro j hj _
      rw [← entries_get l.terms hl j hj (by omega)]
      exact List.getElem_mem _)
  unfold Lunar.jieQi
  exact ⟨fun i hi hs => core.1 i hi trivial hs, fun h => core.2 (fun i hi _ => h i hi)⟩

theorem jie_spec (y : Int) (l : Lunar) (hts : termsOk y l.terms = true) :
    (∀ i, i < 31 → i % 2 = 0 → sameDay (l.terms.getD i nilSolar) l.solar = true → l.jie = convertJieQi (Gen.Tables.calendar.JIE_QI_IN_USE.getD i "")) ∧
    ((∀ i, i < 31 → i % 2 = 0 → sameDay (l.terms.getD i nilSolar) l.solar = false) → l.jie = "") := by
  obtain ⟨hl, _⟩ := termsOk_facts y l.terms hts
  have hlen := entries_length l.terms hl
  have core := spec_core l.terms l.solar (fun i j => terms_distinct_days y l.terms hts i j)
    (everyOtherE (termEntries l.terms)) (fun i => i % 2 = 0)
    (by
      intro e he
      obtain ⟨k, hk, rfl⟩ := everyOtherE_mem _ e he
      exact ⟨2 * k, by omega, by omega, entries_get l.terms hl (2 * k) (by omega) hk⟩)
    (by
      intro j hj hI
      have e : j = 2 * (j / 2) := by omega
      rw [← entries_get l.terms hl j hj (by omega)]
      have := everyOtherE_get (termEntries l.terms) (j / 2) (by omega)
      simpa only [← e] using this)
  unfold Lunar.jie
  exact core

theorem qi_spec (y : Int) (l : Lunar) (hts : termsOk y l.terms = true) :
    (∀ i, i < 31 → i % 2 = 1 → sameDay (l.terms.getD i nilSolar) l.solar = true → l.qi = convertJieQi (Gen.Tables.calendar.JIE_QI_IN_USE.getD i "")) ∧
    ((∀ i, i < 31 → i % 2 = 1 → sameDay (l.terms.getD i nilSolar) l.solar = false) → l.qi = "") := by
  obtain ⟨hl, _⟩ := termsOk_facts y l.terms hts
  have hlen := entries_length l.terms hl
  have hdl : ((termEntries l.terms).drop 1).length = 30 := by rw [List.length_drop, hlen]
  have core := spec_core l.terms l.solar (fun i j => terms_distinct_days y l.terms hts i j)
    (everyOtherE ((termEntries l.terms).drop 1)) (fun i => i % 2 = 1)
    (by
      intro e he
      obtain ⟨k, hk, rfl⟩ := everyOtherE_mem _ e he
      refine ⟨1 + 2 * k, by omega, by omega, ?_⟩
      rw [List.getElem_drop]
      exact entries_get l.terms hl (1 + 2 * k) (by omega) _)
    (by
      intro j hj hI
      have e : j = 1 + 2 * (j / 2) := by omega
      rw [← entries_get l.terms hl j hj (by omega)]
      have := everyOtherE_get ((termEntries l.terms).drop 1) (j / 2) (by omega)
      rw [List.getElem_drop] at this
      simpa only [← e] using this)
  unfold Lunar.qi
  exact core

#print axioms names_len
#print axioms names_nodup
#print axioms names_canonical
#print axioms filters_parity
#print axioms jie_qi_partition
#print axioms termEntries_eq
#print axioms strLt_ymdhms_iff
#print axioms key_lt_iff_stamp
#print axioms near_forward
#print axioms near_backward
#print axioms near_forward_day
#print axioms near_backward_day
#print axioms terms_distinct_days
#print axioms jieQi_spec
#print axioms jie_spec
#print axioms qi_spec

end Model
