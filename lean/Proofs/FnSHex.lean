/-
Proofs.FnSHex — LunarUtil.hex (string-mode generated code = model / tables; split from the worker's FnS5; helper prefix `s5_`).
-/
import Proofs.FnSBase
import Proofs.FnSFmt
import Model.Lunar
import Model.Almanac
import Model.Fmt

namespace FnSEq
open Gen.Fn (Err)
open Gen.Tables

/-! ## C. `LunarUtil.hex` -/


/-- the lower-case digit `%x` emits -/
def s5_lowhex (d : Nat) : Char := if d < 10 then Char.ofNat (48 + d) else Char.ofNat (87 + d)

theorem s5_lowhex_upper (d : Nat) (h : d < 16) : (s5_lowhex d).toUpper = Model.hexDigit d := by
  have : d = 0 ∨ d = 1 ∨ d = 2 ∨ d = 3 ∨ d = 4 ∨ d = 5 ∨ d = 6 ∨ d = 7 ∨ d = 8 ∨ d = 9 ∨ d = 10 ∨ d = 11 ∨
      d = 12 ∨ d = 13 ∨ d = 14 ∨ d = 15 := by omega
  rcases this with h|h|h|h|h|h|h|h|h|h|h|h|h|h|h|h <;> subst h <;> decide

theorem s5_lowhex_size (d : Nat) (h : d < 16) : (s5_lowhex d).utf8Size = 1 := by
  have : d = 0 ∨ d = 1 ∨ d = 2 ∨ d = 3 ∨ d = 4 ∨ d = 5 ∨ d = 6 ∨ d = 7 ∨ d = 8 ∨ d = 9 ∨ d = 10 ∨ d = 11 ∨
      d = 12 ∨ d = 13 ∨ d = 14 ∨ d = 15 := by omega
  rcases this with h|h|h|h|h|h|h|h|h|h|h|h|h|h|h|h <;> subst h <;> decide

theorem s5_hexDigits_step (fuel n : Nat) (acc : List Char) :
    Gen.FnS.hexDigits (fuel + 1) n acc
      = if n / 16 = 0 then s5_lowhex (n % 16) :: acc else Gen.FnS.hexDigits fuel (n / 16) (s5_lowhex (n % 16) :: acc) := rfl

theorem s5_hexDigits_1 (k : Nat) (h : k < 16) : Gen.FnS.hexDigits (k + 1) k [] = [s5_lowhex k] := by
  rw [s5_hexDigits_step, if_pos (by omega), Nat.mod_eq_of_lt h]

theorem s5_hexDigits_2 (k : Nat) (h0 : 16 ≤ k) (h1 : k < 256) :
    Gen.FnS.hexDigits (k + 1) k [] = [s5_lowhex (k / 16), s5_lowhex (k % 16)] := by
  obtain ⟨f, rfl⟩ : ∃ f, k = f + 1 := ⟨k - 1, by omega⟩
  rw [s5_hexDigits_step, if_neg (by omega), s5_hexDigits_step, if_pos (by omega),
    Nat.mod_eq_of_lt (show (f + 1) / 16 < 16 by omega)]

theorem s5_fmtX_nonneg (n : Int) (h : 0 ≤ n) :
    Gen.FnS.fmtX n = String.ofList (Gen.FnS.hexDigits (n.toNat + 1) n.toNat []) := by
  unfold Gen.FnS.fmtX
  have e : n.natAbs = n.toNat := by omega
  rw [if_neg (by omega), e]; simp

theorem s5_toUpper_ofList (l : List Char) : Gen.FnS.strToUpper (String.ofList l) = String.ofList (l.map Char.toUpper) := by
  unfold Gen.FnS.strToUpper; rw [String.toList_ofList]

/-- `LunarUtil.hex(n)`: two upper-case hex digits for 0 ≤ n < 256 -/
theorem hex_eq (n : Int) (h0 : 0 ≤ n) (h1 : n < 256) :
    Gen.FnS.LunarUtil_hex n = .ok (String.ofList (Model.hex2 n)) := by
  unfold Gen.FnS.LunarUtil_hex Model.hex2
  rw [s5_fmtX_nonneg n h0]
  have hk : n.toNat < 256 := by omega
  generalize n.toNat = k at hk
  by_cases hs : k < 16
  · rw [s5_hexDigits_1 k hs]
    have hl : Gen.FnS.strLen (String.ofList [s5_lowhex k]) < 2 := by
      unfold Gen.FnS.strLen
      rw [String.ofList_cons, String.ofList_nil, String.utf8ByteSize_append, String.utf8ByteSize_singleton,
        s5_lowhex_size k hs]
      decide
    simp only [hl, decide_true, if_true, pure, Except.pure]
    rw [show ("0" : String) = String.ofList ['0'] from rfl, ← String.ofList_append, s5_toUpper_ofList]
    simp only [List.cons_append, List.nil_append, List.map_cons, List.map_nil, s5_lowhex_upper k hs,
      Nat.div_eq_of_lt hs, Nat.mod_eq_of_lt hs]
    rfl
  · have hs' : 16 ≤ k := by omega
    rw [s5_hexDigits_2 k hs' hk]
    have hl : ¬ Gen.FnS.strLen (String.ofList [s5_lowhex (k / 16), s5_lowhex (k % 16)]) < 2 := by
      unfold Gen.FnS.strLen
      rw [String.ofList_cons, String.ofList_cons, String.ofList_nil, String.utf8ByteSize_append,
        String.utf8ByteSize_append, String.utf8ByteSize_singleton, String.utf8ByteSize_singleton,
        s5_lowhex_size _ (show k / 16 < 16 by omega), s5_lowhex_size _ (Nat.mod_lt _ (by decide))]
      decide
    simp only [hl, decide_false, Bool.false_eq_true, if_false, pure, Except.pure]
    rw [s5_toUpper_ofList]
    simp only [List.map_cons, List.map_nil, s5_lowhex_upper _ (show k / 16 < 16 by omega),
      s5_lowhex_upper _ (Nat.mod_lt k (by decide : 0 < 16))]

theorem hex_toList (n : Int) (h0 : 0 ≤ n) (h1 : n < 256) :
    (Gen.FnS.LunarUtil_hex n).map String.toList = .ok (Model.hex2 n) := by
  rw [hex_eq n h0 h1]; simp [Except.map]


/-- outside the guard: Go's `%x` of −1 is "-1" (the model's `hex2 (-1)` is "00"); −1 is what `GetJiaZiIndex`
returns for a string that is not a sexagenary name, which no well-formed `Lunar` produces -/
theorem hex_neg_one : Gen.FnS.LunarUtil_hex (-1) = .ok "-1" := by
  unfold Gen.FnS.LunarUtil_hex
  have h1 : Gen.FnS.fmtX (-1) = "-1" := by decide
  rw [h1]
  have h2 : ¬ Gen.FnS.strLen "-1" < 2 := by decide
  simp only [h2, decide_false, Bool.false_eq_true, if_false, pure, Except.pure]
  have h3 : Gen.FnS.strToUpper "-1" = "-1" := by decide
  rw [h3]


end FnSEq
