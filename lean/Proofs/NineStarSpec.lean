/-
Proofs.NineStarSpec — the nine-star indices (year / month / day / hour) of `Model.NineStar`:
table facts, closed forms, ranges 0..8 (no negative index: Go's truncating `%` never sees a
negative operand), step rules, and the day star's anchor specification.
-/
import Model.NineStar
import Model.AstroWF
import Proofs.CivilArith
import Proofs.FmtOrder
import Proofs.JieQiSpec
import Proofs.Convert
import Proofs.CivilStep
set_option linter.unusedVariables false
namespace Model
open Gen.Tables

/-! ## table facts -/

/-- JIA_ZI[i] = GAN[i%10+1] ++ ZHI[i%12+1] -/
theorem jiazi_table : (List.range 60).all (fun i => ganZhiIndex ((i : Int) % 10) ((i : Int) % 12) == (i : Int)) = true := by
  decide

theorem star_tables_len : [Gen.Tables.calendar.NUMBER, Gen.Tables.calendar.COLOR, Gen.Tables.calendar.WU_XING, Gen.Tables.calendar.POSITION,
    Gen.Tables.calendar.NAME_BEI_DOU, Gen.Tables.calendar.NAME_XUAN_KONG, Gen.Tables.calendar.NAME_QI_MEN, Gen.Tables.calendar.BA_MEN_QI_MEN,
    Gen.Tables.calendar.NAME_TAI_YI, Gen.Tables.calendar.TYPE_TAI_YI, Gen.Tables.calendar.SONG_TAI_YI, Gen.Tables.calendar.LUCK_XUAN_KONG,
    Gen.Tables.calendar.LUCK_QI_MEN, Gen.Tables.calendar.YIN_YANG_QI_MEN].all (fun t => t.length == 9) = true := by
  decide

/-- all 60 same-parity (stem, branch) pairs, and all 60 mixed-parity pairs (absent: −1) -/
theorem ganZhi_tab : (List.range 10).all (fun g => (List.range 12).all (fun z =>
    if (g : Int) % 2 = (z : Int) % 2 then ganZhiIndex (g : Int) (z : Int) == (6 * (g : Int) - 5 * (z : Int)) % 60
    else ganZhiIndex (g : Int) (z : Int) == -1)) = true := by
  decide

theorem ganZhi_tab_at (g z : Nat) (hg : g < 10) (hz : z < 12) :
    if (g : Int) % 2 = (z : Int) % 2 then ganZhiIndex (g : Int) (z : Int) = (6 * (g : Int) - 5 * (z : Int)) % 60
    else ganZhiIndex (g : Int) (z : Int) = -1 := by
  have h := ganZhi_tab
  rw [List.all_eq_true] at h
  have h := h g (List.mem_range.mpr hg)
  rw [List.all_eq_true] at h
  have h := h z (List.mem_range.mpr hz)
  split
  · rename_i hp; rw [if_pos hp] at h; exact eq_of_beq h
  · rename_i hp; rw [if_neg hp] at h; exact eq_of_beq h

/-- pillar index of a valid (stem, branch) pair -/
theorem ganZhiIndex_eq (g z : Int) (hg : 0 ≤ g ∧ g ≤ 9) (hz : 0 ≤ z ∧ z ≤ 11) (hp : g % 2 = z % 2) :
    ganZhiIndex g z = (6 * g - 5 * z) % 60 := by
  obtain ⟨g', rfl⟩ := Int.eq_ofNat_of_zero_le hg.1
  obtain ⟨z', rfl⟩ := Int.eq_ofNat_of_zero_le hz.1
  have := ganZhi_tab_at g' z' (by omega) (by omega)
  rw [if_pos hp] at this
  exact this

/-- a mixed-parity pair is not a pillar: the lookup fails (−1) -/
theorem ganZhiIndex_mixed (g z : Int) (hg : 0 ≤ g ∧ g ≤ 9) (hz : 0 ≤ z ∧ z ≤ 11) (hp : g % 2 ≠ z % 2) :
    ganZhiIndex g z = -1 := by
  obtain ⟨g', rfl⟩ := Int.eq_ofNat_of_zero_le hg.1
  obtain ⟨z', rfl⟩ := Int.eq_ofNat_of_zero_le hz.1
  have := ganZhi_tab_at g' z' (by omega) (by omega)
  rw [if_neg hp] at this
  exact this

/-- the pillar of the `n`-th item of a sexagenary count (years from 4, days from day number 11) -/
theorem ganZhiIndex_cycle (n : Int) : ganZhiIndex (n % 10) (n % 12) = n % 60 := by
  rw [ganZhiIndex_eq _ _ (by omega) (by omega) (by omega)]
  omega

theorem tmod9 (a : Int) (h : 0 ≤ a) : a.tmod 9 = a % 9 := Int.tmod_eq_emod_of_nonneg h

/-! ## year star -/

theorem year_star_arith_aux (k u r : Int) (hu : 0 ≤ u ∧ u < 3) (hr : 0 ≤ r ∧ r < 60) :
    (if (62 + u * 3 - (r + 1)).tmod 9 = 0 then 9 else (62 + u * 3 - (r + 1)).tmod 9) - 1 =
      (1 - (180 * k + 60 * u + r - 2696)) % 9 := by
  rw [tmod9 _ (by omega)]
  split <;> omega

/-- the common arithmetic of `LunarYear.GetNineStar` and `Lunar.getYearNineStar` on a year `Y ≥ −2696` whose
pillar index is `(Y − 4) % 60` -/
theorem year_star_arith (Y : Int) (hY : -2696 ≤ Y) :
    (if (62 + (Int.tdiv (Y + 2696) 60).tmod 3 * 3 - ((Y - 4) % 60 + 1)).tmod 9 = 0 then 9
      else (62 + (Int.tdiv (Y + 2696) 60).tmod 3 * 3 - ((Y - 4) % 60 + 1)).tmod 9) - 1 = (1 - Y) % 9 := by
  have e1 : Int.tdiv (Y + 2696) 60 = (Y + 2696) / 60 := Int.tdiv_eq_ediv_of_nonneg (by omega)
  have e2 : ((Y + 2696) / 60).tmod 3 = ((Y + 2696) / 60) % 3 := Int.tmod_eq_emod_of_nonneg (by omega)
  rw [e1, e2]
  clear e1 e2
  have e3 : (Y - 4) % 60 = (Y + 2696) % 60 := by omega
  have e4 : Y = 180 * ((Y + 2696) / 60 / 3) + 60 * ((Y + 2696) / 60 % 3) + (Y + 2696) % 60 - 2696 := by omega
  rw [e3]
  generalize (Y + 2696) / 60 / 3 = k at e4
  have hu : 0 ≤ (Y + 2696) / 60 % 3 ∧ (Y + 2696) / 60 % 3 < 3 := by omega
  have hr : 0 ≤ (Y + 2696) % 60 ∧ (Y + 2696) % 60 < 60 := by omega
  generalize (Y + 2696) / 60 % 3 = u at e4 hu
  generalize (Y + 2696) % 60 = r at e4 hr
  subst e4
  exact year_star_arith_aux k u r hu hr

/-- closed form of the year star: index `(1 − Y) mod 9` = `(2 + (2024 − Y)) mod 9` -/
theorem lunarYear_star_closed (Y : Int) (hY : -2696 ≤ Y) : lunarYearNineStar Y = (1 - Y) % 9 := by
  unfold lunarYearNineStar
  simp only [ganZhiIndex_cycle]
  exact year_star_arith Y hY

theorem lunarYear_star_range (Y : Int) (hY : -2696 ≤ Y) : 0 ≤ lunarYearNineStar Y ∧ lunarYearNineStar Y ≤ 8 := by
  rw [lunarYear_star_closed Y hY]; omega

theorem lunarYear_star_step (Y : Int) (hY : -2696 ≤ Y) : lunarYearNineStar (Y + 1) = (lunarYearNineStar Y + 8) % 9 := by
  rw [lunarYear_star_closed Y hY, lunarYear_star_closed (Y + 1) (by omega)]; omega

theorem star_2024 : lunarYearNineStar 2024 = 2 := by
  rw [lunarYear_star_closed 2024 (by omega)]; decide

/-- the Lunar's year star for a given sect equals the lunar-year star of the year whose pillar that sect reports -/
theorem year_star_of_pillar (l : Lunar) (δ : Int) (hδ : δ = -1 ∨ δ = 0 ∨ δ = 1) (hy : -2695 ≤ l.year)
    (hyg : l.yearGanIndex = (l.year - 4) % 10) (hyz : l.yearZhiIndex = (l.year - 4) % 12) :
    l.yearNineStarOf ((l.year + δ - 4) % 10) ((l.year + δ - 4) % 12) = lunarYearNineStar (l.year + δ) := by
  rw [lunarYear_star_closed _ (by omega)]
  unfold Lunar.yearNineStarOf
  rw [hyg, hyz]
  simp only [ganZhiIndex_cycle]
  have ho : (if (l.year + δ - 4) % 60 + 1 - ((l.year - 4) % 60 + 1) > 1 then
        (l.year + δ - 4) % 60 + 1 - ((l.year - 4) % 60 + 1) - 60
      else if (l.year + δ - 4) % 60 + 1 - ((l.year - 4) % 60 + 1) < -1 then
        (l.year + δ - 4) % 60 + 1 - ((l.year - 4) % 60 + 1) + 60
      else (l.year + δ - 4) % 60 + 1 - ((l.year - 4) % 60 + 1)) = δ := by
    split
    · omega
    · split <;> omega
  rw [ho]
  exact year_star_arith (l.year + δ) (by omega)

/-! ## month star -/

theorem month_star_closed (yz mz : Int) (hy : 0 ≤ yz ∧ yz ≤ 11) (hm : 0 ≤ mz ∧ mz ≤ 11) :
    monthNineStarOf yz mz = (27 - yz % 3 * 3 - (if mz < 2 then 3 else 0) - mz) % 9 := by
  unfold monthNineStarOf LunarUtil.BASE_MONTH_ZHI_INDEX
  simp only
  rw [Int.tmod_eq_emod_of_nonneg hy.1]
  split
  · rw [tmod9 _ (by omega)]
    all_goals omega
  · rw [tmod9 _ (by omega)]
    all_goals omega

theorem month_star_range (yz mz : Int) (hy : 0 ≤ yz ∧ yz ≤ 11) (hm : 0 ≤ mz ∧ mz ≤ 11) :
    0 ≤ monthNineStarOf yz mz ∧ monthNineStarOf yz mz ≤ 8 := by
  rw [month_star_closed yz mz hy hm]; omega

theorem month_star_step (yz mz : Int) (hy : 0 ≤ yz ∧ yz ≤ 11) (hm : 0 ≤ mz ∧ mz ≤ 11) :
    monthNineStarOf (if mz = 1 then (yz + 1) % 12 else yz) (if mz = 1 then 2 else (mz + 1) % 12) = (monthNineStarOf yz mz + 8) % 9 := by
  rw [month_star_closed yz mz hy hm]
  by_cases h1 : mz = 1
  · subst h1
    simp only [if_true]
    rw [month_star_closed _ _ (by omega) (by omega)]
    simp only [show ¬ ((2 : Int) < 2) by omega, show ((1 : Int) < 2) by omega, if_true, if_false]
    omega
  · simp only [h1, if_false]
    rw [month_star_closed _ _ hy (by omega)]
    by_cases h0 : mz = 0
    · subst h0; simp <;> omega
    · have e1 : ¬ mz < 2 := by omega
      by_cases h11 : mz = 11
      · subst h11; simp <;> omega
      · have e2 : ¬ (mz + 1) % 12 < 2 := by omega
        simp only [e1, e2, if_false]
        omega

theorem lunarMonth_star_range (Y m : Int) (hm : (1 ≤ m ∧ m ≤ 12) ∨ (-12 ≤ m ∧ m ≤ -1)) :
    0 ≤ lunarMonthNineStar Y m ∧ lunarMonthNineStar Y m ≤ 8 := by
  unfold lunarMonthNineStar LunarUtil.BASE_MONTH_ZHI_INDEX
  simp only
  rw [Int.tmod_eq_emod_of_nonneg (show 0 ≤ (Y - 4) % 12 by omega)]
  have hm' : 1 ≤ (if m < 0 then -m else m) ∧ (if m < 0 then -m else m) ≤ 12 := by split <;> omega
  generalize (if m < 0 then -m else m) = a at hm'
  rw [Int.tmod_eq_emod_of_nonneg (show 0 ≤ 13 + a by omega)]
  split
  · rw [tmod9 _ (by omega)]; omega
  · rw [tmod9 _ (by omega)]; omega

/-- the month branch of lunar month `m` (leap months share their namesake's): 寅 for month 1 … 丑 for month 12;
`LunarMonth.GetNineStar` is the `Lunar` month-star formula on (year branch, month branch) -/
theorem lunarMonth_star_eq (Y m : Int) (hm : (1 ≤ m ∧ m ≤ 12) ∨ (-12 ≤ m ∧ m ≤ -1)) :
    lunarMonthNineStar Y m = monthNineStarOf ((Y - 4) % 12) (((if m < 0 then -m else m) + 1) % 12) := by
  unfold lunarMonthNineStar monthNineStarOf
  simp only
  have hm' : 1 ≤ (if m < 0 then -m else m) ∧ (if m < 0 then -m else m) ≤ 12 := by split <;> omega
  generalize (if m < 0 then -m else m) = a at hm'
  rw [Int.tmod_eq_emod_of_nonneg (show 0 ≤ 13 + a by omega)]
  have : (13 + a) % 12 = (a + 1) % 12 := by omega
  rw [this]

/-! ## hour star -/

theorem time_star_core (asc b1 b2 : Bool) (tz : Int) (h0 : 0 ≤ tz) (h1 : tz ≤ 11) :
    let start : Int := if b1 then (if asc then 0 else 8) else if b2 then (if asc then 3 else 5) else (if asc then 6 else 2)
    let start' : Int := if b1 then (if asc then 1 else 9) else if b2 then (if asc then 4 else 6) else (if asc then 7 else 3)
    let index := if asc then start + tz else start + 9 - tz
    let index' := if asc then start' + tz - 1 else start' - tz - 1
    let index'' := if index' > 8 then index' - 9 else index'
    0 ≤ index ∧ index.tmod 9 = index % 9 ∧ (if index'' < 0 then index'' + 9 else index'') = index % 9 := by
  cases asc <;> cases b1 <;> cases b2 <;> simp only [if_true, if_false, Bool.false_eq_true] <;>
    (refine ⟨by omega, Int.tmod_eq_emod_of_nonneg (by omega), ?_⟩) <;> (split <;> split <;> omega)

theorem time_star_range (l : Lunar) (ht : 0 ≤ l.timeZhiIndex ∧ l.timeZhiIndex ≤ 11) :
    0 ≤ l.timeNineStar ∧ l.timeNineStar ≤ 8 := by
  have h := time_star_core
    ((strGe l.solar.toYmd (termByName l.terms "冬至").toYmd && strLt l.solar.toYmd (termByName l.terms "夏至").toYmd) ||
             strGe l.solar.toYmd (termByName l.terms "DONG_ZHI").toYmd)
    (zhiInGroup "子午卯酉" (zhiStr l.dayZhiIndex)) (zhiInGroup "辰戌丑未" (zhiStr l.dayZhiIndex)) l.timeZhiIndex ht.1 ht.2
  simp only at h
  unfold Lunar.timeNineStar
  simp only
  rw [h.2.1]
  omega

theorem time_star_routes_agree (l : Lunar) (ht : 0 ≤ l.timeZhiIndex ∧ l.timeZhiIndex ≤ 11) :
    l.timeNineStar = l.timeNineStarViaLunarTime := by
  have h := time_star_core
    ((strGe l.solar.toYmd (termByName l.terms "冬至").toYmd && strLt l.solar.toYmd (termByName l.terms "夏至").toYmd) ||
             strGe l.solar.toYmd (termByName l.terms "DONG_ZHI").toYmd)
    (zhiInGroup "子午卯酉" (zhiStr l.dayZhiIndex)) (zhiInGroup "辰戌丑未" (zhiStr l.dayZhiIndex)) l.timeZhiIndex ht.1 ht.2
  simp only at h
  unfold Lunar.timeNineStar Lunar.timeNineStarViaLunarTime
  simp only
  rw [h.2.1, h.2.2]

/-- the hour star as start + direction: in the ascending half (winter solstice day ≤ today < summer solstice day, or
today ≥ the next winter solstice day) it is `start + slot`, otherwise `start − slot`, modulo 9 -/
theorem time_star_closed (l : Lunar) (ht : 0 ≤ l.timeZhiIndex ∧ l.timeZhiIndex ≤ 11) :
    let asc := (strGe l.solar.toYmd (termByName l.terms "冬至").toYmd && strLt l.solar.toYmd (termByName l.terms "夏至").toYmd) ||
             strGe l.solar.toYmd (termByName l.terms "DONG_ZHI").toYmd
    let start : Int :=
      if zhiInGroup "子午卯酉" (zhiStr l.dayZhiIndex) then (if asc then 0 else 8)
      else if zhiInGroup "辰戌丑未" (zhiStr l.dayZhiIndex) then (if asc then 3 else 5)
      else (if asc then 6 else 2)
    l.timeNineStar = (if asc then start + l.timeZhiIndex else start - l.timeZhiIndex) % 9 := by
  have h := time_star_core
    ((strGe l.solar.toYmd (termByName l.terms "冬至").toYmd && strLt l.solar.toYmd (termByName l.terms "夏至").toYmd) ||
             strGe l.solar.toYmd (termByName l.terms "DONG_ZHI").toYmd)
    (zhiInGroup "子午卯酉" (zhiStr l.dayZhiIndex)) (zhiInGroup "辰戌丑未" (zhiStr l.dayZhiIndex)) l.timeZhiIndex ht.1 ht.2
  simp only at h
  unfold Lunar.timeNineStar
  simp only
  rw [h.2.1]
  split <;> omega

theorem time_star_slot_step (l l' : Lunar) (hs : l'.solar.toYmd = l.solar.toYmd) (ht : l'.terms = l.terms) (hd : l'.dayZhiIndex = l.dayZhiIndex)
    (h1 : 0 ≤ l.timeZhiIndex) (h2 : l'.timeZhiIndex = l.timeZhiIndex + 1) (h3 : l'.timeZhiIndex ≤ 11) :
    l'.timeNineStar = (l.timeNineStar + 1) % 9 ∨ l'.timeNineStar = (l.timeNineStar + 8) % 9 := by
  have c := time_star_closed l ⟨h1, by omega⟩
  have c' := time_star_closed l' ⟨by omega, h3⟩
  simp only at c c'
  rw [hs, ht, hd, h2] at c'
  rw [c, c']
  split
  · left; omega
  · right; omega

/-! ## day star -/

/-- the jiazi day nearest to day number `n` (ties: 30 days away → the later one), `n` = day number of a solstice day -/
def anchorOf (n : Int) : Int := let i := (n - 11) % 60; if i > 29 then n + (60 - i) else n - i

theorem anchor_is_jiazi (n : Int) : (anchorOf n - 11) % 60 = 0 ∧ -29 ≤ anchorOf n - n ∧ anchorOf n - n ≤ 30 := by
  unfold anchorOf
  simp only
  split <;> omega

theorem dayJiaZiOf_eq (s : Solar) : dayJiaZiOf s = (s.jdn - 11) % 60 := by
  unfold dayJiaZiOf Solar.jdn
  simp only
  exact ganZhiIndex_cycle _

/-- the anchor computation of `GetDayNineStar` on a solstice stamp -/
def anchorS (t : Solar) : Option Solar :=
  if dayJiaZiOf t > 29 then t.nextDay (60 - dayJiaZiOf t) else t.nextDay (-dayJiaZiOf t)

theorem anchorS_spec (s : Solar) (hv : s.valid = true) :
    ∃ r, anchorS s = some r ∧ r.valid = true ∧ r.jdn = anchorOf s.jdn := by
  unfold anchorS anchorOf
  rw [dayJiaZiOf_eq]
  simp only
  split
  · obtain ⟨r, h1, h2, h3, _⟩ := nextDay_spec_strong s (60 - (s.jdn - 11) % 60) hv
    exact ⟨r, h1, h2, h3⟩
  · obtain ⟨r, h1, h2, h3, _⟩ := nextDay_spec_strong s (-((s.jdn - 11) % 60)) hv
    exact ⟨r, h1, h2, by omega⟩

theorem dayNineStar_eq (l : Lunar) : l.dayNineStar =
    match anchorS (termByName l.terms "冬至"), anchorS (termByName l.terms "DONG_ZHI"), anchorS (termByName l.terms "夏至") with
    | some shunBai, some shunBai2, some niZi =>
      if strGe l.solar.toYmd shunBai.toYmd && strLt l.solar.toYmd niZi.toYmd then (l.solar.subtract shunBai).map (fun d => d.tmod 9)
      else if strGe l.solar.toYmd niZi.toYmd && strLt l.solar.toYmd shunBai2.toYmd then (l.solar.subtract niZi).map (fun d => 8 - d.tmod 9)
      else if strGe l.solar.toYmd shunBai2.toYmd then (l.solar.subtract shunBai2).map (fun d => d.tmod 9)
      else if strLt l.solar.toYmd shunBai.toYmd then (shunBai.subtract l.solar).map (fun d => (8 + d).tmod 9)
      else some 0
    | _, _, _ => none := by
  unfold Lunar.dayNineStar anchorS
  rfl

theorem termIndex_solstices : termIndex "冬至" = some 1 ∧ termIndex "夏至" = some 13 ∧ termIndex "DONG_ZHI" = some 25 := by
  decide

theorem termByName_dz (ts : List Solar) : termByName ts "冬至" = ts.getD 1 nilSolar := by
  unfold termByName; rw [termIndex_solstices.1]
theorem termByName_xz (ts : List Solar) : termByName ts "夏至" = ts.getD 13 nilSolar := by
  unfold termByName; rw [termIndex_solstices.2.1]
theorem termByName_dz2 (ts : List Solar) : termByName ts "DONG_ZHI" = ts.getD 25 nilSolar := by
  unfold termByName; rw [termIndex_solstices.2.2]

/-! ### printed-day order = day-number order -/

theorem valid_md_bounds (a : Solar) (hv : a.valid = true) :
    1 ≤ a.month ∧ a.month ≤ 12 ∧ 1 ≤ a.day ∧ a.day ≤ 31 := by
  obtain ⟨b1, b2, b3, b4, _⟩ := (validYmd_iff_step _ _ _).1 (valid_parts a hv).1
  exact ⟨b1, b2, b3, b4⟩

theorem dayKey_lt_iff_jdn (a b : Solar) (ha : a.valid = true) (hb : b.valid = true) :
    dayKey a < dayKey b ↔ a.jdn < b.jdn := by
  have h := jdn_lt_iff_lex_all a.year a.month a.day b.year b.month b.day (valid_parts a ha).1 (valid_parts b hb).1
  have ba := valid_md_bounds a ha
  have bb := valid_md_bounds b hb
  unfold Solar.jdn dayKey
  rw [h]
  constructor <;> intro h' <;> omega

theorem strLt_ymd (a b : Solar) (ha : stampValid a = true) (hb : stampValid b = true) :
    strLt a.toYmd b.toYmd = decide (a.jdn < b.jdn) := by
  rw [keyOrd_ymd.lt a b ha hb]
  exact decide_eq_decide.mpr (dayKey_lt_iff_jdn a b (stampValid_parts a ha).1 (stampValid_parts b hb).1)

theorem strGe_not_lt (x y : List Char) : strGe x y = !strLt x y := rfl

theorem strGe_ymd (a b : Solar) (ha : stampValid a = true) (hb : stampValid b = true) :
    strGe a.toYmd b.toYmd = decide (b.jdn ≤ a.jdn) := by
  rw [strGe_not_lt, strLt_ymd a b ha hb]
  by_cases h : a.jdn < b.jdn
  · have : ¬ b.jdn ≤ a.jdn := by omega
    simp [h, this]
  · have : b.jdn ≤ a.jdn := by omega
    simp [h, this]

theorem year_nonneg_of_jdn (r : Solar) (hv : r.valid = true) (h : jdn 0 1 1 ≤ r.jdn) : 0 ≤ r.year := by
  by_cases h0 : 0 ≤ r.year
  · exact h0
  · exfalso
    have := (jdn_lt_iff_lex_all r.year r.month r.day 0 1 1 (valid_parts r hv).1 (by decide)).2 (Or.inl (by omega))
    unfold Solar.jdn at h
    omega

theorem year_le_of_jdn (r : Solar) (hv : r.valid = true) (h : r.jdn ≤ jdn 9999 12 31) : r.year ≤ 9999 := by
  by_cases h0 : r.year ≤ 9999
  · exact h0
  · exfalso
    have := (jdn_lt_iff_lex_all 9999 12 31 r.year r.month r.day (by decide) (valid_parts r hv).1).2 (Or.inl (by omega))
    unfold Solar.jdn at h
    omega

theorem jdn_le_last (s : Solar) (hv : s.valid = true) (hy : s.year ≤ 9999) : s.jdn ≤ jdn 9999 12 31 := by
  by_cases h : s.jdn ≤ jdn 9999 12 31
  · exact h
  · exfalso
    have b := valid_md_bounds s hv
    have := (jdn_lt_iff_lex_all 9999 12 31 s.year s.month s.day (by decide) (valid_parts s hv).1).1
      (by unfold Solar.jdn at h; omega)
    omega

theorem jdn_ge_dec (s : Solar) (hv : s.valid = true) (hy : 0 ≤ s.year) (hm : s.month = 12) : jdn 0 12 1 ≤ s.jdn := by
  by_cases h : jdn 0 12 1 ≤ s.jdn
  · exact h
  · exfalso
    have b := valid_md_bounds s hv
    have := (jdn_lt_iff_lex_all s.year s.month s.day 0 12 1 (valid_parts s hv).1 (by decide)).1
      (by unfold Solar.jdn at h; omega)
    omega

theorem jdn_consts : jdn 0 1 1 + 29 ≤ jdn 0 12 1 := by decide

theorem secOfDay_bounds (s : Solar) (hv : s.valid = true) : 0 ≤ s.secOfDay ∧ s.secOfDay ≤ 86399 := by
  have := hms_bounds s hv
  unfold Solar.secOfDay
  omega

/-! ### the gaps between table entries -/

theorem allAdj_get_ns {α : Type} (f : α → α → Bool) :
    ∀ (l : List α), allAdj f l = true → ∀ (i : Nat) (h : i + 1 < l.length), f (l[i]'(by omega)) l[i + 1] = true := by
  intro l
  induction l with
  | nil => intro _ i h; simp at h
  | cons a t ih =>
    intro hadj i h
    cases t with
    | nil => simp at h
    | cons b r =>
      simp only [allAdj, Bool.and_eq_true] at hadj
      cases i with
      | zero => exact hadj.1
      | succ j =>
        have := ih hadj.2 j (by simp only [List.length_cons] at h ⊢; omega)
        simpa only [List.getElem_cons_succ] using this

abbrev gapF (a b : Solar) : Bool :=
  decide (a.key < b.key) && decide (1261440 ≤ b.stamp - a.stamp) && decide (b.stamp - a.stamp ≤ 1365120)

theorem stamp_chain (ts : List Solar) (hadj : allAdj (fun a b => gapF a b) ts = true) (i : Nat) :
    ∀ (k : Nat) (h : i + k < ts.length),
      (k : Int) * 1261440 ≤ ts[i + k].stamp - (ts[i]'(by omega)).stamp ∧
      ts[i + k].stamp - (ts[i]'(by omega)).stamp ≤ (k : Int) * 1365120 := by
  intro k
  induction k with
  | zero => intro h; simp
  | succ k ih =>
    intro h
    have ih' := ih (by omega)
    have hg := allAdj_get_ns _ ts hadj (i + k) (by omega)
    simp only [gapF, Bool.and_eq_true, decide_eq_true_eq] at hg
    have e : ts[i + (k + 1)] = ts[i + k + 1] := rfl
    rw [e]
    have : ((k + 1 : Nat) : Int) = (k : Int) + 1 := by omega
    rw [this]
    omega

theorem getD_mem' (ts : List Solar) (i : Nat) (h : i < ts.length) : ts.getD i nilSolar ∈ ts := by
  rw [getD_eq_getElem' _ _ _ h]
  exact List.getElem_mem _

/-- what the well-formedness of the term table gives about its three solstices (entries 1, 13, 25) -/
theorem solstice_facts (y : Int) (ts : List Solar) (h : termsOk y ts = true) :
    stampValid (ts.getD 1 nilSolar) = true ∧ stampValid (ts.getD 13 nilSolar) = true ∧
    stampValid (ts.getD 25 nilSolar) = true ∧
    jdn 0 1 1 + 29 ≤ (ts.getD 1 nilSolar).jdn ∧
    (ts.getD 1 nilSolar).jdn + 175 ≤ (ts.getD 13 nilSolar).jdn ∧
    (ts.getD 13 nilSolar).jdn + 175 ≤ (ts.getD 25 nilSolar).jdn ∧
    (ts.getD 25 nilSolar).jdn + 30 ≤ jdn 9999 12 31 := by
  obtain ⟨hl, hv, _, _⟩ := termsOk_facts y ts h
  unfold termsOk at h
  simp only [Bool.and_eq_true, decide_eq_true_eq, List.all_eq_true] at h
  obtain ⟨⟨_, hadj⟩, hlast⟩ := h
  have v1 := hv _ (getD_mem' ts 1 (by omega))
  have v13 := hv _ (getD_mem' ts 13 (by omega))
  have v25 := hv _ (getD_mem' ts 25 (by omega))
  have v30 := hv _ (getD_mem' ts 30 (by omega))
  have c1 := stamp_chain ts hadj 1 12 (by omega)
  have c2 := stamp_chain ts hadj 13 12 (by omega)
  have c3 := stamp_chain ts hadj 25 5 (by omega)
  simp only [Nat.reduceAdd] at c1 c2 c3
  rw [← getD_eq_getElem' ts nilSolar 1 (by omega), ← getD_eq_getElem' ts nilSolar 13 (by omega)] at c1
  rw [← getD_eq_getElem' ts nilSolar 13 (by omega), ← getD_eq_getElem' ts nilSolar 25 (by omega)] at c2
  rw [← getD_eq_getElem' ts nilSolar 25 (by omega), ← getD_eq_getElem' ts nilSolar 30 (by omega)] at c3
  have e1 : ts[1]? = some (ts.getD 1 nilSolar) := by
    rw [getD_eq_getElem' ts nilSolar 1 (by omega)]; exact List.getElem?_eq_getElem _
  have e4 : ts[4]? = some (ts.getD 4 nilSolar) := by
    rw [getD_eq_getElem' ts nilSolar 4 (by omega)]; exact List.getElem?_eq_getElem _
  rw [e1, e4] at hlast
  simp only [Bool.and_eq_true, beq_iff_eq] at hlast
  have s1 := secOfDay_bounds _ (stampValid_parts _ v1).1
  have s13 := secOfDay_bounds _ (stampValid_parts _ v13).1
  have s25 := secOfDay_bounds _ (stampValid_parts _ v25).1
  have s30 := secOfDay_bounds _ (stampValid_parts _ v30).1
  have lo := jdn_ge_dec _ (stampValid_parts _ v1).1 (stampValid_parts _ v1).2.1 hlast.1.2
  have hi := jdn_le_last _ (stampValid_parts _ v30).1 (stampValid_parts _ v30).2.2
  have := jdn_consts
  unfold Solar.stamp at c1 c2 c3
  refine ⟨v1, v13, v25, ?_, ?_, ?_, ?_⟩ <;> omega

theorem day_core (a b a2 t : Int) (hab : a < b) (hb : b < a2) :
    (if (decide (a ≤ t) && decide (t < b)) = true then Option.map (fun d : Int => d.tmod 9) (some (t - a))
     else if (decide (b ≤ t) && decide (t < a2)) = true then Option.map (fun d : Int => 8 - d.tmod 9) (some (t - b))
     else if decide (a2 ≤ t) = true then Option.map (fun d : Int => d.tmod 9) (some (t - a2))
     else if decide (t < a) = true then Option.map (fun d : Int => (8 + d).tmod 9) (some (a - t))
     else some 0) =
    some (if a ≤ t ∧ t < b then (t - a) % 9
      else if b ≤ t ∧ t < a2 then 8 - (t - b) % 9
      else if a2 ≤ t then (t - a2) % 9
      else (8 + (a - t)) % 9) := by
  simp only [Bool.and_eq_true, decide_eq_true_eq, Option.map_some]
  by_cases h1 : a ≤ t ∧ t < b
  · rw [if_pos h1, if_pos h1, tmod9 _ (by omega)]
  · rw [if_neg h1, if_neg h1]
    by_cases h2 : b ≤ t ∧ t < a2
    · rw [if_pos h2, if_pos h2, tmod9 _ (by omega)]
    · rw [if_neg h2, if_neg h2]
      by_cases h3 : a2 ≤ t
      · rw [if_pos h3, if_pos h3, tmod9 _ (by omega)]
      · have h4 : t < a := by omega
        rw [if_neg h3, if_neg h3, if_pos h4, tmod9 _ (by omega)]

/-- anchors: the jiazi day nearest to each solstice day (never more than 30 days away); from the winter anchor `a` to the
summer anchor `b` the star counts up from index 0, from `b` to the next winter anchor `a2` it counts down from index 8 -/
theorem day_star_spec (y : Int) (l : Lunar) (hts : termsOk y l.terms = true) (hnow : stampValid l.solar = true) :
    let a := anchorOf (l.terms.getD 1 nilSolar).jdn
    let b := anchorOf (l.terms.getD 13 nilSolar).jdn
    let a2 := anchorOf (l.terms.getD 25 nilSolar).jdn
    let t := l.solar.jdn
    l.dayNineStar = some (
      if a ≤ t ∧ t < b then (t - a) % 9
      else if b ≤ t ∧ t < a2 then 8 - (t - b) % 9
      else if a2 ≤ t then (t - a2) % 9
      else (8 + (a - t)) % 9) := by
  obtain ⟨v1, v13, v25, g0, g1, g2, g3⟩ := solstice_facts y l.terms hts
  obtain ⟨ra, ea, va, ja⟩ := anchorS_spec _ (stampValid_parts _ v1).1
  obtain ⟨rb, eb, vb, jb⟩ := anchorS_spec _ (stampValid_parts _ v13).1
  obtain ⟨ra2, ea2, va2, ja2⟩ := anchorS_spec _ (stampValid_parts _ v25).1
  have ka := anchor_is_jiazi (l.terms.getD 1 nilSolar).jdn
  have kb := anchor_is_jiazi (l.terms.getD 13 nilSolar).jdn
  have ka2 := anchor_is_jiazi (l.terms.getD 25 nilSolar).jdn
  have sa : stampValid ra = true := by
    unfold stampValid
    simp only [va, Bool.true_and, Bool.and_eq_true, decide_eq_true_eq]
    exact ⟨year_nonneg_of_jdn ra va (by omega), year_le_of_jdn ra va (by omega)⟩
  have sb : stampValid rb = true := by
    unfold stampValid
    simp only [vb, Bool.true_and, Bool.and_eq_true, decide_eq_true_eq]
    exact ⟨year_nonneg_of_jdn rb vb (by omega), year_le_of_jdn rb vb (by omega)⟩
  have sa2 : stampValid ra2 = true := by
    unfold stampValid
    simp only [va2, Bool.true_and, Bool.and_eq_true, decide_eq_true_eq]
    exact ⟨year_nonneg_of_jdn ra2 va2 (by omega), year_le_of_jdn ra2 va2 (by omega)⟩
  have vnow := (stampValid_parts _ hnow).1
  simp only
  rw [dayNineStar_eq, termByName_dz, termByName_xz, termByName_dz2, ea, eb, ea2]
  simp only
  rw [strGe_ymd _ _ hnow sa, strGe_ymd _ _ hnow sb, strGe_ymd _ _ hnow sa2,
    strLt_ymd _ _ hnow sa, strLt_ymd _ _ hnow sb, strLt_ymd _ _ hnow sa2,
    subtract_eq_all _ _ vnow va, subtract_eq_all _ _ vnow vb, subtract_eq_all _ _ vnow va2,
    subtract_eq_all _ _ va vnow, ja, jb, ja2]
  exact day_core _ _ _ _ (by omega) (by omega)

theorem day_star_range (y : Int) (l : Lunar) (hts : termsOk y l.terms = true) (hnow : stampValid l.solar = true) :
    ∃ i, l.dayNineStar = some i ∧ 0 ≤ i ∧ i ≤ 8 := by
  have h := day_star_spec y l hts hnow
  simp only at h
  refine ⟨_, h, ?_⟩
  split
  · omega
  · split
    · omega
    · split <;> omega

/-- the anchors are ordered and 116–240 days apart -/
theorem day_star_anchor_order (y : Int) (l : Lunar) (hts : termsOk y l.terms = true) :
    anchorOf (l.terms.getD 1 nilSolar).jdn + 116 ≤ anchorOf (l.terms.getD 13 nilSolar).jdn ∧
    anchorOf (l.terms.getD 13 nilSolar).jdn + 116 ≤ anchorOf (l.terms.getD 25 nilSolar).jdn := by
  obtain ⟨_, _, _, _, g1, g2, _⟩ := solstice_facts y l.terms hts
  have ka := anchor_is_jiazi (l.terms.getD 1 nilSolar).jdn
  have kb := anchor_is_jiazi (l.terms.getD 13 nilSolar).jdn
  have ka2 := anchor_is_jiazi (l.terms.getD 25 nilSolar).jdn
  omega

/-! ## hour star, concrete form: which day branches start where, and the direction in day numbers -/

theorem zhiStr_vals : zhiStr 0 = "子" ∧ zhiStr 1 = "丑" ∧ zhiStr 2 = "寅" ∧ zhiStr 3 = "卯" ∧ zhiStr 4 = "辰" ∧ zhiStr 5 = "巳" ∧
    zhiStr 6 = "午" ∧ zhiStr 7 = "未" ∧ zhiStr 8 = "申" ∧ zhiStr 9 = "酉" ∧ zhiStr 10 = "戌" ∧ zhiStr 11 = "亥" := by decide

set_option maxRecDepth 4000 in
/-- `strings.Contains(group, branch)` for the two group strings: 子午卯酉 = branches ≡ 0 (mod 3), 辰戌丑未 = branches ≡ 1 (mod 3)
(`String.splitOn` is unrolled by rewriting, it does not reduce in the kernel) -/
theorem zhi_group_rule (z : Int) (hz : 0 ≤ z ∧ z ≤ 11) :
    zhiInGroup "子午卯酉" (zhiStr z) = decide (z % 3 = 0) ∧ zhiInGroup "辰戌丑未" (zhiStr z) = decide (z % 3 = 1) := by
  have h : z = 0 ∨ z = 1 ∨ z = 2 ∨ z = 3 ∨ z = 4 ∨ z = 5 ∨ z = 6 ∨ z = 7 ∨ z = 8 ∨ z = 9 ∨ z = 10 ∨ z = 11 := by omega
  obtain ⟨z0, z1, z2, z3, z4, z5, z6, z7, z8, z9, z10, z11⟩ := zhiStr_vals
  rcases h with rfl | rfl | rfl | rfl | rfl | rfl | rfl | rfl | rfl | rfl | rfl | rfl
  all_goals
    simp only [z0, z1, z2, z3, z4, z5, z6, z7, z8, z9, z10, z11]
    unfold zhiInGroup
    simp [String.splitOn]
    constructor <;> repeat (rw [String.splitOnAux]; simp (config := {decide := true}))

/-- the hour star in full: ascending iff winter-solstice day ≤ today < summer-solstice day or today ≥ next winter-solstice day
(civil days, by day number); start index 0/3/6 ascending and 8/5/2 descending for day branch ≡ 0/1/2 (mod 3);
then one star per two-hour slot in that direction -/
theorem time_star_rule (y : Int) (l : Lunar) (hts : termsOk y l.terms = true) (hnow : stampValid l.solar = true)
    (ht : 0 ≤ l.timeZhiIndex ∧ l.timeZhiIndex ≤ 11) (hd : 0 ≤ l.dayZhiIndex ∧ l.dayZhiIndex ≤ 11) :
    let t := l.solar.jdn
    let asc : Prop := ((l.terms.getD 1 nilSolar).jdn ≤ t ∧ t < (l.terms.getD 13 nilSolar).jdn) ∨ (l.terms.getD 25 nilSolar).jdn ≤ t
    let start : Int :=
      if l.dayZhiIndex % 3 = 0 then (if asc then 0 else 8)
      else if l.dayZhiIndex % 3 = 1 then (if asc then 3 else 5)
      else (if asc then 6 else 2)
    l.timeNineStar = (if asc then start + l.timeZhiIndex else start - l.timeZhiIndex) % 9 := by
  obtain ⟨v1, v13, v25, _⟩ := solstice_facts y l.terms hts
  have c := time_star_closed l ht
  simp only at c
  rw [(zhi_group_rule _ hd).1, (zhi_group_rule _ hd).2, termByName_dz, termByName_xz, termByName_dz2,
    strGe_ymd _ _ hnow v1, strGe_ymd _ _ hnow v25, strLt_ymd _ _ hnow v13] at c
  simp only [Bool.or_eq_true, Bool.and_eq_true, decide_eq_true_eq] at c
  simp only
  exact c

#print axioms jiazi_table
#print axioms star_tables_len
#print axioms ganZhiIndex_eq
#print axioms lunarYear_star_closed
#print axioms lunarYear_star_range
#print axioms lunarYear_star_step
#print axioms star_2024
#print axioms year_star_of_pillar
#print axioms month_star_range
#print axioms month_star_step
#print axioms lunarMonth_star_range
#print axioms time_star_range
#print axioms time_star_routes_agree
#print axioms time_star_slot_step
#print axioms anchor_is_jiazi
#print axioms day_star_spec
#print axioms day_star_range
#print axioms zhi_group_rule
#print axioms time_star_rule

end Model
