/-
Proofs.FnNineStar — equivalence of the machine-generated `Gen.Fn` nine-star functions with the
hand-written model `Model.NineStar`.  Helper definitions / lemmas are prefixed `ns_`.

Conversions `toM` / `ofM` (Solar) come from `Proofs.FnCivil1`.  The generated `Lunar` has no term table
(`jieQi` is a Go map, not modelled), so the model `Lunar` is `ns_lunarToM lunar terms` for an arbitrary
table `terms`; the atoms that read `lunar.jieQi[...]` are bound to `Model.termByName terms ...`.

Vocabulary for atoms:
* `ns_CmpIs a x y` — the Int atom `a` is `strings.Compare(x, y)` as far as the code can see: `a < 0 ↔ x < y`.
* `ns_NextDayOk fuel s n` / `ns_SubtractOk s o` — the call `Solar.NextDay` / `Solar.Subtract` on these
  arguments agrees with the model (exactly the conclusion of `nextDay_eq` / `subtract_eq` of the civil files).

No disagreement between generated code and model was found: every theorem below holds for all inputs
(the only guards are the `LunarYear` constructor invariant and `lunarTime.zhiIndex = lunar.timeZhiIndex`,
both needed only because the model function takes fewer arguments than the Go receiver has fields).
-/
import Model.NineStar
import Gen.Fn
import Proofs.FnCivil1

namespace FnEq
open Model

/-! ## Conversions and atom vocabulary -/

/-- the model `Lunar` carried by a generated `Lunar` plus the (unmodelled) term table `jieQi` -/
def ns_lunarToM (l : Gen.Fn.Lunar) (terms : List Model.Solar) : Model.Lunar where
  year := l.year
  month := l.month
  day := l.day
  hour := l.hour
  minute := l.minute
  second := l.second
  yearGanIndex := l.yearGanIndex
  yearZhiIndex := l.yearZhiIndex
  yearGanIndexByLiChun := l.yearGanIndexByLiChun
  yearZhiIndexByLiChun := l.yearZhiIndexByLiChun
  yearGanIndexExact := l.yearGanIndexExact
  yearZhiIndexExact := l.yearZhiIndexExact
  monthGanIndex := l.monthGanIndex
  monthZhiIndex := l.monthZhiIndex
  monthGanIndexExact := l.monthGanIndexExact
  monthZhiIndexExact := l.monthZhiIndexExact
  dayGanIndex := l.dayGanIndex
  dayZhiIndex := l.dayZhiIndex
  dayGanIndexExact := l.dayGanIndexExact
  dayZhiIndexExact := l.dayZhiIndexExact
  dayGanIndexExact2 := l.dayGanIndexExact2
  dayZhiIndexExact2 := l.dayZhiIndexExact2
  timeGanIndex := l.timeGanIndex
  timeZhiIndex := l.timeZhiIndex
  weekIndex := l.weekIndex
  terms := terms
  solar := toM l.solar

/-- meaning of an atom `a = strings.Compare(x, y)`: the code only ever tests `a < 0` or `a ≥ 0`, so
only "`x` sorts before `y`" matters. -/
def ns_CmpIs (a : Int) (x y : List Char) : Prop := a < 0 ↔ Model.strLt x y = true

theorem ns_strGe_eq (x y : List Char) : Model.strGe x y = !Model.strLt x y := by
  unfold Model.strGe Model.strLt
  cases Model.cmpChars x y <;> rfl

theorem ns_cmp_lt {a : Int} {x y : List Char} (h : ns_CmpIs a x y) :
    decide (a < 0) = Model.strLt x y := by
  unfold ns_CmpIs at h
  cases hs : Model.strLt x y <;> simp_all

theorem ns_cmp_ge {a : Int} {x y : List Char} (h : ns_CmpIs a x y) :
    decide (a ≥ 0) = Model.strGe x y := by
  rw [ns_strGe_eq, ← ns_cmp_lt h]
  by_cases h0 : a < 0 <;> simp [h0] <;> omega

/-- a concrete `strings.Compare` satisfying `ns_CmpIs` (so the hypotheses below are satisfiable) -/
def ns_cmpInt (x y : List Char) : Int :=
  match Model.cmpChars x y with | .lt => -1 | .eq => 0 | .gt => 1

theorem ns_cmpInt_is (x y : List Char) : ns_CmpIs (ns_cmpInt x y) x y := by
  unfold ns_CmpIs ns_cmpInt Model.strLt
  cases Model.cmpChars x y <;> decide

/-! ## 1. NewNineStar, LunarYear.GetNineStar -/

theorem newNineStar_eq (i : Int) : Gen.Fn.calendar_NewNineStar i = .ok ⟨i⟩ := rfl

theorem ns_ite_zero (o : Int) :
    (if decide (0 = o) = true then (Except.ok ⟨9 - 1⟩ : Except Gen.Fn.Err Gen.Fn.NineStar) else .ok ⟨o - 1⟩) =
      .ok ⟨(if o = 0 then 9 else o) - 1⟩ := by
  by_cases h : o = 0
  · subst h; rfl
  · have h' : ¬ (0 = o) := fun e => h e.symm
    simp [h, h']

/-- `LunarYear.GetNineStar`, unguarded form. Atom `a1` = `LunarUtil.GetJiaZiIndex(lunarYear.GetGanZhi())`: the
60-cycle index of the year's own pillar `GAN[ganIndex+1] + ZHI[zhiIndex+1]`. -/
theorem lunarYear_getNineStar_raw (a1 : Int) (ly : Gen.Fn.LunarYear)
    (ha1 : a1 = Model.ganZhiIndex ly.ganIndex ly.zhiIndex) :
    Gen.Fn.calendar_LunarYear_GetNineStar a1 ly =
      .ok ⟨(let index := Model.ganZhiIndex ly.ganIndex ly.zhiIndex + 1
            let yuan := (Int.tdiv (ly.year + 2696) 60).tmod 3
            let offset := (62 + yuan * 3 - index).tmod 9
            (if offset = 0 then 9 else offset) - 1)⟩ := by
  subst ha1
  unfold Gen.Fn.calendar_LunarYear_GetNineStar
  simp only [newNineStar_eq]
  exact ns_ite_zero _

/-- `LunarYear.GetNineStar` ↔ `Model.lunarYearNineStar`. Guards `hg`, `hz`: the invariant established by
`NewLunarYear` (`ganIndex`, `zhiIndex` are the Euclidean remainders of `year - 4`); the model function takes
only the year and recomputes them. -/
theorem lunarYear_getNineStar_eq (a1 : Int) (ly : Gen.Fn.LunarYear)
    (hg : ly.ganIndex = (ly.year - 4) % 10) (hz : ly.zhiIndex = (ly.year - 4) % 12)
    (ha1 : a1 = Model.ganZhiIndex ly.ganIndex ly.zhiIndex) :
    Gen.Fn.calendar_LunarYear_GetNineStar a1 ly = .ok ⟨Model.lunarYearNineStar ly.year⟩ := by
  rw [lunarYear_getNineStar_raw a1 ly ha1, hg, hz]
  rfl

/-! ## 2. Lunar.getYearNineStar -/

/-- `Lunar.getYearNineStar(yearInGanZhi)` ↔ `Model.Lunar.yearNineStarOf`, the string argument being the pillar
`GAN[g+1] + ZHI[z+1]`. Atoms: `a1` = `GetJiaZiIndex(yearInGanZhi)`, `a2` = `GetJiaZiIndex(lunar.GetYearInGanZhi())`.
No guard. -/
theorem getYearNineStar_eq (a1 a2 : Int) (lunar : Gen.Fn.Lunar) (terms : List Model.Solar) (g z : Int)
    (ha1 : a1 = Model.ganZhiIndex g z)
    (ha2 : a2 = Model.ganZhiIndex lunar.yearGanIndex lunar.yearZhiIndex) :
    Gen.Fn.calendar_Lunar_getYearNineStar a1 a2 lunar =
      .ok ⟨(ns_lunarToM lunar terms).yearNineStarOf g z⟩ := by
  subst ha1 ha2
  unfold Gen.Fn.calendar_Lunar_getYearNineStar Model.Lunar.yearNineStarOf
  simp only [newNineStar_eq, ns_lunarToM, ns_ite_zero]
  by_cases h1 : Model.ganZhiIndex g z + 1 - (Model.ganZhiIndex lunar.yearGanIndex lunar.yearZhiIndex + 1) > 1
  · simp only [h1, decide_true, if_true]
  · by_cases h2 : Model.ganZhiIndex g z + 1 - (Model.ganZhiIndex lunar.yearGanIndex lunar.yearZhiIndex + 1) < -1
    · simp only [h1, h2, decide_true, decide_false, if_true, if_false, Bool.false_eq_true]
    · simp only [h1, h2, decide_false, if_false, Bool.false_eq_true]


/-! ## 3. Lunar.getMonthNineStar, Lunar.GetMonthNineStarBySect -/

/-- `Lunar.getMonthNineStar` ↔ `Model.monthNineStarOf` (no atoms, no guard; `lunar` is unused by the Go code). -/
theorem getMonthNineStar_eq (lunar : Gen.Fn.Lunar) (yearZhi monthZhi : Int) :
    Gen.Fn.calendar_Lunar_getMonthNineStar lunar yearZhi monthZhi =
      .ok ⟨Model.monthNineStarOf yearZhi monthZhi⟩ := by
  unfold Gen.Fn.calendar_Lunar_getMonthNineStar Model.monthNineStarOf
  simp only [newNineStar_eq]
  by_cases h : monthZhi < 2 <;>
    simp [h, Gen.Tables.LunarUtil.«BASE_MONTH_ZHI_INDEX»]

/-- `Lunar.GetMonthNineStarBySect` ↔ `Model.Lunar.monthNineStar` (no atoms, no guard). -/
theorem getMonthNineStarBySect_eq (lunar : Gen.Fn.Lunar) (terms : List Model.Solar) (sect : Int) :
    Gen.Fn.calendar_Lunar_GetMonthNineStarBySect lunar sect =
      .ok ⟨(ns_lunarToM lunar terms).monthNineStar sect⟩ := by
  unfold Gen.Fn.calendar_Lunar_GetMonthNineStarBySect Model.Lunar.monthNineStar
  simp only [getMonthNineStar_eq, ns_lunarToM]
  by_cases h1 : sect = 1
  · subst h1; rfl
  · by_cases h3 : sect = 3
    · subst h3; rfl
    · simp [h1, h3]

/-! ## 4. Lunar.GetDayNineStar -/

/-- the day shift to the anchor 甲子 day: `if i > 29 { 60 - i } else { -i }` -/
def ns_shift (i : Int) : Int := if i > 29 then 60 - i else -i

/-- the part of `calendar_Lunar_GetDayNineStar` after the three `NextDay` calls -/
def ns_dayTail (a7 a8 a9 a10 a11 a12 : Int) (sol t1 t3 t5 : Gen.Fn.Solar) : Except Gen.Fn.Err Gen.Fn.NineStar :=
  if (decide (a7 ≥ 0) && decide (a8 < 0)) = true then do
    let t7 ← Gen.Fn.calendar_Solar_Subtract sol t1
    pure ⟨t7.tmod 9⟩
  else if (decide (a9 ≥ 0) && decide (a10 < 0)) = true then do
    let t8 ← Gen.Fn.calendar_Solar_Subtract sol t5
    pure ⟨8 - t8.tmod 9⟩
  else if decide (a11 ≥ 0) = true then do
    let t7 ← Gen.Fn.calendar_Solar_Subtract sol t3
    pure ⟨t7.tmod 9⟩
  else if decide (a12 < 0) = true then do
    let t10 ← Gen.Fn.calendar_Solar_Subtract t1 sol
    pure ⟨(8 + t10).tmod 9⟩
  else pure ⟨0⟩

theorem ns_day_shape (fuel : Nat) (a1 a2 a3 : Gen.Fn.Solar) (a4 a5 a6 a7 a8 a9 a10 a11 a12 : Int) (lunar : Gen.Fn.Lunar) :
  Gen.Fn.calendar_Lunar_GetDayNineStar fuel a1 a2 a3 a4 a5 a6 a7 a8 a9 a10 a11 a12 lunar =
    (do let t1 ← Gen.Fn.calendar_Solar_NextDay fuel a1 (ns_shift a4)
        let t3 ← Gen.Fn.calendar_Solar_NextDay fuel a2 (ns_shift a5)
        let t5 ← Gen.Fn.calendar_Solar_NextDay fuel a3 (ns_shift a6)
        ns_dayTail a7 a8 a9 a10 a11 a12 lunar.solar t1 t3 t5) := by
  unfold Gen.Fn.calendar_Lunar_GetDayNineStar ns_shift
  by_cases h4 : a4 > 29 <;> by_cases h5 : a5 > 29 <;> by_cases h6 : a6 > 29 <;>
    simp only [h4, h5, h6, decide_true, decide_false, if_true, if_false] <;> rfl

/-- the model's `anchor` of `Lunar.dayNineStar` -/
def ns_anchor (t : Model.Solar) : Option Model.Solar := t.nextDay (ns_shift (Model.dayJiaZiOf t))

/-- the call `solar.NextDay(n)` with this fuel agrees with the model: the conclusion of `nextDay_eq`
(which needs `(toM s).valid` and enough fuel for `n`) -/
def ns_NextDayOk (fuel : Nat) (s : Gen.Fn.Solar) (n : Int) : Prop :=
  Gen.Fn.calendar_Solar_NextDay fuel s n =
    (match (toM s).nextDay n with | some r => .ok (ofM r) | none => .error .panic)

/-- the call `s.Subtract(o)` agrees with the model: the conclusion of `subtract_eq` -/
def ns_SubtractOk (s o : Gen.Fn.Solar) : Prop :=
  Gen.Fn.calendar_Solar_Subtract s o =
    (match (toM s).subtract (toM o) with | some d => .ok d | none => .error .panic)

theorem ns_nextDay_valid {s r : Model.Solar} {n : Int} (h : s.nextDay n = some r) : r.valid = true := by
  unfold Model.Solar.nextDay Model.newSolar at h
  simp only at h
  split at h
  · rename_i hv; cases h; exact hv
  · cases h

theorem ns_anchor_eq (t : Model.Solar) :
    (if dayJiaZiOf t > 29 then t.nextDay (60 - dayJiaZiOf t) else t.nextDay (-dayJiaZiOf t)) = ns_anchor t := by
  unfold ns_anchor ns_shift; split <;> rfl

theorem ns_map_ok (f : Int → Int) (o : Option Int) :
    ((match o with | some d => Except.ok d | none => Except.error Gen.Fn.Err.panic) >>= fun t =>
        (pure ⟨f t⟩ : Except Gen.Fn.Err Gen.Fn.NineStar)) =
      (match o.map f with | some i => .ok ⟨i⟩ | none => .error .panic) := by
  cases o <;> rfl

theorem ns_dayTail_eq (a7 a8 a9 a10 a11 a12 : Int) (sol : Gen.Fn.Solar) (r1 r2 r3 : Model.Solar)
    (v1 : r1.valid = true) (v2 : r2.valid = true) (v3 : r3.valid = true)
    (hs : ∀ o : Gen.Fn.Solar, (toM o).valid = true → ns_SubtractOk sol o ∧ ns_SubtractOk o sol)
    (h7 : ns_CmpIs a7 (toM sol).toYmd r1.toYmd) (h8 : ns_CmpIs a8 (toM sol).toYmd r3.toYmd)
    (h9 : ns_CmpIs a9 (toM sol).toYmd r3.toYmd) (h10 : ns_CmpIs a10 (toM sol).toYmd r2.toYmd)
    (h11 : ns_CmpIs a11 (toM sol).toYmd r2.toYmd) (h12 : ns_CmpIs a12 (toM sol).toYmd r1.toYmd) :
    ns_dayTail a7 a8 a9 a10 a11 a12 sol (ofM r1) (ofM r2) (ofM r3) =
      (match (if (strGe (toM sol).toYmd r1.toYmd && strLt (toM sol).toYmd r3.toYmd) = true then
          Option.map (fun d => d.tmod 9) ((toM sol).subtract r1)
        else if (strGe (toM sol).toYmd r3.toYmd && strLt (toM sol).toYmd r2.toYmd) = true then
            Option.map (fun d => 8 - d.tmod 9) ((toM sol).subtract r3)
        else if strGe (toM sol).toYmd r2.toYmd = true then
              Option.map (fun d => d.tmod 9) ((toM sol).subtract r2)
        else if strLt (toM sol).toYmd r1.toYmd = true then
                Option.map (fun d => (8 + d).tmod 9) (r1.subtract (toM sol))
        else some 0) with
      | some i => .ok ⟨i⟩ | none => .error .panic) := by
  unfold ns_dayTail
  rw [ns_cmp_ge h7, ns_cmp_lt h8, ns_cmp_ge h9, ns_cmp_lt h10, ns_cmp_ge h11, ns_cmp_lt h12]
  have s1 := (hs (ofM r1) (by simpa using v1)).1
  have s1' := (hs (ofM r1) (by simpa using v1)).2
  have s2 := (hs (ofM r2) (by simpa using v2)).1
  have s3 := (hs (ofM r3) (by simpa using v3)).1
  unfold ns_SubtractOk at s1 s1' s2 s3
  rw [s1, s1', s2, s3]
  simp only [toM_ofM]
  split
  · exact ns_map_ok _ _
  split
  · exact ns_map_ok _ _
  split
  · exact ns_map_ok _ _
  split
  · exact ns_map_ok _ _
  · rfl

/-- `Lunar.GetDayNineStar` ↔ `Model.Lunar.dayNineStar` (`none` = panic), for every term table `terms`.
Atoms:
* `a1 a2 a3` = `lunar.jieQi["冬至"]`, `["DONG_ZHI"]`, `["夏至"]` (`h1 h2 h3`);
* `a4 a5 a6` = `GetJiaZiIndex(x.GetLunar().GetDayInGanZhi())` of those three = `Model.dayJiaZiOf` (`h4 h5 h6`);
* `a7 … a12` = `strings.Compare(solarYmd, anchorYmd)` where the anchor is the result of the `NextDay` call
  (`ns_anchor`, only constrained when that call succeeds): `a7 a12` against the 冬至 anchor, `a8 a9` against
  the 夏至 anchor, `a10 a11` against the DONG_ZHI anchor.
Callee hypotheses (to be discharged by `nextDay_eq` / `subtract_eq`): the three `NextDay` calls actually made
(`hn1 hn2 hn3`) and `Subtract` between `lunar.solar` and any valid date (`hs`; the anchors are valid because
`NextDay` ends in `NewSolar`). No other guard. -/
theorem getDayNineStar_eq (fuel : Nat) (lunar : Gen.Fn.Lunar) (terms : List Model.Solar)
    (a1 a2 a3 : Gen.Fn.Solar) (a4 a5 a6 a7 a8 a9 a10 a11 a12 : Int)
    (h1 : toM a1 = termByName terms "冬至") (h2 : toM a2 = termByName terms "DONG_ZHI")
    (h3 : toM a3 = termByName terms "夏至")
    (h4 : a4 = dayJiaZiOf (toM a1)) (h5 : a5 = dayJiaZiOf (toM a2)) (h6 : a6 = dayJiaZiOf (toM a3))
    (hn1 : ns_NextDayOk fuel a1 (ns_shift a4)) (hn2 : ns_NextDayOk fuel a2 (ns_shift a5))
    (hn3 : ns_NextDayOk fuel a3 (ns_shift a6))
    (hs : ∀ o : Gen.Fn.Solar, (toM o).valid = true → ns_SubtractOk lunar.solar o ∧ ns_SubtractOk o lunar.solar)
    (h7 : ∀ r, ns_anchor (toM a1) = some r → ns_CmpIs a7 (toM lunar.solar).toYmd r.toYmd)
    (h8 : ∀ r, ns_anchor (toM a3) = some r → ns_CmpIs a8 (toM lunar.solar).toYmd r.toYmd)
    (h9 : ∀ r, ns_anchor (toM a3) = some r → ns_CmpIs a9 (toM lunar.solar).toYmd r.toYmd)
    (h10 : ∀ r, ns_anchor (toM a2) = some r → ns_CmpIs a10 (toM lunar.solar).toYmd r.toYmd)
    (h11 : ∀ r, ns_anchor (toM a2) = some r → ns_CmpIs a11 (toM lunar.solar).toYmd r.toYmd)
    (h12 : ∀ r, ns_anchor (toM a1) = some r → ns_CmpIs a12 (toM lunar.solar).toYmd r.toYmd) :
    Gen.Fn.calendar_Lunar_GetDayNineStar fuel a1 a2 a3 a4 a5 a6 a7 a8 a9 a10 a11 a12 lunar =
      (match (ns_lunarToM lunar terms).dayNineStar with
       | some i => .ok ⟨i⟩ | none => .error .panic) := by
  rw [ns_day_shape]
  unfold Model.Lunar.dayNineStar
  simp only [ns_anchor_eq]
  unfold ns_NextDayOk at hn1 hn2 hn3
  rw [hn1, hn2, hn3]
  have e1 : (ns_lunarToM lunar terms).terms = terms := rfl
  have e2 : (ns_lunarToM lunar terms).solar = toM lunar.solar := rfl
  rw [e1, e2, ← h1, ← h2, ← h3]
  subst h4 h5 h6
  unfold ns_anchor at *
  generalize hr1 : (toM a1).nextDay (ns_shift (dayJiaZiOf (toM a1))) = o1 at *
  generalize hr2 : (toM a2).nextDay (ns_shift (dayJiaZiOf (toM a2))) = o2 at *
  generalize hr3 : (toM a3).nextDay (ns_shift (dayJiaZiOf (toM a3))) = o3 at *
  cases o1 with
  | none => rfl
  | some r1 =>
  cases o2 with
  | none => rfl
  | some r2 =>
  cases o3 with
  | none => rfl
  | some r3 =>
  exact ns_dayTail_eq a7 a8 a9 a10 a11 a12 lunar.solar r1 r2 r3
    (ns_nextDay_valid hr1) (ns_nextDay_valid hr2) (ns_nextDay_valid hr3) hs
    (h7 r1 rfl) (h8 r3 rfl) (h9 r3 rfl) (h10 r2 rfl) (h11 r2 rfl) (h12 r1 rfl)

/-! ## 5. Lunar.GetTimeNineStar, LunarTime.GetNineStar -/

/-- `Lunar.GetTimeNineStar` ↔ `Model.Lunar.timeNineStar`. Atoms `a1 a2 a3` = `strings.Compare(solarYmd, t.ToYmd())`
for `t` = `jieQi["冬至"]`, `["夏至"]`, `["DONG_ZHI"]`; `a4 a5` = `strings.Contains(group, dayZhi)`. No guard. -/
theorem getTimeNineStar_eq (a1 a2 a3 : Int) (a4 a5 : Bool) (lunar : Gen.Fn.Lunar) (terms : List Model.Solar)
    (h1 : ns_CmpIs a1 (toM lunar.solar).toYmd (termByName terms "冬至").toYmd)
    (h2 : ns_CmpIs a2 (toM lunar.solar).toYmd (termByName terms "夏至").toYmd)
    (h3 : ns_CmpIs a3 (toM lunar.solar).toYmd (termByName terms "DONG_ZHI").toYmd)
    (h4 : a4 = Model.zhiInGroup "子午卯酉" (Model.zhiStr lunar.dayZhiIndex))
    (h5 : a5 = Model.zhiInGroup "辰戌丑未" (Model.zhiStr lunar.dayZhiIndex)) :
    Gen.Fn.calendar_Lunar_GetTimeNineStar a1 a2 a3 a4 a5 lunar =
      .ok ⟨(ns_lunarToM lunar terms).timeNineStar⟩ := by
  unfold Gen.Fn.calendar_Lunar_GetTimeNineStar Model.Lunar.timeNineStar
  rw [ns_cmp_ge h1, ns_cmp_lt h2, ns_cmp_ge h3]
  simp only [ns_lunarToM, ← h4, ← h5]
  clear h1 h2 h3 h4 h5
  rcases Bool.eq_false_or_eq_true (strGe (toM lunar.solar).toYmd (termByName terms "冬至").toYmd) with b1 | b1 <;>
  rcases Bool.eq_false_or_eq_true (strLt (toM lunar.solar).toYmd (termByName terms "夏至").toYmd) with b2 | b2 <;>
  rcases Bool.eq_false_or_eq_true (strGe (toM lunar.solar).toYmd (termByName terms "DONG_ZHI").toYmd) with b3 | b3 <;>
  cases a4 <;> cases a5 <;> simp only [b1, b2, b3] <;> rfl


theorem ns_idx_gt {a : Int} {b : Bool} (h : a > -1 ↔ b = true) : decide (a > -1) = b := by
  cases b <;> simp_all

/-- the body of `calendar_LunarTime_GetNineStar` with its five conditions abstracted to Booleans -/
def ns_ltCore (c1 c2 c3 c4 c5 : Bool) (tz : Int) : Except Gen.Fn.Err Gen.Fn.NineStar := do
  let mut asc : Bool := false
  if (c1 && c2) then
    asc := true
  else
    if c3 then
      asc := true
  let mut start : Int := 3
  if asc then
    start := 7
  if c4 then
    if asc then
      start := 1
    else
      start := 9
  else
    if c5 then
      if asc then
        start := 4
      else
        start := 6
  let mut index : Int := ((start - tz) - 1)
  if asc then
    index := ((start + tz) - 1)
  if decide (index > 8) then
    index := (index - 9)
  if decide (index < 0) then
    index := (index + 9)
  let t1 ← Gen.Fn.calendar_NewNineStar index
  return t1

theorem ns_lt_shape (a1 a2 a3 a4 a5 : Int) (lt : Gen.Fn.LunarTime) :
    Gen.Fn.calendar_LunarTime_GetNineStar a1 a2 a3 a4 a5 lt =
      ns_ltCore (decide (a1 ≥ 0)) (decide (a2 < 0)) (decide (a3 ≥ 0)) (decide (a4 > -1)) (decide (a5 > -1))
        lt.zhiIndex := rfl

def ns_ltModel (c1 c2 c3 c4 c5 : Bool) (tz : Int) : Int :=
  let asc := (c1 && c2) || c3
  let start : Int :=
    if c4 then (if asc then 1 else 9)
    else if c5 then (if asc then 4 else 6)
    else (if asc then 7 else 3)
  let index := if asc then start + tz - 1 else start - tz - 1
  let index := if index > 8 then index - 9 else index
  if index < 0 then index + 9 else index

theorem ns_wrap (i : Int) :
    (if decide (i > 8) = true then
        (if decide (i - 9 < 0) = true then (Except.ok ⟨i - 9 + 9⟩ : Except Gen.Fn.Err Gen.Fn.NineStar) else .ok ⟨i - 9⟩)
      else if decide (i < 0) = true then .ok ⟨i + 9⟩ else .ok ⟨i⟩) =
      .ok ⟨(if (if i > 8 then i - 9 else i) < 0 then (if i > 8 then i - 9 else i) + 9 else (if i > 8 then i - 9 else i))⟩ := by
  by_cases h8 : i > 8
  · by_cases h0 : i - 9 < 0 <;> simp [h8, h0]
  · by_cases h0 : i < 0 <;> simp [h8, h0]

theorem ns_ltCore_eq (c1 c2 c3 c4 c5 : Bool) (tz : Int) :
    ns_ltCore c1 c2 c3 c4 c5 tz = .ok ⟨ns_ltModel c1 c2 c3 c4 c5 tz⟩ := by
  cases c1 <;> cases c2 <;> cases c3 <;> cases c4 <;> cases c5 <;> exact ns_wrap _

/-- `LunarTime.GetNineStar` ↔ `Model.Lunar.timeNineStarViaLunarTime` on the hour object's `lunar`. Atoms as for
`GetTimeNineStar`, except `a4 a5` = `strings.Index(group, dayZhi)` (tested `> -1`). Guard `hz`: the hour object
was built from the same moment (`NewLunarTime` computes `zhiIndex` exactly as `computeTime` does). -/
theorem lunarTime_getNineStar_eq (a1 a2 a3 a4 a5 : Int) (lt : Gen.Fn.LunarTime) (terms : List Model.Solar)
    (hz : lt.zhiIndex = lt.lunar.timeZhiIndex)
    (h1 : ns_CmpIs a1 (toM lt.lunar.solar).toYmd (termByName terms "冬至").toYmd)
    (h2 : ns_CmpIs a2 (toM lt.lunar.solar).toYmd (termByName terms "夏至").toYmd)
    (h3 : ns_CmpIs a3 (toM lt.lunar.solar).toYmd (termByName terms "DONG_ZHI").toYmd)
    (h4 : a4 > -1 ↔ Model.zhiInGroup "子午卯酉" (Model.zhiStr lt.lunar.dayZhiIndex) = true)
    (h5 : a5 > -1 ↔ Model.zhiInGroup "辰戌丑未" (Model.zhiStr lt.lunar.dayZhiIndex) = true) :
    Gen.Fn.calendar_LunarTime_GetNineStar a1 a2 a3 a4 a5 lt =
      .ok ⟨(ns_lunarToM lt.lunar terms).timeNineStarViaLunarTime⟩ := by
  rw [ns_lt_shape, ns_cmp_ge h1, ns_cmp_lt h2, ns_cmp_ge h3, ns_idx_gt h4, ns_idx_gt h5, hz, ns_ltCore_eq]
  rfl

/-! ## Satisfiability of the compare atoms: the day theorem with `strings.Compare` instantiated -/

def ns_cmpOpt (x : List Char) (o : Option Model.Solar) : Int :=
  match o with | some r => ns_cmpInt x r.toYmd | none => 0

theorem ns_cmpOpt_is (x : List Char) (o : Option Model.Solar) :
    ∀ r, o = some r → ns_CmpIs (ns_cmpOpt x o) x r.toYmd := by
  intro r h; subst h; exact ns_cmpInt_is _ _

theorem getDayNineStar_eq_cmp (fuel : Nat) (lunar : Gen.Fn.Lunar) (terms : List Model.Solar)
    (a1 a2 a3 : Gen.Fn.Solar)
    (h1 : toM a1 = termByName terms "冬至") (h2 : toM a2 = termByName terms "DONG_ZHI")
    (h3 : toM a3 = termByName terms "夏至")
    (hn1 : ns_NextDayOk fuel a1 (ns_shift (dayJiaZiOf (toM a1))))
    (hn2 : ns_NextDayOk fuel a2 (ns_shift (dayJiaZiOf (toM a2))))
    (hn3 : ns_NextDayOk fuel a3 (ns_shift (dayJiaZiOf (toM a3))))
    (hs : ∀ o : Gen.Fn.Solar, (toM o).valid = true → ns_SubtractOk lunar.solar o ∧ ns_SubtractOk o lunar.solar) :
    let ymd := (toM lunar.solar).toYmd
    let c1 := ns_cmpOpt ymd (ns_anchor (toM a1))
    let c2 := ns_cmpOpt ymd (ns_anchor (toM a2))
    let c3 := ns_cmpOpt ymd (ns_anchor (toM a3))
    Gen.Fn.calendar_Lunar_GetDayNineStar fuel a1 a2 a3
        (dayJiaZiOf (toM a1)) (dayJiaZiOf (toM a2)) (dayJiaZiOf (toM a3)) c1 c3 c3 c2 c2 c1 lunar =
      (match (ns_lunarToM lunar terms).dayNineStar with
       | some i => .ok ⟨i⟩ | none => .error .panic) := by
  intro ymd c1 c2 c3
  exact getDayNineStar_eq fuel lunar terms a1 a2 a3 _ _ _ _ _ _ _ _ _ h1 h2 h3 rfl rfl rfl hn1 hn2 hn3 hs
    (ns_cmpOpt_is _ _) (ns_cmpOpt_is _ _) (ns_cmpOpt_is _ _) (ns_cmpOpt_is _ _) (ns_cmpOpt_is _ _)
    (ns_cmpOpt_is _ _)

section Axioms
#print axioms newNineStar_eq
#print axioms lunarYear_getNineStar_raw
#print axioms lunarYear_getNineStar_eq
#print axioms getYearNineStar_eq
#print axioms getMonthNineStar_eq
#print axioms getMonthNineStarBySect_eq
#print axioms getDayNineStar_eq
#print axioms getDayNineStar_eq_cmp
#print axioms getTimeNineStar_eq
#print axioms lunarTime_getNineStar_eq
end Axioms

end FnEq
