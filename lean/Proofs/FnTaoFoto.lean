/-
Proofs.FnTaoFoto — Tao/Foto years and Foto fasting days: generated code = model (split from the worker's FnMisc; helper prefix `mi_`).
-/
import Proofs.FnMiscBase

namespace FnEq
open Gen.Fn

theorem taoGetYear_eq (t : Gen.Fn.Tao) (terms : List Model.Solar) :
    Gen.Fn.calendar_Tao_GetYear t = .ok (Model.taoYear (mi_lunarToM t.lunar terms)) := rfl

theorem fotoGetYear_eq (f : Gen.Fn.Foto) (terms : List Model.Solar) :
    Gen.Fn.calendar_Foto_GetYear f = .ok (Model.fotoYear (mi_lunarToM f.lunar terms)) := rfl

/-- with the package constants evaluated -/
theorem taoGetYear_val (t : Gen.Fn.Tao) : Gen.Fn.calendar_Tao_GetYear t = .ok (t.lunar.year + 2697) := by
  show Except.ok (t.lunar.year - (-2697)) = _
  congr 1 <;> omega

theorem fotoGetYear_val (f : Gen.Fn.Foto) : Gen.Fn.calendar_Foto_GetYear f = .ok (f.lunar.year + 544) := by
  show Except.ok (f.lunar.year - (-543) + 1) = _
  congr 1 <;> omega

/-! ## 7. Foto.IsDayZhaiTen, Foto.IsDayZhaiSix -/

theorem fotoIsDayZhaiTen_eq (f : Gen.Fn.Foto) (terms : List Model.Solar) :
    Gen.Fn.calendar_Foto_IsDayZhaiTen f = .ok (Model.fotoZhaiTen (mi_lunarToM f.lunar terms)) := by
  simp only [Gen.Fn.calendar_Foto_IsDayZhaiTen, Gen.Fn.calendar_Foto_GetDay, mi_lunarGetDay_eq,
    c1_ok_bind, c1_pure, Model.fotoZhaiTen, mi_lunarToM]
  congr 1
  have e : ∀ k : Int, decide (k = f.lunar.day) = (f.lunar.day == k) := fun k => by
    rw [c1_beq, decide_eq_decide]; exact eq_comm
  simp only [e 1, e 8, e 14, e 15, e 18, e 23, e 24, e 28, e 29, e 30, List.contains, List.elem,
    Bool.or_assoc]
  repeat' split
  all_goals simp [*]

/-- Meaning of the atoms of `IsDayZhaiSix`: `a1` = `NewLunarMonthFromYm(lunar year, month)`,
`a2` = `nil != m`; `r` is the model's lookup of that month.  Only `dayCount` is read. -/
def mi_MonthAtom (a1 : Gen.Fn.LunarMonth) (a2 : Bool) (r : Option Model.MonthRec) : Prop :=
  match r with
  | some m => a2 = true ∧ a1.dayCount = m.dayCount
  | none => a2 = false

theorem fotoIsDayZhaiSix_eq (A : Model.Astro) (a1 : Gen.Fn.LunarMonth) (a2 : Bool) (f : Gen.Fn.Foto)
    (terms : List Model.Solar)
    (ha : f.lunar.day = 28 → mi_MonthAtom a1 a2
      (Model.findMonth (A f.lunar.year).months f.lunar.year f.lunar.month)) :
    Gen.Fn.calendar_Foto_IsDayZhaiSix a1 a2 f =
      .ok (Model.fotoZhaiSix A (mi_lunarToM f.lunar terms)) := by
  simp only [Gen.Fn.calendar_Foto_IsDayZhaiSix, Gen.Fn.calendar_Foto_GetDay, mi_lunarGetDay_eq,
    Gen.Fn.calendar_LunarMonth_GetDayCount, c1_ok_bind, c1_pure, Model.fotoZhaiSix, mi_lunarToM]
  by_cases h6 : f.lunar.day = 8 ∨ f.lunar.day = 14 ∨ f.lunar.day = 15 ∨ f.lunar.day = 23 ∨
      f.lunar.day = 29 ∨ f.lunar.day = 30
  · rcases h6 with h | h | h | h | h | h <;> simp [h]
  · have n8 : ¬ f.lunar.day = 8 := fun h => h6 (by simp [h])
    have n14 : ¬ f.lunar.day = 14 := fun h => h6 (by simp [h])
    have n15 : ¬ f.lunar.day = 15 := fun h => h6 (by simp [h])
    have n23 : ¬ f.lunar.day = 23 := fun h => h6 (by simp [h])
    have n29 : ¬ f.lunar.day = 29 := fun h => h6 (by simp [h])
    have n30 : ¬ f.lunar.day = 30 := fun h => h6 (by simp [h])
    by_cases h28 : f.lunar.day = 28
    · have ha' := ha h28
      unfold mi_MonthAtom at ha'
      cases hm : Model.findMonth (A f.lunar.year).months f.lunar.year f.lunar.month with
      | none =>
        rw [hm] at ha'
        simp [h28, ha']
      | some m =>
        rw [hm] at ha'
        simp [h28, ha'.1, ha'.2, eq_comm, c1_bne]
    · have e8 : ¬ 8 = f.lunar.day := fun h => n8 h.symm
      have e14 : ¬ 14 = f.lunar.day := fun h => n14 h.symm
      have e15 : ¬ 15 = f.lunar.day := fun h => n15 h.symm
      have e23 : ¬ 23 = f.lunar.day := fun h => n23 h.symm
      have e29 : ¬ 29 = f.lunar.day := fun h => n29 h.symm
      have e30 : ¬ 30 = f.lunar.day := fun h => n30 h.symm
      have e28 : ¬ 28 = f.lunar.day := fun h => h28 h.symm
      simp [n8, n14, n15, n23, n29, n30, h28, e8, e14, e15, e23, e29, e30, e28]


end FnEq
