/-
FnSCongr — "table-driven attributes are functions of their defining inputs", stated DIRECTLY on the
generated string-mode code `Gen.FnS`, guard-free: two `Gen.FnS.Lunar` (resp. `Gen.FnS.EightChar`)
values that agree on the named fields yield the SAME `Except Err String` result of the accessor
(including panics).  Every proof is the same pattern: unfold the accessor and every
`calendar_Lunar_* / calendar_EightChar_*` callee that receives the receiver down to field
projections, then rewrite with the field equalities (`sc_congr [defs…]` = `simp only [defs…, *]`).
If an accessor read any field not named in the hypotheses the rewrite would leave `l.f` vs `l'.f`
and the proof would fail — so each theorem certifies the exact read-set claim.
-/
import Gen.FnS
import Proofs.FnSBase
namespace FnSEq
open Gen.Fn (Err)

/-- unfold the listed generated functions on both sides and rewrite with all hypotheses -/
syntax "sc_congr" "[" Lean.Parser.Tactic.simpLemma,* "]" : tactic
macro_rules
  | `(tactic| sc_congr [$ls,*]) => `(tactic| simp only [$ls,*, *])

/-! ### `Gen.FnS.Lunar` accessors -/

/-- `GetDayPositionXi` is a function of `dayGanIndex` -/
theorem lunarGetDayPositionXi_congr (l l' : Gen.FnS.Lunar) (h1 : l.dayGanIndex = l'.dayGanIndex) :
    Gen.FnS.calendar_Lunar_GetDayPositionXi l = Gen.FnS.calendar_Lunar_GetDayPositionXi l' := by
  sc_congr [Gen.FnS.calendar_Lunar_GetDayPositionXi]

/-- `GetDayPositionXiDesc` is a function of `dayGanIndex` -/
theorem lunarGetDayPositionXiDesc_congr (l l' : Gen.FnS.Lunar) (h1 : l.dayGanIndex = l'.dayGanIndex) :
    Gen.FnS.calendar_Lunar_GetDayPositionXiDesc l = Gen.FnS.calendar_Lunar_GetDayPositionXiDesc l' := by
  sc_congr [Gen.FnS.calendar_Lunar_GetDayPositionXiDesc, Gen.FnS.calendar_Lunar_GetDayPositionXi]

/-- `GetDayPositionYangGui` is a function of `dayGanIndex` -/
theorem lunarGetDayPositionYangGui_congr (l l' : Gen.FnS.Lunar) (h1 : l.dayGanIndex = l'.dayGanIndex) :
    Gen.FnS.calendar_Lunar_GetDayPositionYangGui l = Gen.FnS.calendar_Lunar_GetDayPositionYangGui l' := by
  sc_congr [Gen.FnS.calendar_Lunar_GetDayPositionYangGui]

/-- `GetDayPositionYangGuiDesc` is a function of `dayGanIndex` -/
theorem lunarGetDayPositionYangGuiDesc_congr (l l' : Gen.FnS.Lunar) (h1 : l.dayGanIndex = l'.dayGanIndex) :
    Gen.FnS.calendar_Lunar_GetDayPositionYangGuiDesc l = Gen.FnS.calendar_Lunar_GetDayPositionYangGuiDesc l' := by
  sc_congr [Gen.FnS.calendar_Lunar_GetDayPositionYangGuiDesc, Gen.FnS.calendar_Lunar_GetDayPositionYangGui]

/-- `GetDayPositionYinGui` is a function of `dayGanIndex` -/
theorem lunarGetDayPositionYinGui_congr (l l' : Gen.FnS.Lunar) (h1 : l.dayGanIndex = l'.dayGanIndex) :
    Gen.FnS.calendar_Lunar_GetDayPositionYinGui l = Gen.FnS.calendar_Lunar_GetDayPositionYinGui l' := by
  sc_congr [Gen.FnS.calendar_Lunar_GetDayPositionYinGui]

/-- `GetDayPositionYinGuiDesc` is a function of `dayGanIndex` -/
theorem lunarGetDayPositionYinGuiDesc_congr (l l' : Gen.FnS.Lunar) (h1 : l.dayGanIndex = l'.dayGanIndex) :
    Gen.FnS.calendar_Lunar_GetDayPositionYinGuiDesc l = Gen.FnS.calendar_Lunar_GetDayPositionYinGuiDesc l' := by
  sc_congr [Gen.FnS.calendar_Lunar_GetDayPositionYinGuiDesc, Gen.FnS.calendar_Lunar_GetDayPositionYinGui]

/-- `GetDayPositionFu` is a function of `dayGanIndex` -/
theorem lunarGetDayPositionFu_congr (l l' : Gen.FnS.Lunar) (h1 : l.dayGanIndex = l'.dayGanIndex) :
    Gen.FnS.calendar_Lunar_GetDayPositionFu l = Gen.FnS.calendar_Lunar_GetDayPositionFu l' := by
  sc_congr [Gen.FnS.calendar_Lunar_GetDayPositionFu, Gen.FnS.calendar_Lunar_GetDayPositionFuBySect]

/-- `GetDayPositionFuDesc` is a function of `dayGanIndex` -/
theorem lunarGetDayPositionFuDesc_congr (l l' : Gen.FnS.Lunar) (h1 : l.dayGanIndex = l'.dayGanIndex) :
    Gen.FnS.calendar_Lunar_GetDayPositionFuDesc l = Gen.FnS.calendar_Lunar_GetDayPositionFuDesc l' := by
  sc_congr [Gen.FnS.calendar_Lunar_GetDayPositionFuDesc, Gen.FnS.calendar_Lunar_GetDayPositionFuDescBySect, Gen.FnS.calendar_Lunar_GetDayPositionFuBySect]

/-- `GetDayPositionCai` is a function of `dayGanIndex` -/
theorem lunarGetDayPositionCai_congr (l l' : Gen.FnS.Lunar) (h1 : l.dayGanIndex = l'.dayGanIndex) :
    Gen.FnS.calendar_Lunar_GetDayPositionCai l = Gen.FnS.calendar_Lunar_GetDayPositionCai l' := by
  sc_congr [Gen.FnS.calendar_Lunar_GetDayPositionCai]

/-- `GetDayPositionCaiDesc` is a function of `dayGanIndex` -/
theorem lunarGetDayPositionCaiDesc_congr (l l' : Gen.FnS.Lunar) (h1 : l.dayGanIndex = l'.dayGanIndex) :
    Gen.FnS.calendar_Lunar_GetDayPositionCaiDesc l = Gen.FnS.calendar_Lunar_GetDayPositionCaiDesc l' := by
  sc_congr [Gen.FnS.calendar_Lunar_GetDayPositionCaiDesc, Gen.FnS.calendar_Lunar_GetDayPositionCai]

/-- `GetPengZuGan` is a function of `dayGanIndex` -/
theorem lunarGetPengZuGan_congr (l l' : Gen.FnS.Lunar) (h1 : l.dayGanIndex = l'.dayGanIndex) :
    Gen.FnS.calendar_Lunar_GetPengZuGan l = Gen.FnS.calendar_Lunar_GetPengZuGan l' := by
  sc_congr [Gen.FnS.calendar_Lunar_GetPengZuGan]

/-- `GetDayChongGan` is a function of `dayGanIndex` -/
theorem lunarGetDayChongGan_congr (l l' : Gen.FnS.Lunar) (h1 : l.dayGanIndex = l'.dayGanIndex) :
    Gen.FnS.calendar_Lunar_GetDayChongGan l = Gen.FnS.calendar_Lunar_GetDayChongGan l' := by
  sc_congr [Gen.FnS.calendar_Lunar_GetDayChongGan]

/-- `GetDayChongGanTie` is a function of `dayGanIndex` -/
theorem lunarGetDayChongGanTie_congr (l l' : Gen.FnS.Lunar) (h1 : l.dayGanIndex = l'.dayGanIndex) :
    Gen.FnS.calendar_Lunar_GetDayChongGanTie l = Gen.FnS.calendar_Lunar_GetDayChongGanTie l' := by
  sc_congr [Gen.FnS.calendar_Lunar_GetDayChongGanTie]

/-- `GetPengZuZhi` is a function of `dayZhiIndex` -/
theorem lunarGetPengZuZhi_congr (l l' : Gen.FnS.Lunar) (h1 : l.dayZhiIndex = l'.dayZhiIndex) :
    Gen.FnS.calendar_Lunar_GetPengZuZhi l = Gen.FnS.calendar_Lunar_GetPengZuZhi l' := by
  sc_congr [Gen.FnS.calendar_Lunar_GetPengZuZhi]

/-- `GetDayChong` is a function of `dayZhiIndex` -/
theorem lunarGetDayChong_congr (l l' : Gen.FnS.Lunar) (h1 : l.dayZhiIndex = l'.dayZhiIndex) :
    Gen.FnS.calendar_Lunar_GetDayChong l = Gen.FnS.calendar_Lunar_GetDayChong l' := by
  sc_congr [Gen.FnS.calendar_Lunar_GetDayChong]

/-- `GetDayChongShengXiao` is a function of `dayZhiIndex` -/
theorem lunarGetDayChongShengXiao_congr (l l' : Gen.FnS.Lunar) (h1 : l.dayZhiIndex = l'.dayZhiIndex) :
    Gen.FnS.calendar_Lunar_GetDayChongShengXiao l = Gen.FnS.calendar_Lunar_GetDayChongShengXiao l' := by
  sc_congr [Gen.FnS.calendar_Lunar_GetDayChongShengXiao, Gen.FnS.calendar_Lunar_GetDayChong]

/-- `GetDaySha` is a function of `dayZhiIndex` -/
theorem lunarGetDaySha_congr (l l' : Gen.FnS.Lunar) (h1 : l.dayZhiIndex = l'.dayZhiIndex) :
    Gen.FnS.calendar_Lunar_GetDaySha l = Gen.FnS.calendar_Lunar_GetDaySha l' := by
  sc_congr [Gen.FnS.calendar_Lunar_GetDaySha, Gen.FnS.calendar_Lunar_GetDayZhi]

/-- `GetDayShengXiao` is a function of `dayZhiIndex` -/
theorem lunarGetDayShengXiao_congr (l l' : Gen.FnS.Lunar) (h1 : l.dayZhiIndex = l'.dayZhiIndex) :
    Gen.FnS.calendar_Lunar_GetDayShengXiao l = Gen.FnS.calendar_Lunar_GetDayShengXiao l' := by
  sc_congr [Gen.FnS.calendar_Lunar_GetDayShengXiao]

/-- `GetDayChongDesc` is a function of `dayGanIndex`, `dayZhiIndex` -/
theorem lunarGetDayChongDesc_congr (l l' : Gen.FnS.Lunar) (h1 : l.dayGanIndex = l'.dayGanIndex) (h2 : l.dayZhiIndex = l'.dayZhiIndex) :
    Gen.FnS.calendar_Lunar_GetDayChongDesc l = Gen.FnS.calendar_Lunar_GetDayChongDesc l' := by
  sc_congr [Gen.FnS.calendar_Lunar_GetDayChongDesc, Gen.FnS.calendar_Lunar_GetDayChongShengXiao, Gen.FnS.calendar_Lunar_GetDayChong, Gen.FnS.calendar_Lunar_GetDayChongGan]

/-- `GetDayNaYin` is a function of `dayGanIndex`, `dayZhiIndex` -/
theorem lunarGetDayNaYin_congr (l l' : Gen.FnS.Lunar) (h1 : l.dayGanIndex = l'.dayGanIndex) (h2 : l.dayZhiIndex = l'.dayZhiIndex) :
    Gen.FnS.calendar_Lunar_GetDayNaYin l = Gen.FnS.calendar_Lunar_GetDayNaYin l' := by
  sc_congr [Gen.FnS.calendar_Lunar_GetDayNaYin, Gen.FnS.calendar_Lunar_GetDayInGanZhi, Gen.FnS.calendar_Lunar_GetDayZhi, Gen.FnS.calendar_Lunar_GetDayGan]

/-- `GetDayPositionTai` is a function of `dayGanIndex`, `dayZhiIndex` -/
theorem lunarGetDayPositionTai_congr (l l' : Gen.FnS.Lunar) (h1 : l.dayGanIndex = l'.dayGanIndex) (h2 : l.dayZhiIndex = l'.dayZhiIndex) :
    Gen.FnS.calendar_Lunar_GetDayPositionTai l = Gen.FnS.calendar_Lunar_GetDayPositionTai l' := by
  sc_congr [Gen.FnS.calendar_Lunar_GetDayPositionTai, Gen.FnS.calendar_Lunar_GetDayInGanZhi, Gen.FnS.calendar_Lunar_GetDayZhi, Gen.FnS.calendar_Lunar_GetDayGan]

/-- `GetDayLu` is a function of `dayGanIndex`, `dayZhiIndex` -/
theorem lunarGetDayLu_congr (l l' : Gen.FnS.Lunar) (h1 : l.dayGanIndex = l'.dayGanIndex) (h2 : l.dayZhiIndex = l'.dayZhiIndex) :
    Gen.FnS.calendar_Lunar_GetDayLu l = Gen.FnS.calendar_Lunar_GetDayLu l' := by
  sc_congr [Gen.FnS.calendar_Lunar_GetDayLu, Gen.FnS.calendar_Lunar_GetDayZhi, Gen.FnS.calendar_Lunar_GetDayGan]

/-- `GetDayXun` is a function of `dayGanIndex`, `dayZhiIndex` -/
theorem lunarGetDayXun_congr (l l' : Gen.FnS.Lunar) (h1 : l.dayGanIndex = l'.dayGanIndex) (h2 : l.dayZhiIndex = l'.dayZhiIndex) :
    Gen.FnS.calendar_Lunar_GetDayXun l = Gen.FnS.calendar_Lunar_GetDayXun l' := by
  sc_congr [Gen.FnS.calendar_Lunar_GetDayXun, Gen.FnS.calendar_Lunar_GetDayInGanZhi, Gen.FnS.calendar_Lunar_GetDayZhi, Gen.FnS.calendar_Lunar_GetDayGan]

/-- `GetDayXunKong` is a function of `dayGanIndex`, `dayZhiIndex` -/
theorem lunarGetDayXunKong_congr (l l' : Gen.FnS.Lunar) (h1 : l.dayGanIndex = l'.dayGanIndex) (h2 : l.dayZhiIndex = l'.dayZhiIndex) :
    Gen.FnS.calendar_Lunar_GetDayXunKong l = Gen.FnS.calendar_Lunar_GetDayXunKong l' := by
  sc_congr [Gen.FnS.calendar_Lunar_GetDayXunKong, Gen.FnS.calendar_Lunar_GetDayInGanZhi, Gen.FnS.calendar_Lunar_GetDayZhi, Gen.FnS.calendar_Lunar_GetDayGan]

/-- `GetZhiXing` is a function of `monthZhiIndex`, `dayZhiIndex` -/
theorem lunarGetZhiXing_congr (l l' : Gen.FnS.Lunar) (h1 : l.monthZhiIndex = l'.monthZhiIndex) (h2 : l.dayZhiIndex = l'.dayZhiIndex) :
    Gen.FnS.calendar_Lunar_GetZhiXing l = Gen.FnS.calendar_Lunar_GetZhiXing l' := by
  sc_congr [Gen.FnS.calendar_Lunar_GetZhiXing]

/-- `GetDayTianShen` is a function of `monthZhiIndex`, `dayZhiIndex` -/
theorem lunarGetDayTianShen_congr (l l' : Gen.FnS.Lunar) (h1 : l.monthZhiIndex = l'.monthZhiIndex) (h2 : l.dayZhiIndex = l'.dayZhiIndex) :
    Gen.FnS.calendar_Lunar_GetDayTianShen l = Gen.FnS.calendar_Lunar_GetDayTianShen l' := by
  sc_congr [Gen.FnS.calendar_Lunar_GetDayTianShen, Gen.FnS.calendar_Lunar_GetMonthZhi]

/-- `GetDayTianShenType` is a function of `monthZhiIndex`, `dayZhiIndex` -/
theorem lunarGetDayTianShenType_congr (l l' : Gen.FnS.Lunar) (h1 : l.monthZhiIndex = l'.monthZhiIndex) (h2 : l.dayZhiIndex = l'.dayZhiIndex) :
    Gen.FnS.calendar_Lunar_GetDayTianShenType l = Gen.FnS.calendar_Lunar_GetDayTianShenType l' := by
  sc_congr [Gen.FnS.calendar_Lunar_GetDayTianShenType, Gen.FnS.calendar_Lunar_GetDayTianShen, Gen.FnS.calendar_Lunar_GetMonthZhi]

/-- `GetDayTianShenLuck` is a function of `monthZhiIndex`, `dayZhiIndex` -/
theorem lunarGetDayTianShenLuck_congr (l l' : Gen.FnS.Lunar) (h1 : l.monthZhiIndex = l'.monthZhiIndex) (h2 : l.dayZhiIndex = l'.dayZhiIndex) :
    Gen.FnS.calendar_Lunar_GetDayTianShenLuck l = Gen.FnS.calendar_Lunar_GetDayTianShenLuck l' := by
  sc_congr [Gen.FnS.calendar_Lunar_GetDayTianShenLuck, Gen.FnS.calendar_Lunar_GetDayTianShenType, Gen.FnS.calendar_Lunar_GetDayTianShen, Gen.FnS.calendar_Lunar_GetMonthZhi]

/-- `GetXiu` is a function of `dayZhiIndex`, `weekIndex` -/
theorem lunarGetXiu_congr (l l' : Gen.FnS.Lunar) (h1 : l.dayZhiIndex = l'.dayZhiIndex) (h2 : l.weekIndex = l'.weekIndex) :
    Gen.FnS.calendar_Lunar_GetXiu l = Gen.FnS.calendar_Lunar_GetXiu l' := by
  sc_congr [Gen.FnS.calendar_Lunar_GetXiu, Gen.FnS.calendar_Lunar_GetWeek, Gen.FnS.calendar_Lunar_GetDayZhi]

/-- `GetXiuLuck` is a function of `dayZhiIndex`, `weekIndex` -/
theorem lunarGetXiuLuck_congr (l l' : Gen.FnS.Lunar) (h1 : l.dayZhiIndex = l'.dayZhiIndex) (h2 : l.weekIndex = l'.weekIndex) :
    Gen.FnS.calendar_Lunar_GetXiuLuck l = Gen.FnS.calendar_Lunar_GetXiuLuck l' := by
  sc_congr [Gen.FnS.calendar_Lunar_GetXiuLuck, Gen.FnS.calendar_Lunar_GetXiu, Gen.FnS.calendar_Lunar_GetWeek, Gen.FnS.calendar_Lunar_GetDayZhi]

/-- `GetXiuSong` is a function of `dayZhiIndex`, `weekIndex` -/
theorem lunarGetXiuSong_congr (l l' : Gen.FnS.Lunar) (h1 : l.dayZhiIndex = l'.dayZhiIndex) (h2 : l.weekIndex = l'.weekIndex) :
    Gen.FnS.calendar_Lunar_GetXiuSong l = Gen.FnS.calendar_Lunar_GetXiuSong l' := by
  sc_congr [Gen.FnS.calendar_Lunar_GetXiuSong, Gen.FnS.calendar_Lunar_GetXiu, Gen.FnS.calendar_Lunar_GetWeek, Gen.FnS.calendar_Lunar_GetDayZhi]

/-- `GetZheng` is a function of `dayZhiIndex`, `weekIndex` -/
theorem lunarGetZheng_congr (l l' : Gen.FnS.Lunar) (h1 : l.dayZhiIndex = l'.dayZhiIndex) (h2 : l.weekIndex = l'.weekIndex) :
    Gen.FnS.calendar_Lunar_GetZheng l = Gen.FnS.calendar_Lunar_GetZheng l' := by
  sc_congr [Gen.FnS.calendar_Lunar_GetZheng, Gen.FnS.calendar_Lunar_GetXiu, Gen.FnS.calendar_Lunar_GetWeek, Gen.FnS.calendar_Lunar_GetDayZhi]

/-- `GetAnimal` is a function of `dayZhiIndex`, `weekIndex` -/
theorem lunarGetAnimal_congr (l l' : Gen.FnS.Lunar) (h1 : l.dayZhiIndex = l'.dayZhiIndex) (h2 : l.weekIndex = l'.weekIndex) :
    Gen.FnS.calendar_Lunar_GetAnimal l = Gen.FnS.calendar_Lunar_GetAnimal l' := by
  sc_congr [Gen.FnS.calendar_Lunar_GetAnimal, Gen.FnS.calendar_Lunar_GetXiu, Gen.FnS.calendar_Lunar_GetWeek, Gen.FnS.calendar_Lunar_GetDayZhi]

/-- `GetGong` is a function of `dayZhiIndex`, `weekIndex` -/
theorem lunarGetGong_congr (l l' : Gen.FnS.Lunar) (h1 : l.dayZhiIndex = l'.dayZhiIndex) (h2 : l.weekIndex = l'.weekIndex) :
    Gen.FnS.calendar_Lunar_GetGong l = Gen.FnS.calendar_Lunar_GetGong l' := by
  sc_congr [Gen.FnS.calendar_Lunar_GetGong, Gen.FnS.calendar_Lunar_GetXiu, Gen.FnS.calendar_Lunar_GetWeek, Gen.FnS.calendar_Lunar_GetDayZhi]

/-- `GetShou` is a function of `dayZhiIndex`, `weekIndex` -/
theorem lunarGetShou_congr (l l' : Gen.FnS.Lunar) (h1 : l.dayZhiIndex = l'.dayZhiIndex) (h2 : l.weekIndex = l'.weekIndex) :
    Gen.FnS.calendar_Lunar_GetShou l = Gen.FnS.calendar_Lunar_GetShou l' := by
  sc_congr [Gen.FnS.calendar_Lunar_GetShou, Gen.FnS.calendar_Lunar_GetGong, Gen.FnS.calendar_Lunar_GetXiu, Gen.FnS.calendar_Lunar_GetWeek, Gen.FnS.calendar_Lunar_GetDayZhi]

/-- `GetLiuYao` is a function of `month`, `day` -/
theorem lunarGetLiuYao_congr (l l' : Gen.FnS.Lunar) (h1 : l.month = l'.month) (h2 : l.day = l'.day) :
    Gen.FnS.calendar_Lunar_GetLiuYao l = Gen.FnS.calendar_Lunar_GetLiuYao l' := by
  sc_congr [Gen.FnS.calendar_Lunar_GetLiuYao]

/-- `GetYueXiang` is a function of `day` -/
theorem lunarGetYueXiang_congr (l l' : Gen.FnS.Lunar) (h1 : l.day = l'.day) :
    Gen.FnS.calendar_Lunar_GetYueXiang l = Gen.FnS.calendar_Lunar_GetYueXiang l' := by
  sc_congr [Gen.FnS.calendar_Lunar_GetYueXiang]

/-- `GetSeason` is a function of `month` -/
theorem lunarGetSeason_congr (l l' : Gen.FnS.Lunar) (h1 : l.month = l'.month) :
    Gen.FnS.calendar_Lunar_GetSeason l = Gen.FnS.calendar_Lunar_GetSeason l' := by
  sc_congr [Gen.FnS.calendar_Lunar_GetSeason]

/-- `GetMonthPositionTai` is a function of `month` -/
theorem lunarGetMonthPositionTai_congr (l l' : Gen.FnS.Lunar) (h1 : l.month = l'.month) :
    Gen.FnS.calendar_Lunar_GetMonthPositionTai l = Gen.FnS.calendar_Lunar_GetMonthPositionTai l' := by
  sc_congr [Gen.FnS.calendar_Lunar_GetMonthPositionTai]

/-- `GetTimePositionXi` is a function of `timeGanIndex` -/
theorem lunarGetTimePositionXi_congr (l l' : Gen.FnS.Lunar) (h1 : l.timeGanIndex = l'.timeGanIndex) :
    Gen.FnS.calendar_Lunar_GetTimePositionXi l = Gen.FnS.calendar_Lunar_GetTimePositionXi l' := by
  sc_congr [Gen.FnS.calendar_Lunar_GetTimePositionXi]

/-- `GetTimePositionYangGui` is a function of `timeGanIndex` -/
theorem lunarGetTimePositionYangGui_congr (l l' : Gen.FnS.Lunar) (h1 : l.timeGanIndex = l'.timeGanIndex) :
    Gen.FnS.calendar_Lunar_GetTimePositionYangGui l = Gen.FnS.calendar_Lunar_GetTimePositionYangGui l' := by
  sc_congr [Gen.FnS.calendar_Lunar_GetTimePositionYangGui]

/-- `GetTimePositionYinGui` is a function of `timeGanIndex` -/
theorem lunarGetTimePositionYinGui_congr (l l' : Gen.FnS.Lunar) (h1 : l.timeGanIndex = l'.timeGanIndex) :
    Gen.FnS.calendar_Lunar_GetTimePositionYinGui l = Gen.FnS.calendar_Lunar_GetTimePositionYinGui l' := by
  sc_congr [Gen.FnS.calendar_Lunar_GetTimePositionYinGui]

/-- `GetTimePositionFu` is a function of `timeGanIndex` -/
theorem lunarGetTimePositionFu_congr (l l' : Gen.FnS.Lunar) (h1 : l.timeGanIndex = l'.timeGanIndex) :
    Gen.FnS.calendar_Lunar_GetTimePositionFu l = Gen.FnS.calendar_Lunar_GetTimePositionFu l' := by
  sc_congr [Gen.FnS.calendar_Lunar_GetTimePositionFu]

/-- `GetTimePositionCai` is a function of `timeGanIndex` -/
theorem lunarGetTimePositionCai_congr (l l' : Gen.FnS.Lunar) (h1 : l.timeGanIndex = l'.timeGanIndex) :
    Gen.FnS.calendar_Lunar_GetTimePositionCai l = Gen.FnS.calendar_Lunar_GetTimePositionCai l' := by
  sc_congr [Gen.FnS.calendar_Lunar_GetTimePositionCai]

/-- `GetTimeChongGan` is a function of `timeGanIndex` -/
theorem lunarGetTimeChongGan_congr (l l' : Gen.FnS.Lunar) (h1 : l.timeGanIndex = l'.timeGanIndex) :
    Gen.FnS.calendar_Lunar_GetTimeChongGan l = Gen.FnS.calendar_Lunar_GetTimeChongGan l' := by
  sc_congr [Gen.FnS.calendar_Lunar_GetTimeChongGan]

/-- `GetTimeChongGanTie` is a function of `timeGanIndex` -/
theorem lunarGetTimeChongGanTie_congr (l l' : Gen.FnS.Lunar) (h1 : l.timeGanIndex = l'.timeGanIndex) :
    Gen.FnS.calendar_Lunar_GetTimeChongGanTie l = Gen.FnS.calendar_Lunar_GetTimeChongGanTie l' := by
  sc_congr [Gen.FnS.calendar_Lunar_GetTimeChongGanTie]

/-- `GetTimeChong` is a function of `timeZhiIndex` -/
theorem lunarGetTimeChong_congr (l l' : Gen.FnS.Lunar) (h1 : l.timeZhiIndex = l'.timeZhiIndex) :
    Gen.FnS.calendar_Lunar_GetTimeChong l = Gen.FnS.calendar_Lunar_GetTimeChong l' := by
  sc_congr [Gen.FnS.calendar_Lunar_GetTimeChong]

/-- `GetTimeChongShengXiao` is a function of `timeZhiIndex` -/
theorem lunarGetTimeChongShengXiao_congr (l l' : Gen.FnS.Lunar) (h1 : l.timeZhiIndex = l'.timeZhiIndex) :
    Gen.FnS.calendar_Lunar_GetTimeChongShengXiao l = Gen.FnS.calendar_Lunar_GetTimeChongShengXiao l' := by
  sc_congr [Gen.FnS.calendar_Lunar_GetTimeChongShengXiao, Gen.FnS.calendar_Lunar_GetTimeChong]

/-- `GetTimeSha` is a function of `timeZhiIndex` -/
theorem lunarGetTimeSha_congr (l l' : Gen.FnS.Lunar) (h1 : l.timeZhiIndex = l'.timeZhiIndex) :
    Gen.FnS.calendar_Lunar_GetTimeSha l = Gen.FnS.calendar_Lunar_GetTimeSha l' := by
  sc_congr [Gen.FnS.calendar_Lunar_GetTimeSha, Gen.FnS.calendar_Lunar_GetTimeZhi]

/-- `GetTimeChongDesc` is a function of `timeGanIndex`, `timeZhiIndex` -/
theorem lunarGetTimeChongDesc_congr (l l' : Gen.FnS.Lunar) (h1 : l.timeGanIndex = l'.timeGanIndex) (h2 : l.timeZhiIndex = l'.timeZhiIndex) :
    Gen.FnS.calendar_Lunar_GetTimeChongDesc l = Gen.FnS.calendar_Lunar_GetTimeChongDesc l' := by
  sc_congr [Gen.FnS.calendar_Lunar_GetTimeChongDesc, Gen.FnS.calendar_Lunar_GetTimeChongShengXiao, Gen.FnS.calendar_Lunar_GetTimeChong, Gen.FnS.calendar_Lunar_GetTimeChongGan]

/-- `GetTimeNaYin` is a function of `timeGanIndex`, `timeZhiIndex` -/
theorem lunarGetTimeNaYin_congr (l l' : Gen.FnS.Lunar) (h1 : l.timeGanIndex = l'.timeGanIndex) (h2 : l.timeZhiIndex = l'.timeZhiIndex) :
    Gen.FnS.calendar_Lunar_GetTimeNaYin l = Gen.FnS.calendar_Lunar_GetTimeNaYin l' := by
  sc_congr [Gen.FnS.calendar_Lunar_GetTimeNaYin, Gen.FnS.calendar_Lunar_GetTimeInGanZhi, Gen.FnS.calendar_Lunar_GetTimeZhi, Gen.FnS.calendar_Lunar_GetTimeGan]

/-- `GetTimeXun` is a function of `timeGanIndex`, `timeZhiIndex` -/
theorem lunarGetTimeXun_congr (l l' : Gen.FnS.Lunar) (h1 : l.timeGanIndex = l'.timeGanIndex) (h2 : l.timeZhiIndex = l'.timeZhiIndex) :
    Gen.FnS.calendar_Lunar_GetTimeXun l = Gen.FnS.calendar_Lunar_GetTimeXun l' := by
  sc_congr [Gen.FnS.calendar_Lunar_GetTimeXun, Gen.FnS.calendar_Lunar_GetTimeInGanZhi, Gen.FnS.calendar_Lunar_GetTimeZhi, Gen.FnS.calendar_Lunar_GetTimeGan]

/-- `GetTimeXunKong` is a function of `timeGanIndex`, `timeZhiIndex` -/
theorem lunarGetTimeXunKong_congr (l l' : Gen.FnS.Lunar) (h1 : l.timeGanIndex = l'.timeGanIndex) (h2 : l.timeZhiIndex = l'.timeZhiIndex) :
    Gen.FnS.calendar_Lunar_GetTimeXunKong l = Gen.FnS.calendar_Lunar_GetTimeXunKong l' := by
  sc_congr [Gen.FnS.calendar_Lunar_GetTimeXunKong, Gen.FnS.calendar_Lunar_GetTimeInGanZhi, Gen.FnS.calendar_Lunar_GetTimeZhi, Gen.FnS.calendar_Lunar_GetTimeGan]

/-- `GetTimeTianShen` is a function of `timeZhiIndex`, `dayZhiIndexExact` -/
theorem lunarGetTimeTianShen_congr (l l' : Gen.FnS.Lunar) (h1 : l.timeZhiIndex = l'.timeZhiIndex) (h2 : l.dayZhiIndexExact = l'.dayZhiIndexExact) :
    Gen.FnS.calendar_Lunar_GetTimeTianShen l = Gen.FnS.calendar_Lunar_GetTimeTianShen l' := by
  sc_congr [Gen.FnS.calendar_Lunar_GetTimeTianShen, Gen.FnS.calendar_Lunar_GetDayZhiExact]

/-- `GetTimeTianShenType` is a function of `timeZhiIndex`, `dayZhiIndexExact` -/
theorem lunarGetTimeTianShenType_congr (l l' : Gen.FnS.Lunar) (h1 : l.timeZhiIndex = l'.timeZhiIndex) (h2 : l.dayZhiIndexExact = l'.dayZhiIndexExact) :
    Gen.FnS.calendar_Lunar_GetTimeTianShenType l = Gen.FnS.calendar_Lunar_GetTimeTianShenType l' := by
  sc_congr [Gen.FnS.calendar_Lunar_GetTimeTianShenType, Gen.FnS.calendar_Lunar_GetTimeTianShen, Gen.FnS.calendar_Lunar_GetDayZhiExact]

/-- `GetTimeTianShenLuck` is a function of `timeZhiIndex`, `dayZhiIndexExact` -/
theorem lunarGetTimeTianShenLuck_congr (l l' : Gen.FnS.Lunar) (h1 : l.timeZhiIndex = l'.timeZhiIndex) (h2 : l.dayZhiIndexExact = l'.dayZhiIndexExact) :
    Gen.FnS.calendar_Lunar_GetTimeTianShenLuck l = Gen.FnS.calendar_Lunar_GetTimeTianShenLuck l' := by
  sc_congr [Gen.FnS.calendar_Lunar_GetTimeTianShenLuck, Gen.FnS.calendar_Lunar_GetTimeTianShenType, Gen.FnS.calendar_Lunar_GetTimeTianShen, Gen.FnS.calendar_Lunar_GetDayZhiExact]

/-- `GetYearNaYin` is a function of `yearGanIndex`, `yearZhiIndex` -/
theorem lunarGetYearNaYin_congr (l l' : Gen.FnS.Lunar) (h1 : l.yearGanIndex = l'.yearGanIndex) (h2 : l.yearZhiIndex = l'.yearZhiIndex) :
    Gen.FnS.calendar_Lunar_GetYearNaYin l = Gen.FnS.calendar_Lunar_GetYearNaYin l' := by
  sc_congr [Gen.FnS.calendar_Lunar_GetYearNaYin, Gen.FnS.calendar_Lunar_GetYearInGanZhi, Gen.FnS.calendar_Lunar_GetYearZhi, Gen.FnS.calendar_Lunar_GetYearGan]

/-- `GetYearXun` is a function of `yearGanIndex`, `yearZhiIndex` -/
theorem lunarGetYearXun_congr (l l' : Gen.FnS.Lunar) (h1 : l.yearGanIndex = l'.yearGanIndex) (h2 : l.yearZhiIndex = l'.yearZhiIndex) :
    Gen.FnS.calendar_Lunar_GetYearXun l = Gen.FnS.calendar_Lunar_GetYearXun l' := by
  sc_congr [Gen.FnS.calendar_Lunar_GetYearXun, Gen.FnS.calendar_Lunar_GetYearInGanZhi, Gen.FnS.calendar_Lunar_GetYearZhi, Gen.FnS.calendar_Lunar_GetYearGan]

/-- `GetYearXunKong` is a function of `yearGanIndex`, `yearZhiIndex` -/
theorem lunarGetYearXunKong_congr (l l' : Gen.FnS.Lunar) (h1 : l.yearGanIndex = l'.yearGanIndex) (h2 : l.yearZhiIndex = l'.yearZhiIndex) :
    Gen.FnS.calendar_Lunar_GetYearXunKong l = Gen.FnS.calendar_Lunar_GetYearXunKong l' := by
  sc_congr [Gen.FnS.calendar_Lunar_GetYearXunKong, Gen.FnS.calendar_Lunar_GetYearInGanZhi, Gen.FnS.calendar_Lunar_GetYearZhi, Gen.FnS.calendar_Lunar_GetYearGan]

/-- `GetYearShengXiao` is a function of `yearZhiIndex` -/
theorem lunarGetYearShengXiao_congr (l l' : Gen.FnS.Lunar) (h1 : l.yearZhiIndex = l'.yearZhiIndex) :
    Gen.FnS.calendar_Lunar_GetYearShengXiao l = Gen.FnS.calendar_Lunar_GetYearShengXiao l' := by
  sc_congr [Gen.FnS.calendar_Lunar_GetYearShengXiao]

/-- `GetYearShengXiaoByLiChun` is a function of `yearZhiIndexByLiChun` -/
theorem lunarGetYearShengXiaoByLiChun_congr (l l' : Gen.FnS.Lunar) (h1 : l.yearZhiIndexByLiChun = l'.yearZhiIndexByLiChun) :
    Gen.FnS.calendar_Lunar_GetYearShengXiaoByLiChun l = Gen.FnS.calendar_Lunar_GetYearShengXiaoByLiChun l' := by
  sc_congr [Gen.FnS.calendar_Lunar_GetYearShengXiaoByLiChun]

/-- `GetYearShengXiaoExact` is a function of `yearZhiIndexExact` -/
theorem lunarGetYearShengXiaoExact_congr (l l' : Gen.FnS.Lunar) (h1 : l.yearZhiIndexExact = l'.yearZhiIndexExact) :
    Gen.FnS.calendar_Lunar_GetYearShengXiaoExact l = Gen.FnS.calendar_Lunar_GetYearShengXiaoExact l' := by
  sc_congr [Gen.FnS.calendar_Lunar_GetYearShengXiaoExact]

/-- `GetYearXunByLiChun` is a function of `yearGanIndexByLiChun`, `yearZhiIndexByLiChun` -/
theorem lunarGetYearXunByLiChun_congr (l l' : Gen.FnS.Lunar) (h1 : l.yearGanIndexByLiChun = l'.yearGanIndexByLiChun) (h2 : l.yearZhiIndexByLiChun = l'.yearZhiIndexByLiChun) :
    Gen.FnS.calendar_Lunar_GetYearXunByLiChun l = Gen.FnS.calendar_Lunar_GetYearXunByLiChun l' := by
  sc_congr [Gen.FnS.calendar_Lunar_GetYearXunByLiChun, Gen.FnS.calendar_Lunar_GetYearInGanZhiByLiChun, Gen.FnS.calendar_Lunar_GetYearZhiByLiChun, Gen.FnS.calendar_Lunar_GetYearGanByLiChun]

/-- `GetYearXunKongByLiChun` is a function of `yearGanIndexByLiChun`, `yearZhiIndexByLiChun` -/
theorem lunarGetYearXunKongByLiChun_congr (l l' : Gen.FnS.Lunar) (h1 : l.yearGanIndexByLiChun = l'.yearGanIndexByLiChun) (h2 : l.yearZhiIndexByLiChun = l'.yearZhiIndexByLiChun) :
    Gen.FnS.calendar_Lunar_GetYearXunKongByLiChun l = Gen.FnS.calendar_Lunar_GetYearXunKongByLiChun l' := by
  sc_congr [Gen.FnS.calendar_Lunar_GetYearXunKongByLiChun, Gen.FnS.calendar_Lunar_GetYearInGanZhiByLiChun, Gen.FnS.calendar_Lunar_GetYearZhiByLiChun, Gen.FnS.calendar_Lunar_GetYearGanByLiChun]

/-- `GetYearXunExact` is a function of `yearGanIndexExact`, `yearZhiIndexExact` -/
theorem lunarGetYearXunExact_congr (l l' : Gen.FnS.Lunar) (h1 : l.yearGanIndexExact = l'.yearGanIndexExact) (h2 : l.yearZhiIndexExact = l'.yearZhiIndexExact) :
    Gen.FnS.calendar_Lunar_GetYearXunExact l = Gen.FnS.calendar_Lunar_GetYearXunExact l' := by
  sc_congr [Gen.FnS.calendar_Lunar_GetYearXunExact, Gen.FnS.calendar_Lunar_GetYearInGanZhiExact, Gen.FnS.calendar_Lunar_GetYearZhiExact, Gen.FnS.calendar_Lunar_GetYearGanExact]

/-- `GetYearXunKongExact` is a function of `yearGanIndexExact`, `yearZhiIndexExact` -/
theorem lunarGetYearXunKongExact_congr (l l' : Gen.FnS.Lunar) (h1 : l.yearGanIndexExact = l'.yearGanIndexExact) (h2 : l.yearZhiIndexExact = l'.yearZhiIndexExact) :
    Gen.FnS.calendar_Lunar_GetYearXunKongExact l = Gen.FnS.calendar_Lunar_GetYearXunKongExact l' := by
  sc_congr [Gen.FnS.calendar_Lunar_GetYearXunKongExact, Gen.FnS.calendar_Lunar_GetYearInGanZhiExact, Gen.FnS.calendar_Lunar_GetYearZhiExact, Gen.FnS.calendar_Lunar_GetYearGanExact]

/-- `GetMonthNaYin` is a function of `monthGanIndex`, `monthZhiIndex` -/
theorem lunarGetMonthNaYin_congr (l l' : Gen.FnS.Lunar) (h1 : l.monthGanIndex = l'.monthGanIndex) (h2 : l.monthZhiIndex = l'.monthZhiIndex) :
    Gen.FnS.calendar_Lunar_GetMonthNaYin l = Gen.FnS.calendar_Lunar_GetMonthNaYin l' := by
  sc_congr [Gen.FnS.calendar_Lunar_GetMonthNaYin, Gen.FnS.calendar_Lunar_GetMonthInGanZhi, Gen.FnS.calendar_Lunar_GetMonthZhi, Gen.FnS.calendar_Lunar_GetMonthGan]

/-- `GetMonthXun` is a function of `monthGanIndex`, `monthZhiIndex` -/
theorem lunarGetMonthXun_congr (l l' : Gen.FnS.Lunar) (h1 : l.monthGanIndex = l'.monthGanIndex) (h2 : l.monthZhiIndex = l'.monthZhiIndex) :
    Gen.FnS.calendar_Lunar_GetMonthXun l = Gen.FnS.calendar_Lunar_GetMonthXun l' := by
  sc_congr [Gen.FnS.calendar_Lunar_GetMonthXun, Gen.FnS.calendar_Lunar_GetMonthInGanZhi, Gen.FnS.calendar_Lunar_GetMonthZhi, Gen.FnS.calendar_Lunar_GetMonthGan]

/-- `GetMonthXunKong` is a function of `monthGanIndex`, `monthZhiIndex` -/
theorem lunarGetMonthXunKong_congr (l l' : Gen.FnS.Lunar) (h1 : l.monthGanIndex = l'.monthGanIndex) (h2 : l.monthZhiIndex = l'.monthZhiIndex) :
    Gen.FnS.calendar_Lunar_GetMonthXunKong l = Gen.FnS.calendar_Lunar_GetMonthXunKong l' := by
  sc_congr [Gen.FnS.calendar_Lunar_GetMonthXunKong, Gen.FnS.calendar_Lunar_GetMonthInGanZhi, Gen.FnS.calendar_Lunar_GetMonthZhi, Gen.FnS.calendar_Lunar_GetMonthGan]

/-- `GetMonthXunExact` is a function of `monthGanIndexExact`, `monthZhiIndexExact` -/
theorem lunarGetMonthXunExact_congr (l l' : Gen.FnS.Lunar) (h1 : l.monthGanIndexExact = l'.monthGanIndexExact) (h2 : l.monthZhiIndexExact = l'.monthZhiIndexExact) :
    Gen.FnS.calendar_Lunar_GetMonthXunExact l = Gen.FnS.calendar_Lunar_GetMonthXunExact l' := by
  sc_congr [Gen.FnS.calendar_Lunar_GetMonthXunExact, Gen.FnS.calendar_Lunar_GetMonthInGanZhiExact, Gen.FnS.calendar_Lunar_GetMonthZhiExact, Gen.FnS.calendar_Lunar_GetMonthGanExact]

/-- `GetMonthXunKongExact` is a function of `monthGanIndexExact`, `monthZhiIndexExact` -/
theorem lunarGetMonthXunKongExact_congr (l l' : Gen.FnS.Lunar) (h1 : l.monthGanIndexExact = l'.monthGanIndexExact) (h2 : l.monthZhiIndexExact = l'.monthZhiIndexExact) :
    Gen.FnS.calendar_Lunar_GetMonthXunKongExact l = Gen.FnS.calendar_Lunar_GetMonthXunKongExact l' := by
  sc_congr [Gen.FnS.calendar_Lunar_GetMonthXunKongExact, Gen.FnS.calendar_Lunar_GetMonthInGanZhiExact, Gen.FnS.calendar_Lunar_GetMonthZhiExact, Gen.FnS.calendar_Lunar_GetMonthGanExact]

/-- `GetMonthShengXiao` is a function of `monthZhiIndex` -/
theorem lunarGetMonthShengXiao_congr (l l' : Gen.FnS.Lunar) (h1 : l.monthZhiIndex = l'.monthZhiIndex) :
    Gen.FnS.calendar_Lunar_GetMonthShengXiao l = Gen.FnS.calendar_Lunar_GetMonthShengXiao l' := by
  sc_congr [Gen.FnS.calendar_Lunar_GetMonthShengXiao]
/-! ### `Gen.FnS.EightChar` accessors -/

/-- `EightChar.GetDayDiShi` is a function of `sect` and the lunar fields `dayGanIndexExact`, `dayGanIndexExact2`, `dayZhiIndexExact`, `dayZhiIndexExact2` -/
theorem eightCharGetDayDiShi_congr (e e' : Gen.FnS.EightChar) (hs : e.sect = e'.sect) (h1 : e.lunar.dayGanIndexExact = e'.lunar.dayGanIndexExact) (h2 : e.lunar.dayGanIndexExact2 = e'.lunar.dayGanIndexExact2) (h3 : e.lunar.dayZhiIndexExact = e'.lunar.dayZhiIndexExact) (h4 : e.lunar.dayZhiIndexExact2 = e'.lunar.dayZhiIndexExact2) :
    Gen.FnS.calendar_EightChar_GetDayDiShi e = Gen.FnS.calendar_EightChar_GetDayDiShi e' := by
  sc_congr [Gen.FnS.calendar_EightChar_GetDayDiShi, Gen.FnS.calendar_EightChar_getDiShi, Gen.FnS.calendar_EightChar_GetDayGanIndex, Gen.FnS.calendar_Lunar_GetDayGanIndexExact, Gen.FnS.calendar_Lunar_GetDayGanIndexExact2, Gen.FnS.calendar_EightChar_GetDayGan, Gen.FnS.calendar_Lunar_GetDayGanExact, Gen.FnS.calendar_Lunar_GetDayGanExact2, Gen.FnS.calendar_EightChar_GetDayZhiIndex, Gen.FnS.calendar_Lunar_GetDayZhiIndexExact, Gen.FnS.calendar_Lunar_GetDayZhiIndexExact2]

/-- `EightChar.GetYearDiShi` is a function of `sect` and the lunar fields `dayGanIndexExact`, `dayGanIndexExact2`, `yearZhiIndexExact` -/
theorem eightCharGetYearDiShi_congr (e e' : Gen.FnS.EightChar) (hs : e.sect = e'.sect) (h1 : e.lunar.dayGanIndexExact = e'.lunar.dayGanIndexExact) (h2 : e.lunar.dayGanIndexExact2 = e'.lunar.dayGanIndexExact2) (h3 : e.lunar.yearZhiIndexExact = e'.lunar.yearZhiIndexExact) :
    Gen.FnS.calendar_EightChar_GetYearDiShi e = Gen.FnS.calendar_EightChar_GetYearDiShi e' := by
  sc_congr [Gen.FnS.calendar_EightChar_GetYearDiShi, Gen.FnS.calendar_EightChar_getDiShi, Gen.FnS.calendar_EightChar_GetDayGanIndex, Gen.FnS.calendar_Lunar_GetDayGanIndexExact, Gen.FnS.calendar_Lunar_GetDayGanIndexExact2, Gen.FnS.calendar_EightChar_GetDayGan, Gen.FnS.calendar_Lunar_GetDayGanExact, Gen.FnS.calendar_Lunar_GetDayGanExact2, Gen.FnS.calendar_Lunar_GetYearZhiIndexExact]

/-- `EightChar.GetMonthDiShi` is a function of `sect` and the lunar fields `dayGanIndexExact`, `dayGanIndexExact2`, `monthZhiIndexExact` -/
theorem eightCharGetMonthDiShi_congr (e e' : Gen.FnS.EightChar) (hs : e.sect = e'.sect) (h1 : e.lunar.dayGanIndexExact = e'.lunar.dayGanIndexExact) (h2 : e.lunar.dayGanIndexExact2 = e'.lunar.dayGanIndexExact2) (h3 : e.lunar.monthZhiIndexExact = e'.lunar.monthZhiIndexExact) :
    Gen.FnS.calendar_EightChar_GetMonthDiShi e = Gen.FnS.calendar_EightChar_GetMonthDiShi e' := by
  sc_congr [Gen.FnS.calendar_EightChar_GetMonthDiShi, Gen.FnS.calendar_EightChar_getDiShi, Gen.FnS.calendar_EightChar_GetDayGanIndex, Gen.FnS.calendar_Lunar_GetDayGanIndexExact, Gen.FnS.calendar_Lunar_GetDayGanIndexExact2, Gen.FnS.calendar_EightChar_GetDayGan, Gen.FnS.calendar_Lunar_GetDayGanExact, Gen.FnS.calendar_Lunar_GetDayGanExact2, Gen.FnS.calendar_Lunar_GetMonthZhiIndexExact]

/-- `EightChar.GetTimeDiShi` is a function of `sect` and the lunar fields `dayGanIndexExact`, `dayGanIndexExact2`, `timeZhiIndex` -/
theorem eightCharGetTimeDiShi_congr (e e' : Gen.FnS.EightChar) (hs : e.sect = e'.sect) (h1 : e.lunar.dayGanIndexExact = e'.lunar.dayGanIndexExact) (h2 : e.lunar.dayGanIndexExact2 = e'.lunar.dayGanIndexExact2) (h3 : e.lunar.timeZhiIndex = e'.lunar.timeZhiIndex) :
    Gen.FnS.calendar_EightChar_GetTimeDiShi e = Gen.FnS.calendar_EightChar_GetTimeDiShi e' := by
  sc_congr [Gen.FnS.calendar_EightChar_GetTimeDiShi, Gen.FnS.calendar_EightChar_getDiShi, Gen.FnS.calendar_EightChar_GetDayGanIndex, Gen.FnS.calendar_Lunar_GetDayGanIndexExact, Gen.FnS.calendar_Lunar_GetDayGanIndexExact2, Gen.FnS.calendar_EightChar_GetDayGan, Gen.FnS.calendar_Lunar_GetDayGanExact, Gen.FnS.calendar_Lunar_GetDayGanExact2, Gen.FnS.calendar_Lunar_GetTimeZhiIndex]

/-- `EightChar.GetDayWuXing` is a function of `sect` and the lunar fields `dayGanIndexExact`, `dayGanIndexExact2`, `dayZhiIndexExact`, `dayZhiIndexExact2` -/
theorem eightCharGetDayWuXing_congr (e e' : Gen.FnS.EightChar) (hs : e.sect = e'.sect) (h1 : e.lunar.dayGanIndexExact = e'.lunar.dayGanIndexExact) (h2 : e.lunar.dayGanIndexExact2 = e'.lunar.dayGanIndexExact2) (h3 : e.lunar.dayZhiIndexExact = e'.lunar.dayZhiIndexExact) (h4 : e.lunar.dayZhiIndexExact2 = e'.lunar.dayZhiIndexExact2) :
    Gen.FnS.calendar_EightChar_GetDayWuXing e = Gen.FnS.calendar_EightChar_GetDayWuXing e' := by
  sc_congr [Gen.FnS.calendar_EightChar_GetDayWuXing, Gen.FnS.calendar_EightChar_GetDayZhi, Gen.FnS.calendar_Lunar_GetDayZhiExact, Gen.FnS.calendar_Lunar_GetDayZhiExact2, Gen.FnS.calendar_EightChar_GetDayGan, Gen.FnS.calendar_Lunar_GetDayGanExact, Gen.FnS.calendar_Lunar_GetDayGanExact2]

/-- `EightChar.GetDayNaYin` is a function of `sect` and the lunar fields `dayGanIndexExact`, `dayGanIndexExact2`, `dayZhiIndexExact`, `dayZhiIndexExact2` -/
theorem eightCharGetDayNaYin_congr (e e' : Gen.FnS.EightChar) (hs : e.sect = e'.sect) (h1 : e.lunar.dayGanIndexExact = e'.lunar.dayGanIndexExact) (h2 : e.lunar.dayGanIndexExact2 = e'.lunar.dayGanIndexExact2) (h3 : e.lunar.dayZhiIndexExact = e'.lunar.dayZhiIndexExact) (h4 : e.lunar.dayZhiIndexExact2 = e'.lunar.dayZhiIndexExact2) :
    Gen.FnS.calendar_EightChar_GetDayNaYin e = Gen.FnS.calendar_EightChar_GetDayNaYin e' := by
  sc_congr [Gen.FnS.calendar_EightChar_GetDayNaYin, Gen.FnS.calendar_EightChar_GetDay, Gen.FnS.calendar_Lunar_GetDayInGanZhiExact, Gen.FnS.calendar_Lunar_GetDayZhiExact, Gen.FnS.calendar_Lunar_GetDayGanExact, Gen.FnS.calendar_Lunar_GetDayInGanZhiExact2, Gen.FnS.calendar_Lunar_GetDayZhiExact2, Gen.FnS.calendar_Lunar_GetDayGanExact2]
section AxiomAudit
#print axioms lunarGetDayPositionXi_congr
#print axioms lunarGetDayPositionXiDesc_congr
#print axioms lunarGetDayPositionYangGui_congr
#print axioms lunarGetDayPositionYangGuiDesc_congr
#print axioms lunarGetDayPositionYinGui_congr
#print axioms lunarGetDayPositionYinGuiDesc_congr
#print axioms lunarGetDayPositionFu_congr
#print axioms lunarGetDayPositionFuDesc_congr
#print axioms lunarGetDayPositionCai_congr
#print axioms lunarGetDayPositionCaiDesc_congr
#print axioms lunarGetPengZuGan_congr
#print axioms lunarGetDayChongGan_congr
#print axioms lunarGetDayChongGanTie_congr
#print axioms lunarGetPengZuZhi_congr
#print axioms lunarGetDayChong_congr
#print axioms lunarGetDayChongShengXiao_congr
#print axioms lunarGetDaySha_congr
#print axioms lunarGetDayShengXiao_congr
#print axioms lunarGetDayChongDesc_congr
#print axioms lunarGetDayNaYin_congr
#print axioms lunarGetDayPositionTai_congr
#print axioms lunarGetDayLu_congr
#print axioms lunarGetDayXun_congr
#print axioms lunarGetDayXunKong_congr
#print axioms lunarGetZhiXing_congr
#print axioms lunarGetDayTianShen_congr
#print axioms lunarGetDayTianShenType_congr
#print axioms lunarGetDayTianShenLuck_congr
#print axioms lunarGetXiu_congr
#print axioms lunarGetXiuLuck_congr
#print axioms lunarGetXiuSong_congr
#print axioms lunarGetZheng_congr
#print axioms lunarGetAnimal_congr
#print axioms lunarGetGong_congr
#print axioms lunarGetShou_congr
#print axioms lunarGetLiuYao_congr
#print axioms lunarGetYueXiang_congr
#print axioms lunarGetSeason_congr
#print axioms lunarGetMonthPositionTai_congr
#print axioms lunarGetTimePositionXi_congr
#print axioms lunarGetTimePositionYangGui_congr
#print axioms lunarGetTimePositionYinGui_congr
#print axioms lunarGetTimePositionFu_congr
#print axioms lunarGetTimePositionCai_congr
#print axioms lunarGetTimeChongGan_congr
#print axioms lunarGetTimeChongGanTie_congr
#print axioms lunarGetTimeChong_congr
#print axioms lunarGetTimeChongShengXiao_congr
#print axioms lunarGetTimeSha_congr
#print axioms lunarGetTimeChongDesc_congr
#print axioms lunarGetTimeNaYin_congr
#print axioms lunarGetTimeXun_congr
#print axioms lunarGetTimeXunKong_congr
#print axioms lunarGetTimeTianShen_congr
#print axioms lunarGetTimeTianShenType_congr
#print axioms lunarGetTimeTianShenLuck_congr
#print axioms lunarGetYearNaYin_congr
#print axioms lunarGetYearXun_congr
#print axioms lunarGetYearXunKong_congr
#print axioms lunarGetYearShengXiao_congr
#print axioms lunarGetYearShengXiaoByLiChun_congr
#print axioms lunarGetYearShengXiaoExact_congr
#print axioms lunarGetYearXunByLiChun_congr
#print axioms lunarGetYearXunKongByLiChun_congr
#print axioms lunarGetYearXunExact_congr
#print axioms lunarGetYearXunKongExact_congr
#print axioms lunarGetMonthNaYin_congr
#print axioms lunarGetMonthXun_congr
#print axioms lunarGetMonthXunKong_congr
#print axioms lunarGetMonthXunExact_congr
#print axioms lunarGetMonthXunKongExact_congr
#print axioms lunarGetMonthShengXiao_congr
#print axioms eightCharGetDayDiShi_congr
#print axioms eightCharGetYearDiShi_congr
#print axioms eightCharGetMonthDiShi_congr
#print axioms eightCharGetTimeDiShi_congr
#print axioms eightCharGetDayWuXing_congr
#print axioms eightCharGetDayNaYin_congr
end AxiomAudit

end FnSEq
