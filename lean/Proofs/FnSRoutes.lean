/-
Proofs.FnSRoutes — "two routes to the same quantity agree", stated DIRECTLY between generated functions of
the string-mode translation (`Gen.FnS`), no hand model involved:

  1. the hour's attributes read from the hour object (`calendar_LunarTime_GetX lt`) equal those read from the
     lunar date (`calendar_Lunar_GetTimeX l`) whenever `lt` is the hour object of `l`
     (`lt.ganIndex = l.timeGanIndex`, `lt.zhiIndex = l.timeZhiIndex`, `lt.lunar = l` — what `NewLunarTime`
     establishes; `NewLunarTime` / `Lunar.GetTime` are not in `Gen/FnS.lean`, so the relation is a hypothesis);
  2. the eight-character object's pillars (and the attributes derived from them) equal the lunar date's;
  3. the deprecated / convenience aliases equal their targets.

All statements are guard-free: both sides fail (panic) on exactly the same inputs.  Helper prefix `sr_`.
-/
import Proofs.FnS1
import Proofs.FnS2
import Proofs.FnS3
import Proofs.FnSDecoders
import Proofs.FnSStars

namespace FnSEq
open Gen.Fn (Err)

/-! ### 0. helpers -/

/- note: the elaborator already reduces `do let t ← x; return t` to `x`, so every pure alias is `x` by `rfl` after `unfold`. -/

/-- the relation between an hour object and the lunar date it was built from (established by Go's `NewLunarTime`) -/
structure sr_HourOf (lt : Gen.FnS.LunarTime) (l : Gen.FnS.Lunar) : Prop where
  gan : lt.ganIndex = l.timeGanIndex
  zhi : lt.zhiIndex = l.timeZhiIndex
  lunar : lt.lunar = l

/-! ### 1. hour object vs lunar date -/

section hour
variable {lt : Gen.FnS.LunarTime} {l : Gen.FnS.Lunar}

theorem lunarTimeGetGanIndex_eq_lunarGetTimeGanIndex (h : sr_HourOf lt l) :
    Gen.FnS.calendar_LunarTime_GetGanIndex lt = Gen.FnS.calendar_Lunar_GetTimeGanIndex l := by
  unfold Gen.FnS.calendar_LunarTime_GetGanIndex Gen.FnS.calendar_Lunar_GetTimeGanIndex; rw [h.gan]

theorem lunarTimeGetZhiIndex_eq_lunarGetTimeZhiIndex (h : sr_HourOf lt l) :
    Gen.FnS.calendar_LunarTime_GetZhiIndex lt = Gen.FnS.calendar_Lunar_GetTimeZhiIndex l := by
  unfold Gen.FnS.calendar_LunarTime_GetZhiIndex Gen.FnS.calendar_Lunar_GetTimeZhiIndex; rw [h.zhi]

theorem lunarTimeGetGan_eq_lunarGetTimeGan (h : sr_HourOf lt l) :
    Gen.FnS.calendar_LunarTime_GetGan lt = Gen.FnS.calendar_Lunar_GetTimeGan l := by
  unfold Gen.FnS.calendar_LunarTime_GetGan Gen.FnS.calendar_Lunar_GetTimeGan; rw [h.gan]

theorem lunarTimeGetZhi_eq_lunarGetTimeZhi (h : sr_HourOf lt l) :
    Gen.FnS.calendar_LunarTime_GetZhi lt = Gen.FnS.calendar_Lunar_GetTimeZhi l := by
  unfold Gen.FnS.calendar_LunarTime_GetZhi Gen.FnS.calendar_Lunar_GetTimeZhi; rw [h.zhi]

theorem lunarTimeGetGanZhi_eq_lunarGetTimeInGanZhi (h : sr_HourOf lt l) :
    Gen.FnS.calendar_LunarTime_GetGanZhi lt = Gen.FnS.calendar_Lunar_GetTimeInGanZhi l := by
  unfold Gen.FnS.calendar_LunarTime_GetGanZhi Gen.FnS.calendar_Lunar_GetTimeInGanZhi
  rw [lunarTimeGetGan_eq_lunarGetTimeGan h, lunarTimeGetZhi_eq_lunarGetTimeZhi h]

theorem lunarTimeToString_eq_lunarGetTimeInGanZhi (h : sr_HourOf lt l) :
    Gen.FnS.calendar_LunarTime_ToString lt = Gen.FnS.calendar_Lunar_GetTimeInGanZhi l := by
  unfold Gen.FnS.calendar_LunarTime_ToString
  rw [lunarTimeGetGanZhi_eq_lunarGetTimeInGanZhi h]

theorem lunarTimeString_eq_lunarGetTimeInGanZhi (h : sr_HourOf lt l) :
    Gen.FnS.calendar_LunarTime_String lt = Gen.FnS.calendar_Lunar_GetTimeInGanZhi l := by
  unfold Gen.FnS.calendar_LunarTime_String
  rw [lunarTimeToString_eq_lunarGetTimeInGanZhi h]

theorem lunarTimeGetShengXiao_eq_lunarGetTimeShengXiao (h : sr_HourOf lt l) :
    Gen.FnS.calendar_LunarTime_GetShengXiao lt = Gen.FnS.calendar_Lunar_GetTimeShengXiao l := by
  unfold Gen.FnS.calendar_LunarTime_GetShengXiao Gen.FnS.calendar_Lunar_GetTimeShengXiao; rw [h.zhi]

/-! #### positions -/

theorem lunarTimeGetPositionXi_eq_lunarGetTimePositionXi (h : sr_HourOf lt l) :
    Gen.FnS.calendar_LunarTime_GetPositionXi lt = Gen.FnS.calendar_Lunar_GetTimePositionXi l := by
  unfold Gen.FnS.calendar_LunarTime_GetPositionXi Gen.FnS.calendar_Lunar_GetTimePositionXi; rw [h.gan]

theorem lunarTimeGetPositionXiDesc_eq_lunarGetTimePositionXiDesc (h : sr_HourOf lt l) :
    Gen.FnS.calendar_LunarTime_GetPositionXiDesc lt = Gen.FnS.calendar_Lunar_GetTimePositionXiDesc l := by
  unfold Gen.FnS.calendar_LunarTime_GetPositionXiDesc Gen.FnS.calendar_Lunar_GetTimePositionXiDesc
  rw [lunarTimeGetPositionXi_eq_lunarGetTimePositionXi h]

theorem lunarTimeGetPositionYangGui_eq_lunarGetTimePositionYangGui (h : sr_HourOf lt l) :
    Gen.FnS.calendar_LunarTime_GetPositionYangGui lt = Gen.FnS.calendar_Lunar_GetTimePositionYangGui l := by
  unfold Gen.FnS.calendar_LunarTime_GetPositionYangGui Gen.FnS.calendar_Lunar_GetTimePositionYangGui; rw [h.gan]

theorem lunarTimeGetPositionYangGuiDesc_eq_lunarGetTimePositionYangGuiDesc (h : sr_HourOf lt l) :
    Gen.FnS.calendar_LunarTime_GetPositionYangGuiDesc lt = Gen.FnS.calendar_Lunar_GetTimePositionYangGuiDesc l := by
  unfold Gen.FnS.calendar_LunarTime_GetPositionYangGuiDesc Gen.FnS.calendar_Lunar_GetTimePositionYangGuiDesc
  rw [lunarTimeGetPositionYangGui_eq_lunarGetTimePositionYangGui h]

theorem lunarTimeGetPositionYinGui_eq_lunarGetTimePositionYinGui (h : sr_HourOf lt l) :
    Gen.FnS.calendar_LunarTime_GetPositionYinGui lt = Gen.FnS.calendar_Lunar_GetTimePositionYinGui l := by
  unfold Gen.FnS.calendar_LunarTime_GetPositionYinGui Gen.FnS.calendar_Lunar_GetTimePositionYinGui; rw [h.gan]

theorem lunarTimeGetPositionYinGuiDesc_eq_lunarGetTimePositionYinGuiDesc (h : sr_HourOf lt l) :
    Gen.FnS.calendar_LunarTime_GetPositionYinGuiDesc lt = Gen.FnS.calendar_Lunar_GetTimePositionYinGuiDesc l := by
  unfold Gen.FnS.calendar_LunarTime_GetPositionYinGuiDesc Gen.FnS.calendar_Lunar_GetTimePositionYinGuiDesc
  rw [lunarTimeGetPositionYinGui_eq_lunarGetTimePositionYinGui h]

/-- the hour object's `GetPositionFuBySect` at the default sect 2 reads the table `POSITION_FU_2`, as `Lunar.GetTimePositionFu` does -/
theorem lunarTimeGetPositionFu_eq_lunarGetTimePositionFu (h : sr_HourOf lt l) :
    Gen.FnS.calendar_LunarTime_GetPositionFu lt = Gen.FnS.calendar_Lunar_GetTimePositionFu l := by
  unfold Gen.FnS.calendar_LunarTime_GetPositionFu Gen.FnS.calendar_LunarTime_GetPositionFuBySect
    Gen.FnS.calendar_Lunar_GetTimePositionFu
  rw [h.gan]; rfl

theorem lunarTimeGetPositionFuDesc_eq_lunarGetTimePositionFuDesc (h : sr_HourOf lt l) :
    Gen.FnS.calendar_LunarTime_GetPositionFuDesc lt = Gen.FnS.calendar_Lunar_GetTimePositionFuDesc l := by
  have h2 : Gen.FnS.calendar_LunarTime_GetPositionFuBySect lt 2 = Gen.FnS.calendar_Lunar_GetTimePositionFu l := by
    rw [← lunarTimeGetPositionFu_eq_lunarGetTimePositionFu h]
    rfl
  unfold Gen.FnS.calendar_LunarTime_GetPositionFuDesc Gen.FnS.calendar_LunarTime_GetPositionFuDescBySect
    Gen.FnS.calendar_Lunar_GetTimePositionFuDesc
  rw [h2]

theorem lunarTimeGetPositionCai_eq_lunarGetTimePositionCai (h : sr_HourOf lt l) :
    Gen.FnS.calendar_LunarTime_GetPositionCai lt = Gen.FnS.calendar_Lunar_GetTimePositionCai l := by
  unfold Gen.FnS.calendar_LunarTime_GetPositionCai Gen.FnS.calendar_Lunar_GetTimePositionCai; rw [h.gan]

theorem lunarTimeGetPositionCaiDesc_eq_lunarGetTimePositionCaiDesc (h : sr_HourOf lt l) :
    Gen.FnS.calendar_LunarTime_GetPositionCaiDesc lt = Gen.FnS.calendar_Lunar_GetTimePositionCaiDesc l := by
  unfold Gen.FnS.calendar_LunarTime_GetPositionCaiDesc Gen.FnS.calendar_Lunar_GetTimePositionCaiDesc
  rw [lunarTimeGetPositionCai_eq_lunarGetTimePositionCai h]

/-! #### sound, day spirit, clash -/

theorem lunarTimeGetNaYin_eq_lunarGetTimeNaYin (h : sr_HourOf lt l) :
    Gen.FnS.calendar_LunarTime_GetNaYin lt = Gen.FnS.calendar_Lunar_GetTimeNaYin l := by
  unfold Gen.FnS.calendar_LunarTime_GetNaYin Gen.FnS.calendar_Lunar_GetTimeNaYin
  rw [lunarTimeGetGanZhi_eq_lunarGetTimeInGanZhi h]

theorem lunarTimeGetTianShen_eq_lunarGetTimeTianShen (h : sr_HourOf lt l) :
    Gen.FnS.calendar_LunarTime_GetTianShen lt = Gen.FnS.calendar_Lunar_GetTimeTianShen l := by
  unfold Gen.FnS.calendar_LunarTime_GetTianShen Gen.FnS.calendar_Lunar_GetTimeTianShen
  rw [h.zhi, h.lunar]

theorem lunarTimeGetTianShenType_eq_lunarGetTimeTianShenType (h : sr_HourOf lt l) :
    Gen.FnS.calendar_LunarTime_GetTianShenType lt = Gen.FnS.calendar_Lunar_GetTimeTianShenType l := by
  unfold Gen.FnS.calendar_LunarTime_GetTianShenType Gen.FnS.calendar_Lunar_GetTimeTianShenType
  rw [lunarTimeGetTianShen_eq_lunarGetTimeTianShen h]

theorem lunarTimeGetTianShenLuck_eq_lunarGetTimeTianShenLuck (h : sr_HourOf lt l) :
    Gen.FnS.calendar_LunarTime_GetTianShenLuck lt = Gen.FnS.calendar_Lunar_GetTimeTianShenLuck l := by
  unfold Gen.FnS.calendar_LunarTime_GetTianShenLuck Gen.FnS.calendar_Lunar_GetTimeTianShenLuck
  rw [lunarTimeGetTianShenType_eq_lunarGetTimeTianShenType h]

theorem lunarTimeGetChong_eq_lunarGetTimeChong (h : sr_HourOf lt l) :
    Gen.FnS.calendar_LunarTime_GetChong lt = Gen.FnS.calendar_Lunar_GetTimeChong l := by
  unfold Gen.FnS.calendar_LunarTime_GetChong Gen.FnS.calendar_Lunar_GetTimeChong; rw [h.zhi]

theorem lunarTimeGetSha_eq_lunarGetTimeSha (h : sr_HourOf lt l) :
    Gen.FnS.calendar_LunarTime_GetSha lt = Gen.FnS.calendar_Lunar_GetTimeSha l := by
  unfold Gen.FnS.calendar_LunarTime_GetSha Gen.FnS.calendar_Lunar_GetTimeSha
  rw [lunarTimeGetZhi_eq_lunarGetTimeZhi h]

theorem lunarTimeGetChongGan_eq_lunarGetTimeChongGan (h : sr_HourOf lt l) :
    Gen.FnS.calendar_LunarTime_GetChongGan lt = Gen.FnS.calendar_Lunar_GetTimeChongGan l := by
  unfold Gen.FnS.calendar_LunarTime_GetChongGan Gen.FnS.calendar_Lunar_GetTimeChongGan; rw [h.gan]

theorem lunarTimeGetChongGanTie_eq_lunarGetTimeChongGanTie (h : sr_HourOf lt l) :
    Gen.FnS.calendar_LunarTime_GetChongGanTie lt = Gen.FnS.calendar_Lunar_GetTimeChongGanTie l := by
  unfold Gen.FnS.calendar_LunarTime_GetChongGanTie Gen.FnS.calendar_Lunar_GetTimeChongGanTie; rw [h.gan]

/-- both functions run the same search loop over `ZHI` on the same clash string -/
theorem lunarTimeGetChongShengXiao_eq_lunarGetTimeChongShengXiao (h : sr_HourOf lt l) :
    Gen.FnS.calendar_LunarTime_GetChongShengXiao lt = Gen.FnS.calendar_Lunar_GetTimeChongShengXiao l := by
  unfold Gen.FnS.calendar_LunarTime_GetChongShengXiao Gen.FnS.calendar_Lunar_GetTimeChongShengXiao
  rw [lunarTimeGetChong_eq_lunarGetTimeChong h]

theorem lunarTimeGetChongDesc_eq_lunarGetTimeChongDesc (h : sr_HourOf lt l) :
    Gen.FnS.calendar_LunarTime_GetChongDesc lt = Gen.FnS.calendar_Lunar_GetTimeChongDesc l := by
  unfold Gen.FnS.calendar_LunarTime_GetChongDesc Gen.FnS.calendar_Lunar_GetTimeChongDesc
  rw [lunarTimeGetChongGan_eq_lunarGetTimeChongGan h, lunarTimeGetChong_eq_lunarGetTimeChong h,
    lunarTimeGetChongShengXiao_eq_lunarGetTimeChongShengXiao h]

/-! #### decade (xun), void branches, suitable / avoid lists -/

theorem lunarTimeGetXun_eq_lunarGetTimeXun (h : sr_HourOf lt l) :
    Gen.FnS.calendar_LunarTime_GetXun lt = Gen.FnS.calendar_Lunar_GetTimeXun l := by
  unfold Gen.FnS.calendar_LunarTime_GetXun Gen.FnS.calendar_Lunar_GetTimeXun
  rw [lunarTimeGetGanZhi_eq_lunarGetTimeInGanZhi h]

theorem lunarTimeGetXunKong_eq_lunarGetTimeXunKong (h : sr_HourOf lt l) :
    Gen.FnS.calendar_LunarTime_GetXunKong lt = Gen.FnS.calendar_Lunar_GetTimeXunKong l := by
  unfold Gen.FnS.calendar_LunarTime_GetXunKong Gen.FnS.calendar_Lunar_GetTimeXunKong
  rw [lunarTimeGetGanZhi_eq_lunarGetTimeInGanZhi h]

/-- re-export of `lunarTimeGetYi_eq_lunarGetTimeYi` (FnSDecoders) in the `sr_HourOf` form -/
theorem lunarTimeGetYi_eq_lunarGetTimeYi' (h : sr_HourOf lt l) :
    Gen.FnS.calendar_LunarTime_GetYi lt = Gen.FnS.calendar_Lunar_GetTimeYi l := by
  have := lunarTimeGetYi_eq_lunarGetTimeYi lt (by rw [h.lunar]; exact h.gan) (by rw [h.lunar]; exact h.zhi)
  rw [this, h.lunar]

/-- re-export of `lunarTimeGetJi_eq_lunarGetTimeJi` (FnSDecoders) in the `sr_HourOf` form -/
theorem lunarTimeGetJi_eq_lunarGetTimeJi' (h : sr_HourOf lt l) :
    Gen.FnS.calendar_LunarTime_GetJi lt = Gen.FnS.calendar_Lunar_GetTimeJi l := by
  have := lunarTimeGetJi_eq_lunarGetTimeJi lt (by rw [h.lunar]; exact h.gan) (by rw [h.lunar]; exact h.zhi)
  rw [this, h.lunar]

end hour

/-! ### 2. eight-character object vs lunar date -/

section eightChar
variable (e : Gen.FnS.EightChar)

/-- the constructor stores the lunar date and selects sect 2 -/
theorem newEightChar_eq (l : Gen.FnS.Lunar) :
    Gen.FnS.calendar_NewEightChar l = .ok { sect := 2, lunar := l } := rfl


/-! #### year -/

theorem eightCharGetYear_eq_lunarGetYearInGanZhiExact :
    Gen.FnS.calendar_EightChar_GetYear e = Gen.FnS.calendar_Lunar_GetYearInGanZhiExact e.lunar := by
  unfold Gen.FnS.calendar_EightChar_GetYear; rfl

theorem eightCharGetYearGan_eq_lunarGetYearGanExact :
    Gen.FnS.calendar_EightChar_GetYearGan e = Gen.FnS.calendar_Lunar_GetYearGanExact e.lunar := by
  unfold Gen.FnS.calendar_EightChar_GetYearGan; rfl

theorem eightCharGetYearZhi_eq_lunarGetYearZhiExact :
    Gen.FnS.calendar_EightChar_GetYearZhi e = Gen.FnS.calendar_Lunar_GetYearZhiExact e.lunar := by
  unfold Gen.FnS.calendar_EightChar_GetYearZhi; rfl

theorem eightCharGetYearXun_eq_lunarGetYearXunExact :
    Gen.FnS.calendar_EightChar_GetYearXun e = Gen.FnS.calendar_Lunar_GetYearXunExact e.lunar := by
  unfold Gen.FnS.calendar_EightChar_GetYearXun; rfl

theorem eightCharGetYearXunKong_eq_lunarGetYearXunKongExact :
    Gen.FnS.calendar_EightChar_GetYearXunKong e = Gen.FnS.calendar_Lunar_GetYearXunKongExact e.lunar := by
  unfold Gen.FnS.calendar_EightChar_GetYearXunKong; rfl

/-- `Lunar` has no `GetYearNaYinExact`: the object's year sound is the `NAYIN` entry of the lunar date's EXACT year pillar -/
theorem eightCharGetYearNaYin_route :
    Gen.FnS.calendar_EightChar_GetYearNaYin e
      = (Gen.FnS.calendar_Lunar_GetYearInGanZhiExact e.lunar >>= fun p =>
          pure (Gen.FnS.mlookupS Gen.Tables.LunarUtil.«NAYIN» p)) := by
  unfold Gen.FnS.calendar_EightChar_GetYearNaYin
  rw [eightCharGetYear_eq_lunarGetYearInGanZhiExact]

/-- it is `Lunar.GetYearNaYin` (which reads the lunar-new-year-based pillar) exactly when the exact (Lichun-instant) year
indices coincide with the lunar-year ones -/
theorem eightCharGetYearNaYin_eq_lunarGetYearNaYin
    (hg : e.lunar.yearGanIndexExact = e.lunar.yearGanIndex) (hz : e.lunar.yearZhiIndexExact = e.lunar.yearZhiIndex) :
    Gen.FnS.calendar_EightChar_GetYearNaYin e = Gen.FnS.calendar_Lunar_GetYearNaYin e.lunar := by
  rw [eightCharGetYearNaYin_route]
  unfold Gen.FnS.calendar_Lunar_GetYearNaYin Gen.FnS.calendar_Lunar_GetYearInGanZhiExact
    Gen.FnS.calendar_Lunar_GetYearInGanZhi Gen.FnS.calendar_Lunar_GetYearGanExact Gen.FnS.calendar_Lunar_GetYearZhiExact
    Gen.FnS.calendar_Lunar_GetYearGan Gen.FnS.calendar_Lunar_GetYearZhi
  rw [hg, hz]

/-- `Lunar` has no `GetYearWuXing`: the object's year elements are the `WU_XING_GAN` / `WU_XING_ZHI` entries of the lunar
date's exact year stem and branch -/
theorem eightCharGetYearWuXing_route :
    Gen.FnS.calendar_EightChar_GetYearWuXing e
      = (Gen.FnS.calendar_Lunar_GetYearGanExact e.lunar >>= fun g =>
         Gen.FnS.calendar_Lunar_GetYearZhiExact e.lunar >>= fun z =>
          pure (Gen.FnS.mlookupS Gen.Tables.LunarUtil.«WU_XING_GAN» g ++ Gen.FnS.mlookupS Gen.Tables.LunarUtil.«WU_XING_ZHI» z)) := by
  unfold Gen.FnS.calendar_EightChar_GetYearWuXing
  rw [eightCharGetYearGan_eq_lunarGetYearGanExact, eightCharGetYearZhi_eq_lunarGetYearZhiExact]

/-! #### month -/

theorem eightCharGetMonth_eq_lunarGetMonthInGanZhiExact :
    Gen.FnS.calendar_EightChar_GetMonth e = Gen.FnS.calendar_Lunar_GetMonthInGanZhiExact e.lunar := by
  unfold Gen.FnS.calendar_EightChar_GetMonth; rfl

theorem eightCharGetMonthGan_eq_lunarGetMonthGanExact :
    Gen.FnS.calendar_EightChar_GetMonthGan e = Gen.FnS.calendar_Lunar_GetMonthGanExact e.lunar := by
  unfold Gen.FnS.calendar_EightChar_GetMonthGan; rfl

theorem eightCharGetMonthZhi_eq_lunarGetMonthZhiExact :
    Gen.FnS.calendar_EightChar_GetMonthZhi e = Gen.FnS.calendar_Lunar_GetMonthZhiExact e.lunar := by
  unfold Gen.FnS.calendar_EightChar_GetMonthZhi; rfl

theorem eightCharGetMonthXun_eq_lunarGetMonthXunExact :
    Gen.FnS.calendar_EightChar_GetMonthXun e = Gen.FnS.calendar_Lunar_GetMonthXunExact e.lunar := by
  unfold Gen.FnS.calendar_EightChar_GetMonthXun; rfl

theorem eightCharGetMonthXunKong_eq_lunarGetMonthXunKongExact :
    Gen.FnS.calendar_EightChar_GetMonthXunKong e = Gen.FnS.calendar_Lunar_GetMonthXunKongExact e.lunar := by
  unfold Gen.FnS.calendar_EightChar_GetMonthXunKong; rfl

theorem eightCharGetMonthNaYin_route :
    Gen.FnS.calendar_EightChar_GetMonthNaYin e
      = (Gen.FnS.calendar_Lunar_GetMonthInGanZhiExact e.lunar >>= fun p =>
          pure (Gen.FnS.mlookupS Gen.Tables.LunarUtil.«NAYIN» p)) := by
  unfold Gen.FnS.calendar_EightChar_GetMonthNaYin
  rw [eightCharGetMonth_eq_lunarGetMonthInGanZhiExact]

/-! #### day (depends on the sect) -/

theorem eightCharGetDay_route :
    Gen.FnS.calendar_EightChar_GetDay e
      = if e.sect = 2 then Gen.FnS.calendar_Lunar_GetDayInGanZhiExact2 e.lunar
        else Gen.FnS.calendar_Lunar_GetDayInGanZhiExact e.lunar := by
  unfold Gen.FnS.calendar_EightChar_GetDay
  by_cases hs : e.sect = 2
  · simp only [hs, decide_true, if_true]
  · simp only [hs, decide_false, if_false]
    cases Gen.FnS.calendar_Lunar_GetDayInGanZhiExact e.lunar <;> rfl

theorem eightCharGetDayGan_route :
    Gen.FnS.calendar_EightChar_GetDayGan e
      = if e.sect = 2 then Gen.FnS.calendar_Lunar_GetDayGanExact2 e.lunar
        else Gen.FnS.calendar_Lunar_GetDayGanExact e.lunar := by
  unfold Gen.FnS.calendar_EightChar_GetDayGan
  by_cases hs : e.sect = 2
  · simp only [hs, decide_true, if_true]
  · simp only [hs, decide_false, if_false]
    cases Gen.FnS.calendar_Lunar_GetDayGanExact e.lunar <;> rfl

theorem eightCharGetDayZhi_route :
    Gen.FnS.calendar_EightChar_GetDayZhi e
      = if e.sect = 2 then Gen.FnS.calendar_Lunar_GetDayZhiExact2 e.lunar
        else Gen.FnS.calendar_Lunar_GetDayZhiExact e.lunar := by
  unfold Gen.FnS.calendar_EightChar_GetDayZhi
  by_cases hs : e.sect = 2
  · simp only [hs, decide_true, if_true]
  · simp only [hs, decide_false, if_false]
    cases Gen.FnS.calendar_Lunar_GetDayZhiExact e.lunar <;> rfl

/-- for the object returned by the constructor (sect 2) the day pillar is the lunar date's `GetDayInGanZhiExact2` -/
theorem eightCharGetDay_of_new (l : Gen.FnS.Lunar) :
    (Gen.FnS.calendar_NewEightChar l >>= Gen.FnS.calendar_EightChar_GetDay)
      = Gen.FnS.calendar_Lunar_GetDayInGanZhiExact2 l := by
  rw [newEightChar_eq]
  show Gen.FnS.calendar_EightChar_GetDay { sect := 2, lunar := l } = _
  rw [eightCharGetDay_route]; rfl

/-! #### hour -/

theorem eightCharGetTime_eq_lunarGetTimeInGanZhi :
    Gen.FnS.calendar_EightChar_GetTime e = Gen.FnS.calendar_Lunar_GetTimeInGanZhi e.lunar := by
  unfold Gen.FnS.calendar_EightChar_GetTime; rfl

theorem eightCharGetTimeGan_eq_lunarGetTimeGan :
    Gen.FnS.calendar_EightChar_GetTimeGan e = Gen.FnS.calendar_Lunar_GetTimeGan e.lunar := by
  unfold Gen.FnS.calendar_EightChar_GetTimeGan; rfl

theorem eightCharGetTimeZhi_eq_lunarGetTimeZhi :
    Gen.FnS.calendar_EightChar_GetTimeZhi e = Gen.FnS.calendar_Lunar_GetTimeZhi e.lunar := by
  unfold Gen.FnS.calendar_EightChar_GetTimeZhi; rfl

theorem eightCharGetTimeXun_eq_lunarGetTimeXun :
    Gen.FnS.calendar_EightChar_GetTimeXun e = Gen.FnS.calendar_Lunar_GetTimeXun e.lunar := by
  unfold Gen.FnS.calendar_EightChar_GetTimeXun; rfl

theorem eightCharGetTimeXunKong_eq_lunarGetTimeXunKong :
    Gen.FnS.calendar_EightChar_GetTimeXunKong e = Gen.FnS.calendar_Lunar_GetTimeXunKong e.lunar := by
  unfold Gen.FnS.calendar_EightChar_GetTimeXunKong; rfl

theorem eightCharGetTimeNaYin_eq_lunarGetTimeNaYin :
    Gen.FnS.calendar_EightChar_GetTimeNaYin e = Gen.FnS.calendar_Lunar_GetTimeNaYin e.lunar := by
  unfold Gen.FnS.calendar_EightChar_GetTimeNaYin Gen.FnS.calendar_Lunar_GetTimeNaYin
  rw [eightCharGetTime_eq_lunarGetTimeInGanZhi]

/-- three routes: the eight-character object, the lunar date and the hour object give the same hour pillar -/
theorem eightCharGetTime_eq_lunarTimeGetGanZhi {lt : Gen.FnS.LunarTime} (h : sr_HourOf lt e.lunar) :
    Gen.FnS.calendar_EightChar_GetTime e = Gen.FnS.calendar_LunarTime_GetGanZhi lt := by
  rw [eightCharGetTime_eq_lunarGetTimeInGanZhi, lunarTimeGetGanZhi_eq_lunarGetTimeInGanZhi h]

end eightChar

/-! ### 3. aliases of `Lunar` (deprecated / convenience names) equal their targets -/

section aliases
variable (l : Gen.FnS.Lunar)

theorem lunarGetGan_eq_lunarGetYearGan :
    Gen.FnS.calendar_Lunar_GetGan l = Gen.FnS.calendar_Lunar_GetYearGan l := by
  unfold Gen.FnS.calendar_Lunar_GetGan; rfl
theorem lunarGetZhi_eq_lunarGetYearZhi :
    Gen.FnS.calendar_Lunar_GetZhi l = Gen.FnS.calendar_Lunar_GetYearZhi l := by
  unfold Gen.FnS.calendar_Lunar_GetZhi; rfl
theorem lunarGetShengxiao_eq_lunarGetYearShengXiao :
    Gen.FnS.calendar_Lunar_GetShengxiao l = Gen.FnS.calendar_Lunar_GetYearShengXiao l := by
  unfold Gen.FnS.calendar_Lunar_GetShengxiao; rfl
theorem lunarGetChong_eq_lunarGetDayChong :
    Gen.FnS.calendar_Lunar_GetChong l = Gen.FnS.calendar_Lunar_GetDayChong l := by
  unfold Gen.FnS.calendar_Lunar_GetChong; rfl
theorem lunarGetChongGan_eq_lunarGetDayChongGan :
    Gen.FnS.calendar_Lunar_GetChongGan l = Gen.FnS.calendar_Lunar_GetDayChongGan l := by
  unfold Gen.FnS.calendar_Lunar_GetChongGan; rfl
theorem lunarGetChongGanTie_eq_lunarGetDayChongGanTie :
    Gen.FnS.calendar_Lunar_GetChongGanTie l = Gen.FnS.calendar_Lunar_GetDayChongGanTie l := by
  unfold Gen.FnS.calendar_Lunar_GetChongGanTie; rfl
theorem lunarGetChongShengXiao_eq_lunarGetDayChongShengXiao :
    Gen.FnS.calendar_Lunar_GetChongShengXiao l = Gen.FnS.calendar_Lunar_GetDayChongShengXiao l := by
  unfold Gen.FnS.calendar_Lunar_GetChongShengXiao; rfl
theorem lunarGetChongDesc_eq_lunarGetDayChongDesc :
    Gen.FnS.calendar_Lunar_GetChongDesc l = Gen.FnS.calendar_Lunar_GetDayChongDesc l := by
  unfold Gen.FnS.calendar_Lunar_GetChongDesc; rfl
theorem lunarGetSha_eq_lunarGetDaySha :
    Gen.FnS.calendar_Lunar_GetSha l = Gen.FnS.calendar_Lunar_GetDaySha l := by
  unfold Gen.FnS.calendar_Lunar_GetSha; rfl
theorem lunarGetPositionXi_eq_lunarGetDayPositionXi :
    Gen.FnS.calendar_Lunar_GetPositionXi l = Gen.FnS.calendar_Lunar_GetDayPositionXi l := by
  unfold Gen.FnS.calendar_Lunar_GetPositionXi; rfl
theorem lunarGetPositionXiDesc_eq_lunarGetDayPositionXiDesc :
    Gen.FnS.calendar_Lunar_GetPositionXiDesc l = Gen.FnS.calendar_Lunar_GetDayPositionXiDesc l := by
  unfold Gen.FnS.calendar_Lunar_GetPositionXiDesc; rfl
theorem lunarGetPositionYangGui_eq_lunarGetDayPositionYangGui :
    Gen.FnS.calendar_Lunar_GetPositionYangGui l = Gen.FnS.calendar_Lunar_GetDayPositionYangGui l := by
  unfold Gen.FnS.calendar_Lunar_GetPositionYangGui; rfl
theorem lunarGetPositionYangGuiDesc_eq_lunarGetDayPositionYangGuiDesc :
    Gen.FnS.calendar_Lunar_GetPositionYangGuiDesc l = Gen.FnS.calendar_Lunar_GetDayPositionYangGuiDesc l := by
  unfold Gen.FnS.calendar_Lunar_GetPositionYangGuiDesc; rfl
theorem lunarGetPositionYinGui_eq_lunarGetDayPositionYinGui :
    Gen.FnS.calendar_Lunar_GetPositionYinGui l = Gen.FnS.calendar_Lunar_GetDayPositionYinGui l := by
  unfold Gen.FnS.calendar_Lunar_GetPositionYinGui; rfl
theorem lunarGetPositionYinGuiDesc_eq_lunarGetDayPositionYinGuiDesc :
    Gen.FnS.calendar_Lunar_GetPositionYinGuiDesc l = Gen.FnS.calendar_Lunar_GetDayPositionYinGuiDesc l := by
  unfold Gen.FnS.calendar_Lunar_GetPositionYinGuiDesc; rfl
theorem lunarGetPositionFu_eq_lunarGetDayPositionFu :
    Gen.FnS.calendar_Lunar_GetPositionFu l = Gen.FnS.calendar_Lunar_GetDayPositionFu l := by
  unfold Gen.FnS.calendar_Lunar_GetPositionFu; rfl
theorem lunarGetPositionFuDesc_eq_lunarGetDayPositionFuDesc :
    Gen.FnS.calendar_Lunar_GetPositionFuDesc l = Gen.FnS.calendar_Lunar_GetDayPositionFuDesc l := by
  unfold Gen.FnS.calendar_Lunar_GetPositionFuDesc; rfl
theorem lunarGetPositionCai_eq_lunarGetDayPositionCai :
    Gen.FnS.calendar_Lunar_GetPositionCai l = Gen.FnS.calendar_Lunar_GetDayPositionCai l := by
  unfold Gen.FnS.calendar_Lunar_GetPositionCai; rfl
theorem lunarGetPositionCaiDesc_eq_lunarGetDayPositionCaiDesc :
    Gen.FnS.calendar_Lunar_GetPositionCaiDesc l = Gen.FnS.calendar_Lunar_GetDayPositionCaiDesc l := by
  unfold Gen.FnS.calendar_Lunar_GetPositionCaiDesc; rfl

/-- the default-sect forms are the `…BySect … 2` forms -/
theorem lunarGetDayPositionFu_eq_bySect2 :
    Gen.FnS.calendar_Lunar_GetDayPositionFu l = Gen.FnS.calendar_Lunar_GetDayPositionFuBySect l 2 := by
  unfold Gen.FnS.calendar_Lunar_GetDayPositionFu; rfl
theorem lunarGetDayPositionFuDesc_eq_bySect2 :
    Gen.FnS.calendar_Lunar_GetDayPositionFuDesc l = Gen.FnS.calendar_Lunar_GetDayPositionFuDescBySect l 2 := by
  unfold Gen.FnS.calendar_Lunar_GetDayPositionFuDesc; rfl
theorem lunarGetYearNineStar_eq_bySect2 :
    Gen.FnS.calendar_Lunar_GetYearNineStar l = Gen.FnS.calendar_Lunar_GetYearNineStarBySect l 2 := by
  unfold Gen.FnS.calendar_Lunar_GetYearNineStar; rfl
theorem lunarGetMonthNineStar_eq_bySect2 :
    Gen.FnS.calendar_Lunar_GetMonthNineStar l = Gen.FnS.calendar_Lunar_GetMonthNineStarBySect l 2 := by
  unfold Gen.FnS.calendar_Lunar_GetMonthNineStar; rfl
theorem lunarGetYearPositionTaiSui_eq_bySect2 :
    Gen.FnS.calendar_Lunar_GetYearPositionTaiSui l = Gen.FnS.calendar_Lunar_GetYearPositionTaiSuiBySect l 2 := by
  unfold Gen.FnS.calendar_Lunar_GetYearPositionTaiSui; rfl
theorem lunarGetMonthPositionTaiSui_eq_bySect2 :
    Gen.FnS.calendar_Lunar_GetMonthPositionTaiSui l = Gen.FnS.calendar_Lunar_GetMonthPositionTaiSuiBySect l 2 := by
  unfold Gen.FnS.calendar_Lunar_GetMonthPositionTaiSui; rfl
theorem lunarGetDayPositionTaiSui_eq_bySect2 :
    Gen.FnS.calendar_Lunar_GetDayPositionTaiSui l = Gen.FnS.calendar_Lunar_GetDayPositionTaiSuiBySect l 2 := by
  unfold Gen.FnS.calendar_Lunar_GetDayPositionTaiSui; rfl

theorem solarGetXingzuo_eq_solarGetXingZuo (s : Gen.FnS.Solar) :
    Gen.FnS.calendar_Solar_GetXingzuo s = Gen.FnS.calendar_Solar_GetXingZuo s := by
  unfold Gen.FnS.calendar_Solar_GetXingzuo; rfl

end aliases

end FnSEq

/-! ### axioms -/
section axioms
#print axioms FnSEq.lunarTimeGetGanIndex_eq_lunarGetTimeGanIndex
#print axioms FnSEq.lunarTimeGetZhiIndex_eq_lunarGetTimeZhiIndex
#print axioms FnSEq.lunarTimeGetGan_eq_lunarGetTimeGan
#print axioms FnSEq.lunarTimeGetZhi_eq_lunarGetTimeZhi
#print axioms FnSEq.lunarTimeGetGanZhi_eq_lunarGetTimeInGanZhi
#print axioms FnSEq.lunarTimeToString_eq_lunarGetTimeInGanZhi
#print axioms FnSEq.lunarTimeString_eq_lunarGetTimeInGanZhi
#print axioms FnSEq.lunarTimeGetShengXiao_eq_lunarGetTimeShengXiao
#print axioms FnSEq.lunarTimeGetPositionXi_eq_lunarGetTimePositionXi
#print axioms FnSEq.lunarTimeGetPositionXiDesc_eq_lunarGetTimePositionXiDesc
#print axioms FnSEq.lunarTimeGetPositionYangGui_eq_lunarGetTimePositionYangGui
#print axioms FnSEq.lunarTimeGetPositionYangGuiDesc_eq_lunarGetTimePositionYangGuiDesc
#print axioms FnSEq.lunarTimeGetPositionYinGui_eq_lunarGetTimePositionYinGui
#print axioms FnSEq.lunarTimeGetPositionYinGuiDesc_eq_lunarGetTimePositionYinGuiDesc
#print axioms FnSEq.lunarTimeGetPositionFu_eq_lunarGetTimePositionFu
#print axioms FnSEq.lunarTimeGetPositionFuDesc_eq_lunarGetTimePositionFuDesc
#print axioms FnSEq.lunarTimeGetPositionCai_eq_lunarGetTimePositionCai
#print axioms FnSEq.lunarTimeGetPositionCaiDesc_eq_lunarGetTimePositionCaiDesc
#print axioms FnSEq.lunarTimeGetNaYin_eq_lunarGetTimeNaYin
#print axioms FnSEq.lunarTimeGetTianShen_eq_lunarGetTimeTianShen
#print axioms FnSEq.lunarTimeGetTianShenType_eq_lunarGetTimeTianShenType
#print axioms FnSEq.lunarTimeGetTianShenLuck_eq_lunarGetTimeTianShenLuck
#print axioms FnSEq.lunarTimeGetChong_eq_lunarGetTimeChong
#print axioms FnSEq.lunarTimeGetSha_eq_lunarGetTimeSha
#print axioms FnSEq.lunarTimeGetChongGan_eq_lunarGetTimeChongGan
#print axioms FnSEq.lunarTimeGetChongGanTie_eq_lunarGetTimeChongGanTie
#print axioms FnSEq.lunarTimeGetChongShengXiao_eq_lunarGetTimeChongShengXiao
#print axioms FnSEq.lunarTimeGetChongDesc_eq_lunarGetTimeChongDesc
#print axioms FnSEq.lunarTimeGetXun_eq_lunarGetTimeXun
#print axioms FnSEq.lunarTimeGetXunKong_eq_lunarGetTimeXunKong
#print axioms FnSEq.lunarTimeGetYi_eq_lunarGetTimeYi'
#print axioms FnSEq.lunarTimeGetJi_eq_lunarGetTimeJi'
#print axioms FnSEq.newEightChar_eq
#print axioms FnSEq.eightCharGetYear_eq_lunarGetYearInGanZhiExact
#print axioms FnSEq.eightCharGetYearGan_eq_lunarGetYearGanExact
#print axioms FnSEq.eightCharGetYearZhi_eq_lunarGetYearZhiExact
#print axioms FnSEq.eightCharGetYearXun_eq_lunarGetYearXunExact
#print axioms FnSEq.eightCharGetYearXunKong_eq_lunarGetYearXunKongExact
#print axioms FnSEq.eightCharGetYearNaYin_route
#print axioms FnSEq.eightCharGetYearNaYin_eq_lunarGetYearNaYin
#print axioms FnSEq.eightCharGetYearWuXing_route
#print axioms FnSEq.eightCharGetMonth_eq_lunarGetMonthInGanZhiExact
#print axioms FnSEq.eightCharGetMonthGan_eq_lunarGetMonthGanExact
#print axioms FnSEq.eightCharGetMonthZhi_eq_lunarGetMonthZhiExact
#print axioms FnSEq.eightCharGetMonthXun_eq_lunarGetMonthXunExact
#print axioms FnSEq.eightCharGetMonthXunKong_eq_lunarGetMonthXunKongExact
#print axioms FnSEq.eightCharGetMonthNaYin_route
#print axioms FnSEq.eightCharGetDay_route
#print axioms FnSEq.eightCharGetDayGan_route
#print axioms FnSEq.eightCharGetDayZhi_route
#print axioms FnSEq.eightCharGetDay_of_new
#print axioms FnSEq.eightCharGetTime_eq_lunarGetTimeInGanZhi
#print axioms FnSEq.eightCharGetTimeGan_eq_lunarGetTimeGan
#print axioms FnSEq.eightCharGetTimeZhi_eq_lunarGetTimeZhi
#print axioms FnSEq.eightCharGetTimeXun_eq_lunarGetTimeXun
#print axioms FnSEq.eightCharGetTimeXunKong_eq_lunarGetTimeXunKong
#print axioms FnSEq.eightCharGetTimeNaYin_eq_lunarGetTimeNaYin
#print axioms FnSEq.eightCharGetTime_eq_lunarTimeGetGanZhi
#print axioms FnSEq.lunarGetGan_eq_lunarGetYearGan
#print axioms FnSEq.lunarGetZhi_eq_lunarGetYearZhi
#print axioms FnSEq.lunarGetShengxiao_eq_lunarGetYearShengXiao
#print axioms FnSEq.lunarGetChong_eq_lunarGetDayChong
#print axioms FnSEq.lunarGetChongGan_eq_lunarGetDayChongGan
#print axioms FnSEq.lunarGetChongGanTie_eq_lunarGetDayChongGanTie
#print axioms FnSEq.lunarGetChongShengXiao_eq_lunarGetDayChongShengXiao
#print axioms FnSEq.lunarGetChongDesc_eq_lunarGetDayChongDesc
#print axioms FnSEq.lunarGetSha_eq_lunarGetDaySha
#print axioms FnSEq.lunarGetPositionXi_eq_lunarGetDayPositionXi
#print axioms FnSEq.lunarGetPositionXiDesc_eq_lunarGetDayPositionXiDesc
#print axioms FnSEq.lunarGetPositionYangGui_eq_lunarGetDayPositionYangGui
#print axioms FnSEq.lunarGetPositionYangGuiDesc_eq_lunarGetDayPositionYangGuiDesc
#print axioms FnSEq.lunarGetPositionYinGui_eq_lunarGetDayPositionYinGui
#print axioms FnSEq.lunarGetPositionYinGuiDesc_eq_lunarGetDayPositionYinGuiDesc
#print axioms FnSEq.lunarGetPositionFu_eq_lunarGetDayPositionFu
#print axioms FnSEq.lunarGetPositionFuDesc_eq_lunarGetDayPositionFuDesc
#print axioms FnSEq.lunarGetPositionCai_eq_lunarGetDayPositionCai
#print axioms FnSEq.lunarGetPositionCaiDesc_eq_lunarGetDayPositionCaiDesc
#print axioms FnSEq.lunarGetDayPositionFu_eq_bySect2
#print axioms FnSEq.lunarGetDayPositionFuDesc_eq_bySect2
#print axioms FnSEq.lunarGetYearNineStar_eq_bySect2
#print axioms FnSEq.lunarGetMonthNineStar_eq_bySect2
#print axioms FnSEq.lunarGetYearPositionTaiSui_eq_bySect2
#print axioms FnSEq.lunarGetMonthPositionTaiSui_eq_bySect2
#print axioms FnSEq.lunarGetDayPositionTaiSui_eq_bySect2
#print axioms FnSEq.solarGetXingzuo_eq_solarGetXingZuo
end axioms
