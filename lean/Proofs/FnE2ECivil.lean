/-
Proofs.FnE2ECivil — end-to-end corollaries on the GENERATED civil arithmetic (NextDay advances the day number by n, inverse / additivity, Subtract = difference of day numbers, IsBefore / IsAfter compare time stamps, trichotomy): equivalence theorems composed with the spec theorems.
-/
import Proofs.CivilStep
import Proofs.CivilArith
import Proofs.FnCivil1
import Proofs.FnCivil2

namespace FnE2E

open FnEq

/-! ## 1. Day stepping: `NextDay(n)` advances the Julian day number by exactly `n` -/

/-- Total form.  For a valid receiver and enough fuel the generated `Solar.NextDay` never panics
and never runs out of fuel; its result is valid, its day number is exactly `n` larger and the time
of day is unchanged.  (`Model.nextDay_spec_strong` needs no year bound, hence none here; for years
`< 1` the model's day number `Model.jdn` (Euclidean `/`) is no longer the Go float expression, so
for the Go code the content is the one for years `≥ 1`, see `nextDay_ok_of_year` below.) -/
theorem nextDay_total (fuel : Nat) (s : Gen.Fn.Solar) (n : Int)
    (hs : (toM s).valid = true) (hf : n.natAbs + 2 ≤ fuel) :
    ∃ r, Gen.Fn.calendar_Solar_NextDay fuel s n = .ok r ∧ (toM r).valid = true ∧
      (toM r).jdn = (toM s).jdn + n ∧
      r.hour = s.hour ∧ r.minute = s.minute ∧ r.second = s.second := by
  obtain ⟨r, e, hv, hj, a1, a2, a3⟩ := Model.nextDay_spec_strong (toM s) n hs
  refine ⟨ofM r, ?_, ?_, ?_, ?_, ?_, ?_⟩
  · rw [solarNextDay_eq fuel s n hs hf, e]
  · rw [toM_ofM]; exact hv
  · rw [toM_ofM]; exact hj
  · exact a1
  · exact a2
  · exact a3

/-- Partial-correctness form: whatever `.ok` value the generated code returns has the property. -/
theorem nextDay_jdn (fuel : Nat) (s r : Gen.Fn.Solar) (n : Int)
    (hs : (toM s).valid = true) (hf : n.natAbs + 2 ≤ fuel)
    (h : Gen.Fn.calendar_Solar_NextDay fuel s n = .ok r) :
    (toM r).jdn = (toM s).jdn + n ∧ (toM r).valid = true ∧
      r.hour = s.hour ∧ r.minute = s.minute ∧ r.second = s.second := by
  obtain ⟨r', e, hv, hj, a1, a2, a3⟩ := nextDay_total fuel s n hs hf
  rw [e] at h
  injection h with h
  subst h
  exact ⟨hj, hv, a1, a2, a3⟩

/-- The same through `Model.nextDay_spec` (the statement with the year guards under which the
model's integer day number is the Go one): `.ok` whenever start and target year are `≥ 1`. -/
theorem nextDay_ok_of_year (fuel : Nat) (s : Gen.Fn.Solar) (n : Int)
    (hs : (toM s).valid = true) (hf : n.natAbs + 2 ≤ fuel) (hy : 1 ≤ s.year)
    (hr : 1 ≤ (Model.nextDayYmd s.year s.month s.day n).1) :
    ∃ r, Gen.Fn.calendar_Solar_NextDay fuel s n = .ok r ∧ (toM r).valid = true ∧
      (toM r).jdn = (toM s).jdn + n ∧
      r.hour = s.hour ∧ r.minute = s.minute ∧ r.second = s.second := by
  obtain ⟨r, e, hv, hj, a1, a2, a3⟩ := Model.nextDay_spec (toM s) n hs hy hr
  refine ⟨ofM r, ?_, ?_, ?_, a1, a2, a3⟩
  · rw [solarNextDay_eq fuel s n hs hf, e]
  · rw [toM_ofM]; exact hv
  · rw [toM_ofM]; exact hj

/-- The generated `NextDay` never returns an error on a valid receiver with enough fuel. -/
theorem nextDay_ne_error (fuel : Nat) (s : Gen.Fn.Solar) (n : Int) (e : Gen.Fn.Err)
    (hs : (toM s).valid = true) (hf : n.natAbs + 2 ≤ fuel) :
    Gen.Fn.calendar_Solar_NextDay fuel s n ≠ .error e := by
  obtain ⟨r, h, _⟩ := nextDay_total fuel s n hs hf
  rw [h]
  intro c
  cases c

/-- The weekday moves by `n mod 7`. -/
theorem nextDay_week (fuel : Nat) (s r : Gen.Fn.Solar) (n : Int)
    (hs : (toM s).valid = true) (hf : n.natAbs + 2 ≤ fuel)
    (h : Gen.Fn.calendar_Solar_NextDay fuel s n = .ok r) :
    (toM r).week = ((toM s).week + n) % 7 :=
  Model.week_nextDay (toM s) (toM r) n (nextDay_jdn fuel s r n hs hf h).1

/-! ## 2. Round trip and additivity -/

/-- bridge: an `.ok` result of the generated code is a `some` result of the model -/
theorem e2e_nextDay_model (fuel : Nat) (s r : Gen.Fn.Solar) (n : Int)
    (hs : (toM s).valid = true) (hf : n.natAbs + 2 ≤ fuel)
    (h : Gen.Fn.calendar_Solar_NextDay fuel s n = .ok r) :
    (toM s).nextDay n = some (toM r) := by
  rw [solarNextDay_eq fuel s n hs hf] at h
  cases e : (toM s).nextDay n with
  | none => rw [e] at h; cases h
  | some t =>
    rw [e] at h
    injection h with h
    subst h
    rfl

/-- and conversely -/
theorem e2e_nextDay_gen (fuel : Nat) (s : Gen.Fn.Solar) (t : Model.Solar) (n : Int)
    (hs : (toM s).valid = true) (hf : n.natAbs + 2 ≤ fuel)
    (h : (toM s).nextDay n = some t) :
    Gen.Fn.calendar_Solar_NextDay fuel s n = .ok (ofM t) := by
  rw [solarNextDay_eq fuel s n hs hf, h]

/-- `NextDay n` followed by `NextDay (-n)` returns the original date-time
(via `Model.nextDay_neg`, whose year guards are carried over). -/
theorem nextDay_roundtrip (fuel fuel' : Nat) (s r : Gen.Fn.Solar) (n : Int)
    (hs : (toM s).valid = true) (hf : n.natAbs + 2 ≤ fuel) (hf' : n.natAbs + 2 ≤ fuel')
    (hy : 1 ≤ s.year) (h : Gen.Fn.calendar_Solar_NextDay fuel s n = .ok r) (hr : 1 ≤ r.year) :
    Gen.Fn.calendar_Solar_NextDay fuel' r (-n) = .ok s := by
  have hm := e2e_nextDay_model fuel s r n hs hf h
  have hrv := (nextDay_jdn fuel s r n hs hf h).2.1
  have hb := Model.nextDay_neg (toM s) (toM r) n hs hy hm hr
  have := e2e_nextDay_gen fuel' r (toM s) (-n) hrv (by rw [Int.natAbs_neg]; exact hf') hb
  rw [this, ofM_toM]

/-- The same without year guards and without assuming that the steps succeed: for every valid
receiver both steps are `.ok` and the second undoes the first (from `nextDay_spec_strong` and
`solar_eq_of_jdn`, the two facts `nextDay_neg` itself is proved from). -/
theorem nextDay_roundtrip_total (fuel : Nat) (s : Gen.Fn.Solar) (n : Int)
    (hs : (toM s).valid = true) (hf : n.natAbs + 2 ≤ fuel) :
    ∃ r, Gen.Fn.calendar_Solar_NextDay fuel s n = .ok r ∧
         Gen.Fn.calendar_Solar_NextDay fuel r (-n) = .ok s := by
  obtain ⟨r, e, hv, hj, a1, a2, a3⟩ := nextDay_total fuel s n hs hf
  refine ⟨r, e, ?_⟩
  obtain ⟨t, e', hv', hj', b1, b2, b3⟩ :=
    nextDay_total fuel r (-n) hv (by rw [Int.natAbs_neg]; exact hf)
  rw [e']
  congr 1
  apply toM_inj
  exact Model.solar_eq_of_jdn (toM t) (toM s) hv' hs (by omega)
    (by simp only [toM_hour]; omega) (by simp only [toM_minute]; omega)
    (by simp only [toM_second]; omega)

/-- Steps compose additively (via `Model.nextDay_add`, year guards carried over). -/
theorem nextDay_add (f1 f2 f3 : Nat) (s r t : Gen.Fn.Solar) (a b : Int)
    (hs : (toM s).valid = true) (h1f : a.natAbs + 2 ≤ f1) (h2f : b.natAbs + 2 ≤ f2)
    (h3f : (a + b).natAbs + 2 ≤ f3) (hy : 1 ≤ s.year)
    (h1 : Gen.Fn.calendar_Solar_NextDay f1 s a = .ok r) (hr : 1 ≤ r.year)
    (h2 : Gen.Fn.calendar_Solar_NextDay f2 r b = .ok t) (ht : 1 ≤ t.year) :
    Gen.Fn.calendar_Solar_NextDay f3 s (a + b) = .ok t := by
  have m1 := e2e_nextDay_model f1 s r a hs h1f h1
  have hrv := (nextDay_jdn f1 s r a hs h1f h1).2.1
  have m2 := e2e_nextDay_model f2 r t b hrv h2f h2
  have := Model.nextDay_add (toM s) (toM r) (toM t) a b hs hy m1 hr m2 ht
  rw [e2e_nextDay_gen f3 s (toM t) (a + b) hs h3f this, ofM_toM]

/-- `NextDay 0` is the identity. -/
theorem nextDay_zero (fuel : Nat) (s : Gen.Fn.Solar) (hs : (toM s).valid = true) (hf : 2 ≤ fuel) :
    Gen.Fn.calendar_Solar_NextDay fuel s 0 = .ok s := by
  obtain ⟨t, e, hv, hj, b1, b2, b3⟩ := nextDay_total fuel s 0 hs (by simpa using hf)
  rw [e]
  congr 1
  apply toM_inj
  exact Model.solar_eq_of_jdn (toM t) (toM s) hv hs (by omega) b1 b2 b3

/-! ## 3. `Subtract` is the difference of the day numbers -/

theorem subtract_jdn (a b : Gen.Fn.Solar) (ha : (toM a).valid = true) (hb : (toM b).valid = true)
    (hya : 1 ≤ a.year) (hyb : 1 ≤ b.year) :
    Gen.Fn.calendar_Solar_Subtract a b = .ok ((toM a).jdn - (toM b).jdn) := by
  rw [solarSubtract_eq_of_valid a b ha hb, Model.subtract_eq (toM a) (toM b) ha hb hya hyb]

/-- `SubtractMinute` is the difference of the minute stamps. -/
theorem subtractMinute_jdn (a b : Gen.Fn.Solar) (ha : (toM a).valid = true)
    (hb : (toM b).valid = true) (hya : 1 ≤ a.year) (hyb : 1 ≤ b.year) :
    Gen.Fn.calendar_Solar_SubtractMinute a b =
      .ok (((toM a).jdn * 1440 + a.hour * 60 + a.minute) -
           ((toM b).jdn * 1440 + b.hour * 60 + b.minute)) := by
  rw [solarSubtractMinute_eq_of_valid a b ha hb,
    Model.subtractMinute_eq (toM a) (toM b) ha hb hya hyb]
  rfl

/-- `Subtract` undoes `NextDay`: the date reached by `NextDay n` is `n` days after the start. -/
theorem subtract_nextDay (fuel : Nat) (s r : Gen.Fn.Solar) (n : Int)
    (hs : (toM s).valid = true) (hf : n.natAbs + 2 ≤ fuel) (hy : 1 ≤ s.year)
    (h : Gen.Fn.calendar_Solar_NextDay fuel s n = .ok r) (hr : 1 ≤ r.year) :
    Gen.Fn.calendar_Solar_Subtract r s = .ok n := by
  obtain ⟨hj, hv, _⟩ := nextDay_jdn fuel s r n hs hf h
  rw [subtract_jdn r s hv hs hr hy, hj]
  congr 1
  omega

/-! ## 4. Order: `IsBefore` / `IsAfter` compare the time stamps; trichotomy -/

theorem e2e_decide_eq (b : Bool) (p : Prop) [Decidable p] (h : b = true ↔ p) : b = decide p := by
  cases b with
  | true => exact (decide_eq_true (h.mp rfl)).symm
  | false =>
    have : ¬ p := fun hp => Bool.noConfusion (h.mpr hp)
    exact (decide_eq_false this).symm

theorem isBefore_stamp (a b : Gen.Fn.Solar) (ha : (toM a).valid = true) (hb : (toM b).valid = true)
    (hya : 1 ≤ a.year) (hyb : 1 ≤ b.year) :
    Gen.Fn.calendar_Solar_IsBefore a b = .ok (decide ((toM a).stamp < (toM b).stamp)) := by
  rw [solarIsBefore_eq]
  congr 1
  exact e2e_decide_eq _ _ (Model.isBefore_iff (toM a) (toM b) ha hb hya hyb)

theorem isAfter_stamp (a b : Gen.Fn.Solar) (ha : (toM a).valid = true) (hb : (toM b).valid = true)
    (hya : 1 ≤ a.year) (hyb : 1 ≤ b.year) :
    Gen.Fn.calendar_Solar_IsAfter a b = .ok (decide ((toM b).stamp < (toM a).stamp)) := by
  rw [solarIsAfter_eq]
  congr 1
  exact e2e_decide_eq _ _ (Model.isAfter_iff (toM a) (toM b) ha hb hya hyb)

/-- `a.IsAfter(b)` is `b.IsBefore(a)`. -/
theorem isAfter_swap (a b : Gen.Fn.Solar) (ha : (toM a).valid = true) (hb : (toM b).valid = true)
    (hya : 1 ≤ a.year) (hyb : 1 ≤ b.year) :
    Gen.Fn.calendar_Solar_IsAfter a b = Gen.Fn.calendar_Solar_IsBefore b a := by
  rw [isAfter_stamp a b ha hb hya hyb, isBefore_stamp b a hb ha hyb hya]

/-- equal time stamps of valid date-times: all six fields agree -/
theorem e2e_stamp_inj (a b : Gen.Fn.Solar) (ha : (toM a).valid = true) (hb : (toM b).valid = true)
    (h : (toM a).stamp = (toM b).stamp) : a = b := by
  have b1 := Model.hms_bounds (toM a) ha
  have b2 := Model.hms_bounds (toM b) hb
  have hj : (toM a).jdn = (toM b).jdn ∧ (toM a).secOfDay = (toM b).secOfDay := by
    unfold Model.Solar.stamp Model.Solar.secOfDay at h
    unfold Model.Solar.secOfDay
    omega
  obtain ⟨c1, c2, c3⟩ := Model.hms_unique (toM a) (toM b) ha hb hj.2
  exact toM_inj (Model.solar_eq_of_jdn (toM a) (toM b) ha hb hj.1 c1 c2 c3)

/-- Trichotomy on the generated code: both comparisons succeed, and exactly one of
"before", "after", "all fields equal" holds. -/
theorem order_trichotomy (a b : Gen.Fn.Solar) (ha : (toM a).valid = true)
    (hb : (toM b).valid = true) (hya : 1 ≤ a.year) (hyb : 1 ≤ b.year) :
    ∃ bf af : Bool, Gen.Fn.calendar_Solar_IsBefore a b = .ok bf ∧
      Gen.Fn.calendar_Solar_IsAfter a b = .ok af ∧
      ((bf = true ∧ af = false ∧ a ≠ b) ∨ (bf = false ∧ af = true ∧ a ≠ b) ∨
       (bf = false ∧ af = false ∧ a = b)) := by
  refine ⟨_, _, isBefore_stamp a b ha hb hya hyb, isAfter_stamp a b ha hb hya hyb, ?_⟩
  have hne : ∀ {x y : Int}, x ≠ y → (toM a).stamp = x → (toM b).stamp = y → a ≠ b := by
    intro x y hxy hx hy e
    subst e
    exact hxy (hx.symm.trans hy)
  rcases Int.lt_trichotomy (toM a).stamp (toM b).stamp with h | h | h
  · left
    refine ⟨decide_eq_true h, decide_eq_false (by omega), ?_⟩
    intro e; subst e; omega
  · right; right
    exact ⟨decide_eq_false (by omega), decide_eq_false (by omega), e2e_stamp_inj a b ha hb h⟩
  · right; left
    refine ⟨decide_eq_false (by omega), decide_eq_true h, ?_⟩
    intro e; subst e; omega

/-- `IsBefore` is irreflexive and transitive on valid date-times (strict order). -/
theorem isBefore_irrefl (a : Gen.Fn.Solar) (ha : (toM a).valid = true) (hya : 1 ≤ a.year) :
    Gen.Fn.calendar_Solar_IsBefore a a = .ok false := by
  rw [isBefore_stamp a a ha ha hya hya]
  congr 1
  exact decide_eq_false (by omega)

theorem isBefore_trans (a b c : Gen.Fn.Solar) (ha : (toM a).valid = true)
    (hb : (toM b).valid = true) (hc : (toM c).valid = true)
    (hya : 1 ≤ a.year) (hyb : 1 ≤ b.year) (hyc : 1 ≤ c.year)
    (h1 : Gen.Fn.calendar_Solar_IsBefore a b = .ok true)
    (h2 : Gen.Fn.calendar_Solar_IsBefore b c = .ok true) :
    Gen.Fn.calendar_Solar_IsBefore a c = .ok true := by
  rw [isBefore_stamp a b ha hb hya hyb] at h1
  rw [isBefore_stamp b c hb hc hyb hyc] at h2
  rw [isBefore_stamp a c ha hc hya hyc]
  injection h1 with h1
  injection h2 with h2
  have h1 := of_decide_eq_true h1
  have h2 := of_decide_eq_true h2
  congr 1
  exact decide_eq_true (by omega)


end FnE2E
