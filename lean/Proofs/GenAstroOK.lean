/-
Proofs.GenAstroOK — the regenerated oracle `genAstro` passes the well-formedness checkers on lunar years
0..10000, assembled from the per-block kernel-checked obligations of `Gen/AstroK`.
-/
import Proofs.WFDefs
import Gen.AstroKAll
set_option linter.unusedVariables false
namespace Model

/-! ## extraction from the block checkers (the data stay opaque: `l` is a variable) -/

theorem checkBlock_year : ∀ (l : List (Nat × Nat)) (base : Int) (k : Nat) (p : Nat × Nat),
    checkBlock base l = true → l[k]? = some p → yearOk (base + k) (decodeYear (base + k) p) = true
  | [], _, k, p, _, hk => by simp at hk
  | [a], base, 0, p, h, hk => by
    simp at hk; subst hk
    simpa [checkBlock] using h
  | [a], base, k + 1, p, h, hk => by simp at hk
  | a :: b :: rest, base, 0, p, h, hk => by
    simp at hk; subst hk
    simp only [checkBlock, Bool.and_eq_true] at h
    simpa using h.1.1
  | a :: b :: rest, base, k + 1, p, h, hk => by
    simp only [checkBlock, Bool.and_eq_true] at h
    have := checkBlock_year (b :: rest) (base + 1) k p h.2 (by simpa using hk)
    rw [show base + 1 + (k : Int) = base + ((k + 1 : Nat) : Int) by omega] at this
    exact this

theorem checkBlock_pair : ∀ (l : List (Nat × Nat)) (base : Int) (k : Nat) (p q : Nat × Nat),
    checkBlock base l = true → l[k]? = some p → l[k + 1]? = some q →
    pairOk (base + k) (decodeYear (base + k) p) (decodeYear (base + k + 1) q) = true
  | [], _, k, p, q, _, hk, _ => by simp at hk
  | [a], base, k, p, q, h, hk, hk' => by simp at hk'
  | a :: b :: rest, base, 0, p, q, h, hk, hk' => by
    simp at hk hk'; subst hk hk'
    simp only [checkBlock, Bool.and_eq_true] at h
    simpa using h.1.2
  | a :: b :: rest, base, k + 1, p, q, h, hk, hk' => by
    simp only [checkBlock, Bool.and_eq_true] at h
    have := checkBlock_pair (b :: rest) (base + 1) k p q h.2 (by simpa using hk) (by simpa using hk')
    rw [show base + 1 + (k : Int) = base + ((k + 1 : Nat) : Int) by omega] at this
    exact this

theorem checkLeapBlock_year : ∀ (l : List (Nat × Nat)) (base : Int) (k : Nat) (p : Nat × Nat),
    checkLeapBlock base l = true → l[k]? = some p →
    (!leapRuleRange (base + k) || leapRuleOk (base + k) (decodeYear (base + k) p)) = true
  | [], _, k, p, _, hk => by simp at hk
  | a :: rest, base, 0, p, h, hk => by
    simp at hk; subst hk
    simp only [checkLeapBlock, Bool.and_eq_true] at h
    simpa using h.1
  | a :: rest, base, k + 1, p, h, hk => by
    simp only [checkLeapBlock, Bool.and_eq_true] at h
    have := checkLeapBlock_year rest (base + 1) k p h.2 (by simpa using hk)
    rw [show base + 1 + (k : Int) = base + ((k + 1 : Nat) : Int) by omega] at this
    exact this

/-! ## shape of the regenerated blocks -/

/-- every block holds 26 records (25 years and the first year of the next block) -/
theorem blockLens_ok : (List.range 400).all (fun c => (Gen.Astro.blockList c).length == 26) = true := by
  decide +kernel

theorem blockLen (c : Nat) (h : c < 400) : (Gen.Astro.blockList c).length = 26 := by
  have := blockLens_ok
  rw [List.all_eq_true] at this
  have := this c (List.mem_range.2 h)
  simpa using this

theorem getD_some {α : Type} (l : List α) (k : Nat) (d : α) (h : k < l.length) : l[k]? = some (l.getD k d) := by
  simp [List.getD, List.getElem?_eq_getElem h]

theorem overlap (c : Nat) (h : c < 399) :
    (Gen.Astro.blockList (c + 1)).getD 0 (0, 0) = (Gen.Astro.blockList c).getD 25 (0, 0) := by
  have := Gen.AstroK.overlap_ok
  rw [List.all_eq_true] at this
  have := this c (List.mem_range.2 h)
  rw [beq_iff_eq] at this
  have l1 := blockLen c (by omega)
  have l2 := blockLen (c + 1) (by omega)
  rw [List.getLast?_eq_getElem?, List.head?_eq_getElem?, l1,
    getD_some _ 25 (0, 0) (by omega), getD_some _ 0 (0, 0) (by omega)] at this
  exact (Option.some.inj this).symm

theorem packedL_lt (y : Nat) (hy : y < 10000) :
    packedL y = (Gen.Astro.blockList (y / 25)).getD (y % 25) (0, 0) := by
  unfold packedL
  simp only [Gen.Astro.blockSize, Gen.Astro.numBlocks]
  have c1 : ¬ (y / 25 ≥ 400) := by omega
  simp only [c1, if_false]
  rw [show y - 25 * (y / 25) = y % 25 by omega]

theorem packedL_last : packedL 10000 = (Gen.Astro.blockList 399).getD 25 (0, 0) := by
  unfold packedL
  simp only [Gen.Astro.blockSize, Gen.Astro.numBlocks]
  rfl

/-- the record of year `25 c + k` is entry `k` of block `c`, for every `k ≤ 25` -/
theorem packedL_block (c k : Nat) (hc : c < 400) (hk : k ≤ 25) :
    packedL (25 * c + k) = (Gen.Astro.blockList c).getD k (0, 0) := by
  by_cases h25 : k = 25
  · subst h25
    by_cases hl : c = 399
    · subst hl; exact packedL_last
    · rw [packedL_lt _ (by omega), show (25 * c + 25) / 25 = c + 1 by omega, show (25 * c + 25) % 25 = 0 by omega]
      exact overlap c (by omega)
  · rw [packedL_lt _ (by omega), show (25 * c + k) / 25 = c by omega, show (25 * c + k) % 25 = k by omega]

theorem genAstro_in (y : Nat) (hy : y ≤ 10000) : genAstro (y : Int) = decodeYear (y : Int) (packedL y) := by
  unfold genAstro
  have : (0 : Int) ≤ (y : Int) ∧ (y : Int) ≤ 10000 := by omega
  simp only [this, and_self, if_true, Int.toNat_natCast]

theorem genAstro_year (y : Nat) (hy : y ≤ 10000) : yearOk (y : Int) (genAstro y) = true := by
  rw [genAstro_in y hy]
  by_cases h : y = 10000
  · subst h
    have := checkBlock_year _ _ 25 _ (Gen.AstroK.blocks_ok 399 (by omega))
      (getD_some _ 25 (0, 0) (by rw [blockLen 399 (by omega)]; omega))
    rw [← packedL_block 399 25 (by omega) (by omega)] at this
    exact this
  · have hc : y / 25 < 400 := by omega
    have := checkBlock_year _ _ (y % 25) _ (Gen.AstroK.blocks_ok (y / 25) hc)
      (getD_some _ (y % 25) (0, 0) (by rw [blockLen _ hc]; omega))
    rw [← packedL_block (y / 25) (y % 25) hc (by omega), show 25 * (y / 25) + y % 25 = y by omega,
      show (25 : Int) * ((y / 25 : Nat) : Int) + ((y % 25 : Nat) : Int) = (y : Int) by omega] at this
    exact this

theorem genAstro_pair (y : Nat) (hy : y < 10000) : pairOk (y : Int) (genAstro y) (genAstro ((y : Int) + 1)) = true := by
  rw [genAstro_in y (by omega), show ((y : Int) + 1) = ((y + 1 : Nat) : Int) by omega, genAstro_in (y + 1) (by omega)]
  have hc : y / 25 < 400 := by omega
  have := checkBlock_pair _ _ (y % 25) _ _ (Gen.AstroK.blocks_ok (y / 25) hc)
    (getD_some _ (y % 25) (0, 0) (by rw [blockLen _ hc]; omega))
    (getD_some _ (y % 25 + 1) (0, 0) (by rw [blockLen _ hc]; omega))
  rw [← packedL_block (y / 25) (y % 25) hc (by omega), ← packedL_block (y / 25) (y % 25 + 1) hc (by omega),
    show 25 * (y / 25) + y % 25 = y by omega, show 25 * (y / 25) + (y % 25 + 1) = y + 1 by omega,
    show (25 : Int) * ((y / 25 : Nat) : Int) + ((y % 25 : Nat) : Int) = (y : Int) by omega] at this
  rw [show ((y + 1 : Nat) : Int) = (y : Int) + 1 by omega]
  exact this

theorem genAstro_leapYear (y : Nat) (hy : y ≤ 10000) :
    (!leapRuleRange (y : Int) || leapRuleOk (y : Int) (genAstro y)) = true := by
  rw [genAstro_in y hy]
  by_cases h : y = 10000
  · subst h
    have := checkLeapBlock_year _ _ 25 _ (Gen.AstroK.blocks_leap 399 (by omega))
      (getD_some _ 25 (0, 0) (by rw [blockLen 399 (by omega)]; omega))
    rw [← packedL_block 399 25 (by omega) (by omega)] at this
    exact this
  · have hc : y / 25 < 400 := by omega
    have := checkLeapBlock_year _ _ (y % 25) _ (Gen.AstroK.blocks_leap (y / 25) hc)
      (getD_some _ (y % 25) (0, 0) (by rw [blockLen _ hc]; omega))
    rw [← packedL_block (y / 25) (y % 25) hc (by omega), show 25 * (y / 25) + y % 25 = y by omega,
      show (25 : Int) * ((y / 25 : Nat) : Int) + ((y % 25 : Nat) : Int) = (y : Int) by omega] at this
    exact this

/-- the regenerated oracle is well-formed on lunar years 0..10000 -/
theorem genAstro_ok : AstroOK genAstro 0 10000 := by
  constructor
  · intro y h0 h1
    have := genAstro_year y.toNat (by omega)
    rw [show ((y.toNat : Nat) : Int) = y by omega] at this
    exact this
  · intro y h0 h1
    have := genAstro_pair y.toNat (by omega)
    rw [show ((y.toNat : Nat) : Int) = y by omega] at this
    exact this

/-- and obeys the no-major-term leap rule on 1929..3000 -/
theorem genAstro_leap : LeapRuleOK genAstro 0 10000 := by
  intro y h0 h1 hr
  have := genAstro_leapYear y.toNat (by omega)
  rw [show ((y.toNat : Nat) : Int) = y by omega, hr] at this
  simpa using this

/-! ## the unrestricted `fromYmd_ok_iff` is false for an arbitrary oracle

`AstroOK A lo hi` says nothing about `A` outside `lo..hi`; an oracle that is `genAstro` on 0..10000 and carries one
made-up 100-day "month 1 of lunar year 5000" in its table of civil year 20000 converts the valid civil date
20000-03-01 to the lunar triple (5000, 1, 61), which the constructor rejects (month 1 of 5000 has 30 days). -/

def cexAstro : Astro := fun y =>
  if y = 20000 then { months := [⟨5000, 1, 100, jdn 20000 1 1, 1⟩], terms := [], hs := [], jq := [] } else genAstro y

def cexSolar : Solar := ⟨20000, 3, 1, 0, 0, 0⟩

theorem cexAstro_ok : AstroOK cexAstro 0 10000 := by
  have e : ∀ y : Int, y ≤ 10000 → cexAstro y = genAstro y := by
    intro y hy
    unfold cexAstro
    rw [if_neg (by omega)]
  constructor
  · intro y h0 h1
    rw [e y h1]
    exact genAstro_ok.year y h0 h1
  · intro y h0 h1
    rw [e y (by omega), e (y + 1) (by omega)]
    exact genAstro_ok.pair y h0 h1

theorem cex_image : cexSolar.valid = true ∧ ∃ l, Lunar.fromSolar cexAstro cexSolar = some l ∧
    l.year = 5000 ∧ l.month = 1 ∧ l.day = 61 := by
  have hf : findLunarYmd cexSolar (cexAstro cexSolar.year).months = some (5000, 1, 61) := by decide +kernel
  refine ⟨by decide +kernel, computeAll 5000 1 61 0 0 0 cexSolar (cexAstro 20000), ?_, rfl, rfl, rfl⟩
  unfold Lunar.fromSolar
  simp only [hf]
  rfl

theorem cex_rejected : (Lunar.fromYmdHms cexAstro 5000 1 61 0 0 0).isSome = false := by decide +kernel

/-- `fromYmd_ok_iff` as stated (no range restriction on the civil day) does not hold for every well-formed oracle -/
theorem fromYmd_ok_iff_false :
    ¬ (∀ (A : Astro) (lo hi : Int) (h : AstroOK A lo hi) (ly lm ld hh mi ss : Int)
        (hy : 2 ≤ ly) (hlo : lo < ly) (hhi : ly < hi),
        (Lunar.fromYmdHms A ly lm ld hh mi ss).isSome = true ↔
          (validHms hh mi ss = true ∧ ∃ s : Solar, s.valid = true ∧ ∃ l, Lunar.fromSolar A s = some l ∧
            l.year = ly ∧ l.month = lm ∧ l.day = ld)) := by
  intro hall
  have := (hall cexAstro 0 10000 cexAstro_ok 5000 1 61 0 0 0 (by omega) (by omega) (by omega)).2
    ⟨by decide, cexSolar, cex_image.1, cex_image.2⟩
  rw [cex_rejected] at this
  cases this

end Model

#print axioms Model.genAstro_ok
#print axioms Model.genAstro_leap
#print axioms Model.fromYmd_ok_iff_false
