/-
Proofs.RenderSpec — the Chinese rendering of a lunar date (`Lunar.String`, `Tao.String`,
`Foto.String`) parses back to the year, month (negative = leap) and day it was printed from;
hence distinct dates never print alike.
-/
import Model.TaoFoto
set_option linter.unusedVariables false
namespace Model
open Gen.Tables

/-! ### table facts -/

/-- digits are single, pairwise distinct characters different from 年 -/
theorem number_tbl_ok : ((List.range 10).all fun i => match Gen.Tables.LunarUtil.NUMBER_cp.getD i [] with | [c] => c != cpNian | _ => false) = true ∧
    ((Gen.Tables.LunarUtil.NUMBER_cp.take 10).Nodup) := by
  constructor <;> decide

/-- month names are distinct, non-empty and contain neither 月 nor 闰 nor 年 -/
theorem month_tbl_ok : Gen.Tables.LunarUtil.MONTH_cp.length = 13 ∧ (Gen.Tables.LunarUtil.MONTH_cp.drop 1).Nodup ∧
    ((Gen.Tables.LunarUtil.MONTH_cp.drop 1).all fun n => !n.isEmpty && !n.contains cpYue && !n.contains cpRun && !n.contains cpNian) = true := by
  refine ⟨?_, ?_, ?_⟩ <;> decide

/-- day names distinct and non-empty -/
theorem day_tbl_ok : Gen.Tables.LunarUtil.DAY_cp.length = 31 ∧ (Gen.Tables.LunarUtil.DAY_cp.drop 1).Nodup ∧
    ((Gen.Tables.LunarUtil.DAY_cp.drop 1).all fun n => !n.isEmpty) = true := by
  refine ⟨?_, ?_, ?_⟩ <;> decide

/-! ### digits -/

/-- the character of one decimal digit -/
def digitCp (d : Nat) : List Nat := cpTbl LunarUtil.NUMBER_cp (Int.ofNat d)

def digitOk (d : Nat) : Bool :=
  match digitCp d with
  | [c] => c != cpNian && (findIdxCp (LunarUtil.NUMBER_cp.take 10) [c] == some d)
  | _ => false

theorem digitOk_all : ∀ d, d < 10 → digitOk d = true := by decide

theorem digit_spec (d : Nat) (hd : d < 10) :
    ∃ c, digitCp d = [c] ∧ c ≠ cpNian ∧ findIdxCp (LunarUtil.NUMBER_cp.take 10) [c] = some d := by
  have h := digitOk_all d hd
  unfold digitOk at h
  split at h
  · next c hc =>
    simp only [Bool.and_eq_true, bne_iff_ne, ne_eq, beq_iff_eq] at h
    exact ⟨c, hc, h.1, h.2⟩
  · cases h

theorem yearCp_eq (y : Int) : yearCp y = (digitsOf y.toNat).flatMap digitCp := rfl

/-- one step of the year parser -/
def pstep (acc : Option Nat) (c : Nat) : Option Nat :=
  match acc with
  | none => none
  | some a => match findIdxCp (LunarUtil.NUMBER_cp.take 10) [c] with
    | some d => some (a * 10 + d)
    | none => none

theorem parseYearCp_eq (cs : List Nat) : parseYearCp cs = cs.foldl pstep (some 0) := rfl

theorem fold_digits (ds : List Nat) (hds : ∀ d ∈ ds, d < 10) (a : Nat) :
    (ds.flatMap digitCp).foldl pstep (some a) = some (ds.foldl (fun a d => a * 10 + d) a) := by
  induction ds generalizing a with
  | nil => rfl
  | cons d ds ih =>
    obtain ⟨c, hc, _, hf⟩ := digit_spec d (hds d (by simp))
    have hs : pstep (some a) c = some (a * 10 + d) := by simp [pstep, hf]
    simp only [List.flatMap_cons, hc, List.foldl_append, List.foldl_cons, List.foldl_nil, hs]
    exact ih (fun x hx => hds x (by simp [hx])) _

theorem nian_not_mem_digits (ds : List Nat) (hds : ∀ d ∈ ds, d < 10) : cpNian ∉ ds.flatMap digitCp := by
  intro hmem
  rw [List.mem_flatMap] at hmem
  obtain ⟨d, hd, hm⟩ := hmem
  obtain ⟨c, hc, hne, _⟩ := digit_spec d (hds d hd)
  rw [hc] at hm
  simp at hm
  exact hne hm.symm

theorem digits_flat_ne_nil (ds : List Nat) (hds : ∀ d ∈ ds, d < 10) (hne : ds ≠ []) :
    (ds.flatMap digitCp).isEmpty = false := by
  cases ds with
  | nil => exact absurd rfl hne
  | cons d ds =>
    obtain ⟨c, hc, _, _⟩ := digit_spec d (hds d (by simp))
    simp [List.flatMap_cons, hc]

/-- with enough fuel, `digitsFuel` is the base-10 digit list -/
theorem digitsFuel_spec : ∀ fuel n, n < fuel →
    (digitsFuel fuel n).foldl (fun a d => a * 10 + d) 0 = n ∧ (∀ d ∈ digitsFuel fuel n, d < 10) ∧ digitsFuel fuel n ≠ []
  | 0, n, h => absurd h (Nat.not_lt_zero _)
  | fuel + 1, n, h => by
    unfold digitsFuel
    split
    · next hlt =>
      refine ⟨by simp, ?_, by simp⟩
      intro d hd; simp at hd; omega
    · next hge =>
      obtain ⟨h1, h2, h3⟩ := digitsFuel_spec fuel (n / 10) (by omega)
      refine ⟨?_, ?_, by simp⟩
      · rw [List.foldl_append, h1]; simp; omega
      · intro d hd
        rw [List.mem_append] at hd
        rcases hd with hd | hd
        · exact h2 d hd
        · simp at hd; omega

theorem digitsOf_spec (n : Nat) :
    (digitsOf n).foldl (fun a d => a * 10 + d) 0 = n ∧ (∀ d ∈ digitsOf n, d < 10) ∧ digitsOf n ≠ [] :=
  digitsFuel_spec (n + 1) n (Nat.lt_succ_self n)

/-- the digit rendering of a year parses back -/
theorem parseYear_yearCp (y : Nat) : parseYearCp (yearCp (y : Int)) = some y := by
  obtain ⟨h1, h2, _⟩ := digitsOf_spec y
  rw [yearCp_eq, parseYearCp_eq, Int.toNat_natCast, fold_digits _ h2, h1]

/-! ### splitting at a separator -/

theorem splitAt1_append (sep : Nat) (a b : List Nat) (h : sep ∉ a) : splitAt1 sep (a ++ sep :: b) = some (a, b) := by
  induction a with
  | nil => simp [splitAt1]
  | cons c cs ih =>
    have hc : c ≠ sep := fun e => h (by simp [e])
    have hcs : sep ∉ cs := fun e => h (by simp [e])
    simp [splitAt1, hc, ih hcs]

/-! ### month and day part: finite check -/

/-- the month/day part of `parseLunarCp` -/
def restParse2 (rest : List Nat) : Option (Int × Int) :=
  match (if rest.head? == some cpRun then (true, rest.drop 1) else (false, rest)) with
  | (leap, rest') =>
    match splitAt1 cpYue rest' with
    | none => none
    | some (ms, ds) =>
      match findIdxCp LunarUtil.MONTH_cp ms, findIdxCp LunarUtil.DAY_cp ds with
      | some m, some d => if m == 0 || d == 0 then none else some (if leap then -(m : Int) else (m : Int), (d : Int))
      | _, _ => none

theorem parseLunarCp_eq (cs : List Nat) : parseLunarCp cs =
    match splitAt1 cpNian cs with
    | none => none
    | some (ys, rest) =>
      match parseYearCp ys with
      | none => none
      | some y => if ys.isEmpty then none else (restParse2 rest).map fun p => ((y : Int), p.1, p.2) := by
  unfold parseLunarCp restParse2
  cases splitAt1 cpNian cs with
  | none => rfl
  | some p =>
    obtain ⟨ys, rest⟩ := p
    simp only []
    cases parseYearCp ys with
    | none => rfl
    | some y =>
      by_cases hl : (rest.head? == some cpRun) = true
      · simp only [hl, if_true]
        cases splitAt1 cpYue (List.drop 1 rest) with
        | none => cases ys.isEmpty <;> simp
        | some q =>
          obtain ⟨ms, ds⟩ := q
          simp only []
          cases findIdxCp LunarUtil.MONTH_cp ms <;> cases findIdxCp LunarUtil.DAY_cp ds <;> cases ys.isEmpty <;> simp <;> split <;> simp
      · simp only [hl, Bool.false_eq_true, if_false]
        cases splitAt1 cpYue rest with
        | none => cases ys.isEmpty <;> simp
        | some q =>
          obtain ⟨ms, ds⟩ := q
          simp only []
          cases findIdxCp LunarUtil.MONTH_cp ms <;> cases findIdxCp LunarUtil.DAY_cp ds <;> cases ys.isEmpty <;> simp <;> split <;> simp

/-- all 24 months (12 plain, 12 leap) x 30 days: the month/day part parses back -/
theorem restParse2_all : ∀ mi, mi < 12 → ∀ di, di < 30 →
    restParse2 (monthCp ((mi + 1 : Nat) : Int) ++ cpYue :: dayCp ((di + 1 : Nat) : Int))
      = some (((mi + 1 : Nat) : Int), ((di + 1 : Nat) : Int)) ∧
    restParse2 (monthCp (-((mi + 1 : Nat) : Int)) ++ cpYue :: dayCp ((di + 1 : Nat) : Int))
      = some (-((mi + 1 : Nat) : Int), ((di + 1 : Nat) : Int)) := by
  decide +kernel

theorem restParse2_md (m d : Int) (hm : (1 ≤ m ∧ m ≤ 12) ∨ (-12 ≤ m ∧ m ≤ -1)) (hd : 1 ≤ d ∧ d ≤ 30) :
    restParse2 (monthCp m ++ cpYue :: dayCp d) = some (m, d) := by
  have hdd : d = (((d.toNat - 1) + 1 : Nat) : Int) := by omega
  have hdl : d.toNat - 1 < 30 := by omega
  rcases hm with hm | hm
  · have hmm : m = (((m.toNat - 1) + 1 : Nat) : Int) := by omega
    have hml : m.toNat - 1 < 12 := by omega
    have := (restParse2_all _ hml _ hdl).1
    rw [← hmm, ← hdd] at this
    exact this
  · have hmm : m = -(((((-m).toNat - 1) + 1 : Nat)) : Int) := by omega
    have hml : (-m).toNat - 1 < 12 := by omega
    have := (restParse2_all _ hml _ hdl).2
    rw [← hmm, ← hdd] at this
    exact this

theorem lunarCp_eq (y m d : Int) :
    lunarCp y m d = yearCp y ++ cpNian :: (monthCp m ++ cpYue :: dayCp d) := by
  simp [lunarCp, List.append_assoc]

/-- the whole rendering parses back to the same year, month (negative = leap) and day, for every
year ≥ 0, month ±1..±12, day 1..30 -/
theorem parse_lunarCp (y m d : Int) (hy : 0 ≤ y) (hm : (1 ≤ m ∧ m ≤ 12) ∨ (-12 ≤ m ∧ m ≤ -1)) (hd : 1 ≤ d ∧ d ≤ 30) :
    parseLunarCp (lunarCp y m d) = some (y, m, d) := by
  obtain ⟨h1, h2, h3⟩ := digitsOf_spec y.toNat
  have hsplit : splitAt1 cpNian (lunarCp y m d) = some (yearCp y, monthCp m ++ cpYue :: dayCp d) := by
    rw [lunarCp_eq]
    exact splitAt1_append _ _ _ (by rw [yearCp_eq]; exact nian_not_mem_digits _ h2)
  have hyear : parseYearCp (yearCp y) = some y.toNat := by
    have := parseYear_yearCp y.toNat
    rwa [Int.toNat_of_nonneg hy] at this
  have hne : (yearCp y).isEmpty = false := by
    rw [yearCp_eq]; exact digits_flat_ne_nil _ h2 h3
  rw [parseLunarCp_eq, hsplit]
  simp only [hyear, hne, restParse2_md m d hm hd, Option.map_some, Bool.false_eq_true, if_false]
  rw [Int.toNat_of_nonneg hy]

/-- hence distinct dates never print alike -/
theorem lunarCp_inj (y m d y' m' d' : Int) (hy : 0 ≤ y) (hy' : 0 ≤ y')
    (hm : (1 ≤ m ∧ m ≤ 12) ∨ (-12 ≤ m ∧ m ≤ -1)) (hm' : (1 ≤ m' ∧ m' ≤ 12) ∨ (-12 ≤ m' ∧ m' ≤ -1))
    (hd : 1 ≤ d ∧ d ≤ 30) (hd' : 1 ≤ d' ∧ d' ≤ 30) (h : lunarCp y m d = lunarCp y' m' d') : (y, m, d) = (y', m', d') := by
  have h1 := parse_lunarCp y m d hy hm hd
  have h2 := parse_lunarCp y' m' d' hy' hm' hd'
  rw [h] at h1
  rw [h1] at h2
  exact Option.some.inj h2

/-- sanity: the code-point rendering is the string the Go code prints -/
example : cpToString (lunarCp 2020 (-4) 1) = "二〇二〇年闰四月初一" := by decide

end Model

#print axioms Model.number_tbl_ok
#print axioms Model.month_tbl_ok
#print axioms Model.day_tbl_ok
#print axioms Model.parseYear_yearCp
#print axioms Model.parse_lunarCp
#print axioms Model.lunarCp_inj
