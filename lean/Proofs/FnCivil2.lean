/-
Proofs.FnCivil2 — equivalence of the machine-generated `Gen.Fn` civil-date stepping functions
(`SolarMonth.Next`, `Solar.NextYear/NextMonth/NextDay/NextHour`, `Yun.GetStartSolar`,
`SolarYear/SolarHalfYear/SolarSeason`) with the hand-written model (`Model.Civil`, `Model.Week`,
`Model.EightChar`).  Helper lemmas are prefixed `c2_`.
-/
import Proofs.FnCivil1
import Proofs.FnSolarMonth
import Model.Week
import Model.EightChar

namespace FnEq

/-! ## 2. Solar.NextYear -/

theorem c2_not_eq_comm {a b : Int} (h : ¬ a = b) : ¬ b = a := fun e => h e.symm

theorem solarNextYear_eq (s : Gen.Fn.Solar) (years : Int) :
    Gen.Fn.calendar_Solar_NextYear s years = (match (toM s).nextYear years with
      | some r => .ok (ofM r) | none => .error .panic) := by
  simp only [Gen.Fn.calendar_Solar_NextYear, Model.Solar.nextYear, getYear_eq, getMonth_eq,
    getDay_eq, getHour_eq, getMinute_eq, getSecond_eq, c1_ok_bind, isLeapYear_eq, toM_year,
    toM_month, toM_day, toM_hour, toM_minute, toM_second]
  by_cases c1 : s.year + years = 1582 ∧ s.month = 10
  · obtain ⟨e1, e2⟩ := c1
    by_cases c2 : s.day > 4 ∧ s.day < 15
    · simp [e1, e2, c2, newSolar_eq]; rfl
    · simp [e1, e2, c2, newSolar_eq]; rfl
  · have c1' : ¬ (1582 = s.year + years ∧ 10 = s.month) := fun e => c1 ⟨e.1.symm, e.2.symm⟩
    by_cases c2 : s.month = 2
    · by_cases c3 : s.day > 28
      · by_cases hl : Model.isLeapYear (s.year + years) = true <;>
          simp [c2, c3, hl, newSolar_eq] <;> rfl
      · simp [c2, c3, newSolar_eq]; rfl
    · have c2' : ¬ (2 = s.month) := c2_not_eq_comm c2
      simp [c1, c1', c2, c2', newSolar_eq]; rfl

/-! ## 3. Solar.NextMonth -/

theorem c2_newSolar_none_of_month (y m d h mi s : Int) (hm : m < 1 ∨ 12 < m) :
    Model.newSolar y m d h mi s = none := by
  have h1 : ¬ (1 ≤ m ∧ m ≤ 12) := by omega
  simp only [Model.newSolar, Model.validYmd]
  by_cases h2 : 1 ≤ m
  · have h3 : ¬ m ≤ 12 := by omega
    simp [h3]
  · simp [h2]

theorem solarNextMonth_eq (s : Gen.Fn.Solar) (months : Int) :
    Gen.Fn.calendar_Solar_NextMonth s months = (match (toM s).nextMonth months with
      | some r => .ok (ofM r) | none => .error .panic) := by
  simp only [Gen.Fn.calendar_Solar_NextMonth, Model.Solar.nextMonth, getYear_eq, getMonth_eq,
    getDay_eq, getHour_eq, getMinute_eq, getSecond_eq, c1_ok_bind, toM_year,
    toM_month, toM_day, toM_hour, toM_minute, toM_second, newSolarMonthFromYm_eq,
    solarMonthNext_eq, solarMonthGetYear_eq, solarMonthGetMonth_eq]
  by_cases c1 : (Model.nextYm s.year s.month months).1 = 1582 ∧
      (Model.nextYm s.year s.month months).2 = 10
  · obtain ⟨e1, e2⟩ := c1
    by_cases c2 : s.day > 4 ∧ s.day < 15
    · simp [e1, e2, c2, newSolar_eq]; rfl
    · simp [e1, e2, c2, newSolar_eq]; rfl
  · have c1' : ¬ (1582 = (Model.nextYm s.year s.month months).1 ∧
        10 = (Model.nextYm s.year s.month months).2) := fun e => c1 ⟨e.1.symm, e.2.symm⟩
    by_cases hm : 1 ≤ (Model.nextYm s.year s.month months).2 ∧
        (Model.nextYm s.year s.month months).2 ≤ 12
    · by_cases c3 : s.day > Model.daysOfMonth (Model.nextYm s.year s.month months).1
          (Model.nextYm s.year s.month months).2
      · simp [c1, c1', c3, getDaysOfMonth_eq _ _ hm.1 hm.2, newSolar_eq]; rfl
      · simp [c1, c1', c3, getDaysOfMonth_eq _ _ hm.1 hm.2, newSolar_eq]; rfl
    · have hm' : (Model.nextYm s.year s.month months).2 < 1 ∨
          12 < (Model.nextYm s.year s.month months).2 := by omega
      simp [c1, c1', getDaysOfMonth_panic _ _ hm', c2_newSolar_none_of_month _ _ _ _ _ _ hm']

/-! ## 4. Solar.NextDay -/

theorem c2_dom_ge (y m : Int) (h1 : 1 ≤ m) (h12 : m ≤ 12) : 21 ≤ Model.daysOfMonth y m := by
  have : m = 1 ∨ m = 2 ∨ m = 3 ∨ m = 4 ∨ m = 5 ∨ m = 6 ∨ m = 7 ∨ m = 8 ∨ m = 9 ∨ m = 10 ∨
      m = 11 ∨ m = 12 := by omega
  unfold Model.daysOfMonth Model.baseDaysOfMonth
  rcases this with h | h | h | h | h | h | h | h | h | h | h | h <;> subst h <;>
    simp <;> repeat' split
  all_goals omega

/-- exit condition of the forward loop -/
def c2_fwdTerm (r : Int × Int × Int) : Prop := r.2.2 ≤ Model.daysOfMonth r.1 r.2.1
/-- exit condition of the backward loop -/
def c2_bwdTerm (n : Int) (r : Int × Int × Int) : Prop := 0 < r.2.2 + n

/-- `Model.fwdLoop` with `k` units of fuel has left the loop when `d ≤ daysOfMonth y m + k`. -/
theorem c2_fwd_term (k : Nat) : ∀ (y m d : Int), 1 ≤ m → m ≤ 12 →
    d ≤ Model.daysOfMonth y m + k → c2_fwdTerm (Model.fwdLoop k y m d) := by
  induction k with
  | zero => intro y m d _ _ h; simp only [Model.fwdLoop, c2_fwdTerm]; omega
  | succ k ih =>
    intro y m d h1 h12 h
    simp only [Model.fwdLoop]
    by_cases c : d > Model.daysOfMonth y m
    · rw [if_pos c]
      have := c2_dom_ge y m h1 h12
      by_cases c2 : m + 1 > 12
      · rw [if_pos c2]
        have := c2_dom_ge (y + 1) 1 (by omega) (by omega)
        exact ih _ _ _ (by omega) (by omega) (by omega)
      · rw [if_neg c2]
        have := c2_dom_ge y (m + 1) (by omega) (by omega)
        exact ih _ _ _ (by omega) (by omega) (by omega)
    · rw [if_neg c]; simp only [c2_fwdTerm]; omega

/-- `Model.bwdLoop` with `k` units of fuel has left the loop when `0 < d + n + k`. -/
theorem c2_bwd_term (k : Nat) (n : Int) : ∀ (y m d : Int), m ≤ 13 →
    0 < d + n + k → c2_bwdTerm n (Model.bwdLoop k y m d n) := by
  induction k with
  | zero => intro y m d _ h; simp only [Model.bwdLoop, c2_bwdTerm]; omega
  | succ k ih =>
    intro y m d h13 h
    simp only [Model.bwdLoop]
    by_cases c : d + n ≤ 0
    · rw [if_pos c]
      by_cases c2 : m - 1 < 1
      · rw [if_pos c2]
        have := c2_dom_ge (y - 1) 12 (by omega) (by omega)
        exact ih _ _ _ (by omega) (by omega)
      · rw [if_neg c2]
        have := c2_dom_ge y (m - 1) (by omega) (by omega)
        exact ih _ _ _ (by omega) (by omega)
    · rw [if_neg c]; simp only [c2_bwdTerm]; omega

/-- body of the translated loop `for d > daysInMonth { … }`; state `(y, m, d, daysInMonth, done)` -/
abbrev c2_fwdStep : Nat → Int × Int × Int × Int × Bool →
    Except Gen.Fn.Err (ForInStep (Int × Int × Int × Int × Bool)) := fun _ st =>
  if (!decide (st.snd.snd.fst > st.snd.snd.snd.fst)) = true then
    pure (ForInStep.done (st.fst, st.snd.fst, st.snd.snd.fst, st.snd.snd.snd.fst, true))
  else
    if decide (st.snd.fst + 1 > 12) = true then do
      let t7 ← Gen.Fn.SolarUtil_GetDaysOfMonth (st.fst + 1) 1
      pure (ForInStep.yield (st.fst + 1, 1, st.snd.snd.fst - st.snd.snd.snd.fst, t7, st.snd.snd.snd.snd))
    else do
      let t7 ← Gen.Fn.SolarUtil_GetDaysOfMonth st.fst (st.snd.fst + 1)
      pure (ForInStep.yield (st.fst, st.snd.fst + 1, st.snd.snd.fst - st.snd.snd.snd.fst, t7, st.snd.snd.snd.snd))

/-- body of the translated loop `for d+days <= 0 { … }`; state `(y, m, d, done)` -/
abbrev c2_bwdStep (n : Int) : Nat → Int × Int × Int × Bool →
    Except Gen.Fn.Err (ForInStep (Int × Int × Int × Bool)) := fun _ st =>
  if (!decide (st.snd.snd.fst + n ≤ 0)) = true then
    pure (ForInStep.done (st.fst, st.snd.fst, st.snd.snd.fst, true))
  else
    if decide (st.snd.fst - 1 < 1) = true then do
      let t10 ← Gen.Fn.SolarUtil_GetDaysOfMonth (st.fst - 1) 12
      pure (ForInStep.yield (st.fst - 1, 12, st.snd.snd.fst + t10, st.snd.snd.snd))
    else do
      let t10 ← Gen.Fn.SolarUtil_GetDaysOfMonth st.fst (st.snd.fst - 1)
      pure (ForInStep.yield (st.fst, st.snd.fst - 1, st.snd.snd.fst + t10, st.snd.snd.snd))

theorem c2_fwd_list (fuel : Nat) : ∀ (i k : Nat) (y m d : Int), 1 ≤ m → m ≤ 12 → k < fuel →
    c2_fwdTerm (Model.fwdLoop k y m d) →
    forIn (List.range' i fuel 1) (y, m, d, Model.daysOfMonth y m, false) c2_fwdStep =
      .ok ((Model.fwdLoop k y m d).1, (Model.fwdLoop k y m d).2.1, (Model.fwdLoop k y m d).2.2,
        Model.daysOfMonth (Model.fwdLoop k y m d).1 (Model.fwdLoop k y m d).2.1, true) := by
  induction fuel with
  | zero => intro i k y m d _ _ hk; omega
  | succ fuel ih =>
    intro i k y m d h1 h12 hk ht
    rw [List.range'_succ, List.forIn_cons]
    by_cases c : d > Model.daysOfMonth y m
    · cases k with
      | zero => simp only [Model.fwdLoop, c2_fwdTerm] at ht; omega
      | succ k =>
        simp only [Model.fwdLoop, if_pos c] at ht ⊢
        by_cases c2 : m + 1 > 12
        · simp only [if_pos c2] at ht ⊢
          simp only [c2_fwdStep, c, c2, decide_true, Bool.not_true, Bool.false_eq_true, if_false,
            if_true, getDaysOfMonth_eq (y + 1) 1 (by omega) (by omega), c1_ok_bind, c1_pure]
          exact ih _ k _ _ _ (by omega) (by omega) (by omega) ht
        · simp only [if_neg c2] at ht ⊢
          simp only [c2_fwdStep, c, c2, decide_true, decide_false, Bool.not_true,
            Bool.false_eq_true, if_false,
            getDaysOfMonth_eq y (m + 1) (by omega) (by omega), c1_ok_bind, c1_pure]
          exact ih _ k _ _ _ (by omega) (by omega) (by omega) ht
    · have e : Model.fwdLoop k y m d = (y, m, d) := by
        cases k with
        | zero => rfl
        | succ k => simp only [Model.fwdLoop, if_neg c]
      rw [e]
      simp only [c2_fwdStep, c, decide_false, Bool.not_false, if_true, c1_pure, c1_ok_bind]

theorem c2_bwd_list (n : Int) (fuel : Nat) : ∀ (i k : Nat) (y m d : Int), m ≤ 13 → k < fuel →
    c2_bwdTerm n (Model.bwdLoop k y m d n) →
    forIn (List.range' i fuel 1) (y, m, d, false) (c2_bwdStep n) =
      .ok ((Model.bwdLoop k y m d n).1, (Model.bwdLoop k y m d n).2.1,
        (Model.bwdLoop k y m d n).2.2, true) := by
  induction fuel with
  | zero => intro i k y m d _ hk; omega
  | succ fuel ih =>
    intro i k y m d h13 hk ht
    rw [List.range'_succ, List.forIn_cons]
    by_cases c : d + n ≤ 0
    · cases k with
      | zero => simp only [Model.bwdLoop, c2_bwdTerm] at ht; omega
      | succ k =>
        simp only [Model.bwdLoop, if_pos c] at ht ⊢
        by_cases c2 : m - 1 < 1
        · simp only [if_pos c2] at ht ⊢
          simp only [c2_bwdStep, c, c2, decide_true, Bool.not_true, Bool.false_eq_true, if_false,
            if_true, getDaysOfMonth_eq (y - 1) 12 (by omega) (by omega), c1_ok_bind, c1_pure]
          exact ih _ k _ _ _ (by omega) (by omega) ht
        · simp only [if_neg c2] at ht ⊢
          simp only [c2_bwdStep, c, c2, decide_true, decide_false, Bool.not_true,
            Bool.false_eq_true, if_false,
            getDaysOfMonth_eq y (m - 1) (by omega) (by omega), c1_ok_bind, c1_pure]
          exact ih _ k _ _ _ (by omega) (by omega) ht
    · have e : Model.bwdLoop k y m d n = (y, m, d) := by
        cases k with
        | zero => rfl
        | succ k => simp only [Model.bwdLoop, if_neg c]
      rw [e]
      simp only [c2_bwdStep, c, decide_false, Bool.not_false, if_true, c1_pure, c1_ok_bind]

theorem c2_fwd_forIn (fuel k : Nat) (y m d : Int) (h1 : 1 ≤ m) (h12 : m ≤ 12) (hk : k < fuel)
    (ht : c2_fwdTerm (Model.fwdLoop k y m d)) :
    forIn [:fuel] (y, m, d, Model.daysOfMonth y m, false) c2_fwdStep =
      .ok ((Model.fwdLoop k y m d).1, (Model.fwdLoop k y m d).2.1, (Model.fwdLoop k y m d).2.2,
        Model.daysOfMonth (Model.fwdLoop k y m d).1 (Model.fwdLoop k y m d).2.1, true) := by
  rw [Std.Legacy.Range.forIn_eq_forIn_range']
  have := c2_fwd_list fuel 0 k y m d h1 h12 hk ht
  simpa [Std.Legacy.Range.size] using this

theorem c2_bwd_forIn (n : Int) (fuel k : Nat) (y m d : Int) (h13 : m ≤ 13) (hk : k < fuel)
    (ht : c2_bwdTerm n (Model.bwdLoop k y m d n)) :
    forIn [:fuel] (y, m, d, false) (c2_bwdStep n) =
      .ok ((Model.bwdLoop k y m d n).1, (Model.bwdLoop k y m d n).2.1,
        (Model.bwdLoop k y m d n).2.2, true) := by
  rw [Std.Legacy.Range.forIn_eq_forIn_range']
  have := c2_bwd_list n fuel 0 k y m d h13 hk ht
  simpa [Std.Legacy.Range.size] using this

theorem c2_valid_facts (y m d h mi sec : Int)
    (hv : (Model.Solar.mk y m d h mi sec).valid = true) :
    1 ≤ m ∧ m ≤ 12 ∧ 1 ≤ d ∧
      (if y = 1582 ∧ m = 10 then (d ≤ 4 ∨ 15 ≤ d) ∧ d ≤ 31 else d ≤ Model.daysOfMonth y m) := by
  simp only [Model.Solar.valid, Model.validYmd, Bool.and_eq_true, decide_eq_true_eq] at hv
  obtain ⟨⟨⟨⟨⟨a, b⟩, c⟩, e⟩, f⟩, _⟩ := hv
  refine ⟨a, b, c, ?_⟩
  by_cases c1 : y = 1582 ∧ m = 10
  · rw [if_pos c1] at f ⊢
    simp only [Bool.not_eq_true', Bool.and_eq_false_iff, decide_eq_false_iff_not] at f
    omega
  · rw [if_neg c1] at f ⊢
    simpa using f

/-- the (year, month, day) triple before the final 1582-10 renumbering -/
def c2_mid (s : Model.Solar) (n : Int) : Int × Int × Int :=
  if n > 0 then
    Model.fwdLoop (n.toNat + 1) s.year s.month
      ((if s.year = 1582 ∧ s.month = 10 ∧ s.day > 4 then s.day - 10 else s.day) + n)
  else if n < 0 then
    ((Model.bwdLoop (n.natAbs + 1) s.year s.month
        (if s.year = 1582 ∧ s.month = 10 ∧ s.day > 4 then s.day - 10 else s.day) n).1,
     (Model.bwdLoop (n.natAbs + 1) s.year s.month
        (if s.year = 1582 ∧ s.month = 10 ∧ s.day > 4 then s.day - 10 else s.day) n).2.1,
     (Model.bwdLoop (n.natAbs + 1) s.year s.month
        (if s.year = 1582 ∧ s.month = 10 ∧ s.day > 4 then s.day - 10 else s.day) n).2.2 + n)
  else (s.year, s.month, if s.year = 1582 ∧ s.month = 10 ∧ s.day > 4 then s.day - 10 else s.day)

theorem c2_nextDay_model (s : Model.Solar) (n : Int) :
    s.nextDay n = Model.newSolar (c2_mid s n).1 (c2_mid s n).2.1
      (if (c2_mid s n).1 = 1582 ∧ (c2_mid s n).2.1 = 10 ∧ (c2_mid s n).2.2 > 4
        then (c2_mid s n).2.2 + 10 else (c2_mid s n).2.2) s.hour s.minute s.second := by
  unfold Model.Solar.nextDay Model.nextDayYmd c2_mid
  by_cases h1 : n > 0
  · simp only [h1, if_true]
  · by_cases h2 : n < 0
    · simp only [h1, h2, if_true, if_false]
    · simp only [h1, h2, if_false]

/-- the tail of `NextDay`: undo the 1582-10 renumbering and build the result -/
theorem c2_final_eq (y1 m1 d1 h mi sec : Int) :
    (if (decide (1582 = y1) && decide (10 = m1)) = true then
        if decide (d1 > 4) = true then Gen.Fn.calendar_NewSolar y1 m1 (d1 + 10) h mi sec
        else Gen.Fn.calendar_NewSolar y1 m1 d1 h mi sec
      else Gen.Fn.calendar_NewSolar y1 m1 d1 h mi sec) =
    (match Model.newSolar y1 m1 (if y1 = 1582 ∧ m1 = 10 ∧ d1 > 4 then d1 + 10 else d1) h mi sec with
      | some r => .ok (ofM r) | none => .error .panic) := by
  by_cases c1 : y1 = 1582 ∧ m1 = 10
  · obtain ⟨rfl, rfl⟩ := c1
    by_cases c2 : d1 > 4 <;> simp [c2, newSolar_eq] <;> rfl
  · have hb : (decide (1582 = y1) && decide (10 = m1)) = false := by
      simpa using fun e : 1582 = y1 => fun e2 : 10 = m1 => c1 ⟨e.symm, e2.symm⟩
    have c1'' : ¬ (y1 = 1582 ∧ m1 = 10 ∧ d1 > 4) := fun e => c1 ⟨e.1, e.2.1⟩
    simp only [hb, Bool.false_eq_true, if_false, if_neg c1'', newSolar_eq]
    rfl

/-- `NextDay` once the 1582-10 pre-adjusted day `d0` is known (`hb`, `hd4` select the branch the
Go code takes, `hd0` the one the model takes). -/
theorem c2_nextDay_aux (fuel : Nat) (y m d h mi sec n d0 : Int) (b1 b2 : Bool)
    (hb : (decide (1582 = y) && decide (10 = m)) = b1) (hd4 : decide (d > 4) = b2)
    (hd0 : (if y = 1582 ∧ m = 10 ∧ d > 4 then d - 10 else d) = d0)
    (hd0' : (if b1 = true then if b2 = true then d - 10 else d else d) = d0)
    (h1 : 1 ≤ m) (h12 : m ≤ 12) (hlo : 1 ≤ d0) (hhi : d0 ≤ Model.daysOfMonth y m)
    (hf : n.natAbs + 2 ≤ fuel) :
    Gen.Fn.calendar_Solar_NextDay fuel ⟨y, m, d, h, mi, sec⟩ n =
      (match (Model.Solar.mk y m d h mi sec).nextDay n with
        | some r => .ok (ofM r) | none => .error .panic) := by
  rcases Int.lt_trichotomy n 0 with hn | hn | hn
  · have hn' : ¬ n > 0 := by omega
    have ht := c2_bwd_term (n.natAbs + 1) n y m d0 (by omega) (by omega)
    have hl := c2_bwd_forIn n fuel (n.natAbs + 1) y m d0 (by omega) (by omega) ht
    subst hd0'
    cases b1 <;> cases b2 <;>
    simp only [Gen.Fn.calendar_Solar_NextDay, getYear_eq, getMonth_eq,
      getDay_eq, getHour_eq, getMinute_eq, getSecond_eq, c1_ok_bind, hn, hn', hb, hd4,
      decide_true, decide_false, Bool.false_eq_true, if_false, if_true] <;>
    simp only [Bool.false_eq_true, if_false, if_true] at hl <;>
    rw [hl] <;>
    simp only [c1_ok_bind, Bool.not_true, Bool.false_eq_true, if_false, c2_final_eq,
      c2_nextDay_model, c2_mid, hn, hn', if_true, hd0]
  · subst hn
    subst hd0'
    cases b1 <;> cases b2 <;>
    simp only [Gen.Fn.calendar_Solar_NextDay, getYear_eq, getMonth_eq,
      getDay_eq, getHour_eq, getMinute_eq, getSecond_eq, c1_ok_bind, hb, hd4, Int.lt_irrefl,
      gt_iff_lt, decide_false, Bool.false_eq_true, if_false, if_true,
      c2_final_eq, c2_nextDay_model, c2_mid, hd0]
  · have ht := c2_fwd_term (n.toNat + 1) y m (d0 + n) h1 h12 (by omega)
    have hl := c2_fwd_forIn fuel (n.toNat + 1) y m (d0 + n) h1 h12 (by omega) ht
    have hn' : n > 0 := hn
    subst hd0'
    cases b1 <;> cases b2 <;>
    simp only [Gen.Fn.calendar_Solar_NextDay, getYear_eq, getMonth_eq,
      getDay_eq, getHour_eq, getMinute_eq, getSecond_eq, c1_ok_bind, hn', hb, hd4,
      getDaysOfMonth_eq y m h1 h12,
      decide_true, Bool.false_eq_true, if_false, if_true] <;>
    simp only [Bool.false_eq_true, if_false, if_true] at hl <;>
    rw [hl] <;>
    simp only [c1_ok_bind, Bool.not_true, Bool.false_eq_true, if_false, c2_final_eq,
      c2_nextDay_model, c2_mid, hn', if_true, hd0]

/-- `Solar.NextDay` under the weakest guard the proof needs: month in range and the
(1582-10-renumbered) day within `1 … daysOfMonth`.  Every valid date satisfies it
(`solarNextDay_eq`).  `fuel` bounds the translated `for cond {}` loops; the model's own fuel is
`n.natAbs + 1` loop tests, the translated loop needs one more iteration to observe the exit. -/
theorem solarNextDay_eq' (fuel : Nat) (s : Gen.Fn.Solar) (n : Int)
    (h1 : 1 ≤ s.month) (h12 : s.month ≤ 12)
    (hlo : 1 ≤ (if s.year = 1582 ∧ s.month = 10 ∧ s.day > 4 then s.day - 10 else s.day))
    (hhi : (if s.year = 1582 ∧ s.month = 10 ∧ s.day > 4 then s.day - 10 else s.day) ≤
      Model.daysOfMonth s.year s.month)
    (hf : n.natAbs + 2 ≤ fuel) :
    Gen.Fn.calendar_Solar_NextDay fuel s n = (match (toM s).nextDay n with
      | some r => .ok (ofM r) | none => .error .panic) := by
  obtain ⟨y, m, d, h, mi, sec⟩ := s
  simp only at h1 h12 hlo hhi
  by_cases c1 : y = 1582 ∧ m = 10
  · have hb : (decide (1582 = y) && decide (10 = m)) = true := by simp [c1.1, c1.2]
    by_cases c2 : d > 4
    · have c3 : y = 1582 ∧ m = 10 ∧ d > 4 := ⟨c1.1, c1.2, c2⟩
      rw [if_pos c3] at hlo hhi
      exact c2_nextDay_aux fuel y m d h mi sec n (d - 10) true true hb (by simp [c2])
        (by simp [c1, c2]) (by simp) h1 h12 hlo hhi hf
    · have c3 : ¬ (y = 1582 ∧ m = 10 ∧ d > 4) := fun e => c2 e.2.2
      rw [if_neg c3] at hlo hhi
      exact c2_nextDay_aux fuel y m d h mi sec n d true false hb (by simp [c2])
        (by simp [c2]) (by simp) h1 h12 hlo hhi hf
  · have hb : (decide (1582 = y) && decide (10 = m)) = false := by
      simpa using fun e : 1582 = y => fun e2 : 10 = m => c1 ⟨e.symm, e2.symm⟩
    have c1'' : ¬ (y = 1582 ∧ m = 10 ∧ d > 4) := fun e => c1 ⟨e.1, e.2.1⟩
    rw [if_neg c1''] at hlo hhi
    exact c2_nextDay_aux fuel y m d h mi sec n d false (decide (d > 4)) hb rfl
        (by simp [c1'']) (by simp) h1 h12 hlo hhi hf

/-- `Solar.NextDay` for a valid receiver (anything `NewSolar` returns). -/
theorem solarNextDay_eq (fuel : Nat) (s : Gen.Fn.Solar) (n : Int)
    (hs : (toM s).valid = true) (hf : n.natAbs + 2 ≤ fuel) :
    Gen.Fn.calendar_Solar_NextDay fuel s n = (match (toM s).nextDay n with
      | some r => .ok (ofM r) | none => .error .panic) := by
  obtain ⟨h1, h12, hd1, hd⟩ := c2_valid_facts s.year s.month s.day s.hour s.minute s.second hs
  have hdom := c2_dom_ge s.year s.month h1 h12
  refine solarNextDay_eq' fuel s n h1 h12 ?_ ?_ hf
  · split <;> rename_i c
    · rw [if_pos ⟨c.1, c.2.1⟩] at hd; omega
    · omega
  · split <;> rename_i c
    · rw [if_pos ⟨c.1, c.2.1⟩] at hd; omega
    · by_cases c1 : s.year = 1582 ∧ s.month = 10
      · rw [if_pos c1] at hd
        have : ¬ s.day > 4 := fun e => c ⟨c1.1, c1.2, e⟩
        omega
      · rw [if_neg c1] at hd; exact hd

theorem c2_newSolar_valid (y m d h mi sec : Int) (r : Model.Solar)
    (e : Model.newSolar y m d h mi sec = some r) : r.valid = true := by
  unfold Model.newSolar at e
  by_cases hv : (Model.validYmd y m d && Model.validHms h mi sec) = true
  · rw [if_pos hv] at e
    injection e with e; subst e; exact hv
  · rw [if_neg hv] at e; cases e

/-- `NextDay` returns a valid date (it ends in `NewSolar`). -/
theorem c2_nextDay_valid (s r : Model.Solar) (n : Int) (h : s.nextDay n = some r) :
    r.valid = true := by
  rw [c2_nextDay_model] at h
  exact c2_newSolar_valid _ _ _ _ _ _ _ h

/-! ## 5. Solar.NextHour -/

theorem solarNextHour_eq (fuel : Nat) (s : Gen.Fn.Solar) (hours : Int)
    (hs : (toM s).valid = true) (hf : (s.hour + hours).natAbs / 24 + 3 ≤ fuel) :
    Gen.Fn.calendar_Solar_NextHour fuel s hours = (match (toM s).nextHour hours with
      | some r => .ok (ofM r) | none => .error .panic) := by
  unfold Model.Solar.nextHour
  simp only [Gen.Fn.calendar_Solar_NextHour, getHour_eq, c1_ok_bind, toM_hour]
  by_cases hneg : s.hour + hours < 0
  · have h0 : (0 : Int) ≤ -(s.hour + hours) := by omega
    simp only [hneg, decide_true, if_true, Int.tdiv_eq_ediv_of_nonneg h0,
      Int.tmod_eq_emod_of_nonneg h0]
    by_cases hh : -(s.hour + hours) % 24 * -1 < 0
    · simp only [hh, decide_true, if_true]
      have hfu : (-(s.hour + hours) / 24 * -1 - 1).natAbs + 2 ≤ fuel := by omega
      rw [solarNextDay_eq fuel s _ hs hfu]
      cases (toM s).nextDay (-(s.hour + hours) / 24 * -1 - 1) with
      | none => rfl
      | some o => simp only [c1_ok_bind, getYear_eq, getMonth_eq, getDay_eq, getMinute_eq,
          getSecond_eq, ofM_year, ofM_month, ofM_day, ofM_minute, ofM_second, newSolar_eq]; rfl
    · simp only [hh, decide_false, Bool.false_eq_true, if_false]
      have hfu : (-(s.hour + hours) / 24 * -1).natAbs + 2 ≤ fuel := by omega
      rw [solarNextDay_eq fuel s _ hs hfu]
      cases (toM s).nextDay (-(s.hour + hours) / 24 * -1) with
      | none => rfl
      | some o => simp only [c1_ok_bind, getYear_eq, getMonth_eq, getDay_eq, getMinute_eq,
          getSecond_eq, ofM_year, ofM_month, ofM_day, ofM_minute, ofM_second, newSolar_eq]; rfl
  · have h0 : (0 : Int) ≤ s.hour + hours := by omega
    have hh : ¬ (s.hour + hours) % 24 * 1 < 0 := by omega
    simp only [hneg, hh, decide_false, Bool.false_eq_true, if_false,
      Int.tdiv_eq_ediv_of_nonneg h0, Int.tmod_eq_emod_of_nonneg h0]
    have hfu : ((s.hour + hours) / 24 * 1).natAbs + 2 ≤ fuel := by omega
    rw [solarNextDay_eq fuel s _ hs hfu]
    cases (toM s).nextDay ((s.hour + hours) / 24 * 1) with
    | none => rfl
    | some o => simp only [c1_ok_bind, getYear_eq, getMonth_eq, getDay_eq, getMinute_eq,
        getSecond_eq, ofM_year, ofM_month, ofM_day, ofM_minute, ofM_second, newSolar_eq]; rfl

end FnEq
