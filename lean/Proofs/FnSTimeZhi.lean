/-
Proofs.FnSTimeZhi — LunarUtil.GetTimeZhiIndex / ConvertTime / computeTime: the hour-branch lookup (string-mode generated code = model / tables; split from the worker's FnS5; helper prefix `s5_`).
-/
import Proofs.FnSBase
import Proofs.FnSFmt
import Model.Lunar
import Model.Almanac
import Model.Fmt

namespace FnSEq
open Gen.Fn (Err)
open Gen.Tables

/-! ## B. `LunarUtil.GetTimeZhiIndex`, `ConvertTime`, `computeTime` -/


theorem s5_list_lt_iff (a b : List Char) : a < b ↔ Model.cmpChars a b = .lt := by
  induction a generalizing b with
  | nil => cases b with
    | nil => simp [Model.cmpChars, List.not_lt_nil]
    | cons y ys => simp [Model.cmpChars, List.nil_lt_cons]
  | cons x xs ih => cases b with
    | nil => simp [Model.cmpChars, List.not_lt_nil]
    | cons y ys =>
      rw [List.cons_lt_cons_iff, Model.cmpChars]
      by_cases h1 : x < y
      · simp [h1]
      · by_cases h2 : y < x
        · have : x ≠ y := fun e => by subst e; exact h1 h2
          simp [h1, h2, this]
        · have : x = y := Char.le_antisymm (Char.not_lt.mp h2) (Char.not_lt.mp h1)
          subst this
          simp [h1, ih]

theorem s5_cmp_eq_iff (a b : List Char) : Model.cmpChars a b = .eq ↔ a = b := by
  induction a generalizing b with
  | nil => cases b <;> simp [Model.cmpChars]
  | cons x xs ih => cases b with
    | nil => simp [Model.cmpChars]
    | cons y ys =>
      rw [Model.cmpChars]
      by_cases h1 : x < y
      · have : x ≠ y := fun e => by subst e; exact Char.lt_irrefl _ h1
        simp [h1, this]
      · by_cases h2 : y < x
        · have : x ≠ y := fun e => by subst e; exact h1 h2
          simp [h1, h2, this]
        · have : x = y := Char.le_antisymm (Char.not_lt.mp h2) (Char.not_lt.mp h1)
          subst this
          simp [h1, ih]

/-- `strings.Compare` of the generated code = the model's `cmpChars` on the character lists -/
theorem strCompare_eq_cmpChars (a b : String) :
    Gen.FnS.strCompare a b = (match Model.cmpChars a.toList b.toList with | .lt => -1 | .eq => 0 | .gt => 1) := by
  unfold Gen.FnS.strCompare
  have h1 : a < b ↔ Model.cmpChars a.toList b.toList = .lt := by rw [String.lt_iff, s5_list_lt_iff]
  have h2 : a = b ↔ Model.cmpChars a.toList b.toList = .eq := by rw [← String.toList_inj, ← s5_cmp_eq_iff]
  simp only [h1, h2]
  cases Model.cmpChars a.toList b.toList <;> simp

theorem s5_ge0 (a b : String) : decide (Gen.FnS.strCompare a b ≥ 0) = Model.strGe a.toList b.toList := by
  rw [strCompare_eq_cmpChars]; unfold Model.strGe
  cases Model.cmpChars a.toList b.toList <;> decide

theorem s5_le0 (a b : String) : decide (Gen.FnS.strCompare a b ≤ 0) = Model.strLe a.toList b.toList := by
  rw [strCompare_eq_cmpChars]; unfold Model.strLe
  cases Model.cmpChars a.toList b.toList <;> decide

theorem s5_c00 : ":00".toList = [':'] ++ Model.padInt 2 0 := by decide
theorem s5_c59 : ":59".toList = [':'] ++ Model.padInt 2 59 := by decide

theorem s5_lo_toList (i : Int) : (Gen.FnS.fmtPad 2 i ++ ":00").toList = Model.fmtHm i 0 := by
  rw [String.toList_append, fmtPad_toList _ _ (by decide), s5_c00]; unfold Model.fmtHm; simp
theorem s5_hi_toList (i : Int) : (Gen.FnS.fmtPad 2 (i + 1) ++ ":59").toList = Model.fmtHm (i + 1) 59 := by
  rw [String.toList_append, fmtPad_toList _ _ (by decide), s5_c59]; unfold Model.fmtHm; simp

/-- the scan over the odd hours 1, 3, …, 21: the generated `for` with early `return` = `Model.timeZhiScan` -/
theorem s5_scan_loop (hm : String) (n s : Nat) (x : Int) (fuel : Nat) (hs : s + n = 11) (hf : n < fuel) :
    (forIn (m := Except Err) (List.range' s n 1) ((none : Option Int), x)
      (fun (k2 : Nat) (__s : Option Int × Int) =>
        if (decide (Gen.FnS.strCompare hm (Gen.FnS.fmtPad 2 (1 + 2 * (k2 : Int)) ++ ":00") ≥ 0) &&
            decide (Gen.FnS.strCompare hm (Gen.FnS.fmtPad 2 (1 + 2 * (k2 : Int) + 1) ++ ":59") ≤ 0)) = true
        then pure (ForInStep.done (some __s.snd, __s.snd))
        else pure (ForInStep.yield (none, __s.snd + 1))) >>= fun __s =>
      match __s.fst with
      | some r => pure r
      | none => pure 0)
    = .ok (Model.timeZhiScan hm.toList fuel (1 + 2 * (s : Int)) x) := by
  induction n generalizing s x fuel with
  | zero =>
    obtain ⟨f, rfl⟩ : ∃ f, fuel = f + 1 := ⟨fuel - 1, by omega⟩
    have : (1 + 2 * (s : Int)) ≥ 22 := by omega
    simp [Model.timeZhiScan, this, pure, Except.pure, bind, Except.bind]
  | succ n ih =>
    obtain ⟨f, rfl⟩ : ∃ f, fuel = f + 1 := ⟨fuel - 1, by omega⟩
    have hi : ¬ (1 + 2 * (s : Int)) ≥ 22 := by omega
    rw [Model.timeZhiScan, if_neg hi, List.range'_succ, List.forIn_cons, s5_ge0, s5_le0, s5_lo_toList, s5_hi_toList]
    by_cases hc : (Model.strGe hm.toList (Model.fmtHm (1 + 2 * (s : Int)) 0) &&
        Model.strLe hm.toList (Model.fmtHm (1 + 2 * (s : Int) + 1) 59)) = true
    · rw [if_pos hc, if_pos hc]; rfl
    · rw [if_neg hc, if_neg hc]
      have := ih (s + 1) (x + 1) f (by omega) (by omega)
      have e : (1 + 2 * ((s + 1 : Nat) : Int)) = 1 + 2 * (s : Int) + 2 := by omega
      rw [e] at this
      exact this

/-- general form: any non-empty key of at most 5 bytes is scanned exactly as the model scans its characters -/
theorem getTimeZhiIndex_scan (hm : String) (hne : hm ≠ "") (hlen : Gen.FnS.strLen hm ≤ 5) :
    Gen.FnS.LunarUtil_GetTimeZhiIndex hm = .ok (Model.timeZhiScan hm.toList 12 1 1) := by
  unfold Gen.FnS.LunarUtil_GetTimeZhiIndex
  have h1 : ¬ ("" = hm) := fun e => hne e.symm
  have h2 : ¬ (Gen.FnS.strLen hm > 5) := by omega
  simp only [h1, h2, decide_false, Bool.false_eq_true, if_false]
  have hr : ((22 - 1 + 1 : Int) / 2).toNat = 11 := by decide
  rw [hr, Std.Legacy.Range.forIn_eq_forIn_range']
  have hsz : (Std.Legacy.Range.size [:11]) = 11 := by decide
  rw [hsz]
  have := s5_scan_loop hm 11 0 1 12 (by decide) (by decide)
  rw [show (1 + 2 * ((0 : Nat) : Int)) = 1 by decide] at this
  refine Eq.trans ?_ this
  congr 1
  funext ⟨a, b⟩
  cases a <;> rfl

theorem getTimeZhiIndex_empty : Gen.FnS.LunarUtil_GetTimeZhiIndex "" = .ok 0 := by
  unfold Gen.FnS.LunarUtil_GetTimeZhiIndex
  simp [pure, Except.pure]

/-! ### the "%02d:%02d" key -/

theorem s5_hm_toList (h mi : Int) :
    (Gen.FnS.fmtPad 2 h ++ ":" ++ Gen.FnS.fmtPad 2 mi).toList = Model.fmtHm h mi := by
  rw [String.toList_append, String.toList_append, fmtPad_toList _ _ (by decide), fmtPad_toList _ _ (by decide), s4_colon]
  rfl

theorem s5_hm_ne (h mi : Int) : Gen.FnS.fmtPad 2 h ++ ":" ++ Gen.FnS.fmtPad 2 mi ≠ "" := by
  intro e
  have := congrArg String.toList e
  rw [s5_hm_toList] at this
  unfold Model.fmtHm at this
  simp at this

theorem s5_digit_size (d : Nat) : (Model.digitChar d).utf8Size = 1 := by
  unfold Model.digitChar
  have : d % 10 = 0 ∨ d % 10 = 1 ∨ d % 10 = 2 ∨ d % 10 = 3 ∨ d % 10 = 4 ∨ d % 10 = 5 ∨ d % 10 = 6 ∨ d % 10 = 7 ∨
      d % 10 = 8 ∨ d % 10 = 9 := by omega
  rcases this with h|h|h|h|h|h|h|h|h|h <;> rw [h] <;> decide

theorem s5_pad2 (n : Int) (h0 : 0 ≤ n) (h1 : n < 100) :
    Model.padInt 2 n = [Model.digitChar (n.toNat / 10), Model.digitChar n.toNat] := by
  unfold Model.padInt Model.padNat
  have : n.toNat < 10 ^ 2 := by omega
  rw [if_pos (show n ≥ 0 from h0), if_pos this]
  simp [Model.fixedDigits, Model.digitChar]

/-- "%02d" of 0..99 is two bytes -/
theorem s5_pad2_size (n : Int) (h0 : 0 ≤ n) (h1 : n < 100) : (Gen.FnS.fmtPad 2 n).utf8ByteSize = 2 := by
  rw [fmtPad_eq _ _ (by decide), s5_pad2 n h0 h1, String.ofList_cons, String.ofList_cons, String.ofList_nil,
    String.utf8ByteSize_append, String.utf8ByteSize_append, String.utf8ByteSize_singleton,
    String.utf8ByteSize_singleton, s5_digit_size, s5_digit_size]
  rfl

theorem s5_hm_len (h mi : Int) (h0 : 0 ≤ h) (h1 : h < 100) (m0 : 0 ≤ mi) (m1 : mi < 100) :
    Gen.FnS.strLen (Gen.FnS.fmtPad 2 h ++ ":" ++ Gen.FnS.fmtPad 2 mi) = 5 := by
  unfold Gen.FnS.strLen
  rw [String.utf8ByteSize_append, String.utf8ByteSize_append, s5_pad2_size h h0 h1, s5_pad2_size mi m0 m1]
  rfl

/-- `LunarUtil.GetTimeZhiIndex(fmt.Sprintf("%02d:%02d", h, mi))` = the model's hour-branch index. The guard
(two-digit fields) keeps the key at 5 bytes so that the Go code's `hm[0:5]` truncation is not taken. -/
theorem getTimeZhiIndex_eq' (h mi : Int) (h0 : 0 ≤ h) (h1 : h < 100) (m0 : 0 ≤ mi) (m1 : mi < 100) :
    Gen.FnS.LunarUtil_GetTimeZhiIndex (Gen.FnS.fmtPad 2 h ++ ":" ++ Gen.FnS.fmtPad 2 mi)
      = .ok (Model.timeZhiIndexOf h mi) := by
  rw [getTimeZhiIndex_scan _ (s5_hm_ne h mi) (by rw [s5_hm_len h mi h0 h1 m0 m1]; decide), s5_hm_toList]
  rfl

theorem getTimeZhiIndex_eq (h mi : Int) (h0 : 0 ≤ h) (h1 : h ≤ 23) (m0 : 0 ≤ mi) (m1 : mi ≤ 59) :
    Gen.FnS.LunarUtil_GetTimeZhiIndex (Gen.FnS.fmtPad 2 h ++ ":" ++ Gen.FnS.fmtPad 2 mi)
      = .ok (Model.timeZhiIndexOf h mi) :=
  getTimeZhiIndex_eq' h mi h0 (by omega) m0 (by omega)

/-! ### range of the scan, `ConvertTime`, `computeTime` -/

theorem s5_scan_range (hm : List Char) : ∀ (fuel : Nat) (i x : Int),
    Model.timeZhiScan hm fuel i x = 0 ∨
      (x ≤ Model.timeZhiScan hm fuel i x ∧ 2 * Model.timeZhiScan hm fuel i x ≤ 2 * x + 21 - i) := by
  intro fuel
  induction fuel with
  | zero => intro i x; exact Or.inl rfl
  | succ f ih =>
    intro i x
    rw [Model.timeZhiScan]
    by_cases hi : i ≥ 22
    · rw [if_pos hi]; exact Or.inl rfl
    · rw [if_neg hi]
      split
      · exact Or.inr ⟨Int.le_refl _, by omega⟩
      · rcases ih (i + 2) (x + 1) with h | h
        · exact Or.inl h
        · exact Or.inr ⟨by omega, by omega⟩

/-- the hour-branch index is always one of 0..11 -/
theorem timeZhiScan_range (hm : List Char) :
    0 ≤ Model.timeZhiScan hm 12 1 1 ∧ Model.timeZhiScan hm 12 1 1 < 12 := by
  rcases s5_scan_range hm 12 1 1 with h | h <;> omega

theorem timeZhiIndexOf_range (h mi : Int) : 0 ≤ Model.timeZhiIndexOf h mi ∧ Model.timeZhiIndexOf h mi < 12 :=
  timeZhiScan_range _

/-- `LunarUtil.ConvertTime(hm)` = the branch name of the scanned index (never panics on a short non-empty key) -/
theorem convertTime_scan (hm : String) (hne : hm ≠ "") (hlen : Gen.FnS.strLen hm ≤ 5) :
    Gen.FnS.LunarUtil_ConvertTime hm = .ok (Model.zhiStr (Model.timeZhiScan hm.toList 12 1 1)) := by
  unfold Gen.FnS.LunarUtil_ConvertTime
  have hr := timeZhiScan_range hm.toList
  rw [getTimeZhiIndex_scan hm hne hlen, sb_bind_ok, sidx_ZHI _ (by omega) hr.2]

theorem convertTime_empty : Gen.FnS.LunarUtil_ConvertTime "" = .ok (Model.zhiStr 0) := by
  unfold Gen.FnS.LunarUtil_ConvertTime
  rw [getTimeZhiIndex_empty, sb_bind_ok, sidx_ZHI _ (by decide) (by decide)]

theorem convertTime_eq (h mi : Int) (h0 : 0 ≤ h) (h1 : h < 100) (m0 : 0 ≤ mi) (m1 : mi < 100) :
    Gen.FnS.LunarUtil_ConvertTime (Gen.FnS.fmtPad 2 h ++ ":" ++ Gen.FnS.fmtPad 2 mi)
      = .ok (Model.zhiStr (Model.timeZhiIndexOf h mi)) := by
  rw [convertTime_scan _ (s5_hm_ne h mi) (by rw [s5_hm_len h mi h0 h1 m0 m1]; decide), s5_hm_toList]; rfl

/-- `computeTime` (string mode: the key is built and scanned by the generated code itself) -/
theorem computeTimeS_raw (l : Gen.FnS.Lunar) (h0 : 0 ≤ l.hour) (h1 : l.hour < 100) (m0 : 0 ≤ l.minute) (m1 : l.minute < 100) :
    Gen.FnS.calendar_computeTime l = .ok { l with
      timeZhiIndex := Model.timeZhiIndexOf l.hour l.minute,
      timeGanIndex := Int.tmod (Int.tmod l.dayGanIndexExact 5 * 2 + Model.timeZhiIndexOf l.hour l.minute) 10 } := by
  unfold Gen.FnS.calendar_computeTime
  dsimp only
  rw [getTimeZhiIndex_eq' _ _ h0 h1 m0 m1]; rfl

/-- against `Model.computeAll`'s formula (`0 ≤ dayGanIndexExact` holds after `computeDay`) -/
theorem computeTimeS_eq (l : Gen.FnS.Lunar) (h0 : 0 ≤ l.hour) (h1 : l.hour < 100) (m0 : 0 ≤ l.minute) (m1 : l.minute < 100)
    (hd : 0 ≤ l.dayGanIndexExact) :
    Gen.FnS.calendar_computeTime l = .ok { l with
      timeZhiIndex := Model.timeZhiIndexOf l.hour l.minute,
      timeGanIndex := (l.dayGanIndexExact % 5 * 2 + Model.timeZhiIndexOf l.hour l.minute) % 10 } := by
  rw [computeTimeS_raw l h0 h1 m0 m1]
  have hz := (timeZhiIndexOf_range l.hour l.minute).1
  have e5 : Int.tmod l.dayGanIndexExact 5 = l.dayGanIndexExact % 5 := Int.tmod_eq_emod_of_nonneg hd
  have h5 : 0 ≤ l.dayGanIndexExact % 5 := Int.emod_nonneg _ (by decide)
  rw [e5, Int.tmod_eq_emod_of_nonneg (by omega)]



end FnSEq
