/-
Proofs.FnMiscBase — shared definitions of the Fn* equivalence files split from the worker's FnMisc (helper prefix `mi_`).
-/
import Proofs.FnCivil1
import Model.Week
import Model.TaoFoto
import Model.EightChar
import Model.Season

namespace FnEq

/-- The fact (proved by another worker as `nextDay_eq`, under validity of the receiver and enough fuel)
that the generated `Solar.NextDay` agrees with the model on this call. -/
def mi_NextDayOk (fuel : Nat) (s : Gen.Fn.Solar) (n : Int) : Prop :=
  Gen.Fn.calendar_Solar_NextDay fuel s n =
    (match (toM s).nextDay n with | some r => .ok (ofM r) | none => .error .panic)

/-! ## 4. Tao.GetYear, Foto.GetYear -/

/-- the model `Lunar` carried by a generated `Lunar` plus the (unmodelled) term table `jieQi` -/
def mi_lunarToM (l : Gen.Fn.Lunar) (terms : List Model.Solar) : Model.Lunar where
  year := l.year
  month := l.month
  day := l.day
  hour := l.hour
  minute := l.minute
  second := l.second
  yearGanIndex := l.yearGanIndex
  yearZhiIndex := l.yearZhiIndex
  yearGanIndexByLiChun := l.yearGanIndexByLiChun
  yearZhiIndexByLiChun := l.yearZhiIndexByLiChun
  yearGanIndexExact := l.yearGanIndexExact
  yearZhiIndexExact := l.yearZhiIndexExact
  monthGanIndex := l.monthGanIndex
  monthZhiIndex := l.monthZhiIndex
  monthGanIndexExact := l.monthGanIndexExact
  monthZhiIndexExact := l.monthZhiIndexExact
  dayGanIndex := l.dayGanIndex
  dayZhiIndex := l.dayZhiIndex
  dayGanIndexExact := l.dayGanIndexExact
  dayZhiIndexExact := l.dayZhiIndexExact
  dayGanIndexExact2 := l.dayGanIndexExact2
  dayZhiIndexExact2 := l.dayZhiIndexExact2
  timeGanIndex := l.timeGanIndex
  timeZhiIndex := l.timeZhiIndex
  weekIndex := l.weekIndex
  terms := terms
  solar := toM l.solar

@[simp] theorem mi_lunarGetYear_eq (l : Gen.Fn.Lunar) : Gen.Fn.calendar_Lunar_GetYear l = .ok l.year := rfl
@[simp] theorem mi_lunarGetDay_eq (l : Gen.Fn.Lunar) : Gen.Fn.calendar_Lunar_GetDay l = .ok l.day := rfl
@[simp] theorem mi_lunarGetSolar_eq (l : Gen.Fn.Lunar) : Gen.Fn.calendar_Lunar_GetSolar l = .ok l.solar := rfl
@[simp] theorem mi_lunarGetDayGanIndex_eq (l : Gen.Fn.Lunar) :
    Gen.Fn.calendar_Lunar_GetDayGanIndex l = .ok l.dayGanIndex := rfl

end FnEq
