/-
Proofs.CacheProto — safety and progress of the mutex-protected single-slot cache protocol
(`Model.Cache`, the abstract model of `calendar.NewLunarYear`).
-/
import Model.Cache
set_option linter.unusedVariables false
namespace Model.Cache

/-- the invariant -/
def Inv {T : Type} (compute : Int → T) (s : State T) : Prop :=
  (∀ y v, s.cache = some (y, v) → v = compute y) ∧
  (∀ t, s.lock = some t ↔ holdsLock (s.pc t) = true) ∧
  (∀ t u, holdsLock (s.pc t) = true → holdsLock (s.pc u) = true → t = u) ∧
  (∀ t y v, s.pc t = .holding y v → v = compute y) ∧ (∀ t y v, s.pc t = .done y v → v = compute y) ∧
  (∀ p ∈ s.returned, p.2 = compute p.1)

theorem setPc_same {T : Type} (s : State T) (t : Nat) (p : PC T) : setPc s t p t = p := by
  simp [setPc]

theorem setPc_other {T : Type} (s : State T) (t u : Nat) (p : PC T) (h : u ≠ t) : setPc s t p u = s.pc u := by
  simp [setPc, h]

theorem inv_init {T : Type} (compute : Int → T) : Inv compute (init T) := by
  refine ⟨?_, ?_, ?_, ?_, ?_, ?_⟩ <;> simp [init, holdsLock]

theorem inv_step {T : Type} (compute : Int → T) (s s' : State T) (h : Inv compute s) (st : Step compute s s') : Inv compute s' := by
  obtain ⟨hc, hl, hm, hh, hd, hr⟩ := h
  cases st with
  | call t y hpc =>
    have hf : holdsLock (s.pc t) = false := by rw [hpc]; rfl
    refine ⟨hc, ?_, ?_, ?_, ?_, hr⟩
    · intro u
      by_cases hu : u = t
      · subst hu; simp [setPc_same, holdsLock]; intro h; have := (hl u).1 h; simp [hf] at this
      · simp only [setPc_other _ _ _ _ hu]; exact hl u
    · intro a b ha hb
      by_cases hat : a = t
      · subst hat; simp [setPc_same, holdsLock] at ha
      · by_cases hbt : b = t
        · subst hbt; simp [setPc_same, holdsLock] at hb
        · simp only [setPc_other _ _ _ _ hat] at ha; simp only [setPc_other _ _ _ _ hbt] at hb; exact hm a b ha hb
    · intro a y' v' ha
      by_cases hat : a = t
      · subst hat; simp [setPc_same] at ha
      · simp only [setPc_other _ _ _ _ hat] at ha; exact hh a y' v' ha
    · intro a y' v' ha
      by_cases hat : a = t
      · subst hat; simp [setPc_same] at ha
      · simp only [setPc_other _ _ _ _ hat] at ha; exact hd a y' v' ha
  | acquire t y hpc hfree =>
    have hnone : ∀ u, holdsLock (s.pc u) = false := by
      intro u
      cases hx : holdsLock (s.pc u) with
      | false => rfl
      | true => have := (hl u).2 hx; simp [hfree] at this
    refine ⟨hc, ?_, ?_, ?_, ?_, hr⟩
    · intro u
      by_cases hu : u = t
      · subst hu; simp [setPc_same, holdsLock]
      · simp only [setPc_other _ _ _ _ hu, hnone u]
        simp; intro h; exact hu h.symm
    · intro a b ha hb
      by_cases hat : a = t
      · by_cases hbt : b = t
        · rw [hat, hbt]
        · simp only [setPc_other _ _ _ _ hbt, hnone b] at hb; simp at hb
      · simp only [setPc_other _ _ _ _ hat, hnone a] at ha; simp at ha
    · intro a y' v' ha
      by_cases hat : a = t
      · subst hat; simp [setPc_same] at ha
      · simp only [setPc_other _ _ _ _ hat] at ha; exact hh a y' v' ha
    · intro a y' v' ha
      by_cases hat : a = t
      · subst hat; simp [setPc_same] at ha
      · simp only [setPc_other _ _ _ _ hat] at ha; exact hd a y' v' ha
  | hit t y v hpc hcache =>
    have ht : holdsLock (s.pc t) = true := by rw [hpc]; rfl
    refine ⟨hc, ?_, ?_, ?_, ?_, hr⟩
    · intro u
      by_cases hu : u = t
      · subst hu; simp only [setPc_same, holdsLock]; simp; exact (hl u).2 ht
      · simp only [setPc_other _ _ _ _ hu]; exact hl u
    · intro a b ha hb
      have ha' : holdsLock (s.pc a) = true := by
        by_cases hat : a = t
        · rw [hat]; exact ht
        · simpa only [setPc_other _ _ _ _ hat] using ha
      have hb' : holdsLock (s.pc b) = true := by
        by_cases hbt : b = t
        · rw [hbt]; exact ht
        · simpa only [setPc_other _ _ _ _ hbt] using hb
      exact hm a b ha' hb'
    · intro a y' v' ha
      by_cases hat : a = t
      · subst hat; simp only [setPc_same] at ha
        cases ha; exact hc _ _ hcache
      · simp only [setPc_other _ _ _ _ hat] at ha; exact hh a y' v' ha
    · intro a y' v' ha
      by_cases hat : a = t
      · subst hat; simp [setPc_same] at ha
      · simp only [setPc_other _ _ _ _ hat] at ha; exact hd a y' v' ha
  | miss t y hpc hcache =>
    have ht : holdsLock (s.pc t) = true := by rw [hpc]; rfl
    refine ⟨?_, ?_, ?_, ?_, ?_, hr⟩
    · intro y' v' h
      simp only [Option.some.injEq, Prod.mk.injEq] at h
      obtain ⟨h1, h2⟩ := h
      subst h1; exact h2.symm
    · intro u
      by_cases hu : u = t
      · subst hu; simp only [setPc_same, holdsLock]; simp; exact (hl u).2 ht
      · simp only [setPc_other _ _ _ _ hu]; exact hl u
    · intro a b ha hb
      have ha' : holdsLock (s.pc a) = true := by
        by_cases hat : a = t
        · rw [hat]; exact ht
        · simpa only [setPc_other _ _ _ _ hat] using ha
      have hb' : holdsLock (s.pc b) = true := by
        by_cases hbt : b = t
        · rw [hbt]; exact ht
        · simpa only [setPc_other _ _ _ _ hbt] using hb
      exact hm a b ha' hb'
    · intro a y' v' ha
      by_cases hat : a = t
      · subst hat; simp only [setPc_same] at ha
        cases ha; rfl
      · simp only [setPc_other _ _ _ _ hat] at ha; exact hh a y' v' ha
    · intro a y' v' ha
      by_cases hat : a = t
      · subst hat; simp [setPc_same] at ha
      · simp only [setPc_other _ _ _ _ hat] at ha; exact hd a y' v' ha
  | crash t y hpc =>
    have ht : holdsLock (s.pc t) = true := by rw [hpc]; rfl
    have hnone : ∀ u, u ≠ t → holdsLock (s.pc u) = false := by
      intro u hu
      cases hx : holdsLock (s.pc u) with
      | false => rfl
      | true => exact absurd (hm u t hx ht) hu
    refine ⟨hc, ?_, ?_, ?_, ?_, hr⟩
    · intro u
      by_cases hu : u = t
      · subst hu; simp [setPc_same, holdsLock]
      · simp only [setPc_other _ _ _ _ hu, hnone u hu]; simp
    · intro a b ha hb
      by_cases hat : a = t
      · subst hat; simp [setPc_same, holdsLock] at ha
      · simp only [setPc_other _ _ _ _ hat, hnone a hat] at ha; simp at ha
    · intro a y' v' ha
      by_cases hat : a = t
      · subst hat; simp [setPc_same] at ha
      · simp only [setPc_other _ _ _ _ hat] at ha; exact hh a y' v' ha
    · intro a y' v' ha
      by_cases hat : a = t
      · subst hat; simp [setPc_same] at ha
      · simp only [setPc_other _ _ _ _ hat] at ha; exact hd a y' v' ha
  | release t y v hpc =>
    have ht : holdsLock (s.pc t) = true := by rw [hpc]; rfl
    have hnone : ∀ u, u ≠ t → holdsLock (s.pc u) = false := by
      intro u hu
      cases hx : holdsLock (s.pc u) with
      | false => rfl
      | true => exact absurd (hm u t hx ht) hu
    refine ⟨hc, ?_, ?_, ?_, ?_, hr⟩
    · intro u
      by_cases hu : u = t
      · subst hu; simp [setPc_same, holdsLock]
      · simp only [setPc_other _ _ _ _ hu, hnone u hu]; simp
    · intro a b ha hb
      by_cases hat : a = t
      · subst hat; simp [setPc_same, holdsLock] at ha
      · simp only [setPc_other _ _ _ _ hat, hnone a hat] at ha; simp at ha
    · intro a y' v' ha
      by_cases hat : a = t
      · subst hat; simp [setPc_same] at ha
      · simp only [setPc_other _ _ _ _ hat] at ha; exact hh a y' v' ha
    · intro a y' v' ha
      by_cases hat : a = t
      · subst hat; simp only [setPc_same] at ha
        cases ha; exact hh _ _ _ hpc
      · simp only [setPc_other _ _ _ _ hat] at ha; exact hd a y' v' ha
  | ret t y v hpc =>
    have hf : holdsLock (s.pc t) = false := by rw [hpc]; rfl
    refine ⟨hc, ?_, ?_, ?_, ?_, ?_⟩
    · intro u
      by_cases hu : u = t
      · subst hu; simp [setPc_same, holdsLock]; intro h; have := (hl u).1 h; simp [hf] at this
      · simp only [setPc_other _ _ _ _ hu]; exact hl u
    · intro a b ha hb
      by_cases hat : a = t
      · subst hat; simp [setPc_same, holdsLock] at ha
      · by_cases hbt : b = t
        · subst hbt; simp [setPc_same, holdsLock] at hb
        · simp only [setPc_other _ _ _ _ hat] at ha; simp only [setPc_other _ _ _ _ hbt] at hb; exact hm a b ha hb
    · intro a y' v' ha
      by_cases hat : a = t
      · subst hat; simp [setPc_same] at ha
      · simp only [setPc_other _ _ _ _ hat] at ha; exact hh a y' v' ha
    · intro a y' v' ha
      by_cases hat : a = t
      · subst hat; simp [setPc_same] at ha
      · simp only [setPc_other _ _ _ _ hat] at ha; exact hd a y' v' ha
    · intro p hp
      simp only [List.mem_cons] at hp
      rcases hp with hp | hp
      · subst hp; exact hd _ _ _ hpc
      · exact hr p hp

theorem inv_reachable {T : Type} (compute : Int → T) (s : State T) (h : Reachable compute s) : Inv compute s := by
  induction h with
  | init => exact inv_init compute
  | step s s' _ st ih => exact inv_step compute s s' ih st

/-- results do not depend on call history or schedule: every completed call returned the pure
function of its argument -/
theorem results_pure {T : Type} (compute : Int → T) (s : State T) (h : Reachable compute s) :
    ∀ p ∈ s.returned, p.2 = compute p.1 :=
  (inv_reachable compute s h).2.2.2.2.2

/-- the library is never left blocked: whenever no thread is inside, the lock is free -/
theorem lock_free_when_idle {T : Type} (compute : Int → T) (s : State T) (h : Reachable compute s)
    (hn : ∀ t, holdsLock (s.pc t) = false) : s.lock = none := by
  have hl := (inv_reachable compute s h).2.1
  cases hx : s.lock with
  | none => rfl
  | some t => have := (hl t).1 hx; simp [hn t] at this

/-- a thread inside can always take its next step -/
theorem holder_can_progress {T : Type} (compute : Int → T) (s : State T) (h : Reachable compute s) (t : Nat) (ht : s.lock = some t) :
    ∃ s', Step compute s s' := by
  have hl := (inv_reachable compute s h).2.1
  have hx := (hl t).1 ht
  cases hpc : s.pc t with
  | idle => simp [hpc, holdsLock] at hx
  | waiting y => simp [hpc, holdsLock] at hx
  | done y v => simp [hpc, holdsLock] at hx
  | holding y v => exact ⟨_, Step.release s t y v hpc⟩
  | inside y =>
    by_cases hcache : ∃ v, s.cache = some (y, v)
    · obtain ⟨v, hv⟩ := hcache
      exact ⟨_, Step.hit s t y v hpc hv⟩
    · exact ⟨_, Step.miss s t y hpc (fun v hv => hcache ⟨v, hv⟩)⟩

/-- a waiting thread is blocked only while some other thread holds the lock (which can progress):
no deadlock -/
theorem no_deadlock {T : Type} (compute : Int → T) (s : State T) (h : Reachable compute s) (t : Nat) (y : Int) (hw : s.pc t = .waiting y) :
    ∃ s', Step compute s s' := by
  cases hx : s.lock with
  | none => exact ⟨_, Step.acquire s t y hw hx⟩
  | some u => exact holder_can_progress compute s h u hx

/-- sharper form of `no_deadlock`: either the waiting thread itself can acquire, or the lock is held
by a different thread that has an enabled step -/
theorem waiting_blocked_only_by_holder {T : Type} (compute : Int → T) (s : State T) (h : Reachable compute s) (t : Nat) (y : Int)
    (hw : s.pc t = .waiting y) :
    s.lock = none ∨ ∃ u, u ≠ t ∧ s.lock = some u ∧ holdsLock (s.pc u) = true := by
  have hl := (inv_reachable compute s h).2.1
  cases hx : s.lock with
  | none => exact Or.inl rfl
  | some u =>
    refine Or.inr ⟨u, ?_, rfl, (hl u).1 hx⟩
    intro hut
    have := (hl u).1 hx
    rw [hut, hw] at this
    simp [holdsLock] at this

/-- non-vacuity: a two-thread history in which thread 1's miss for year 2024 is followed by
thread 2's miss for 2025 and a hit for 2025 -/
example : ∃ s, Reachable (fun y => y * 2) s ∧ s.returned.length = 3 := by
  let f : Int → Int := fun y => y * 2
  have r0 : Reachable f (init Int) := Reachable.init
  -- both threads call; thread 2 waits while thread 1 is inside
  have r1 := Reachable.step _ _ r0 (Step.call _ 1 2024 rfl)
  have r2 := Reachable.step _ _ r1 (Step.call _ 2 2025 rfl)
  have r3 := Reachable.step _ _ r2 (Step.acquire _ 1 2024 rfl rfl)
  have r4 := Reachable.step _ _ r3 (Step.miss _ 1 2024 rfl (by intro v hv; simp [init] at hv))
  have r5 := Reachable.step _ _ r4 (Step.release _ 1 2024 (f 2024) rfl)
  -- thread 2 acquires before thread 1 has returned; miss (cache holds 2024)
  have r6 := Reachable.step _ _ r5 (Step.acquire _ 2 2025 rfl rfl)
  have r7 := Reachable.step _ _ r6 (Step.ret _ 1 2024 (f 2024) rfl)
  have r8 := Reachable.step _ _ r7 (Step.miss _ 2 2025 rfl (by intro v hv; simp at hv))
  -- thread 1 calls again (2025) and waits while thread 2 still holds the lock
  have r9 := Reachable.step _ _ r8 (Step.call _ 1 2025 rfl)
  have r10 := Reachable.step _ _ r9 (Step.release _ 2 2025 (f 2025) rfl)
  have r11 := Reachable.step _ _ r10 (Step.acquire _ 1 2025 rfl rfl)
  have r12 := Reachable.step _ _ r11 (Step.ret _ 2 2025 (f 2025) rfl)
  -- thread 1: hit
  have r13 := Reachable.step _ _ r12 (Step.hit _ 1 2025 (f 2025) rfl rfl)
  have r14 := Reachable.step _ _ r13 (Step.release _ 1 2025 (f 2025) rfl)
  have r15 := Reachable.step _ _ r14 (Step.ret _ 1 2025 (f 2025) rfl)
  exact ⟨_, r15, rfl⟩

end Model.Cache

#print axioms Model.Cache.inv_init
#print axioms Model.Cache.inv_step
#print axioms Model.Cache.inv_reachable
#print axioms Model.Cache.results_pure
#print axioms Model.Cache.lock_free_when_idle
#print axioms Model.Cache.holder_can_progress
#print axioms Model.Cache.no_deadlock
#print axioms Model.Cache.waiting_blocked_only_by_holder
