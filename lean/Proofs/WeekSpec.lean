import Model.Week
import Proofs.CivilArith
set_option linter.unusedVariables false
namespace Model

/-! ## small helpers -/

theorem wrap7_bounds (x : Int) (h1 : -6 ≤ x) (h2 : x ≤ 6) : 0 ≤ wrap7 x ∧ wrap7 x ≤ 6 ∧ wrap7 x = x % 7 := by
  unfold wrap7
  split <;> omega

theorem week_bounds (y m d : Int) : 0 ≤ week y m d ∧ week y m d ≤ 6 := by
  unfold week; omega

/-- offset of a day number from the preceding (or same) day whose weekday is `start` -/
theorem off_eq (J start : Int) (hs : 0 ≤ start ∧ start ≤ 6) :
    wrap7 ((J + 7000001) % 7 - start) = (J + 7000001 - start) % 7 := by
  have := wrap7_bounds ((J + 7000001) % 7 - start) (by omega) (by omega)
  omega

theorem newSolarYmd_some (y m d : Int) (hv : validYmd y m d = true) :
    newSolarYmd y m d = some ⟨y, m, d, 0, 0, 0⟩ ∧ (Solar.mk y m d 0 0 0).valid = true := by
  have hh : validHms 0 0 0 = true := by decide
  exact newSolar_some y m d 0 0 0 hv hh

/-- in a month other than October 1582 day numbers are contiguous -/
theorem jdn_lin (y m d : Int) (hv : validYmd y m d = true) (hn : ¬ (y = 1582 ∧ m = 10)) :
    jdn y m d = jdn y m 1 + (d - 1) := by
  obtain ⟨hj, _, _⟩ := jdn_comp y m d hv
  have hc : ¬ (y = 1582 ∧ m = 10 ∧ d > 4) := fun h => hn ⟨h.1, h.2.1⟩
  rw [hj]; unfold lin comp; simp only [hc, if_false]

theorem valid_of_range (y m d : Int) (hm : 1 ≤ m ∧ m ≤ 12) (hn : ¬ (y = 1582 ∧ m = 10))
    (h1 : 1 ≤ d) (h2 : d ≤ daysOfMonth y m) : validYmd y m d = true := by
  have hb := daysOfMonth_bounds y m hm.1 hm.2
  rw [validYmd_iff_step]
  refine ⟨hm.1, hm.2, h1, by omega, ?_⟩
  simp only [hn, if_false]; exact h2

theorem range_of_valid (y m d : Int) (hv : validYmd y m d = true) (hn : ¬ (y = 1582 ∧ m = 10)) :
    1 ≤ m ∧ m ≤ 12 ∧ 1 ≤ d ∧ d ≤ daysOfMonth y m := by
  obtain ⟨a, b, c, d', e⟩ := (validYmd_iff_step y m d).1 hv
  simp only [hn, if_false] at e
  exact ⟨a, b, c, e⟩

/-- a valid date whose day number lies in the span of month (y, m) is in that month -/
theorem month_of_jdn (y m y' m' d' : Int) (hm : 1 ≤ m ∧ m ≤ 12) (hv : validYmd y' m' d' = true)
    (h1 : jdn y m 1 ≤ jdn y' m' d') (h2 : jdn y' m' d' < jdn y m 1 + daysOfMonth y m) :
    y' = y ∧ m' = m := by
  obtain ⟨ha, hb⟩ := jdn_uncomp y m (jdn y' m' d' - jdn y m 1 + 1) hm.1 hm.2 (by omega) (by omega)
  have := jdn_inj_all _ _ _ _ _ _ hv ha (by rw [hb]; unfold lin; omega)
  exact ⟨this.1, this.2.1⟩

theorem nextYm_one (y m : Int) (hm : 1 ≤ m ∧ m ≤ 12) :
    nextYm y m 1 = if m = 12 then (y + 1, 1) else (y, m + 1) := by
  unfold nextYm
  simp only [show ¬ ((1 : Int) < 0) by omega, if_false]
  have e1 : (1 : Int) / 12 = 0 := by decide
  have e2 : (1 : Int) % 12 = 1 := by decide
  rw [e1, e2]
  by_cases h : m = 12
  · subst h; simp
  · simp only [h, if_false]
    have a : ¬ (m + 1 * 1 > 12) := by omega
    have b : ¬ (m + 1 * 1 < 1) := by omega
    simp only [a, b, if_false]
    congr 1 <;> omega

/-- the next month starts right after this one ends -/
theorem jdn_nextYm (y m : Int) (hm : 1 ≤ m ∧ m ≤ 12) :
    jdn (nextYm y m 1).1 (nextYm y m 1).2 1 = jdn y m 1 + daysOfMonth y m := by
  rw [nextYm_one y m hm]
  by_cases h : m = 12
  · subst h; simp only [if_true]; exact jdn_year_succ_all y
  · simp only [h, if_false]; exact jdn_month_succ_all y m hm.1 (by omega)

/-! ## first day / days of a week -/

theorem firstDay_core (w : SolarWeek) (hv : validYmd w.year w.month w.day = true) (hs : 0 ≤ w.start ∧ w.start ≤ 6) :
    ∃ f, w.firstDay = some f ∧ f.valid = true ∧ f.week = w.start ∧
      f.jdn = jdn w.year w.month w.day - (jdn w.year w.month w.day + 7000001 - w.start) % 7 ∧
      f.hour = 0 ∧ f.minute = 0 ∧ f.second = 0 := by
  obtain ⟨e, hcv⟩ := newSolarYmd_some _ _ _ hv
  unfold SolarWeek.firstDay
  rw [e]
  simp only
  obtain ⟨f, ef, hfv, hj, a1, a2, a3⟩ := nextDay_spec_strong ⟨w.year, w.month, w.day, 0, 0, 0⟩
    (-(wrap7 ((Solar.mk w.year w.month w.day 0 0 0).week - w.start))) hcv
  refine ⟨f, ef, hfv, ?_, ?_, a1, a2, a3⟩
  · have := week_nextDay _ _ _ hj
    rw [this]
    simp only [Solar.week, week]
    rw [off_eq _ _ hs]
    omega
  · rw [hj]
    simp only [Solar.week, week, Solar.jdn]
    rw [off_eq _ _ hs]
    omega

/-- the week's first day is the unique day in (d-7, d] whose weekday is `start` -/
theorem firstDay_spec (w : SolarWeek) (hv : validYmd w.year w.month w.day = true) (hs : 0 ≤ w.start ∧ w.start ≤ 6) :
    ∃ f, w.firstDay = some f ∧ f.valid = true ∧ f.week = w.start ∧
      0 ≤ jdn w.year w.month w.day - f.jdn ∧ jdn w.year w.month w.day - f.jdn ≤ 6 := by
  obtain ⟨f, e, hfv, hw, hj, _⟩ := firstDay_core w hv hs
  exact ⟨f, e, hfv, hw, by omega, by omega⟩

/-- `daysFrom f k i` lists the `k` days `f + i, f + i + 1, …` -/
theorem daysFrom_spec (f : Solar) (hv : f.valid = true) (k : Nat) : ∀ (i : Int),
    ∃ l, (daysFrom f k i).mapM id = some l ∧ l.length = k ∧
      ∀ j : Nat, j < k → ∃ s, l[j]? = some s ∧ s.valid = true ∧ s.jdn = f.jdn + i + j ∧
        s.hour = f.hour ∧ s.minute = f.minute ∧ s.second = f.second := by
  induction k with
  | zero => intro i; exact ⟨[], by simp [daysFrom], rfl, fun j hj => by omega⟩
  | succ k ih =>
    intro i
    obtain ⟨l, hl, hlen, hget⟩ := ih (i + 1)
    obtain ⟨r, er, hrv, hj, a1, a2, a3⟩ := nextDay_spec_strong f i hv
    refine ⟨r :: l, by simp [daysFrom, List.mapM_cons, er, hl], by simp [hlen], ?_⟩
    intro j hj'
    cases j with
    | zero => exact ⟨r, by simp, hrv, by simp [hj], a1, a2, a3⟩
    | succ j =>
      obtain ⟨s, e, b1, b2, b3⟩ := hget j (by omega)
      refine ⟨s, by simp [e], b1, ?_, b3⟩
      rw [b2]; push_cast; omega

/-- a valid day followed by `daysFrom` from offset 1 -/
theorem daysFrom_cons_spec (f : Solar) (hv : f.valid = true) (k : Nat) :
    ∃ l, (some f :: daysFrom f k 1).mapM id = some l ∧ l.length = k + 1 ∧
      ∀ j : Nat, j < k + 1 → ∃ s, l[j]? = some s ∧ s.valid = true ∧ s.jdn = f.jdn + j ∧
        s.hour = f.hour ∧ s.minute = f.minute ∧ s.second = f.second := by
  obtain ⟨l, hl, hlen, hget⟩ := daysFrom_spec f hv k 1
  refine ⟨f :: l, by simp [List.mapM_cons, hl], by simp [hlen], ?_⟩
  intro j hj'
  cases j with
  | zero => exact ⟨f, by simp, hv, by simp, rfl, rfl, rfl⟩
  | succ j =>
    obtain ⟨s, e, b1, b2, b3⟩ := hget j (by omega)
    refine ⟨s, by simp [e], b1, ?_, b3⟩
    rw [b2]; push_cast; omega

/-- a week is seven consecutive days starting at its first day, and contains its own date -/
theorem days_spec (w : SolarWeek) (hv : validYmd w.year w.month w.day = true) (hs : 0 ≤ w.start ∧ w.start ≤ 6) :
    ∃ f l, w.firstDay = some f ∧ w.days = some l ∧ l.length = 7 ∧
      (∀ i : Nat, i < 7 → ∃ s, l[i]? = some s ∧ s.valid = true ∧ s.jdn = f.jdn + i) ∧
      (∃ s ∈ l, s.year = w.year ∧ s.month = w.month ∧ s.day = w.day) := by
  obtain ⟨f, e, hfv, hw, hj, h1, h2, h3⟩ := firstDay_core w hv hs
  obtain ⟨l, hl, hlen, hget⟩ := daysFrom_cons_spec f hfv 6
  refine ⟨f, l, e, ?_, hlen, ?_, ?_⟩
  · unfold SolarWeek.days; rw [e]; exact hl
  · intro i hi
    obtain ⟨s, es, b1, b2, _⟩ := hget i hi
    exact ⟨s, es, b1, b2⟩
  · have hoff : 0 ≤ (jdn w.year w.month w.day + 7000001 - w.start) % 7 ∧
        (jdn w.year w.month w.day + 7000001 - w.start) % 7 < 7 := by omega
    obtain ⟨s, es, b1, b2, c1, c2, c3⟩ :=
      hget ((jdn w.year w.month w.day + 7000001 - w.start) % 7).toNat (by omega)
    obtain ⟨_, hcv⟩ := newSolarYmd_some _ _ _ hv
    have hsc : s = ⟨w.year, w.month, w.day, 0, 0, 0⟩ :=
      solar_eq_of_jdn s _ b1 hcv (by rw [b2, hj]; simp only [Solar.jdn]; omega)
        (by rw [c1, h1]) (by rw [c2, h2]) (by rw [c3, h3])
    refine ⟨s, List.mem_of_getElem? es, ?_⟩
    rw [hsc]; exact ⟨rfl, rfl, rfl⟩

/-- the days of the week that lie in its month -/
theorem daysInMonth_spec (w : SolarWeek) (l : List Solar) (h : w.days = some l) :
    w.daysInMonth = some (l.filter (fun d => d.month == w.month)) := by
  unfold SolarWeek.daysInMonth; rw [h]; rfl

/-! ## week index -/

theorem index_first (y m start : Int) (hs : 0 ≤ start ∧ start ≤ 6) : (SolarWeek.mk y m 1 start).index = 1 := by
  unfold SolarWeek.index
  have hw := week_bounds y m 1
  have := wrap7_bounds (week y m 1 - start) (by omega) (by omega)
  simp only
  omega

theorem index_succ (y m d start : Int) (hv : validYmd y m d = true) (hv' : validYmd y m (d + 1) = true) (hn : ¬ (y = 1582 ∧ m = 10))
    (hs : 0 ≤ start ∧ start ≤ 6) :
    (SolarWeek.mk y m (d + 1) start).index = (SolarWeek.mk y m d start).index + (if week y m (d + 1) = start then 1 else 0) := by
  have h1 := jdn_lin y m (d + 1) hv' hn
  unfold SolarWeek.index
  simp only
  unfold week
  rw [off_eq _ _ hs, h1]
  split <;> omega

/-- October 1582 (after the `fix:` of `GetIndex`): along the 21 existing days 1..4, 15..31 the index steps by one
exactly when the new day's weekday is `start` (and `index_first` gives index 1 on the 1st) -/
theorem index_succ_1582 (d d' start : Int) (hv : validYmd 1582 10 d = true) (hv' : validYmd 1582 10 d' = true)
    (hd : d' = d + 1 ∨ (d = 4 ∧ d' = 15)) (hs : 0 ≤ start ∧ start ≤ 6) :
    (SolarWeek.mk 1582 10 d' start).index = (SolarWeek.mk 1582 10 d start).index + (if week 1582 10 d' = start then 1 else 0) := by
  obtain ⟨hj', _, _⟩ := jdn_comp 1582 10 d' hv'
  obtain ⟨_, _, a1, a2, a3⟩ := (validYmd_iff_step 1582 10 d).1 hv
  obtain ⟨_, _, b1, b2, b3⟩ := (validYmd_iff_step 1582 10 d').1 hv'
  simp only [and_self, if_true] at a3 b3
  unfold lin comp at hj'
  simp only [true_and] at hj'
  unfold SolarWeek.index
  simp only [true_and]
  unfold week
  rw [off_eq _ _ hs, hj']
  generalize jdn 1582 10 1 = J
  by_cases c : d > 4 <;> by_cases c' : d' > 4 <;> simp only [c, c', if_true, if_false] <;> split <;> omega

theorem indexInYear_first (y start : Int) (hs : 0 ≤ start ∧ start ≤ 6) : (SolarWeek.mk y 1 1 start).indexInYear = some 1 := by
  have hv : validYmd y 1 1 = true := by
    rw [validYmd_iff_step]
    have := daysOfMonth_bounds y 1 (by omega) (by omega)
    refine ⟨by omega, by omega, by omega, by omega, ?_⟩
    split <;> omega
  unfold SolarWeek.indexInYear
  simp only
  rw [daysInYear_eq y 1 1 hv]
  have hw := week_bounds y 1 1
  have := wrap7_bounds (week y 1 1 - start) (by omega) (by omega)
  simp only
  congr 1
  omega

theorem indexInYear_succ (s r : Solar) (start : Int) (hv : s.valid = true) (h1 : s.nextDay 1 = some r) (hy : r.year = s.year)
    (hn : s.year ≠ 1582) (hs : 0 ≤ start ∧ start ≤ 6) :
    ∃ a b, (SolarWeek.mk s.year s.month s.day start).indexInYear = some a ∧ (SolarWeek.mk r.year r.month r.day start).indexInYear = some b ∧
      b = a + (if r.week = start then 1 else 0) := by
  obtain ⟨r', e, hrv, hj, _⟩ := nextDay_spec_strong s 1 hv
  rw [h1] at e; cases e
  unfold SolarWeek.indexInYear
  simp only
  rw [daysInYear_eq _ _ _ (valid_parts s hv).1, daysInYear_eq _ _ _ (valid_parts r hrv).1]
  refine ⟨_, _, rfl, rfl, ?_⟩
  simp only [Solar.jdn] at hj
  have hwk : r.week = (jdn s.year s.month s.day + 1 + 7000001) % 7 := by
    simp only [Solar.week, week]; rw [hj]
  rw [hy] at hj ⊢
  rw [hj]
  unfold week
  rw [off_eq _ _ hs]
  have hlow : jdn s.year 1 1 ≤ jdn s.year s.month s.day := by
    have a := jdn_in_month _ _ _ (valid_parts s hv).1
    obtain ⟨m1, m2, _⟩ := (validYmd_iff_step _ _ _).1 (valid_parts s hv).1
    have b := monthStart_le s.year 1 s.month (by omega) m1 m2
    omega
  by_cases hc : r.week = start
  · simp only [hc, if_true]; rw [hwk] at hc; omega
  · simp only [hc, if_false]; rw [hwk] at hc; omega

/- `weeksOfMonth_eq_last_index` (without the hypothesis `hn`) was true by `rfl` for the old model; after the
`fix:` of `GetIndex` (October 1582 compressed) it is FALSE for y = 1582, m = 10:
`weeksOfMonth 1582 10 0 = 4` but `(SolarWeek.mk 1582 10 (daysOfMonth 1582 10) 0).index = (SolarWeek.mk 1582 10 21 0).index = 2`
(day number 21 is the 11th existing day of that month; the last day is the 31st).
Strongest true variants: `_partial` (all other months) and `_1582` (October 1582, last day = 31). -/
theorem weeksOfMonth_eq_last_index_partial (y m start : Int) (hn : ¬ (y = 1582 ∧ m = 10)) :
    weeksOfMonth y m start = (SolarWeek.mk y m (daysOfMonth y m) start).index := by
  have hc : ¬ (y = 1582 ∧ m = 10 ∧ daysOfMonth y m > 4) := fun h => hn ⟨h.1, h.2.1⟩
  unfold weeksOfMonth SolarWeek.index
  simp only [hc, if_false]

theorem weeksOfMonth_eq_last_index_1582 (start : Int) :
    weeksOfMonth 1582 10 start = (SolarWeek.mk 1582 10 31 start).index := by
  have e : daysOfMonth 1582 10 = 21 := by decide
  unfold weeksOfMonth SolarWeek.index
  simp only [e]
  rfl

/-! ## months, seasons, half-years, years -/

/-- a month lists each of its days once, in order (21 days for October 1582) -/
theorem monthDays_spec (y m : Int) (hm : 1 ≤ m ∧ m ≤ 12) :
    ∃ l, monthDays y m = some l ∧ (l.length : Int) = daysOfMonth y m ∧
      (∀ i : Nat, i < l.length → ∃ s, l[i]? = some s ∧ s.valid = true ∧ s.year = y ∧ s.month = m ∧ s.jdn = jdn y m 1 + i) := by
  have hb := daysOfMonth_bounds y m hm.1 hm.2
  have hv1 : validYmd y m 1 = true := by
    rw [validYmd_iff_step]
    refine ⟨hm.1, hm.2, by omega, by omega, ?_⟩
    split <;> omega
  obtain ⟨e, hfv⟩ := newSolarYmd_some y m 1 hv1
  obtain ⟨l, hl, hlen, hget⟩ := daysFrom_cons_spec ⟨y, m, 1, 0, 0, 0⟩ hfv (daysOfMonth y m - 1).toNat
  refine ⟨l, ?_, by rw [hlen]; omega, ?_⟩
  · unfold monthDays; rw [e]; exact hl
  · intro i hi
    obtain ⟨s, es, b1, b2, _⟩ := hget i (by omega)
    simp only [Solar.jdn] at b2
    obtain ⟨c1, c2⟩ := month_of_jdn y m s.year s.month s.day hm (valid_parts s b1).1 (by omega) (by omega)
    exact ⟨s, es, b1, c1, c2, b2⟩

theorem oct1582_21 : ∃ l, monthDays 1582 10 = some l ∧ l.length = 21 := by
  obtain ⟨l, h1, h2, _⟩ := monthDays_spec 1582 10 (by omega)
  refine ⟨l, h1, ?_⟩
  have : daysOfMonth 1582 10 = 21 := by decide
  omega

theorem range3 : List.range 3 = [0, 1, 2] := by decide
theorem range6 : List.range 6 = [0, 1, 2, 3, 4, 5] := by decide
theorem range12 : List.range 12 = [0, 1, 2, 3, 4, 5, 6, 7, 8, 9, 10, 11] := by decide

/-- a season lists three months, a half-year six, a year twelve; each month belongs to the unit -/
theorem seasonMonths_spec (y m : Int) (hm : 1 ≤ m ∧ m ≤ 12) :
    (seasonMonths y m).length = 3 ∧ (y, m) ∈ seasonMonths y m ∧ ∀ p ∈ seasonMonths y m, p.1 = y ∧ seasonIndex p.2 = seasonIndex m ∧ 1 ≤ p.2 ∧ p.2 ≤ 12 := by
  unfold seasonMonths
  rw [range3]
  refine ⟨rfl, ?_, ?_⟩
  · simp only [List.map_cons, List.map_nil, List.mem_cons, Prod.mk.injEq, true_and, List.not_mem_nil, or_false]
    unfold seasonIndex
    simp only [Int.ofNat_eq_natCast]
    omega
  · intro p hp
    simp only [List.map_cons, List.map_nil, List.mem_cons, List.not_mem_nil, or_false] at hp
    unfold seasonIndex at *
    simp only [Int.ofNat_eq_natCast] at hp
    rcases hp with rfl | rfl | rfl <;> (simp only; push_cast; refine ⟨trivial, ?_, ?_, ?_⟩ <;> omega)

theorem halfYearMonths_spec (y m : Int) (hm : 1 ≤ m ∧ m ≤ 12) :
    (halfYearMonths y m).length = 6 ∧ (y, m) ∈ halfYearMonths y m ∧ ∀ p ∈ halfYearMonths y m, p.1 = y ∧ halfYearIndex p.2 = halfYearIndex m ∧ 1 ≤ p.2 ∧ p.2 ≤ 12 := by
  unfold halfYearMonths
  rw [range6]
  refine ⟨rfl, ?_, ?_⟩
  · simp only [List.map_cons, List.map_nil, List.mem_cons, Prod.mk.injEq, true_and, List.not_mem_nil, or_false]
    unfold halfYearIndex
    simp only [Int.ofNat_eq_natCast]
    omega
  · intro p hp
    simp only [List.map_cons, List.map_nil, List.mem_cons, List.not_mem_nil, or_false] at hp
    unfold halfYearIndex at *
    simp only [Int.ofNat_eq_natCast] at hp
    rcases hp with rfl | rfl | rfl | rfl | rfl | rfl <;> (simp only; push_cast; refine ⟨trivial, ?_, ?_, ?_⟩ <;> omega)

/-- month stepping is additive, so n forward then n back returns to the start; seasons and half-years move by 3n / 6n months -/
theorem nextYm_total (y m n : Int) (hm : 1 ≤ m ∧ m ≤ 12) :
    (nextYm y m n).1 * 12 + ((nextYm y m n).2 - 1) = y * 12 + (m - 1) + n ∧ 1 ≤ (nextYm y m n).2 ∧ (nextYm y m n).2 ≤ 12 := by
  obtain ⟨a, b, c⟩ := nextYm_spec y m n hm.1 hm.2
  exact ⟨c, a, b⟩

theorem nextYm_unique (y m n y' m' : Int) (hm : 1 ≤ m ∧ m ≤ 12) (hm' : 1 ≤ m' ∧ m' ≤ 12)
    (h : y' * 12 + (m' - 1) = y * 12 + (m - 1) + n) : nextYm y m n = (y', m') := by
  obtain ⟨a, b, c⟩ := nextYm_spec y m n hm.1 hm.2
  apply Prod.ext <;> (simp only; omega)

theorem yearMonths_spec (y : Int) : yearMonths y = (List.range 12).map (fun (i : Nat) => (y, (Int.ofNat i) + 1)) := by
  unfold yearMonths
  apply List.map_congr_left
  intro i hi
  have hi' : i < 12 := List.mem_range.1 hi
  apply nextYm_unique y 1 _ y _ (by omega)
  · simp only [Int.ofNat_eq_natCast]; omega
  · simp only [Int.ofNat_eq_natCast]; omega

theorem nextYm_add (y m a b : Int) (hm : 1 ≤ m ∧ m ≤ 12) : nextYm (nextYm y m a).1 (nextYm y m a).2 b = nextYm y m (a + b) := by
  obtain ⟨a1, a2, a3⟩ := nextYm_spec y m a hm.1 hm.2
  obtain ⟨b1, b2, b3⟩ := nextYm_spec y m (a + b) hm.1 hm.2
  have := nextYm_unique (nextYm y m a).1 (nextYm y m a).2 b (nextYm y m (a + b)).1 (nextYm y m (a + b)).2
    ⟨a1, a2⟩ ⟨b1, b2⟩ (by omega)
  rw [this]

theorem nextYm_inv (y m n : Int) (hm : 1 ≤ m ∧ m ≤ 12) : nextYm (nextYm y m n).1 (nextYm y m n).2 (-n) = (y, m) := by
  obtain ⟨a1, a2, a3⟩ := nextYm_spec y m n hm.1 hm.2
  exact nextYm_unique _ _ _ _ _ ⟨a1, a2⟩ hm (by omega)

theorem seasonNext_inv (y m n : Int) (hm : 1 ≤ m ∧ m ≤ 12) : seasonNext (seasonNext y m n).1 (seasonNext y m n).2 (-n) = (y, m) := by
  unfold seasonNext
  rw [show 3 * -n = -(3 * n) by omega]
  exact nextYm_inv y m (3 * n) hm

theorem halfYearNext_inv (y m n : Int) (hm : 1 ≤ m ∧ m ≤ 12) : halfYearNext (halfYearNext y m n).1 (halfYearNext y m n).2 (-n) = (y, m) := by
  unfold halfYearNext
  rw [show 6 * -n = -(6 * n) by omega]
  exact nextYm_inv y m (6 * n) hm

/-! ## stepping whole weeks -/

theorem next_plain_eq (w : SolarWeek) (n : Int) (hv : validYmd w.year w.month w.day = true) (hn : n ≠ 0) :
    ∃ c1, (Solar.mk w.year w.month w.day 0 0 0).nextDay (n * 7) = some c1 ∧ w.next n false = some (weekOf c1 w.start) ∧
      c1.valid = true ∧ c1.jdn = jdn w.year w.month w.day + 7 * n ∧ c1.hour = 0 ∧ c1.minute = 0 ∧ c1.second = 0 := by
  obtain ⟨e, hcv⟩ := newSolarYmd_some _ _ _ hv
  obtain ⟨c1, e1, h1, h2, a1, a2, a3⟩ := nextDay_spec_strong ⟨w.year, w.month, w.day, 0, 0, 0⟩ (n * 7) hcv
  refine ⟨c1, e1, ?_, h1, ?_, a1, a2, a3⟩
  · unfold SolarWeek.next
    simp only [hn, if_false, e, Bool.false_eq_true, e1]
  · rw [h2]; simp only [Solar.jdn]; omega

/-- moving n whole weeks = moving 7n days; and back -/
theorem week_next_plain (w : SolarWeek) (n : Int) (hv : validYmd w.year w.month w.day = true) (hn : n ≠ 0) :
    ∃ r, w.next n false = some r ∧ r.start = w.start ∧ validYmd r.year r.month r.day = true ∧
      jdn r.year r.month r.day = jdn w.year w.month w.day + 7 * n := by
  obtain ⟨c1, _, e, h1, h2, _⟩ := next_plain_eq w n hv hn
  exact ⟨_, e, rfl, (valid_parts c1 h1).1, h2⟩

theorem week_next_plain_inv (w r : SolarWeek) (n : Int) (hv : validYmd w.year w.month w.day = true) (hy : 1 ≤ w.year) (h : w.next n false = some r) (hr : 1 ≤ r.year) :
    r.next (-n) false = some w := by
  by_cases hn : n = 0
  · subst hn
    unfold SolarWeek.next at h ⊢
    simp only [if_true] at h
    cases h
    simp
  · obtain ⟨c1, e1, e, h1, h2, a1, a2, a3⟩ := next_plain_eq w n hv hn
    rw [h] at e; cases e
    obtain ⟨_, hcv⟩ := newSolarYmd_some _ _ _ hv
    have hback := nextDay_neg _ c1 (n * 7) hcv hy e1 hr
    have hc1 : c1 = ⟨c1.year, c1.month, c1.day, 0, 0, 0⟩ := by
      cases c1; simp only at a1 a2 a3; subst a1 a2 a3; rfl
    obtain ⟨c0, e0, e', _⟩ := next_plain_eq (weekOf c1 w.start) (-n) (valid_parts c1 h1).1 (by omega)
    rw [e']
    simp only [weekOf] at e0 ⊢
    rw [← hc1, show -n * 7 = -(n * 7) by omega, hback] at e0
    cases e0
    rfl

/-! ## the weeks of a month -/

theorem valid_first (y m : Int) (hm : 1 ≤ m ∧ m ≤ 12) : validYmd y m 1 = true := by
  have hb := daysOfMonth_bounds y m hm.1 hm.2
  rw [validYmd_iff_step]
  refine ⟨hm.1, hm.2, by omega, by omega, ?_⟩
  split <;> omega

/-- "later year or later month number" for a date not before the month start means: past the month end -/
theorem beyond_iff (y m y' m' d' : Int) (hm : 1 ≤ m ∧ m ≤ 12) (hv : validYmd y' m' d' = true)
    (hge : jdn y m 1 ≤ jdn y' m' d') :
    (y' > y ∨ m' > m) ↔ jdn y m 1 + daysOfMonth y m ≤ jdn y' m' d' := by
  have hv1 := valid_first y m hm
  have hyy : y ≤ y' := by
    by_cases h : y' < y
    · have := lex_jdn_lt _ _ _ _ _ _ hv hv1 (Or.inl h); omega
    · omega
  constructor
  · intro h
    by_cases hc : jdn y m 1 + daysOfMonth y m ≤ jdn y' m' d'
    · exact hc
    · have := month_of_jdn y m y' m' d' hm hv hge (by omega)
      omega
  · intro h
    by_cases hc : y' > y ∨ m' > m
    · exact hc
    · have e : y' = y := by omega
      subst e
      by_cases hlt : m' < m
      · have := lex_jdn_lt _ _ _ _ _ _ hv hv1 (Or.inr ⟨rfl, Or.inl hlt⟩); omega
      · have e : m' = m := by omega
        subst e
        have := jdn_in_month _ _ _ hv
        omega

theorem monthWeeksLoop_spec (y m start : Int) (hm : 1 ≤ m ∧ m ≤ 12) (hs : 0 ≤ start ∧ start ≤ 6) (fuel : Nat) :
    ∀ (w : SolarWeek) (F : Int), validYmd w.year w.month w.day = true → w.start = start →
      F = jdn w.year w.month w.day - (jdn w.year w.month w.day + 7000001 - start) % 7 →
      jdn y m 1 ≤ F + 7 → F < jdn y m 1 + daysOfMonth y m →
      (jdn y m 1 + daysOfMonth y m - 1 - F) / 7 + 1 ≤ (fuel : Int) →
      ∃ l, monthWeeksLoop y m fuel w = some l ∧ (l.length : Int) = (jdn y m 1 + daysOfMonth y m - 1 - F) / 7 + 1 ∧
        ∀ i : Nat, i < l.length → ∃ w', l[i]? = some w' ∧ w'.start = start ∧
          ∃ f, w'.firstDay = some f ∧ f.jdn = F + 7 * i := by
  induction fuel with
  | zero => intro w F hv hst hF h1 h2 h3; omega
  | succ k ih =>
    intro w F hv hst hF h1 h2 h3
    obtain ⟨c1, _, e, hc1v, hj1, _⟩ := next_plain_eq w 1 hv (by omega)
    have hv1 : validYmd (weekOf c1 w.start).year (weekOf c1 w.start).month (weekOf c1 w.start).day = true :=
      (valid_parts c1 hc1v).1
    obtain ⟨fd, efd, hfdv, _, hfdj, _⟩ := firstDay_core (weekOf c1 w.start) hv1 (by simp only [weekOf, hst]; exact hs)
    obtain ⟨f0, ef0, _, _, hf0j, _⟩ := firstDay_core w hv (by rw [hst]; exact hs)
    simp only [weekOf, Solar.jdn] at hfdj hj1
    rw [hj1, hst] at hfdj
    rw [hst] at hf0j
    have hfd : jdn fd.year fd.month fd.day = F + 7 := by omega
    have hb := beyond_iff y m fd.year fd.month fd.day hm (valid_parts fd hfdv).1 (by omega)
    simp only [monthWeeksLoop, e, efd]
    by_cases hc : fd.year > y ∨ fd.month > m
    · simp only [hc, if_true]
      have := hb.1 hc
      refine ⟨[w], rfl, by simp only [List.length_singleton]; omega, ?_⟩
      intro i hi
      simp only [List.length_singleton] at hi
      have : i = 0 := by omega
      subst this
      exact ⟨w, rfl, hst, f0, ef0, by rw [hf0j, hF]; simp⟩
    · simp only [hc, if_false]
      have hnb : ¬ (jdn y m 1 + daysOfMonth y m ≤ jdn fd.year fd.month fd.day) := fun h => hc (hb.2 h)
      obtain ⟨l, el, hlen, hget⟩ := ih (weekOf c1 w.start) (F + 7) hv1 (by simp only [weekOf, hst])
        (by simp only [weekOf]; rw [hj1]; omega) (by omega) (by omega) (by omega)
      refine ⟨w :: l, by rw [el]; rfl, by simp only [List.length_cons]; push_cast; omega, ?_⟩
      intro i hi
      cases i with
      | zero => exact ⟨w, rfl, hst, f0, ef0, by rw [hf0j, hF]; simp⟩
      | succ i =>
        obtain ⟨w', e', hs', f, ef, hfj⟩ := hget i (by simp only [List.length_cons] at hi; omega)
        refine ⟨w', by simp [e'], hs', f, ef, ?_⟩
        rw [hfj]; push_cast; omega

theorem monthWeeks_length (y m start : Int) (hy : 1 ≤ y) (hm : 1 ≤ m ∧ m ≤ 12) (hn : ¬ (y = 1582 ∧ m = 10)) (hs : 0 ≤ start ∧ start ≤ 6) :
    ∃ l, monthWeeks y m start = some l ∧ (l.length : Int) = weeksOfMonth y m start ∧
      ∀ i : Nat, i < l.length → ∃ w, l[i]? = some w ∧ w.start = start ∧ (∃ f, w.firstDay = some f ∧ f.jdn = (match (SolarWeek.mk y m 1 start).firstDay with | some f0 => f0.jdn | none => 0) + 7 * i) := by
  have hv1 := valid_first y m hm
  have hb := daysOfMonth_bounds y m hm.1 hm.2
  obtain ⟨f0, ef0, _, _, hf0j, _⟩ := firstDay_core ⟨y, m, 1, start⟩ hv1 hs
  simp only at hf0j
  obtain ⟨l, el, hlen, hget⟩ := monthWeeksLoop_spec y m start hm hs 8 ⟨y, m, 1, start⟩ f0.jdn hv1 rfl hf0j
    (by omega) (by omega) (by omega)
  refine ⟨l, el, ?_, ?_⟩
  · rw [hlen]
    unfold weeksOfMonth week
    rw [off_eq _ _ hs]
    omega
  · rw [ef0]; exact hget

/-! ## stepping weeks in month-separated mode -/

/-- one step in month-separated mode moves one position in the sequence (month, week 1..k), (next month, week 1..) -/
def weekPos (w : SolarWeek) : Int × Int × Int := (w.year, w.month, w.index)
def succPos (start : Int) (p : Int × Int × Int) : Int × Int × Int :=
  if p.2.2 < weeksOfMonth p.1 p.2.1 start then (p.1, p.2.1, p.2.2 + 1) else ((nextYm p.1 p.2.1 1).1, (nextYm p.1 p.2.1 1).2, 1)

/-- `Nat.iterate` is not in core Lean (it lives in Mathlib, which this project does not link); this is the
same definition (`f^[0] a = a`, `f^[k+1] a = f^[k] (f a)`), as `Model.Nat.iterate`. -/
def Nat.iterate {α : Sort u} (op : α → α) : Nat → α → α
  | 0, a => a
  | k + 1, a => Nat.iterate op k (op a)

/- (helper) the unconditional `index_eq` is false after the `GetIndex` fix for October 1582, d > 4
(e.g. y = 1582, m = 10, d = 15); all uses below are outside October 1582. -/
theorem index_eq_partial (y m d start : Int) (hs : 0 ≤ start ∧ start ≤ 6) (hn : ¬ (y = 1582 ∧ m = 10)) :
    (SolarWeek.mk y m d start).index = (d + (jdn y m 1 + 7000001 - start) % 7 + 6) / 7 := by
  have hc : ¬ (y = 1582 ∧ m = 10 ∧ d > 4) := fun h => hn ⟨h.1, h.2.1⟩
  unfold SolarWeek.index week
  simp only [hc, if_false]
  rw [off_eq _ _ hs]

theorem weeksOfMonth_eq (y m start : Int) (hs : 0 ≤ start ∧ start ≤ 6) :
    weeksOfMonth y m start = (daysOfMonth y m + (jdn y m 1 + 7000001 - start) % 7 + 6) / 7 := by
  unfold weeksOfMonth week
  rw [off_eq _ _ hs]

theorem succPos_lt (start y m i : Int) (h : i < weeksOfMonth y m start) :
    succPos start (y, m, i) = (y, m, i + 1) := by
  unfold succPos; simp only [h, if_true]

theorem succPos_ge (start y m i : Int) (h : ¬ i < weeksOfMonth y m start) :
    succPos start (y, m, i) = ((nextYm y m 1).1, (nextYm y m 1).2, 1) := by
  unfold succPos; simp only [h, if_false]

theorem in_month_facts (s : Solar) (y m start : Int) (hs : 0 ≤ start ∧ start ≤ 6)
    (hv : validYmd s.year s.month s.day = true) (ey : s.year = y) (em : s.month = m) (hn : ¬ (y = 1582 ∧ m = 10)) :
    jdn s.year s.month s.day = jdn y m 1 + (s.day - 1) ∧ 1 ≤ s.day ∧ s.day ≤ daysOfMonth y m ∧
    (weekOf s start).index = (s.day + (jdn y m 1 + 7000001 - start) % 7 + 6) / 7 ∧
    weekPos (weekOf s start) = (y, m, (s.day + (jdn y m 1 + 7000001 - start) % 7 + 6) / 7) := by
  subst ey em
  obtain ⟨_, _, h1, h2⟩ := range_of_valid _ _ _ hv hn
  have hi : (weekOf s start).index = (s.day + (jdn s.year s.month 1 + 7000001 - start) % 7 + 6) / 7 :=
    index_eq_partial s.year s.month s.day start hs hn
  refine ⟨jdn_lin _ _ _ hv hn, h1, h2, hi, ?_⟩
  unfold weekPos
  rw [hi]
  rfl

/-- loop invariant of `nextSepLoop`: the current date `c` lies in the week of the current `week` value, not before it -/
def SepInv (start : Int) (c : Solar) (wk : SolarWeek) : Prop :=
  c.valid = true ∧ validYmd wk.year wk.month wk.day = true ∧ wk.start = start ∧ 1583 ≤ wk.year ∧
  jdn wk.year wk.month wk.day ≤ c.jdn ∧ c.jdn - (c.jdn + 7000001 - start) % 7 ≤ jdn wk.year wk.month wk.day

theorem sep_step_fwd (start : Int) (hs : 0 ≤ start ∧ start ≤ 6) (k : Nat) (c : Solar) (wk : SolarWeek)
    (hI : SepInv start c wk) :
    ∃ c' wk', nextSepLoop start true (k + 1) c wk wk.month = nextSepLoop start true k c' wk' wk'.month ∧
      SepInv start c' wk' ∧ weekPos wk' = succPos start (weekPos wk) := by
  obtain ⟨hcv, hwv, hst, hy, hle, hge⟩ := hI
  have hn : ¬ (wk.year = 1582 ∧ wk.month = 10) := by omega
  obtain ⟨hm1, hm2, hd1, hd2⟩ := range_of_valid _ _ _ hwv hn
  have hm : 1 ≤ wk.month ∧ wk.month ≤ 12 := ⟨hm1, hm2⟩
  have hjw := jdn_lin _ _ _ hwv hn
  have hb := daysOfMonth_bounds wk.year wk.month hm1 hm2
  have hjn := jdn_nextYm wk.year wk.month hm
  obtain ⟨hn1, hn2, hn3⟩ := nextYm_spec wk.year wk.month 1 hm1 hm2
  have hpos : weekPos wk = (wk.year, wk.month, (wk.day + (jdn wk.year wk.month 1 + 7000001 - start) % 7 + 6) / 7) := by
    unfold weekPos; rw [← index_eq_partial _ _ _ _ hs hn, ← hst]
  have hwom := weeksOfMonth_eq wk.year wk.month start hs
  have hsge := succPos_ge start wk.year wk.month ((wk.day + (jdn wk.year wk.month 1 + 7000001 - start) % 7 + 6) / 7)
  generalize hy' : (nextYm wk.year wk.month 1).1 = y' at *
  generalize hm' : (nextYm wk.year wk.month 1).2 = m' at *
  have hy'ge : wk.year ≤ y' := by omega
  have hmne : m' ≠ wk.month := by omega
  have hn' : ¬ (y' = 1582 ∧ m' = 10) := by omega
  have hb' := daysOfMonth_bounds y' m' hn1 hn2
  obtain ⟨c1, e1, hc1v, hj1, _⟩ := nextDay_spec_strong c 7 hcv
  have hc1p := (valid_parts c1 hc1v).1
  simp only [Solar.jdn] at hj1 hle hge
  have hloc1 : jdn c1.year c1.month c1.day < jdn wk.year wk.month 1 + daysOfMonth wk.year wk.month →
      c1.year = wk.year ∧ c1.month = wk.month := fun h =>
    month_of_jdn _ _ _ _ _ hm hc1p (by omega) h
  have hloc2 : jdn wk.year wk.month 1 + daysOfMonth wk.year wk.month ≤ jdn c1.year c1.month c1.day →
      c1.year = y' ∧ c1.month = m' := fun h =>
    month_of_jdn _ _ _ _ _ ⟨hn1, hn2⟩ hc1p (by omega) (by omega)
  rw [nextSepLoop]
  simp only [if_true, e1]
  by_cases hsame : jdn c1.year c1.month c1.day < jdn wk.year wk.month 1 + daysOfMonth wk.year wk.month
  · -- same month
    obtain ⟨ey, em⟩ := hloc1 hsame
    have hc : ¬ (wk.month ≠ (weekOf c1 start).month) := by simp only [weekOf, em]; omega
    rw [if_neg hc]
    obtain ⟨hjc1, hd1', hd2', hidx1, hpos1⟩ := in_month_facts c1 _ _ start hs hc1p ey em hn
    refine ⟨c1, weekOf c1 start, by simp only [weekOf, em], ⟨hc1v, hc1p, rfl, by simp only [weekOf]; omega, ?_, ?_⟩, ?_⟩
    · simp only [weekOf, Solar.jdn]; omega
    · simp only [weekOf, Solar.jdn]; omega
    · rw [hpos, succPos_lt _ _ _ _ (by rw [hwom]; omega), hpos1]
      simp only [Prod.mk.injEq, true_and]
      omega
  · -- c + 7 is in the next month
    obtain ⟨ey, em⟩ := hloc2 (by omega)
    have hc : wk.month ≠ (weekOf c1 start).month := by simp only [weekOf, em]; omega
    rw [if_pos hc]
    obtain ⟨hjc1, hd1', hd2', hidx1, hpos1⟩ := in_month_facts c1 _ _ start hs hc1p ey em hn'
    by_cases hi1 : (weekOf c1 start).index = 1
    · simp only [hi1, if_true]
      obtain ⟨fd, efd, hfdv, _, hfdj, _⟩ := firstDay_core (weekOf c1 start) hc1p hs
      have hfdp := (valid_parts fd hfdv).1
      simp only [weekOf, Solar.jdn] at hfdj
      rw [efd]
      simp only
      rw [hidx1] at hi1
      by_cases hfl : jdn fd.year fd.month fd.day < jdn wk.year wk.month 1 + daysOfMonth wk.year wk.month
      · -- the first day is still in the old month
        obtain ⟨fy, fm⟩ := month_of_jdn _ _ _ _ _ hm hfdp (by omega) hfl
        obtain ⟨hjf, hf1', hf2', _, hposf⟩ := in_month_facts fd _ _ start hs hfdp fy fm hn
        refine ⟨c1, weekOf fd start, rfl, ⟨hc1v, hfdp, rfl, by simp only [weekOf]; omega, ?_, ?_⟩, ?_⟩
        · simp only [weekOf, Solar.jdn]; omega
        · simp only [weekOf, Solar.jdn]; omega
        · rw [hpos, succPos_lt _ _ _ _ (by rw [hwom]; omega), hposf]
          simp only [Prod.mk.injEq, true_and]
          omega
      · -- the first day is the 1st of the new month
        obtain ⟨fy, fm⟩ := month_of_jdn y' m' _ _ _ ⟨hn1, hn2⟩ hfdp (by omega) (by omega)
        obtain ⟨hjf, hf1', hf2', _, hposf⟩ := in_month_facts fd _ _ start hs hfdp fy fm hn'
        refine ⟨c1, weekOf fd start, rfl, ⟨hc1v, hfdp, rfl, by simp only [weekOf]; omega, ?_, ?_⟩, ?_⟩
        · simp only [weekOf, Solar.jdn]; omega
        · simp only [weekOf, Solar.jdn]; omega
        · rw [hpos, hsge (by rw [hwom]; omega), hposf]
          simp only [Prod.mk.injEq, true_and]
          omega
    · simp only [hi1, if_false]
      rw [hidx1] at hi1
      have hv2 := valid_of_range y' m' 1 ⟨hn1, hn2⟩ hn' (by omega) (by omega)
      obtain ⟨e2, hc2v⟩ := newSolarYmd_some y' m' 1 hv2
      obtain ⟨_, _, _, _, hpos2⟩ := in_month_facts ⟨y', m', 1, 0, 0, 0⟩ y' m' start hs hv2 rfl rfl hn'
      simp only [weekOf, ey, em, e2]
      refine ⟨_, _, rfl, ⟨hc2v, hv2, rfl, by simp only; omega, ?_, ?_⟩, ?_⟩
      · simp only [Solar.jdn]; omega
      · simp only [Solar.jdn]; omega
      · rw [hpos, hsge (by rw [hwom]; omega)]
        simp only [weekOf] at hpos2
        rw [hpos2]
        simp only [Prod.mk.injEq, true_and]
        omega

theorem sep_walk_fwd (start : Int) (hs : 0 ≤ start ∧ start ≤ 6) (n : Nat) : ∀ (c : Solar) (wk : SolarWeek),
    SepInv start c wk →
    ∃ r, nextSepLoop start true n c wk wk.month = some r ∧ r.start = start ∧
      validYmd r.year r.month r.day = true ∧ 1583 ≤ r.year ∧
      weekPos r = Nat.iterate (succPos start) n (weekPos wk) := by
  induction n with
  | zero =>
    intro c wk hI
    exact ⟨wk, rfl, hI.2.2.1, hI.2.1, hI.2.2.2.1, rfl⟩
  | succ k ih =>
    intro c wk hI
    obtain ⟨c', wk', e, hI', hp⟩ := sep_step_fwd start hs k c wk hI
    obtain ⟨r, er, h1, h2, h3, h4⟩ := ih c' wk' hI'
    refine ⟨r, by rw [e, er], h1, h2, h3, ?_⟩
    rw [h4, hp]
    rfl

theorem sep_init (w : SolarWeek) (hv : validYmd w.year w.month w.day = true) (hs : 0 ≤ w.start ∧ w.start ≤ 6)
    (hy : 1583 ≤ w.year) (n : Int) (hn : 0 < n) :
    w.next n true = nextSepLoop w.start true n.natAbs ⟨w.year, w.month, w.day, 0, 0, 0⟩ w w.month ∧
    SepInv w.start ⟨w.year, w.month, w.day, 0, 0, 0⟩ w := by
  obtain ⟨e, hcv⟩ := newSolarYmd_some _ _ _ hv
  constructor
  · unfold SolarWeek.next
    have h0 : ¬ n = 0 := by omega
    have h1 : decide (n > 0) = true := by simp only [decide_eq_true_eq]; omega
    simp only [h0, if_false, e, if_true, h1]
    rfl
  · refine ⟨hcv, hv, rfl, hy, ?_, ?_⟩
    · simp only [Solar.jdn]; omega
    · simp only [Solar.jdn]; omega

theorem next_sep_one (w : SolarWeek) (hv : validYmd w.year w.month w.day = true) (hs : 0 ≤ w.start ∧ w.start ≤ 6)
    (hy : 1583 ≤ w.year) :
    ∃ r, w.next 1 true = some r ∧ r.start = w.start ∧ validYmd r.year r.month r.day = true ∧ weekPos r = succPos w.start (weekPos w) := by
  obtain ⟨e, hI⟩ := sep_init w hv hs hy 1 (by omega)
  obtain ⟨r, er, h1, h2, _, h4⟩ := sep_walk_fwd w.start hs 1 _ _ hI
  exact ⟨r, by rw [e]; exact er, h1, h2, h4⟩

/-- and n steps move n positions (n ≥ 1) -/
theorem next_sep_walk (w : SolarWeek) (n : Nat) (hn : 1 ≤ n) (hv : validYmd w.year w.month w.day = true) (hs : 0 ≤ w.start ∧ w.start ≤ 6)
    (hy : 1583 ≤ w.year) :
    ∃ r, w.next n true = some r ∧ weekPos r = Nat.iterate (succPos w.start) n (weekPos w) := by
  obtain ⟨e, hI⟩ := sep_init w hv hs hy (n : Int) (by omega)
  obtain ⟨r, er, _, _, _, h4⟩ := sep_walk_fwd w.start hs n _ _ hI
  refine ⟨r, ?_, h4⟩
  rw [e, Int.natAbs_natCast]; exact er

/-! ### backward -/

/-- previous position in the sequence (month, week 1..k) -/
def predPos (start : Int) (p : Int × Int × Int) : Int × Int × Int :=
  if 1 < p.2.2 then (p.1, p.2.1, p.2.2 - 1)
  else ((nextYm p.1 p.2.1 (-1)).1, (nextYm p.1 p.2.1 (-1)).2,
        weeksOfMonth (nextYm p.1 p.2.1 (-1)).1 (nextYm p.1 p.2.1 (-1)).2 start)

theorem predPos_gt (start y m i : Int) (h : 1 < i) : predPos start (y, m, i) = (y, m, i - 1) := by
  unfold predPos; simp only [h, if_true]

theorem predPos_le (start y m i : Int) (h : ¬ 1 < i) :
    predPos start (y, m, i) = ((nextYm y m (-1)).1, (nextYm y m (-1)).2,
        weeksOfMonth (nextYm y m (-1)).1 (nextYm y m (-1)).2 start) := by
  unfold predPos; simp only [h, if_false]

/-- this month starts right after the previous one ends -/
theorem jdn_prevYm (y m : Int) (hm : 1 ≤ m ∧ m ≤ 12) :
    jdn y m 1 = jdn (nextYm y m (-1)).1 (nextYm y m (-1)).2 1 + daysOfMonth (nextYm y m (-1)).1 (nextYm y m (-1)).2 := by
  obtain ⟨a1, a2, a3⟩ := nextYm_spec y m (-1) hm.1 hm.2
  have h := jdn_nextYm (nextYm y m (-1)).1 (nextYm y m (-1)).2 ⟨a1, a2⟩
  have e := nextYm_inv y m (-1) hm
  simp only [Int.neg_neg] at e
  rw [e] at h
  exact h

/-- the last day of a month, reached by stepping from the 1st (as `SolarWeek.Next` does after the `fix:`) -/
theorem last_day_eq (y m : Int) (hm : 1 ≤ m ∧ m ≤ 12) (hn : ¬ (y = 1582 ∧ m = 10)) :
    (newSolarYmd y m 1).bind (fun f => f.nextDay (daysOfMonth y m - 1)) = some ⟨y, m, daysOfMonth y m, 0, 0, 0⟩ := by
  have hb := daysOfMonth_bounds y m hm.1 hm.2
  have hv1 := valid_of_range y m 1 hm hn (by omega) (by omega)
  have hvl := valid_of_range y m (daysOfMonth y m) hm hn (by omega) (by omega)
  obtain ⟨e1, hc1v⟩ := newSolarYmd_some y m 1 hv1
  obtain ⟨_, hclv⟩ := newSolarYmd_some y m _ hvl
  obtain ⟨r, er, hrv, hj, a1, a2, a3⟩ := nextDay_spec_strong ⟨y, m, 1, 0, 0, 0⟩ (daysOfMonth y m - 1) hc1v
  have hl := jdn_lin y m _ hvl hn
  have : r = ⟨y, m, daysOfMonth y m, 0, 0, 0⟩ :=
    solar_eq_of_jdn r _ hrv hclv (by rw [hj]; simp only [Solar.jdn]; omega) a1 a2 a3
  rw [e1, Option.bind_some, er, this]

/-- backward loop invariant: the current date `c` lies in the week of the current `week` value, not after it -/
def SepInvB (start : Int) (c : Solar) (wk : SolarWeek) : Prop :=
  c.valid = true ∧ validYmd wk.year wk.month wk.day = true ∧ wk.start = start ∧
  c.jdn ≤ jdn wk.year wk.month wk.day ∧ jdn wk.year wk.month wk.day ≤ c.jdn - (c.jdn + 7000001 - start) % 7 + 6

theorem sep_step_bwd (start : Int) (hs : 0 ≤ start ∧ start ≤ 6) (k : Nat) (c : Solar) (wk : SolarWeek)
    (hI : SepInvB start c wk) (hy : 1583 * 12 + 1 ≤ wk.year * 12 + (wk.month - 1)) :
    ∃ c' wk', nextSepLoop start false (k + 1) c wk wk.month = nextSepLoop start false k c' wk' wk'.month ∧
      SepInvB start c' wk' ∧ wk.year * 12 + (wk.month - 1) - 1 ≤ wk'.year * 12 + (wk'.month - 1) ∧
      weekPos wk' = predPos start (weekPos wk) := by
  obtain ⟨hcv, hwv, hst, hle, hge⟩ := hI
  obtain ⟨hm1, hm2, _⟩ := (validYmd_iff_step _ _ _).1 hwv
  have hm : 1 ≤ wk.month ∧ wk.month ≤ 12 := ⟨hm1, hm2⟩
  have hn : ¬ (wk.year = 1582 ∧ wk.month = 10) := by omega
  obtain ⟨_, _, hd1, hd2⟩ := range_of_valid _ _ _ hwv hn
  have hjw := jdn_lin _ _ _ hwv hn
  have hb := daysOfMonth_bounds wk.year wk.month hm1 hm2
  have hjp := jdn_prevYm wk.year wk.month hm
  obtain ⟨hn1, hn2, hn3⟩ := nextYm_spec wk.year wk.month (-1) hm1 hm2
  have hpos : weekPos wk = (wk.year, wk.month, (wk.day + (jdn wk.year wk.month 1 + 7000001 - start) % 7 + 6) / 7) := by
    unfold weekPos; rw [← index_eq_partial _ _ _ _ hs hn, ← hst]
  have hple := predPos_le start wk.year wk.month ((wk.day + (jdn wk.year wk.month 1 + 7000001 - start) % 7 + 6) / 7)
  generalize hy' : (nextYm wk.year wk.month (-1)).1 = y' at *
  generalize hm' : (nextYm wk.year wk.month (-1)).2 = m' at *
  have hwom' := weeksOfMonth_eq y' m' start hs
  have hmne : m' ≠ wk.month := by omega
  have hn' : ¬ (y' = 1582 ∧ m' = 10) := by omega
  have hb' := daysOfMonth_bounds y' m' hn1 hn2
  obtain ⟨c1, e1, hc1v, hj1, _⟩ := nextDay_spec_strong c (-7) hcv
  have hc1p := (valid_parts c1 hc1v).1
  simp only [Solar.jdn] at hj1 hle hge
  rw [nextSepLoop]
  simp only [Bool.false_eq_true, if_false, e1]
  by_cases hsame : jdn wk.year wk.month 1 ≤ jdn c1.year c1.month c1.day
  · -- same month
    obtain ⟨ey, em⟩ := month_of_jdn _ _ _ _ _ hm hc1p hsame (by omega)
    have hc : ¬ (wk.month ≠ (weekOf c1 start).month) := by simp only [weekOf, em]; omega
    rw [if_neg hc]
    obtain ⟨hjc1, hd1', hd2', hidx1, hpos1⟩ := in_month_facts c1 _ _ start hs hc1p ey em hn
    refine ⟨c1, weekOf c1 start, by simp only [weekOf, em], ⟨hc1v, hc1p, rfl, ?_, ?_⟩, ?_, ?_⟩
    · simp only [weekOf, Solar.jdn]; omega
    · simp only [weekOf, Solar.jdn]; omega
    · simp only [weekOf]; omega
    · rw [hpos, predPos_gt _ _ _ _ (by omega), hpos1]
      simp only [Prod.mk.injEq, true_and]
      omega
  · -- c - 7 is in the previous month
    obtain ⟨ey, em⟩ := month_of_jdn y' m' _ _ _ ⟨hn1, hn2⟩ hc1p (by omega) (by omega)
    have hc : wk.month ≠ (weekOf c1 start).month := by simp only [weekOf, em]; omega
    rw [if_pos hc]
    obtain ⟨hjc1, hd1', hd2', hidx1, hpos1⟩ := in_month_facts c1 _ _ start hs hc1p ey em hn'
    have hwk1y : (weekOf c1 start).year = y' := ey
    have hwk1m : (weekOf c1 start).month = m' := em
    rw [hwk1y, hwk1m]
    by_cases hi1 : weeksOfMonth y' m' start = (weekOf c1 start).index
    · rw [if_pos hi1]
      obtain ⟨fd, efd, hfdv, _, hfdj, _⟩ := firstDay_core (weekOf c1 start) hc1p hs
      obtain ⟨ld, eld, hldv, hldj, _⟩ := nextDay_spec_strong fd 6 hfdv
      have hldp := (valid_parts ld hldv).1
      simp only [weekOf, Solar.jdn] at hfdj hldj
      rw [efd]
      simp only
      rw [eld]
      simp only
      rw [hidx1, hwom'] at hi1
      by_cases hfl : jdn wk.year wk.month 1 ≤ jdn ld.year ld.month ld.day
      · -- the last day is in the current month
        obtain ⟨fy, fm⟩ := month_of_jdn _ _ _ _ _ hm hldp hfl (by omega)
        obtain ⟨hjf, hf1', hf2', _, hposf⟩ := in_month_facts ld _ _ start hs hldp fy fm hn
        refine ⟨c1, weekOf ld start, rfl, ⟨hc1v, hldp, rfl, ?_, ?_⟩, ?_, ?_⟩
        · simp only [weekOf, Solar.jdn]; omega
        · simp only [weekOf, Solar.jdn]; omega
        · simp only [weekOf]; omega
        · rw [hpos, predPos_gt _ _ _ _ (by omega), hposf]
          simp only [Prod.mk.injEq, true_and]
          omega
      · -- the last day is the last day of the previous month
        obtain ⟨fy, fm⟩ := month_of_jdn y' m' _ _ _ ⟨hn1, hn2⟩ hldp (by omega) (by omega)
        obtain ⟨hjf, hf1', hf2', _, hposf⟩ := in_month_facts ld _ _ start hs hldp fy fm hn'
        refine ⟨c1, weekOf ld start, rfl, ⟨hc1v, hldp, rfl, ?_, ?_⟩, ?_, ?_⟩
        · simp only [weekOf, Solar.jdn]; omega
        · simp only [weekOf, Solar.jdn]; omega
        · simp only [weekOf]; omega
        · rw [hpos, hple (by omega), hposf, hwom']
          simp only [Prod.mk.injEq, true_and]
          omega
    · rw [if_neg hi1]
      rw [hidx1, hwom'] at hi1
      have hv2 := valid_of_range y' m' (daysOfMonth y' m') ⟨hn1, hn2⟩ hn' (by omega) (by omega)
      obtain ⟨_, hc2v⟩ := newSolarYmd_some y' m' _ hv2
      have e2 := last_day_eq y' m' ⟨hn1, hn2⟩ hn'
      obtain ⟨hj2, _, _, _, hpos2⟩ := in_month_facts ⟨y', m', daysOfMonth y' m', 0, 0, 0⟩ y' m' start hs hv2 rfl rfl hn'
      simp only [e2]
      simp only at hj2
      refine ⟨_, _, rfl, ⟨hc2v, hv2, rfl, ?_, ?_⟩, ?_, ?_⟩
      · simp only [weekOf, Solar.jdn]; omega
      · simp only [weekOf, Solar.jdn]; omega
      · simp only [weekOf]; omega
      · rw [hpos, hple (by omega), hpos2, hwom']

theorem sep_walk_bwd (start : Int) (hs : 0 ≤ start ∧ start ≤ 6) (n : Nat) : ∀ (c : Solar) (wk : SolarWeek),
    SepInvB start c wk → 1583 * 12 + (n : Int) ≤ wk.year * 12 + (wk.month - 1) →
    ∃ r, nextSepLoop start false n c wk wk.month = some r ∧ r.start = start ∧
      validYmd r.year r.month r.day = true ∧
      weekPos r = Nat.iterate (predPos start) n (weekPos wk) := by
  induction n with
  | zero =>
    intro c wk hI _
    exact ⟨wk, rfl, hI.2.2.1, hI.2.1, rfl⟩
  | succ k ih =>
    intro c wk hI hy
    obtain ⟨c', wk', e, hI', ho, hp⟩ := sep_step_bwd start hs k c wk hI (by omega)
    obtain ⟨r, er, h1, h2, h4⟩ := ih c' wk' hI' (by omega)
    refine ⟨r, by rw [e, er], h1, h2, ?_⟩
    rw [h4, hp]
    rfl

/-- n steps backwards in month-separated mode move n positions back, as long as the walk stays after 1582 -/
theorem prev_sep_walk (w : SolarWeek) (n : Nat) (hn : 1 ≤ n) (hv : validYmd w.year w.month w.day = true) (hs : 0 ≤ w.start ∧ w.start ≤ 6)
    (hy : 1583 * 12 + (n : Int) ≤ w.year * 12 + (w.month - 1)) :
    ∃ r, w.next (-(n : Int)) true = some r ∧ r.start = w.start ∧ validYmd r.year r.month r.day = true ∧
      weekPos r = Nat.iterate (predPos w.start) n (weekPos w) := by
  obtain ⟨e, hcv⟩ := newSolarYmd_some _ _ _ hv
  have hI : SepInvB w.start ⟨w.year, w.month, w.day, 0, 0, 0⟩ w := by
    refine ⟨hcv, hv, rfl, ?_, ?_⟩
    · simp only [Solar.jdn]; omega
    · simp only [Solar.jdn]; omega
  obtain ⟨r, er, h1, h2, h4⟩ := sep_walk_bwd w.start hs n _ _ hI hy
  refine ⟨r, ?_, h1, h2, h4⟩
  unfold SolarWeek.next
  have h0 : ¬ (-(n : Int)) = 0 := by omega
  have h1 : decide (-(n : Int) > 0) = false := by simp only [decide_eq_false_iff_not]; omega
  simp only [h0, if_false, e, if_true, h1, Int.natAbs_neg, Int.natAbs_natCast]
  exact er

end Model

#print axioms Model.firstDay_spec
#print axioms Model.days_spec
#print axioms Model.daysInMonth_spec
#print axioms Model.index_first
#print axioms Model.index_succ
#print axioms Model.index_succ_1582
#print axioms Model.indexInYear_first
#print axioms Model.indexInYear_succ
#print axioms Model.weeksOfMonth_eq_last_index_partial
#print axioms Model.weeksOfMonth_eq_last_index_1582
#print axioms Model.monthWeeks_length
#print axioms Model.monthDays_spec
#print axioms Model.oct1582_21
#print axioms Model.seasonMonths_spec
#print axioms Model.halfYearMonths_spec
#print axioms Model.yearMonths_spec
#print axioms Model.nextYm_total
#print axioms Model.nextYm_add
#print axioms Model.nextYm_inv
#print axioms Model.seasonNext_inv
#print axioms Model.halfYearNext_inv
#print axioms Model.week_next_plain
#print axioms Model.week_next_plain_inv
#print axioms Model.next_sep_one
#print axioms Model.next_sep_walk
#print axioms Model.prev_sep_walk
