/-
FnSBase — base lemmas tying the string-mode generated code (`Gen.FnS`) to the model: library
semantics (`sidx`, `mlookupS`, `mlookupI`, `mhas`, `fmtD`), structure conversions, and the stem /
branch / pillar string getters of `Lunar`.
-/
import Gen.FnS
import Model.Almanac
namespace FnSEq
open Gen.Fn (Err)

/-! ### 1. `sidx` -/

theorem sidx_eq_getD (T : List String) (i : Int) (h0 : 0 ≤ i) (h1 : i < T.length) :
    Gen.FnS.sidx T i = .ok (T.getD i.toNat "") := by
  have h : i.toNat < T.length := by omega
  simp [Gen.FnS.sidx, Int.not_lt.mpr h0, List.getD, List.getElem?_eq_getElem h, pure, Except.pure]

theorem sidx_eq_strGetD (T : List String) (i : Int) (h0 : 0 ≤ i) (h1 : i < T.length) :
    Gen.FnS.sidx T i = .ok (Model.strGetD T i) := by
  rw [sidx_eq_getD T i h0 h1]; simp [Model.strGetD, Int.not_lt.mpr h0]

theorem sidx_eq_strGetD' (T : List String) (i : Int) (h0 : 0 ≤ i) (h1 : i < T.length) :
    Gen.FnS.sidx T i = .ok (Model.ganStr.strGetD' T i) := by
  rw [sidx_eq_getD T i h0 h1]; simp [Model.ganStr.strGetD', Int.not_lt.mpr h0]

theorem sidx_panic (T : List String) (i : Int) (h : i < 0 ∨ (T.length : Int) ≤ i) :
    Gen.FnS.sidx T i = .error .panic := by
  unfold Gen.FnS.sidx
  by_cases hi : i < 0
  · simp [hi, throw, throwThe, MonadExceptOf.throw]
  · have h2 : T.length ≤ i.toNat := by omega
    simp [hi, List.getElem?_eq_none h2, throw, throwThe, MonadExceptOf.throw]

/-- the model's two totalised readers are the same function -/
theorem sb_strGetD'_eq (T : List String) (i : Int) : Model.ganStr.strGetD' T i = Model.strGetD T i := rfl

/-- outside the table the model's reader yields "" -/
theorem strGetD_out (T : List String) (i : Int) (h : i < 0 ∨ (T.length : Int) ≤ i) :
    Model.strGetD T i = "" := by
  unfold Model.strGetD
  by_cases hi : i < 0
  · simp [hi]
  · have h2 : T.length ≤ i.toNat := by omega
    simp [hi, List.getD, List.getElem?_eq_none h2]

/-- total form: what `sidx` does on every index -/
theorem sidx_total (T : List String) (i : Int) :
    Gen.FnS.sidx T i = if 0 ≤ i ∧ i < T.length then .ok (Model.strGetD T i) else .error .panic := by
  by_cases h : 0 ≤ i ∧ i < T.length
  · rw [if_pos h]; exact sidx_eq_strGetD T i h.1 h.2
  · rw [if_neg h]; exact sidx_panic T i (by omega)

/-! ### 2. map reads -/

theorem mlookupS_eq_lookupStr (T : List (String × String)) (k : String) :
    Gen.FnS.mlookupS T k = Model.lookupStr T k := by
  unfold Gen.FnS.mlookupS Model.lookupStr Model.lookupS
  cases T.find? (fun p => p.1 == k) <;> rfl

theorem mlookupI_eq (T : List (String × Int)) (k : String) :
    Gen.FnS.mlookupI T k = (Model.lookupS T k).getD 0 := by
  unfold Gen.FnS.mlookupI Model.lookupS
  cases T.find? (fun p => p.1 == k) <;> rfl

theorem mhas_eq {α : Type} (T : List (String × α)) (k : String) :
    Gen.FnS.mhas T k = (Model.lookupS T k).isSome := by
  unfold Gen.FnS.mhas Model.lookupS
  induction T with
  | nil => rfl
  | cons p T ih =>
    by_cases hp : (p.1 == k) = true
    · simp [List.find?, hp]
    · simp only [Bool.not_eq_true] at hp
      simp only [List.any_cons, hp, Bool.false_or, List.find?]
      exact ih

/-! ### 3. `%d` -/

theorem fmtD_eq (n : Int) : Gen.FnS.fmtD n = toString n := rfl

/-! ### 4. structure conversions -/

def solarToM (s : Gen.FnS.Solar) : Model.Solar := ⟨s.year, s.month, s.day, s.hour, s.minute, s.second⟩
def solarOfM (s : Model.Solar) : Gen.FnS.Solar := ⟨s.year, s.month, s.day, s.hour, s.minute, s.second⟩

@[simp] theorem solarToM_ofM (s : Model.Solar) : solarToM (solarOfM s) = s := rfl
@[simp] theorem solarOfM_toM (s : Gen.FnS.Solar) : solarOfM (solarToM s) = s := rfl
@[simp] theorem solarToM_year (s : Gen.FnS.Solar) : (solarToM s).year = s.year := rfl
@[simp] theorem solarToM_month (s : Gen.FnS.Solar) : (solarToM s).month = s.month := rfl
@[simp] theorem solarToM_day (s : Gen.FnS.Solar) : (solarToM s).day = s.day := rfl
@[simp] theorem solarToM_hour (s : Gen.FnS.Solar) : (solarToM s).hour = s.hour := rfl
@[simp] theorem solarToM_minute (s : Gen.FnS.Solar) : (solarToM s).minute = s.minute := rfl
@[simp] theorem solarToM_second (s : Gen.FnS.Solar) : (solarToM s).second = s.second := rfl
@[simp] theorem solarOfM_year (s : Model.Solar) : (solarOfM s).year = s.year := rfl
@[simp] theorem solarOfM_month (s : Model.Solar) : (solarOfM s).month = s.month := rfl
@[simp] theorem solarOfM_day (s : Model.Solar) : (solarOfM s).day = s.day := rfl
@[simp] theorem solarOfM_hour (s : Model.Solar) : (solarOfM s).hour = s.hour := rfl
@[simp] theorem solarOfM_minute (s : Model.Solar) : (solarOfM s).minute = s.minute := rfl
@[simp] theorem solarOfM_second (s : Model.Solar) : (solarOfM s).second = s.second := rfl

/-- `Model.Lunar` has one field more than `Gen.FnS.Lunar`: `terms` (the Go `jieQi` map / `jieQiList`,
not modelled by the generated structure); it is a parameter. -/
def lunarToM (l : Gen.FnS.Lunar) (terms : List Model.Solar) : Model.Lunar :=
  { year := l.year, month := l.month, day := l.day, hour := l.hour, minute := l.minute, second := l.second,
    yearGanIndex := l.yearGanIndex, yearZhiIndex := l.yearZhiIndex,
    yearGanIndexByLiChun := l.yearGanIndexByLiChun, yearZhiIndexByLiChun := l.yearZhiIndexByLiChun,
    yearGanIndexExact := l.yearGanIndexExact, yearZhiIndexExact := l.yearZhiIndexExact,
    monthGanIndex := l.monthGanIndex, monthZhiIndex := l.monthZhiIndex,
    monthGanIndexExact := l.monthGanIndexExact, monthZhiIndexExact := l.monthZhiIndexExact,
    dayGanIndex := l.dayGanIndex, dayZhiIndex := l.dayZhiIndex,
    dayGanIndexExact := l.dayGanIndexExact, dayZhiIndexExact := l.dayZhiIndexExact,
    dayGanIndexExact2 := l.dayGanIndexExact2, dayZhiIndexExact2 := l.dayZhiIndexExact2,
    timeGanIndex := l.timeGanIndex, timeZhiIndex := l.timeZhiIndex,
    weekIndex := l.weekIndex, terms := terms, solar := solarToM l.solar }

/-- the other direction (forgets `terms`) -/
def lunarOfM (l : Model.Lunar) : Gen.FnS.Lunar :=
  { year := l.year, month := l.month, day := l.day, hour := l.hour, minute := l.minute, second := l.second,
    yearGanIndex := l.yearGanIndex, yearZhiIndex := l.yearZhiIndex,
    yearGanIndexByLiChun := l.yearGanIndexByLiChun, yearZhiIndexByLiChun := l.yearZhiIndexByLiChun,
    yearGanIndexExact := l.yearGanIndexExact, yearZhiIndexExact := l.yearZhiIndexExact,
    monthGanIndex := l.monthGanIndex, monthZhiIndex := l.monthZhiIndex,
    monthGanIndexExact := l.monthGanIndexExact, monthZhiIndexExact := l.monthZhiIndexExact,
    dayGanIndex := l.dayGanIndex, dayZhiIndex := l.dayZhiIndex,
    dayGanIndexExact := l.dayGanIndexExact, dayZhiIndexExact := l.dayZhiIndexExact,
    dayGanIndexExact2 := l.dayGanIndexExact2, dayZhiIndexExact2 := l.dayZhiIndexExact2,
    timeGanIndex := l.timeGanIndex, timeZhiIndex := l.timeZhiIndex,
    weekIndex := l.weekIndex, solar := solarOfM l.solar }

@[simp] theorem lunarToM_ofM (l : Model.Lunar) : lunarToM (lunarOfM l) l.terms = l := rfl
@[simp] theorem lunarOfM_toM (l : Gen.FnS.Lunar) (t : List Model.Solar) : lunarOfM (lunarToM l t) = l := rfl

section
variable (l : Gen.FnS.Lunar) (t : List Model.Solar)
@[simp] theorem lunarToM_year : (lunarToM l t).year = l.year := rfl
@[simp] theorem lunarToM_month : (lunarToM l t).month = l.month := rfl
@[simp] theorem lunarToM_day : (lunarToM l t).day = l.day := rfl
@[simp] theorem lunarToM_hour : (lunarToM l t).hour = l.hour := rfl
@[simp] theorem lunarToM_minute : (lunarToM l t).minute = l.minute := rfl
@[simp] theorem lunarToM_second : (lunarToM l t).second = l.second := rfl
@[simp] theorem lunarToM_yearGanIndex : (lunarToM l t).yearGanIndex = l.yearGanIndex := rfl
@[simp] theorem lunarToM_yearZhiIndex : (lunarToM l t).yearZhiIndex = l.yearZhiIndex := rfl
@[simp] theorem lunarToM_yearGanIndexByLiChun : (lunarToM l t).yearGanIndexByLiChun = l.yearGanIndexByLiChun := rfl
@[simp] theorem lunarToM_yearZhiIndexByLiChun : (lunarToM l t).yearZhiIndexByLiChun = l.yearZhiIndexByLiChun := rfl
@[simp] theorem lunarToM_yearGanIndexExact : (lunarToM l t).yearGanIndexExact = l.yearGanIndexExact := rfl
@[simp] theorem lunarToM_yearZhiIndexExact : (lunarToM l t).yearZhiIndexExact = l.yearZhiIndexExact := rfl
@[simp] theorem lunarToM_monthGanIndex : (lunarToM l t).monthGanIndex = l.monthGanIndex := rfl
@[simp] theorem lunarToM_monthZhiIndex : (lunarToM l t).monthZhiIndex = l.monthZhiIndex := rfl
@[simp] theorem lunarToM_monthGanIndexExact : (lunarToM l t).monthGanIndexExact = l.monthGanIndexExact := rfl
@[simp] theorem lunarToM_monthZhiIndexExact : (lunarToM l t).monthZhiIndexExact = l.monthZhiIndexExact := rfl
@[simp] theorem lunarToM_dayGanIndex : (lunarToM l t).dayGanIndex = l.dayGanIndex := rfl
@[simp] theorem lunarToM_dayZhiIndex : (lunarToM l t).dayZhiIndex = l.dayZhiIndex := rfl
@[simp] theorem lunarToM_dayGanIndexExact : (lunarToM l t).dayGanIndexExact = l.dayGanIndexExact := rfl
@[simp] theorem lunarToM_dayZhiIndexExact : (lunarToM l t).dayZhiIndexExact = l.dayZhiIndexExact := rfl
@[simp] theorem lunarToM_dayGanIndexExact2 : (lunarToM l t).dayGanIndexExact2 = l.dayGanIndexExact2 := rfl
@[simp] theorem lunarToM_dayZhiIndexExact2 : (lunarToM l t).dayZhiIndexExact2 = l.dayZhiIndexExact2 := rfl
@[simp] theorem lunarToM_timeGanIndex : (lunarToM l t).timeGanIndex = l.timeGanIndex := rfl
@[simp] theorem lunarToM_timeZhiIndex : (lunarToM l t).timeZhiIndex = l.timeZhiIndex := rfl
@[simp] theorem lunarToM_weekIndex : (lunarToM l t).weekIndex = l.weekIndex := rfl
@[simp] theorem lunarToM_terms : (lunarToM l t).terms = t := rfl
@[simp] theorem lunarToM_solar : (lunarToM l t).solar = solarToM l.solar := rfl
end

/-! ### 5. stems, branches, pillars -/

theorem sb_GAN_length : Gen.Tables.LunarUtil.«GAN».length = 11 := by decide
theorem sb_ZHI_length : Gen.Tables.LunarUtil.«ZHI».length = 13 := by decide

/-- `LunarUtil.GAN[g+1]` (the tables have a leading "" entry, so −1 is in range) -/
theorem sidx_GAN (g : Int) (h0 : -1 ≤ g) (h1 : g < 10) :
    Gen.FnS.sidx Gen.Tables.LunarUtil.«GAN» (g + 1) = .ok (Model.ganStr g) := by
  unfold Model.ganStr
  exact sidx_eq_strGetD' _ _ (by omega) (by rw [sb_GAN_length]; omega)

theorem sidx_GAN_panic (g : Int) (h : g < -1 ∨ 10 ≤ g) :
    Gen.FnS.sidx Gen.Tables.LunarUtil.«GAN» (g + 1) = .error .panic :=
  sidx_panic _ _ (by rw [sb_GAN_length]; omega)

/-- `LunarUtil.ZHI[z+1]` -/
theorem sidx_ZHI (z : Int) (h0 : -1 ≤ z) (h1 : z < 12) :
    Gen.FnS.sidx Gen.Tables.LunarUtil.«ZHI» (z + 1) = .ok (Model.zhiStr z) := by
  have h := sidx_eq_strGetD Gen.Tables.LunarUtil.«ZHI» (z + 1) (by omega) (by rw [sb_ZHI_length]; omega)
  rw [h]; rfl

theorem sidx_ZHI_panic (z : Int) (h : z < -1 ∨ 12 ≤ z) :
    Gen.FnS.sidx Gen.Tables.LunarUtil.«ZHI» (z + 1) = .error .panic :=
  sidx_panic _ _ (by rw [sb_ZHI_length]; omega)

/-- the model's stem / branch strings as plain table reads -/
theorem ganStr_eq_strGetD (g : Int) : Model.ganStr g = Model.strGetD Gen.Tables.LunarUtil.«GAN» (g + 1) := rfl
theorem zhiStr_eq_strGetD (z : Int) : Model.zhiStr z = Model.strGetD Gen.Tables.LunarUtil.«ZHI» (z + 1) := rfl

theorem sb_bind_ok {α β : Type} (a : α) (f : α → Except Err β) : ((Except.ok a : Except Err α) >>= f) = f a := rfl
theorem sb_bind_err {α β : Type} (e : Err) (f : α → Except Err β) : ((Except.error e : Except Err α) >>= f) = .error e := rfl

section
variable (l : Gen.FnS.Lunar)

/- stems -/
theorem lunarGetYearGan_eq (h0 : -1 ≤ l.yearGanIndex) (h1 : l.yearGanIndex < 10) :
    Gen.FnS.calendar_Lunar_GetYearGan l = .ok (Model.ganStr l.yearGanIndex) := by
  unfold Gen.FnS.calendar_Lunar_GetYearGan; rw [sidx_GAN _ h0 h1]
theorem lunarGetYearGanByLiChun_eq (h0 : -1 ≤ l.yearGanIndexByLiChun) (h1 : l.yearGanIndexByLiChun < 10) :
    Gen.FnS.calendar_Lunar_GetYearGanByLiChun l = .ok (Model.ganStr l.yearGanIndexByLiChun) := by
  unfold Gen.FnS.calendar_Lunar_GetYearGanByLiChun; rw [sidx_GAN _ h0 h1]
theorem lunarGetYearGanExact_eq (h0 : -1 ≤ l.yearGanIndexExact) (h1 : l.yearGanIndexExact < 10) :
    Gen.FnS.calendar_Lunar_GetYearGanExact l = .ok (Model.ganStr l.yearGanIndexExact) := by
  unfold Gen.FnS.calendar_Lunar_GetYearGanExact; rw [sidx_GAN _ h0 h1]
theorem lunarGetMonthGan_eq (h0 : -1 ≤ l.monthGanIndex) (h1 : l.monthGanIndex < 10) :
    Gen.FnS.calendar_Lunar_GetMonthGan l = .ok (Model.ganStr l.monthGanIndex) := by
  unfold Gen.FnS.calendar_Lunar_GetMonthGan; rw [sidx_GAN _ h0 h1]
theorem lunarGetMonthGanExact_eq (h0 : -1 ≤ l.monthGanIndexExact) (h1 : l.monthGanIndexExact < 10) :
    Gen.FnS.calendar_Lunar_GetMonthGanExact l = .ok (Model.ganStr l.monthGanIndexExact) := by
  unfold Gen.FnS.calendar_Lunar_GetMonthGanExact; rw [sidx_GAN _ h0 h1]
theorem lunarGetDayGan_eq (h0 : -1 ≤ l.dayGanIndex) (h1 : l.dayGanIndex < 10) :
    Gen.FnS.calendar_Lunar_GetDayGan l = .ok (Model.ganStr l.dayGanIndex) := by
  unfold Gen.FnS.calendar_Lunar_GetDayGan; rw [sidx_GAN _ h0 h1]
theorem lunarGetDayGanExact_eq (h0 : -1 ≤ l.dayGanIndexExact) (h1 : l.dayGanIndexExact < 10) :
    Gen.FnS.calendar_Lunar_GetDayGanExact l = .ok (Model.ganStr l.dayGanIndexExact) := by
  unfold Gen.FnS.calendar_Lunar_GetDayGanExact; rw [sidx_GAN _ h0 h1]
theorem lunarGetDayGanExact2_eq (h0 : -1 ≤ l.dayGanIndexExact2) (h1 : l.dayGanIndexExact2 < 10) :
    Gen.FnS.calendar_Lunar_GetDayGanExact2 l = .ok (Model.ganStr l.dayGanIndexExact2) := by
  unfold Gen.FnS.calendar_Lunar_GetDayGanExact2; rw [sidx_GAN _ h0 h1]
theorem lunarGetTimeGan_eq (h0 : -1 ≤ l.timeGanIndex) (h1 : l.timeGanIndex < 10) :
    Gen.FnS.calendar_Lunar_GetTimeGan l = .ok (Model.ganStr l.timeGanIndex) := by
  unfold Gen.FnS.calendar_Lunar_GetTimeGan; rw [sidx_GAN _ h0 h1]

/- branches -/
theorem lunarGetYearZhi_eq (h0 : -1 ≤ l.yearZhiIndex) (h1 : l.yearZhiIndex < 12) :
    Gen.FnS.calendar_Lunar_GetYearZhi l = .ok (Model.zhiStr l.yearZhiIndex) := by
  unfold Gen.FnS.calendar_Lunar_GetYearZhi; rw [sidx_ZHI _ h0 h1]
theorem lunarGetYearZhiByLiChun_eq (h0 : -1 ≤ l.yearZhiIndexByLiChun) (h1 : l.yearZhiIndexByLiChun < 12) :
    Gen.FnS.calendar_Lunar_GetYearZhiByLiChun l = .ok (Model.zhiStr l.yearZhiIndexByLiChun) := by
  unfold Gen.FnS.calendar_Lunar_GetYearZhiByLiChun; rw [sidx_ZHI _ h0 h1]
theorem lunarGetYearZhiExact_eq (h0 : -1 ≤ l.yearZhiIndexExact) (h1 : l.yearZhiIndexExact < 12) :
    Gen.FnS.calendar_Lunar_GetYearZhiExact l = .ok (Model.zhiStr l.yearZhiIndexExact) := by
  unfold Gen.FnS.calendar_Lunar_GetYearZhiExact; rw [sidx_ZHI _ h0 h1]
theorem lunarGetMonthZhi_eq (h0 : -1 ≤ l.monthZhiIndex) (h1 : l.monthZhiIndex < 12) :
    Gen.FnS.calendar_Lunar_GetMonthZhi l = .ok (Model.zhiStr l.monthZhiIndex) := by
  unfold Gen.FnS.calendar_Lunar_GetMonthZhi; rw [sidx_ZHI _ h0 h1]
theorem lunarGetMonthZhiExact_eq (h0 : -1 ≤ l.monthZhiIndexExact) (h1 : l.monthZhiIndexExact < 12) :
    Gen.FnS.calendar_Lunar_GetMonthZhiExact l = .ok (Model.zhiStr l.monthZhiIndexExact) := by
  unfold Gen.FnS.calendar_Lunar_GetMonthZhiExact; rw [sidx_ZHI _ h0 h1]
theorem lunarGetDayZhi_eq (h0 : -1 ≤ l.dayZhiIndex) (h1 : l.dayZhiIndex < 12) :
    Gen.FnS.calendar_Lunar_GetDayZhi l = .ok (Model.zhiStr l.dayZhiIndex) := by
  unfold Gen.FnS.calendar_Lunar_GetDayZhi; rw [sidx_ZHI _ h0 h1]
theorem lunarGetDayZhiExact_eq (h0 : -1 ≤ l.dayZhiIndexExact) (h1 : l.dayZhiIndexExact < 12) :
    Gen.FnS.calendar_Lunar_GetDayZhiExact l = .ok (Model.zhiStr l.dayZhiIndexExact) := by
  unfold Gen.FnS.calendar_Lunar_GetDayZhiExact; rw [sidx_ZHI _ h0 h1]
theorem lunarGetDayZhiExact2_eq (h0 : -1 ≤ l.dayZhiIndexExact2) (h1 : l.dayZhiIndexExact2 < 12) :
    Gen.FnS.calendar_Lunar_GetDayZhiExact2 l = .ok (Model.zhiStr l.dayZhiIndexExact2) := by
  unfold Gen.FnS.calendar_Lunar_GetDayZhiExact2; rw [sidx_ZHI _ h0 h1]
theorem lunarGetTimeZhi_eq (h0 : -1 ≤ l.timeZhiIndex) (h1 : l.timeZhiIndex < 12) :
    Gen.FnS.calendar_Lunar_GetTimeZhi l = .ok (Model.zhiStr l.timeZhiIndex) := by
  unfold Gen.FnS.calendar_Lunar_GetTimeZhi; rw [sidx_ZHI _ h0 h1]

/- panics outside the ranges -/
theorem lunarGetYearGan_panic (h : l.yearGanIndex < -1 ∨ 10 ≤ l.yearGanIndex) :
    Gen.FnS.calendar_Lunar_GetYearGan l = .error .panic := by
  unfold Gen.FnS.calendar_Lunar_GetYearGan; rw [sidx_GAN_panic _ h]
theorem lunarGetYearGanByLiChun_panic (h : l.yearGanIndexByLiChun < -1 ∨ 10 ≤ l.yearGanIndexByLiChun) :
    Gen.FnS.calendar_Lunar_GetYearGanByLiChun l = .error .panic := by
  unfold Gen.FnS.calendar_Lunar_GetYearGanByLiChun; rw [sidx_GAN_panic _ h]
theorem lunarGetYearGanExact_panic (h : l.yearGanIndexExact < -1 ∨ 10 ≤ l.yearGanIndexExact) :
    Gen.FnS.calendar_Lunar_GetYearGanExact l = .error .panic := by
  unfold Gen.FnS.calendar_Lunar_GetYearGanExact; rw [sidx_GAN_panic _ h]
theorem lunarGetMonthGan_panic (h : l.monthGanIndex < -1 ∨ 10 ≤ l.monthGanIndex) :
    Gen.FnS.calendar_Lunar_GetMonthGan l = .error .panic := by
  unfold Gen.FnS.calendar_Lunar_GetMonthGan; rw [sidx_GAN_panic _ h]
theorem lunarGetMonthGanExact_panic (h : l.monthGanIndexExact < -1 ∨ 10 ≤ l.monthGanIndexExact) :
    Gen.FnS.calendar_Lunar_GetMonthGanExact l = .error .panic := by
  unfold Gen.FnS.calendar_Lunar_GetMonthGanExact; rw [sidx_GAN_panic _ h]
theorem lunarGetDayGan_panic (h : l.dayGanIndex < -1 ∨ 10 ≤ l.dayGanIndex) :
    Gen.FnS.calendar_Lunar_GetDayGan l = .error .panic := by
  unfold Gen.FnS.calendar_Lunar_GetDayGan; rw [sidx_GAN_panic _ h]
theorem lunarGetDayGanExact_panic (h : l.dayGanIndexExact < -1 ∨ 10 ≤ l.dayGanIndexExact) :
    Gen.FnS.calendar_Lunar_GetDayGanExact l = .error .panic := by
  unfold Gen.FnS.calendar_Lunar_GetDayGanExact; rw [sidx_GAN_panic _ h]
theorem lunarGetDayGanExact2_panic (h : l.dayGanIndexExact2 < -1 ∨ 10 ≤ l.dayGanIndexExact2) :
    Gen.FnS.calendar_Lunar_GetDayGanExact2 l = .error .panic := by
  unfold Gen.FnS.calendar_Lunar_GetDayGanExact2; rw [sidx_GAN_panic _ h]
theorem lunarGetTimeGan_panic (h : l.timeGanIndex < -1 ∨ 10 ≤ l.timeGanIndex) :
    Gen.FnS.calendar_Lunar_GetTimeGan l = .error .panic := by
  unfold Gen.FnS.calendar_Lunar_GetTimeGan; rw [sidx_GAN_panic _ h]
theorem lunarGetYearZhi_panic (h : l.yearZhiIndex < -1 ∨ 12 ≤ l.yearZhiIndex) :
    Gen.FnS.calendar_Lunar_GetYearZhi l = .error .panic := by
  unfold Gen.FnS.calendar_Lunar_GetYearZhi; rw [sidx_ZHI_panic _ h]
theorem lunarGetYearZhiByLiChun_panic (h : l.yearZhiIndexByLiChun < -1 ∨ 12 ≤ l.yearZhiIndexByLiChun) :
    Gen.FnS.calendar_Lunar_GetYearZhiByLiChun l = .error .panic := by
  unfold Gen.FnS.calendar_Lunar_GetYearZhiByLiChun; rw [sidx_ZHI_panic _ h]
theorem lunarGetYearZhiExact_panic (h : l.yearZhiIndexExact < -1 ∨ 12 ≤ l.yearZhiIndexExact) :
    Gen.FnS.calendar_Lunar_GetYearZhiExact l = .error .panic := by
  unfold Gen.FnS.calendar_Lunar_GetYearZhiExact; rw [sidx_ZHI_panic _ h]
theorem lunarGetMonthZhi_panic (h : l.monthZhiIndex < -1 ∨ 12 ≤ l.monthZhiIndex) :
    Gen.FnS.calendar_Lunar_GetMonthZhi l = .error .panic := by
  unfold Gen.FnS.calendar_Lunar_GetMonthZhi; rw [sidx_ZHI_panic _ h]
theorem lunarGetMonthZhiExact_panic (h : l.monthZhiIndexExact < -1 ∨ 12 ≤ l.monthZhiIndexExact) :
    Gen.FnS.calendar_Lunar_GetMonthZhiExact l = .error .panic := by
  unfold Gen.FnS.calendar_Lunar_GetMonthZhiExact; rw [sidx_ZHI_panic _ h]
theorem lunarGetDayZhi_panic (h : l.dayZhiIndex < -1 ∨ 12 ≤ l.dayZhiIndex) :
    Gen.FnS.calendar_Lunar_GetDayZhi l = .error .panic := by
  unfold Gen.FnS.calendar_Lunar_GetDayZhi; rw [sidx_ZHI_panic _ h]
theorem lunarGetDayZhiExact_panic (h : l.dayZhiIndexExact < -1 ∨ 12 ≤ l.dayZhiIndexExact) :
    Gen.FnS.calendar_Lunar_GetDayZhiExact l = .error .panic := by
  unfold Gen.FnS.calendar_Lunar_GetDayZhiExact; rw [sidx_ZHI_panic _ h]
theorem lunarGetDayZhiExact2_panic (h : l.dayZhiIndexExact2 < -1 ∨ 12 ≤ l.dayZhiIndexExact2) :
    Gen.FnS.calendar_Lunar_GetDayZhiExact2 l = .error .panic := by
  unfold Gen.FnS.calendar_Lunar_GetDayZhiExact2; rw [sidx_ZHI_panic _ h]
theorem lunarGetTimeZhi_panic (h : l.timeZhiIndex < -1 ∨ 12 ≤ l.timeZhiIndex) :
    Gen.FnS.calendar_Lunar_GetTimeZhi l = .error .panic := by
  unfold Gen.FnS.calendar_Lunar_GetTimeZhi; rw [sidx_ZHI_panic _ h]

/- pillars -/
theorem lunarGetYearInGanZhi_eq (g0 : -1 ≤ l.yearGanIndex) (g1 : l.yearGanIndex < 10)
    (z0 : -1 ≤ l.yearZhiIndex) (z1 : l.yearZhiIndex < 12) :
    Gen.FnS.calendar_Lunar_GetYearInGanZhi l = .ok (Model.EightChar.pillarStr l.yearGanIndex l.yearZhiIndex) := by
  unfold Gen.FnS.calendar_Lunar_GetYearInGanZhi
  rw [lunarGetYearGan_eq l g0 g1, lunarGetYearZhi_eq l z0 z1]; rfl
theorem lunarGetYearInGanZhiByLiChun_eq (g0 : -1 ≤ l.yearGanIndexByLiChun) (g1 : l.yearGanIndexByLiChun < 10)
    (z0 : -1 ≤ l.yearZhiIndexByLiChun) (z1 : l.yearZhiIndexByLiChun < 12) :
    Gen.FnS.calendar_Lunar_GetYearInGanZhiByLiChun l
      = .ok (Model.EightChar.pillarStr l.yearGanIndexByLiChun l.yearZhiIndexByLiChun) := by
  unfold Gen.FnS.calendar_Lunar_GetYearInGanZhiByLiChun
  rw [lunarGetYearGanByLiChun_eq l g0 g1, lunarGetYearZhiByLiChun_eq l z0 z1]; rfl
theorem lunarGetYearInGanZhiExact_eq (g0 : -1 ≤ l.yearGanIndexExact) (g1 : l.yearGanIndexExact < 10)
    (z0 : -1 ≤ l.yearZhiIndexExact) (z1 : l.yearZhiIndexExact < 12) :
    Gen.FnS.calendar_Lunar_GetYearInGanZhiExact l
      = .ok (Model.EightChar.pillarStr l.yearGanIndexExact l.yearZhiIndexExact) := by
  unfold Gen.FnS.calendar_Lunar_GetYearInGanZhiExact
  rw [lunarGetYearGanExact_eq l g0 g1, lunarGetYearZhiExact_eq l z0 z1]; rfl
theorem lunarGetMonthInGanZhi_eq (g0 : -1 ≤ l.monthGanIndex) (g1 : l.monthGanIndex < 10)
    (z0 : -1 ≤ l.monthZhiIndex) (z1 : l.monthZhiIndex < 12) :
    Gen.FnS.calendar_Lunar_GetMonthInGanZhi l = .ok (Model.EightChar.pillarStr l.monthGanIndex l.monthZhiIndex) := by
  unfold Gen.FnS.calendar_Lunar_GetMonthInGanZhi
  rw [lunarGetMonthGan_eq l g0 g1, lunarGetMonthZhi_eq l z0 z1]; rfl
theorem lunarGetMonthInGanZhiExact_eq (g0 : -1 ≤ l.monthGanIndexExact) (g1 : l.monthGanIndexExact < 10)
    (z0 : -1 ≤ l.monthZhiIndexExact) (z1 : l.monthZhiIndexExact < 12) :
    Gen.FnS.calendar_Lunar_GetMonthInGanZhiExact l
      = .ok (Model.EightChar.pillarStr l.monthGanIndexExact l.monthZhiIndexExact) := by
  unfold Gen.FnS.calendar_Lunar_GetMonthInGanZhiExact
  rw [lunarGetMonthGanExact_eq l g0 g1, lunarGetMonthZhiExact_eq l z0 z1]; rfl
theorem lunarGetDayInGanZhi_eq (g0 : -1 ≤ l.dayGanIndex) (g1 : l.dayGanIndex < 10)
    (z0 : -1 ≤ l.dayZhiIndex) (z1 : l.dayZhiIndex < 12) :
    Gen.FnS.calendar_Lunar_GetDayInGanZhi l = .ok (Model.EightChar.pillarStr l.dayGanIndex l.dayZhiIndex) := by
  unfold Gen.FnS.calendar_Lunar_GetDayInGanZhi
  rw [lunarGetDayGan_eq l g0 g1, lunarGetDayZhi_eq l z0 z1]; rfl
theorem lunarGetDayInGanZhiExact_eq (g0 : -1 ≤ l.dayGanIndexExact) (g1 : l.dayGanIndexExact < 10)
    (z0 : -1 ≤ l.dayZhiIndexExact) (z1 : l.dayZhiIndexExact < 12) :
    Gen.FnS.calendar_Lunar_GetDayInGanZhiExact l
      = .ok (Model.EightChar.pillarStr l.dayGanIndexExact l.dayZhiIndexExact) := by
  unfold Gen.FnS.calendar_Lunar_GetDayInGanZhiExact
  rw [lunarGetDayGanExact_eq l g0 g1, lunarGetDayZhiExact_eq l z0 z1]; rfl
theorem lunarGetDayInGanZhiExact2_eq (g0 : -1 ≤ l.dayGanIndexExact2) (g1 : l.dayGanIndexExact2 < 10)
    (z0 : -1 ≤ l.dayZhiIndexExact2) (z1 : l.dayZhiIndexExact2 < 12) :
    Gen.FnS.calendar_Lunar_GetDayInGanZhiExact2 l
      = .ok (Model.EightChar.pillarStr l.dayGanIndexExact2 l.dayZhiIndexExact2) := by
  unfold Gen.FnS.calendar_Lunar_GetDayInGanZhiExact2
  rw [lunarGetDayGanExact2_eq l g0 g1, lunarGetDayZhiExact2_eq l z0 z1]; rfl
theorem lunarGetTimeInGanZhi_eq (g0 : -1 ≤ l.timeGanIndex) (g1 : l.timeGanIndex < 10)
    (z0 : -1 ≤ l.timeZhiIndex) (z1 : l.timeZhiIndex < 12) :
    Gen.FnS.calendar_Lunar_GetTimeInGanZhi l = .ok (Model.EightChar.pillarStr l.timeGanIndex l.timeZhiIndex) := by
  unfold Gen.FnS.calendar_Lunar_GetTimeInGanZhi
  rw [lunarGetTimeGan_eq l g0 g1, lunarGetTimeZhi_eq l z0 z1]; rfl

/-! ### 6. integer getters (guard-free, `@[simp]`) -/
@[simp] theorem lunarGetYear_eq : Gen.FnS.calendar_Lunar_GetYear l = .ok l.year := rfl
@[simp] theorem lunarGetMonth_eq : Gen.FnS.calendar_Lunar_GetMonth l = .ok l.month := rfl
@[simp] theorem lunarGetDay_eq : Gen.FnS.calendar_Lunar_GetDay l = .ok l.day := rfl
@[simp] theorem lunarGetHour_eq : Gen.FnS.calendar_Lunar_GetHour l = .ok l.hour := rfl
@[simp] theorem lunarGetMinute_eq : Gen.FnS.calendar_Lunar_GetMinute l = .ok l.minute := rfl
@[simp] theorem lunarGetSecond_eq : Gen.FnS.calendar_Lunar_GetSecond l = .ok l.second := rfl
@[simp] theorem lunarGetWeek_eq : Gen.FnS.calendar_Lunar_GetWeek l = .ok l.weekIndex := rfl
@[simp] theorem lunarGetYearGanIndex_eq : Gen.FnS.calendar_Lunar_GetYearGanIndex l = .ok l.yearGanIndex := rfl
@[simp] theorem lunarGetYearZhiIndex_eq : Gen.FnS.calendar_Lunar_GetYearZhiIndex l = .ok l.yearZhiIndex := rfl
@[simp] theorem lunarGetYearGanIndexByLiChun_eq :
    Gen.FnS.calendar_Lunar_GetYearGanIndexByLiChun l = .ok l.yearGanIndexByLiChun := rfl
@[simp] theorem lunarGetYearZhiIndexByLiChun_eq :
    Gen.FnS.calendar_Lunar_GetYearZhiIndexByLiChun l = .ok l.yearZhiIndexByLiChun := rfl
@[simp] theorem lunarGetYearGanIndexExact_eq : Gen.FnS.calendar_Lunar_GetYearGanIndexExact l = .ok l.yearGanIndexExact := rfl
@[simp] theorem lunarGetYearZhiIndexExact_eq : Gen.FnS.calendar_Lunar_GetYearZhiIndexExact l = .ok l.yearZhiIndexExact := rfl
@[simp] theorem lunarGetMonthGanIndex_eq : Gen.FnS.calendar_Lunar_GetMonthGanIndex l = .ok l.monthGanIndex := rfl
@[simp] theorem lunarGetMonthZhiIndex_eq : Gen.FnS.calendar_Lunar_GetMonthZhiIndex l = .ok l.monthZhiIndex := rfl
@[simp] theorem lunarGetMonthGanIndexExact_eq :
    Gen.FnS.calendar_Lunar_GetMonthGanIndexExact l = .ok l.monthGanIndexExact := rfl
@[simp] theorem lunarGetMonthZhiIndexExact_eq :
    Gen.FnS.calendar_Lunar_GetMonthZhiIndexExact l = .ok l.monthZhiIndexExact := rfl
@[simp] theorem lunarGetDayGanIndex_eq : Gen.FnS.calendar_Lunar_GetDayGanIndex l = .ok l.dayGanIndex := rfl
@[simp] theorem lunarGetDayZhiIndex_eq : Gen.FnS.calendar_Lunar_GetDayZhiIndex l = .ok l.dayZhiIndex := rfl
@[simp] theorem lunarGetDayGanIndexExact_eq : Gen.FnS.calendar_Lunar_GetDayGanIndexExact l = .ok l.dayGanIndexExact := rfl
@[simp] theorem lunarGetDayZhiIndexExact_eq : Gen.FnS.calendar_Lunar_GetDayZhiIndexExact l = .ok l.dayZhiIndexExact := rfl
@[simp] theorem lunarGetDayGanIndexExact2_eq : Gen.FnS.calendar_Lunar_GetDayGanIndexExact2 l = .ok l.dayGanIndexExact2 := rfl
@[simp] theorem lunarGetDayZhiIndexExact2_eq : Gen.FnS.calendar_Lunar_GetDayZhiIndexExact2 l = .ok l.dayZhiIndexExact2 := rfl
@[simp] theorem lunarGetTimeGanIndex_eq : Gen.FnS.calendar_Lunar_GetTimeGanIndex l = .ok l.timeGanIndex := rfl
@[simp] theorem lunarGetTimeZhiIndex_eq : Gen.FnS.calendar_Lunar_GetTimeZhiIndex l = .ok l.timeZhiIndex := rfl
end

section Axioms
#print axioms sidx_eq_strGetD
#print axioms sidx_eq_strGetD'
#print axioms sidx_panic
#print axioms sidx_total
#print axioms mlookupS_eq_lookupStr
#print axioms mlookupI_eq
#print axioms mhas_eq
#print axioms fmtD_eq
#print axioms sidx_GAN
#print axioms sidx_ZHI
#print axioms lunarGetYearInGanZhi_eq
#print axioms lunarGetDayInGanZhiExact2_eq
#print axioms lunarGetTimeInGanZhi_eq
#print axioms lunarGetTimeZhi_panic
#print axioms lunarGetWeek_eq
end Axioms
end FnSEq
