/-
Proofs.FnSolarMonth — SolarMonth constructor / getters / Next: generated code = model (split from the worker's FnCivil2).
-/
import Proofs.FnCivil1
import Model.Week
import Model.EightChar

namespace FnEq

/-! ## 1. SolarMonth -/

@[simp] theorem newSolarMonthFromYm_eq (y m : Int) :
    Gen.Fn.calendar_NewSolarMonthFromYm y m = .ok ⟨y, m⟩ := rfl
@[simp] theorem solarMonthGetYear_eq (sm : Gen.Fn.SolarMonth) :
    Gen.Fn.calendar_SolarMonth_GetYear sm = .ok sm.year := rfl
@[simp] theorem solarMonthGetMonth_eq (sm : Gen.Fn.SolarMonth) :
    Gen.Fn.calendar_SolarMonth_GetMonth sm = .ok sm.month := rfl

theorem solarMonthNext_eq (sm : Gen.Fn.SolarMonth) (months : Int) :
    Gen.Fn.calendar_SolarMonth_Next sm months =
      .ok ⟨(Model.nextYm sm.year sm.month months).1, (Model.nextYm sm.year sm.month months).2⟩ := by
  unfold Gen.Fn.calendar_SolarMonth_Next Model.nextYm
  by_cases h : months < 0
  · have h0 : (0 : Int) ≤ -months := by omega
    simp only [h, decide_true, if_true, Int.tdiv_eq_ediv_of_nonneg h0,
      Int.tmod_eq_emod_of_nonneg h0]
    simp only [gt_iff_lt, newSolarMonthFromYm_eq]
    repeat' split
    all_goals first | rfl | (exfalso; simp only [decide_eq_true_eq] at *; omega)
  · have h0 : (0 : Int) ≤ months := by omega
    simp only [h, decide_false, Bool.false_eq_true, if_false, Int.tdiv_eq_ediv_of_nonneg h0,
      Int.tmod_eq_emod_of_nonneg h0]
    simp only [gt_iff_lt, newSolarMonthFromYm_eq]
    repeat' split
    all_goals first | rfl | (exfalso; simp only [decide_eq_true_eq] at *; omega)


end FnEq
