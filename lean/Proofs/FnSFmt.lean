/-
Proofs.FnSFmt — formatting (%0wd, Solar.ToYmd / ToYmdHms / String) (string-mode generated code = model; split from the worker's FnS4; helper prefix `s4_`).
-/
import Proofs.FnSBase
import Model.TaoFoto
import Model.Fmt
import Model.CivilFest

namespace FnSEq
open Gen.Fn (Err)

/-! ### 3. formatting: `%0wd`, `Solar.ToYmd`, `ToYmdHms`, `String` -/
theorem s4_digitChar (n : Nat) (h : n < 10) : Nat.digitChar n = Model.digitChar n := by
  have : n = 0 ∨ n = 1 ∨ n = 2 ∨ n = 3 ∨ n = 4 ∨ n = 5 ∨ n = 6 ∨ n = 7 ∨ n = 8 ∨ n = 9 := by omega
  rcases this with h|h|h|h|h|h|h|h|h|h <;> subst h <;> rfl

theorem s4_fixedDigits_zero (w : Nat) : Model.fixedDigits w 0 = List.replicate w '0' := by
  induction w with
  | zero => rfl
  | succ w ih =>
    show Model.fixedDigits w (0 / 10) ++ [Model.digitChar (0 % 10)] = _
    rw [Nat.zero_div, ih, List.replicate_succ']; rfl

theorem s4_fixed_core (w n : Nat) (h : n < 10 ^ (w + 1)) :
    List.replicate (w + 1 - (Nat.toDigits 10 n).length) '0' ++ Nat.toDigits 10 n = Model.fixedDigits (w + 1) n := by
  induction w generalizing n with
  | zero =>
    have hn : n < 10 := by simpa using h
    rw [Nat.toDigits_of_lt_base hn]
    show [] ++ [Nat.digitChar n] = Model.fixedDigits 0 (n / 10) ++ [Model.digitChar (n % 10)]
    rw [Nat.mod_eq_of_lt hn, s4_digitChar n hn]; rfl
  | succ w ih =>
    show _ = Model.fixedDigits (w + 1) (n / 10) ++ [Model.digitChar (n % 10)]
    by_cases hn : n < 10
    · rw [Nat.toDigits_of_lt_base hn, Nat.mod_eq_of_lt hn, s4_digitChar n hn,
        Nat.div_eq_of_lt hn, s4_fixedDigits_zero]
      simp
    · rw [Nat.toDigits_eq_if (by omega), if_neg hn]
      have hd : n / 10 < 10 ^ (w + 1) := by
        rw [Nat.pow_succ] at h; omega
      rw [← ih (n / 10) hd, s4_digitChar _ (Nat.mod_lt _ (by omega))]
      simp only [List.length_append, List.length_singleton, List.append_assoc]
      congr 2
      omega

theorem s4_padZero_nat (w n : Nat) (h : 1 ≤ w ∨ 1 ≤ n) :
    (Gen.FnS.padZero w (toString n)).toList = Model.padNat w n := by
  have hts : toString n = String.ofList (Nat.toDigits 10 n) := rfl
  unfold Gen.FnS.padZero Model.padNat
  rw [hts, String.toList_append, String.toList_ofList, String.toList_ofList, String.length_ofList]
  by_cases hn : n < 10 ^ w
  · rw [if_pos hn]
    cases w with
    | zero => simp at hn; omega
    | succ w => exact s4_fixed_core w n hn
  · rw [if_neg hn]
    have hz : w - (Nat.toDigits 10 n).length = 0 := by
      cases w with
      | zero => simp
      | succ w =>
        have hiff := Nat.length_toDigits_le_iff (b := 10) (n := n) (k := w + 1) (by omega) (by omega)
        have : ¬ (Nat.toDigits 10 n).length ≤ w + 1 := fun hle => hn (hiff.1 hle)
        omega
    rw [hz]; rfl

/-- `%0wd`: the generated `fmtPad` is the model's `padInt` (for every width ≥ 1 and every integer) -/
theorem fmtPad_toList (w : Nat) (n : Int) (hw : 1 ≤ w) : (Gen.FnS.fmtPad w n).toList = Model.padInt w n := by
  unfold Gen.FnS.fmtPad Model.padInt
  by_cases hn : n < 0
  · have h1 : ¬ n ≥ 0 := by omega
    have h2 : (-n).toNat = n.natAbs := by omega
    rw [if_pos hn, if_neg h1, String.toList_append, h2, s4_padZero_nat _ _ (Or.inr (by omega))]
    rfl
  · have h1 : n ≥ 0 := by omega
    have h2 : n.toNat = n.natAbs := by omega
    rw [if_neg hn, if_pos h1, h2, s4_padZero_nat _ _ (Or.inl hw)]

theorem fmtPad_eq (w : Nat) (n : Int) (hw : 1 ≤ w) : Gen.FnS.fmtPad w n = String.ofList (Model.padInt w n) := by
  rw [← fmtPad_toList w n hw, String.ofList_toList]

theorem s4_toList_inj (a b : String) (h : a.toList = b.toList) : a = b := by
  rw [← String.ofList_toList (s := a), h, String.ofList_toList]

theorem s4_dash : "-".toList = ['-'] := rfl
theorem s4_space : " ".toList = [' '] := rfl
theorem s4_colon : ":".toList = [':'] := rfl

theorem solarToYmd_eq (s : Gen.FnS.Solar) :
    Gen.FnS.calendar_Solar_ToYmd s = .ok (String.ofList (Model.Solar.toYmd (solarToM s))) := by
  unfold Gen.FnS.calendar_Solar_ToYmd Model.Solar.toYmd
  simp only [pure, Except.pure]
  refine congrArg Except.ok (s4_toList_inj _ _ ?_)
  simp only [String.toList_append, String.toList_ofList, fmtPad_toList _ _ (by decide : 1 ≤ 4),
    fmtPad_toList _ _ (by decide : 1 ≤ 2), s4_dash]
  rfl

theorem solarToYmd_toList (s : Gen.FnS.Solar) :
    (Gen.FnS.calendar_Solar_ToYmd s).map String.toList = .ok (Model.Solar.toYmd (solarToM s)) := by
  rw [solarToYmd_eq]; simp [Except.map]

theorem solarToYmdHms_eq (s : Gen.FnS.Solar) :
    Gen.FnS.calendar_Solar_ToYmdHms s = .ok (String.ofList (Model.Solar.toYmdHms (solarToM s))) := by
  unfold Gen.FnS.calendar_Solar_ToYmdHms Model.Solar.toYmdHms
  rw [solarToYmd_eq]
  simp only [sb_bind_ok, pure, Except.pure]
  refine congrArg Except.ok (s4_toList_inj _ _ ?_)
  simp only [String.toList_append, String.toList_ofList, fmtPad_toList _ _ (by decide : 1 ≤ 2), s4_space, s4_colon]
  rfl

theorem solarString_eq (s : Gen.FnS.Solar) :
    Gen.FnS.calendar_Solar_String s = .ok (String.ofList (Model.Solar.toYmd (solarToM s))) := by
  unfold Gen.FnS.calendar_Solar_String; rw [solarToYmd_eq]


end FnSEq
