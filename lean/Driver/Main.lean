/-
modeldrv — reads observation lines `op args… => result` on stdin, recomputes each result with
the Lean model and prints `DIFF <line> :: model=<result>` for every disagreement, then a
one-line JSON summary. Exit code 0 always (the orchestrator reads the summary).
-/
import Std.Data.HashMap
import Driver.Util
import Driver.OpsCivil
import Driver.OpsLunar
import Driver.OpsTerms
import Driver.OpsHoliday
import Driver.OpsEightChar
import Driver.OpsAlmanac
import Driver.OpsWeek
namespace Driver

def allOps : List (String × Handler) := opsCivil ++ opsLunar ++ opsTerms ++ opsHoliday ++ opsEightChar ++ opsAlmanac ++ opsWeek

structure Stats where
  lines : Nat := 0
  diffs : Nat := 0
  bad : Nat := 0
  perOp : List (String × Nat) := []

def bump (l : List (String × Nat)) (k : String) : List (String × Nat) :=
  match l with
  | [] => [(k, 1)]
  | (a, n) :: r => if a == k then (a, n + 1) :: r else (a, n) :: bump r k

def splitArrow (line : String) : Option (String × String) :=
  match line.splitOn " => " with
  | [l, r] => some (l, r)
  | _ => none

def processLine (ops : Std.HashMap String Handler) (line : String) : Option (String × Option String) :=
  -- returns (op, none) when agreeing; (op, some model) on DIFF; none when malformed
  match splitArrow line with
  | none => none
  | some (lhs, obs) =>
    match lhs.splitOn " " with
    | [] => none
    | op :: args =>
      match ops.get? op with
      | none => none
      | some h =>
        match h args obs with
        | none => none
        | some model => if model == obs then some (op, none) else some (op, some model)

partial def loop (ops : Std.HashMap String Handler) (h : IO.FS.Stream) (st : Stats) (maxDiffs : Nat) : IO Stats := do
  let line ← h.getLine
  if line.isEmpty then return st
  let line := String.ofList (line.toList.reverse.dropWhile (fun c => c == '\n' || c == '\r')).reverse
  if line.startsWith "#STAT" || line.startsWith "#SAMPLE" then
    IO.println line
    loop ops h st maxDiffs
  else if line.isEmpty || line.startsWith "#" then loop ops h st maxDiffs else
  match processLine ops line with
  | none =>
    if st.bad < 20 then IO.println s!"BAD {line}"
    loop ops h { st with lines := st.lines + 1, bad := st.bad + 1 } maxDiffs
  | some (op, none) =>
    loop ops h { st with lines := st.lines + 1, perOp := bump st.perOp op } maxDiffs
  | some (op, some model) =>
    if st.diffs < maxDiffs then IO.println s!"DIFF {line} :: model={model}"
    loop ops h { st with lines := st.lines + 1, diffs := st.diffs + 1, perOp := bump st.perOp op } maxDiffs

def jsonOfStats (st : Stats) : String :=
  let ops := ",".intercalate (st.perOp.map fun (k, n) => s!"\"{k}\":{n}")
  s!"SUMMARY \{\"lines\":{st.lines},\"diffs\":{st.diffs},\"bad\":{st.bad},\"ops\":\{{ops}}}"

end Driver

def main (args : List String) : IO UInt32 := do
  let maxDiffs := match args with
    | [n] => n.toNat?.getD 200
    | _ => 200
  let stdin ← IO.getStdin
  let ops : Std.HashMap String Driver.Handler := Std.HashMap.ofList Driver.allOps
  let st ← Driver.loop ops stdin {} maxDiffs
  IO.println (Driver.jsonOfStats st)
  return 0
