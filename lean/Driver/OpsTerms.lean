import Model.Season
import Model.NineStar
import Driver.OpsLunar
namespace Driver
open Model

def showNear : Option (String × Solar) → String
  | none => "nil"
  | some (n, s) => s!"{n}@{s.year}-{s.month}-{s.day}-{s.hour}-{s.minute}-{s.second}"

def showOptStr : Option String → String
  | none => "!"
  | some s => if s.isEmpty then "-" else s

def showNameIdx : Option (Option (String × Int)) → String
  | none => "!"
  | some none => "nil"
  | some (some (n, i)) => s!"{n}#{i}"

def showStrList (l : List String) : String := if l.isEmpty then "-" else ",".intercalate l

def withLunar (args : List Int) (f : Lunar → String) : Option String :=
  match args with
  | [y, m, d, h, mi, s] =>
    match Lunar.fromSolar astro ⟨y, m, d, h, mi, s⟩ with
    | none => some "!"
    | some l => some (f l)
  | _ => none

def opsTerms : List (String × Handler) := [
  ("l.near", intOp fun args => withLunar args fun l =>
    "|".intercalate ([false, true].flatMap fun wd =>
      [showNear (l.nextJie wd), showNear (l.prevJie wd), showNear (l.nextQi wd), showNear (l.prevQi wd),
       showNear (l.nextJieQi wd), showNear (l.prevJieQi wd)])),
  ("l.jq", intOp fun args => withLunar args fun l =>
    "|".intercalate [showOptStr (some l.jieQi), showOptStr (some l.jie), showOptStr (some l.qi)]),
  ("l.season", intOp fun args => withLunar args fun l =>
    "|".intercalate [showNameIdx l.shuJiu, showNameIdx l.fu, showOptStr l.hou, showOptStr l.wuHou]),
  ("l.fest", intOp fun args => withLunar args fun l =>
    "|".intercalate [(match l.festivals astro with | none => "!" | some f => showStrList f),
                     (match l.otherFestivals with | none => "!" | some f => showStrList f)]),
  ("l.star", intOp fun args => withLunar args fun l =>
    showInts [l.yearNineStar 1, l.yearNineStar 2, l.yearNineStar 3, l.monthNineStar 1, l.monthNineStar 2,
      l.monthNineStar 3, (match l.dayNineStar with | some i => i | none => -99), l.timeNineStar,
      l.timeNineStarViaLunarTime, lunarYearNineStar l.year, lunarMonthNineStar l.year l.month]),
  ("s.fest", intOp fun
    | [y, m, d] => some ("|".intercalate [xingZuo m d, showStrList (solarFestivals y m d), showStrList (solarOtherFestivals m d)])
    | _ => none)
]

end Driver
