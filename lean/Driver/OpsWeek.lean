import Model.Week
import Model.Fmt
import Driver.OpsCivil
namespace Driver
open Model

def showYmdS (s : Solar) : String := s!"{s.year}-{s.month}-{s.day}"
def showOptYmd : Option Solar → String | none => "!" | some s => showYmdS s
def showDays : Option (List Solar) → String
  | none => "!"
  | some l => if l.isEmpty then "-" else ",".intercalate (l.map showYmdS)
def showWeek (w : SolarWeek) : String := s!"{w.year}-{w.month}-{w.day}"

def opsWeek : List (String × Handler) := [
  -- wk y m d start => index indexInYear firstDay days daysInMonth firstDayInMonth
  ("wk", intOp fun
    | [y, m, d, st] =>
      let w : SolarWeek := ⟨y, m, d, st⟩
      some ("|".intercalate [toString w.index, showOptInt w.indexInYear, showOptYmd w.firstDay, showDays w.days, showDays w.daysInMonth,
        (match w.firstDayInMonth with | none => "!" | some none => "nil" | some (some s) => showYmdS s)])
    | _ => none),
  ("wk.next", intOp fun
    | [y, m, d, st, n, sep] => some (match (SolarWeek.mk y m d st).next n (sep != 0) with | none => "!" | some r => showWeek r)
    | _ => none),
  ("wk.ofmonth", intOp fun
    | [y, m, st] => some (toString (weeksOfMonth y m st) ++ "|" ++ (match monthWeeks y m st with | none => "!" | some l => ",".intercalate (l.map showWeek)))
    | _ => none),
  ("mon.days", intOp fun
    | [y, m] => some (showDays (monthDays y m))
    | _ => none),
  ("units", intOp fun
    | [y, m, n] =>
      let showYms := fun (l : List (Int × Int)) => ",".intercalate (l.map fun p => s!"{p.1}-{p.2}")
      let sn := seasonNext y m n; let hn := halfYearNext y m n
      some ("|".intercalate [toString (seasonIndex m), showYms (seasonMonths y m), toString (halfYearIndex m), showYms (halfYearMonths y m),
        showYms (yearMonths y), s!"{sn.1}-{sn.2}", s!"{hn.1}-{hn.2}"])
    | _ => none),
  -- printed forms
  ("fmt", intOp fun
    | [y, m, d, h, mi, s] =>
      let sol : Solar := ⟨y, m, d, h, mi, s⟩
      some (String.ofList sol.toYmd ++ "|" ++ String.ofList sol.toYmdHms)
    | _ => none),
  ("fmt.cmp", intOp fun
    | [y, m, d, h, mi, s, y2, m2, d2, h2, mi2, s2] =>
      let a : Solar := ⟨y, m, d, h, mi, s⟩; let b : Solar := ⟨y2, m2, d2, h2, mi2, s2⟩
      let o := fun (c : Ordering) => match c with | .lt => "-1" | .eq => "0" | .gt => "1"
      some (o (cmpChars a.toYmd b.toYmd) ++ " " ++ o (cmpChars a.toYmdHms b.toYmdHms))
    | _ => none)
]

end Driver
