import Model.EightChar
import Driver.OpsTerms
namespace Driver
open Model

def showEC (e : EightChar) : String :=
  let ps := [(e.yearG, e.yearZ), (e.monthG, e.monthZ), (e.dayG, e.dayZ), (e.timeG, e.timeZ)]
  "|".intercalate [
    " ".intercalate (ps.map fun p => EightChar.pillarStr p.1 p.2),
    " ".intercalate (ps.map fun p => EightChar.wuXing p.1 p.2),
    " ".intercalate (ps.map fun p => EightChar.naYin p.1 p.2),
    " ".intercalate [e.shiShenGan e.yearG, e.shiShenGan e.monthG, "日主", e.shiShenGan e.timeG],
    " ".intercalate (ps.map fun p => ",".intercalate (e.shiShenZhi p.2)),
    " ".intercalate (ps.map fun p => ",".intercalate (EightChar.hideGan p.2)),
    " ".intercalate [e.yearDiShi, e.monthDiShi, e.dayDiShi, e.timeDiShi],
    " ".intercalate (ps.map fun p => EightChar.xun p.1 p.2),
    " ".intercalate (ps.map fun p => EightChar.xunKong p.1 p.2),
    " ".intercalate [e.taiYuan, e.taiXi, e.mingGong, e.shenGong]]

def range (n : Int) : List Int := (List.range n.toNat).map Int.ofNat

def showYun (y : Yun) : String :=
  let head := showInts [if y.forward then 1 else 0, y.startYear, y.startMonth, y.startDay, y.startHour] ++ " " ++ showOptSolar y.startSolar
  let dys := (range 10).map fun i => match mkDaYun y i with
    | none => "!"
    | some d =>
      let ln := (range (min (d.count 10) 3)).map fun k =>
        match liuNianGanZhi astro y d k with
        | none => "!"
        | some g => g ++ ":" ++ xiaoYunGanZhi y d k ++ ":" ++ liuYueGanZhi g 0 ++ ":" ++ liuYueGanZhi g 11
      showInts [d.startYear, d.endYear, d.startAge, d.endAge, d.count 10] ++ " " ++ (let g := d.ganZhi y; if g.isEmpty then "-" else g) ++ " " ++ ",".intercalate ln
  head ++ "|" ++ "|".intercalate dys

def opsEightChar : List (String × Handler) := [
  ("ec", intOp fun
    | [y, m, d, h, mi, s, sect] => (match Lunar.fromSolar astro ⟨y, m, d, h, mi, s⟩ with
      | none => some "!"
      | some l => some (showEC (mkEightChar l sect)))
    | _ => none),
  ("yun", intOp fun
    | [y, m, d, h, mi, s, gender, sect] => (match Lunar.fromSolar astro ⟨y, m, d, h, mi, s⟩ with
      | none => some "!"
      | some l => match mkYun l gender sect with
        | none => some "!"
        | some yn => some (showYun yn))
    | _ => none),
  ("bazi", fun args _ => match args with
    | [sect, base, endY, yg, mg, dg, tg] => match ints? [sect, base, endY] with
      | some [sect, base, endY] =>
        some (match listSolarFromBaZi astro yg mg dg tg sect base endY with
          | none => "!"
          | some [] => "-"
          | some l => ",".intercalate (l.map fun s => s!"{s.year}-{s.month}-{s.day}-{s.hour}-{s.minute}-{s.second}"))
      | _ => none
    | _ => none)
]

end Driver
