import Model.Holiday
import Gen.Tables
import Driver.OpsCivil
namespace Driver
open Model

def initHolidayState : HolidayState := ⟨Gen.Tables.HolidayUtil.data.toList, Gen.Tables.HolidayUtil.NAMES⟩

def showHoliday (h : Holiday) : String :=
  s!"{String.ofList h.day}/{h.name}/{if h.work then 1 else 0}/{String.ofList h.target}"

def showHolidays : Option (List Holiday) → String
  | none => "!"
  | some [] => "-"
  | some l => ",".intercalate (l.map showHoliday)

/-- ops are stateless: a `fix` history is given inline as extra args `names|dt` pairs? no — the
state after a list of fix strings is recomputed per line: `hol.* <fixes> <args>` where `<fixes>` is
`-` or `dt1;dt2;…` (names are never replaced by the harness) -/
def stateAfter (fixes : String) : Option HolidayState :=
  if fixes == "-" then some initHolidayState
  else (fixes.splitOn ";").foldl (fun st dt => match st with
    | none => none
    | some st =>
      -- `N<k>@<dt>`: the built-in names plus k custom ones ("X1".."Xk") are passed with this call
      match dt.splitOn "@" with
      | [pre, rest] =>
        let k := (pre.drop 1).toNat!
        fix st (some (Gen.Tables.HolidayUtil.NAMES ++ (List.range k).map fun j => s!"X{j + 1}")) rest.toList
      | _ => fix st none dt.toList) (some initHolidayState)

def opsHoliday : List (String × Handler) := [
  ("hol.day", fun args _ => match args with
    | [fx, y, m, d] => match stateAfter fx, ints? [y, m, d] with
      | some st, some [y, m, d] => some (showHolidays ((getHoliday st (ymdKey y m d)).map fun o => match o with | none => [] | some h => [h]))
      | none, _ => some "!"
      | _, _ => none
    | _ => none),
  ("hol.month", fun args _ => match args with
    | [fx, y, m] => match stateAfter fx, ints? [y, m] with
      | some st, some [y, m] => some (showHolidays (findHolidaysForward st (ymKey y m)))
      | none, _ => some "!"
      | _, _ => none
    | _ => none),
  ("hol.year", fun args _ => match args with
    | [fx, y] => match stateAfter fx, ints? [y] with
      | some st, some [y] => some (showHolidays (findHolidaysForward st (yKey y)))
      | none, _ => some "!"
      | _, _ => none
    | _ => none),
  ("hol.target", fun args _ => match args with
    | [fx, y, m, d] => match stateAfter fx, ints? [y, m, d] with
      | some st, some [y, m, d] => some (showHolidays (findHolidaysBackward st (ymdKey y m d)))
      | none, _ => some "!"
      | _, _ => none
    | _ => none),
  ("hol.data", fun args _ => match args with
    | [fx] => match stateAfter fx with
      | some st => some (String.ofList st.data)
      | none => some "!"
    | _ => none),
  ("hol.nextwork", fun args _ => match args with
    | [fx, y, m, d, n] => match stateAfter fx, ints? [y, m, d, n] with
      | some st, some [y, m, d, n] => some (showOptSolar (nextWorkday st ⟨y, m, d, 0, 0, 0⟩ n (n.natAbs * 40 + 400)))
      | none, _ => some "!"
      | _, _ => none
    | _ => none)
]

end Driver
