import Model.Almanac
import Model.TaoFoto
import Driver.OpsEightChar
namespace Driver
open Model

def sl (l : List String) : String := if l.isEmpty then "-" else ",".intercalate l
def nz (s : String) : String := if s.isEmpty then "-" else s

/-- attribute vector of a lunar date, in the order of harness `almStr` -/
def almVector (l : Lunar) : List String :=
  let dg := l.dayGanIndex; let dz := l.dayZhiIndex
  let tg := l.timeGanIndex; let tz := l.timeZhiIndex
  let mIdx := ganZhiIndex l.monthGanIndex l.monthZhiIndex
  let mIdxE := ganZhiIndex l.monthGanIndexExact l.monthZhiIndexExact
  let dIdx := ganZhiIndex dg dz
  let dIdxE := ganZhiIndex l.dayGanIndexExact l.dayZhiIndexExact
  let tIdx := ganZhiIndex tg tz
  let x := xiu dz l.weekIndex
  let dts := tianShen dz l.monthZhiIndex
  let tts := tianShen tz l.dayZhiIndexExact
  [ -- 1 day god directions
    positionXi dg, positionDesc (positionXi dg), positionYangGui dg, positionDesc (positionYangGui dg),
    positionYinGui dg, positionDesc (positionYinGui dg), positionFu dg 2, positionFu dg 1, positionDesc (positionFu dg 2),
    positionCai dg, positionDesc (positionCai dg),
    -- 2 pengzu
    pengZuGan dg, pengZuZhi dz,
    -- 3 clash / sha
    chong dz, chongGan dg, chongGanTie dg, chongShengXiao dz, chongDesc dg dz, sha dz,
    -- 4 nayin
    naYinOf l.yearGanIndex l.yearZhiIndex, naYinOf l.monthGanIndex l.monthZhiIndex, naYinOf dg dz, naYinOf tg tz,
    -- 5 duty god, heavenly spirits
    zhiXing l.monthZhiIndex dz, dts, tianShenType dts, tianShenLuck dts, tts, tianShenType tts, tianShenLuck tts,
    -- 6 tai
    positionTaiDay dg dz, nz (positionTaiMonth l.month),
    -- 7 mansions
    x, xiuLuck x, zheng x, animal x, gong x, shou x,
    -- 8 by lunar month/day
    yueXiang l.day, liuYao l.month l.day, season l.month, dayLu dg dz,
    -- 9 lists
    sl (dayYi mIdx dIdx), sl (dayJi mIdx dIdx), sl (dayYi mIdxE dIdx), sl (dayJi mIdxE dIdx),
    sl (dayJiShen l.month dIdx), sl (dayXiongSha l.month dIdx), sl (timeYi dIdxE tIdx), sl (timeJi dIdxE tIdx),
    -- 10 time attributes
    positionXi tg, positionYangGui tg, positionYinGui tg, positionFu tg 2, positionCai tg,
    chong tz, chongGan tg, chongGanTie tg, chongShengXiao tz, chongDesc tg tz, sha tz,
    -- 11 xun
    EightChar.xun l.yearGanIndex l.yearZhiIndex, EightChar.xun l.yearGanIndexByLiChun l.yearZhiIndexByLiChun, EightChar.xun l.yearGanIndexExact l.yearZhiIndexExact,
    EightChar.xunKong l.yearGanIndex l.yearZhiIndex, EightChar.xunKong l.yearGanIndexByLiChun l.yearZhiIndexByLiChun, EightChar.xunKong l.yearGanIndexExact l.yearZhiIndexExact,
    EightChar.xun l.monthGanIndex l.monthZhiIndex, EightChar.xun l.monthGanIndexExact l.monthZhiIndexExact,
    EightChar.xunKong l.monthGanIndex l.monthZhiIndex, EightChar.xunKong l.monthGanIndexExact l.monthZhiIndexExact,
    EightChar.xun dg dz, EightChar.xun l.dayGanIndexExact l.dayZhiIndexExact, EightChar.xun l.dayGanIndexExact2 l.dayZhiIndexExact2,
    EightChar.xunKong dg dz, EightChar.xunKong l.dayGanIndexExact l.dayZhiIndexExact, EightChar.xunKong l.dayGanIndexExact2 l.dayZhiIndexExact2,
    EightChar.xun tg tz, EightChar.xunKong tg tz,
    -- 12 tai sui
    positionTaiSuiYear l.yearZhiIndex, positionTaiSuiYear l.yearZhiIndexByLiChun, positionTaiSuiYear l.yearZhiIndexExact,
    monthPositionTaiSui l.monthZhiIndex l.monthGanIndex, monthPositionTaiSui l.monthZhiIndexExact l.monthGanIndexExact,
    dayPositionTaiSui (EightChar.pillarStr dg dz) l.yearZhiIndex,
    dayPositionTaiSui (EightChar.pillarStr l.dayGanIndexExact2 l.dayZhiIndexExact2) l.yearZhiIndexByLiChun,
    dayPositionTaiSui (EightChar.pillarStr dg dz) l.yearZhiIndexExact,
    -- 13 animals
    shengXiao l.yearZhiIndex, shengXiao l.yearZhiIndexByLiChun, shengXiao l.yearZhiIndexExact, shengXiao l.monthZhiIndex, shengXiao dz, shengXiao tz ]

/-- the hour object `Lunar.GetTime()` (= `NewLunarTime` of the same numbers): same defining inputs -/
def timeVector (l : Lunar) : List String :=
  let tz := timeZhiIndexOf l.hour l.minute
  let tg := (l.dayGanIndexExact % 5 * 2 + tz) % 10
  let tts := tianShen tz l.dayZhiIndexExact
  let dIdxE := ganZhiIndex l.dayGanIndexExact l.dayZhiIndexExact
  let tIdx := ganZhiIndex tg tz
  [ EightChar.pillarStr tg tz, shengXiao tz, positionXi tg, positionDesc (positionXi tg), positionYangGui tg, positionYinGui tg,
    positionFu tg 2, positionFu tg 1, positionCai tg, naYinOf tg tz, tts, tianShenType tts, tianShenLuck tts,
    chong tz, sha tz, chongGan tg, chongGanTie tg, chongShengXiao tz, chongDesc tg tz,
    sl (timeYi dIdxE tIdx), sl (timeJi dIdxE tIdx), EightChar.xun tg tz, EightChar.xunKong tg tz,
    toString l.timeNineStarViaLunarTime ]

/-- `LunarYear` / `LunarMonth` objects of the lunar date's own year and month -/
def yearMonthVector (l : Lunar) : List String :=
  let yg := (l.year - 4) % 10; let yz := (l.year - 4) % 12
  let rec_ := findMonth (astro l.year).months l.year l.month
  let idx := match rec_ with | some r => r.index | none => 0
  let mz := (idx - 1 + Gen.Tables.LunarUtil.BASE_MONTH_ZHI_INDEX) % 12
  let mg := (idx - 1 + (yg + 1) % 5 * 2) % 10
  [ EightChar.pillarStr yg yz, positionXi yg, positionYangGui yg, positionYinGui yg, positionFu yg 2, positionFu yg 1, positionCai yg,
    positionTaiSuiYear yz, toString (lunarYearNineStar l.year),
    EightChar.pillarStr mg mz, positionXi mg, positionYangGui mg, positionYinGui mg, positionFu mg 2, positionCai mg,
    toString (lunarMonthNineStar l.year l.month) ]

def bools (l : List Bool) : String := String.ofList (l.map fun b => if b then '1' else '0')

def opsAlmanac : List (String × Handler) := [
  ("alm", intOp fun args => withLunar args fun l => "|".intercalate (almVector l)),
  ("alm.time", intOp fun args => withLunar args fun l => "|".intercalate (timeVector l)),
  ("alm.ym", intOp fun args => withLunar args fun l => "|".intercalate (yearMonthVector l)),
  ("tf", intOp fun args => withLunar args fun l =>
    "|".intercalate [toString (taoYear l), toString (fotoYear l),
      bools [taoSanHui l, taoSanYuan l, taoWuLa l, taoBaJie l, taoBaHui l, taoMingWu l, taoAnWu l, taoWu l],
      bools [fotoMonthZhai l, fotoYangGong l, fotoZhaiShuoWang l, fotoZhaiSix astro l, fotoZhaiTen l, fotoZhaiGuanYin l],
      fotoXiu l, sl (taoFestivals l), sl (fotoFestivalNames l), sl (fotoOtherFestivals l),
      cpToString (lunarCp l.year l.month l.day), cpToString (lunarCp (taoYear l) l.month l.day), cpToString (lunarCp (fotoYear l) l.month l.day)]),
  ("newtao", intOp fun
    | [y, m, d, h, mi, s] => some (showOptLunar (newTao astro y m d h mi s))
    | _ => none),
  ("newfoto", intOp fun
    | [y, m, d, h, mi, s] => some (showOptLunar (newFoto astro y m d h mi s))
    | _ => none)
]

end Driver
