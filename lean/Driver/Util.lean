/-
Driver.Util — parsing/printing helpers for the line protocol (DESIGN §7.2).
-/
import Model.Civil
namespace Driver
open Model

def parseInt? (s : String) : Option Int := s.toInt?

def ints? (xs : List String) : Option (List Int) := xs.mapM parseInt?

def showInts (xs : List Int) : String := " ".intercalate (xs.map toString)

def showSolar (s : Solar) : String :=
  showInts [s.year, s.month, s.day, s.hour, s.minute, s.second]

def showOptSolar : Option Solar → String
  | none => "!"
  | some s => showSolar s

def showOptInt : Option Int → String
  | none => "!"
  | some i => toString i

def showBool (b : Bool) : String := if b then "1" else "0"

def showYmd (t : Int × Int × Int) : String := showInts [t.1, t.2.1, t.2.2]

/-- exact value of an IEEE-754 binary64 given by its 64 raw bits, as `n / 2^32`
(only for doubles that are multiples of 2^-32 in magnitude ≥ 2^-32·1; others → none). -/
def f64ToFix32 (bits : Nat) : Option Int :=
  let sign : Nat := bits / 2^63
  let e : Nat := (bits / 2^52) % 2048
  let m : Nat := bits % 2^52
  if e == 0 || e == 2047 then none else
  let mant : Nat := m + 2^52            -- value = mant · 2^(e-1075)
  let sh : Int := (e : Int) - 1075 + 32 -- n = mant · 2^sh
  let n? : Option Int :=
    if sh ≥ 0 then some ((mant * 2^sh.toNat : Nat) : Int)
    else
      let k := (-sh).toNat
      if mant % 2^k == 0 then some ((mant / 2^k : Nat) : Int) else none
  match n? with
  | none => none
  | some n => some (if sign == 1 then -n else n)

def hexVal (c : Char) : Option Nat :=
  if '0' ≤ c ∧ c ≤ '9' then some (c.toNat - '0'.toNat)
  else if 'a' ≤ c ∧ c ≤ 'f' then some (c.toNat - 'a'.toNat + 10)
  else if 'A' ≤ c ∧ c ≤ 'F' then some (c.toNat - 'A'.toNat + 10)
  else none

def parseHex? (s : String) : Option Nat :=
  s.toList.foldl (fun acc c => match acc, hexVal c with
    | some a, some v => some (a * 16 + v)
    | _, _ => none) (some 0)

end Driver
