import Model.Civil
import Driver.Util
namespace Driver
open Model

/-- An op handler: arguments (strings) and the implementation's observed result → the model's
result string; the caller compares. `none` = malformed line. A handler whose comparison is not
string equality returns the observed string itself when the model accepts it. -/
abbrev Handler := List String → String → Option String

def mkSolar? : List Int → Option Solar
  | [y, m, d, h, mi, s] => some ⟨y, m, d, h, mi, s⟩
  | _ => none

def intOp (f : List Int → Option String) : Handler := fun args _ =>
  match ints? args with
  | none => none
  | some xs => f xs

def opsCivil : List (String × Handler) := [
  ("leap", intOp fun | [y] => some (showBool (isLeapYear y)) | _ => none),
  ("doy", intOp fun | [y] => some (toString (daysOfYear y)) | _ => none),
  ("dim", intOp fun | [y, m] => some (toString (daysOfMonth y m)) | _ => none),
  ("diy", intOp fun | [y, m, d] => some (showOptInt (daysInYear y m d)) | _ => none),
  ("jdn", intOp fun | [y, m, d] => some (toString (jdn y m d)) | _ => none),
  ("week", intOp fun | [y, m, d] => some (toString (week y m d)) | _ => none),
  ("newsolar", intOp fun
    | [y, m, d, h, mi, s] => some (match newSolar y m d h mi s with | none => "!" | some _ => "ok")
    | _ => none),
  ("nextday", intOp fun
    | [y, m, d, h, mi, s, n] => some (showOptSolar ((Solar.mk y m d h mi s).nextDay n))
    | _ => none),
  ("nextmonth", intOp fun
    | [y, m, d, h, mi, s, n] => some (showOptSolar ((Solar.mk y m d h mi s).nextMonth n))
    | _ => none),
  ("nextyear", intOp fun
    | [y, m, d, h, mi, s, n] => some (showOptSolar ((Solar.mk y m d h mi s).nextYear n))
    | _ => none),
  ("nexthour", intOp fun
    | [y, m, d, h, mi, s, n] => some (showOptSolar ((Solar.mk y m d h mi s).nextHour n))
    | _ => none),
  ("nextym", intOp fun | [y, m, n] => some (let r := nextYm y m n; showInts [r.1, r.2]) | _ => none),
  ("sub", intOp fun
    | [y, m, d, y2, m2, d2] => some (showOptInt ((Solar.mk y m d 0 0 0).subtract (Solar.mk y2 m2 d2 0 0 0)))
    | _ => none),
  ("submin", intOp fun
    | [y, m, d, h, mi, y2, m2, d2, h2, mi2] =>
      some (showOptInt ((Solar.mk y m d h mi 0).subtractMinute (Solar.mk y2 m2 d2 h2 mi2 0)))
    | _ => none),
  ("before", intOp fun
    | [y, m, d, h, mi, s, y2, m2, d2, h2, mi2, s2] =>
      some (showBool ((Solar.mk y m d h mi s).isBefore (Solar.mk y2 m2 d2 h2 mi2 s2)))
    | _ => none),
  ("after", intOp fun
    | [y, m, d, h, mi, s, y2, m2, d2, h2, mi2, s2] =>
      some (showBool ((Solar.mk y m d h mi s).isAfter (Solar.mk y2 m2 d2 h2 mi2 s2)))
    | _ => none),
  -- fromjd <16 hex digits of the float64> => solar
  ("fromjd", fun args _ => match args with
    | [h] => match parseHex? h with
      | none => none
      | some bits => match f64ToFix32 bits with
        | none => some "?unrepresentable"
        | some n => some (showOptSolar (fromJD n))
    | _ => none),
  -- termjd <hex bits of each raw term JD> => the converted instants
  ("termjd", fun args _ =>
    let conv := args.map fun h => match parseHex? h with
      | none => "?hex"
      | some bits => match f64ToFix32 bits with
        | none => "?unrepresentable"
        | some n => showOptSolar (fromJD n)
    some (" | ".intercalate conv)),
  -- tojd y m d h mi s => <hex bits>; accepted when |float − exact| ≤ 2^-27 day
  ("tojd", fun args obs => match args with
    | [y, m, d, h, mi, s] => match ints? [y, m, d, h, mi, s], parseHex? obs with
      | some [y, m, d, h, mi, s], some bits =>
        let sol : Solar := ⟨y, m, d, h, mi, s⟩
        match f64ToFix32 bits with
        | none => some "?unrepresentable"
        | some n =>
          let diff := n * 86400 - sol.jdNum * 4294967296
          if diff.natAbs ≤ 86400 * 32 then some obs else some s!"exact={sol.jdNum}/86400"
      | _, _ => none
    | _ => none)
]

end Driver
