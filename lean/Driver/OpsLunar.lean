import Model.Lunar
import Model.AstroWFExtra
import Gen.AstroAll
import Driver.Util
import Driver.OpsCivil
namespace Driver
open Model

/-- the regenerated oracle, decoded once -/
def astroTable : Array YearAstro :=
  (Array.range 10001).map fun (y : Nat) => decodeYear (Int.ofNat y) (Gen.Astro.packed y)

def emptyAstro : YearAstro := { months := [], terms := [], hs := [], jq := [] }

/-- `Gen.astro`: the concrete oracle the driver runs the model with -/
def astro : Astro := fun y =>
  if 0 ≤ y ∧ y ≤ 10000 then astroTable.getD y.toNat emptyAstro else emptyAstro

def showMonthRec (r : MonthRec) : String :=
  s!"{r.year}:{r.month}:{r.dayCount}:{r.first}:{r.index}"

def showLunarFields (l : Lunar) : String :=
  showInts [l.year, l.month, l.day, l.yearGanIndex, l.yearZhiIndex, l.yearGanIndexByLiChun,
    l.yearZhiIndexByLiChun, l.yearGanIndexExact, l.yearZhiIndexExact, l.monthGanIndex, l.monthZhiIndex,
    l.monthGanIndexExact, l.monthZhiIndexExact, l.dayGanIndex, l.dayZhiIndex, l.dayGanIndexExact,
    l.dayZhiIndexExact, l.dayGanIndexExact2, l.dayZhiIndexExact2, l.timeGanIndex, l.timeZhiIndex,
    l.weekIndex, l.solar.year, l.solar.month, l.solar.day,
    (l.terms.getD 0 nilSolar).year, (termByName l.terms "立春").year]

def showOptLunar : Option Lunar → String
  | none => "!"
  | some l => showLunarFields l

def opsLunar : List (String × Handler) := [
  -- month table of lunar year y: the model recomputes it from hs/jq and must also equal the oracle copy
  ("ly", intOp fun
    | [y] =>
      let ya := astro y
      let ms := computeMonths y ya.hs ya.jq
      if ms != ya.months then some ("oracle-mismatch " ++ " ".intercalate (ms.map showMonthRec))
      else some (" ".intercalate (ms.map showMonthRec))
    | _ => none),
  ("lyacc", intOp fun
    | [y] =>
      let ms := (astro y).months
      some (showInts [leapMonthOf ms y, yearDayCount ms y, (monthsInYear ms y).length])
    | _ => none),
  ("terms", intOp fun
    | [y] => some (" ".intercalate ((astro y).terms.map fun s => s!"{s.year}-{s.month}-{s.day}-{s.hour}-{s.minute}-{s.second}"))
    | _ => none),
  ("l.fs", intOp fun
    | [y, m, d, h, mi, s] => some (showOptLunar (Lunar.fromSolar astro ⟨y, m, d, h, mi, s⟩))
    | _ => none),
  ("l.fy", intOp fun
    | [y, m, d, h, mi, s] => some (showOptLunar (Lunar.fromYmdHms astro y m d h mi s))
    | _ => none),
  ("l.next", intOp fun
    | [y, m, d, h, mi, s, n] =>
      some (match Lunar.fromSolar astro ⟨y, m, d, h, mi, s⟩ with
        | none => "!"
        | some l => showOptLunar (l.next astro n))
    | _ => none),
  ("wf", intOp fun
    | [y] => some (String.ofList ((yearDiag y (astro y) (astro (y + 1))).map fun b => if b then '1' else '0'))
    | _ => none),
  ("lm.next", intOp fun
    | [y, m, n] => some (match monthNext astro y m n with
        | none => "nil"
        | some r => showMonthRec r)
    | _ => none)
]

end Driver
