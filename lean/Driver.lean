import Driver.Main
