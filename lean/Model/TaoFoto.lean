/-
Model.TaoFoto — Taoist (`calendar.Tao`) and Buddhist (`calendar.Foto`) dates: year offsets,
constructors, day-class predicates; and the Chinese renderings `Lunar.String`, `Tao.String`,
`Foto.String` on code points (so that theorems about them reduce in the kernel).
After the `fix:` commits (Foto.GetYear = lunar year − DEAD_YEAR + 1; IsDayYangGong assertion).
-/
import Model.EightChar
namespace Model
open Gen.Tables

/-! ### year offsets and constructors -/
def taoYear (l : Lunar) : Int := l.year - calendar.BIRTH_YEAR
def fotoYear (l : Lunar) : Int := l.year - calendar.DEAD_YEAR + 1

/-- `NewTao(year, month, day, h, mi, s)` / `NewFoto(...)` → the underlying lunar date -/
def newTao (A : Astro) (y m d h mi s : Int) : Option Lunar := Lunar.fromYmdHms A (y + calendar.BIRTH_YEAR) m d h mi s
def newFoto (A : Astro) (y m d h mi s : Int) : Option Lunar := Lunar.fromYmdHms A (y + calendar.DEAD_YEAR - 1) m d h mi s

/-! ### Tao day classes -/
def mdKey (m d : Int) : String := s!"{m}-{d}"
def absI (m : Int) : Int := if m < 0 then -m else m

def taoIsDayIn (l : Lunar) (days : List String) : Bool := days.contains (mdKey l.month l.day)
def taoSanHui (l : Lunar) : Bool := taoIsDayIn l TaoUtil.SAN_HUI
def taoSanYuan (l : Lunar) : Bool := taoIsDayIn l TaoUtil.SAN_YUAN
def taoWuLa (l : Lunar) : Bool := taoIsDayIn l TaoUtil.WU_LA
def taoBaJie (l : Lunar) : Bool := (lookupS TaoUtil.BA_JIE l.jieQi).isSome
def taoBaHui (l : Lunar) : Bool := (lookupS TaoUtil.BA_HUI (EightChar.pillarStr l.dayGanIndex l.dayZhiIndex)).isSome
def taoMingWu (l : Lunar) : Bool := ganStr l.dayGanIndex == "戊"
def taoAnWu (l : Lunar) : Bool := zhiStr l.dayZhiIndex == strGetD TaoUtil.AN_WU (absI l.month - 1)
def taoWu (l : Lunar) : Bool := taoMingWu l || taoAnWu l

/-- `Tao.GetFestivals` names (with remark after '/') -/
def taoFestivals (l : Lunar) : List String :=
  let tbl := match lookupI TaoUtil.FESTIVAL_ikeys TaoUtil.FESTIVAL [l.month, l.day] with
    | some fs => fs.map fun o => (o.getD 0 "") ++ (if o.length > 1 then "/" ++ o.getD 1 "" else "")
    | none => []
  let jq := l.jieQi
  tbl ++ (if jq == "冬至" then ["元始天尊圣诞"] else if jq == "夏至" then ["灵宝天尊圣诞"] else []) ++
    (match lookupS TaoUtil.BA_JIE jq with | some f => [f] | none => []) ++
    (match lookupS TaoUtil.BA_HUI (EightChar.pillarStr l.dayGanIndex l.dayZhiIndex) with | some f => [f] | none => [])

/-! ### Foto day classes -/
def fotoFestivalNames (l : Lunar) : List String :=
  match lookupI FotoUtil.FESTIVAL_ikeys FotoUtil.FESTIVAL [absI l.month, l.day] with
  | some fs => fs.map fun o => o.getD 0 ""
  | none => []
def fotoOtherFestivals (l : Lunar) : List String :=
  match lookupI FotoUtil.OTHER_FESTIVAL_ikeys FotoUtil.OTHER_FESTIVAL [l.month, l.day] with
  | some f => f | none => []
def fotoMonthZhai (l : Lunar) : Bool := l.month == 1 || l.month == 5 || l.month == 9
def fotoYangGong (l : Lunar) : Bool := (fotoFestivalNames l).contains "杨公忌"
def fotoZhaiShuoWang (l : Lunar) : Bool := l.day == 1 || l.day == 15
/-- `IsDayZhaiSix` needs the month length: `NewLunarMonthFromYm(lunar year, month)` -/
def fotoZhaiSix (A : Astro) (l : Lunar) : Bool :=
  let d := l.day
  if d == 8 || d == 14 || d == 15 || d == 23 || d == 29 || d == 30 then true
  else if d == 28 then
    match findMonth (A l.year).months l.year l.month with
    | some m => m.dayCount != 30
    | none => false
  else false
def fotoZhaiTen (l : Lunar) : Bool :=
  [1, 8, 14, 15, 18, 23, 24, 28, 29, 30].contains l.day
def fotoZhaiGuanYin (l : Lunar) : Bool := FotoUtil.DAY_ZHAI_GUAN_YIN.contains (mdKey l.month l.day)
/-- `FotoUtil.GetXiu(month, day)` -/
def fotoXiu (l : Lunar) : String :=
  strGetD FotoUtil.XIU_27 ((listGetD FotoUtil.XIU_OFFSET (absI l.month - 1) + l.day - 1).tmod (FotoUtil.XIU_27.length : Int))

/-! ### Chinese rendering on code points -/
def cpNian : Nat := 24180   -- 年
def cpYue : Nat := 26376    -- 月
def cpRun : Nat := 38384    -- 闰

def digitsFuel : Nat → Nat → List Nat
  | 0, _ => []
  | fuel + 1, n => if n < 10 then [n] else digitsFuel fuel (n / 10) ++ [n % 10]

/-- decimal digits of n, most significant first (`fmt.Sprintf("%d", n)` for n ≥ 0) -/
def digitsOf (n : Nat) : List Nat := digitsFuel (n + 1) n

def cpTbl (t : List (List Nat)) (i : Int) : List Nat := if i < 0 then [] else t.getD i.toNat []

/-- `GetYearInChinese`: digit by digit through `NUMBER` (Go panics for a negative year; not modelled) -/
def yearCp (y : Int) : List Nat := (digitsOf y.toNat).flatMap fun (d : Nat) => cpTbl LunarUtil.NUMBER_cp (Int.ofNat d)
def monthCp (m : Int) : List Nat := if m < 0 then cpRun :: cpTbl LunarUtil.MONTH_cp (-m) else cpTbl LunarUtil.MONTH_cp m
def dayCp (d : Int) : List Nat := cpTbl LunarUtil.DAY_cp d

/-- `Lunar.String()`; also `Tao.String()` / `Foto.String()` with their own year -/
def lunarCp (y m d : Int) : List Nat := yearCp y ++ [cpNian] ++ monthCp m ++ [cpYue] ++ dayCp d

def cpToString (l : List Nat) : String := String.ofList (l.map Char.ofNat)

/-- parser for the rendering: digits up to 年, optional 闰, month name up to 月, day name -/
def findIdxCp (t : List (List Nat)) (x : List Nat) : Option Nat := t.findIdx? (· == x)

def splitAt1 (sep : Nat) : List Nat → Option (List Nat × List Nat)
  | [] => none
  | c :: cs => if c == sep then some ([], cs) else (splitAt1 sep cs).map fun p => (c :: p.1, p.2)

def parseYearCp (cs : List Nat) : Option Nat :=
  cs.foldl (fun acc c => match acc with
    | none => none
    | some a => match findIdxCp (LunarUtil.NUMBER_cp.take 10) [c] with
      | some d => some (a * 10 + d)
      | none => none) (some 0)

def parseLunarCp (cs : List Nat) : Option (Int × Int × Int) :=
  match splitAt1 cpNian cs with
  | none => none
  | some (ys, rest) =>
    match parseYearCp ys, (if rest.head? == some cpRun then (true, rest.drop 1) else (false, rest)) with
    | some y, (leap, rest') =>
      match splitAt1 cpYue rest' with
      | none => none
      | some (ms, ds) =>
        match findIdxCp LunarUtil.MONTH_cp ms, findIdxCp LunarUtil.DAY_cp ds with
        | some m, some d => if ys.isEmpty || m == 0 || d == 0 then none else some ((y : Int), if leap then -(m : Int) else (m : Int), (d : Int))
        | _, _ => none
    | none, _ => none

end Model
