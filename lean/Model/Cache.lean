/-
Model.Cache — abstract protocol of `calendar.NewLunarYear`: a mutex-protected single-slot cache in
front of a pure computation. Threads execute
    lock.Lock(); defer lock.Unlock(); if CACHE_YEAR == nil || CACHE_YEAR.year != y { year = build(y); CACHE_YEAR = year } else { year = CACHE_YEAR }; return year
as the atomic steps `call`, `acquire`, `hit`/`miss`/`crash`, `release`, `ret`, interleaved arbitrarily.
`build` is the pure function `compute`; for an out-of-range argument the real `compute()` can panic:
after the `fix:` commit the lock is released by `defer`, which is the step `crash` (lock released, cache
untouched, nothing returned; the caller recovers).
The tie to the source is the regenerated `Gen.Facts.newLunarYearShape` / `cacheRefs` (see Props/C09).
-/
namespace Model.Cache

/-- program counter of one thread -/
inductive PC (T : Type) where
  | idle
  | waiting (arg : Int)                 -- called, not yet holding the lock
  | inside (arg : Int)                  -- holds the lock, body not yet run
  | holding (arg : Int) (res : T)       -- body done, lock still held
  | done (arg : Int) (res : T)          -- lock released, about to return `res`
  deriving Repr

structure State (T : Type) where
  cache : Option (Int × T)
  lock : Option Nat                     -- thread holding the mutex
  pc : Nat → PC T
  returned : List (Int × T)             -- history of completed calls (argument, result)

def init (T : Type) : State T := { cache := none, lock := none, pc := fun _ => .idle, returned := [] }

def setPc {T : Type} (s : State T) (t : Nat) (p : PC T) : Nat → PC T := fun u => if u = t then p else s.pc u

/-- one atomic step of thread `t` -/
inductive Step {T : Type} (compute : Int → T) : State T → State T → Prop where
  | call (s : State T) (t : Nat) (y : Int) : s.pc t = .idle →
      Step compute s { s with pc := setPc s t (.waiting y) }
  | acquire (s : State T) (t : Nat) (y : Int) : s.pc t = .waiting y → s.lock = none →
      Step compute s { s with lock := some t, pc := setPc s t (.inside y) }
  | hit (s : State T) (t : Nat) (y : Int) (v : T) : s.pc t = .inside y → s.cache = some (y, v) →
      Step compute s { s with pc := setPc s t (.holding y v) }
  | miss (s : State T) (t : Nat) (y : Int) : s.pc t = .inside y → (∀ v, s.cache ≠ some (y, v)) →
      Step compute s { s with cache := some (y, compute y), pc := setPc s t (.holding y (compute y)) }
  | crash (s : State T) (t : Nat) (y : Int) : s.pc t = .inside y →
      Step compute s { s with lock := none, pc := setPc s t .idle }
  | release (s : State T) (t : Nat) (y : Int) (v : T) : s.pc t = .holding y v →
      Step compute s { s with lock := none, pc := setPc s t (.done y v) }
  | ret (s : State T) (t : Nat) (y : Int) (v : T) : s.pc t = .done y v →
      Step compute s { s with pc := setPc s t .idle, returned := (y, v) :: s.returned }

/-- states reachable from the initial state by any finite interleaving -/
inductive Reachable {T : Type} (compute : Int → T) : State T → Prop where
  | init : Reachable compute (init T)
  | step (s s' : State T) : Reachable compute s → Step compute s s' → Reachable compute s'

def holdsLock {T : Type} : PC T → Bool
  | .inside _ => true
  | .holding _ _ => true
  | _ => false

end Model.Cache
