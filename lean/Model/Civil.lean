/-
Model.Civil — executable model of lunar-go's civil (Gregorian/Julian) date arithmetic:
`SolarUtil.{IsLeapYear,GetDaysOfYear,GetDaysOfMonth,GetDaysInYear,GetJulianDay,GetWeek,
GetDaysBetween,IsBefore}` and `calendar.Solar.{NewSolar,NewSolarFromJulianDay,NextDay,NextMonth,
NextYear,NextHour,Subtract,SubtractMinute,IsBefore,IsAfter}`.

Conventions: Go `int` is modelled by unbounded `Int` (no property is about overflow);
a Go `panic` is `none`; a Go loop is structural recursion on a `Nat` fuel that the callers
instantiate with a bound proved sufficient in `Proofs/`.  `/` and `%` below are Lean's
Euclidean `Int` operations; they coincide with Go's truncating ones wherever the operands are
non-negative, which holds for every use in this file for years ≥ -4716 (stated per lemma).
Core-only: no Mathlib import (the driver links this file).
-/
namespace Model

/-- `SolarUtil.IsLeapYear` -/
def isLeapYear (y : Int) : Bool :=
  if y < 1600 then y % 4 == 0
  else (y % 4 == 0 && y % 100 != 0) || y % 400 == 0

/-- `SolarUtil.GetDaysOfYear` -/
def daysOfYear (y : Int) : Int :=
  if y = 1582 then 355 else if isLeapYear y then 366 else 365

/-- `SolarUtil.DAYS_OF_MONTH[m-1]` (0 outside 1..12, where Go panics with index out of range;
every caller guards `1 ≤ m ≤ 12`). -/
def baseDaysOfMonth (m : Int) : Int :=
  if m = 1 then 31 else if m = 2 then 28 else if m = 3 then 31 else if m = 4 then 30
  else if m = 5 then 31 else if m = 6 then 30 else if m = 7 then 31 else if m = 8 then 31
  else if m = 9 then 30 else if m = 10 then 31 else if m = 11 then 30 else if m = 12 then 31
  else 0

/-- `SolarUtil.GetDaysOfMonth` -/
def daysOfMonth (y m : Int) : Int :=
  if y = 1582 ∧ m = 10 then 21
  else if m = 2 ∧ isLeapYear y then baseDaysOfMonth m + 1 else baseDaysOfMonth m

/-- A civil date-time; the fields of Go's `calendar.Solar`. -/
structure Solar where
  year : Int
  month : Int
  day : Int
  hour : Int
  minute : Int
  second : Int
  deriving DecidableEq, Repr, Inhabited, BEq

/-- Validity of a (year, month, day) triple: exactly what `NewSolar` accepts. -/
def validYmd (y m d : Int) : Bool :=
  decide (1 ≤ m) && decide (m ≤ 12) && decide (1 ≤ d) && decide (d ≤ 31) &&
  (if y = 1582 ∧ m = 10 then !(decide (4 < d) && decide (d < 15)) else decide (d ≤ daysOfMonth y m))

def validHms (h mi s : Int) : Bool :=
  decide (0 ≤ h) && decide (h ≤ 23) && decide (0 ≤ mi) && decide (mi ≤ 59) &&
  decide (0 ≤ s) && decide (s ≤ 59)

def Solar.valid (s : Solar) : Bool :=
  validYmd s.year s.month s.day && validHms s.hour s.minute s.second

/-- `calendar.NewSolar`: `none` models the panic. The checks are in the order of the Go code
(observably irrelevant: every failure is a panic). -/
def newSolar (y m d h mi s : Int) : Option Solar :=
  if validYmd y m d && validHms h mi s then some ⟨y, m, d, h, mi, s⟩ else none

def newSolarYmd (y m d : Int) : Option Solar := newSolar y m d 0 0 0

/-- Integer day number at noon = `int(SolarUtil.GetJulianDay(y,m,d,0,0,0) + 0.5)`.
Integer form of the float expression: `int(365.25·k) = ⌊1461k/4⌋`, `int(30.6001·k) = ⌊306001k/10000⌋`
for the `k` that occur (see DESIGN §3 C04 for why the float evaluation is exact here). -/
def jdn (y m d : Int) : Int :=
  let g : Bool := decide (y * 372 + m * 31 + d ≥ 588829)
  let y' := if m ≤ 2 then y - 1 else y
  let m' := if m ≤ 2 then m + 12 else m
  let n := if g then 2 - y' / 100 + y' / 100 / 4 else 0
  (1461 * (y' + 4716)) / 4 + (306001 * (m' + 1)) / 10000 + d + n - 1524

def Solar.jdn (s : Solar) : Int := Model.jdn s.year s.month s.day

/-- seconds since midnight -/
def Solar.secOfDay (s : Solar) : Int := s.hour * 3600 + s.minute * 60 + s.second

/-- total order key: seconds on the continuous day count -/
def Solar.stamp (s : Solar) : Int := s.jdn * 86400 + s.secOfDay

/-- `SolarUtil.GetWeek` : `(int(jd+0.5) + 7000001) % 7` -/
def week (y m d : Int) : Int := (jdn y m d + 7000001) % 7

def Solar.week (s : Solar) : Int := Model.week s.year s.month s.day

/-- date part of `NewSolarFromJulianDay` on the integer day number `d = int(jd+0.5)`.
Returns (year, month, day). Integer forms: `int((d-1867216.25)/36524.25) = ⌊(4d-7468865)/146097⌋`,
`int((d-122.1)/365.25) = ⌊(20d-2442)/7305⌋`, `int(d/30.601) = ⌊1000d/30601⌋`,
`int(30.601·k) = ⌊30601k/1000⌋`. -/
def fromJdnYear (d0 : Int) : Int × Int :=   -- (D after century correction + 1524, raw year)
  let d1 := if d0 ≥ 2299161 then
      let c := (4 * d0 - 7468865) / 146097
      d0 + 1 + c - c / 4
    else d0
  let d2 := d1 + 1524
  (d2, (20 * d2 - 2442) / 7305)

def fromJdn (d0 : Int) : Int × Int × Int :=
  let (d2, year) := fromJdnYear d0
  let d3 := d2 - (1461 * year) / 4
  let month := (1000 * d3) / 30601
  let day := d3 - (30601 * month) / 1000
  if month > 13 then (year - 4715, month - 13, day) else (year - 4716, month - 1, day)

/-- `Solar.NextDay` — the month-walking loops, with the 1582-10 renumbering. `fuel` bounds the
loop; callers pass `n.natAbs + 1`, proved sufficient in `Proofs.Civil`. -/
def fwdLoop : Nat → Int → Int → Int → Int × Int × Int
  | 0, y, m, d => (y, m, d)
  | fuel + 1, y, m, d =>
    if d > daysOfMonth y m then
      let d' := d - daysOfMonth y m
      if m + 1 > 12 then fwdLoop fuel (y + 1) 1 d' else fwdLoop fuel y (m + 1) d'
    else (y, m, d)

/-- backward loop: `for d+days <= 0 { m--; …; d += GetDaysOfMonth(y,m) }` (days < 0) -/
def bwdLoop : Nat → Int → Int → Int → Int → Int × Int × Int
  | 0, y, m, d, _ => (y, m, d)
  | fuel + 1, y, m, d, days =>
    if d + days ≤ 0 then
      if m - 1 < 1 then bwdLoop fuel (y - 1) 12 (d + daysOfMonth (y - 1) 12) days
      else bwdLoop fuel y (m - 1) (d + daysOfMonth y (m - 1)) days
    else (y, m, d)

def nextDayYmd (y m d n : Int) : Int × Int × Int :=
  let d0 := if y = 1582 ∧ m = 10 ∧ d > 4 then d - 10 else d
  let (y1, m1, d1) :=
    if n > 0 then fwdLoop (n.toNat + 1) y m (d0 + n)
    else if n < 0 then
      let (y2, m2, d2) := bwdLoop (n.natAbs + 1) y m d0 n
      (y2, m2, d2 + n)
    else (y, m, d0)
  let d2 := if y1 = 1582 ∧ m1 = 10 ∧ d1 > 4 then d1 + 10 else d1
  (y1, m1, d2)

def Solar.nextDay (s : Solar) (n : Int) : Option Solar :=
  let (y, m, d) := nextDayYmd s.year s.month s.day n
  newSolar y m d s.hour s.minute s.second

/-- `SolarMonth.Next` on (year, month) -/
def nextYm (y m months : Int) : Int × Int :=
  let n : Int := if months < 0 then -1 else 1
  let a : Int := if months < 0 then -months else months
  let y1 := y + a / 12 * n
  let m1 := m + a % 12 * n
  if m1 > 12 then (y1 + 1, m1 - 12) else if m1 < 1 then (y1 - 1, m1 + 12) else (y1, m1)

/-- `Solar.NextMonth` -/
def Solar.nextMonth (s : Solar) (months : Int) : Option Solar :=
  let (y, m) := nextYm s.year s.month months
  let d := s.day
  let d' := if y = 1582 ∧ m = 10 then (if d > 4 ∧ d < 15 then d + 10 else d)
            else (if d > daysOfMonth y m then daysOfMonth y m else d)
  newSolar y m d' s.hour s.minute s.second

/-- `Solar.NextYear` -/
def Solar.nextYear (s : Solar) (years : Int) : Option Solar :=
  let y := s.year + years
  let m := s.month
  let d := s.day
  let d' := if y = 1582 ∧ m = 10 then (if d > 4 ∧ d < 15 then d + 10 else d)
            else if m = 2 then (if d > 28 ∧ !isLeapYear y then 28 else d)
            else d
  newSolar y m d' s.hour s.minute s.second

/-- `Solar.NextHour` (Go `/`,`%` on the non-negative `hour` after sign split) -/
def Solar.nextHour (s : Solar) (hours : Int) : Option Solar :=
  let h := s.hour + hours
  let n : Int := if h < 0 then -1 else 1
  let a : Int := if h < 0 then -h else h
  let days := a / 24 * n
  let hour := (a % 24) * n
  let (hour, days) := if hour < 0 then (hour + 24, days - 1) else (hour, days)
  match s.nextDay days with
  | none => none
  | some o => newSolar o.year o.month o.day hour o.minute o.second

/-- `SolarUtil.GetDaysInYear`: ordinal of the day in its year (1582-10-15.. compressed by 10);
`none` models the panic for the missing days. -/
def daysInYearLoop : Nat → Int → Int → Int
  | 0, _, _ => 0
  | k + 1, y, i => daysOfMonth y i + daysInYearLoop k y (i + 1)

def daysInYear (y m d : Int) : Option Int :=
  let days := daysInYearLoop (m - 1).toNat y 1
  if y = 1582 ∧ m = 10 then
    if d ≥ 15 then some (days + d - 10)
    else if d > 4 then none
    else some (days + d)
  else some (days + d)

/-- sum of `GetDaysOfYear(i)` for `i = a, a+1, …` (`k` terms) -/
def yearsLoop : Nat → Int → Int
  | 0, _ => 0
  | k + 1, a => daysOfYear a + yearsLoop k (a + 1)

/-- `SolarUtil.GetDaysBetween(a, b)` = days from a to b -/
def daysBetween (ay am ad by_ bm bd : Int) : Option Int :=
  match daysInYear ay am ad, daysInYear by_ bm bd with
  | some da, some db =>
    if ay = by_ then some (db - da)
    else if ay > by_ then
      some (-((daysOfYear by_ - db) + yearsLoop (ay - by_ - 1).toNat (by_ + 1) + da))
    else
      some ((daysOfYear ay - da) + yearsLoop (by_ - ay - 1).toNat (ay + 1) + db)
  | _, _ => none

/-- `Solar.Subtract`: solar - other in days -/
def Solar.subtract (s o : Solar) : Option Int :=
  daysBetween o.year o.month o.day s.year s.month s.day

/-- `Solar.SubtractMinute` -/
def Solar.subtractMinute (s o : Solar) : Option Int :=
  match s.subtract o with
  | none => none
  | some days =>
    let cm := s.hour * 60 + s.minute
    let sm := o.hour * 60 + o.minute
    let m := cm - sm
    if m < 0 then some (m + 1440 + (days - 1) * 1440) else some (m + days * 1440)

/-- `SolarUtil.IsBefore` / `Solar.IsBefore`: lexicographic comparison of the six fields -/
def lexLt : List (Int × Int) → Bool
  | [] => false
  | (a, b) :: r => if a > b then false else if a < b then true else lexLt r

def Solar.isBefore (s o : Solar) : Bool :=
  lexLt [(s.year, o.year), (s.month, o.month), (s.day, o.day), (s.hour, o.hour),
         (s.minute, o.minute), (s.second, o.second)]

/-- `Solar.IsAfter` -/
def Solar.isAfter (s o : Solar) : Bool :=
  lexLt [(o.year, s.year), (o.month, s.month), (o.day, s.day), (o.hour, s.hour),
         (o.minute, s.minute), (o.second, s.second)]

/-- `NewSolarFromJulianDay` on the exact value `n / 2^32` of the double (every binary64 in
[2^20, 2^23) is such a multiple; the driver converts the raw bits). Models the code AFTER the
`fix:` commit that carries an hour overflow into the date with `NextDay(1)`. -/
def fromJD (n : Int) : Option Solar :=
  let two32 : Int := 4294967296
  let t := n + 2147483648
  let d := t / two32
  let f := t % two32
  let (year, month, day) := fromJdn d
  let f1 := f * 24
  let hour := f1 / two32
  let f2 := (f1 - hour * two32) * 60
  let minute := f2 / two32
  let f3 := (f2 - minute * two32) * 60
  let second := (2 * f3 + two32) / (2 * two32)     -- math.Round, f3 ≥ 0
  let (second, minute) := if second > 59 then (second - 60, minute + 1) else (second, minute)
  let (minute, hour) := if minute > 59 then (minute - 60, hour + 1) else (minute, hour)
  if hour > 23 then
    match newSolar year month day (hour - 24) minute second with
    | none => none
    | some s => s.nextDay 1
  else newSolar year month day hour minute second

/-- exact Julian Day of a date-time as a rational `num / 86400` : `jdn - 1/2 + secOfDay/86400` -/
def Solar.jdNum (s : Solar) : Int := s.jdn * 86400 - 43200 + s.secOfDay

end Model
