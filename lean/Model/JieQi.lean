/-
Model.JieQi — solar-term lookups of `calendar.Lunar`: `getNearJieQi` (the eight Prev/Next getters),
`GetJieQi`/`GetJie`/`GetQi`, `convertJieQi`, `JieQi.IsJie/IsQi`.
-/
import Model.Lunar
namespace Model
open Gen.Tables

/-- `convertJieQi` -/
def convertJieQi (name : String) : String :=
  if name == "DONG_ZHI" then "冬至"
  else if name == "DA_HAN" then "大寒"
  else if name == "XIAO_HAN" then "小寒"
  else if name == "LI_CHUN" then "立春"
  else if name == "DA_XUE" then "大雪"
  else if name == "YU_SHUI" then "雨水"
  else if name == "JING_ZHE" then "惊蛰"
  else name

/-- the (name, stamp) entries in `jieQiList` order; the Go code looks the stamp up in the map
`jieQi[key]`, i.e. by the last occurrence of the key -/
def termEntries (terms : List Solar) : List (String × Solar) :=
  calendar.JIE_QI_IN_USE.map fun k => (k, termByName terms k)

/-- `conditions` of the Jie getters: `JIE_QI_IN_USE[2i]`, of the Qi getters: `JIE_QI_IN_USE[2i+1]`, i < len/2 -/
def everyOther : List String → List String
  | a :: _ :: r => a :: everyOther r
  | _ => []

def jieConditions : List String := everyOther calendar.JIE_QI_IN_USE
def qiConditions : List String := everyOther (calendar.JIE_QI_IN_USE.drop 1)

/-- the scan of `getNearJieQi` -/
def nearScan (key : Solar → List Char) (today : List Char) (forward : Bool) (filters : List String) :
    List (String × Solar) → Option (String × Solar) → Option (String × Solar)
  | [], near => near
  | (k, solar) :: rest, near =>
    let jq := convertJieQi k
    if !filters.isEmpty && !filters.contains jq then nearScan key today forward filters rest near
    else
      let day := key solar
      if forward then
        if strLe day today then nearScan key today forward filters rest near
        else
          match near with
          | none => nearScan key today forward filters rest (some (jq, solar))
          | some (_, ns) =>
            if strLt day (key ns) then nearScan key today forward filters rest (some (jq, solar))
            else nearScan key today forward filters rest near
      else
        if strGt day today then nearScan key today forward filters rest near
        else
          match near with
          | none => nearScan key today forward filters rest (some (jq, solar))
          | some (_, ns) =>
            if strGt day (key ns) then nearScan key today forward filters rest (some (jq, solar))
            else nearScan key today forward filters rest near

/-- `Lunar.getNearJieQi(forward, conditions, wholeDay)`; `filters = []` ⇔ `conditions == nil` -/
def Lunar.nearJieQi (l : Lunar) (forward : Bool) (filters : List String) (wholeDay : Bool) : Option (String × Solar) :=
  let key := if wholeDay then Solar.toYmd else Solar.toYmdHms
  nearScan key (key l.solar) forward filters (termEntries l.terms) none

def Lunar.nextJie (l : Lunar) (wholeDay : Bool) := l.nearJieQi true jieConditions wholeDay
def Lunar.prevJie (l : Lunar) (wholeDay : Bool) := l.nearJieQi false jieConditions wholeDay
def Lunar.nextQi (l : Lunar) (wholeDay : Bool) := l.nearJieQi true qiConditions wholeDay
def Lunar.prevQi (l : Lunar) (wholeDay : Bool) := l.nearJieQi false qiConditions wholeDay
def Lunar.nextJieQi (l : Lunar) (wholeDay : Bool) := l.nearJieQi true [] wholeDay
def Lunar.prevJieQi (l : Lunar) (wholeDay : Bool) := l.nearJieQi false [] wholeDay

def sameDay (a b : Solar) : Bool := a.year == b.year && a.month == b.month && a.day == b.day

/-- `Lunar.GetJieQi`: first table entry (list order) whose civil day is today, converted; "" if none -/
def Lunar.jieQi (l : Lunar) : String :=
  match (termEntries l.terms).find? (fun e => sameDay e.2 l.solar) with
  | some e => convertJieQi e.1
  | none => ""

def everyOtherE : List (String × Solar) → List (String × Solar)
  | a :: _ :: r => a :: everyOtherE r
  | [a] => [a]
  | [] => []

/-- `Lunar.GetJie` (entries 0,2,…,30) and `Lunar.GetQi` (entries 1,3,…,29) -/
def Lunar.jie (l : Lunar) : String :=
  match (everyOtherE (termEntries l.terms)).find? (fun e => sameDay e.2 l.solar) with
  | some e => convertJieQi e.1
  | none => ""

def Lunar.qi (l : Lunar) : String :=
  match (everyOtherE ((termEntries l.terms).drop 1)).find? (fun e => sameDay e.2 l.solar) with
  | some e => convertJieQi e.1
  | none => ""

/-- `JieQi.SetName`: position in the canonical 24-name cycle `JIE_QI`; even = qi, odd = jie -/
def jieQiIsJie (name : String) : Bool :=
  match calendar.JIE_QI.findIdx? (· == name) with
  | some i => i % 2 == 1
  | none => false

def jieQiIsQi (name : String) : Bool :=
  match calendar.JIE_QI.findIdx? (· == name) with
  | some i => i % 2 == 0
  | none => false

end Model
