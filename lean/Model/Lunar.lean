/-
Model.Lunar — model of `calendar.Lunar`: the two construction paths (`NewLunarFromSolar`,
`NewLunar`) and `compute` (computeJieQi, computeYear, computeMonth, computeDay, computeTime,
computeWeek), field for field, including the string comparisons the Go code uses for time
order (through `Model.Fmt`).
-/
import Model.Fmt
import Model.LunarYear
namespace Model
open Gen.Tables

/-- the fields of Go's `Lunar` (the 31-entry term table `jieQi`/`jieQiList` is `terms`,
keyed by position in `JIE_QI_IN_USE`) -/
structure Lunar where
  year : Int
  month : Int
  day : Int
  hour : Int
  minute : Int
  second : Int
  yearGanIndex : Int
  yearZhiIndex : Int
  yearGanIndexByLiChun : Int
  yearZhiIndexByLiChun : Int
  yearGanIndexExact : Int
  yearZhiIndexExact : Int
  monthGanIndex : Int
  monthZhiIndex : Int
  monthGanIndexExact : Int
  monthZhiIndexExact : Int
  dayGanIndex : Int
  dayZhiIndex : Int
  dayGanIndexExact : Int
  dayZhiIndexExact : Int
  dayGanIndexExact2 : Int
  dayZhiIndexExact2 : Int
  timeGanIndex : Int
  timeZhiIndex : Int
  weekIndex : Int
  terms : List Solar
  solar : Solar
  deriving Repr, Inhabited, DecidableEq

/-- index of a name in `JIE_QI_IN_USE` as the Go map `jieQi[name]` resolves it (the table is
filled in ascending order, so for a repeated key the last entry wins) -/
def termIndex (name : String) : Option Nat :=
  let l := calendar.JIE_QI_IN_USE
  let rec go (rest : List String) (i : Nat) (acc : Option Nat) : Option Nat :=
    match rest with
    | [] => acc
    | x :: xs => go xs (i + 1) (if x == name then some i else acc)
  go l 0 none

/-- `lunar.jieQi[name]`; a missing key is a nil pointer in Go (every use dereferences it → panic),
modelled by the default stamp of year -9999 that no comparison in range can match. -/
def nilSolar : Solar := ⟨-9999, 0, 0, 0, 0, 0⟩

def termByName (terms : List Solar) (name : String) : Solar :=
  match termIndex name with
  | some i => terms.getD i nilSolar
  | none => nilSolar

def normMod (a m : Int) : Int := a % m   -- Go: `x % m; if x < 0 { x += m }` = Euclidean remainder

/-- `computeYear` → (g, z, gLiChun, zLiChun, gExact, zExact) -/
def computeYear (year : Int) (solar : Solar) (terms : List Solar) : Int × Int × Int × Int × Int × Int :=
  let offset := year - 4
  let yg := normMod offset 10
  let yz := normMod offset 12
  let solarYear := solar.year
  let solarYmd := solar.toYmd
  let solarYmdHms := solar.toYmdHms
  let liChun0 := termByName terms "立春"
  let liChun := if liChun0.year ≠ solarYear then termByName terms "LI_CHUN" else liChun0
  let liChunYmd := liChun.toYmd
  let liChunYmdHms := liChun.toYmdHms
  let (g, z, gE, zE) :=
    if year = solarYear then
      let (g, z) := if strLt solarYmd liChunYmd then (yg - 1, yz - 1) else (yg, yz)
      let (gE, zE) := if strLt solarYmdHms liChunYmdHms then (yg - 1, yz - 1) else (yg, yz)
      (g, z, gE, zE)
    else if year < solarYear then
      let (g, z) := if strGe solarYmd liChunYmd then (yg + 1, yz + 1) else (yg, yz)
      let (gE, zE) := if strGe solarYmdHms liChunYmdHms then (yg + 1, yz + 1) else (yg, yz)
      (g, z, gE, zE)
    else (yg - 1, yz - 1, yg - 1, yz - 1)   -- lunar year leads the civil year (after the `fix:` commit)
  let fix := fun (v m : Int) => (if v < 0 then v + m else v) % m
  (yg, yz, fix g 10, fix z 12, fix gE 10, fix zE 12)

/-- the scan of `computeMonth`: over the Jie entries `JIE_QI_IN_USE[0,2,…,30]`; returns the
final `index` (−3 … 12). `key` renders a stamp (`ToYmd` or `ToYmdHms`). -/
def monthScan (key : Solar → List Char) (now : List Char) (terms : List Solar) :
    Nat → Nat → Option Solar → Int → Int
  | 0, _, _, index => index
  | fuel + 1, i, start, index =>
    if i ≥ calendar.JIE_QI_IN_USE.length then index else
    let jie := calendar.JIE_QI_IN_USE.getD i ""
    let end_ := termByName terms jie
    let symd := match start with | some s => key s | none => now
    if strGe now symd && strLt now (key end_) then index
    else monthScan key now terms fuel (i + 2) (some end_) (index + 1)

/-- `computeMonth` → (monthGan, monthZhi, monthGanExact, monthZhiExact) -/
def computeMonth (solar : Solar) (terms : List Solar) (yearGanLiChun yearGanExact : Int) :
    Int × Int × Int × Int :=
  let idx := monthScan Solar.toYmd solar.toYmd terms 16 0 none (-3)
  let pillar := fun (index yearGan : Int) =>
    let add : Int := if index < 0 then 1 else 0
    let offset := (((yearGan + add) % 5 + 1) * 2) % 10
    let a10 := if index < 0 then index + 10 else index
    let a12 := if index < 0 then index + 12 else index
    ((a10 + offset) % 10, (a12 + LunarUtil.BASE_MONTH_ZHI_INDEX) % 12)
  let idxE := monthScan Solar.toYmdHms solar.toYmdHms terms 16 0 none (-3)
  let (mg, mz) := pillar idx yearGanLiChun
  let (mgE, mzE) := pillar idxE yearGanExact
  (mg, mz, mgE, mzE)

/-- `LunarUtil.GetTimeZhiIndex` on `"%02d:%02d"`: the scan over odd hours 1,3,…,21 -/
def timeZhiScan (hm : List Char) : Nat → Int → Int → Int
  | 0, _, _ => 0
  | fuel + 1, i, x =>
    if i ≥ 22 then 0
    else if strGe hm (fmtHm i 0) && strLe hm (fmtHm (i + 1) 59) then x
    else timeZhiScan hm fuel (i + 2) (x + 1)

def timeZhiIndexOf (h mi : Int) : Int := timeZhiScan (fmtHm h mi) 12 1 1

/-- `computeDay` → (dayGan, dayZhi, dayGanExact, dayZhiExact, dayGanExact2, dayZhiExact2) -/
def computeDay (solar : Solar) (hour minute : Int) : Int × Int × Int × Int × Int × Int :=
  let offset := jdn solar.year solar.month solar.day - 11   -- int(noon JD − 11)
  let dg := offset % 10
  let dz := offset % 12
  let hm := fmtHm hour minute
  let late := strGe hm (fmtHm 23 0) && strLe hm (fmtHm 23 59)
  let dgE := if late then (if dg + 1 ≥ 10 then dg + 1 - 10 else dg + 1) else dg
  let dzE := if late then (if dz + 1 ≥ 12 then dz + 1 - 12 else dz + 1) else dz
  (dg, dz, dgE, dzE, dg, dz)

/-- `compute(lunar, lunarYear)`: fill in every derived field. -/
def computeAll (year month day hour minute second : Int) (solar : Solar) (ya : YearAstro) : Lunar :=
  let terms := ya.terms
  let (yg, yz, ygL, yzL, ygE, yzE) := computeYear year solar terms
  let (mg, mz, mgE, mzE) := computeMonth solar terms ygL ygE
  let (dg, dz, dgE, dzE, dg2, dz2) := computeDay solar hour minute
  let tz := timeZhiIndexOf hour minute
  let tg := (dgE % 5 * 2 + tz) % 10
  { year := year, month := month, day := day, hour := hour, minute := minute, second := second,
    yearGanIndex := yg, yearZhiIndex := yz, yearGanIndexByLiChun := ygL, yearZhiIndexByLiChun := yzL,
    yearGanIndexExact := ygE, yearZhiIndexExact := yzE,
    monthGanIndex := mg, monthZhiIndex := mz, monthGanIndexExact := mgE, monthZhiIndexExact := mzE,
    dayGanIndex := dg, dayZhiIndex := dz, dayGanIndexExact := dgE, dayZhiIndexExact := dzE,
    dayGanIndexExact2 := dg2, dayZhiIndexExact2 := dz2,
    timeGanIndex := tg, timeZhiIndex := tz, weekIndex := solar.week,
    terms := terms, solar := solar }

/-- date (year, month, day) of the integer-valued Julian Day `first` as
`NewSolarFromJulianDay(first)` sees it (noon of that day) -/
def solarOfJdn (n : Int) : Solar :=
  let (y, m, d) := fromJdn n
  ⟨y, m, d, 12, 0, 0⟩

/-- the month search of `NewLunarFromSolar`: first month with `days < dayCount`
(note: no lower guard, exactly as in Go) -/
def findLunarYmd (solar : Solar) : List MonthRec → Option (Int × Int × Int)
  | [] => some (0, 0, 0)
  | m :: rest =>
    match solar.subtract (solarOfJdn m.first) with
    | none => none
    | some days =>
      if days < m.dayCount then some (m.year, m.month, days + 1) else findLunarYmd solar rest

/-- `NewLunarFromSolar` (= `Solar.GetLunar`) -/
def Lunar.fromSolar (A : Astro) (solar : Solar) : Option Lunar :=
  let ya := A solar.year
  match findLunarYmd solar ya.months with
  | none => none
  | some (ly, lm, ld) => some (computeAll ly lm ld solar.hour solar.minute solar.second solar ya)

/-- `NewLunar(year, month, day, hour, minute, second)`; `none` = panic -/
def Lunar.fromYmdHms (A : Astro) (ly lm ld h mi s : Int) : Option Lunar :=
  let ya := A ly
  match findMonth ya.months ly lm with
  | none => none
  | some m =>
    if ld < 1 then none
    else if ld > m.dayCount then none
    else
      let noon := solarOfJdn (m.first + (ld - 1))
      match newSolar noon.year noon.month noon.day h mi s with
      | none => none
      | some solar =>
        let ya2 := if noon.year ≠ ly then A noon.year else ya
        some (computeAll ly lm ld h mi s solar ya2)

/-- `Lunar.Next(days)` -/
def Lunar.next (A : Astro) (l : Lunar) (n : Int) : Option Lunar :=
  match l.solar.nextDay n with
  | none => none
  | some s => Lunar.fromSolar A s

end Model
