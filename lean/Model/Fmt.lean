/-
Model.Fmt — model of the fixed-width renderings (`fmt.Sprintf("%04d-%02d-%02d")`, `"%02d:%02d"`)
and of `strings.Compare` on them. Strings are `List Char`; Go compares bytes, and on these
ASCII strings byte order = code-point order.
-/
import Model.Civil
namespace Model

def digitChar (d : Nat) : Char := Char.ofNat (48 + d % 10)

/-- exactly `w` decimal digits of `n`, most significant first (= `%0wd` when `n < 10^w`) -/
def fixedDigits : Nat → Nat → List Char
  | 0, _ => []
  | w + 1, n => fixedDigits w (n / 10) ++ [digitChar (n % 10)]

/-- `%0wd` for a natural number: at least `w` digits -/
def padNat (w n : Nat) : List Char :=
  if n < 10 ^ w then fixedDigits w n else Nat.toDigits 10 n

/-- `%0wd` for an integer (Go pads after the sign: `%04d` of -5 is `-005`) -/
def padInt (w : Nat) (i : Int) : List Char :=
  if i ≥ 0 then padNat w i.toNat else '-' :: padNat (w - 1) (-i).toNat

/-- `Solar.ToYmd` -/
def Solar.toYmd (s : Solar) : List Char :=
  padInt 4 s.year ++ ['-'] ++ padInt 2 s.month ++ ['-'] ++ padInt 2 s.day

/-- `"%02d:%02d"` of hour, minute (used by computeDay / computeTime / GetTimeZhiIndex) -/
def fmtHm (h mi : Int) : List Char := padInt 2 h ++ [':'] ++ padInt 2 mi

/-- `Solar.ToYmdHms` -/
def Solar.toYmdHms (s : Solar) : List Char :=
  s.toYmd ++ [' '] ++ padInt 2 s.hour ++ [':'] ++ padInt 2 s.minute ++ [':'] ++ padInt 2 s.second

/-- `strings.Compare` -/
def cmpChars : List Char → List Char → Ordering
  | [], [] => .eq
  | [], _ :: _ => .lt
  | _ :: _, [] => .gt
  | a :: as, b :: bs => if a < b then .lt else if b < a then .gt else cmpChars as bs

def strLt (a b : List Char) : Bool := cmpChars a b == .lt
def strLe (a b : List Char) : Bool := cmpChars a b != .gt
def strGe (a b : List Char) : Bool := cmpChars a b != .lt
def strGt (a b : List Char) : Bool := cmpChars a b == .gt

/-- parse `k` decimal digits -/
def parseDigits : List Char → Option Nat
  | [] => some 0
  | cs => cs.foldl (fun acc c => match acc with
      | none => none
      | some a => if '0' ≤ c ∧ c ≤ '9' then some (a * 10 + (c.toNat - 48)) else none) (some 0)

/-- parse `YYYY-MM-DD HH:MM:SS` (fixed positions) back to the six fields -/
def parseYmdHms (cs : List Char) : Option Solar :=
  match cs with
  | [y1, y2, y3, y4, '-', m1, m2, '-', d1, d2, ' ', h1, h2, ':', i1, i2, ':', s1, s2] =>
    match parseDigits [y1, y2, y3, y4], parseDigits [m1, m2], parseDigits [d1, d2],
          parseDigits [h1, h2], parseDigits [i1, i2], parseDigits [s1, s2] with
    | some y, some m, some d, some h, some i, some s => some ⟨y, m, d, h, i, s⟩
    | _, _, _, _, _, _ => none
  | _ => none

def parseYmd (cs : List Char) : Option (Int × Int × Int) :=
  match cs with
  | [y1, y2, y3, y4, '-', m1, m2, '-', d1, d2] =>
    match parseDigits [y1, y2, y3, y4], parseDigits [m1, m2], parseDigits [d1, d2] with
    | some y, some m, some d => some (y, m, d)
    | _, _, _ => none
  | _ => none

end Model
