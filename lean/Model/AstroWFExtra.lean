/-
Model.AstroWFExtra — the oracle checks that depend on the regenerated tables (kept apart from
`Model.AstroWF` so that the per-block kernel obligations do not depend on `Gen.Tables`).
-/
import Model.AstroWF
import Model.Lunar
namespace Model

/-- the relabelling constants of `compute` fall inside the excluded year ranges -/
def reformConstsOk : Bool :=
  reformConsts.length == 4 && decide (rcA < rcB) && decide (rcB < rcC) && decide (rcC < rcD) &&
  isReformYear (fromJdn rcA).1 && isReformYear (fromJdn rcB).1 &&
  isReformYear (fromJdn rcC).1 && isReformYear (fromJdn rcD).1

/-- the table is what the model of `compute` derives from the raw day numbers -/
def monthsFromRawOk (y : Int) (ya : YearAstro) : Bool :=
  computeMonths y ya.hs ya.jq == ya.months && decide (ya.hs.length = 16) && decide (ya.jq.length = 26)

/-- diagnostic bit mask used by the driver (`wf y`) -/
def yearDiag (y : Int) (ya ya' : YearAstro) : List Bool :=
  [monthsCoreOk y ya.months, monthsFromRawOk y ya, (!termsInRange y || termsOk y ya.terms),
   (isReformYear y || yearStructOk y ya.months), pairCoreOk y ya ya',
   (isReformYear y || isReformYear (y + 1) || pairStructOk y ya ya'), reformConstsOk, pairImageOk y ya ya', noLeadOk y ya.months, leapRuleOk y ya]


end Model
