/-
Model.MonthTable — the `LunarYear` accessors over a 15-month table and `LunarMonth.Next`.
No dependency on the regenerated tables, so that the kernel-checked oracle obligations
(`Gen/AstroK`) are not invalidated by a change to an unrelated data table.
-/
import Model.Astro
namespace Model

/-! ### LunarYear accessors over a month table -/

/-- `LunarYear.GetMonth(m)` -/
def findMonth (months : List MonthRec) (year m : Int) : Option MonthRec :=
  months.find? (fun r => r.year == year && r.month == m)

/-- `LunarYear.GetMonthsInYear` -/
def monthsInYear (months : List MonthRec) (year : Int) : List MonthRec :=
  months.filter (fun r => r.year == year)

/-- `LunarYear.GetDayCount` -/
def yearDayCount (months : List MonthRec) (year : Int) : Int :=
  (monthsInYear months year).foldl (fun a r => a + r.dayCount) 0

/-- `LunarYear.GetLeapMonth` -/
def leapMonthOf (months : List MonthRec) (year : Int) : Int :=
  match months.find? (fun r => r.year == year && decide (r.month < 0)) with
  | some r => -r.month
  | none => 0

/-- position of (year, month) in a table — the inner search loops of `LunarMonth.Next`
(`index` keeps its previous value, initially 0, when nothing matches) -/
def indexIn (months : List MonthRec) (iy im : Int) (dflt : Nat) : Nat :=
  match months.findIdx? (fun r => r.year == iy && r.month == im) with
  | some i => i
  | none => dflt

/-- `LunarMonth.Next(n)` for n > 0: loop state (rest, ny, iy, im, index); fuel bounds the walk. -/
def nextFwd (A : Astro) : Nat → Int → Int → Int → Int → Nat → Option MonthRec
  | 0, _, _, _, _, _ => none
  | fuel + 1, rest, ny, iy, im, index =>
    let months := (A ny).months
    let index := indexIn months iy im index
    let more : Int := (months.length : Int) - index - 1
    if rest < more then months[(index + rest.toNat)]?
    else
      match months.getLast? with
      | none => none
      | some last => nextFwd A fuel (rest - more) (ny + 1) last.year last.month index

def nextBwd (A : Astro) : Nat → Int → Int → Int → Int → Nat → Option MonthRec
  | 0, _, _, _, _, _ => none
  | fuel + 1, rest, ny, iy, im, index =>
    let months := (A ny).months
    let index := indexIn months iy im index
    if rest ≤ index then months[(index - rest.toNat)]?
    else
      match months.head? with
      | none => none
      | some first => nextBwd A fuel (rest - index) (ny - 1) first.year first.month index

/-- `LunarMonth.Next(n)`; `none` = Go returns nil -/
def monthNext (A : Astro) (year month n : Int) : Option MonthRec :=
  if n = 0 then findMonth (A year).months year month
  else if n > 0 then nextFwd A (n.toNat + 2) n year year month 0
  else nextBwd A (n.natAbs + 2) (-n) year year month 0


end Model
