/-
Model.CivilFest — zodiac sign and civil festivals (`Solar.GetXingZuo`, `GetFestivals`,
`GetOtherFestivals`). Thresholds and tables are regenerated from the source (`Gen.Tables`).
-/
import Model.Civil
import Gen.Tables
namespace Model
open Gen.Tables

def lits (tbl : List (String × List Int)) (fn : String) : List Int :=
  match tbl.find? (fun p => p.1 == fn) with
  | some p => p.2
  | none => []

def litAt (l : List Int) (i : Nat) : Int := l.getD i 0

/-- integer literals of `Solar.GetXingZuo` in source order:
`[11, 100, lo0, hi0, 0, lo1, hi1, 1, …, lo8, hi8, 8, 1222, 119, 9, 218, 10]` -/
def xzLits : List Int := lits calendar.intLits "Solar.GetXingZuo"

/-- the nine `lo ≤ y ≤ hi → index` arms -/
def xzScan (y : Int) : Nat → Nat → Option Int
  | 0, _ => none
  | k + 1, i =>
    if litAt xzLits i ≤ y ∧ y ≤ litAt xzLits (i + 1) then some (litAt xzLits (i + 2))
    else xzScan y k (i + 3)

/-- `Solar.GetXingZuo` as an index into `XINGZUO` -/
def xingZuoIndex (m d : Int) : Int :=
  let y := m * litAt xzLits 1 + d
  match xzScan y 9 2 with
  | some i => i
  | none =>
    if y ≥ litAt xzLits 29 ∨ y ≤ litAt xzLits 30 then litAt xzLits 31
    else if y ≤ litAt xzLits 32 then litAt xzLits 33
    else litAt xzLits 0

def xingZuo (m d : Int) : String := SolarUtil.XINGZUO.getD (xingZuoIndex m d).toNat ""

/-- lookup in a Go map literal whose keys are canonical "a-b-c" integer strings -/
def lookupI {α : Type} (keys : List (List Int)) (entries : List (String × α)) (k : List Int) : Option α :=
  match (keys.zip entries).find? (fun p => p.1 == k) with
  | some p => some p.2.2
  | none => none

/-- `Solar.GetFestivals` -/
def solarFestivals (y m d : Int) : List String :=
  let w := week y m d
  let weeks := (d + 6) / 7      -- int(math.Ceil(day / 7)) for day ≥ 1
  (match lookupI SolarUtil.FESTIVAL_ikeys SolarUtil.FESTIVAL [m, d] with | some f => [f] | none => []) ++
  (match lookupI SolarUtil.WEEK_FESTIVAL_ikeys SolarUtil.WEEK_FESTIVAL [m, weeks, w] with | some f => [f] | none => []) ++
  (if d + 7 > daysOfMonth y m then
     (match lookupI SolarUtil.WEEK_FESTIVAL_ikeys SolarUtil.WEEK_FESTIVAL [m, 0, w] with | some f => [f] | none => [])
   else [])

/-- `Solar.GetOtherFestivals` -/
def solarOtherFestivals (m d : Int) : List String :=
  match lookupI SolarUtil.OTHER_FESTIVAL_ikeys SolarUtil.OTHER_FESTIVAL [m, d] with
  | some l => l
  | none => []

end Model
