/-
Model.Holiday — model of `HolidayUtil`: the 18-character record string, the substring-search based
lookups (by day / month / year prefix and by target suffix), `Fix`, and the workday stepping and pay
rate of `calendar.Solar`. Strings are `List Char`; the state `Fix` mutates (`dataInUse`,
`namesInUse`) is threaded explicitly.
-/
import Model.Civil
import Model.Fmt
namespace Model

def recSize : Nat := 18

structure Holiday where
  day : List Char       -- "YYYY-MM-DD"
  name : String
  work : Bool
  target : List Char    -- "YYYY-MM-DD"
  deriving DecidableEq, Repr, Inhabited

structure HolidayState where
  data : List Char
  names : List String
  deriving Repr, Inhabited

def isPrefix : List Char → List Char → Bool
  | [], _ => true
  | _ :: _, [] => false
  | a :: as, b :: bs => a == b && isPrefix as bs

/-- `strings.Index` : position of the first occurrence of `key` in `s` -/
def indexOf (key : List Char) : List Char → Nat → Option Nat
  | [], i => if key.isEmpty then some i else none
  | c :: cs, i => if isPrefix key (c :: cs) then some i else indexOf key cs (i + 1)

/-- `strings.LastIndex` -/
def lastIndexOf (key : List Char) : List Char → Nat → Option Nat → Option Nat
  | [], i, acc => if key.isEmpty then some i else acc
  | c :: cs, i, acc => lastIndexOf key cs (i + 1) (if isPrefix key (c :: cs) then some i else acc)

def isSuffix (key s : List Char) : Bool := isPrefix key.reverse s.reverse

/-- with dashes: "YYYYMMDD" → "YYYY-MM-DD" (`Holiday.SetDay` when the argument has no '-') -/
def dashed (d : List Char) : List Char :=
  if d.contains '-' then d else d.take 4 ++ ['-'] ++ (d.drop 4).take 2 ++ ['-'] ++ d.drop 6

def undash (d : List Char) : List Char := d.filter (· != '-')

/-- `buildHolidayForward` on a string starting with a record; `none` = panic (index out of range) -/
def buildForward (st : HolidayState) (s : List Char) : Option Holiday :=
  if s.length < recSize then none else
  let day := s.take 8
  let nameIdx := (s.getD 8 '0').toNat - 48
  if (s.getD 8 '0').toNat < 48 ∨ nameIdx ≥ st.names.length then none else
  some { day := dashed day, name := st.names.getD nameIdx "", work := s.getD 9 ' ' == '0', target := dashed ((s.drop 10).take 8) }

/-- `findForward` -/
def skipToPrefix (key : List Char) : Nat → List Char → List Char
  | 0, r => r
  | fuel + 1, r =>
    if r.length < recSize then r
    else if isPrefix key r then r
    else skipToPrefix key fuel (r.drop recSize)

def findForward (data key : List Char) : List Char :=
  match indexOf key data 0 with
  | none => []
  | some start =>
    let right := data.drop start
    let n := right.length % recSize
    let right := if n > 0 then right.drop n else right
    skipToPrefix key (right.length / recSize + 1) right

/-- `findHolidaysForward` -/
def collectForward (st : HolidayState) (key : List Char) : Nat → List Char → Option (List Holiday)
  | 0, _ => some []
  | fuel + 1, s =>
    if !isPrefix key s then some []
    else
      match buildForward st s with
      | none => none
      | some h => (collectForward st key fuel (s.drop recSize)).map (h :: ·)

def findHolidaysForward (st : HolidayState) (key : List Char) : Option (List Holiday) :=
  let s := findForward st.data key
  if s.isEmpty then some [] else collectForward st key (s.length / recSize + 2) s

/-- `findBackward` -/
def skipToSuffix (key : List Char) : Nat → List Char → List Char
  | 0, l => l
  | fuel + 1, l =>
    if l.length < recSize then l
    else if isSuffix key l then l
    else skipToSuffix key fuel (l.take (l.length - recSize))

def findBackward (data key : List Char) : List Char :=
  match lastIndexOf key data 0 none with
  | none => []
  | some start =>
    let left := data.take (start + key.length)
    let n := left.length % recSize
    let left := if n > 0 then left.take (left.length - n) else left
    skipToSuffix key (left.length / recSize + 1) left

def buildBackward (st : HolidayState) (s : List Char) : Option Holiday :=
  if s.length < recSize then none else buildForward st (s.drop (s.length - recSize))

def collectBackward (st : HolidayState) (key : List Char) : Nat → List Char → List Holiday → Option (List Holiday)
  | 0, _, acc => some acc
  | fuel + 1, s, acc =>
    if !isSuffix key s then some acc
    else
      match buildBackward st s with
      | none => none
      | some h => collectBackward st key fuel (s.take (s.length - recSize)) (h :: acc)

/-- `findHolidaysBackward` (after the `fix:` commit): every aligned record that has `key` as a suffix -/
def alignedRecords : Nat → List Char → List (List Char)
  | 0, _ => []
  | fuel + 1, s => if s.length < recSize then [] else s.take recSize :: alignedRecords fuel (s.drop recSize)

def findHolidaysBackward (st : HolidayState) (key : List Char) : Option (List Holiday) :=
  ((alignedRecords (st.data.length / recSize + 1) st.data).filter (fun r => isSuffix key r)).mapM (buildForward st)

def ymdKey (y m d : Int) : List Char := padInt 4 y ++ padInt 2 m ++ padInt 2 d
def ymKey (y m : Int) : List Char := padInt 4 y ++ padInt 2 m
def yKey (y : Int) : List Char := padInt 4 y

/-- `GetHoliday(ymd)` / `GetHolidayByYmd`: `some none` = nil -/
def getHoliday (st : HolidayState) (key : List Char) : Option (Option Holiday) :=
  (findHolidaysForward st key).map (·.head?)

/-- insertion position of a new record: skip the aligned records whose 8-digit day is smaller -/
def insertSorted (day segment : List Char) : Nat → List Char → List Char
  | 0, data => segment ++ data
  | fuel + 1, data =>
    if data.length ≥ recSize && cmpChars (data.take 8) day == .lt then data.take recSize ++ insertSorted day segment fuel (data.drop recSize)
    else segment ++ data

/-- `strings.Replace(s, old, new, -1)` for non-empty `old`: non-overlapping, left to right -/
def replaceAll (old new : List Char) (s : List Char) : List Char :=
  let rec go : Nat → List Char → List Char
    | 0, s => s
    | fuel + 1, s =>
      match s with
      | [] => []
      | c :: cs => if !old.isEmpty && isPrefix old (c :: cs) then new ++ go fuel ((c :: cs).drop old.length) else c :: go fuel cs
  go (s.length + 1) s

/-- `Fix(nms, dt)` (after the `fix:` commit: new records are inserted in date order): `nms = none` ⇔ nil -/
def fixLoop (names : List String) : Nat → List Char → List Char → Option (List Char)
  | 0, _, data => some data
  | fuel + 1, dt, data =>
    if dt.length < recSize then some data else
    let segment := dt.take recSize
    let day := segment.take 8
    let remove := segment.getD 8 ' ' == '~'
    match getHoliday ⟨data, names⟩ day with
    | none => none
    | some none =>
      fixLoop names fuel (dt.drop recSize) (if remove then data else insertSorted day segment (data.length / recSize + 1) data)
    | some (some h) =>
      match names.findIdx? (· == h.name) with
      | none => fixLoop names fuel (dt.drop recSize) data
      | some nameIndex =>
        let old := day ++ [Char.ofNat (nameIndex + 48)] ++ [if h.work then '0' else '1'] ++ undash h.target
        fixLoop names fuel (dt.drop recSize) (replaceAll old (if remove then [] else segment) data)

def fix (st : HolidayState) (nms : Option (List String)) (dt : List Char) : Option HolidayState :=
  let names := match nms with | some n => n | none => st.names
  if dt.isEmpty then some ⟨st.data, names⟩
  else (fixLoop names (dt.length / recSize + 1) dt st.data).map fun data => ⟨data, names⟩

/-- a day works iff it is a recorded make-up day, or unrecorded and Monday–Friday -/
def isWorkday (st : HolidayState) (s : Solar) : Option Bool :=
  match getHoliday st (ymdKey s.year s.month s.day) with
  | none => none
  | some (some h) => some h.work
  | some none => some (!(s.week == 0 || s.week == 6))

/-- `Solar.Next(days, true)`: the loop stepping one day at a time until |days| working days passed -/
def workLoop (st : HolidayState) (add : Int) : Nat → Nat → Solar → Option Solar
  | _, 0, o => some o
  | 0, _ + 1, _ => none
  | fuel + 1, rest + 1, o =>
    match o.nextDay add with
    | none => none
    | some o' =>
      match isWorkday st o' with
      | none => none
      | some true => workLoop st add fuel rest o'
      | some false => workLoop st add fuel (rest + 1) o'

/-- `fuel` bounds the number of calendar days walked (the Go loop is unbounded) -/
def nextWorkday (st : HolidayState) (s : Solar) (days : Int) (fuel : Nat) : Option Solar :=
  if days = 0 then some s
  else workLoop st (if days < 0 then -1 else 1) fuel days.natAbs s

end Model
