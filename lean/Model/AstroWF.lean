/-
Model.AstroWF — decidable well-formedness of the astronomy oracle, as Boolean checkers over the
packed per-year records (`Gen/Astro`). `decide +kernel` evaluates `checkBlock` on every
regenerated century block (generated obligations in `Gen/AstroK`); the general theorems in
`Proofs/` and `Props/` are stated over any oracle satisfying the corresponding `Prop`s.

Checker style (measured in this toolchain): index-driven `item k && rest`, structural recursion
on lists, no accumulators, no well-founded recursion.
-/
import Model.MonthTable
namespace Model

def allPairs (f : Int → Int → Bool) : List Int → Bool
  | [] => true
  | [_] => true
  | a :: b :: r => f a b && allPairs f (b :: r)

def allAdj {α : Type} (f : α → α → Bool) : List α → Bool
  | [] => true
  | [_] => true
  | a :: b :: r => f a b && allAdj f (b :: r)

/-- no two records carry the same (year, month) label -/
def labelsDistinct : List MonthRec → Bool
  | [] => true
  | r :: rest => rest.all (fun q => !(q.year == r.year && q.month == r.month)) && labelsDistinct rest

/-- the lunar years the property statements exclude from the structural claims (the two modelled
month-renaming reforms, AD 8–23 and AD 236–240); `reformConstsOk` ties them to the constants -/
def isReformYear (y : Int) : Bool :=
  (decide (8 ≤ y) && decide (y ≤ 23)) || (decide (236 ≤ y) && decide (y ≤ 240))

/-- does the month record contain at least one day of civil year `y`? -/
def overlapsCivil (y : Int) (r : MonthRec) : Bool :=
  decide (jdn y 1 1 < r.first + r.dayCount) && decide (r.first ≤ jdn y 12 31)

/-- core shape of the 15-month table of lunar year `y` (every year, reforms included):
what the conversions need -/
def monthsCoreOk (y : Int) (ms : List MonthRec) : Bool :=
  decide (ms.length = 15) &&
  ms.all (fun r => decide (28 ≤ r.dayCount) && decide (r.dayCount ≤ 30) &&
                   (r.year == y - 1 || r.year == y || r.year == y + 1) &&
                   r.month != 0 && decide (-12 ≤ r.month) && decide (r.month ≤ 12) &&
                   decide (1 ≤ r.index) && decide (r.index ≤ 15) &&
                   decide (1721000 ≤ r.first)) &&
  allAdj (fun a b => b.first == a.first + a.dayCount && decide (a.year ≤ b.year)) ms &&
  labelsDistinct ms &&
  (match ms.head?, ms.getLast? with
   | some h, some l => decide (h.first ≤ jdn y 1 1) && decide (jdn y 12 31 < l.first + l.dayCount)
   | _, _ => false)

def stampValid (s : Solar) : Bool := s.valid && decide (0 ≤ s.year) && decide (s.year ≤ 9999)

/-- numeric key with the order of the printed form `YYYY-MM-DD HH:MM:SS` -/
def Solar.key (s : Solar) : Int :=
  ((((s.year * 100 + s.month) * 100 + s.day) * 100 + s.hour) * 100 + s.minute) * 100 + s.second

/-- the 31 term stamps of civil year `y`: valid, strictly increasing, 14.6–15.8 days apart,
winter solstice in December of y−1, Lichun in year y -/
def termsOk (y : Int) (ts : List Solar) : Bool :=
  decide (ts.length = 31) && ts.all stampValid &&
  allAdj (fun a b => decide (a.key < b.key) &&
            decide (1261440 ≤ b.stamp - a.stamp) && decide (b.stamp - a.stamp ≤ 1365120)) ts &&
  (match ts[1]?, ts[4]? with
   | some dz, some lc => dz.year == y - 1 && dz.month == 12 && lc.year == y
   | _, _ => false)

/-- (outside the modelled reforms) in-year months are 1..12 in order with at most one leap
month placed directly after its namesake -/
def inYearSeqOk : Int → Bool → List Int → Bool
  | k, _, [] => k == 12                       -- ended after month 12 (or its leap)
  | k, leapUsed, m :: rest =>
    if m == k + 1 then inYearSeqOk (k + 1) leapUsed rest
    else if m == -k && !leapUsed && decide (1 ≤ k) then inYearSeqOk k true rest
    else false

def yearStructOk (y : Int) (ms : List MonthRec) : Bool :=
  let inY := monthsInYear ms y
  let total := yearDayCount ms y
  ms.all (fun r => r.dayCount == 29 || r.dayCount == 30) &&
  inYearSeqOk 0 false (inY.map (·.month)) &&
  ((decide (353 ≤ total) && decide (total ≤ 355)) || (decide (383 ≤ total) && decide (total ≤ 385))) &&
  leapMonthOf ms y == (match inY.find? (fun r => decide (r.month < 0)) with | some r => -r.month | none => 0) &&
  decide ((inY.length : Int) = if leapMonthOf ms y == 0 then 12 else 13)

/-- (`monthsFromRawOk` — the table equals the model of `compute` applied to the raw day numbers — is
checked for every year by the compiled driver op `ly`, not in the kernel: the state-threading
labelling loop is too slow under kernel reduction, see DESIGN §1.1) -/
def termsInRange (y : Int) : Bool := decide (1 ≤ y) && decide (y ≤ 9998)

/-- a month containing days of civil year `y` is labelled `y+1` (the lunar year leads the civil
year) only after that year's Lichun day -/
def leadOk (y : Int) (ya : YearAstro) : Bool :=
  ya.months.all fun r => !overlapsCivil y r || decide (r.year ≤ y) ||
    (termsInRange y && (match ya.terms[4]? with | some lc => decide (lc.jdn < r.first) | none => false))

def yearOk (y : Int) (ya : YearAstro) : Bool :=
  monthsCoreOk y ya.months && leadOk y ya &&
  (!termsInRange y || termsOk y ya.terms) &&
  (isReformYear y || yearStructOk y ya.months)

/-- every record of `ms` labelled `Y` (and satisfying `p`) is found in `ms'` (the table of lunar
year `Y`) with the same first day and length. The table-relative `index` is not compared. -/
def recordsAgree (p : MonthRec → Bool) (Y : Int) (ms ms' : List MonthRec) : Bool :=
  ms.all fun r => r.year != Y || !p r ||
    (match findMonth ms' Y r.month with
     | some q => q.first == r.first && q.dayCount == r.dayCount
     | none => false)

def listDrop {α : Type} : Nat → List α → List α
  | 0, l => l
  | _ + 1, [] => []
  | n + 1, _ :: l => listDrop n l

def listTake {α : Type} : Nat → List α → List α
  | 0, _ => []
  | _ + 1, [] => []
  | n + 1, a :: l => a :: listTake n l

/-- tables of adjacent civil years give the same instant for the terms they share -/
def termsShared (ts ts' : List Solar) : Bool :=
  listDrop 25 ts == listTake 6 (listDrop 1 ts') && ts'.head? == ts[24]?

def isPrefixOf' : List MonthRec → List MonthRec → Bool
  | [], _ => true
  | _ :: _, [] => false
  | a :: as, b :: bs =>
    (a.year == b.year && a.month == b.month && a.first == b.first && a.dayCount == b.dayCount) &&
    isPrefixOf' as bs   -- `index` is not compared: it is table-relative

/-- core pair condition (every year): the months of table `y` that contain days of civil year `y`
and are labelled `y+1` exist identically in table `y+1`; the months of table `y+1` that contain
days of civil year `y+1` and are labelled `y` exist identically in table `y`; shared terms agree -/
def pairCoreOk (y : Int) (ya ya' : YearAstro) : Bool :=
  recordsAgree (overlapsCivil y) (y + 1) ya.months ya'.months &&
  recordsAgree (overlapsCivil (y + 1)) y ya'.months ya.months &&
  (!termsInRange y || !termsInRange (y + 1) || termsShared ya.terms ya'.terms)

/-- structural pair condition (neither year in a reform): the tables agree on every month they
share, and glue: the months of table `y` labelled `y+1` are a prefix of year `y+1`'s own months and
the months of table `y+1` labelled `y` are a suffix of year `y`'s own months -/
def pairStructOk (y : Int) (ya ya' : YearAstro) : Bool :=
  recordsAgree (fun _ => true) (y + 1) ya.months ya'.months &&
  recordsAgree (fun _ => true) y ya'.months ya.months &&
  isPrefixOf' (monthsInYear ya.months (y + 1)) (monthsInYear ya'.months (y + 1)) &&
  isPrefixOf' (monthsInYear ya'.months y).reverse (monthsInYear ya.months y).reverse &&
  -- the two tables really overlap (share at least one month), so walks can cross from one to the other
  (!(monthsInYear ya'.months y).isEmpty || !(monthsInYear ya.months (y + 1)).isEmpty)


/-- index of the record containing day number `n` -/
def recIndexOf (n : Int) : List MonthRec → Nat → Option Nat
  | [], _ => none
  | r :: rest, i => if decide (r.first ≤ n) && decide (n < r.first + r.dayCount) then some i else recIndexOf n rest (i + 1)

/-- does the month `r` contain the civil day of some major term (odd entries of the 31-term table)? -/
def hasMajorTerm (r : MonthRec) : List Solar → Nat → Bool
  | [], _ => false
  | t :: rest, k =>
    (k % 2 == 1 && decide (r.first ≤ t.jdn) && decide (t.jdn < r.first + r.dayCount)) || hasMajorTerm r rest (k + 1)

/-- first position ≥ `i` (and < `stop`) whose month holds no major term -/
def firstNoMajor (ts : List Solar) : List MonthRec → Nat → Nat → Option Nat
  | [], _, _ => none
  | r :: rest, i, stop =>
    if i ≥ stop then none
    else if !hasMajorTerm r ts 0 then some i else firstNoMajor ts rest (i + 1) stop

/-- months i0..i1-1 carry the numbers 11,12,1,…,10 in order, with the month at `leapPos` (if any)
repeating the number before it as a leap month -/
def spanNumbered : List MonthRec → Nat → Option Nat → Int → Bool
  | [], _, _, _ => true
  | r :: rest, i, leapPos, prev =>
    if leapPos == some i then r.month == -prev && spanNumbered rest (i + 1) leapPos prev
    else
      let expect := if prev == 12 then 1 else prev + 1
      r.month == expect && spanNumbered rest (i + 1) leapPos expect

/-- the no-major-term rule for lunar year `y` on the public data (month table + accurate term
instants): the months holding the two winter solstices are numbered 11; there are 12 or 13 months
from one to the next; with 13, exactly the first month without a major term is the leap month -/
def leapRuleOk (y : Int) (ya : YearAstro) : Bool :=
  match ya.terms[1]?, ya.terms[25]? with
  | some dz0, some dz1 =>
    match recIndexOf dz0.jdn ya.months 0, recIndexOf dz1.jdn ya.months 0 with
    | some i0, some i1 =>
      let n := i1 - i0
      let span := listTake n (listDrop i0 ya.months)
      let after := listDrop (i0 + 1) ya.months
      (match ya.months[i0]?, ya.months[i1]? with
       | some a, some b => a.month == 11 && a.year == y - 1 && b.month == 11 && b.year == y
       | _, _ => false) &&
      (if n == 12 then span.all (fun r => decide (r.month > 0)) && spanNumbered (listDrop 1 span) 1 none 11
       else if n == 13 then
         (match firstNoMajor ya.terms after (i0 + 1) i1 with
          | some j => spanNumbered (listDrop 1 span) (i0 + 1) (some j) 11
          | none => false)
       else false)
    | _, _ => false
  | _, _ => false

/-- no month containing a day of civil year `y` is labelled with lunar year `y+1` -/
def noLeadOk (y : Int) (ms : List MonthRec) : Bool :=
  ms.all fun r => !overlapsCivil y r || decide (r.year ≤ y)

/-- extra agreement needed for "accepted lunar triples are images of civil days": the months of
table `y` labelled `y` holding days of civil year `y+1` appear identically in table `y+1`, and the
months of table `y+1` labelled `y+1` holding days of civil year `y` appear identically in table `y` -/
def pairImageOk (y : Int) (ya ya' : YearAstro) : Bool :=
  recordsAgree (overlapsCivil (y + 1)) y ya.months ya'.months &&
  recordsAgree (overlapsCivil y) (y + 1) ya'.months ya.months

def pairOk (y : Int) (ya ya' : YearAstro) : Bool :=
  (if isReformYear y || isReformYear (y + 1) then
     recordsAgree (overlapsCivil y) (y + 1) ya.months ya'.months &&
     recordsAgree (overlapsCivil (y + 1)) y ya'.months ya.months
   else pairStructOk y ya ya') &&
  pairImageOk y ya ya' &&
  (!termsInRange y || !termsInRange (y + 1) || termsShared ya.terms ya'.terms)

/-- all checks for a block of consecutive packed year records starting at lunar year `base` -/
def checkBlock (base : Int) : List (Nat × Nat) → Bool
  | [] => true
  | [p] => yearOk base (decodeYear base p)
  | p :: q :: rest =>
    yearOk base (decodeYear base p) &&
    pairOk base (decodeYear base p) (decodeYear (base + 1) q) &&
    checkBlock (base + 1) (q :: rest)


/-- years for which the statement claims the purely astronomical leap rule -/
def leapRuleRange (y : Int) : Bool := decide (1929 ≤ y) && decide (y ≤ 3000)

/-- the no-major-term rule for every year of a block that lies in 1929..3000 -/
def checkLeapBlock (base : Int) : List (Nat × Nat) → Bool
  | [] => true
  | p :: rest => (!leapRuleRange base || leapRuleOk base (decodeYear base p)) && checkLeapBlock (base + 1) rest

end Model
