/-
Model.Week — civil week / month / season / half-year / year units
(`SolarWeek`, `SolarMonth`, `SolarSeason`, `SolarHalfYear`, `SolarYear`), after the `fix:` commits
(GetWeeksOfMonth offset wrap, SolarWeek.Next result variable, GetDaysInMonth assertion,
October 1582 handling in GetIndex and in the last-day step of Next).
-/
import Model.Civil
namespace Model

structure SolarWeek where
  year : Int
  month : Int
  day : Int
  start : Int
  deriving DecidableEq, Repr, Inhabited, BEq

def wrap7 (x : Int) : Int := if x < 0 then x + 7 else x

/-- `SolarUtil.GetWeeksOfMonth` (after the fix) -/
def weeksOfMonth (y m start : Int) : Int :=
  (daysOfMonth y m + wrap7 (week y m 1 - start) + 6) / 7

/-- `SolarWeek.GetIndex` : `ceil((day + offset) / 7)` -/
def SolarWeek.index (w : SolarWeek) : Int :=
  let day := if w.year = 1582 ∧ w.month = 10 ∧ w.day > 4 then w.day - 10 else w.day   -- after the `fix:` commit
  (day + wrap7 (week w.year w.month 1 - w.start) + 6) / 7

/-- `SolarWeek.GetIndexInYear` -/
def SolarWeek.indexInYear (w : SolarWeek) : Option Int :=
  match daysInYear w.year w.month w.day with
  | none => none
  | some diy => some ((diy + wrap7 (week w.year 1 1 - w.start) + 6) / 7)

/-- `SolarWeek.GetFirstDay` -/
def SolarWeek.firstDay (w : SolarWeek) : Option Solar :=
  match newSolarYmd w.year w.month w.day with
  | none => none
  | some c => c.nextDay (-(wrap7 (c.week - w.start)))

def daysFrom (f : Solar) : Nat → Int → List (Option Solar)
  | 0, _ => []
  | k + 1, i => f.nextDay i :: daysFrom f k (i + 1)

/-- `SolarWeek.GetDays`: the seven days (none = panic) -/
def SolarWeek.days (w : SolarWeek) : Option (List Solar) :=
  match w.firstDay with
  | none => none
  | some f => (some f :: daysFrom f 6 1).mapM id

/-- `SolarWeek.GetDaysInMonth` -/
def SolarWeek.daysInMonth (w : SolarWeek) : Option (List Solar) :=
  w.days.map (·.filter (fun d => d.month == w.month))

/-- `SolarWeek.GetFirstDayInMonth` -/
def SolarWeek.firstDayInMonth (w : SolarWeek) : Option (Option Solar) :=
  w.days.map (·.find? (fun d => d.month == w.month))

def weekOf (c : Solar) (start : Int) : SolarWeek := ⟨c.year, c.month, c.day, start⟩

/-- loop state of `SolarWeek.Next(n, true)`: current date `c`, current `week`, current `month` -/
def nextSepLoop (start : Int) (plus : Bool) : Nat → Solar → SolarWeek → Int → Option SolarWeek
  | 0, _, week, _ => some week
  | k + 1, c, _, month =>
    match c.nextDay (if plus then 7 else -7) with
    | none => none
    | some c1 =>
      let week := weekOf c1 start
      if month ≠ week.month then
        let index := week.index
        if plus then
          if index = 1 then
            match week.firstDay with
            | none => none
            | some fd =>
              let week2 := weekOf fd start
              nextSepLoop start plus k c1 week2 week2.month
          else
            match newSolarYmd week.year week.month 1 with
            | none => none
            | some c2 => nextSepLoop start plus k c2 (weekOf c2 start) week.month
        else
          if weeksOfMonth week.year week.month start = index then
            match week.firstDay with
            | none => none
            | some fd =>
              match fd.nextDay 6 with
              | none => none
              | some ld =>
                let week2 := weekOf ld start
                nextSepLoop start plus k c1 week2 week2.month
          else
            match (newSolarYmd week.year week.month 1).bind (fun f => f.nextDay (daysOfMonth week.year week.month - 1)) with
            | none => none
            | some c2 => nextSepLoop start plus k c2 (weekOf c2 start) week.month
      else nextSepLoop start plus k c1 week month

/-- `SolarWeek.Next(weeks, separateMonth)` -/
def SolarWeek.next (w : SolarWeek) (weeks : Int) (separateMonth : Bool) : Option SolarWeek :=
  if weeks = 0 then some w
  else
    match newSolarYmd w.year w.month w.day with
    | none => none
    | some c =>
      if separateMonth then
        nextSepLoop w.start (decide (weeks > 0)) weeks.natAbs c (weekOf c w.start) w.month
      else
        match c.nextDay (weeks * 7) with
        | none => none
        | some c1 => some (weekOf c1 w.start)

/-- `SolarMonth.GetDays` -/
def monthDays (y m : Int) : Option (List Solar) :=
  match newSolarYmd y m 1 with
  | none => none
  | some f => (some f :: daysFrom f (daysOfMonth y m - 1).toNat 1).mapM id

/-- `SolarMonth.GetWeeks(start)`: loop `push week; week = week.Next(1,false); stop when the new
week's first day is in a later year or a later month number` -/
def monthWeeksLoop (y m : Int) : Nat → SolarWeek → Option (List SolarWeek)
  | 0, _ => some []
  | k + 1, w =>
    match w.next 1 false with
    | none => none
    | some w1 =>
      match w1.firstDay with
      | none => none
      | some fd =>
        if fd.year > y ∨ fd.month > m then some [w]
        else (monthWeeksLoop y m k w1).map (w :: ·)

def monthWeeks (y m start : Int) : Option (List SolarWeek) :=
  monthWeeksLoop y m 8 ⟨y, m, 1, start⟩

/-- `SolarSeason.GetIndex` = ceil(month/3); `SolarHalfYear.GetIndex` = ceil(month/6) -/
def seasonIndex (m : Int) : Int := (m + 2) / 3
def halfYearIndex (m : Int) : Int := (m + 5) / 6

def seasonMonths (y m : Int) : List (Int × Int) :=
  (List.range 3).map fun (i : Nat) => (y, 3 * (seasonIndex m - 1) + Int.ofNat i + 1)
def halfYearMonths (y m : Int) : List (Int × Int) :=
  (List.range 6).map fun (i : Nat) => (y, 6 * (halfYearIndex m - 1) + Int.ofNat i + 1)
def yearMonths (y : Int) : List (Int × Int) :=
  (List.range 12).map fun (i : Nat) => nextYm y 1 (Int.ofNat i)

def seasonNext (y m n : Int) : Int × Int := nextYm y m (3 * n)
def halfYearNext (y m n : Int) : Int × Int := nextYm y m (6 * n)

end Model
