/-
Model.Astro — the astronomy oracle as a parameter of the model.

`ShouXingUtil` (new-moon and solar-term computation, floating point) is NOT modelled. Its outputs
enter as a per-lunar-year record `YearAstro`, regenerated from the current code on every run
(`harness astro-dump` → `Gen/Astro/*.lean`, packed `Nat` literals). This file fixes the packing
layout and the decoder; everything downstream of these numbers is modelled in Lean.

Layout of the two packed naturals `(a, b)` of lunar year `y`:
  a: 15 month records × 40 bits, then 31 term stamps × 40 bits
     month record  = firstJD(23) | dayCount(5)<<23 | index(5)<<28 | (month+13)(5)<<33 | (year-(y-1))(2)<<38
     term stamp    = second(6) | minute(6)<<6 | hour(5)<<12 | day(5)<<17 | month(4)<<22 | (year+1)(14)<<26
  b: hs[0..15] × 24 bits (new-moon day numbers, Julian Day), then jq[0..25] × 24 bits (term day numbers)
-/
import Model.Civil
namespace Model

/-- one lunar month as `NewLunarMonth(year, month, dayCount, firstJulianDay, index)` -/
structure MonthRec where
  year : Int
  month : Int        -- negative = leap month
  dayCount : Int
  first : Int        -- Julian Day number of day 1 (integer-valued in the Go code)
  index : Int
  deriving DecidableEq, Repr, Inhabited, BEq

structure YearAstro where
  months : List MonthRec   -- 15 records, as `NewLunarYear(y).GetMonths()`
  terms : List Solar       -- 31 stamps, `NewSolarFromJulianDay(GetJieQiJulianDays()[i])`
  hs : List Int            -- 16 new-moon day numbers (JD)
  jq : List Int            -- 26 term day numbers (JD)
  deriving Repr, Inhabited

def bitsAt (n : Nat) (off width : Nat) : Nat := (n >>> off) % (2 ^ width)

def decodeMonth (y : Int) (a : Nat) (i : Nat) : MonthRec :=
  let r := bitsAt a (40 * i) 40
  { first := (bitsAt r 0 23 : Nat)
    dayCount := (bitsAt r 23 5 : Nat)
    index := (bitsAt r 28 5 : Nat)
    month := (bitsAt r 33 5 : Nat) - 13
    year := (bitsAt r 38 2 : Nat) + (y - 1) }

def decodeStamp (a : Nat) (k : Nat) : Solar :=
  let r := bitsAt a (600 + 40 * k) 40
  { second := (bitsAt r 0 6 : Nat)
    minute := (bitsAt r 6 6 : Nat)
    hour := (bitsAt r 12 5 : Nat)
    day := (bitsAt r 17 5 : Nat)
    month := (bitsAt r 22 4 : Nat)
    year := (bitsAt r 26 14 : Nat) - 1 }

def decodeYear (y : Int) (p : Nat × Nat) : YearAstro :=
  { months := (List.range 15).map (decodeMonth y p.1)
    terms := (List.range 31).map (decodeStamp p.1)
    hs := (List.range 16).map fun i => ((bitsAt p.2 (24 * i) 24 : Nat) : Int)
    jq := (List.range 26).map fun k => ((bitsAt p.2 (384 + 24 * k) 24 : Nat) : Int) }

/-- The oracle: lunar year ↦ record. -/
abbrev Astro := Int → YearAstro

end Model
