/-
Model.EightChar — `calendar.EightChar` (pillars by sect, derived attributes), the fortune periods
(`Yun`, `DaYun`, `LiuNian`, `LiuYue`, `XiaoYun`) and the reverse lookup `ListSolarFromBaZiBySectAndBaseYear`.
After the `fix:` commits (GetDayDiShi uses the sect-selected branch; DaYun.GetXun/GetXunKong "" for period 0).
-/
import Model.NineStar
import Model.Season
namespace Model
open Gen.Tables

def lookupS {α : Type} (tbl : List (String × α)) (k : String) : Option α :=
  match tbl.find? (fun p => p.1 == k) with
  | some p => some p.2
  | none => none

def lookupStr (tbl : List (String × String)) (k : String) : String := (lookupS tbl k).getD ""

structure EightChar where
  sect : Int
  lunar : Lunar
  deriving Inhabited

/-- `SetSect`: anything but 1 becomes 2 -/
def mkEightChar (l : Lunar) (sect : Int) : EightChar := ⟨if sect != 1 then 2 else 1, l⟩

namespace EightChar

def yearG (e : EightChar) : Int := e.lunar.yearGanIndexExact
def yearZ (e : EightChar) : Int := e.lunar.yearZhiIndexExact
def monthG (e : EightChar) : Int := e.lunar.monthGanIndexExact
def monthZ (e : EightChar) : Int := e.lunar.monthZhiIndexExact
def dayG (e : EightChar) : Int := if e.sect = 2 then e.lunar.dayGanIndexExact2 else e.lunar.dayGanIndexExact
def dayZ (e : EightChar) : Int := if e.sect = 2 then e.lunar.dayZhiIndexExact2 else e.lunar.dayZhiIndexExact
def timeG (e : EightChar) : Int := e.lunar.timeGanIndex
def timeZ (e : EightChar) : Int := e.lunar.timeZhiIndex

def pillarStr (g z : Int) : String := ganStr g ++ zhiStr z

def hideGan (z : Int) : List String := (lookupS LunarUtil.ZHI_HIDE_GAN (zhiStr z)).getD []
def wuXing (g z : Int) : String := lookupStr LunarUtil.WU_XING_GAN (ganStr g) ++ lookupStr LunarUtil.WU_XING_ZHI (zhiStr z)
def naYin (g z : Int) : String := lookupStr LunarUtil.NAYIN (pillarStr g z)
def shiShenGan (e : EightChar) (g : Int) : String := lookupStr LunarUtil.SHI_SHEN (ganStr e.dayG ++ ganStr g)
def shiShenZhi (e : EightChar) (z : Int) : List String :=
  (hideGan z).map fun v => lookupStr LunarUtil.SHI_SHEN (ganStr e.dayG ++ v)

/-- `getDiShi(zhiIndex)` -/
def diShi (e : EightChar) (zhiIndex : Int) : String :=
  let base := (lookupS calendar.changShengOffset (ganStr e.dayG)).getD 0
  let i := if e.dayG % 2 = 0 then base + zhiIndex else base - zhiIndex
  let i := if i ≥ 12 then i - 12 else i
  let i := if i < 0 then i + 12 else i
  strGetD calendar.CHANG_SHENG i

def yearDiShi (e : EightChar) := e.diShi e.yearZ
def monthDiShi (e : EightChar) := e.diShi e.monthZ
def dayDiShi (e : EightChar) := e.diShi e.dayZ
def timeDiShi (e : EightChar) := e.diShi e.timeZ

/-- `LunarUtil.GetXunIndex` on a two-character pillar name given by indices (empty name → Go panics; not used) -/
def xunIndexOf (g z : Int) : Int :=
  let diff := (g + 1) - (z + 1)
  (if diff < 0 then diff + 12 else diff) / 2
def xun (g z : Int) : String := strGetD LunarUtil.XUN (xunIndexOf g z)
def xunKong (g z : Int) : String := strGetD LunarUtil.XUN_KONG (xunIndexOf g z)

/-- `GetTaiYuan`, `GetTaiXi` -/
def taiYuan (e : EightChar) : String :=
  let g := if e.monthG + 1 ≥ 10 then e.monthG + 1 - 10 else e.monthG + 1
  let z := if e.monthZ + 3 ≥ 12 then e.monthZ + 3 - 12 else e.monthZ + 3
  pillarStr g z
def taiXi (e : EightChar) : String :=
  strGetD LunarUtil.HE_GAN_5 e.dayG ++ strGetD LunarUtil.HE_ZHI_6 e.dayZ

def findIdxD (l : List String) (s : String) : Int :=
  match l.findIdx? (· == s) with | some i => i | none => 0

def reduceGan : Nat → Int → Int
  | 0, g => g
  | k + 1, g => if g ≤ 10 then g else reduceGan k (g - 10)

/-- `GetMingGong` -/
def mingGong (e : EightChar) : String :=
  let mi := findIdxD calendar.MONTH_ZHI (zhiStr e.monthZ)
  let ti := findIdxD calendar.MONTH_ZHI (zhiStr e.timeZ)
  let o := mi + ti
  let offset := if o ≥ 14 then 26 - o else 14 - o
  let ganIndex := reduceGan 10 ((e.lunar.yearGanIndexExact + 1) * 2 + offset)
  strGetD LunarUtil.GAN ganIndex ++ strGetD calendar.MONTH_ZHI offset

def reduce12 : Nat → Int → Int
  | 0, o => o
  | k + 1, o => if o ≤ 12 then o else reduce12 k (o - 12)

/-- `GetShenGong` -/
def shenGong (e : EightChar) : String :=
  let mi := findIdxD calendar.MONTH_ZHI (zhiStr e.monthZ)
  let ti := findIdxD LunarUtil.ZHI (zhiStr e.timeZ)
  let offset := reduce12 10 (mi + ti)
  let ganIndex := reduceGan 10 ((e.lunar.yearGanIndexExact + 1) * 2 + (offset % 12))
  strGetD LunarUtil.GAN ganIndex ++ strGetD calendar.MONTH_ZHI offset

end EightChar

/-! ### Fortune periods -/

structure Yun where
  gender : Int
  startYear : Int
  startMonth : Int
  startDay : Int
  startHour : Int
  forward : Bool
  lunar : Lunar
  deriving Inhabited

/-- time-branch index used by `computeStart` (sect 1): 11 at 23:xx, else `GetTimeZhiIndex(HH:MM)` -/
def yunZhiIndex (s : Solar) : Int := if s.hour ≠ 23 then timeZhiIndexOf s.hour s.minute else 11

/-- `NewYun(eightChar, gender, sect)`; `none` = panic (nil Jie) -/
def mkYun (l : Lunar) (gender sect : Int) : Option Yun :=
  let yang := l.yearGanIndexExact % 2 = 0
  let man := gender = 1
  let forward : Bool := (yang && man) || (!yang && !man)
  match l.prevJie false, l.nextJie false with
  | some (_, prev), some (_, next) =>
    let current := l.solar
    let start := if !forward then prev else current
    let end_ := if forward then next else current
    if sect = 2 then
      match end_.subtractMinute start with
      | none => none
      | some minutes =>
        let year := Int.tdiv minutes 4320
        let m1 := minutes - year * 4320
        let month := Int.tdiv m1 360
        let m2 := m1 - month * 360
        let day := Int.tdiv m2 12
        let m3 := m2 - day * 12
        some ⟨gender, year, month, day, m3 * 2, forward, l⟩
    else
      match end_.subtract start with
      | none => none
      | some dayDiff0 =>
        let hd0 := yunZhiIndex end_ - yunZhiIndex start
        let (hourDiff, dayDiff) := if hd0 < 0 then (hd0 + 12, dayDiff0 - 1) else (hd0, dayDiff0)
        let monthDiff := Int.tdiv (hourDiff * 10) 30
        let month := dayDiff * 4 + monthDiff
        let day := hourDiff * 10 - monthDiff * 30
        let year := Int.tdiv month 12
        some ⟨gender, year, month - year * 12, day, 0, forward, l⟩
  | _, _ => none

/-- `Yun.GetStartSolar` -/
def Yun.startSolar (y : Yun) : Option Solar :=
  (y.lunar.solar.nextYear y.startYear).bind fun a =>
  (a.nextMonth y.startMonth).bind fun b =>
  (b.nextDay y.startDay).bind fun c => c.nextHour y.startHour

structure DaYun where
  startYear : Int
  endYear : Int
  startAge : Int
  endAge : Int
  index : Int
  deriving Inhabited, Repr, DecidableEq

/-- `NewDaYun(yun, index)` -/
def mkDaYun (y : Yun) (index : Int) : Option DaYun :=
  match y.startSolar with
  | none => none
  | some ss =>
    let birthYear := y.lunar.solar.year
    let year := ss.year
    if index < 1 then some ⟨birthYear, year - 1, 1, year - birthYear, index⟩
    else
      let sy := year + (index - 1) * 10
      let sa := sy - birthYear + 1
      some ⟨sy, sy + 9, sa, sa + 9, index⟩

def jiaZiStr (i : Int) : String := strGetD LunarUtil.JIA_ZI i

/-- `DaYun.GetGanZhi` -/
def DaYun.ganZhi (d : DaYun) (y : Yun) : String :=
  if d.index < 1 then ""
  else
    let o := ganZhiIndex y.lunar.monthGanIndexExact y.lunar.monthZhiIndexExact
    let o := if y.forward then o + d.index else o - d.index
    let size : Int := LunarUtil.JIA_ZI.length
    let o := if o ≥ size then o - size else o
    let o := if o < 0 then o + size else o
    jiaZiStr o

/-- number of LiuNian / XiaoYun entries `GetLiuNianBy(n)` produces -/
def DaYun.count (d : DaYun) (n : Int) : Int := if d.index < 1 then d.endYear - d.startYear + 1 else n

/-- `LiuNian.GetGanZhi` for entry `i` of period `d`: needs the year pillar (exact) at the Lichun instant of the birth table -/
def liuNianGanZhi (A : Astro) (y : Yun) (d : DaYun) (i : Int) : Option String :=
  match Lunar.fromSolar A (termByName y.lunar.terms "立春") with
  | none => none
  | some ll =>
    let o := ganZhiIndex ll.yearGanIndexExact ll.yearZhiIndexExact + i
    let o := if d.index > 0 then o + d.startAge - 1 else o
    some (jiaZiStr (o.tmod (LunarUtil.JIA_ZI.length : Int)))

/-- `XiaoYun.GetGanZhi` -/
def xiaoYunGanZhi (y : Yun) (d : DaYun) (i : Int) : String :=
  let o := ganZhiIndex y.lunar.timeGanIndex y.lunar.timeZhiIndex
  let add := i + 1 + (if d.index > 0 then d.startAge - 1 else 0)
  let o := if y.forward then o + add else o - add
  let size : Int := LunarUtil.JIA_ZI.length
  let o := o % size            -- `for offset < 0 { offset += size }; offset %= size`
  jiaZiStr o

/-- `LiuYue.GetGanZhi` from the LiuNian pillar name and the month index 0..11 -/
def liuYueGanZhi (liuNianGz : String) (idx : Int) : String :=
  let yearGan := String.ofList (liuNianGz.toList.take 1)
  let offset : Int :=
    if yearGan == "甲" || yearGan == "己" then 2
    else if yearGan == "乙" || yearGan == "庚" then 4
    else if yearGan == "丙" || yearGan == "辛" then 6
    else if yearGan == "丁" || yearGan == "壬" then 8
    else 0
  strGetD LunarUtil.GAN ((idx + offset) % 10 + 1) ++ strGetD LunarUtil.ZHI ((idx + LunarUtil.BASE_MONTH_ZHI_INDEX) % 12 + 1)

/-! ### Reverse lookup -/

def findStr (name : String) (names : List String) (offset : Int) : Int :=
  match names.findIdx? (· == name) with
  | some i => i + offset
  | none => -1

def firstChar (s : String) : String := String.ofList (s.toList.take 1)
def restChars (s : String) : String := String.ofList (s.toList.drop 1)

/-- one candidate year of the loop of `ListSolarFromBaZiBySectAndBaseYear` -/
def baZiYear (A : Astro) (yearGz monthGz dayGz timeGz : String) (sect baseYear : Int) (m : Int) (hours : List Int) (y : Int) :
    Option (List Solar) :=
  -- jieQiTable of NewSolarFromYmd(y, 1, 1).GetLunar(): the term table of CIVIL year y (after fix ad2a43f; before it the code took
  -- NewLunarFromYmd(y, 1, 1), whose table is the previous civil year's when lunar 1/1 falls before 1 January: years 16 and 19)
  match Lunar.fromSolar A ⟨y, 1, 1, 0, 0, 0⟩ with
  | none => none
  | some l0 =>
    let solarTime := termByName l0.terms (calendar.JIE_QI_IN_USE.getD (4 + m).toNat "")
    if solarTime.year < baseYear then some []
    else
      match Lunar.fromSolar A solarTime with
      | none => none
      | some lt =>
        let d0 := jiaZiIndexOfStr dayGz - ganZhiIndex lt.dayGanIndexExact2 lt.dayZhiIndexExact2
        let d := if d0 < 0 then d0 + 60 else d0
        match (if d > 0 then solarTime.nextDay d else some solarTime) with
        | none => none
        | some st =>
          hours.foldl (fun acc hour =>
            match acc with
            | none => none
            | some found =>
              let (mi, s) := if d = 0 ∧ hour = st.hour then (st.minute, st.second) else (0, 0)
              match newSolar st.year st.month st.day hour mi s with
              | none => none
              | some solar =>
                match Lunar.fromSolar A solar with
                | none => none
                | some lunar =>
                  let dgz := if sect = 2 then EightChar.pillarStr lunar.dayGanIndexExact2 lunar.dayZhiIndexExact2
                             else EightChar.pillarStr lunar.dayGanIndexExact lunar.dayZhiIndexExact
                  if EightChar.pillarStr lunar.yearGanIndexExact lunar.yearZhiIndexExact == yearGz &&
                     EightChar.pillarStr lunar.monthGanIndexExact lunar.monthZhiIndexExact == monthGz &&
                     dgz == dayGz && EightChar.pillarStr lunar.timeGanIndex lunar.timeZhiIndex == timeGz
                  then some (found ++ [solar]) else some found) (some [])

def baZiLoop (A : Astro) (yearGz monthGz dayGz timeGz : String) (sect baseYear m : Int) (hours : List Int) (endYear : Int) :
    Nat → Int → Option (List Solar)
  | 0, _ => some []
  | fuel + 1, y =>
    if y > endYear then some []
    else
      let here := if y ≥ baseYear - 1 then baZiYear A yearGz monthGz dayGz timeGz sect baseYear m hours y else some []
      match here, baZiLoop A yearGz monthGz dayGz timeGz sect baseYear m hours endYear fuel (y + 60) with
      | some a, some b => some (a ++ b)
      | _, _ => none

/-- `ListSolarFromBaZiBySectAndBaseYear`; `endYear` models `time.Now().Year()` -/
def listSolarFromBaZi (A : Astro) (yearGz monthGz dayGz timeGz : String) (sect0 baseYear endYear : Int) : Option (List Solar) :=
  let sect := if sect0 != 1 then 2 else 1
  let monthG := firstChar monthGz
  let monthZ := restChars monthGz
  let m0 := findStr monthZ LunarUtil.ZHI (-1) - 2
  let m := if m0 < 0 then m0 + 12 else m0
  if ((findStr (firstChar yearGz) LunarUtil.GAN (-1) + 1) * 2 + m).tmod 10 ≠ findStr monthG LunarUtil.GAN (-1) then some []
  else
    let y0 := jiaZiIndexOfStr yearGz - 57
    let y := (if y0 < 0 then y0 + 60 else y0) + 1
    let h := findStr (restChars timeGz) LunarUtil.ZHI (-1) * 2
    let hours := if h = 0 ∧ sect = 2 then [0, 23] else [h]
    baZiLoop A yearGz monthGz dayGz timeGz sect baseYear (m * 2) hours endYear 200 y

end Model
