/-
Model.Season — seasonal counters and movable festivals of `calendar.Lunar`:
`GetShuJiu`, `GetFu`, `GetHou`, `GetWuHou`, `GetFestivals` (incl. 除夕), `GetOtherFestivals`
(incl. 寒食节, 春社, 秋社).
-/
import Model.JieQi
import Model.CivilFest
namespace Model
open Gen.Tables

def midnight (s : Solar) : Solar := ⟨s.year, s.month, s.day, 0, 0, 0⟩

def strGetD (l : List String) (i : Int) : String := if i < 0 then "" else l.getD i.toNat ""

/-- `Lunar.GetShuJiu` → (name, index) -/
def Lunar.shuJiu (l : Lunar) : Option (Option (String × Int)) :=
  let current := midnight l.solar
  let start0 := midnight (termByName l.terms "DONG_ZHI")
  let start := if current.isBefore start0 then midnight (termByName l.terms "冬至") else start0
  match start.nextDay 81 with
  | none => none
  | some end_ =>
    if current.isBefore start || !current.isBefore end_ then some none
    else
      match current.subtract start with
      | none => none
      | some days => some (some (strGetD LunarUtil.NUMBER (days / 9 + 1) ++ "九", days % 9 + 1))

/-- day stem index of a civil day as `solar.GetLunar().GetDayGanIndex()` computes it -/
def dayGanOf (s : Solar) : Int := (jdn s.year s.month s.day - 11) % 10

/-- `Lunar.GetFu` → (name, index); outer `none` = panic -/
def Lunar.fu (l : Lunar) : Option (Option (String × Int)) :=
  let current := midnight l.solar
  let xiaZhi := termByName l.terms "夏至"
  let liQiu := termByName l.terms "立秋"
  let add0 := 6 - dayGanOf xiaZhi
  let add := (if add0 < 0 then add0 + 10 else add0) + 20
  match (midnight xiaZhi).nextDay add with
  | none => none
  | some start =>
    if current.isBefore start then some none
    else
      match current.subtract start with
      | none => none
      | some days =>
        if days < 10 then some (some ("初伏", days + 1))
        else
          match start.nextDay 10 with
          | none => none
          | some start2 =>
            match current.subtract start2 with
            | none => none
            | some days2 =>
              if days2 < 10 then some (some ("中伏", days2 + 1))
              else
                match start2.nextDay 10 with
                | none => none
                | some start3 =>
                  match current.subtract start3 with
                  | none => none
                  | some days3 =>
                    if (midnight liQiu).isAfter start3 then
                      if days3 < 10 then some (some ("中伏", days3 + 11))
                      else
                        match start3.nextDay 10 with
                        | none => none
                        | some start4 =>
                          match current.subtract start4 with
                          | none => none
                          | some days4 => if days4 < 10 then some (some ("末伏", days4 + 1)) else some none
                    else if days3 < 10 then some (some ("末伏", days3 + 1)) else some none

/-- `Lunar.GetHou` -/
def Lunar.hou (l : Lunar) : Option String :=
  match l.prevJieQi true with
  | none => none                       -- nil pointer dereference in Go
  | some (name, js) =>
    match l.solar.subtract js with
    | none => none
    | some d =>
      let max : Int := (LunarUtil.HOU.length : Int) - 1
      let offset := if d / 5 > max then max else d / 5
      some (name ++ " " ++ strGetD LunarUtil.HOU offset)

/-- `Lunar.GetWuHou` -/
def Lunar.wuHou (l : Lunar) : Option String :=
  match l.prevJieQi true with
  | none => none
  | some (name, js) =>
    match l.solar.subtract js with
    | none => none
    | some d =>
      let offset : Int := match calendar.JIE_QI.findIdx? (· == name) with | some i => i | none => 0
      let index := if d / 5 > 2 then 2 else d / 5
      some (strGetD LunarUtil.WU_HOU ((offset * 3 + index) % (LunarUtil.WU_HOU.length : Int)))

/-- `Lunar.GetFestivals`: table festival of (month, day) plus 除夕; `A` is needed for `Next(1)` -/
def Lunar.festivals (A : Astro) (l : Lunar) : Option (List String) :=
  let base := match lookupI LunarUtil.FESTIVAL_ikeys LunarUtil.FESTIVAL [l.month, l.day] with
    | some f => [f] | none => []
  let m := if l.month < 0 then -l.month else l.month
  if m = 12 ∧ l.day ≥ 29 then
    match l.next A 1 with
    | none => none
    | some nx => if l.year ≠ nx.year then some (base ++ ["除夕"]) else some base
  else some base

/-- `Lunar.GetOtherFestivals` -/
def Lunar.otherFestivals (l : Lunar) : Option (List String) :=
  let base := match lookupI LunarUtil.OTHER_FESTIVAL_ikeys LunarUtil.OTHER_FESTIVAL [l.month, l.day] with
    | some f => f | none => []
  let ymd := l.solar.toYmd
  let she := fun (jq : Solar) =>
    let o := 4 - dayGanOf jq
    let offset := if o < 0 then o + 10 else o
    jq.nextDay (offset + 40)
  match (termByName l.terms "清明").nextDay (-1), she (termByName l.terms "立春"), she (termByName l.terms "立秋") with
  | some hs, some cs, some qs =>
    some (base ++ (if cmpChars ymd hs.toYmd == .eq then ["寒食节"] else []) ++
                  (if cmpChars ymd cs.toYmd == .eq then ["春社"] else []) ++
                  (if cmpChars ymd qs.toYmd == .eq then ["秋社"] else []))
  | _, _, _ => none

end Model
