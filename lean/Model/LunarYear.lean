/-
Model.LunarYear — model of `calendar.LunarYear.compute`'s month numbering (from the oracle's
new-moon day numbers `hs` and term day numbers `jq`, both as Julian Day integers), of the
`LunarYear` accessors, and of `LunarMonth.Next`.

Tables (`YMC`, `LEAP_11`, `LEAP_12`) and the reform constants come from `Gen.Tables`, i.e. from
the current source.
-/
import Model.MonthTable
import Gen.Tables
namespace Model
open Gen.Tables

def listGetD (l : List Int) (i : Int) : Int := if i < 0 then 0 else l.getD i.toNat 0

/-- integer literals of a Go function body (source order), from the regenerated tables -/
def intLitsOf (tbl : List (String × List Int)) (fn : String) : List Int :=
  match tbl.find? (fun p => p.1 == fn) with
  | some p => p.2
  | none => []

/-- the Julian-Day literals of `LunarYear.compute` (literals > 10^6, in source order):
`[1724360, 1729794, 1807724, 1808699, 1729794, 1808699, 1729794, 1808699]` on the unchanged tree -/
def reformLits : List Int := (intLitsOf calendar.intLits "LunarYear.compute").filter (· > 1000000)

/-- the DISTINCT Julian-Day constants in ascending order, `[1724360, 1729794, 1807724, 1808699]`: the two relabelled spans
`[A, B)` and `[C, D)`. Taken by value, not by position, so that reordering or merging the comparisons in the source (a behaviour-
preserving rewrite) does not change the model, while a changed value still does. -/
def reformConsts : List Int := (reformLits.eraseDups).mergeSort (fun a b => decide (a ≤ b))

def rcA : Int := listGetD reformConsts 0   -- start of the first relabelled span
def rcB : Int := listGetD reformConsts 1   -- its end (a month starting here is "12 / leap 11")
def rcC : Int := listGetD reformConsts 2
def rcD : Int := listGetD reformConsts 3

/-- the leap-month search: `i := 1; for { if hs[i+1] <= jq[2*i] {break}; if i >= 13 {break}; i++ }` -/
def leapSearch (hs jq : List Int) : Nat → Int → Int
  | 0, i => i
  | fuel + 1, i =>
    if listGetD hs (i + 1) ≤ listGetD jq (2 * i) then i
    else if i ≥ 13 then i
    else leapSearch hs jq fuel (i + 1)

def leapIndexOf (year : Int) (hs jq : List Int) : Int :=
  if calendar.LEAP_11.contains year then 13
  else if calendar.LEAP_12.contains year then 14
  else if listGetD hs 13 ≤ listGetD jq 24 then leapSearch hs jq 13 1
  else 16

/-- state of the labelling loop -/
structure LabelSt where
  fm : Int
  index : Int
  y : Int

/-- one iteration of the labelling loop of `compute` for month slot `i` -/
def labelStep (hs : List Int) (leapIndex : Int) (st : LabelSt) (i : Int) : LabelSt × MonthRec :=
  let dm := listGetD hs i
  let v2 := if i ≥ leapIndex then i - 1 else i
  let ymc := fun (k : Int) => listGetD calendar.YMC (k % 12)
  let special := decide (dm = rcB) || decide (dm = rcD)
  let mc : Int :=
    if rcA ≤ dm ∧ dm < rcB then ymc (v2 + 1)
    else if rcC ≤ dm ∧ dm < rcD then ymc (v2 + 1)
    else if special then 12
    else ymc v2
  let (fm, index) := if st.fm = -1 then (mc, mc) else (st.fm, st.index)
  let (y, index) := if mc < fm then (st.y + 1, 1) else (st.y, index)
  let mcOut := if i = leapIndex then -mc else if special then -11 else mc
  let dayCount := listGetD hs (i + 1) - dm
  ({ fm := mc, index := index + 1, y := y }, { year := y, month := mcOut, dayCount := dayCount, first := dm, index := index })

def labelLoop (hs : List Int) (leapIndex : Int) : Nat → Int → LabelSt → List MonthRec
  | 0, _, _ => []
  | k + 1, i, st =>
    let (st', r) := labelStep hs leapIndex st i
    r :: labelLoop hs leapIndex k (i + 1) st'

/-- the 15-month table `compute` builds for lunar year `year` from the oracle day numbers -/
def computeMonths (year : Int) (hs jq : List Int) : List MonthRec :=
  labelLoop hs (leapIndexOf year hs jq) 15 0 { fm := -1, index := -1, y := year - 1 }

/-- `LunarMonth.zhiIndex = (index - 1 + BASE_MONTH_ZHI_INDEX) % 12` -/
def MonthRec.zhiIndex (r : MonthRec) : Int := (r.index - 1 + LunarUtil.BASE_MONTH_ZHI_INDEX) % 12

end Model
