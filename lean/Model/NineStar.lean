/-
Model.NineStar — nine-star indices: year / month / day / hour stars of `Lunar`, the hour star of
`LunarTime`, and the year / month stars of `LunarYear` / `LunarMonth`. Go's `%` truncates toward
zero; where an operand can be negative the model uses `Int.tmod` so that an out-of-range index is
visible rather than hidden.
-/
import Model.JieQi
namespace Model
open Gen.Tables

def ganStr (i : Int) : String := strGetD' LunarUtil.GAN (i + 1)
where strGetD' (l : List String) (i : Int) : String := if i < 0 then "" else l.getD i.toNat ""

def zhiStr (i : Int) : String := if i + 1 < 0 then "" else LunarUtil.ZHI.getD (i + 1).toNat ""

/-- `LunarUtil.GetJiaZiIndex`: position of the two-character name in `JIA_ZI`, -1 if absent -/
def jiaZiIndexOfStr (s : String) : Int :=
  match LunarUtil.JIA_ZI.findIdx? (· == s) with
  | some i => i
  | none => -1

def ganZhiIndex (g z : Int) : Int := jiaZiIndexOfStr (ganStr g ++ zhiStr z)

/-- `Lunar.getYearNineStar(yearInGanZhi)` with the pillar given by indices (g, z) -/
def Lunar.yearNineStarOf (l : Lunar) (g z : Int) : Int :=
  let indexExact := ganZhiIndex g z + 1
  let index := ganZhiIndex l.yearGanIndex l.yearZhiIndex + 1
  let yo := indexExact - index
  let yearOffset := if yo > 1 then yo - 60 else if yo < -1 then yo + 60 else yo
  let yuan := (Int.tdiv (l.year + yearOffset + 2696) 60).tmod 3
  let offset := (62 + yuan * 3 - indexExact).tmod 9
  (if offset = 0 then 9 else offset) - 1

/-- `Lunar.GetYearNineStarBySect(sect)` -/
def Lunar.yearNineStar (l : Lunar) (sect : Int) : Int :=
  if sect = 1 then l.yearNineStarOf l.yearGanIndex l.yearZhiIndex
  else if sect = 3 then l.yearNineStarOf l.yearGanIndexExact l.yearZhiIndexExact
  else l.yearNineStarOf l.yearGanIndexByLiChun l.yearZhiIndexByLiChun

/-- `Lunar.getMonthNineStar(yearZhiIndex, monthZhiIndex)` -/
def monthNineStarOf (yearZhi monthZhi : Int) : Int :=
  let index := yearZhi.tmod 3
  let n := 27 - index * 3
  let n := if monthZhi < LunarUtil.BASE_MONTH_ZHI_INDEX then n - 3 else n
  (n - monthZhi).tmod 9

def Lunar.monthNineStar (l : Lunar) (sect : Int) : Int :=
  if sect = 1 then monthNineStarOf l.yearZhiIndex l.monthZhiIndex
  else if sect = 3 then monthNineStarOf l.yearZhiIndexExact l.monthZhiIndexExact
  else monthNineStarOf l.yearZhiIndexByLiChun l.monthZhiIndex

/-- jiazi index of a civil day (`solar.GetLunar().GetDayInGanZhi()` looked up in `JIA_ZI`) -/
def dayJiaZiOf (s : Solar) : Int :=
  let o := jdn s.year s.month s.day - 11
  ganZhiIndex (o % 10) (o % 12)

/-- `Lunar.GetDayNineStar`; `none` = panic -/
def Lunar.dayNineStar (l : Lunar) : Option Int :=
  let ymd := l.solar.toYmd
  let dongZhi := termByName l.terms "冬至"
  let dongZhi2 := termByName l.terms "DONG_ZHI"
  let xiaZhi := termByName l.terms "夏至"
  let anchor := fun (t : Solar) =>
    let i := dayJiaZiOf t
    if i > 29 then t.nextDay (60 - i) else t.nextDay (-i)
  match anchor dongZhi, anchor dongZhi2, anchor xiaZhi with
  | some shunBai, some shunBai2, some niZi =>
    let a := shunBai.toYmd
    let a2 := shunBai2.toYmd
    let b := niZi.toYmd
    if strGe ymd a && strLt ymd b then (l.solar.subtract shunBai).map (fun d => d.tmod 9)
    else if strGe ymd b && strLt ymd a2 then (l.solar.subtract niZi).map (fun d => 8 - d.tmod 9)
    else if strGe ymd a2 then (l.solar.subtract shunBai2).map (fun d => d.tmod 9)
    else if strLt ymd a then (shunBai.subtract l.solar).map (fun d => (8 + d).tmod 9)
    else some 0
  | _, _, _ => none

def zhiInGroup (group : String) (zhi : String) : Bool := (group.splitOn zhi).length > 1  -- strings.Contains

/-- `Lunar.GetTimeNineStar` -/
def Lunar.timeNineStar (l : Lunar) : Int :=
  let ymd := l.solar.toYmd
  let asc := (strGe ymd (termByName l.terms "冬至").toYmd && strLt ymd (termByName l.terms "夏至").toYmd) ||
             strGe ymd (termByName l.terms "DONG_ZHI").toYmd
  let dayZhi := zhiStr l.dayZhiIndex
  let start : Int :=
    if zhiInGroup "子午卯酉" dayZhi then (if asc then 0 else 8)
    else if zhiInGroup "辰戌丑未" dayZhi then (if asc then 3 else 5)
    else (if asc then 6 else 2)
  let index := if asc then start + l.timeZhiIndex else start + 9 - l.timeZhiIndex
  index.tmod 9

/-- `LunarTime.GetNineStar` (after the `fix:` commit adding the DONG_ZHI clause) for the hour object
of the same moment (its `zhiIndex` equals `l.timeZhiIndex`) -/
def Lunar.timeNineStarViaLunarTime (l : Lunar) : Int :=
  let ymd := l.solar.toYmd
  let asc := (strGe ymd (termByName l.terms "冬至").toYmd && strLt ymd (termByName l.terms "夏至").toYmd) ||
             strGe ymd (termByName l.terms "DONG_ZHI").toYmd
  let dayZhi := zhiStr l.dayZhiIndex
  let start : Int :=
    if zhiInGroup "子午卯酉" dayZhi then (if asc then 1 else 9)
    else if zhiInGroup "辰戌丑未" dayZhi then (if asc then 4 else 6)
    else (if asc then 7 else 3)
  let index := if asc then start + l.timeZhiIndex - 1 else start - l.timeZhiIndex - 1
  let index := if index > 8 then index - 9 else index
  if index < 0 then index + 9 else index

/-- `LunarYear.GetNineStar` -/
def lunarYearNineStar (year : Int) : Int :=
  let g := (year - 4) % 10
  let z := (year - 4) % 12
  let index := ganZhiIndex g z + 1
  let yuan := (Int.tdiv (year + 2696) 60).tmod 3
  let offset := (62 + yuan * 3 - index).tmod 9
  (if offset = 0 then 9 else offset) - 1

/-- `LunarMonth.GetNineStar` for a month record of lunar year `year` -/
def lunarMonthNineStar (year month : Int) : Int :=
  let index := ((year - 4) % 12).tmod 3
  let m := if month < 0 then -month else month
  let monthZhiIndex := (13 + m).tmod 12
  let n := 27 - index * 3
  let n := if monthZhiIndex < LunarUtil.BASE_MONTH_ZHI_INDEX then n - 3 else n
  (n - monthZhiIndex).tmod 9

end Model
