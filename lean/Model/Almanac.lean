/-
Model.Almanac — table-driven almanac attributes of `Lunar` / `LunarTime` / `LunarYear` / `LunarMonth`,
each written as a function of its DEFINING INPUTS only (so that "two moments sharing the inputs share
the attribute" holds by construction for the model; the correspondence sweeps tie each accessor of
the Go code to the model function of those inputs), and the packed-string decoders of `LunarUtil`
(`GetDayYi/Ji`, `GetDayJiShen/XiongSha`, `GetTimeYi/Ji`).
-/
import Model.EightChar
import Model.Holiday
namespace Model
open Gen.Tables

/-! ### by stem -/
def positionXi (g : Int) : String := strGetD LunarUtil.POSITION_XI (g + 1)
def positionYangGui (g : Int) : String := strGetD LunarUtil.POSITION_YANG_GUI (g + 1)
def positionYinGui (g : Int) : String := strGetD LunarUtil.POSITION_YIN_GUI (g + 1)
def positionFu (g sect : Int) : String := if sect = 1 then strGetD LunarUtil.POSITION_FU (g + 1) else strGetD LunarUtil.POSITION_FU_2 (g + 1)
def positionCai (g : Int) : String := strGetD LunarUtil.POSITION_CAI (g + 1)
def positionDesc (p : String) : String := lookupStr LunarUtil.POSITION_DESC p
def pengZuGan (g : Int) : String := strGetD LunarUtil.PENGZU_GAN (g + 1)
def chongGan (g : Int) : String := strGetD LunarUtil.CHONG_GAN g
def chongGanTie (g : Int) : String := strGetD LunarUtil.CHONG_GAN_TIE g
/-! ### by branch -/
def pengZuZhi (z : Int) : String := strGetD LunarUtil.PENGZU_ZHI (z + 1)
def chong (z : Int) : String := strGetD LunarUtil.CHONG z
/-- clash animal: `SHENG_XIAO[i]` for the first `i` with `ZHI[i] == chong` -/
def chongShengXiao (z : Int) : String :=
  match LunarUtil.ZHI.findIdx? (· == chong z) with
  | some i => LunarUtil.SHENG_XIAO.getD i ""
  | none => ""
def chongDesc (g z : Int) : String := "(" ++ chongGan g ++ chong z ++ ")" ++ chongShengXiao z
def sha (z : Int) : String := lookupStr LunarUtil.SHA (zhiStr z)
def shengXiao (z : Int) : String := strGetD LunarUtil.SHENG_XIAO (z + 1)
def positionTaiSuiYear (z : Int) : String := strGetD LunarUtil.POSITION_TAI_SUI_YEAR z
/-! ### by stem-branch pair -/
def naYinOf (g z : Int) : String := lookupStr LunarUtil.NAYIN (EightChar.pillarStr g z)
def positionTaiDay (g z : Int) : String := strGetD LunarUtil.POSITION_TAI_DAY (ganZhiIndex g z)
/-! ### by month branch and day branch -/
def zhiXing (monthZ dayZ : Int) : String :=
  let o := dayZ - monthZ
  strGetD LunarUtil.ZHI_XING ((if o < 0 then o + 12 else o) + 1)
/-- the twelve heavenly spirits: (branch of the counted unit, branch of the containing unit) -/
def tianShen (z containerZ : Int) : String :=
  strGetD LunarUtil.TIAN_SHEN ((z + (lookupS LunarUtil.ZHI_TIAN_SHEN_OFFSET (zhiStr containerZ)).getD 0) % 12 + 1)
def tianShenType (s : String) : String := lookupStr LunarUtil.TIAN_SHEN_TYPE s
def tianShenLuck (s : String) : String := lookupStr LunarUtil.TIAN_SHEN_TYPE_LUCK (tianShenType s)
/-! ### by day branch and weekday -/
def xiu (dayZ week : Int) : String := lookupStr LunarUtil.XIU (zhiStr dayZ ++ toString week)
def xiuLuck (x : String) : String := lookupStr LunarUtil.XIU_LUCK x
def xiuSong (x : String) : String := lookupStr LunarUtil.XIU_SONG x
def zheng (x : String) : String := lookupStr LunarUtil.ZHENG x
def animal (x : String) : String := lookupStr LunarUtil.ANIMAL x
def gong (x : String) : String := lookupStr LunarUtil.GONG x
def shou (x : String) : String := lookupStr LunarUtil.SHOU (gong x)
/-! ### by lunar month and day -/
def yueXiang (d : Int) : String := strGetD LunarUtil.YUE_XIANG d
def liuYao (m d : Int) : String := strGetD LunarUtil.LIU_YAO ((absI' m + d - 2).tmod 6)
where absI' (m : Int) : Int := if m < 0 then -m else m
def season (m : Int) : String := strGetD LunarUtil.SEASON (if m < 0 then -m else m)
def positionTaiMonth (m : Int) : String := if m < 0 then "" else strGetD LunarUtil.POSITION_TAI_MONTH (m - 1)
def dayLu (g z : Int) : String :=
  let gan := lookupStr LunarUtil.LU (ganStr g)
  match lookupS LunarUtil.LU (zhiStr z) with
  | some zhi => gan ++ "命互禄" ++ " " ++ zhi ++ "命进禄"
  | none => gan ++ "命互禄"

/-! ### packed-string decoders -/
def hexDigit (n : Nat) : Char := if n < 10 then Char.ofNat (48 + n) else Char.ofNat (55 + n)
/-- `LunarUtil.hex(n)` for 0 ≤ n < 256: two upper-case hex digits -/
def hex2 (n : Int) : List Char := [hexDigit (n.toNat / 16), hexDigit (n.toNat % 16)]
def hex1 (n : Int) : List Char := if n.toNat < 16 then [hexDigit n.toNat] else hex2 n   -- strings.ToUpper("%x")
def hexVal? (c : Char) : Option Nat :=
  if '0' ≤ c ∧ c ≤ '9' then some (c.toNat - 48) else if 'A' ≤ c ∧ c ≤ 'F' then some (c.toNat - 55)
  else if 'a' ≤ c ∧ c ≤ 'f' then some (c.toNat - 87) else none
/-- decode consecutive two-digit hex numbers into names of `tbl` (`strconv.ParseInt(s,16,0)` errors give 0) -/
def decodeNames (tbl : List String) : List Char → List String
  | a :: b :: r =>
    let n := match hexVal? a, hexVal? b with | some x, some y => x * 16 + y | _, _ => 0
    tbl.getD n "" :: decodeNames tbl r
  | _ => []
def idxOf (key s : List Char) : Option Nat := indexOf key s 0
def orWu (l : List String) : List String := if l.isEmpty then ["无"] else l

/-- the search loop shared by `GetDayYi` / `GetDayJi` -/
def dayYiJiLoop (day month : List Char) (wantYi : Bool) : Nat → List Char → List String
  | 0, _ => []
  | fuel + 1, right =>
    match idxOf (day ++ ['=']) right with
    | none => []
    | some index =>
      let right := right.drop (index + 3)
      let left := match idxOf ['='] right with
        | some e => right.take (e - 2)
        | none => right
      match idxOf [':'] left with
      | none => []                                  -- Go would panic (slice bounds) on malformed data
      | some c =>
        let months := left.take c
        let matched := (List.range (months.length / 2)).any fun i => (months.drop (2 * i)).take 2 == month
        if matched then
          match idxOf [','] left with
          | none => []
          | some k => if wantYi then decodeNames LunarUtil.yiJi ((left.take k).drop (c + 1)) else decodeNames LunarUtil.yiJi (left.drop (k + 1))
        else dayYiJiLoop day month wantYi fuel right

/-- `LunarUtil.GetDayYi(monthGanZhi, dayGanZhi)` / `GetDayJi` with the pillars given as 60-cycle indices -/
def dayYi (monthIdx dayIdx : Int) : List String :=
  orWu (dayYiJiLoop (hex2 dayIdx) (hex2 monthIdx) true 200 LunarUtil.dayYiJi.toList)
def dayJi (monthIdx dayIdx : Int) : List String :=
  orWu (dayYiJiLoop (hex2 dayIdx) (hex2 monthIdx) false 200 LunarUtil.dayYiJi.toList)

/-- `GetDayJiShen(lunarMonth, dayGanZhi)` / `GetDayXiongSha` -/
def dayShenShaPart (lunarMonth dayIdx : Int) (first : Bool) : List String :=
  let month := hex1 (if lunarMonth < 0 then -lunarMonth else lunarMonth)
  let data := LunarUtil.dayShenSha.toList
  orWu (match idxOf (month ++ hex2 dayIdx ++ ['=']) data with
    | none => []
    | some index =>
      let left0 := data.drop (index + 4)
      let left := match idxOf ['='] left0 with | some e => left0.take (e - 3) | none => left0
      match idxOf [','] left with
      | none => []
      | some k => if first then decodeNames LunarUtil.shenSha (left.take k) else decodeNames LunarUtil.shenSha (left.drop (k + 1)))
def dayJiShen (lunarMonth dayIdx : Int) := dayShenShaPart lunarMonth dayIdx true
def dayXiongSha (lunarMonth dayIdx : Int) := dayShenShaPart lunarMonth dayIdx false

/-- `GetTimeYi(dayGanZhi, timeGanZhi)` / `GetTimeJi` -/
def timeYiJiPart (dayIdx timeIdx : Int) (first : Bool) : List String :=
  let data := LunarUtil.timeYiJi.toList
  orWu (match idxOf (hex2 dayIdx ++ hex2 timeIdx ++ ['=']) data with
    | none => []
    | some index =>
      let left0 := data.drop (index + 5)
      let left := match idxOf ['='] left0 with | some e => left0.take (e - 4) | none => left0
      match idxOf [','] left with
      | none => []
      | some k => if first then decodeNames LunarUtil.yiJi (left.take k) else decodeNames LunarUtil.yiJi (left.drop (k + 1)))
def timeYi (dayIdx timeIdx : Int) := timeYiJiPart dayIdx timeIdx true
def timeJi (dayIdx timeIdx : Int) := timeYiJiPart dayIdx timeIdx false

/-! ### month / day Tai Sui positions -/
def monthPositionTaiSui (monthZ monthG : Int) : String :=
  let m0 := monthZ - LunarUtil.BASE_MONTH_ZHI_INDEX
  let m := (if m0 < 0 then m0 + 12 else m0).tmod 4
  if m = 0 then "艮" else if m = 2 then "坤" else if m = 3 then "巽" else strGetD LunarUtil.POSITION_GAN monthG
/-- `getDayPositionTaiSui(dayInGanZhi, yearZhiIndex)` — the membership strings spell 己 as 已, as in the Go source -/
def dayPositionTaiSui (dayGz : String) (yearZ : Int) : String :=
  let has := fun (group : String) => (group.splitOn dayGz).length > 1
  if has "甲子,乙丑,丙寅,丁卯,戊辰,已巳" then "震"
  else if has "丙子,丁丑,戊寅,已卯,庚辰,辛巳" then "离"
  else if has "戊子,已丑,庚寅,辛卯,壬辰,癸巳" then "中"
  else if has "庚子,辛丑,壬寅,癸卯,甲辰,乙巳" then "兑"
  else if has "壬子,癸丑,甲寅,乙卯,丙辰,丁巳" then "坎"
  else positionTaiSuiYear yearZ

end Model
