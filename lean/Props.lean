import Props.C04
