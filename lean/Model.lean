import Model.Civil
import Model.Fmt
import Model.Astro
import Model.LunarYear
import Model.Lunar
