import Proofs.CivilJdn
import Proofs.CivilStep
import Proofs.FmtOrder
