/-
C17 — Taoist/Buddhist dates are the lunar date with a fixed year offset, round-trip.
-/
import Proofs.TaoFotoSpec
import Proofs.GenAstroOK
namespace Props.C17
open Model

def obligations : List Lean.Name := [
  ``Model.tao_year, ``Model.foto_year, ``Model.newTao_roundtrip, ``Model.newFoto_roundtrip,
  ``Model.tao_preds_congr, ``Model.foto_preds_congr, ``Model.foto_zhaiSix_needs_only_length ]

/-- on the concrete oracle: a Taoist date built from its numbers is the lunar date of year − 2697, and converts back -/
theorem tao_roundtrip (y m d hh mi ss : Int) (l : Lunar) (hy : 2 ≤ y - 2697) (hhi : y - 2697 ≤ 9999)
    (hl : newTao genAstro y m d hh mi ss = some l) :
    taoYear l = y ∧ l.month = m ∧ l.day = d ∧ Lunar.fromSolar genAstro l.solar = some l := by
  obtain ⟨a, b, c, _, _, _, e, _⟩ := newTao_roundtrip genAstro 0 10000 genAstro_ok y m d hh mi ss l hy (by omega) (by omega) hl
  exact ⟨a, b, c, e⟩

theorem foto_roundtrip (y m d hh mi ss : Int) (l : Lunar) (hy : 2 ≤ y - 544) (hhi : y - 544 ≤ 9999)
    (hl : newFoto genAstro y m d hh mi ss = some l) :
    fotoYear l = y ∧ l.month = m ∧ l.day = d ∧ Lunar.fromSolar genAstro l.solar = some l := by
  obtain ⟨a, b, c, _, _, _, e, _⟩ := newFoto_roundtrip genAstro 0 10000 genAstro_ok y m d hh mi ss l hy (by omega) (by omega) hl
  exact ⟨a, b, c, e⟩

end Props.C17
