/-
C01 — Civil<->lunar conversion is an order-preserving bijection that round-trips.
Theorems are stated for the CONCRETE regenerated oracle `genAstro` (the current code's month tables,
kernel-checked well-formed in `Gen/AstroK`), as instances of general theorems over any well-formed
oracle (`Proofs/Convert.lean`). Supported range: civil years 1..9999.
-/
import Proofs.Convert
import Proofs.GenAstroOK
namespace Props.C01
open Model

/-- every valid civil date converts, landing inside the month record that contains it -/
theorem convert_total (s : Solar) (hv : s.valid = true) (hy : 1 ≤ s.year) (hhi : s.year ≤ 9999) :
    ∃ l r, Lunar.fromSolar genAstro s = some l ∧ r ∈ (genAstro s.year).months ∧ l.year = r.year ∧ l.month = r.month ∧
      1 ≤ l.day ∧ l.day ≤ r.dayCount ∧ r.first + (l.day - 1) = s.jdn ∧ l.solar = s ∧
      l.hour = s.hour ∧ l.minute = s.minute ∧ l.second = s.second ∧ l.month ≠ 0 :=
  fromSolar_spec genAstro 0 10000 genAstro_ok s hv hy (by omega) (by omega)

/-- civil → lunar → rebuilt from (year, month, day, time): the SAME structure — round trip and path independence
(every field equal, hence every accessor) -/
theorem roundtrip_civil (s : Solar) (hv : s.valid = true) (hy : 1 ≤ s.year) (hhi : s.year ≤ 9999)
    (l : Lunar) (hl : Lunar.fromSolar genAstro s = some l) :
    Lunar.fromYmdHms genAstro l.year l.month l.day s.hour s.minute s.second = some l ∧ l.solar = s :=
  ⟨fromYmd_fromSolar genAstro 0 10000 genAstro_ok s hv hy (by omega) (by omega) l hl, fromSolar_solar genAstro s l hl⟩

/-- lunar (year, month, day, time) → civil → lunar returns the same lunar date -/
theorem roundtrip_lunar (ly lm ld hh mi ss : Int) (l : Lunar) (hy : 2 ≤ ly) (hhi : ly ≤ 9999)
    (hl : Lunar.fromYmdHms genAstro ly lm ld hh mi ss = some l) :
    l.solar.valid = true ∧ l.year = ly ∧ l.month = lm ∧ l.day = ld ∧ l.hour = hh ∧ l.minute = mi ∧ l.second = ss ∧
    Lunar.fromSolar genAstro l.solar = some l :=
  fromSolar_fromYmd genAstro 0 10000 genAstro_ok ly lm ld hh mi ss l hy (by omega) (by omega) hl

/-- one-to-one: two civil days with the same lunar (year, month, day) are the same day -/
theorem one_to_one (s s' : Solar) (hv : s.valid = true) (hv' : s'.valid = true)
    (hy : 1 ≤ s.year) (hy' : 1 ≤ s'.year) (hhi : s.year ≤ 9999) (hhi' : s'.year ≤ 9999)
    (l l' : Lunar) (hl : Lunar.fromSolar genAstro s = some l) (hl' : Lunar.fromSolar genAstro s' = some l')
    (he : l.year = l'.year ∧ l.month = l'.month ∧ l.day = l'.day) : (s.year, s.month, s.day) = (s'.year, s'.month, s'.day) :=
  lunarYmd_inj genAstro 0 10000 genAstro_ok s s' hv hv' hy hy' (by omega) (by omega) (by omega) (by omega) l l' hl hl' he

/-- order-preserving (reform years included): earlier civil day ⇔ earlier lunar (year, month position, day) -/
theorem order_preserving (s s' : Solar) (hv : s.valid = true) (hv' : s'.valid = true)
    (hy : 1 ≤ s.year) (hy' : 1 ≤ s'.year) (hhi : s.year ≤ 9999) (hhi' : s'.year ≤ 9999)
    (l l' : Lunar) (hl : Lunar.fromSolar genAstro s = some l) (hl' : Lunar.fromSolar genAstro s' = some l') :
    s.jdn < s'.jdn ↔ lunarLt genAstro l l' :=
  lunar_order genAstro 0 10000 genAstro_ok s s' hv hv' (by omega) (by omega) (by omega) (by omega) l l' hl hl'

/-- stepping n days on the lunar side = stepping n days on the civil side; steps compose additively -/
theorem step_commutes (l : Lunar) (n : Int) (s : Solar) (hs : l.solar.nextDay n = some s) :
    l.next genAstro n = Lunar.fromSolar genAstro s := next_eq genAstro l n s hs

theorem steps_add (s : Solar) (hv : s.valid = true) (l l1 l2 : Lunar) (a b : Int)
    (hl : Lunar.fromSolar genAstro s = some l) (h1 : l.next genAstro a = some l1) (h2 : l1.next genAstro b = some l2)
    (hy : 1 ≤ s.year) (hy1 : 1 ≤ l1.solar.year) (hy2 : 1 ≤ l2.solar.year)
    (hr : s.year ≤ 10000) (hr1 : l1.solar.year ≤ 10000) :
    l.next genAstro (a + b) = some l2 :=
  next_next genAstro 0 10000 genAstro_ok s hv l l1 l2 a b hl h1 h2 hy hy1 hy2 ⟨by omega, hr⟩ ⟨by omega, hr1⟩

/-- non-vacuity: a concrete date (leap-month day 2020-05-23 = 闰四月初一) meets the hypotheses -/
example : (Solar.mk 2020 5 23 0 0 0).valid = true := by decide

end Props.C01
