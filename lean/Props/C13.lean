/-
C13 — Seasonal counters and movable festivals follow their term-and-stem rules.
Index of the property theorems proved in Proofs/SeasonSpec.lean (closed forms of the model's
`shuJiu`, `fu`, `hou`, `wuHou`, `festivals`, `otherFestivals` in terms of day numbers).
New Year's Eve: `festivals_spec` characterises what the code reports (|month| = 12 ∧ day ≥ 29 ∧ next
day in another lunar year); "exactly the last day of each lunar year" follows outside the modelled
reforms from C06's structure theorem; inside them it FAILS on 0009-01-14 and 0237-02-11 (known finding).
-/
import Proofs.SeasonSpec
namespace Props.C13
open Model

def obligations : List Lean.Name := [
  ``Model.shuJiu_spec, ``Model.fu_spec, ``Model.geng_first, ``Model.hou_spec, ``Model.wuHou_len,
  ``Model.otherFestivals_spec, ``Model.festivals_spec ]

end Props.C13
