/-
C04 — Civil date arithmetic is exact: Julian Day inverse, additive steps, 1582 gap.
Property theorems only (helper lemmas live in Proofs/). Each theorem is about the executable model
`Model.Civil`, which the correspondence sweeps (gen-civil, gen-jd) tie to the Go code.
-/
import Proofs.CivilJdn
import Proofs.CivilStep
import Proofs.CivilArith
namespace Props.C04
open Model

/-- every day number from 0001-01-01 on is the day number of exactly the valid date `fromJdn` returns -/
theorem jdn_fromJdn (n : Int) (h : 1721424 ≤ n) :
    validYmd (fromJdn n).1 (fromJdn n).2.1 (fromJdn n).2.2 = true ∧ 1 ≤ (fromJdn n).1 ∧
    jdn (fromJdn n).1 (fromJdn n).2.1 (fromJdn n).2.2 = n := Model.jdn_fromJdn n h

/-- a valid date converts to its day number and back without change (no upper bound on the year) -/
theorem fromJdn_jdn (y m d : Int) (hy : 1 ≤ y) (hv : validYmd y m d = true) :
    fromJdn (jdn y m d) = (y, m, d) := Model.fromJdn_jdn y m d hy hv

/-- the calendar is Julian up to 1582-10-04 and Gregorian from 1582-10-15 with nothing in between -/
theorem gap_adjacent : jdn 1582 10 15 = jdn 1582 10 4 + 1 := Model.jdn_gap

theorem gap_rejected (d : Int) (h1 : 4 < d) (h2 : d < 15) (h mi s : Int) : newSolar 1582 10 d h mi s = none := by
  simp [newSolar, validYmd, h1, h2]

/-- stepping by n days changes the Julian Day by exactly n, for every n of either sign -/
theorem nextDay_jdn (s : Solar) (n : Int) (hv : s.valid = true) :
    ∃ r, s.nextDay n = some r ∧ r.valid = true ∧ r.jdn = s.jdn + n ∧
         r.hour = s.hour ∧ r.minute = s.minute ∧ r.second = s.second :=
  Model.nextDay_spec_strong s n hv

/-- the weekday advances by one per day straight across the switch -/
theorem week_advances (s r : Solar) (n : Int) (h : r.jdn = s.jdn + n) : r.week = (s.week + n) % 7 :=
  Model.week_nextDay s r n h

/-- stepping −n undoes stepping n; steps compose additively -/
theorem nextDay_undo (s r : Solar) (n : Int) (hv : s.valid = true) (hy : 1 ≤ s.year) (h : s.nextDay n = some r) (hr : 1 ≤ r.year) :
    r.nextDay (-n) = some s := Model.nextDay_neg s r n hv hy h hr
theorem nextDay_additive (s r t : Solar) (a b : Int) (hv : s.valid = true) (hy : 1 ≤ s.year)
    (h1 : s.nextDay a = some r) (hr : 1 ≤ r.year) (h2 : r.nextDay b = some t) (ht : 1 ≤ t.year) :
    s.nextDay (a + b) = some t := Model.nextDay_add s r t a b hv hy h1 hr h2 ht

/-- day difference, minute difference and before/after comparisons agree with the same day count -/
theorem day_difference (s o : Solar) (hs : s.valid = true) (ho : o.valid = true) (hys : 1 ≤ s.year) (hyo : 1 ≤ o.year) :
    s.subtract o = some (s.jdn - o.jdn) := Model.subtract_eq s o hs ho hys hyo
theorem minute_difference (s o : Solar) (hs : s.valid = true) (ho : o.valid = true) (hys : 1 ≤ s.year) (hyo : 1 ≤ o.year) :
    s.subtractMinute o = some ((s.jdn * 1440 + s.hour * 60 + s.minute) - (o.jdn * 1440 + o.hour * 60 + o.minute)) :=
  Model.subtractMinute_eq s o hs ho hys hyo
theorem before_iff (s o : Solar) (hs : s.valid = true) (ho : o.valid = true) (hys : 1 ≤ s.year) (hyo : 1 ≤ o.year) :
    s.isBefore o = true ↔ s.stamp < o.stamp := Model.isBefore_iff s o hs ho hys hyo
theorem after_iff (s o : Solar) (hs : s.valid = true) (ho : o.valid = true) (hys : 1 ≤ s.year) (hyo : 1 ≤ o.year) :
    s.isAfter o = true ↔ o.stamp < s.stamp := Model.isAfter_iff s o hs ho hys hyo
theorem date_order_is_day_order (y m d y' m' d' : Int) (hv : validYmd y m d = true) (hv' : validYmd y' m' d' = true)
    (hy : 1 ≤ y) (hy' : 1 ≤ y') :
    jdn y m d < jdn y' m' d' ↔ (y < y' ∨ (y = y' ∧ (m < m' ∨ (m = m' ∧ d < d')))) := Model.jdn_lt_iff_lex y m d y' m' d' hv hv' hy hy'

/-- hour / month / year stepping -/
theorem hour_step (s : Solar) (hours : Int) (hv : s.valid = true) (hy : 1 ≤ s.year) :
    ∃ r, s.nextHour hours = some r ∧ r.valid = true ∧ r.stamp = s.stamp + 3600 * hours := Model.nextHour_spec s hours hv hy
theorem month_step (s : Solar) (n : Int) (hv : s.valid = true) :
    ∃ r, s.nextMonth n = some r ∧ r.valid = true ∧
      r.year * 12 + (r.month - 1) = s.year * 12 + (s.month - 1) + n ∧
      r.hour = s.hour ∧ r.minute = s.minute ∧ r.second = s.second ∧
      (r.day = s.day ∨ (r.day = daysOfMonth r.year r.month ∧ r.day < s.day) ∨ (r.year = 1582 ∧ r.month = 10 ∧ r.day = s.day + 10)) :=
  Model.nextMonth_spec s n hv
theorem year_step (s : Solar) (n : Int) (hv : s.valid = true) :
    ∃ r, s.nextYear n = some r ∧ r.valid = true ∧ r.year = s.year + n ∧ r.month = s.month ∧
      r.hour = s.hour ∧ r.minute = s.minute ∧ r.second = s.second ∧
      (r.day = s.day ∨ (r.month = 2 ∧ r.day = 28 ∧ s.day = 29) ∨ (r.year = 1582 ∧ r.month = 10 ∧ r.day = s.day + 10)) :=
  Model.nextYear_spec s n hv

/-- any instant given as a Julian Day (exact value n/2^32) converts to a valid date-time within half a second of it -/
theorem julian_day_total (n : Int) (h : 1721424 * 4294967296 - 2147483648 ≤ n) :
    ∃ r, fromJD n = some r ∧ r.valid = true ∧ (r.jdNum * 4294967296 - n * 86400).natAbs * 2 ≤ 4294967296 := Model.fromJD_total n h
/-- a date-time converts to a Julian Day and back without change, for any representation error up to 2^-27 day -/
theorem julian_day_roundtrip (s : Solar) (hv : s.valid = true) (hy : 1 ≤ s.year) (n : Int)
    (hn : (n * 86400 - s.jdNum * 4294967296).natAbs ≤ 86400 * 32) : fromJD n = some s := Model.fromJD_near s hv hy n hn

/-- non-vacuity: the hypotheses are met by concrete dates on both sides of the switch -/
example : (Solar.mk 1582 10 4 23 59 59).valid = true ∧ (Solar.mk 1582 10 4 23 59 59).nextDay 1 = some ⟨1582, 10, 15, 23, 59, 59⟩ := by decide
example : week 1582 10 4 = 4 ∧ week 1582 10 15 = 5 := by decide

end Props.C04
