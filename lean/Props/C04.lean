/-
C04 — Civil date arithmetic is exact: Julian Day inverse, additive steps, 1582 gap.
Property theorems only (helper lemmas live in Proofs/). Each theorem is about the executable model
`Model.Civil`, which the correspondence sweeps (gen-civil, gen-jd) tie to the Go code.
-/
import Proofs.CivilJdn
import Proofs.CivilStep
namespace Props.C04
open Model

/-- every day number from 0001-01-01 on is the day number of exactly the valid date `fromJdn` returns -/
theorem jdn_fromJdn (n : Int) (h : 1721424 ≤ n) :
    validYmd (fromJdn n).1 (fromJdn n).2.1 (fromJdn n).2.2 = true ∧ 1 ≤ (fromJdn n).1 ∧
    jdn (fromJdn n).1 (fromJdn n).2.1 (fromJdn n).2.2 = n := Model.jdn_fromJdn n h

/-- a valid date converts to its day number and back without change (no upper bound on the year) -/
theorem fromJdn_jdn (y m d : Int) (hy : 1 ≤ y) (hv : validYmd y m d = true) :
    fromJdn (jdn y m d) = (y, m, d) := Model.fromJdn_jdn y m d hy hv

/-- the calendar is Julian up to 1582-10-04 and Gregorian from 1582-10-15 with nothing in between -/
theorem gap_adjacent : jdn 1582 10 15 = jdn 1582 10 4 + 1 := Model.jdn_gap

theorem gap_rejected (d : Int) (h1 : 4 < d) (h2 : d < 15) (h mi s : Int) : newSolar 1582 10 d h mi s = none := by
  simp [newSolar, validYmd, h1, h2]

/-- stepping by n days changes the Julian Day by exactly n, for every n of either sign -/
theorem nextDay_jdn (s : Solar) (n : Int) (hv : s.valid = true) :
    ∃ r, s.nextDay n = some r ∧ r.valid = true ∧ r.jdn = s.jdn + n ∧
         r.hour = s.hour ∧ r.minute = s.minute ∧ r.second = s.second :=
  Model.nextDay_spec_strong s n hv

/-- the weekday advances by one per day straight across the switch -/
theorem week_advances (s r : Solar) (n : Int) (h : r.jdn = s.jdn + n) : r.week = (s.week + n) % 7 :=
  Model.week_nextDay s r n h

/-- non-vacuity: the hypotheses are met by concrete dates on both sides of the switch -/
example : (Solar.mk 1582 10 4 23 59 59).valid = true ∧ (Solar.mk 1582 10 4 23 59 59).nextDay 1 = some ⟨1582, 10, 15, 23, 59, 59⟩ := by decide
example : week 1582 10 4 = 4 ∧ week 1582 10 15 = 5 := by decide

end Props.C04
