/-
C06 — Lunar years are well-formed and month navigation is consistent (outside the modelled reforms
AD 8–23 and 236–240). General theorems over any well-formed oracle in Proofs/MonthNav.lean; here
instantiated for the regenerated oracle.
-/
import Proofs.MonthNav
import Proofs.GenAstroOK
namespace Props.C06
open Model

def obligations : List Lean.Name := [
  ``Model.year_structure, ``Model.neighbours_agree, ``Model.new_years_eve,
  ``Model.next_one, ``Model.next_prev, ``Model.next_iter, ``Model.next_add, ``Model.prev_iter, ``Model.next_add_int ]

/-- every lunar year outside the reforms: 12 or 13 months numbered 1..12 in order with at most one leap month
directly after its namesake, 29/30 days each, contiguous, 353–355 or 383–385 days, reported leap month / counts consistent -/
theorem year_wellformed (y : Int) (hlo : 0 ≤ y) (hhi : y ≤ 10000) (hnr : isReformYear y = false) :
    let own := monthsInYear (genAstro y).months y
    (own.filter (fun r => decide (r.month > 0))).map (·.month) = [1,2,3,4,5,6,7,8,9,10,11,12] ∧
    (own.filter (fun r => decide (r.month < 0))).length ≤ 1 ∧
    (∀ i, ∀ r q, own[i]? = some r → own[i+1]? = some q → q.month < 0 → q.month = -r.month) ∧
    (∀ r ∈ own, r.dayCount = 29 ∨ r.dayCount = 30) ∧
    (∀ i r q, own[i]? = some r → own[i+1]? = some q → q.first = r.first + r.dayCount) ∧
    ((353 ≤ yearDayCount (genAstro y).months y ∧ yearDayCount (genAstro y).months y ≤ 355) ∨ (383 ≤ yearDayCount (genAstro y).months y ∧ yearDayCount (genAstro y).months y ≤ 385)) ∧
    ((own.length : Int) = if leapMonthOf (genAstro y).months y = 0 then 12 else 13) :=
  year_structure genAstro 0 10000 genAstro_ok y hlo hhi hnr

/-- New Year's Eve is followed by day 1 of month 1 of the next year -/
theorem eve_then_new_year (y : Int) (hlo : 0 ≤ y) (hhi : y < 10000) (hnr : isReformYear y = false) (hnr' : isReformYear (y + 1) = false) :
    ∃ last first, (monthsInYear (genAstro y).months y).getLast? = some last ∧ findMonth (genAstro (y+1)).months (y+1) 1 = some first ∧
      (last.month = 12 ∨ last.month = -12) ∧ first.first = last.first + last.dayCount :=
  new_years_eve genAstro 0 10000 genAstro_ok y hlo hhi hnr hnr'

example : isReformYear 2020 = false ∧ isReformYear 9 = true := by decide

end Props.C06
