/-
C11 — Alternative routes to the same fact give the same answer.
In the model every attribute is ONE function of its defining inputs; each Go accessor (both routes) is
tied to that function by the correspondence sweeps (gen-alm: `alm`, `alm.time`, `alm.ym`; gen-ec: `ec`).
Theorems: the hour object's recomputed pillar is the stored one; the two hour-star routes agree; the
lunar-year star equals the date's New-Year-based year star; EightChar attributes depend on the
sect-selected pillars only.
-/
import Proofs.AlmanacSpec
import Proofs.NineStarSpec
namespace Props.C11
open Model

def obligations : List Lean.Name := [
  ``Model.hour_routes_agree, ``Model.time_star_routes_agree, ``Model.year_star_of_pillar,
  ``Model.eightChar_congr, ``Model.dayDiShi_uses_sect, ``Model.almVector_congr ]

end Props.C11
