/-
C03 (regenerated function bodies, string mode) — day terms: the regenerated `Lunar.GetJie` / `GetQi` (atom: the term-table entry of index i) scan the even / odd entries of JIE_QI_IN_USE in order, stop at the first one on the civil day of the date and convert the Latin duplicate names — equal to the model's `Lunar.jie` / `Lunar.qi`; parity (a Jie getter can only name an even entry, a Qi getter an odd one) and totality hold for ANY atom.
`Gen/FnS.lean` is regenerated from /repo's source on every run by gotrans/fntrans.go in string mode (every function of the module that
lies entirely inside the subset: no atoms, nothing dropped); the theorems indexed here are re-checked against it. A function that an
edit pushes out of the subset disappears from `Gen/FnS.lean` and its theorem no longer elaborates.
-/
import Proofs.FnSJieQi
namespace Props.FnSC03

set_option maxRecDepth 100000
def listing (fn : String) : List (String × String × String) × List String × List String :=
  ((Gen.FnS.atoms.filter (fun a => a.1 == fn)).map (fun a => a.2),
   (Gen.FnS.dropped.filter (fun a => a.1 == fn)).map (fun a => a.2),
   (Gen.FnS.notes.filter (fun a => a.1 == fn)).map (fun a => a.2))

theorem pin_calendar_Lunar_GetJie : (Gen.FnS.translated.contains "calendar.Lunar.GetJie" && listing "calendar.Lunar.GetJie" ==
    (([("a1", "Int → Solar", "lunar.jieQi[key]")] : List (String × String × String)),
     ([] : List String),
     (["len(calendar.JIE_QI_IN_USE) read as the length of its initial value"] : List String))) = true := by decide +kernel

theorem pin_calendar_Lunar_GetQi : (Gen.FnS.translated.contains "calendar.Lunar.GetQi" && listing "calendar.Lunar.GetQi" ==
    (([("a1", "Int → Solar", "lunar.jieQi[key]")] : List (String × String × String)),
     ([] : List String),
     (["len(calendar.JIE_QI_IN_USE) read as the length of its initial value"] : List String))) = true := by decide +kernel

def obligations : List Lean.Name := [
  ``FnSEq.convertJieQi_eq,
  ``FnSEq.lunarGetJie_eq,
  ``FnSEq.lunarGetQi_eq,
  ``FnSEq.lunarGetJie_raw,
  ``FnSEq.lunarGetQi_raw,
  ``FnSEq.lunarGetJie_parity,
  ``FnSEq.lunarGetQi_parity,
  ``FnSEq.lunarGetJie_ok,
  ``FnSEq.lunarGetQi_ok ]

end Props.FnSC03
