/-
The objects of this property are built from the per-year oracle tables (month records, term instants). Their well-formedness —
the kernel-checked obligations `Gen/AstroK` regenerated from the CURRENT source on every run — is therefore part of the property's
proof step: a change that moves a month or a term of any single year out of 10 000 (e.g. a typo in the leap-month override tables)
breaks an obligation here even when no swept input is affected, and the check then searches the full domain for the failing input.
-/
import Proofs.GenAstroOK
namespace Props.AstroBase

def obligations : List Lean.Name := [``Model.genAstro_ok, ``Model.genAstro_leap]

end Props.AstroBase
