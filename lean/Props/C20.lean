/-
C20 — Zodiac signs and weekday-based civil festivals follow their date rules.
Thresholds and festival tables are regenerated from the Go source on every run (Gen.Tables).
-/
import Proofs.CivilFestSpec
namespace Props.C20
open Model

theorem sign_is_its_run : ∀ m d : Int, 1 ≤ m → m ≤ 12 → 1 ≤ d → d ≤ 31 → xingZuoIndex m d = specSign m d := xingZuo_spec
theorem sign_in_range : ∀ m d : Int, 1 ≤ m → m ≤ 12 → 1 ≤ d → d ≤ 31 → 0 ≤ xingZuoIndex m d ∧ xingZuoIndex m d < 12 := xingZuo_range
theorem twelve_signs : Gen.Tables.SolarUtil.XINGZUO.length = 12 := xingZuo_table_len
theorem kth_weekday_is_occurrence (y m d : Int) (hv : validYmd y m d = true) (h : ¬ (y = 1582 ∧ m = 10)) :
    (occurrence y m d : Int) = (d + 6) / 7 := occurrence_eq y m d hv h
theorem last_weekday (y m d : Int) (hv : validYmd y m d = true) (h : ¬ (y = 1582 ∧ m = 10)) :
    d + 7 > daysOfMonth y m ↔ ∀ d', d < d' → d' ≤ daysOfMonth y m → week y m d' ≠ week y m d := last_weekday_iff y m d hv h
theorem kth_once_per_year (y m k w : Int) (hm : 1 ≤ m ∧ m ≤ 12) (hk : 1 ≤ k ∧ k ≤ 4) (hw : 0 ≤ w ∧ w ≤ 6) (h : ¬ (y = 1582 ∧ m = 10)) :
    ∃ d, (1 ≤ d ∧ d ≤ daysOfMonth y m ∧ (d + 6) / 7 = k ∧ week y m d = w) ∧
      ∀ d', (1 ≤ d' ∧ d' ≤ daysOfMonth y m ∧ (d' + 6) / 7 = k ∧ week y m d' = w) → d' = d := kth_weekday_unique y m k w hm hk hw h
theorem last_once_per_year (y m w : Int) (hm : 1 ≤ m ∧ m ≤ 12) (hw : 0 ≤ w ∧ w ≤ 6) (h : ¬ (y = 1582 ∧ m = 10)) :
    ∃ d, (1 ≤ d ∧ d ≤ daysOfMonth y m ∧ d + 7 > daysOfMonth y m ∧ week y m d = w) ∧
      ∀ d', (1 ≤ d' ∧ d' ≤ daysOfMonth y m ∧ d' + 7 > daysOfMonth y m ∧ week y m d' = w) → d' = d := last_weekday_unique y m w hm hw h
theorem october_1582 : (Gen.Tables.SolarUtil.WEEK_FESTIVAL_ikeys.filter (fun k => k.head? == some 10)).all (fun k =>
    ((List.range 31).filter (fun (i : Nat) => validYmd 1582 10 ((i:Int)+1) && (k == [10, (((i:Int)+1) + 6) / 7, week 1582 10 ((i:Int)+1)]))).length == 1) = true :=
  Model.oct1582_keys
theorem week_keys_wellformed : Gen.Tables.SolarUtil.WEEK_FESTIVAL_ikeys.all (fun k => match k with
    | [m, k, w] => decide (1 ≤ m) && decide (m ≤ 12) && decide (0 ≤ k) && decide (k ≤ 4) && decide (0 ≤ w) && decide (w ≤ 6) | _ => false) = true :=
  Model.week_keys_ok
theorem fixed_keys_wellformed : Gen.Tables.SolarUtil.FESTIVAL_ikeys.all (fun k => match k with
    | [m, d] => validYmd 2000 m d | _ => false) = true := Model.fixed_keys_ok
theorem reported_iff (y m d : Int) (f : String) :
    f ∈ solarFestivals y m d ↔
      (lookupI Gen.Tables.SolarUtil.FESTIVAL_ikeys Gen.Tables.SolarUtil.FESTIVAL [m, d] = some f ∨
       lookupI Gen.Tables.SolarUtil.WEEK_FESTIVAL_ikeys Gen.Tables.SolarUtil.WEEK_FESTIVAL [m, (d + 6) / 7, week y m d] = some f ∨
       (d + 7 > daysOfMonth y m ∧ lookupI Gen.Tables.SolarUtil.WEEK_FESTIVAL_ikeys Gen.Tables.SolarUtil.WEEK_FESTIVAL [m, 0, week y m d] = some f)) :=
  solarFestivals_mem y m d f

end Props.C20
