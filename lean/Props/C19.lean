/-
C19 — Printed forms are canonical, parse back, and sort in chronological order.
-/
import Proofs.FmtOrder
import Proofs.CivilArith
import Proofs.RenderSpec
namespace Props.C19
open Model

theorem ymd_width (s : Solar) (h : InWidth s) : s.toYmd.length = 10 := toYmd_length s h
theorem ymdhms_width (s : Solar) (h : InWidth s) : s.toYmdHms.length = 19 := toYmdHms_length s h
theorem parse_back (s : Solar) (h : InWidth s) : parseYmdHms s.toYmdHms = some s := parse_toYmdHms s h
theorem parse_back_ymd (s : Solar) (h : InWidth s) : parseYmd s.toYmd = some (s.year, s.month, s.day) := parse_toYmd s h
theorem print_injective (s o : Solar) (hs : InWidth s) (ho : InWidth o) (h : s.toYmdHms = o.toYmdHms) : s = o :=
  toYmdHms_inj s o hs ho h
/-- lexicographic order of the long form = order of the six fields -/
theorem lex_is_field_order (s o : Solar) (hs : InWidth s) (ho : InWidth o) :
    cmpChars s.toYmdHms o.toYmdHms = compare (key14 s) (key14 o) := cmp_toYmdHms s o hs ho
theorem lex_is_field_order_ymd (s o : Solar) (hs : InWidth s) (ho : InWidth o) :
    cmpChars s.toYmd o.toYmd = compare (key8 s) (key8 o) := cmp_toYmd s o hs ho
/-- the width bound is necessary: a five-digit year breaks the order -/
theorem width_bound_necessary : cmpChars (Solar.toYmd ⟨10000, 1, 1, 0, 0, 0⟩) (Solar.toYmd ⟨9999, 12, 31, 0, 0, 0⟩) = .lt :=
  Model.width_bound_necessary

/-- Chinese rendering of lunar / Taoist / Buddhist dates parses back; distinct dates never print alike -/
theorem chinese_parse_back (y m d : Int) (hy : 0 ≤ y) (hm : (1 ≤ m ∧ m ≤ 12) ∨ (-12 ≤ m ∧ m ≤ -1)) (hd : 1 ≤ d ∧ d ≤ 30) :
    parseLunarCp (lunarCp y m d) = some (y, m, d) := parse_lunarCp y m d hy hm hd
theorem chinese_injective (y m d y' m' d' : Int) (hy : 0 ≤ y) (hy' : 0 ≤ y')
    (hm : (1 ≤ m ∧ m ≤ 12) ∨ (-12 ≤ m ∧ m ≤ -1)) (hm' : (1 ≤ m' ∧ m' ≤ 12) ∨ (-12 ≤ m' ∧ m' ≤ -1))
    (hd : 1 ≤ d ∧ d ≤ 30) (hd' : 1 ≤ d' ∧ d' ≤ 30) (h : lunarCp y m d = lunarCp y' m' d') : (y, m, d) = (y', m', d') :=
  lunarCp_inj y m d y' m' d' hy hy' hm hm' hd hd' h

example : InWidth ⟨2024, 2, 29, 23, 59, 59⟩ := by unfold InWidth; decide

end Props.C19
