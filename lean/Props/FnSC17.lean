/-
C17 (regenerated function bodies, string mode) — Taoist / Buddhist predicates and renderings of the regenerated code equal the model.
`Gen/FnS.lean` is regenerated from /repo's source on every run by gotrans/fntrans.go in string mode (every function of the module that
lies entirely inside the subset: no atoms, nothing dropped); the theorems indexed here are re-checked against it. A function that an
edit pushes out of the subset disappears from `Gen/FnS.lean` and its theorem no longer elaborates.
-/
import Proofs.FnSTaoFoto
import Proofs.FnSRender
namespace Props.FnSC17

def obligations : List Lean.Name := [
  ``FnSEq.taoGetMonth_eq,
  ``FnSEq.taoGetDay_eq,
  ``FnSEq.taoGetLunar_eq,
  ``FnSEq.taoGetYear_eq,
  ``FnSEq.newTaoFromLunar_eq,
  ``FnSEq.taoIsDayMingWu_eq,
  ``FnSEq.taoIsDayMingWu_panic,
  ``FnSEq.taoIsDayAnWu_eq,
  ``FnSEq.taoIsDayAnWu_panic,
  ``FnSEq.taoIsDayWu_eq_of_mingWu,
  ``FnSEq.taoIsDayWu_eq,
  ``FnSEq.taoIsDayWu_panic_gan,
  ``FnSEq.taoIsDayBaHui_eq,
  ``FnSEq.fotoGetMonth_eq,
  ``FnSEq.fotoGetDay_eq,
  ``FnSEq.fotoGetLunar_eq,
  ``FnSEq.fotoGetYear_eq,
  ``FnSEq.newFotoFromLunar_eq,
  ``FnSEq.fotoIsMonthZhai_eq,
  ``FnSEq.fotoIsDayZhaiShuoWang_eq,
  ``FnSEq.fotoIsDayZhaiTen_eq,
  ``FnSEq.fotoIsDayZhaiGuanYin_eq,
  ``FnSEq.fotoUtilGetXiu_total,
  ``FnSEq.fotoGetXiu_eq,
  ``FnSEq.fotoGetXiu_panic,
  ``FnSEq.fotoGetAnimal_eq,
  ``FnSEq.fotoGetGong_eq,
  ``FnSEq.fotoGetShou_eq,
  ``FnSEq.fotoGetXiuLuck_eq,
  ``FnSEq.fotoGetXiuSong_eq,
  ``FnSEq.fotoGetZheng_eq,
  ``FnSEq.lunarGetDayInChinese_eq,
  ``FnSEq.lunarGetDayInChinese_panic,
  ``FnSEq.lunarGetMonthInChinese_eq,
  ``FnSEq.lunarGetMonthInChinese_panic,
  ``FnSEq.lunarGetYearInChinese_eq,
  ``FnSEq.lunarGetYearInChinese_panic,
  ``FnSEq.lunarString_eq,
  ``FnSEq.taoGetYearInChinese_eq,
  ``FnSEq.taoGetMonthInChinese_eq,
  ``FnSEq.taoGetDayInChinese_eq,
  ``FnSEq.taoToString_eq,
  ``FnSEq.taoString_eq,
  ``FnSEq.fotoGetYearInChinese_eq,
  ``FnSEq.fotoGetMonthInChinese_eq,
  ``FnSEq.fotoGetDayInChinese_eq,
  ``FnSEq.fotoToString_eq,
  ``FnSEq.fotoString_eq ]

end Props.FnSC17
