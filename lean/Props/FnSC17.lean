/-
C17 (regenerated function bodies, string mode) — Taoist / Buddhist predicates and renderings of the regenerated code equal the model.
`Gen/FnS.lean` is regenerated from /repo's source on every run by gotrans/fntrans.go in string mode (every function of the module that
lies entirely inside the subset: no atoms, nothing dropped); the theorems indexed here are re-checked against it. A function that an
edit pushes out of the subset disappears from `Gen/FnS.lean` and its theorem no longer elaborates.
-/
import Proofs.FnSTaoFoto
import Proofs.FnSRender
import Proofs.FnSTaoDay
namespace Props.FnSC17

set_option maxRecDepth 100000
def listing (fn : String) : List (String × String × String) × List String × List String :=
  ((Gen.FnS.atoms.filter (fun a => a.1 == fn)).map (fun a => a.2),
   (Gen.FnS.dropped.filter (fun a => a.1 == fn)).map (fun a => a.2),
   (Gen.FnS.notes.filter (fun a => a.1 == fn)).map (fun a => a.2))

theorem pin_calendar_Tao_IsDaySanHui : (Gen.FnS.translated.contains "calendar.Tao.IsDaySanHui" && listing "calendar.Tao.IsDaySanHui" ==
    (([("a1", "Bool", "t.isDayIn(TaoUtil.SAN_HUI)")] : List (String × String × String)),
     ([] : List String),
     ([] : List String))) = true := by decide +kernel

theorem pin_calendar_Tao_IsDaySanYuan : (Gen.FnS.translated.contains "calendar.Tao.IsDaySanYuan" && listing "calendar.Tao.IsDaySanYuan" ==
    (([("a1", "Bool", "t.isDayIn(TaoUtil.SAN_YUAN)")] : List (String × String × String)),
     ([] : List String),
     ([] : List String))) = true := by decide +kernel

theorem pin_calendar_Tao_IsDayWuLa : (Gen.FnS.translated.contains "calendar.Tao.IsDayWuLa" && listing "calendar.Tao.IsDayWuLa" ==
    (([("a1", "Bool", "t.isDayIn(TaoUtil.WU_LA)")] : List (String × String × String)),
     ([] : List String),
     ([] : List String))) = true := by decide +kernel

theorem pin_calendar_Tao_IsDayBaJie : (Gen.FnS.translated.contains "calendar.Tao.IsDayBaJie" && listing "calendar.Tao.IsDayBaJie" ==
    (([("a1", "String", "t.lunar.GetJieQi()")] : List (String × String × String)),
     ([] : List String),
     ([] : List String))) = true := by decide +kernel

def obligations : List Lean.Name := [
  ``FnSEq.taoGetMonth_eq,
  ``FnSEq.taoGetDay_eq,
  ``FnSEq.taoGetLunar_eq,
  ``FnSEq.taoGetYear_eq,
  ``FnSEq.newTaoFromLunar_eq,
  ``FnSEq.taoIsDayMingWu_eq,
  ``FnSEq.taoIsDayMingWu_panic,
  ``FnSEq.taoIsDayAnWu_eq,
  ``FnSEq.taoIsDayAnWu_panic,
  ``FnSEq.taoIsDayWu_eq_of_mingWu,
  ``FnSEq.taoIsDayWu_eq,
  ``FnSEq.taoIsDayWu_panic_gan,
  ``FnSEq.taoIsDayBaHui_eq,
  ``FnSEq.fotoGetMonth_eq,
  ``FnSEq.fotoGetDay_eq,
  ``FnSEq.fotoGetLunar_eq,
  ``FnSEq.fotoGetYear_eq,
  ``FnSEq.newFotoFromLunar_eq,
  ``FnSEq.fotoIsMonthZhai_eq,
  ``FnSEq.fotoIsDayZhaiShuoWang_eq,
  ``FnSEq.fotoIsDayZhaiTen_eq,
  ``FnSEq.fotoIsDayZhaiGuanYin_eq,
  ``FnSEq.fotoUtilGetXiu_total,
  ``FnSEq.fotoGetXiu_eq,
  ``FnSEq.fotoGetXiu_panic,
  ``FnSEq.fotoGetAnimal_eq,
  ``FnSEq.fotoGetGong_eq,
  ``FnSEq.fotoGetShou_eq,
  ``FnSEq.fotoGetXiuLuck_eq,
  ``FnSEq.fotoGetXiuSong_eq,
  ``FnSEq.fotoGetZheng_eq,
  ``FnSEq.lunarGetDayInChinese_eq,
  ``FnSEq.lunarGetDayInChinese_panic,
  ``FnSEq.lunarGetMonthInChinese_eq,
  ``FnSEq.lunarGetMonthInChinese_panic,
  ``FnSEq.lunarGetYearInChinese_eq,
  ``FnSEq.lunarGetYearInChinese_panic,
  ``FnSEq.lunarString_eq,
  ``FnSEq.taoGetYearInChinese_eq,
  ``FnSEq.taoGetMonthInChinese_eq,
  ``FnSEq.taoGetDayInChinese_eq,
  ``FnSEq.taoToString_eq,
  ``FnSEq.taoString_eq,
  ``FnSEq.fotoGetYearInChinese_eq,
  ``FnSEq.fotoGetMonthInChinese_eq,
  ``FnSEq.fotoGetDayInChinese_eq,
  ``FnSEq.fotoToString_eq,
  ``FnSEq.fotoString_eq,
  ``FnSEq.taoIsDaySanHui_eq,
  ``FnSEq.taoIsDaySanYuan_eq,
  ``FnSEq.taoIsDayWuLa_eq,
  ``FnSEq.taoIsDaySanHui_eq_model,
  ``FnSEq.taoIsDaySanYuan_eq_model,
  ``FnSEq.taoIsDayWuLa_eq_model,
  ``FnSEq.taoIsDayBaJie_shape,
  ``FnSEq.taoIsDayBaJie_lookup,
  ``FnSEq.taoIsDayBaJie_eq ]

end Props.FnSC17
