/-
C15 — Civil weeks/months/seasons/half-years/years partition time and navigate back.
Index of the property theorems proved in Proofs/WeekSpec.lean. October 1582 is excluded where the
statement needs contiguous day numbers (the week index there is a recorded known finding).
-/
import Proofs.WeekSpec
namespace Props.C15
open Model

def obligations : List Lean.Name := [
  ``Model.firstDay_spec, ``Model.days_spec, ``Model.daysInMonth_spec,
  ``Model.index_first, ``Model.index_succ, ``Model.indexInYear_first, ``Model.indexInYear_succ,
  ``Model.weeksOfMonth_eq_last_index_partial, ``Model.weeksOfMonth_eq_last_index_1582, ``Model.index_succ_1582, ``Model.monthWeeks_length, ``Model.monthDays_spec, ``Model.oct1582_21,
  ``Model.seasonMonths_spec, ``Model.halfYearMonths_spec, ``Model.yearMonths_spec,
  ``Model.nextYm_total, ``Model.nextYm_add, ``Model.nextYm_inv, ``Model.seasonNext_inv, ``Model.halfYearNext_inv,
  ``Model.week_next_plain, ``Model.week_next_plain_inv,
  ``Model.next_sep_one, ``Model.next_sep_walk, ``Model.prev_sep_walk ]

example : weeksOfMonth 2022 5 1 = 6 ∧ weeksOfMonth 2022 5 0 = 5 := by decide

end Props.C15
