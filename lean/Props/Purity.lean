/-
Purity of the library's state (an assumption of EVERY property: each is stated about values as functions of their arguments):
regenerated syntactic facts showing that no call can leave a trace that a later call observes, except the year cache (C09's
protocol) and the documented configuration call `HolidayUtil.Fix`.
A memo added to a helper (e.g. a "last result" cache in `SolarUtil.GetWeek`) breaks `package_state_writes`; a shared scratch buffer
breaks `non_table_package_state` or `element_writes`. Such changes are invisible to any sweep that visits inputs in a monotone order.
-/
import Gen.Facts
import Gen.Tables
namespace Props.Purity
set_option maxRecDepth 100000

/-- no package-level variable is ever assigned except the year cache (inside NewLunarYear) and the holiday
table/names (inside the documented configuration call Fix) -/
theorem package_state_writes : ((Gen.Facts.writes.filter (fun w => w.2.1 == "var")).map (fun w => (w.1, w.2.2.1)) ==
    [("HolidayUtil.Fix", "HolidayUtil.namesInUse"), ("HolidayUtil.Fix", "HolidayUtil.dataInUse"),
     ("calendar.NewLunarYear", "calendar.CACHE_YEAR")]) = true := by decide +kernel

/-- the only package-level variables of the six data packages that are not constant data literals are the year cache and its lock -/
theorem non_table_package_state : (Gen.Tables.skipped ==
    ["calendar.CACHE_YEAR (not a data literal)", "calendar.lock (no initializer)"]) = true := by decide +kernel

/-- package-level variables of ShouXingUtil (not covered by Gen.Tables): exactly the coefficient tables -/
theorem shouxing_package_vars : (((Gen.Facts.pkgVars.filter (fun v => v.1 == "ShouXingUtil")).map (fun v => v.2.1)) ==
    ["DT_AT", "NUT_B", "QB", "QI_KB", "SB", "SHUO_KB", "XL0", "XL1"]) = true := by decide +kernel

/-- no element of a package-level table is ever assigned; the only element writes through a struct field are those of
`LunarYear.compute` filling the term slice of the year it is building -/
theorem element_writes : (Gen.Facts.elemWrites ==
    [("calendar.LunarYear.compute", "field:LunarYear.jieQiJulianDays")]) = true := by decide +kernel

/-- no struct field is assigned outside constructors (`New*`, `compute*`) and explicit setters (`Set*`) -/
theorem fields_written_only_by_constructors :
    ((Gen.Facts.writes.filter (fun w => w.2.1 == "field" && !(w.2.2.2 == "constructor" || w.2.2.2 == "setter"))).map (fun w => (w.1, w.2.2.1)) ==
    ([] : List (String × String))) = true := by decide +kernel

/-- `EightChar.sect` — the day-boundary school of the eight-character object that a lunar date shares with its callers, the only
caller-settable state hanging off a date object (`SetSect`) — is READ, transitively, only by the eight-character object's own
day-pillar-dependent accessors and by the `Lunar.GetBaZi*` views of that object. Any other accessor of a date (an almanac attribute, a
nine star, a Taoist / Buddhist day class …) that starts consulting the shared object appears in this list: its value would then
depend on an earlier setter call, which no sweep over freshly built objects can observe. -/
theorem eightchar_school_readers :
    (((Gen.Facts.readSets.filter (fun r => r.2.1.contains "EightChar.sect")).map (fun r => r.1)) ==
    ["calendar.EightChar.GetDay",
     "calendar.EightChar.GetDayDiShi",
     "calendar.EightChar.GetDayGan",
     "calendar.EightChar.GetDayGanIndex",
     "calendar.EightChar.GetDayHideGan",
     "calendar.EightChar.GetDayNaYin",
     "calendar.EightChar.GetDayShiShenZhi",
     "calendar.EightChar.GetDayWuXing",
     "calendar.EightChar.GetDayXun",
     "calendar.EightChar.GetDayXunKong",
     "calendar.EightChar.GetDayZhi",
     "calendar.EightChar.GetDayZhiIndex",
     "calendar.EightChar.GetMonthDiShi",
     "calendar.EightChar.GetMonthShiShenGan",
     "calendar.EightChar.GetMonthShiShenZhi",
     "calendar.EightChar.GetSect",
     "calendar.EightChar.GetTaiXi",
     "calendar.EightChar.GetTaiXiNaYin",
     "calendar.EightChar.GetTimeDiShi",
     "calendar.EightChar.GetTimeShiShenGan",
     "calendar.EightChar.GetTimeShiShenZhi",
     "calendar.EightChar.GetYearDiShi",
     "calendar.EightChar.GetYearShiShenGan",
     "calendar.EightChar.GetYearShiShenZhi",
     "calendar.EightChar.String",
     "calendar.Lunar.GetBaZi",
     "calendar.Lunar.GetBaZiNaYin",
     "calendar.Lunar.GetBaZiShiShenDayZhi",
     "calendar.Lunar.GetBaZiShiShenGan",
     "calendar.Lunar.GetBaZiShiShenMonthZhi",
     "calendar.Lunar.GetBaZiShiShenTimeZhi",
     "calendar.Lunar.GetBaZiShiShenYearZhi",
     "calendar.Lunar.GetBaZiShiShenZhi",
     "calendar.Lunar.GetBaZiWuXing"]) = true := by decide +kernel

end Props.Purity
