/-
C20 (regenerated function bodies, string mode) — zodiac sign and civil festivals: the regenerated `GetXingZuo` equals the model's for all month / day integers; the regenerated `Solar.GetFestivals` is the model's fixed-date + k-th weekday + last-weekday list.
`Gen/FnS.lean` is regenerated from /repo's source on every run by gotrans/fntrans.go in string mode (every function of the module that
lies entirely inside the subset: no atoms, nothing dropped); the theorems indexed here are re-checked against it. A function that an
edit pushes out of the subset disappears from `Gen/FnS.lean` and its theorem no longer elaborates.
-/
import Proofs.FnSXingZuo
import Proofs.FnSSolarFest
namespace Props.FnSC20

set_option maxRecDepth 100000
def listing (fn : String) : List (String × String × String) × List String × List String :=
  ((Gen.FnS.atoms.filter (fun a => a.1 == fn)).map (fun a => a.2),
   (Gen.FnS.dropped.filter (fun a => a.1 == fn)).map (fun a => a.2),
   (Gen.FnS.notes.filter (fun a => a.1 == fn)).map (fun a => a.2))

theorem pin_calendar_Solar_GetFestivals : (Gen.FnS.translated.contains "calendar.Solar.GetFestivals" && listing "calendar.Solar.GetFestivals" ==
    (([("a1", "Int", "solar.GetWeek()")] : List (String × String × String)),
     ([] : List String),
     (["int(math.Ceil(float64(E)/7)) translated as the exact integer ceiling (valid for |E| < 2^50)"] : List String))) = true := by decide +kernel

def obligations : List Lean.Name := [
  ``FnSEq.solarGetXingZuo_eq,
  ``FnSEq.solarGetXingzuo_eq,
  ``FnSEq.solarGetFestivals_shape,
  ``FnSEq.solarGetFestivals_eq,
  ``FnSEq.solarGetFestivals_eq',
  ``FnSEq.solarGetFestivals_panic ]

end Props.FnSC20
