/-
C20 (regenerated function bodies, string mode) — zodiac sign: the regenerated `GetXingZuo` equals the model's for all month / day integers.
`Gen/FnS.lean` is regenerated from /repo's source on every run by gotrans/fntrans.go in string mode (every function of the module that
lies entirely inside the subset: no atoms, nothing dropped); the theorems indexed here are re-checked against it. A function that an
edit pushes out of the subset disappears from `Gen/FnS.lean` and its theorem no longer elaborates.
-/
import Proofs.FnSXingZuo
namespace Props.FnSC20

def obligations : List Lean.Name := [
  ``FnSEq.solarGetXingZuo_eq,
  ``FnSEq.solarGetXingzuo_eq ]

end Props.FnSC20
