/-
C05 — Year/month/day/hour pillars run in unbroken 60-cycles with exact change-overs.
Index of the property theorems (proved in Proofs/Pillars.lean over the executable model of
`compute`); each listed name is audited (axioms) on every run. Statements are in Proofs/Pillars.lean
exactly as given to the prover; the notable ones are restated here.
-/
import Proofs.Pillars
namespace Props.C05
open Model

def obligations : List Lean.Name := [
  ``Model.timeZhi_eq,              -- hour branch fixed by the two-hour slot
  ``Model.time_pillar,             -- hour stem by the five-rats rule from the early-rat day stem
  ``Model.computeDay_plain,        -- day pillar = (day number − 11) mod 10 / 12
  ``Model.cycleIndex_spec,
  ``Model.day_cycle_succ,          -- one step of the 60-cycle per civil day (switch included)
  ``Model.computeDay_exact,        -- 23:00–23:59 → next day (early rat), same day (late rat)
  ``Model.year_pillars_partial,    -- three year conventions, all lunar-year/civil-year offsets
  ``Model.year_pillars_of_lead_after,
  ``Model.monthScan_day, ``Model.monthScan_instant,   -- scan index = number of Jie passed − 3 (day / second level)
  ``Model.computeMonth_eq, ``Model.monthPillar_zhi, ``Model.monthPillar_step, ``Model.five_tigers,
  ``Model.month_year_consistent,   -- the stems `compute` feeds the month pillar are the ones the step theorem assumes
  ``Model.pillars_valid ]          -- all nine pillars are valid stem-branch pairs

/-- the day pillar advances by exactly one step per civil day (restated) -/
theorem day_pillar_unbroken (s r : Solar) (h : r.jdn = s.jdn + 1) (hh mi : Int) :
    cycleIndex (computeDay r hh mi).1 (computeDay r hh mi).2.1 = (cycleIndex (computeDay s hh mi).1 (computeDay s hh mi).2.1 + 1) % 60 :=
  day_cycle_succ s r h hh mi

/-- hour branch (restated) -/
theorem hour_branch (h mi : Int) (hh : 0 ≤ h ∧ h ≤ 23) (hm : 0 ≤ mi ∧ mi ≤ 59) : timeZhiIndexOf h mi = ((h + 1) / 2) % 12 :=
  timeZhi_eq h mi hh hm

example : timeZhiIndexOf 23 0 = 0 ∧ timeZhiIndexOf 22 59 = 11 ∧ timeZhiIndexOf 0 59 = 0 ∧ timeZhiIndexOf 1 0 = 1 := by decide

end Props.C05
