/-
C05 (regenerated function bodies, string mode) — hour branch: the regenerated `LunarUtil.GetTimeZhiIndex` on the "%02d:%02d" key equals the model's scan, and the string-mode `computeTime` equals the model's time pillar (this discharges the atom of the int-mode `computeTime`).
`Gen/FnS.lean` is regenerated from /repo's source on every run by gotrans/fntrans.go in string mode (every function of the module that
lies entirely inside the subset: no atoms, nothing dropped); the theorems indexed here are re-checked against it. A function that an
edit pushes out of the subset disappears from `Gen/FnS.lean` and its theorem no longer elaborates.
-/
import Proofs.FnSTimeZhi
namespace Props.FnSC05


def obligations : List Lean.Name := [
  ``FnSEq.strCompare_eq_cmpChars,
  ``FnSEq.getTimeZhiIndex_scan,
  ``FnSEq.getTimeZhiIndex_empty,
  ``FnSEq.getTimeZhiIndex_eq',
  ``FnSEq.getTimeZhiIndex_eq,
  ``FnSEq.timeZhiScan_range,
  ``FnSEq.timeZhiIndexOf_range,
  ``FnSEq.convertTime_scan,
  ``FnSEq.convertTime_empty,
  ``FnSEq.convertTime_eq,
  ``FnSEq.computeTimeS_raw,
  ``FnSEq.computeTimeS_eq ]

end Props.FnSC05
