/-
C07 — Constructors accept exactly the dates that exist and never build an invalid one.
-/
import Proofs.Convert
import Proofs.GenAstroOK
import Gen.Facts
namespace Props.C07
open Model

/-- the civil constructor succeeds exactly on valid tuples (month, day for that month and year with
1582-10-05..14 absent, hour, minute, second in range) and "panics" (none) otherwise -/
theorem newSolar_ok_iff (y m d h mi s : Int) :
    (newSolar y m d h mi s).isSome = true ↔ (validYmd y m d = true ∧ validHms h mi s = true) := by
  unfold newSolar
  by_cases hv : (validYmd y m d && validHms h mi s) = true
  · simp [hv]; simpa [Bool.and_eq_true] using hv
  · simp only [hv]
    constructor
    · intro h'; cases h'
    · intro ⟨a, b⟩; simp [a, b] at hv

theorem newSolar_fields (y m d h mi s : Int) (r : Solar) (e : newSolar y m d h mi s = some r) :
    r = ⟨y, m, d, h, mi, s⟩ ∧ r.valid = true := by
  unfold newSolar at e
  split at e
  · rename_i hv; cases e; exact ⟨rfl, by simpa [Solar.valid] using hv⟩
  · cases e

/-- the lunar constructor accepts exactly the triples that are the image of some civil day (and an in-range time) -/
theorem newLunar_ok_iff (ly lm ld hh mi ss : Int) (hy : 2 ≤ ly) (hhi : ly ≤ 9999) :
    (Lunar.fromYmdHms genAstro ly lm ld hh mi ss).isSome = true ↔
      (validHms hh mi ss = true ∧ ∃ s : Solar, s.valid = true ∧ ∃ l, Lunar.fromSolar genAstro s = some l ∧
         l.year = ly ∧ l.month = lm ∧ l.day = ld) := by
  apply fromYmd_ok_iff_closed genAstro 0 10000 genAstro_ok
  · intro y hy'
    unfold genAstro
    have : ¬ (0 ≤ y ∧ y ≤ 10000) := by omega
    simp [this, emptyAstro]
  all_goals omega

/-- closure: every stepping / conversion function of the model returns a valid object from a valid one -/
theorem nextDay_closed (s : Solar) (n : Int) (hv : s.valid = true) : ∃ r, s.nextDay n = some r ∧ r.valid = true := by
  obtain ⟨r, h1, h2, _⟩ := nextDay_spec_strong s n hv; exact ⟨r, h1, h2⟩
theorem nextMonth_closed (s : Solar) (n : Int) (hv : s.valid = true) : ∃ r, s.nextMonth n = some r ∧ r.valid = true := by
  obtain ⟨r, h1, h2, _⟩ := nextMonth_spec s n hv; exact ⟨r, h1, h2⟩
theorem nextYear_closed (s : Solar) (n : Int) (hv : s.valid = true) : ∃ r, s.nextYear n = some r ∧ r.valid = true := by
  obtain ⟨r, h1, h2, _⟩ := nextYear_spec s n hv; exact ⟨r, h1, h2⟩
theorem nextHour_closed (s : Solar) (n : Int) (hv : s.valid = true) (hy : 1 ≤ s.year) : ∃ r, s.nextHour n = some r ∧ r.valid = true := by
  obtain ⟨r, h1, h2, _⟩ := nextHour_spec s n hv hy; exact ⟨r, h1, h2⟩
theorem fromJD_closed (n : Int) (h : 1721424 * 4294967296 - 2147483648 ≤ n) : ∃ r, fromJD n = some r ∧ r.valid = true := by
  obtain ⟨r, h1, h2, _⟩ := fromJD_total n h; exact ⟨r, h1, h2⟩
theorem lunar_of_valid (s : Solar) (hv : s.valid = true) (hy : 1 ≤ s.year) (hhi : s.year ≤ 9999) :
    ∃ l, Lunar.fromSolar genAstro s = some l ∧ l.solar = s ∧ l.month ≠ 0 ∧ 1 ≤ l.day ∧ l.day ≤ 30 := by
  obtain ⟨l, r, h1, hr, _, _, h5, h6, _, h8, _, _, _, h12⟩ := fromSolar_spec genAstro 0 10000 genAstro_ok s hv hy (by omega) (by omega)
  refine ⟨l, h1, h8, h12, h5, ?_⟩
  have hc := genAstro_ok.year s.year (by omega) (by omega)
  simp only [yearOk, Bool.and_eq_true] at hc
  have hm := hc.1.1.1
  simp only [monthsCoreOk, Bool.and_eq_true, List.all_eq_true, decide_eq_true_eq] at hm
  have := (hm.1.1.1.2 r hr)
  omega

/-- funnel (regenerated syntactic fact): `Solar` / `Lunar` structs are allocated only inside the checking constructors -/
theorem funnel : (Gen.Facts.constructions.filter (fun p => p.2 == "Solar" || p.2 == "Lunar")).map (·.1)
    = ["calendar.NewLunar", "calendar.NewLunarFromSolar", "calendar.NewSolar"] := by decide

end Props.C07
