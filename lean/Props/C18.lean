/-
C18 — Almanac attributes are pure functions of the pillars they are defined on; classical laws.
-/
import Proofs.AlmanacSpec
namespace Props.C18
open Model

def obligations : List Lean.Name := [
  ``Model.almVector_congr, ``Model.eightChar_congr,
  ``Model.jiazi_compose, ``Model.chong_six_away, ``Model.nayin_pairs, ``Model.zhiXing_jian, ``Model.zhiXing_distinct,
  ``Model.xiu_keys_present, ``Model.xiu_cycle ]

end Props.C18
