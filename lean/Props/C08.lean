/-
C08 — Every accessor is total on valid dates and returns well-formed values.
PROVED: (1) regenerated syntactic fact: every type assertion on a list element asserts exactly the type
that was pushed (this is what made SolarWeek.GetDaysInMonth / Foto.IsDayYangGong panic before the fixes);
(2) index ranges of all pillar fields (C05 `pillars_valid`), nine-star indices (C16), so every slice index
of the modelled accessors is in bounds; (3) table facts: the keyed tables hold every key the accessors can
form; (4) totality of the modelled conversions (C01/C04). The accessors outside the modelled set (counted
in evidence: search_stats.methods) are covered by the reflection sweep only.
-/
import Proofs.Pillars
import Proofs.NineStarSpec
import Proofs.AlmanacSpec
import Gen.Facts
namespace Props.C08
open Model

def obligations : List Lean.Name := [
  ``Model.pillars_valid, ``Model.lunarYear_star_range, ``Model.month_star_range, ``Model.lunarMonth_star_range,
  ``Model.time_star_range, ``Model.day_star_range, ``Model.xiu_keys_present, ``Model.nayin_pairs, ``Model.star_tables_len ]

/-- every `x.Value.(T)` asserts exactly the element type pushed into the list it reads -/
theorem assertions_match : Gen.Facts.assertions.all (fun a => !a.2.2.2.isEmpty && a.2.2.2.all (· == a.2.1)) = true := by decide

/-- the ten-god table has all 100 stem×stem keys; hidden stems exist for all 12 branches; elements for all stems/branches -/
theorem shiShen_keys : (List.range 10).all (fun a => (List.range 10).all (fun b =>
    lookupStr Gen.Tables.LunarUtil.SHI_SHEN (ganStr a ++ ganStr b) != "")) = true := by decide
theorem hideGan_keys : (List.range 12).all (fun z => !(EightChar.hideGan z).isEmpty) = true := by decide
theorem wuXing_keys : (List.range 10).all (fun g => lookupStr Gen.Tables.LunarUtil.WU_XING_GAN (ganStr g) != "") = true ∧
    (List.range 12).all (fun z => lookupStr Gen.Tables.LunarUtil.WU_XING_ZHI (zhiStr z) != "") = true := by decide
theorem tianShen_keys : (List.range 12).all (fun z => (lookupS Gen.Tables.LunarUtil.ZHI_TIAN_SHEN_OFFSET (zhiStr z)).isSome) = true := by decide
theorem sha_keys : (List.range 12).all (fun z => sha z != "") = true := by decide
theorem table_lengths :
    Gen.Tables.LunarUtil.GAN.length = 11 ∧ Gen.Tables.LunarUtil.ZHI.length = 13 ∧ Gen.Tables.LunarUtil.JIA_ZI.length = 60 ∧
    Gen.Tables.LunarUtil.SHENG_XIAO.length = 13 ∧ Gen.Tables.LunarUtil.ZHI_XING.length = 13 ∧ Gen.Tables.LunarUtil.TIAN_SHEN.length = 13 ∧
    Gen.Tables.LunarUtil.CHONG.length = 12 ∧ Gen.Tables.LunarUtil.CHONG_GAN.length = 10 ∧ Gen.Tables.LunarUtil.CHONG_GAN_TIE.length = 10 ∧
    Gen.Tables.LunarUtil.POSITION_XI.length = 11 ∧ Gen.Tables.LunarUtil.POSITION_YANG_GUI.length = 11 ∧ Gen.Tables.LunarUtil.POSITION_YIN_GUI.length = 11 ∧
    Gen.Tables.LunarUtil.POSITION_FU.length = 11 ∧ Gen.Tables.LunarUtil.POSITION_FU_2.length = 11 ∧ Gen.Tables.LunarUtil.POSITION_CAI.length = 11 ∧
    Gen.Tables.LunarUtil.PENGZU_GAN.length = 11 ∧ Gen.Tables.LunarUtil.PENGZU_ZHI.length = 13 ∧ Gen.Tables.LunarUtil.POSITION_TAI_DAY.length = 60 ∧
    Gen.Tables.LunarUtil.POSITION_TAI_MONTH.length = 12 ∧ Gen.Tables.LunarUtil.YUE_XIANG.length = 31 ∧ Gen.Tables.LunarUtil.DAY.length = 31 ∧
    Gen.Tables.LunarUtil.MONTH.length = 13 ∧ Gen.Tables.LunarUtil.SEASON.length = 13 ∧ Gen.Tables.LunarUtil.LIU_YAO.length = 6 ∧
    Gen.Tables.LunarUtil.XUN.length = 6 ∧ Gen.Tables.LunarUtil.XUN_KONG.length = 6 ∧ Gen.Tables.LunarUtil.HE_GAN_5.length = 10 ∧ Gen.Tables.LunarUtil.HE_ZHI_6.length = 12 ∧
    Gen.Tables.LunarUtil.POSITION_TAI_SUI_YEAR.length = 12 ∧ Gen.Tables.LunarUtil.POSITION_GAN.length = 10 ∧
    Gen.Tables.calendar.CHANG_SHENG.length = 12 ∧ Gen.Tables.calendar.MONTH_ZHI.length = 13 ∧ Gen.Tables.SolarUtil.WEEK.length = 7 := by decide

end Props.C08
