/-
C03 — Solar terms: canonical order, spacing, sharing between adjacent years, lookup semantics.
The table facts hold for the concrete regenerated oracle (every year 1..9998, kernel-checked in
`Gen/AstroK`); the lookup theorems hold for every table satisfying `termsOk`.
The "instant = root of the solar longitude" clause is NOT a theorem here: it is validated by the
implementation-level search against the library's own ephemeris (hook VerifSaLon), see DESIGN.
-/
import Proofs.JieQiSpec
import Proofs.GenAstroOK
namespace Props.C03
open Model

/-- for every civil year 1..9998 the regenerated 31-entry table is valid, strictly increasing,
14.6–15.8 days apart, with the winter solstice in December of y−1 and Lichun in year y -/
theorem table_ok (y : Int) (h1 : 1 ≤ y) (h2 : y ≤ 9998) : termsOk y (genAstro y).terms = true := by
  have h := genAstro_ok.year y (by omega) (by omega)
  have hr : termsInRange y = true := by simp [termsInRange]; omega
  simp only [yearOk, Bool.and_eq_true, Bool.or_eq_true, Bool.not_eq_true'] at h
  rcases h.1.2 with h' | h'
  · rw [hr] at h'; cases h'
  · exact h'

/-- tables of adjacent years give the same instant for the terms they share -/
theorem shared_terms (y : Int) (h1 : 1 ≤ y) (h2 : y + 1 ≤ 9998) :
    termsShared (genAstro y).terms (genAstro (y + 1)).terms = true := by
  have h := genAstro_ok.pair y (by omega) (by omega)
  have hr : termsInRange y = true := by simp [termsInRange]; omega
  have hr' : termsInRange (y + 1) = true := by simp [termsInRange]; omega
  simp only [pairOk, Bool.and_eq_true, Bool.or_eq_true, Bool.not_eq_true'] at h
  rcases h.2 with (h' | h') | h'
  · rw [hr] at h'; cases h'
  · rw [hr'] at h'; cases h'
  · exact h'

theorem names_canonical : (List.range 31).all (fun i =>
    (Gen.Tables.calendar.JIE_QI_IN_USE.getD i "" |> convertJieQi) == Gen.Tables.calendar.JIE_QI.getD ((i + 23) % 24) "?") = true :=
  Model.names_canonical

theorem filters_parity : (List.range 31).all (fun i =>
    (jieConditions.contains (convertJieQi (Gen.Tables.calendar.JIE_QI_IN_USE.getD i "")) == (i % 2 == 0)) &&
    (qiConditions.contains (convertJieQi (Gen.Tables.calendar.JIE_QI_IN_USE.getD i "")) == (i % 2 == 1))) = true :=
  Model.filters_parity

theorem jie_qi_partition : Gen.Tables.calendar.JIE_QI.all (fun n => jieQiIsJie n != jieQiIsQi n) = true :=
  Model.jie_qi_partition

/-- next term = earliest selected entry strictly after now; previous = latest at or before now -/
theorem next_is_earliest_after (y : Int) (l : Lunar) (filters : List String) (hts : termsOk y l.terms = true) (hnow : stampValid l.solar = true) :
    l.nearJieQi true filters false =
      ((selected filters l.terms).find? (fun e => decide (l.solar.key < e.2.key))).map (fun e => (convertJieQi e.1, e.2)) :=
  near_forward y l filters hts hnow

theorem prev_is_latest_at_or_before (y : Int) (l : Lunar) (filters : List String) (hts : termsOk y l.terms = true) (hnow : stampValid l.solar = true) :
    l.nearJieQi false filters false =
      (((selected filters l.terms).filter (fun e => decide (e.2.key ≤ l.solar.key))).getLast?).map (fun e => (convertJieQi e.1, e.2)) :=
  near_backward y l filters hts hnow

theorem next_whole_day (y : Int) (l : Lunar) (filters : List String) (hts : termsOk y l.terms = true) (hnow : stampValid l.solar = true) :
    l.nearJieQi true filters true =
      ((selected filters l.terms).find? (fun e => decide (dayKey l.solar < dayKey e.2))).map (fun e => (convertJieQi e.1, e.2)) :=
  near_forward_day y l filters hts hnow

theorem prev_whole_day (y : Int) (l : Lunar) (filters : List String) (hts : termsOk y l.terms = true) (hnow : stampValid l.solar = true) :
    l.nearJieQi false filters true =
      (((selected filters l.terms).filter (fun e => decide (dayKey e.2 ≤ dayKey l.solar))).getLast?).map (fun e => (convertJieQi e.1, e.2)) :=
  near_backward_day y l filters hts hnow

/-- the term named for a day is the unique entry whose instant falls on that civil day -/
theorem term_of_day (y : Int) (l : Lunar) (hts : termsOk y l.terms = true) :
    (∀ i, i < 31 → sameDay (l.terms.getD i nilSolar) l.solar = true →
        l.jieQi = convertJieQi (Gen.Tables.calendar.JIE_QI_IN_USE.getD i "")) ∧
    ((∀ i, i < 31 → sameDay (l.terms.getD i nilSolar) l.solar = false) → l.jieQi = "") :=
  jieQi_spec y l hts

theorem at_most_one_term_per_day (y : Int) (ts : List Solar) (h : termsOk y ts = true) (i j : Nat) (hi : i < j) (hj : j < 31) :
    ¬ sameDay (ts.getD i nilSolar) (ts.getD j nilSolar) = true := terms_distinct_days y ts h i j hi hj

end Props.C03
