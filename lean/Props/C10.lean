/-
C10 — Eight-character reverse lookup is sound, complete and sorted.
PROVED (Proofs/BaZiSpec.lean): soundness (every returned moment has the four requested pillars under
the requested day-boundary convention), order inside one candidate year, and "not earlier than the base
year" under validity of the term table. NOT proved: ordering across candidate years (60-year stride; needs
oracle facts, checked by search-C10) and completeness — which is FALSE for slots containing a Jie instant
(known finding, enumerated by search-C10).
-/
import Proofs.BaZiSpec
namespace Props.C10
open Model

def obligations : List Lean.Name := [ ``Model.baZi_sound, ``Model.baZi_year_sorted, ``Model.baZi_base, ``Model.baZi_base_of_valid_terms ]

end Props.C10
