/-
C14 — Holiday queries are views of one record set; workday stepping matches it.
Index of the property theorems proved in Proofs/HolidaySpec.lean (any well-formed record list) and
Proofs/HolidayData.lean (kernel-checked facts about the regenerated record table).
After the two `fix:` commits: by-target lookup is a filter over all aligned records; `Fix` inserts in date order.
-/
import Proofs.HolidaySpec
import Proofs.HolidayData
namespace Props.C14
open Model

def obligations : List Lean.Name := [
  ``Model.findForward_spec, ``Model.forwardRun_spec, ``Model.forward_view_eq_filter,        -- by day / month / year
  ``Model.alignedRecords_flat, ``Model.backward_view_eq_filter,                              -- by target
  ``Model.fix_add, ``Model.fix_remove_absent, ``Model.fix_replace, ``Model.fix_remove_present, -- fix-ups
  ``Model.nextWorkday_spec, ``Model.nextWorkday_zero,                                        -- workday stepping
  ``Model.HolidayData.data_len, ``Model.HolidayData.data_digits, ``Model.HolidayData.data_wf, ``Model.HolidayData.data_flat, ``Model.HolidayData.data_names_ok, ``Model.HolidayData.data_buildable,
  ``Model.HolidayData.data_sorted, ``Model.HolidayData.data_days_unique, ``Model.HolidayData.data_names_nodup, ``Model.HolidayData.data_workflag_ok ]

end Props.C14
