/-
C19 (regenerated function bodies, string mode) — formatting: `%0wd`, `ToYmd`, `ToYmdHms` and the Chinese renderings of the regenerated code equal the model's renderings.
`Gen/FnS.lean` is regenerated from /repo's source on every run by gotrans/fntrans.go in string mode (every function of the module that
lies entirely inside the subset: no atoms, nothing dropped); the theorems indexed here are re-checked against it. A function that an
edit pushes out of the subset disappears from `Gen/FnS.lean` and its theorem no longer elaborates.
-/
import Proofs.FnSFmt
import Proofs.FnSRender
namespace Props.FnSC19


def obligations : List Lean.Name := [
  ``FnSEq.fmtPad_toList,
  ``FnSEq.fmtPad_eq,
  ``FnSEq.solarToYmd_eq,
  ``FnSEq.solarToYmd_toList,
  ``FnSEq.solarToYmdHms_eq,
  ``FnSEq.solarString_eq,
  ``FnSEq.lunarGetDayInChinese_eq,
  ``FnSEq.lunarGetDayInChinese_panic,
  ``FnSEq.lunarGetMonthInChinese_eq,
  ``FnSEq.lunarGetMonthInChinese_panic,
  ``FnSEq.lunarGetYearInChinese_eq,
  ``FnSEq.lunarGetYearInChinese_panic,
  ``FnSEq.lunarString_eq,
  ``FnSEq.taoGetYearInChinese_eq,
  ``FnSEq.taoGetMonthInChinese_eq,
  ``FnSEq.taoGetDayInChinese_eq,
  ``FnSEq.taoToString_eq,
  ``FnSEq.taoString_eq,
  ``FnSEq.fotoGetYearInChinese_eq,
  ``FnSEq.fotoGetMonthInChinese_eq,
  ``FnSEq.fotoGetDayInChinese_eq,
  ``FnSEq.fotoToString_eq,
  ``FnSEq.fotoString_eq ]

end Props.FnSC19
