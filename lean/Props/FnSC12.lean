/-
C12 (regenerated function bodies, string mode) — fortune pillars: the regenerated `DaYun / XiaoYun / LiuNian / LiuYue .GetGanZhi` (and Xun / XunKong) equal the model's 60-cycle arithmetic from the month / hour / Lichun-year pillar, on every input (result, panic or out of fuel).
`Gen/FnS.lean` is regenerated from /repo's source on every run by gotrans/fntrans.go in string mode (every function of the module that
lies entirely inside the subset: no atoms, nothing dropped); the theorems indexed here are re-checked against it. A function that an
edit pushes out of the subset disappears from `Gen/FnS.lean` and its theorem no longer elaborates.
-/
import Proofs.FnSFortune
namespace Props.FnSC12

set_option maxRecDepth 100000
def listing (fn : String) : List (String × String × String) × List String × List String :=
  ((Gen.FnS.atoms.filter (fun a => a.1 == fn)).map (fun a => a.2),
   (Gen.FnS.dropped.filter (fun a => a.1 == fn)).map (fun a => a.2),
   (Gen.FnS.notes.filter (fun a => a.1 == fn)).map (fun a => a.2))

theorem pin_calendar_LiuNian_GetGanZhi : (Gen.FnS.translated.contains "calendar.LiuNian.GetGanZhi" && listing "calendar.LiuNian.GetGanZhi" ==
    (([("a1", "Lunar", "jieQi[\"立春\"].GetLunar()")] : List (String × String × String)),
     (["assignment outside the subset: jieQi := liuNian.lunar.GetJieQiTable()"] : List String),
     (["len(LunarUtil.JIA_ZI) read as the length of its initial value"] : List String))) = true := by decide +kernel

theorem pin_calendar_LiuYue_GetGanZhi : (Gen.FnS.translated.contains "calendar.LiuYue.GetGanZhi" && listing "calendar.LiuYue.GetGanZhi" ==
    (([("a1", "String", "liuYue.liuNian.GetGanZhi()")] : List (String × String × String)),
     ([] : List String),
     ([] : List String))) = true := by decide +kernel

def obligations : List Lean.Name := [
  ``FnSEq.yunToM_forward,
  ``FnSEq.yunToM_lunar,
  ``FnSEq.daYunToM_index,
  ``FnSEq.daYunToM_startAge,
  ``FnSEq.daYunToM_startYear,
  ``FnSEq.daYunToM_endYear,
  ``FnSEq.daYunToM_endAge,
  ``FnSEq.daYunGetGanZhi_total,
  ``FnSEq.daYunGetGanZhi_core,
  ``FnSEq.daYunGetGanZhi_eq,
  ``FnSEq.daYunGetGanZhi_eq',
  ``FnSEq.daYunGetGanZhi_panic,
  ``FnSEq.daYunGanZhi_model_out,
  ``FnSEq.daYunGetGanZhi_panic_pillar,
  ``FnSEq.daYunGetGanZhi_zero,
  ``FnSEq.xiaoYunGetGanZhi_total,
  ``FnSEq.xiaoYunGetGanZhi_core,
  ``FnSEq.xiaoYunGetGanZhi_eq,
  ``FnSEq.xiaoYunGetGanZhi_fuel,
  ``FnSEq.xiaoYunGetGanZhi_panic_pillar,
  ``FnSEq.liuNianGetGanZhi_total,
  ``FnSEq.liuNianGetGanZhi_core,
  ``FnSEq.liuNianGetGanZhi_eq,
  ``FnSEq.liuNianGetGanZhi_eq',
  ``FnSEq.liuNianGetGanZhi_panic,
  ``FnSEq.liuYueGetGanZhi_panic_empty,
  ``FnSEq.liuYueGetGanZhi_total,
  ``FnSEq.liuYueGetGanZhi_eq,
  ``FnSEq.liuYueGetGanZhi_eq',
  ``FnSEq.liuYueGetGanZhi_panic,
  ``FnSEq.daYunGanZhi_pillar,
  ``FnSEq.daYunGetXun_eq,
  ``FnSEq.daYunGetXunKong_eq,
  ``FnSEq.daYunGetXun_panic,
  ``FnSEq.xiaoYunGanZhi_pillar,
  ``FnSEq.xiaoYunGetXun_eq,
  ``FnSEq.xiaoYunGetXunKong_eq,
  ``FnSEq.newXiaoYun_eq,
  ``FnSEq.newLiuNian_eq,
  ``FnSEq.newLiuYue_eq,
  ``FnSEq.newDaYun_fields ]

end Props.FnSC12
