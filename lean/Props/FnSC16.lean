/-
C16 (regenerated function bodies, string mode) — nine-star object: every naming system (number, colour, element, position, Xuan Kong, Bei Dou, Qi Men, Tai Yi) reads its nine-entry table at the SAME index, is total on 0..8 and panics outside.
`Gen/FnS.lean` is regenerated from /repo's source on every run by gotrans/fntrans.go in string mode (every function of the module that
lies entirely inside the subset: no atoms, nothing dropped); the theorems indexed here are re-checked against it. A function that an
edit pushes out of the subset disappears from `Gen/FnS.lean` and its theorem no longer elaborates.
-/
import Proofs.FnSNineStarObj
namespace Props.FnSC16


def obligations : List Lean.Name := [
  ``FnSEq.nineStarGetIndex_eq,
  ``FnSEq.newNineStar_eq,
  ``FnSEq.nineStarGetNumber_eq,
  ``FnSEq.nineStarGetColor_eq,
  ``FnSEq.nineStarGetWuXing_eq,
  ``FnSEq.nineStarGetPosition_eq,
  ``FnSEq.nineStarGetPositionDesc_eq,
  ``FnSEq.nineStarGetNameInXuanKong_eq,
  ``FnSEq.nineStarGetLuckInXuanKong_eq,
  ``FnSEq.nineStarGetNameInBeiDou_eq,
  ``FnSEq.nineStarGetNameInQiMen_eq,
  ``FnSEq.nineStarGetBaMenInQiMen_eq,
  ``FnSEq.nineStarGetYinYangInQiMen_eq,
  ``FnSEq.nineStarGetLuckInQiMen_eq,
  ``FnSEq.nineStarGetNameInTaiYi_eq,
  ``FnSEq.nineStarGetTypeInTaiYi_eq,
  ``FnSEq.nineStarGetSongInTaiYi_eq,
  ``FnSEq.nineStarGetNumber_panic,
  ``FnSEq.nineStarGetColor_panic,
  ``FnSEq.nineStarGetWuXing_panic,
  ``FnSEq.nineStarGetPosition_panic,
  ``FnSEq.nineStarGetPositionDesc_panic,
  ``FnSEq.nineStarGetNameInXuanKong_panic,
  ``FnSEq.nineStarGetLuckInXuanKong_panic,
  ``FnSEq.nineStarGetNameInBeiDou_panic,
  ``FnSEq.nineStarGetNameInQiMen_panic,
  ``FnSEq.nineStarGetBaMenInQiMen_panic,
  ``FnSEq.nineStarGetYinYangInQiMen_panic,
  ``FnSEq.nineStarGetLuckInQiMen_panic,
  ``FnSEq.nineStarGetNameInTaiYi_panic,
  ``FnSEq.nineStarGetTypeInTaiYi_panic,
  ``FnSEq.nineStarGetSongInTaiYi_panic,
  ``FnSEq.nineStar_accessors_total,
  ``FnSEq.nineStarString_eq,
  ``FnSEq.nineStarString_panic,
  ``FnSEq.nineStarToFullString_eq,
  ``FnSEq.nineStarToFullString_panic,
  ``FnSEq.nineStar_baMen_nonempty_iff ]

end Props.FnSC16
