/-
C13 (regenerated function bodies, string mode) — festivals and seasonal names: the regenerated `Lunar.GetFestivals` reports New Year's Eve exactly under the coded rule (and nothing in the table is called 除夕); `GetHou` / `GetWuHou` equal the model.
`Gen/FnS.lean` is regenerated from /repo's source on every run by gotrans/fntrans.go in string mode (every function of the module that
lies entirely inside the subset: no atoms, nothing dropped); the theorems indexed here are re-checked against it. A function that an
edit pushes out of the subset disappears from `Gen/FnS.lean` and its theorem no longer elaborates.
-/
import Proofs.FnSLunarFest
import Proofs.FnSHou
namespace Props.FnSC13

set_option maxRecDepth 100000
def listing (fn : String) : List (String × String × String) × List String × List String :=
  ((Gen.FnS.atoms.filter (fun a => a.1 == fn)).map (fun a => a.2),
   (Gen.FnS.dropped.filter (fun a => a.1 == fn)).map (fun a => a.2),
   (Gen.FnS.notes.filter (fun a => a.1 == fn)).map (fun a => a.2))

theorem pin_calendar_Lunar_GetFestivals : (Gen.FnS.translated.contains "calendar.Lunar.GetFestivals" && listing "calendar.Lunar.GetFestivals" ==
    (([("a1", "Lunar", "lunar.Next(1)")] : List (String × String × String)),
     ([] : List String),
     ([] : List String))) = true := by decide +kernel

theorem pin_calendar_Lunar_GetHou : (Gen.FnS.translated.contains "calendar.Lunar.GetHou" && listing "calendar.Lunar.GetHou" ==
    (([("a1", "JieQi", "lunar.GetPrevJieQiByWholeDay(true)")] : List (String × String × String)),
     ([] : List String),
     (["len(LunarUtil.HOU) read as the length of its initial value"] : List String))) = true := by decide +kernel

theorem pin_calendar_Lunar_GetWuHou : (Gen.FnS.translated.contains "calendar.Lunar.GetWuHou" && listing "calendar.Lunar.GetWuHou" ==
    (([("a1", "JieQi", "lunar.GetPrevJieQiByWholeDay(true)")] : List (String × String × String)),
     ([] : List String),
     (["range over calendar.«JIE_QI» iterates its initial value",
     "len(LunarUtil.WU_HOU) read as the length of its initial value"] : List String))) = true := by decide +kernel

def obligations : List Lean.Name := [
  ``FnSEq.lunarGetFestivals_shape,
  ``FnSEq.lunarGetFestivals_ok,
  ``FnSEq.lunarGetFestivals_chuXi_iff,
  ``FnSEq.lunarGetFestivals_chuXi_last,
  ``FnSEq.lunarGetFestivals_eq,
  ``FnSEq.lunarGetFestivals_eq_of_not_last,
  ``FnSEq.lunarGetFestivals_model_none,
  ``FnSEq.lunarGetFestivals_model_some,
  ``FnSEq.lunarGetFestivals_eq_next,
  ``FnSEq.lunarGetHou_total,
  ``FnSEq.lunarGetHou_eq,
  ``FnSEq.lunarGetHou_model_none,
  ``FnSEq.lunarGetWuHou_total,
  ``FnSEq.lunarGetWuHou_eq,
  ``FnSEq.lunarGetWuHou_model_none ]

end Props.FnSC13
