/-
C16 — Nine-star values cycle by their classical step rules and stay in range.
Index of the property theorems proved in Proofs/NineStarSpec.lean.
-/
import Proofs.NineStarSpec
namespace Props.C16
open Model

def obligations : List Lean.Name := [
  ``Model.jiazi_table, ``Model.star_tables_len, ``Model.ganZhiIndex_eq,
  ``Model.lunarYear_star_closed, ``Model.lunarYear_star_range, ``Model.lunarYear_star_step, ``Model.star_2024,
  ``Model.year_star_of_pillar, ``Model.month_star_range, ``Model.month_star_step, ``Model.lunarMonth_star_range,
  ``Model.time_star_range, ``Model.time_star_routes_agree, ``Model.time_star_slot_step, ``Model.time_star_rule,
  ``Model.anchor_is_jiazi, ``Model.day_star_spec, ``Model.day_star_range ]

/-- the year star steps back by one per year, anchored at 2024 ↦ star three (index 2) (restated) -/
theorem year_star_steps_back (Y : Int) (hY : -2696 ≤ Y) : lunarYearNineStar (Y + 1) = (lunarYearNineStar Y + 8) % 9 :=
  lunarYear_star_step Y hY
theorem year_2024_is_three : lunarYearNineStar 2024 = 2 := star_2024

end Props.C16
