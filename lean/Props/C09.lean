/-
C09 — Results do not depend on call history or on concurrent callers.
(1) abstract protocol of the year cache: invariant over EVERY interleaving (Proofs/CacheProto.lean);
(2) regenerated syntactic facts tying the protocol and the purity of everything else to the source:
    shape of NewLunarYear, users of the cache and lock, and every write to a package variable or struct field.
Outside the model (labelled partial): the Go memory model / real scheduler — exercised by the
history sweep and the `-race` stress run of search-C09.
-/
import Proofs.CacheProto
import Gen.Facts
import Gen.Tables
namespace Props.C09
open Model.Cache

def obligations : List Lean.Name := [
  ``Model.Cache.inv_init, ``Model.Cache.inv_step, ``Model.Cache.inv_reachable, ``Model.Cache.results_pure,
  ``Model.Cache.lock_free_when_idle, ``Model.Cache.holder_can_progress, ``Model.Cache.no_deadlock ]

/-- every completed call returned the pure function of its argument, whatever the history and schedule (restated) -/
theorem history_independent {T : Type} (compute : Int → T) (s : State T) (h : Reachable compute s) :
    ∀ p ∈ s.returned, p.2 = compute p.1 := results_pure compute s h

set_option maxRecDepth 100000

/-- NewLunarYear has exactly the modelled shape: Lock; defer Unlock; decl; if miss {build…; store} else {use cache}; return -/
theorem newLunarYear_shape : (Gen.Facts.newLunarYearShape ==
    ["expr lock.Lock()", "defer lock.Unlock()", "decl",
     "if ((nil == CACHE_YEAR) || (CACHE_YEAR.year != lunarYear)) {assign year; assign year.year; assign year.months; assign offset; assign yearGanIndex; assign yearZhiIndex; if (yearGanIndex < 0) {assign yearGanIndex} else {}; if (yearZhiIndex < 0) {assign yearZhiIndex} else {}; assign year.ganIndex; assign year.zhiIndex; expr year.compute(); assign CACHE_YEAR} else {assign year}",
     "return year"]) = true := by decide +kernel

/-- the cache and its lock are touched by NewLunarYear only -/
theorem cache_private : Gen.Facts.cacheRefs.all (fun p => p.1 == "calendar.NewLunarYear") = true := by decide +kernel

/-- no package-level variable is ever assigned except the year cache (inside NewLunarYear) and the holiday
table/names (inside the documented configuration call Fix) -/
theorem package_state_writes : ((Gen.Facts.writes.filter (fun w => w.2.1 == "var")).map (fun w => (w.1, w.2.2.1)) ==
    [("HolidayUtil.Fix", "HolidayUtil.namesInUse"), ("HolidayUtil.Fix", "HolidayUtil.dataInUse"),
     ("calendar.NewLunarYear", "calendar.CACHE_YEAR")]) = true := by decide +kernel

/-- no struct field is assigned outside constructors (`New*`, `compute*`) and explicit setters (`Set*`):
accessors are read-only, so concurrent accessor calls on a shared object cannot race on library state -/
theorem fields_written_only_by_constructors :
    ((Gen.Facts.writes.filter (fun w => w.2.1 == "field" && !(w.2.2.2 == "constructor" || w.2.2.2 == "setter"))).map (fun w => (w.1, w.2.2.1)) ==
    ([] : List (String × String))) = true := by decide +kernel

/-- the only package-level variables of the six data packages that are not constant data literals are the year cache
and its lock: there is no other shared mutable buffer (a scratch slice `make(...)` would appear here) -/
theorem non_table_package_state : (Gen.Tables.skipped ==
    ["calendar.CACHE_YEAR (not a data literal)", "calendar.lock (no initializer)"]) = true := by decide +kernel

/-- package-level variables of ShouXingUtil (not covered by Gen.Tables): exactly the coefficient tables -/
theorem shouxing_package_vars : (((Gen.Facts.pkgVars.filter (fun v => v.1 == "ShouXingUtil")).map (fun v => v.2.1)) ==
    ["DT_AT", "NUT_B", "QB", "QI_KB", "SB", "SHUO_KB", "XL0", "XL1"]) = true := by decide +kernel

/-- no element of a package-level table is ever assigned; the only element writes through a struct field are those of
`LunarYear.compute` filling the freshly made term slice of the year it is building -/
theorem element_writes : (Gen.Facts.elemWrites ==
    [("calendar.LunarYear.compute", "field:LunarYear.jieQiJulianDays")]) = true := by decide +kernel

end Props.C09
