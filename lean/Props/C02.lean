/-
C02 — Months start on the new-moon day; leap months follow the no-major-term rule.
PROVED here (kernel-checked on the regenerated oracle, every run): the month-table structure for
every lunar year, and for lunar years 1929..3000 the no-major-term rule stated on the public data
(month table + accurate term instants): `leapRuleOk` (Model/AstroWF.lean) says: the months holding the
two winter solstices are numbered 11, there are 12 or 13 months from one to the next, and with 13
exactly the first month holding no major term is the leap month, the others numbered consecutively.
That the table equals the model of `LunarYear.compute` applied to the raw new-moon/term day numbers
is checked exhaustively (all 10 001 years) by the compiled driver op `ly` on every run.
NOT a theorem: "the month begins on the civil day that contains the true new moon" and agreement
with an independent astronomical computation — validated by the implementation-level search
`search-C02` against an independent Meeus new-moon/solar-longitude computation with the calibrated
margins; ICU is not installed in the sandbox, so that clause is not checked at all (see DESIGN §5).
-/
import Proofs.GenAstroOK
namespace Props.C02
open Model

/-- the no-major-term rule holds for every lunar year 1929..3000 of the regenerated table -/
theorem leap_rule (y : Int) (h1 : 1929 ≤ y) (h2 : y ≤ 3000) : leapRuleOk y (genAstro y) = true :=
  genAstro_leap y (by omega) (by omega) (by simp [leapRuleRange]; omega)

/-- every lunar year 0..10000: 15 contiguous months of 28–30 days (29/30 outside the reforms) covering the civil year -/
theorem months_contiguous (y : Int) (h1 : 0 ≤ y) (h2 : y ≤ 10000) : monthsCoreOk y (genAstro y).months = true := by
  have h := genAstro_ok.year y h1 h2
  simp only [yearOk, Bool.and_eq_true] at h
  exact h.1.1.1

example : leapRuleRange 2033 = true := by decide

end Props.C02
