/-
C12 — Fortune periods chain contiguously and match pillars and calendar years.
Index of the property theorems proved in Proofs/YunSpec.lean.
-/
import Proofs.YunSpec
namespace Props.C12
open Model

def obligations : List Lean.Name := [
  ``Model.yun_direction, ``Model.yun_sect2_arith, ``Model.yun_sect1_arith, ``Model.yun_sect2_spec, ``Model.yun_sect1_spec,
  ``Model.startSolar_def, ``Model.startSolar_total, ``Model.daYun_chain, ``Model.daYun_zero, ``Model.daYun_pillar, ``Model.jiazi_len,
  ``Model.liuNian_pillar, ``Model.xiaoYun_pillar, ``Model.liuYue_pillar ]

/-- school 2 decomposition (restated): 4320 minutes = one year … one minute = two hours -/
theorem school2 (minutes : Int) (hm : 0 ≤ minutes) :
    let year := Int.tdiv minutes 4320
    let m1 := minutes - year * 4320
    let month := Int.tdiv m1 360
    let m2 := m1 - month * 360
    let day := Int.tdiv m2 12
    let hour := (m2 - day * 12) * 2
    minutes = 4320 * year + 360 * month + 12 * day + hour / 2 ∧ 0 ≤ year ∧ 0 ≤ month ∧ month ≤ 11 ∧ 0 ≤ day ∧ day ≤ 29 ∧ 0 ≤ hour ∧ hour ≤ 22 ∧ hour % 2 = 0 :=
  yun_sect2_arith minutes hm

end Props.C12
