import Gen.Tables
import Gen.Facts
import Gen.AstroAll
import Gen.AstroKAll
