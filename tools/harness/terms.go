package main

import (
	"container/list"
	"fmt"
	"strings"

	"github.com/6tail/lunar-go/calendar"
)

func init() {
	modes["gen-terms"] = genTerms
	modes["gen-sfest"] = genSolarFest
}

func nearStr(j *calendar.JieQi) string {
	if j == nil {
		return "nil"
	}
	s := j.GetSolar()
	return fmt.Sprintf("%s@%d-%d-%d-%d-%d-%d", j.GetName(), s.GetYear(), s.GetMonth(), s.GetDay(), s.GetHour(), s.GetMinute(), s.GetSecond())
}

func dash(s string) string {
	if s == "" {
		return "-"
	}
	return s
}

func strList(l *list.List) string {
	if l.Len() == 0 {
		return "-"
	}
	var p []string
	for e := l.Front(); e != nil; e = e.Next() {
		p = append(p, fmt.Sprint(e.Value))
	}
	return strings.Join(p, ",")
}

func genTerms() {
	for _, y := range sweepYears(30) {
		for _, dd := range daysOfYearList(y) {
			y, m, d := dd.y, dd.m, dd.d
			l0 := sol(y, m, d, 0, 0, 0).GetLunar()
			a3 := fmt.Sprintf("%d %d %d 0 0 0", y, m, d)
			emit("l.season", a3, safe(func() string {
				sj, fu := "nil", "nil"
				if x := l0.GetShuJiu(); x != nil {
					sj = fmt.Sprintf("%s#%d", x.GetName(), x.GetIndex())
				}
				if x := l0.GetFu(); x != nil {
					fu = fmt.Sprintf("%s#%d", x.GetName(), x.GetIndex())
				}
				return sj + "|" + fu + "|" + dash(l0.GetHou()) + "|" + dash(l0.GetWuHou())
			}))
			emit("l.fest", a3, safe(func() string { return strList(l0.GetFestivals()) + "|" + strList(l0.GetOtherFestivals()) }))
			for _, t := range timesFor(l0, y, m, d, 1) {
				t := t
				a6 := fmt.Sprintf("%d %d %d %d %d %d", y, m, d, t.h, t.mi, t.s)
				l := sol(y, m, d, t.h, t.mi, t.s).GetLunar()
				emit("l.near", a6, safe(func() string {
					var p []string
					for _, wd := range []bool{false, true} {
						p = append(p, nearStr(l.GetNextJieByWholeDay(wd)), nearStr(l.GetPrevJieByWholeDay(wd)), nearStr(l.GetNextQiByWholeDay(wd)),
							nearStr(l.GetPrevQiByWholeDay(wd)), nearStr(l.GetNextJieQiByWholeDay(wd)), nearStr(l.GetPrevJieQiByWholeDay(wd)))
					}
					return strings.Join(p, "|")
				}))
				emit("l.jq", a6, safe(func() string { return dash(l.GetJieQi()) + "|" + dash(l.GetJie()) + "|" + dash(l.GetQi()) }))
				emit("l.star", a6, safe(func() string {
					ly := calendar.NewLunarYear(l.GetYear())
					lm := ly.GetMonth(l.GetMonth())
					return joinInts([]int{l.GetYearNineStarBySect(1).GetIndex(), l.GetYearNineStarBySect(2).GetIndex(), l.GetYearNineStarBySect(3).GetIndex(),
						l.GetMonthNineStarBySect(1).GetIndex(), l.GetMonthNineStarBySect(2).GetIndex(), l.GetMonthNineStarBySect(3).GetIndex(),
						l.GetDayNineStar().GetIndex(), l.GetTimeNineStar().GetIndex(), l.GetTime().GetNineStar().GetIndex(),
						ly.GetNineStar().GetIndex(), lm.GetNineStar().GetIndex()})
				}))
			}
		}
	}
}

func genSolarFest() {
	for _, y := range sweepYears(60) {
		for _, dd := range daysOfYearList(y) {
			s := sol(dd.y, dd.m, dd.d, 0, 0, 0)
			emit("s.fest", fmt.Sprintf("%d %d %d", dd.y, dd.m, dd.d), safe(func() string {
				return s.GetXingZuo() + "|" + strList(s.GetFestivals()) + "|" + strList(s.GetOtherFestivals())
			}))
		}
	}
}
