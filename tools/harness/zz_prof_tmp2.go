package main

import (
	"fmt"
	"time"
	"reflect"
)

func init() {
	modes["time-digest"] = func() {
		for _, dd := range []ymd{{2000, 6, 1}, {2000, 1, 15}} {
			l := sol(dd.y, dd.m, dd.d, 10, 0, 0).GetLunar()
			for _, deep := range []bool{false, true} {
				t0 := time.Now()
				for i := 0; i < 20; i++ {
					c01Digest(l, map[bool]int{false: 0, true: 2}[deep])
				}
				fmt.Fprintf(out, "%v deep=%v: %v per digest, %d getters\n", dd, deep, time.Since(t0)/20, len(c01Digest(l, map[bool]int{false: 0, true: 2}[deep])))
			}
			// per-method cost
			v := reflect.ValueOf(l)
			t := v.Type()
			for i := 0; i < t.NumMethod(); i++ {
				mt := t.Method(i)
				if mt.Type.NumIn() != 1 || mt.Type.NumOut() != 1 {
					continue
				}
				t0 := time.Now()
				func() {
					defer func() { recover() }()
					for k := 0; k < 5; k++ {
						o := v.Method(i).Call(nil)
						c01Render(o[0], 1)
					}
				}()
				if e := time.Since(t0) / 5; e > 15*time.Microsecond {
					fmt.Fprintf(out, "  %s %v\n", mt.Name, e)
				}
			}
		}
	}
}
