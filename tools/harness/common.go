package main

import (
	"bufio"
	"hash/fnv"
	"fmt"
	"math"
	"math/rand"
	"os"
	"sort"
	"strings"

	"github.com/6tail/lunar-go/SolarUtil"
	"github.com/6tail/lunar-go/calendar"
)

var out *bufio.Writer
var rng *rand.Rand
var tier = "quick"
var seed int64 = 1
var shardI, shardN = 0, 1

// emit one observation line "op args => result"
func emit(op string, args string, res string) {
	if res == "SKIP" {
		return
	}
	h := fnv.New64a()
	h.Write([]byte(op))
	h.Write([]byte{' '})
	h.Write([]byte(args))
	k := h.Sum64()
	if !seenLines[k] {
		seenLines[k] = true
		distinct++
	}
	if sampleLeft > 0 && rngSample() {
		sampleLeft--
		fmt.Fprintf(out, "#SAMPLE %s %s => %s\n", op, args, res)
	}
	fmt.Fprintf(out, "%s %s => %s\n", op, args, res)
}

var seenLines = map[uint64]bool{}
var distinct = 0
var sampleLeft = 3
var emitted = 0

func rngSample() bool {
	emitted++
	return emitted%997 == 1
}

func flushStats() {
	fmt.Fprintf(out, "#STAT distinct=%d\n", distinct)
}

// safe runs f and maps a panic to "!"
func safe(f func() string) (res string) {
	defer func() {
		if r := recover(); r != nil {
			res = "!"
		}
	}()
	return f()
}

func solarStr(s *calendar.Solar) string {
	return fmt.Sprintf("%d %d %d %d %d %d", s.GetYear(), s.GetMonth(), s.GetDay(), s.GetHour(), s.GetMinute(), s.GetSecond())
}

func b2s(b bool) string {
	if b {
		return "1"
	}
	return "0"
}

func f64hex(f float64) string { return fmt.Sprintf("%016x", math.Float64bits(f)) }

type ymd struct{ y, m, d int }

func validYmd(y, m, d int) bool {
	if m < 1 || m > 12 || d < 1 {
		return false
	}
	if y == 1582 && m == 10 {
		return d <= 31 && !(d > 4 && d < 15)
	}
	return d <= SolarUtil.GetDaysOfMonth(y, m)
}

// daysOfYearList lists every valid civil day of year y
func daysOfYearList(y int) []ymd {
	var l []ymd
	for m := 1; m <= 12; m++ {
		for d := 1; d <= 31; d++ {
			if validYmd(y, m, d) {
				l = append(l, ymd{y, m, d})
			}
		}
	}
	return l
}

// specialYears: boundary years every tier visits
func specialYears() []int {
	ys := []int{1, 2, 3, 4, 5, 100, 400, 1000, 1500, 1581, 1582, 1583, 1599, 1600, 1700, 1800, 1900, 1928, 1929, 2000, 2023, 2024, 2025, 2033, 2100, 2400, 3000, 3001, 5000, 6770, 6771, 9000, 9996, 9997, 9998}
	for y := 7; y <= 24; y++ {
		ys = append(ys, y)
	}
	for y := 235; y <= 241; y++ {
		ys = append(ys, y)
	}
	// years with a leap 11th / 12th month (the override tables of LunarYear): the first and last three of each table and the
	// year after each (their last months spill into it)
	for _, tb := range [][]int{calendar.LEAP_11, calendar.LEAP_12} {
		for i, y := range tb {
			if (i < 3 || i >= len(tb)-3) && y >= 1 && y+1 <= 9998 {
				ys = append(ys, y, y+1)
			}
		}
	}
	return ys
}

// sweepYears: the years whose every day is visited at this tier (sharded by index)
func sweepYears(nRandom int) []int {
	set := map[int]bool{}
	if tier == "thorough" {
		// every year for the cheap generators; for the expensive ones (whole fortune trees, 130 almanac attributes per day …) the
		// special years plus every k-th year, the phase taken from the seed, so that a thorough run stays within tens of minutes and
		// different seeds cover different years
		stride := map[string]int{"gen-ec": 12, "gen-alm": 6, "gen-terms": 4, "gen-lunar": 4, "gen-week": 2}[curMode]
		if stride == 0 {
			stride = 1
		}
		for _, y := range specialYears() {
			set[y] = true
		}
		for y := 1; y <= 9998; y++ {
			if (int64(y)+seed)%int64(stride) == 0 {
				set[y] = true
			}
		}
	} else {
		for _, y := range specialYears() {
			set[y] = true
		}
		g := rand.New(rand.NewSource(seed)) // same in every shard
		for i := 0; i < nRandom; i++ {
			set[1+g.Intn(9998)] = true
		}
	}
	var ys []int
	for y := range set {
		ys = append(ys, y)
	}
	sort.Ints(ys)
	var mine []int
	for i, y := range ys {
		if i%shardN == shardI {
			mine = append(mine, y)
		}
	}
	return mine
}

// boundary step counts (sweep family S)
func stepCounts(nRandom int) []int {
	s := []int{0, 1, -1, 2, -2, 7, -7, 28, 29, 30, 31, -28, -29, -30, -31, 59, 60, 61, -59, -60, -61, 354, 355, 365, 366, 383, 384, 385, -354, -355, -365, -366, -384, 36524, 36525, -36524, -36525, 146097, -146097}
	for i := 0; i < nRandom; i++ {
		s = append(s, rng.Intn(8000001)-4000000)
	}
	return s
}

type hms struct{ h, mi, s int }

// boundary times of day (sweep family T)
func dayTimes() []hms {
	t := []hms{{0, 0, 0}, {0, 0, 1}, {0, 59, 59}, {12, 0, 0}, {22, 59, 59}, {23, 0, 0}, {23, 30, 0}, {23, 59, 59}}
	for h := 1; h < 23; h += 2 {
		t = append(t, hms{h, 0, 0}, hms{h - 1, 59, 59}, hms{h, 0, 1})
	}
	return t
}

func randTime() hms { return hms{rng.Intn(24), rng.Intn(60), rng.Intn(60)} }

func joinInts(xs []int) string {
	var sb strings.Builder
	for i, x := range xs {
		if i > 0 {
			sb.WriteByte(' ')
		}
		fmt.Fprintf(&sb, "%d", x)
	}
	return sb.String()
}

func fatal(msg string) {
	fmt.Fprintln(os.Stderr, msg)
	os.Exit(2)
}
