package main

import (
	"os"
	"runtime/pprof"
)

func init() {
	for _, n := range []string{"search-C01", "search-C06", "search-C07", "search-C17"} {
		n := n
		modes["prof-"+n] = func() {
			f, _ := os.Create("/tmp/prof_a.out")
			pprof.StartCPUProfile(f)
			modes[n]()
			pprof.StopCPUProfile()
			f.Close()
		}
	}
}
