package main

import (
	"fmt"
	"strings"

	"github.com/6tail/lunar-go/LunarUtil"
	"github.com/6tail/lunar-go/calendar"
)

func init() {
	modes["search-C19"] = searchC19
}

// ---- independent civil calendar of the harness (Julian before 1582-10-15, Gregorian from then on) ----

func c19Jdn(y, m, d int) int {
	a := (14 - m) / 12
	yy := y + 4800 - a
	mm := m + 12*a - 3
	if y > 1582 || (y == 1582 && (m > 10 || (m == 10 && d >= 15))) {
		return d + (153*mm+2)/5 + 365*yy + yy/4 - yy/100 + yy/400 - 32045
	}
	return d + (153*mm+2)/5 + 365*yy + yy/4 - 32083
}

func c19FromJdn(j int) (int, int, int) {
	f := j + 1401
	if j >= 2299161 {
		f += (((4*j+274277)/146097)*3)/4 - 38
	}
	e := 4*f + 3
	g := (e % 1461) / 4
	h := 5*g + 2
	d := (h%153)/5 + 1
	m := (h/153+2)%12 + 1
	y := e/1461 - 4716 + (12+2-m)/12
	return y, m, d
}

// a civil moment as the harness sees it
type c19Moment struct{ y, m, d, h, mi, s int }

func (a c19Moment) String() string {
	return fmt.Sprintf("%d-%d-%d %d:%d:%d", a.y, a.m, a.d, a.h, a.mi, a.s)
}

// seconds on the Julian-Day axis (exact integer)
func (a c19Moment) instant() int64 {
	return int64(c19Jdn(a.y, a.m, a.d))*86400 + int64(a.h*3600+a.mi*60+a.s)
}

// -1, 0, 1 by the field tuple
func (a c19Moment) cmpTuple(b c19Moment) int {
	x := []int{a.y, a.m, a.d, a.h, a.mi, a.s}
	z := []int{b.y, b.m, b.d, b.h, b.mi, b.s}
	for i := range x {
		if x[i] < z[i] {
			return -1
		}
		if x[i] > z[i] {
			return 1
		}
	}
	return 0
}

func c19Sign64(a, b int64) int {
	if a < b {
		return -1
	}
	if a > b {
		return 1
	}
	return 0
}

// the harness' own parser of fixed-width decimal fields: layout uses '#' for a digit, anything else literally
func c19ParseFixed(s, layout string) ([]int, bool) {
	if len(s) != len(layout) {
		return nil, false
	}
	var fields []int
	cur, in := 0, false
	for i := 0; i < len(layout); i++ {
		if layout[i] == '#' {
			if s[i] < '0' || s[i] > '9' {
				return nil, false
			}
			cur = cur*10 + int(s[i]-'0')
			in = true
		} else {
			if s[i] != layout[i] {
				return nil, false
			}
			if in {
				fields = append(fields, cur)
				cur, in = 0, false
			}
		}
	}
	if in {
		fields = append(fields, cur)
	}
	return fields, true
}

// the harness' own parser of "<digits>年[闰]<month name>月<day name>" built from the library's tables.
// It enumerates every reading; ok only if there is exactly one.
func c19ParseChinese(s string) (y, m, d int, ok bool, why string) {
	digit := map[rune]int{}
	for i := 0; i <= 9; i++ {
		r := []rune(LunarUtil.NUMBER[i])
		if len(r) != 1 {
			return 0, 0, 0, false, fmt.Sprintf("digit %d is not one character", i)
		}
		if _, dup := digit[r[0]]; dup {
			return 0, 0, 0, false, fmt.Sprintf("digit character %q stands for two digits", string(r[0]))
		}
		digit[r[0]] = i
	}
	p := strings.Index(s, "年")
	if p <= 0 {
		return 0, 0, 0, false, "no year part"
	}
	for _, r := range s[:p] {
		v, is := digit[r]
		if !is {
			return 0, 0, 0, false, fmt.Sprintf("year character %q is not a digit", string(r))
		}
		y = y*10 + v
	}
	rest := s[p+len("年"):]
	readings := 0
	for _, leap := range []bool{false, true} {
		r2 := rest
		if leap {
			if !strings.HasPrefix(r2, "闰") {
				continue
			}
			r2 = r2[len("闰"):]
		}
		for mm := 1; mm <= 12 && mm < len(LunarUtil.MONTH); mm++ {
			pre := LunarUtil.MONTH[mm] + "月"
			if !strings.HasPrefix(r2, pre) {
				continue
			}
			r3 := r2[len(pre):]
			for dd := 1; dd < len(LunarUtil.DAY); dd++ {
				if r3 == LunarUtil.DAY[dd] {
					readings++
					m, d = mm, dd
					if leap {
						m = -mm
					}
				}
			}
		}
	}
	if readings == 0 {
		return y, 0, 0, false, "month/day part has no reading"
	}
	if readings > 1 {
		return y, m, d, false, fmt.Sprintf("%d readings", readings)
	}
	return y, m, d, true, ""
}

func searchC19() {
	count := 0
	seen := map[string]bool{}
	perKind := map[string]int{}
	chk := func(kind string, input string, f func() (bool, string, string)) {
		count++
		rep := func(obs, exp string) {
			k := kind + "\x00" + input
			if seen[k] {
				return
			}
			seen[k] = true
			perKind[kind]++
			if perKind[kind] <= 20 {
				viol("C19", kind, input, obs, exp)
			}
		}
		defer func() {
			if r := recover(); r != nil {
				rep(fmt.Sprintf("panic: %v", r), "no panic")
			}
		}()
		if ok, obs, exp := f(); !ok {
			rep(obs, exp)
		}
	}

	loJ := c19Jdn(1, 1, 1)
	hiJ := c19Jdn(9999, 12, 31)
	randMoment := func() c19Moment {
		y, m, d := c19FromJdn(loJ + rng.Intn(hiJ-loJ+1))
		t := randTime()
		return c19Moment{y, m, d, t.h, t.mi, t.s}
	}
	mk := func(a c19Moment) *calendar.Solar { return sol(a.y, a.m, a.d, a.h, a.mi, a.s) }

	// fixed width, zero padded, parses back
	format := func(a c19Moment) {
		in := a.String()
		s := mk(a)
		for _, v := range []struct {
			kind string
			f    func() string
		}{{"ymd-format", s.ToYmd}, {"string-format", s.String}} {
			v := v
			chk(v.kind, in, func() (bool, string, string) {
				str := v.f()
				exp := fmt.Sprintf("10 characters YYYY-MM-DD reading %d,%d,%d", a.y, a.m, a.d)
				f, ok := c19ParseFixed(str, "####-##-##")
				if !ok {
					return false, str, exp
				}
				return f[0] == a.y && f[1] == a.m && f[2] == a.d, str, exp
			})
		}
		chk("ymdhms-format", in, func() (bool, string, string) {
			str := s.ToYmdHms()
			exp := fmt.Sprintf("19 characters YYYY-MM-DD HH:MM:SS reading %d,%d,%d,%d,%d,%d", a.y, a.m, a.d, a.h, a.mi, a.s)
			f, ok := c19ParseFixed(str, "####-##-## ##:##:##")
			if !ok {
				return false, str, exp
			}
			return f[0] == a.y && f[1] == a.m && f[2] == a.d && f[3] == a.h && f[4] == a.mi && f[5] == a.s, str, exp
		})
	}
	// lexicographic order of the printed forms == chronological order
	nPairs := 0
	order := func(kind string, a, b c19Moment) {
		nPairs++
		in := a.String() + " vs " + b.String()
		chk(kind, in, func() (bool, string, string) {
			ct := a.cmpTuple(b)
			cj := c19Sign64(a.instant(), b.instant())
			if ct != cj {
				// the harness' two notions of chronological order must agree, otherwise the harness is wrong
				return false, fmt.Sprintf("harness: tuple order %d, Julian-Day order %d", ct, cj), "equal"
			}
			sa, sb := mk(a), mk(b)
			cs := strings.Compare(sa.ToYmdHms(), sb.ToYmdHms())
			if cs != ct {
				return false, fmt.Sprintf("%q vs %q compare %d", sa.ToYmdHms(), sb.ToYmdHms(), cs), fmt.Sprint(ct)
			}
			// date-only form against date order
			da, db := a, b
			da.h, da.mi, da.s, db.h, db.mi, db.s = 0, 0, 0, 0, 0, 0
			cd := strings.Compare(sa.ToYmd(), sb.ToYmd())
			if cd != da.cmpTuple(db) {
				return false, fmt.Sprintf("%q vs %q compare %d", sa.ToYmd(), sb.ToYmd(), cd), fmt.Sprint(da.cmpTuple(db))
			}
			// the library's own Julian Day agrees too
			ja, jb := sa.GetJulianDay(), sb.GetJulianDay()
			cl := 0
			if ja < jb {
				cl = -1
			} else if ja > jb {
				cl = 1
			}
			if cl != cs {
				return false, fmt.Sprintf("strings compare %d but GetJulianDay %v vs %v", cs, ja, jb), "same order"
			}
			return true, "", ""
		})
	}

	type lrec struct{ y, m, d int }
	printed := map[string]lrec{}
	printedTao := map[string]lrec{}
	printedFoto := map[string]lrec{}
	nLeap, nLunar := 0, 0
	samples := 0
	chinese := func(kind, in, str string, y, m, d int, reg map[string]lrec) {
		chk(kind+"-parse", in, func() (bool, string, string) {
			py, pm, pd, ok, why := c19ParseChinese(str)
			exp := fmt.Sprintf("reads back as %d,%d,%d", y, m, d)
			if !ok {
				return false, str + " (" + why + ")", exp
			}
			return py == y && pm == m && pd == d, fmt.Sprintf("%s reads as %d,%d,%d", str, py, pm, pd), exp
		})
		chk(kind+"-distinct", in, func() (bool, string, string) {
			if o, have := reg[str]; have && (o != lrec{y, m, d}) {
				return false, fmt.Sprintf("%s printed for %d,%d,%d and for %d,%d,%d", str, o.y, o.m, o.d, y, m, d), "distinct dates print differently"
			}
			reg[str] = lrec{y, m, d}
			return true, "", ""
		})
	}

	times := dayTimes()
	years := sweepYears(600)
	var prev c19Moment
	for _, y := range years {
		havePrev := false
		j0, j1 := c19Jdn(y, 1, 1), c19Jdn(y, 12, 31)
		for j := j0; j <= j1; j++ {
			yy, m, d := c19FromJdn(j)
			if yy != y {
				continue
			}
			t := times[rng.Intn(len(times))]
			if rng.Intn(2) == 0 {
				t = randTime()
			}
			a := c19Moment{y, m, d, t.h, t.mi, t.s}
			format(a)
			// pairs: the previous day, the same day at another time, a random moment anywhere in 1..9999
			if havePrev {
				order("order-consecutive-days", prev, a)
			}
			prev, havePrev = a, true
			t2 := randTime()
			if rng.Intn(3) == 0 { // differ in one field only
				t2 = t
				switch rng.Intn(3) {
				case 0:
					t2.h = (t.h + 1 + rng.Intn(23)) % 24
				case 1:
					t2.mi = (t.mi + 1 + rng.Intn(59)) % 60
				default:
					t2.s = (t.s + 1 + rng.Intn(59)) % 60
				}
			}
			order("order-same-day", a, c19Moment{y, m, d, t2.h, t2.mi, t2.s})
			order("order-random-pair", a, randMoment())

			// Chinese renderings of the lunar, Taoist and Buddhist dates of this day
			in := fmt.Sprintf("%04d-%02d-%02d", y, m, d)
			var l *calendar.Lunar
			chk("lunar-of-day", in, func() (bool, string, string) {
				l = mk(a).GetLunar()
				return l != nil, "nil", "a lunar date"
			})
			if l == nil {
				continue
			}
			nLunar++
			if l.GetMonth() < 0 {
				nLeap++
			}
			var ls string
			chk("lunar-string", in, func() (bool, string, string) {
				ls = l.String()
				parts := l.GetYearInChinese() + "年" + l.GetMonthInChinese() + "月" + l.GetDayInChinese()
				return ls == parts, ls, parts + " (year, month and day renderings joined)"
			})
			if ls != "" {
				chinese("lunar", in, ls, l.GetYear(), l.GetMonth(), l.GetDay(), printed)
				if samples < 3 && l.GetMonth() < 0 {
					samples++
					fmt.Fprintf(out, "SAMPLE %s lunar %s\n", in, ls)
				}
			}
			var tao *calendar.Tao
			var foto *calendar.Foto
			var ts, fs string
			chk("tao-string", in, func() (bool, string, string) {
				tao = l.GetTao()
				ts = tao.String()
				return ts == tao.ToString(), ts, tao.ToString()
			})
			if ts != "" && tao != nil {
				chinese("tao", in, ts, tao.GetYear(), tao.GetMonth(), tao.GetDay(), printedTao)
			}
			chk("foto-string", in, func() (bool, string, string) {
				foto = l.GetFoto()
				fs = foto.String()
				return fs == foto.ToString(), fs, foto.ToString()
			})
			if fs != "" && foto != nil {
				chinese("foto", in, fs, foto.GetYear(), foto.GetMonth(), foto.GetDay(), printedFoto)
			}
		}
	}
	// the YEAR field of the three Chinese renderings, for EVERY lunar year of the range (first day of the first month): a rendering
	// slip that depends on the value of the year (digit count, a particular digit, a power of ten of the shifted Taoist / Buddhist
	// year) is confined to one year that the day sweep above reaches only by chance
	for ly := 1 + shardI; ly <= 9998; ly += shardN {
		ly := ly
		in := fmt.Sprintf("lunar %d-1-1", ly)
		var l *calendar.Lunar
		chk("lunar-newyear", in, func() (bool, string, string) {
			l = calendar.NewLunarFromYmd(ly, 1, 1)
			return l.GetYear() == ly && l.GetMonth() == 1 && l.GetDay() == 1, fmt.Sprintf("%d,%d,%d", l.GetYear(), l.GetMonth(), l.GetDay()), "the numbers given"
		})
		if l == nil {
			continue
		}
		chk("year-field-all-years", in, func() (bool, string, string) {
			for _, r := range []struct {
				kind string
				str  string
				y    int
			}{{"lunar", l.String(), ly}, {"tao", l.GetTao().String(), ly + 2697}, {"foto", l.GetFoto().String(), ly + 544}} {
				py, pm, pd, ok, why := c19ParseChinese(r.str)
				if !ok {
					return false, r.kind + " " + r.str + " (" + why + ")", fmt.Sprintf("reads back as %d,1,1", r.y)
				}
				if py != r.y || pm != 1 || pd != 1 {
					return false, fmt.Sprintf("%s %s reads as %d,%d,%d", r.kind, r.str, py, pm, pd), fmt.Sprintf("reads back as %d,1,1", r.y)
				}
			}
			return true, "", ""
		})
	}
	// civil year 9999 (formatting only: the property covers 1..9999, the lunar tables stop earlier) and the
	// width boundaries of the year field
	if shardI == 0 {
		for j := c19Jdn(9999, 1, 1); j <= hiJ; j++ {
			y, m, d := c19FromJdn(j)
			t := randTime()
			a := c19Moment{y, m, d, t.h, t.mi, t.s}
			format(a)
			order("order-random-pair", a, randMoment())
		}
		for _, y := range []int{1, 9, 10, 99, 100, 999, 1000, 9998, 9999} {
			for _, z := range []int{1, 9, 10, 99, 100, 999, 1000, 9998, 9999} {
				order("order-year-width", c19Moment{y, 12, 31, 23, 59, 59}, c19Moment{z, 1, 1, 0, 0, 0})
				order("order-year-width", c19Moment{y, 2, 1, 0, 0, 0}, c19Moment{z, 10, 1, 0, 0, 0})
			}
		}
	}
	nRand := 20000
	if tier == "thorough" {
		nRand = 400000
	}
	for i := 0; i < nRand; i++ {
		a, b := randMoment(), randMoment()
		if i%4 == 0 { // same year, to exercise the lower fields
			b.y = a.y
			if b.m == 2 && b.d > 28 {
				b.d = 28
			}
			if b.y == 1582 && b.m == 10 && b.d > 4 && b.d < 15 {
				b.d = 15
			}
		}
		if i%50 == 0 {
			format(a)
		}
		order("order-random-pair", a, b)
	}
	fmt.Fprintf(out, "COUNT %d\n", count)
	fmt.Fprintf(out, "STAT years=%d\n", len(years))
	fmt.Fprintf(out, "STAT pairs=%d\n", nPairs)
	fmt.Fprintf(out, "STAT lunarDates=%d\n", nLunar)
	fmt.Fprintf(out, "STAT leapMonthDays=%d\n", nLeap)
	fmt.Fprintf(out, "STAT distinctLunarStrings=%d\n", len(printed))
}
