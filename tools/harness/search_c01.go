package main

// search-C01: civil<->lunar conversion is an order-preserving bijection that round-trips,
// both construction paths give observably identical Lunar objects, and stepping n days on
// the lunar side equals stepping n days on the civil side. Checked on the real library.

import (
	"container/list"
	"fmt"
	"reflect"
	"strings"

	"github.com/6tail/lunar-go/SolarUtil"
	"github.com/6tail/lunar-go/calendar"
)

func init() {
	modes["search-C01"] = searchC01
}

// c01Ck: evaluation counter + per-kind cap on reported violations
type c01Ck struct {
	count int
	seen  map[string]int
}

func (c *c01Ck) report(kind, input, obs, exp string) {
	c.seen[kind]++
	if c.seen[kind] <= 20 {
		viol("C01", kind, input, obs, exp)
	}
}

// chk: a panic anywhere inside a C01 check is a violation (the conversions are total on the range)
func (c *c01Ck) chk(kind, input string, f func() (bool, string, string)) {
	c.count++
	defer func() {
		if r := recover(); r != nil {
			c.report(kind, input, fmt.Sprintf("panic: %v", r), "no panic")
		}
	}()
	if ok, obs, exp := f(); !ok {
		c.report(kind, input, obs, exp)
	}
}

const c01JdnLo = 1721424 // 0001-01-01
const c01JdnHi = 5373119 // 9998-12-31

func c01Jdn(y, m, d int) int { return int(SolarUtil.GetJulianDay(y, m, d, 0, 0, 0) + 0.5) }

func c01LunarStr(l *calendar.Lunar) string {
	return fmt.Sprintf("L%d/%d/%d %d:%d:%d", l.GetYear(), l.GetMonth(), l.GetDay(), l.GetHour(), l.GetMinute(), l.GetSecond())
}

func c01SameLunarYmdHms(a, b *calendar.Lunar) bool {
	return a.GetYear() == b.GetYear() && a.GetMonth() == b.GetMonth() && a.GetDay() == b.GetDay() &&
		a.GetHour() == b.GetHour() && a.GetMinute() == b.GetMinute() && a.GetSecond() == b.GetSecond()
}

// ---- digest of everything observable through zero-argument exported methods ----

type c01Obs struct{ name, val string }

var c01ListType = reflect.TypeOf((*list.List)(nil))
var c01SolarType = reflect.TypeOf((*calendar.Solar)(nil))

// c01Render renders a returned value; ok=false when the kind is not observable this way.
// depth>0 allows expanding a pointer to a library struct into its own zero-arg getters.
func c01Render(v reflect.Value, depth int) (string, bool) {
	switch v.Kind() {
	case reflect.Int, reflect.Int64, reflect.Bool, reflect.String, reflect.Float64:
		return fmt.Sprint(v.Interface()), true
	case reflect.Array, reflect.Slice:
		var p []string
		for i := 0; i < v.Len(); i++ {
			s, ok := c01Render(v.Index(i), depth)
			if !ok {
				return "", false
			}
			p = append(p, s)
		}
		return "[" + strings.Join(p, ",") + "]", true
	case reflect.Interface:
		if v.IsNil() {
			return "nil", true
		}
		return c01Render(v.Elem(), depth)
	case reflect.Ptr:
		if v.IsNil() {
			return "nil", true
		}
		if v.Type() == c01ListType {
			l := v.Interface().(*list.List)
			var p []string
			for e := l.Front(); e != nil; e = e.Next() {
				s, ok := c01Render(reflect.ValueOf(e.Value), depth)
				if !ok {
					return "", false
				}
				p = append(p, s)
			}
			return "(" + strings.Join(p, ",") + ")", true
		}
		if v.Type() == c01SolarType {
			return solarStr(v.Interface().(*calendar.Solar)), true
		}
		if depth > 0 && v.Elem().Kind() == reflect.Struct {
			var sb strings.Builder
			sb.WriteString("{")
			for _, o := range c01Getters(v, depth-1, nil, 0) {
				sb.WriteString(o.name)
				sb.WriteString("=")
				sb.WriteString(o.val)
				sb.WriteString(";")
			}
			sb.WriteString("}")
			return sb.String(), true
		}
		if st, ok := v.Interface().(fmt.Stringer); ok {
			return st.String(), true
		}
		return "", false
	}
	return "", false
}

type c01Method struct {
	idx  int
	name string
}

var c01MethodCache = map[reflect.Type][]c01Method{}

// getters of Lunar that recompute neighbouring year tables (several ms each): only called on a sample of days
var c01Heavy = map[string]int{"GetDayNineStar": 1, "GetTimes": 2, "GetTime": 2}

// c01Getters calls every exported zero-argument single-result method of v (a pointer to a library struct);
// methods listed in skip with a level above `level` are left out
func c01Getters(v reflect.Value, depth int, skip map[string]int, level int) []c01Obs {
	t := v.Type()
	ml, ok := c01MethodCache[t]
	if !ok {
		for i := 0; i < t.NumMethod(); i++ {
			mt := t.Method(i)
			if mt.Type.NumIn() == 1 && mt.Type.NumOut() == 1 {
				ml = append(ml, c01Method{i, mt.Name})
			}
		}
		c01MethodCache[t] = ml
	}
	obs := make([]c01Obs, 0, len(ml)+1)
	for _, me := range ml {
		i, name := me.idx, me.name
		if skip != nil && skip[name] > level {
			continue
		}
		func() {
			defer func() {
				if r := recover(); r != nil {
					obs = append(obs, c01Obs{name, fmt.Sprintf("!panic %v", r)})
				}
			}()
			out := v.Method(i).Call(nil)
			if s, ok := c01Render(out[0], depth); ok {
				obs = append(obs, c01Obs{name, s})
			}
		}()
	}
	return obs
}

// c01Core: every field of the Lunar structure through its plain getters (all other getters are functions of
// these), plus a handful of cheap derived ones. Used at every time of day; the reflection digest on a sample.
func c01Core(l *calendar.Lunar) (obs []c01Obs) {
	defer func() {
		if r := recover(); r != nil {
			obs = append(obs, c01Obs{"core", fmt.Sprintf("!panic %v", r)})
		}
	}()
	ints := []int{l.GetYear(), l.GetMonth(), l.GetDay(), l.GetHour(), l.GetMinute(), l.GetSecond(),
		l.GetYearGanIndex(), l.GetYearZhiIndex(), l.GetYearGanIndexByLiChun(), l.GetYearZhiIndexByLiChun(),
		l.GetYearGanIndexExact(), l.GetYearZhiIndexExact(), l.GetMonthGanIndex(), l.GetMonthZhiIndex(),
		l.GetMonthGanIndexExact(), l.GetMonthZhiIndexExact(), l.GetDayGanIndex(), l.GetDayZhiIndex(),
		l.GetDayGanIndexExact(), l.GetDayZhiIndexExact(), l.GetDayGanIndexExact2(), l.GetDayZhiIndexExact2(),
		l.GetTimeGanIndex(), l.GetTimeZhiIndex(), l.GetWeek()}
	obs = append(obs, c01Obs{"fields", joinInts(ints)})
	obs = append(obs, c01Obs{"GetSolar", solarStr(l.GetSolar())})
	obs = append(obs, c01Obs{"String", l.String()})
	obs = append(obs, c01Obs{"GetJieQi", l.GetJieQi()})
	obs = append(obs, c01Obs{"GetEightChar", l.GetEightChar().String()})
	obs = append(obs, c01Obs{"GetXiu", l.GetXiu()})
	obs = append(obs, c01Obs{"GetZhiXing", l.GetZhiXing()})
	obs = append(obs, c01Obs{"GetYueXiang", l.GetYueXiang()})
	obs = append(obs, c01Obs{"GetMonthNineStar", fmt.Sprint(l.GetMonthNineStar().GetIndex())})
	var p []string
	for e := l.GetJieQiList().Front(); e != nil; e = e.Next() {
		p = append(p, fmt.Sprint(e.Value))
	}
	obs = append(obs, c01Obs{"GetJieQiList", strings.Join(p, ",")})
	return obs
}

// c01Digest: observable state of a Lunar. level -1: c01Core + term table; 0: every getter except the heavy ones; 1: plus GetDayNineStar;
// 2: every getter, and EightChar, NineStar, JieQi, LunarTime, Foto, Tao, ShuJiu, Fu results expanded one level.
func c01Digest(l *calendar.Lunar, level int) []c01Obs {
	d := 0
	if level >= 2 {
		d = 1
	}
	var obs []c01Obs
	if level < 0 {
		obs = c01Core(l)
	} else {
		obs = c01Getters(reflect.ValueOf(l), d, c01Heavy, level)
	}
	// the term table (a map: rendered in the fixed order of the names)
	func() {
		defer func() {
			if r := recover(); r != nil {
				obs = append(obs, c01Obs{"JieQiTable", fmt.Sprintf("!panic %v", r)})
			}
		}()
		t := l.GetJieQiTable()
		var p []string
		for _, n := range calendar.JIE_QI_IN_USE {
			if s, ok := t[n]; ok && s != nil {
				p = append(p, n+"@"+solarStr(s))
			} else {
				p = append(p, n+"@missing")
			}
		}
		obs = append(obs, c01Obs{"JieQiTable", fmt.Sprintf("%d:", len(t)) + strings.Join(p, ",")})
	}()
	return obs
}

// c01Diff returns the first getter on which two digests differ ("" if none)
func c01Diff(a, b []c01Obs) (string, string, string) {
	if len(a) != len(b) {
		return "#getters", fmt.Sprint(len(a)), fmt.Sprint(len(b))
	}
	for i := range a {
		if a[i].name != b[i].name {
			return "getter-order", a[i].name, b[i].name
		}
		if a[i].val != b[i].val {
			return a[i].name, a[i].val, b[i].val
		}
	}
	return "", "", ""
}

func c01Short(s string) string {
	r := []rune(s)
	if len(r) > 160 {
		return string(r[:160]) + "…"
	}
	return s
}

// ---- position of a lunar month inside its lunar year ----

var c01PosCache = map[int]map[int]int{}

func c01MonthPos(ly, lm int) (int, bool) {
	t, ok := c01PosCache[ly]
	if !ok {
		if len(c01PosCache) > 64 {
			c01PosCache = map[int]map[int]int{}
		}
		t = map[int]int{}
		i := 0
		for e := calendar.NewLunarYear(ly).GetMonthsInYear().Front(); e != nil; e = e.Next() {
			mm := e.Value.(*calendar.LunarMonth).GetMonth()
			if _, dup := t[mm]; !dup {
				t[mm] = i
			}
			i++
		}
		c01PosCache[ly] = t
	}
	p, ok := t[lm]
	return p, ok
}

func c01KeyLess(a, b [3]int) bool {
	for i := 0; i < 3; i++ {
		if a[i] != b[i] {
			return a[i] < b[i]
		}
	}
	return false
}

func searchC01() {
	ck := &c01Ck{seen: map[string]int{}}
	nRand := 12
	thin := 1
	if tier == "thorough" {
		thin = 8
	}
	steps := stepCounts(20)
	var nDeep, nRefl, nTermTimes, nFarSteps, nCrossYear, nLeapDays, nLunarSide int
	var samples []string

	for _, yy := range sweepYears(nRand) {
		y := yy
		// ---------- civil side: every day of civil year y ----------
		var prevKey [3]int
		var prevIn string
		havePrev := false
		days := daysOfYearList(y)
		if y > 1 {
			days = append([]ymd{{y - 1, 12, 31}}, days...) // so that the step over New Year's Day is covered too
		}
		for _, dd := range days {
			y, m, d := dd.y, dd.m, dd.d
			in3 := fmt.Sprintf("%04d-%02d-%02d", y, m, d)
			var l0 *calendar.Lunar
			ck.chk("to-lunar", in3, func() (bool, string, string) {
				l0 = sol(y, m, d, 0, 0, 0).GetLunar()
				if l0.GetMonth() == 0 || l0.GetDay() < 1 {
					return false, c01LunarStr(l0), "a lunar date (non-zero month, day >= 1)"
				}
				return true, "", ""
			})
			if l0 == nil {
				havePrev = false
				continue
			}
			if l0.GetMonth() < 0 {
				nLeapDays++
			}
			if l0.GetYear() != y {
				nCrossYear++
			}

			// order preservation: consecutive civil days -> strictly increasing (year, position of month, day)
			ck.chk("order", in3, func() (bool, string, string) {
				pos, ok := c01MonthPos(l0.GetYear(), l0.GetMonth())
				if !ok {
					return false, c01LunarStr(l0) + " month not in the month list of its lunar year", "month listed in NewLunarYear(y).GetMonthsInYear()"
				}
				key := [3]int{l0.GetYear(), pos, l0.GetDay()}
				ok = true
				obs, exp := "", ""
				if havePrev && !c01KeyLess(prevKey, key) {
					ok = false
					obs = fmt.Sprintf("%s -> key %v", c01LunarStr(l0), key)
					exp = fmt.Sprintf("greater than key %v of %s", prevKey, prevIn)
				}
				prevKey, prevIn, havePrev = key, in3, true
				return ok, obs, exp
			})
			if y != yy {
				continue // the prepended Dec 31 only seeds the order check
			}

			// times of day: one boundary time, one random, 23:30, and the term instant(s) +-1 s if a term falls on the day
			var times []hms
			func() {
				defer func() { recover() }()
				times = timesFor(l0, y, m, d, 1)
			}()
			if len(times) > 2 {
				nTermTimes += len(times) - 2
			}
			termDay := len(times) > 2
			var termTimes []hms
			if termDay {
				termTimes = append(termTimes, times[2:]...)
			}
			if tier == "thorough" && len(times) >= 2 {
				times = append(times[:1], times[2:]...) // drop the second ordinary time, keep the term instants
			}
			times = append(times, hms{23, 30, 0})
			if termDay && len(samples) < 2 {
				samples = append(samples, fmt.Sprintf("term day %s term instants +-1s %v", in3, termTimes))
			}
			// digest level for the first time of this day: reflection over every getter on a third of the days,
			// incl. the heavy getters on a smaller sample; the complete field digest otherwise
			// (thorough visits ~70x more days: the samples are thinned to keep a shard inside its budget)
			dayLevel := -1
			if k := rng.Intn(48 * thin); k == 0 {
				dayLevel = 2
				nDeep++
			} else if k < 4 {
				dayLevel = 1
				nRefl++
			} else if k < 16 {
				dayLevel = 0
				nRefl++
			}
			for ti, t := range times {
				t := t
				s := sol(y, m, d, t.h, t.mi, t.s)
				in := solarStr(s)
				var l, l2 *calendar.Lunar
				// civil -> lunar -> civil
				ck.chk("roundtrip-solar", in, func() (bool, string, string) {
					l = s.GetLunar()
					if l.GetHour() != t.h || l.GetMinute() != t.mi || l.GetSecond() != t.s {
						return false, c01LunarStr(l), "time of day carried over"
					}
					if l.GetYear() != l0.GetYear() || l.GetMonth() != l0.GetMonth() || l.GetDay() != l0.GetDay() {
						return false, c01LunarStr(l), "same lunar day as at 00:00:00: " + c01LunarStr(l0)
					}
					if !eqSolar(l.GetSolar(), s) {
						return false, "GetLunar().GetSolar() = " + solarStr(l.GetSolar()), in
					}
					l2 = calendar.NewLunar(l.GetYear(), l.GetMonth(), l.GetDay(), t.h, t.mi, t.s)
					r := l2.GetSolar()
					return eqSolar(r, s), c01LunarStr(l) + " -> " + solarStr(r), in
				})
				if l == nil || l2 == nil {
					continue
				}
				// lunar -> civil -> lunar
				ck.chk("roundtrip-lunar", c01LunarStr(l2), func() (bool, string, string) {
					b := l2.GetSolar().GetLunar()
					return c01SameLunarYmdHms(b, l2), solarStr(l2.GetSolar()) + " -> " + c01LunarStr(b), c01LunarStr(l2)
				})
				// both construction paths observably identical
				ck.chk("path-independence", in, func() (bool, string, string) {
					level := -1
					if ti == 0 {
						level = dayLevel
					}
					a, b := c01Digest(l, level), c01Digest(l2, level)
					if level >= 0 && len(a) < 150 {
						return false, fmt.Sprintf("digest has only %d getters", len(a)), "harness: reflection digest broken"
					}
					if name, va, vb := c01Diff(a, b); name != "" {
						return false, name + ": from Solar.GetLunar() " + c01Short(va), "from NewLunar " + c01Short(vb)
					}
					return true, "", ""
				})
				if t.h == 0 && t.mi == 0 && t.s == 0 {
					ck.chk("path-independence-ymd", in, func() (bool, string, string) {
						l3 := calendar.NewLunarFromYmd(l.GetYear(), l.GetMonth(), l.GetDay())
						name, va, vb := c01Diff(c01Digest(l, -1), c01Digest(l3, -1))
						return name == "", name + ": " + c01Short(va), c01Short(vb)
					})
				}
				if ti != 0 {
					continue
				}
				// stepping: lunar side == civil side
				j0 := c01Jdn(y, m, d)
				ns := []int{1, -1, steps[rng.Intn(len(steps))] % 800}
				far := true // steps leaving the civil year recompute year tables (~1 ms each): thinned at the thorough tier
				if tier == "thorough" {
					ns = []int{1 - 2*rng.Intn(2), rng.Intn(61) - 30}
					far = rng.Intn(4) == 0
					if far {
						ns = append(ns, steps[rng.Intn(len(steps))]%800)
					}
				}
				if rng.Intn(10*thin) == 0 {
					ns = append(ns, steps[rng.Intn(len(steps))])
					nFarSteps++
				}
				for _, n := range ns {
					n := n
					if j0+n < c01JdnLo || j0+n > c01JdnHi {
						continue
					}
					ck.chk("next-vs-nextday", fmt.Sprintf("%s n=%d", in, n), func() (bool, string, string) {
						e := s.NextDay(n)
						el := e.GetLunar()
						srcs := []*calendar.Lunar{l}
						if n == 1 || n == -1 {
							srcs = append(srcs, l2)
						}
						for k, src := range srcs {
							r := src.Next(n)
							rs := r.GetSolar()
							if !eqSolar(rs, e) {
								return false, fmt.Sprintf("path %d: Next(n).GetSolar() = %s", k, solarStr(rs)), "NextDay(n) = " + solarStr(e)
							}
							if j := c01Jdn(rs.GetYear(), rs.GetMonth(), rs.GetDay()); j != j0+n {
								return false, fmt.Sprintf("%s is day number %d", solarStr(rs), j), fmt.Sprintf("day number %d", j0+n)
							}
							if !c01SameLunarYmdHms(r, el) {
								return false, "Next(n) = " + c01LunarStr(r), "NextDay(n).GetLunar() = " + c01LunarStr(el)
							}
						}
						return true, "", ""
					})
				}
				a := steps[rng.Intn(len(steps))] % 1200
				b := steps[rng.Intn(len(steps))] % 1200
				if rng.Intn(12*thin) == 0 {
					a = steps[rng.Intn(len(steps))]
					b = rng.Intn(8001) - 4000
					if rng.Intn(2) == 0 {
						b = -a + rng.Intn(801) - 400
					}
				}
				if far && j0+a >= c01JdnLo && j0+a <= c01JdnHi && j0+a+b >= c01JdnLo && j0+a+b <= c01JdnHi {
					ck.chk("next-compose", fmt.Sprintf("%s a=%d b=%d", in, a, b), func() (bool, string, string) {
						r1 := l.Next(a).Next(b)
						r2 := l.Next(a + b)
						if !eqSolar(r1.GetSolar(), r2.GetSolar()) || !c01SameLunarYmdHms(r1, r2) {
							return false, c01LunarStr(r1) + " " + solarStr(r1.GetSolar()), c01LunarStr(r2) + " " + solarStr(r2.GetSolar())
						}
						if a == -b || rng.Intn(40) == 0 {
							name, va, vb := c01Diff(c01Digest(r1, -1), c01Digest(r2, -1))
							return name == "", name + ": " + c01Short(va), c01Short(vb)
						}
						return true, "", ""
					})
				}
			}
		}

		// ---------- lunar side: every day of lunar year y, from its month list ----------
		type mrec struct{ m, n int }
		var ms []mrec
		ck.chk("lunar-year-months", fmt.Sprint(y), func() (bool, string, string) {
			for e := calendar.NewLunarYear(y).GetMonthsInYear().Front(); e != nil; e = e.Next() {
				mm := e.Value.(*calendar.LunarMonth)
				ms = append(ms, mrec{mm.GetMonth(), mm.GetDayCount()})
			}
			return len(ms) > 0, "no months", "12 or 13 months"
		})
		prevJ := 0
		prevL := ""
		for _, mr := range ms {
			for d := 1; d <= mr.n; d++ {
				t := hms{0, 0, 0}
				if rng.Intn(3) > 0 {
					t = randTime()
				}
				lm, ld := mr.m, d
				in := fmt.Sprintf("L%d/%d/%d %d:%d:%d", y, lm, ld, t.h, t.mi, t.s)
				nLunarSide++
				ck.chk("lunar-side-roundtrip", in, func() (bool, string, string) {
					l := calendar.NewLunar(y, lm, ld, t.h, t.mi, t.s)
					s := l.GetSolar()
					if s.GetYear() > 9998 {
						return true, "", ""
					}
					if !validYmd(s.GetYear(), s.GetMonth(), s.GetDay()) || s.GetHour() != t.h || s.GetMinute() != t.mi || s.GetSecond() != t.s {
						return false, "GetSolar() = " + solarStr(s), "a valid civil date with the given time"
					}
					b := s.GetLunar()
					if !c01SameLunarYmdHms(b, l) || b.GetYear() != y || b.GetMonth() != lm || b.GetDay() != ld {
						return false, solarStr(s) + " -> " + c01LunarStr(b), in
					}
					// one-to-one and order preserving on the lunar side: consecutive lunar days are consecutive civil days
					j := c01Jdn(s.GetYear(), s.GetMonth(), s.GetDay())
					pj, pl := prevJ, prevL
					prevJ, prevL = j, in
					if pj != 0 && j != pj+1 {
						return false, fmt.Sprintf("%s is civil day number %d", solarStr(s), j), fmt.Sprintf("%d (the day after %s)", pj+1, pl)
					}
					return true, "", ""
				})
			}
		}
		if len(samples) < 3 && len(ms) == 13 {
			samples = append(samples, fmt.Sprintf("lunar year %d with 13 months enumerated day by day", y))
		}
	}
	fmt.Fprintf(out, "COUNT %d\n", ck.count)
	fmt.Fprintf(out, "STAT term_instant_times=%d\n", nTermTimes)
	fmt.Fprintf(out, "STAT far_steps=%d\n", nFarSteps)
	fmt.Fprintf(out, "STAT deep_digests=%d\n", nDeep)
	fmt.Fprintf(out, "STAT reflection_digests=%d\n", nRefl)
	fmt.Fprintf(out, "STAT days_lunar_year_differs=%d\n", nCrossYear)
	fmt.Fprintf(out, "STAT leap_month_days=%d\n", nLeapDays)
	fmt.Fprintf(out, "STAT lunar_side_days=%d\n", nLunarSide)
	for i, s := range samples {
		if i < 3 {
			fmt.Fprintf(out, "SAMPLE %s\n", s)
		}
	}
}
