package main

// search-C06: lunar years are well-formed (outside the modelled reforms AD 8-23 and 236-240) and
// month navigation is consistent. Structure is checked for EVERY lunar year 1..9998 at every tier
// (one table per year, ~1 ms); month walks on the sweep years.

import (
	"fmt"
	"strings"

	"github.com/6tail/lunar-go/calendar"
)

func init() {
	modes["search-C06"] = searchC06
}

type c06Ck struct {
	count int
	seen  map[string]int
}

func (c *c06Ck) report(kind, input, obs, exp string) {
	c.seen[kind]++
	if c.seen[kind] <= 20 {
		viol("C06", kind, input, obs, exp)
	}
}

func (c *c06Ck) chk(kind, input string, f func() (bool, string, string)) {
	c.count++
	defer func() {
		if r := recover(); r != nil {
			c.report(kind, input, fmt.Sprintf("panic: %v", r), "no panic")
		}
	}()
	if ok, obs, exp := f(); !ok {
		c.report(kind, input, obs, exp)
	}
}

func c06Reform(y int) bool { return (y >= 8 && y <= 23) || (y >= 236 && y <= 240) }

// c06Touches: does the span of lunar years covered by these months contain a reform year? Inside the reform
// ranges the year tables relabel months (and neighbouring tables disagree there), which the statement excludes.
func c06Touches(ms ...*calendar.LunarMonth) bool {
	lo, hi := 1<<30, -(1 << 30)
	for _, m := range ms {
		if m == nil {
			continue
		}
		if m.GetYear() < lo {
			lo = m.GetYear()
		}
		if m.GetYear() > hi {
			hi = m.GetYear()
		}
	}
	for y := lo; y <= hi; y++ {
		if c06Reform(y) {
			return true
		}
		if y > 241 {
			break
		}
	}
	return false
}

// c06M: what the statement compares about a month: label (year, number), length, first day
type c06M struct {
	y, m, n int
	jd      float64
}

func (r c06M) String() string { return fmt.Sprintf("%d/%d(%dd@%.1f)", r.y, r.m, r.n, r.jd) }

func c06Rec(m *calendar.LunarMonth) c06M {
	return c06M{m.GetYear(), m.GetMonth(), m.GetDayCount(), m.GetFirstJulianDay()}
}

func c06RecsStr(rs []c06M) string {
	var p []string
	for _, r := range rs {
		p = append(p, r.String())
	}
	return strings.Join(p, " ")
}

// c06Year: everything read from one NewLunarYear(y) while it is the cached year
type c06Year struct {
	y        int
	ok       bool
	table    []c06M // GetMonths: the 15-month table
	inYear   []c06M // GetMonthsInYear
	leap     int    // GetLeapMonth
	dayCount int    // GetDayCount
	getMonth map[int]*c06M
}

func c06Load(y int) (r *c06Year) {
	r = &c06Year{y: y, getMonth: map[int]*c06M{}}
	defer func() {
		if e := recover(); e != nil {
			r.ok = false
		}
	}()
	ly := calendar.NewLunarYear(y)
	for e := ly.GetMonths().Front(); e != nil; e = e.Next() {
		r.table = append(r.table, c06Rec(e.Value.(*calendar.LunarMonth)))
	}
	for e := ly.GetMonthsInYear().Front(); e != nil; e = e.Next() {
		r.inYear = append(r.inYear, c06Rec(e.Value.(*calendar.LunarMonth)))
	}
	r.leap = ly.GetLeapMonth()
	r.dayCount = ly.GetDayCount()
	for m := -13; m <= 14; m++ {
		if x := ly.GetMonth(m); x != nil {
			rec := c06Rec(x)
			r.getMonth[m] = &rec
		}
	}
	r.ok = true
	return r
}

// c06YearProbe: a placeholder month carrying only a year, for c06Touches
func c06YearProbe(y int) *calendar.LunarMonth { return calendar.NewLunarMonth(y, 1, 30, 0, 1) }

func c06SameMonth(a, b *calendar.LunarMonth) bool {
	if a == nil || b == nil {
		return false
	}
	return c06Rec(a) == c06Rec(b)
}

func c06MonthStr(m *calendar.LunarMonth) string {
	if m == nil {
		return "nil"
	}
	return c06Rec(m).String()
}

func searchC06() {
	ck := &c06Ck{seen: map[string]int{}}
	var nLeapYears, nLeap11or12, nEveStep, nWalkCmp, nReformStop int
	var samples []string

	// ---------------- structure: every lunar year of this shard's block ----------------
	block := (9998 + shardN - 1) / shardN
	lo := 1 + shardI*block
	hi := lo + block - 1
	if hi > 9998 {
		hi = 9998
	}
	var prev, cur, next *c06Year
	for y := lo; y <= hi; y++ {
		if cur != nil && cur.y == y-1 {
			prev, cur = cur, next
		} else {
			prev, cur = c06Load(y-1), c06Load(y)
		}
		next = c06Load(y + 1)
		ys := fmt.Sprint(y)
		if !cur.ok {
			ck.chk("year-table", ys, func() (bool, string, string) { return false, "NewLunarYear panicked", "a month table" })
			continue
		}
		if c06Reform(y) {
			continue
		}
		Y, P, N := cur, prev, next
		ck.chk("months-in-year", ys, func() (bool, string, string) {
			var f []c06M
			for _, r := range Y.table {
				if r.y == y {
					f = append(f, r)
				}
			}
			if len(Y.table) != 15 {
				return false, fmt.Sprintf("%d months in the table", len(Y.table)), "15"
			}
			if c06RecsStr(f) != c06RecsStr(Y.inYear) {
				return false, "GetMonthsInYear: " + c06RecsStr(Y.inYear), "the table's months of that year: " + c06RecsStr(f)
			}
			return true, "", ""
		})
		// 12 or 13 months numbered 1..12 in order, at most one leap month directly after its namesake
		leapSeen := 0
		ck.chk("month-numbering", ys, func() (bool, string, string) {
			want := 1
			nLeap := 0
			for i, r := range Y.inYear {
				if r.m < 0 {
					nLeap++
					leapSeen = -r.m
					if i == 0 || Y.inYear[i-1].m != -r.m {
						return false, c06RecsStr(Y.inYear), "leap month directly after the month whose number it repeats"
					}
					continue
				}
				if r.m != want {
					return false, c06RecsStr(Y.inYear), fmt.Sprintf("month %d at position %d", want, i)
				}
				want++
			}
			if want != 13 || nLeap > 1 || len(Y.inYear) != 12+nLeap {
				return false, c06RecsStr(Y.inYear), "months 1..12 and at most one leap month"
			}
			return true, "", ""
		})
		if leapSeen != 0 {
			nLeapYears++
			if leapSeen >= 11 {
				nLeap11or12++
			}
		}
		ck.chk("month-length", ys, func() (bool, string, string) {
			for _, r := range Y.inYear {
				if r.n != 29 && r.n != 30 {
					return false, r.String(), "29 or 30 days"
				}
			}
			return true, "", ""
		})
		ck.chk("contiguity", ys, func() (bool, string, string) {
			for i := 0; i+1 < len(Y.inYear); i++ {
				a, b := Y.inYear[i], Y.inYear[i+1]
				if b.jd != a.jd+float64(a.n) {
					return false, a.String() + " then " + b.String(), "next month starts the day after the previous one ends"
				}
			}
			// also across the year's edges inside the same table (months of neighbouring non-reform years)
			for i := 0; i+1 < len(Y.table); i++ {
				a, b := Y.table[i], Y.table[i+1]
				if c06Reform(a.y) || c06Reform(b.y) {
					continue
				}
				if b.jd != a.jd+float64(a.n) {
					return false, "table: " + a.String() + " then " + b.String(), "next month starts the day after the previous one ends"
				}
			}
			return true, "", ""
		})
		ck.chk("year-length", ys, func() (bool, string, string) {
			sum := 0
			for _, r := range Y.inYear {
				sum += r.n
			}
			if !((sum >= 353 && sum <= 355) || (sum >= 383 && sum <= 385)) {
				return false, fmt.Sprintf("%d days in %d months", sum, len(Y.inYear)), "353-355 or 383-385"
			}
			if Y.dayCount != sum {
				return false, fmt.Sprintf("GetDayCount %d", Y.dayCount), fmt.Sprintf("sum of the month lengths %d", sum)
			}
			return true, "", ""
		})
		ck.chk("leap-accessor", ys, func() (bool, string, string) {
			want := 0
			for _, r := range Y.inYear {
				if r.m < 0 {
					want = -r.m
				}
			}
			return Y.leap == want, fmt.Sprintf("GetLeapMonth %d", Y.leap), fmt.Sprintf("%d from the table %s", want, c06RecsStr(Y.inYear))
		})
		ck.chk("get-month", ys, func() (bool, string, string) {
			for m := -13; m <= 14; m++ {
				var want *c06M
				for i := range Y.inYear {
					if Y.inYear[i].m == m {
						want = &Y.inYear[i]
						break
					}
				}
				got := Y.getMonth[m]
				if (want == nil) != (got == nil) || (want != nil && *want != *got) {
					g, w := "nil", "nil"
					if got != nil {
						g = got.String()
					}
					if want != nil {
						w = want.String()
					}
					return false, fmt.Sprintf("GetMonth(%d) = %s", m, g), w
				}
			}
			return true, "", ""
		})
		// New Year's Eve (last day of the last month of year y) is followed by y+1-1-1
		if N.ok && len(Y.inYear) > 0 {
			last := Y.inYear[len(Y.inYear)-1]
			ck.chk("new-years-eve-table", ys, func() (bool, string, string) {
				f := N.getMonth[1]
				if f == nil {
					return false, fmt.Sprintf("no month 1 in year %d", y+1), "month 1"
				}
				if f.jd != last.jd+float64(last.n) || f.y != y+1 {
					return false, "last month " + last.String() + ", next year's first month " + f.String(), "month 1 of the next year starts the day after"
				}
				return true, "", ""
			})
			if y+1 <= 9998 && last.n >= 1 {
				nEveStep++
				ck.chk("new-years-eve-step", fmt.Sprintf("L%d/%d/%d", y, last.m, last.n), func() (bool, string, string) {
					t := randTime()
					l := calendar.NewLunar(y, last.m, last.n, t.h, t.mi, t.s)
					nx := l.Next(1)
					ok := nx.GetYear() == y+1 && nx.GetMonth() == 1 && nx.GetDay() == 1
					if ok {
						bk := nx.Next(-1)
						if bk.GetYear() != y || bk.GetMonth() != last.m || bk.GetDay() != last.n {
							return false, fmt.Sprintf("day before %d/1/1 is L%d/%d/%d", y+1, bk.GetYear(), bk.GetMonth(), bk.GetDay()), fmt.Sprintf("L%d/%d/%d", y, last.m, last.n)
						}
					}
					return ok, fmt.Sprintf("next day is L%d/%d/%d (%s)", nx.GetYear(), nx.GetMonth(), nx.GetDay(), nx.GetSolar().ToYmd()), fmt.Sprintf("L%d/1/1", y+1)
				})
			}
		}
		// neighbouring tables agree on every month they share (number, length, first day)
		for _, pair := range [][2]*c06Year{{P, Y}, {Y, N}} {
			A, B := pair[0], pair[1]
			if !A.ok || !B.ok || c06Reform(A.y) || c06Reform(B.y) || A.y < 0 {
				continue
			}
			ck.chk("neighbour-tables", fmt.Sprintf("%d,%d", A.y, B.y), func() (bool, string, string) {
				shared := 0
				for _, a := range A.table {
					for _, b := range B.table {
						sameLabel := a.y == b.y && a.m == b.m
						sameDay := a.jd == b.jd
						if sameLabel || sameDay {
							shared++
							if a != b {
								return false, fmt.Sprintf("table %d has %s, table %d has %s", A.y, a.String(), B.y, b.String()), "same number, length and first day"
							}
						}
					}
				}
				if shared == 0 {
					return false, "no shared month: " + c06RecsStr(A.table) + " | " + c06RecsStr(B.table), "tables of neighbouring years overlap (months 11 and 12)"
				}
				return true, "", ""
			})
		}
		if len(samples) < 1 && leapSeen >= 11 {
			samples = append(samples, fmt.Sprintf("year %d: %s", y, c06RecsStr(Y.inYear)))
		}
	}

	// ---------------- month navigation on the sweep years ----------------
	inRange := func(y, n int) bool {
		k := n
		if k < 0 {
			k = -k
		}
		return y-k/12-2 >= 1 && y+k/12+2 <= 9998
	}
	cmpAt := map[int]bool{}
	for k := 1; k <= 16; k++ {
		cmpAt[k] = true
	}
	for _, k := range []int{24, 25, 26, 36, 37, 38, 49, 50, 62, 75, 99, 124, 136} {
		cmpAt[k] = true
	}
	for _, y := range sweepYears(60) {
		if c06Reform(y) {
			continue
		}
		Y := c06Load(y)
		if !Y.ok || len(Y.inYear) == 0 {
			continue
		}
		starts := []int{Y.inYear[0].m, Y.inYear[len(Y.inYear)-1].m, Y.inYear[rng.Intn(len(Y.inYear))].m}
		if Y.leap != 0 && Y.getMonth[-Y.leap] != nil {
			starts[2] = -Y.leap
		}
		if tier == "thorough" {
			starts = []int{starts[0], starts[2]} // every year is visited: two starts per year keep a shard inside its budget
		} else if y > 30 && rng.Intn(2) == 0 {
			starts = starts[1:]
		}
		for si, sm := range starts {
			sm := sm
			in := fmt.Sprintf("L%d/%d", y, sm)
			var M *calendar.LunarMonth
			ck.chk("month-from-ym", in, func() (bool, string, string) {
				M = calendar.NewLunarMonthFromYm(y, sm)
				if M == nil {
					return false, "nil", "the month"
				}
				w := Y.getMonth[sm]
				return c06Rec(M) == *w, c06MonthStr(M), w.String()
			})
			if M == nil {
				continue
			}
			ck.chk("next-zero", in, func() (bool, string, string) {
				r := M.Next(0)
				return c06SameMonth(r, M), c06MonthStr(r), c06MonthStr(M)
			})
			ck.chk("next-inverse", in, func() (bool, string, string) {
				a := M.Next(1)
				if a == nil {
					return false, "Next(1) = nil", "a month"
				}
				c := M.Next(-1)
				if c06Touches(a, c, M) {
					return true, "", ""
				}
				b := a.Next(-1)
				if !c06SameMonth(b, M) {
					return false, "Next(1).Next(-1) = " + c06MonthStr(b) + " via " + c06MonthStr(a), c06MonthStr(M)
				}
				if c == nil {
					return false, "Next(-1) = nil", "a month"
				}
				d := c.Next(1)
				if !c06SameMonth(d, M) {
					return false, "Next(-1).Next(1) = " + c06MonthStr(d) + " via " + c06MonthStr(c), c06MonthStr(M)
				}
				// one step moves to the adjacent month: it starts the day after / ends the day before
				if a.GetFirstJulianDay() != M.GetFirstJulianDay()+float64(M.GetDayCount()) {
					return false, "Next(1) = " + c06MonthStr(a), "the month starting the day after " + c06MonthStr(M) + " ends"
				}
				if M.GetFirstJulianDay() != c.GetFirstJulianDay()+float64(c.GetDayCount()) {
					return false, "Next(-1) = " + c06MonthStr(c), "the month ending the day before " + c06MonthStr(M) + " starts"
				}
				return true, "", ""
			})
			// Next(n) == n-fold Next(1), both signs
			K := 140
			if si == 0 {
				K = 400
			}
			extra := map[int]bool{}
			for i := 0; i < 3; i++ {
				extra[17+rng.Intn(K-16)] = true
			}
			if si == 0 {
				extra[K] = true
			}
			for _, sign := range []int{1, -1} {
				sign := sign
				if !inRange(y, K) {
					continue
				}
				curM := M
				for k := 1; k <= K && curM != nil; k++ {
					k := k
					var nx *calendar.LunarMonth
					ck.chk("next-step", fmt.Sprintf("%s %+d after %d steps", in, sign, k-1), func() (bool, string, string) {
						nx = curM.Next(sign)
						if nx == nil && !c06Touches(M, curM) {
							return false, "nil from " + c06MonthStr(curM), "a month"
						}
						return true, "", ""
					})
					curM = nx
					if curM == nil || c06Touches(M, curM) {
						nReformStop++
						break // the walk has reached a reform year: out of the statement's scope from here on
					}
					if !cmpAt[k] && !extra[k] {
						continue
					}
					nWalkCmp++
					ck.chk("next-nfold", fmt.Sprintf("%s n=%d", in, sign*k), func() (bool, string, string) {
						r := M.Next(sign * k)
						if r != nil && c06Touches(M, r) {
							return false, "Next(n) = " + c06MonthStr(r) + " (in or beyond a reform year)", fmt.Sprintf("%d-fold Next(%d) = %s", k, sign, c06MonthStr(curM))
						}
						return c06SameMonth(r, curM), "Next(n) = " + c06MonthStr(r), fmt.Sprintf("%d-fold Next(%d) = %s", k, sign, c06MonthStr(curM))
					})
				}
			}
			// additivity
			for i := 0; i < 3; i++ {
				a, b := rng.Intn(601)-300, rng.Intn(601)-300
				switch i {
				case 1:
					a, b = rng.Intn(61)-30, rng.Intn(61)-30
				case 2:
					if si == 0 {
						a, b = rng.Intn(6001)-3000, rng.Intn(6001)-3000
					} else {
						b = -a + rng.Intn(5) - 2
					}
				}
				if !inRange(y, a) || !inRange(y, a+b) || !inRange(y, 2*a) {
					continue
				}
				ck.chk("next-additive", fmt.Sprintf("%s a=%d b=%d", in, a, b), func() (bool, string, string) {
					r1 := M.Next(a)
					if r1 == nil {
						return c06Touches(M, c06YearProbe(y+a/12-1), c06YearProbe(y+a/12+1)), "Next(a) = nil", "a month"
					}
					r2 := r1.Next(b)
					r3 := M.Next(a + b)
					if c06Touches(M, r1, r2, r3) {
						return true, "", ""
					}
					if r2 == nil || r3 == nil {
						return false, "nil", "a month"
					}
					return c06SameMonth(r2, r3), "Next(a).Next(b) = " + c06MonthStr(r2) + " via " + c06MonthStr(r1), "Next(a+b) = " + c06MonthStr(r3)
				})
			}
		}
		if len(samples) < 3 && Y.leap != 0 {
			samples = append(samples, fmt.Sprintf("walks from year %d starts %v (leap %d)", y, starts, Y.leap))
		}
	}
	fmt.Fprintf(out, "COUNT %d\n", ck.count)
	fmt.Fprintf(out, "STAT structure_years=%d\n", hi-lo+1)
	fmt.Fprintf(out, "STAT leap_years=%d\n", nLeapYears)
	fmt.Fprintf(out, "STAT leap_11_or_12=%d\n", nLeap11or12)
	fmt.Fprintf(out, "STAT eve_steps=%d\n", nEveStep)
	fmt.Fprintf(out, "STAT walk_comparisons=%d\n", nWalkCmp)
	fmt.Fprintf(out, "STAT walks_stopped_at_reform_year=%d\n", nReformStop)
	for i, s := range samples {
		if i < 3 {
			fmt.Fprintf(out, "SAMPLE %s\n", s)
		}
	}
}
