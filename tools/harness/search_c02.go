package main

// search-C02: months start on the new-moon day; leap months follow the no-major-term rule.
//
// Two levels, both evaluated on the real library:
//
//  (1) RULE level, lunar years 1929..3000 (all of them at every tier, sharded by year). Only public data is used:
//      the 15-entry month table NewLunarYear(y).GetMonths() and the 31 accurate term instants GetJieQiJulianDays()
//      (turned into civil days by NewSolarFromJulianDay). Checked: the month containing either winter solstice of the
//      table (entries 1 and 25) is numbered 11; 12 or 13 month starts from one solstice month to the next; a leap month
//      in that span iff 13; the leap month is the first month after the solstice month without a major-term day and
//      carries the negated number of its predecessor; the other months are numbered 12, 1, 2, ...; the tail of table y
//      (solstice month of December y and what follows - this is where the LEAP_11/LEAP_12 overrides act) carries the
//      same labels as the rule-checked span of table y+1.
//
//  (2) ASTRONOMY level, against an INDEPENDENT ephemeris written in this file (no ShouXingUtil):
//      true new moon by Meeus, Astronomical Algorithms ch. 49 (25 periodic + 14 planetary terms), apparent solar
//      longitude by Meeus ch. 25 (low accuracy, ~0.01 deg), Delta-T by the Espenak-Meeus polynomials, TD -> UT -> UTC+8.
//      Every month beginning 1645..3000 must begin on the UTC+8 civil day of the new moon unless the new moon is within
//      the era margin of local midnight (25 min 1645..1928, 3 min 1929..2500, 6 min 2501..3000); every major-term
//      instant 1929..3000 must fall on the civil day on which the independent longitude crosses the multiple of 30 deg
//      unless that crossing is within 20 min of midnight. Calibration statistics are printed as STAT lines (and the
//      individual differing cases as "#INFO" lines, ignored by bin/check).
//      The month numbering 1929..3000 is also rebuilt from the independent new moons and term days alone and compared
//      with the library's table; a difference must vanish when the margin events are snapped to the library's day.

import (
	"fmt"
	"math"

	"github.com/6tail/lunar-go/calendar"
)

func init() {
	modes["search-C02"] = searchC02
	modes["c02-ephem-test"] = c02EphemTest
}

// ---------------------------------------------------------------------------------------------------------------
// civil day <-> Julian Day Number (proleptic Gregorian; every date used here is after 1644)

func c02Jdn(y, m, d int) int {
	a := (14 - m) / 12
	yy := y + 4800 - a
	mm := m + 12*a - 3
	return d + (153*mm+2)/5 + 365*yy + yy/4 - yy/100 + yy/400 - 32045
}

func c02FromJdn(j int) (int, int, int) {
	a := j + 32044
	b := (4*a + 3) / 146097
	c := a - 146097*b/4
	d := (4*c + 3) / 1461
	e := c - 1461*d/4
	m := (5*e + 2) / 153
	return 100*b + d - 4800 + m/10, m + 3 - 12*(m/10), e - (153*m+2)/5 + 1
}

func c02DateStr(j int) string {
	y, m, d := c02FromJdn(j)
	return fmt.Sprintf("%04d-%02d-%02d", y, m, d)
}

// ---------------------------------------------------------------------------------------------------------------
// independent ephemeris

func c02Sin(deg float64) float64 { return math.Sin(math.Mod(deg, 360) * math.Pi / 180) }

// true new moon of lunation k (integer), JDE (dynamical time). Meeus ch. 49.
func c02NewMoonJDE(k float64) float64 {
	T := k / 1236.85
	T2 := T * T
	T3 := T2 * T
	T4 := T3 * T
	jde := 2451550.09766 + 29.530588861*k + 0.00015437*T2 - 0.000000150*T3 + 0.00000000073*T4
	E := 1 - 0.002516*T - 0.0000074*T2
	M := 2.5534 + 29.10535670*k - 0.0000014*T2 - 0.00000011*T3
	Mp := 201.5643 + 385.81693528*k + 0.0107582*T2 + 0.00001238*T3 - 0.000000058*T4
	F := 160.7108 + 390.67050284*k - 0.0016118*T2 - 0.00000227*T3 + 0.000000011*T4
	Om := 124.7746 - 1.56375588*k + 0.0020672*T2 + 0.00000215*T3
	s := c02Sin
	c := -0.40720*s(Mp) +
		0.17241*E*s(M) +
		0.01608*s(2*Mp) +
		0.01039*s(2*F) +
		0.00739*E*s(Mp-M) -
		0.00514*E*s(Mp+M) +
		0.00208*E*E*s(2*M) -
		0.00111*s(Mp-2*F) -
		0.00057*s(Mp+2*F) +
		0.00056*E*s(2*Mp+M) -
		0.00042*s(3*Mp) +
		0.00042*E*s(M+2*F) +
		0.00038*E*s(M-2*F) -
		0.00024*E*s(2*Mp-M) -
		0.00017*s(Om) -
		0.00007*s(Mp+2*M) +
		0.00004*s(2*Mp-2*F) +
		0.00004*s(3*M) +
		0.00003*s(Mp+M-2*F) +
		0.00003*s(2*Mp+2*F) -
		0.00003*s(Mp+M+2*F) +
		0.00003*s(Mp-M+2*F) -
		0.00002*s(Mp-M-2*F) -
		0.00002*s(3*Mp+M) +
		0.00002*s(4*Mp)
	a := 0.000325*s(299.77+0.107408*k-0.009173*T2) +
		0.000165*s(251.88+0.016321*k) +
		0.000164*s(251.83+26.651886*k) +
		0.000126*s(349.42+36.412478*k) +
		0.000110*s(84.66+18.206239*k) +
		0.000062*s(141.74+53.303771*k) +
		0.000060*s(207.14+2.453732*k) +
		0.000056*s(154.84+7.306860*k) +
		0.000047*s(34.52+27.261239*k) +
		0.000042*s(207.19+0.121824*k) +
		0.000040*s(291.34+1.844379*k) +
		0.000037*s(161.72+24.198154*k) +
		0.000035*s(239.56+25.513099*k) +
		0.000023*s(331.55+3.592518*k)
	return jde + c + a
}

// apparent geocentric longitude of the Sun, degrees in [0,360). Meeus ch. 25 (low accuracy).
func c02SunLon(jde float64) float64 {
	T := (jde - 2451545.0) / 36525
	L0 := 280.46646 + 36000.76983*T + 0.0003032*T*T
	M := 357.52911 + 35999.05029*T - 0.0001537*T*T
	C := (1.914602-0.004817*T-0.000014*T*T)*c02Sin(M) + (0.019993-0.000101*T)*c02Sin(2*M) + 0.000289*c02Sin(3*M)
	Om := 125.04 - 1934.136*T
	l := L0 + C - 0.00569 - 0.00478*c02Sin(Om)
	l = math.Mod(l, 360)
	if l < 0 {
		l += 360
	}
	return l
}

// Delta-T = TD - UT in seconds, Espenak & Meeus polynomial expressions (NASA eclipse web site), y = decimal year.
func c02DeltaT(y float64) float64 {
	par := func() float64 { u := (y - 1820) / 100; return -20 + 32*u*u }
	switch {
	case y < -500:
		return par()
	case y < 500:
		u := y / 100
		return 10583.6 + u*(-1014.41+u*(33.78311+u*(-5.952053+u*(-0.1798452+u*(0.022174192+u*0.0090316521)))))
	case y < 1600:
		u := (y - 1000) / 100
		return 1574.2 + u*(-556.01+u*(71.23472+u*(0.319781+u*(-0.8503463+u*(-0.005050998+u*0.0083572073)))))
	case y < 1700:
		t := y - 1600
		return 120 - 0.9808*t - 0.01532*t*t + t*t*t/7129
	case y < 1800:
		t := y - 1700
		return 8.83 + 0.1603*t - 0.0059285*t*t + 0.00013336*t*t*t - t*t*t*t/1174000
	case y < 1860:
		t := y - 1800
		return 13.72 + t*(-0.332447+t*(0.0068612+t*(0.0041116+t*(-0.00037436+t*(0.0000121272+t*(-0.0000001699+t*0.000000000875))))))
	case y < 1900:
		t := y - 1860
		return 7.62 + t*(0.5737+t*(-0.251754+t*(0.01680668+t*(-0.0004473624+t/233174))))
	case y < 1920:
		t := y - 1900
		return -2.79 + t*(1.494119+t*(-0.0598939+t*(0.0061966-t*0.000197)))
	case y < 1941:
		t := y - 1920
		return 21.20 + 0.84493*t - 0.076100*t*t + 0.0020936*t*t*t
	case y < 1961:
		t := y - 1950
		return 29.07 + 0.407*t - t*t/233 + t*t*t/2547
	case y < 1986:
		t := y - 1975
		return 45.45 + 1.067*t - t*t/260 - t*t*t/718
	case y < 2005:
		t := y - 2000
		return 63.86 + t*(0.3345+t*(-0.060374+t*(0.0017275+t*(0.000651814+t*0.00002373599))))
	case y < 2050:
		t := y - 2000
		return 62.92 + 0.32217*t + 0.005589*t*t
	case y < 2150:
		return par() - 0.5628*(2150-y)
	}
	return par()
}

// dynamical-time JDE -> "local Julian day" in UTC+8 (the convention of the library's public Julian days)
func c02Local(jde float64) float64 {
	y := 2000 + (jde-2451544.5)/365.2425
	return jde - c02DeltaT(y)/86400 + 8.0/24
}

// civil day number (JDN) of a local Julian day and the fraction of that civil day elapsed (0 = midnight starting it)
func c02DayFrac(local float64) (int, float64) {
	f := math.Floor(local + 0.5)
	return int(f), local + 0.5 - f
}

// independent new moon nearest to noon of civil day jdn: local JD
func c02NewMoonNear(jdn int) (k int, local float64) {
	k0 := int(math.Floor((float64(jdn)-2451550.09766)/29.530588861 + 0.5))
	best := math.Inf(1)
	for kk := k0 - 1; kk <= k0+1; kk++ {
		l := c02Local(c02NewMoonJDE(float64(kk)))
		if d := math.Abs(l - float64(jdn)); d < best {
			best, k, local = d, kk, l
		}
	}
	return
}

// instant (JDE) at which the independent solar longitude crosses lon, searched within seed +- 8 days
func c02Cross(lon float64, seed float64) (float64, bool) {
	f := func(t float64) float64 {
		d := math.Mod(c02SunLon(t)-lon, 360)
		if d > 180 {
			d -= 360
		}
		if d <= -180 {
			d += 360
		}
		return d
	}
	lo, hi := seed-8, seed+8
	if !(f(lo) < 0 && f(hi) > 0) {
		return 0, false
	}
	for i := 0; i < 60; i++ {
		mid := (lo + hi) / 2
		if f(mid) < 0 {
			lo = mid
		} else {
			hi = mid
		}
	}
	return (lo + hi) / 2, true
}

// independent instant (local JD) of entry i (0..30) of the 31-entry term table of civil year y;
// entry i has longitude 255 + 15 i and lies about (i-1) * 15.2184 days after 21 December y-1
func c02TermLocal(y, i int) (float64, bool) {
	lon := math.Mod(float64(255+15*i), 360)
	seed := float64(c02Jdn(y-1, 12, 21)) + 0.3 + float64(i-1)*15.2184
	t, ok := c02Cross(lon, seed)
	if !ok {
		return 0, false
	}
	return c02Local(t), true
}

func c02Hms(frac float64) string {
	s := int(math.Floor(frac*86400 + 0.5))
	if s >= 86400 {
		s = 86399
	}
	return fmt.Sprintf("%02d:%02d:%02d", s/3600, s/60%60, s%60)
}

func c02LocalStr(local float64) string {
	j, f := c02DayFrac(local)
	return c02DateStr(j) + " " + c02Hms(f)
}

// self-test of the ephemeris against published values; returns a description of each value and whether all pass
func c02SelfTest() ([]string, bool) {
	var lines []string
	ok := true
	add := func(name string, got, want, tol float64, unit string) {
		good := math.Abs(got-want) <= tol
		if !good {
			ok = false
		}
		lines = append(lines, fmt.Sprintf("%s: got %.5f want %.5f %s (tol %.5f) ok=%v", name, got, want, unit, tol, good))
	}
	// Meeus example 49.a: k = -283, JDE 2443192.65118 = 1977-02-18 03:37:42 TD
	add("newmoon k=-283 JDE (Meeus 49.a)", c02NewMoonJDE(-283), 2443192.65118, 0.00002, "d")
	// 2000-01-06 18:14 UT
	ut := func(k float64) float64 {
		j := c02NewMoonJDE(k)
		return j - c02DeltaT(2000+(j-2451544.5)/365.2425)/86400
	}
	add("newmoon k=0 UT JD (2000-01-06 18:14 UT)", ut(0), float64(c02Jdn(2000, 1, 6))-0.5+(18.0+14.0/60)/24, 1.5/1440, "d")
	// 2024-02-09 22:59 UT, k = 298
	add("newmoon k=298 UT JD (2024-02-09 22:59 UT)", ut(298), float64(c02Jdn(2024, 2, 9))-0.5+(22.0+59.0/60)/24, 1.5/1440, "d")
	// Meeus example 25.a: 1992-10-13 0h TD, apparent longitude 199.90895 (low accuracy method)
	add("sun lon JDE 2448908.5 (Meeus 25.a)", c02SunLon(2448908.5), 199.90895, 0.0001, "deg")
	add("deltaT 2000.0", c02DeltaT(2000), 63.86, 0.01, "s")
	add("deltaT 1900.0", c02DeltaT(1900), -2.79, 0.01, "s")
	add("deltaT 1700.0", c02DeltaT(1700), 8.83, 0.01, "s")
	add("deltaT 3000.0", c02DeltaT(3000), -20+32*11.8*11.8, 0.01, "s")
	// continuity of the piecewise set at its joints (published set is continuous to ~1 s)
	for _, y := range []float64{1600, 1700, 1800, 1860, 1900, 1920, 1941, 1961, 1986, 2005, 2050, 2150} {
		add(fmt.Sprintf("deltaT joint %.0f (left-right)", y), c02DeltaT(y-1e-9)-c02DeltaT(y), 0, 1.0, "s")
	}
	return lines, ok
}

func c02EphemTest() {
	lines, ok := c02SelfTest()
	for _, l := range lines {
		fmt.Fprintf(out, "%s\n", l)
	}
	for _, k := range []float64{-283, 0, 298} {
		j := c02NewMoonJDE(k)
		dt := c02DeltaT(2000 + (j-2451544.5)/365.2425)
		fmt.Fprintf(out, "k=%v TD %s  UT %s  UTC+8 %s  deltaT %.1f s\n", k, c02LocalStr(j), c02LocalStr(j-dt/86400), c02LocalStr(c02Local(j)), dt)
	}
	fmt.Fprintf(out, "selftest ok=%v\n", ok)
}

// ---------------------------------------------------------------------------------------------------------------
// library data (public accessors only)

type c02Month struct {
	year, month, days int
	first             int // JDN of the first civil day
}

type c02Table struct {
	y       int
	months  []c02Month
	termDay [31]int     // civil day (JDN) of each accurate term instant
	termLoc [31]float64 // the library's instant (local JD)
}

func c02SolarDay(jd float64) int {
	s := calendar.NewSolarFromJulianDay(jd)
	return c02Jdn(s.GetYear(), s.GetMonth(), s.GetDay())
}

func c02Load(y int) (t *c02Table, err string) {
	defer func() {
		if r := recover(); r != nil {
			t, err = nil, fmt.Sprintf("panic: %v", r)
		}
	}()
	ly := calendar.NewLunarYear(y)
	t = &c02Table{y: y}
	for e := ly.GetMonths().Front(); e != nil; e = e.Next() {
		m := e.Value.(*calendar.LunarMonth)
		t.months = append(t.months, c02Month{m.GetYear(), m.GetMonth(), m.GetDayCount(), c02SolarDay(m.GetFirstJulianDay())})
	}
	jds := ly.GetJieQiJulianDays()
	if len(jds) != 31 {
		return nil, fmt.Sprintf("term table has %d entries", len(jds))
	}
	for i, jd := range jds {
		t.termLoc[i] = jd
		t.termDay[i] = c02SolarDay(jd)
	}
	return t, ""
}

// index of the month of the table containing civil day d, -1 if none
func (t *c02Table) monthOf(d int) int {
	for i, m := range t.months {
		end := m.first + m.days
		if i+1 < len(t.months) {
			end = t.months[i+1].first
		}
		if m.first <= d && d < end {
			return i
		}
	}
	return -1
}

func (t *c02Table) hasMajorTerm(i int) bool {
	m := t.months[i]
	end := m.first + m.days
	if i+1 < len(t.months) {
		end = t.months[i+1].first
	}
	for e := 1; e < 31; e += 2 {
		if m.first <= t.termDay[e] && t.termDay[e] < end {
			return true
		}
	}
	return false
}

func (t *c02Table) String() string {
	s := ""
	for i, m := range t.months {
		if i > 0 {
			s += " "
		}
		s += fmt.Sprintf("%d:%d@%s", m.year, m.month, c02DateStr(m.first))
	}
	return s
}

func c02NextNumber(n int) int {
	if n < 0 {
		n = -n
	}
	return n%12 + 1
}

func c02Abs(n int) int {
	if n < 0 {
		return -n
	}
	return n
}

// ---------------------------------------------------------------------------------------------------------------

const (
	c02MarginTermMin = 20.0
)

func c02Era(civilYear int) int {
	switch {
	case civilYear <= 1928:
		return 0
	case civilYear <= 2500:
		return 1
	}
	return 2
}

var c02EraName = []string{"1645_1928", "1929_2500", "2501_3000"}
var c02MarginNewMoonMin = []float64{25, 3, 6}

// histogram bucket upper bounds (minutes from local midnight)
var c02Buckets = []float64{1, 1.5, 3, 6, 10, 15, 19, 20, 25}
var c02BucketName = []string{"le1m", "le1m30", "le3m", "le6m", "le10m", "le15m", "le19m", "le20m", "le25m", "gt25m"}

func c02Bucket(min float64) int {
	for i, b := range c02Buckets {
		if min <= b {
			return i
		}
	}
	return len(c02Buckets)
}

// a day difference lib - mine is excusable when it is exactly one day in the direction of the midnight that the
// independent instant is close to (within marginMin minutes)
func c02Excusable(libDay, myDay int, frac float64, marginMin float64) bool {
	m := marginMin / 1440
	if libDay == myDay+1 {
		return 1-frac <= m
	}
	if libDay == myDay-1 {
		return frac <= m
	}
	return false
}

func c02DistMin(frac float64) float64 { return math.Min(frac, 1-frac) * 1440 }

func searchC02() {
	if lines, ok := c02SelfTest(); !ok {
		for _, l := range lines {
			fmt.Fprintf(out, "#INFO selftest %s\n", l)
		}
		out.Flush()
		fatal("search-C02: the independent ephemeris fails its self-test")
	}
	count := 0
	capped := map[string]int{}
	report := func(kind, input, obs, exp string) {
		capped[kind]++
		if capped[kind] <= 20 {
			viol("C02", kind, input, obs, exp)
		}
	}
	chk := func(kind string, input string, f func() (bool, string, string)) {
		count++
		defer func() {
			if r := recover(); r != nil {
				report(kind, input, fmt.Sprintf("panic: %v", r), "no panic")
			}
		}()
		if ok, obs, exp := f(); !ok {
			report(kind, input, obs, exp)
		}
	}
	var samples []string

	// one-slot cache of loaded tables (the library's own cache is single-slot as well)
	cache := map[int]*c02Table{}
	load := func(y int) *c02Table {
		if t, ok := cache[y]; ok {
			return t
		}
		t, err := c02Load(y)
		if err != "" {
			count++
			report("numbering", fmt.Sprint(y), "month/term table: "+err, "a 15-month table and 31 term instants")
			t = nil
		}
		if len(cache) > 4 {
			cache = map[int]*c02Table{}
		}
		cache[y] = t
		return t
	}

	// ------------------------------------------------------------------------------------------------ (1) rule level
	years13, years12, overrideYears := 0, 0, 0
	// span of table t: indices a (month of solstice entry 1) and b (month of solstice entry 25); ok=false if not found
	span := func(t *c02Table) (int, int, bool) {
		a, b := t.monthOf(t.termDay[1]), t.monthOf(t.termDay[25])
		return a, b, a >= 0 && b > a
	}
	for y := 1929; y <= 3000; y++ {
		if (y-1929)%shardN != shardI {
			continue
		}
		t := load(y)
		if t == nil {
			continue
		}
		in := fmt.Sprint(y)
		for _, ov := range [][]int{calendar.LEAP_11, calendar.LEAP_12} {
			for _, oy := range ov {
				if oy == y {
					overrideYears++
				}
			}
		}
		a, b := t.monthOf(t.termDay[1]), t.monthOf(t.termDay[25])
		chk("solstice-month-not-11", in+" entry 1", func() (bool, string, string) {
			if a < 0 {
				return false, "winter solstice " + c02DateStr(t.termDay[1]) + " outside the month table", "inside month 11"
			}
			return t.months[a].month == 11, fmt.Sprintf("winter solstice %s lies in month %d of %d", c02DateStr(t.termDay[1]), t.months[a].month, t.months[a].year), "month 11"
		})
		chk("solstice-month-not-11", in+" entry 25", func() (bool, string, string) {
			if b < 0 {
				return false, "winter solstice " + c02DateStr(t.termDay[25]) + " outside the month table", "inside month 11"
			}
			return t.months[b].month == 11, fmt.Sprintf("winter solstice %s lies in month %d of %d", c02DateStr(t.termDay[25]), t.months[b].month, t.months[b].year), "month 11"
		})
		if a < 0 || b < 0 {
			continue
		}
		n := b - a
		leaps := 0
		leapAt := -1
		for i := a; i < b; i++ {
			if t.months[i].month < 0 {
				leaps++
				if leapAt < 0 {
					leapAt = i
				}
			}
		}
		if n == 13 {
			years13++
		} else if n == 12 {
			years12++
		}
		chk("leap-count", in, func() (bool, string, string) {
			if n != 12 && n != 13 {
				return false, fmt.Sprintf("%d month starts between the solstice months", n), "12 or 13"
			}
			return leaps == n-12, fmt.Sprintf("%d month starts, %d leap month(s): %s", n, leaps, t), fmt.Sprintf("%d leap month(s)", n-12)
		})
		if n == 13 {
			first := -1
			for i := a + 1; i < b; i++ {
				if !t.hasMajorTerm(i) {
					first = i
					break
				}
			}
			chk("leap-position", in, func() (bool, string, string) {
				if first < 0 {
					return false, "13 months and every one contains a major term: " + t.String(), "a month without major term"
				}
				return leapAt == first, fmt.Sprintf("leap month at table index %d (%s): %s", leapAt, func() string {
						if leapAt < 0 {
							return "none"
						}
						return c02DateStr(t.months[leapAt].first)
					}(), t), fmt.Sprintf("index %d (month beginning %s is the first without a major term)", first, c02DateStr(t.months[first].first))
			})
			if len(samples) < 1 && first > 0 {
				samples = append(samples, fmt.Sprintf("rule %d: 13 months, leap %d begins %s", y, t.months[first].month, c02DateStr(t.months[first].first)))
			}
		}
		chk("numbering", in, func() (bool, string, string) {
			prev := 11
			for i := a + 1; i <= b; i++ {
				m := t.months[i].month
				if m < 0 {
					if m != -c02Abs(t.months[i-1].month) {
						return false, fmt.Sprintf("leap month at index %d is numbered %d after month %d: %s", i, m, t.months[i-1].month, t), fmt.Sprint(-c02Abs(t.months[i-1].month))
					}
					continue
				}
				if m != c02NextNumber(prev) {
					return false, fmt.Sprintf("month at index %d is numbered %d: %s", i, m, t), fmt.Sprint(c02NextNumber(prev))
				}
				prev = m
			}
			return true, "", ""
		})
		// tail of table y against the rule-checked span of table y+1 (the LEAP_11/LEAP_12 overrides act on the tail)
		if y < 3000 {
			nx := load(y + 1)
			if nx != nil {
				chk("numbering", in+" tail", func() (bool, string, string) {
					na, _, ok := span(nx)
					if !ok {
						return true, "", "" // reported when y+1 is checked
					}
					if nx.months[na].first != t.months[b].first {
						return false, fmt.Sprintf("solstice month of Dec %d begins %s in table %d and %s in table %d", y, c02DateStr(t.months[b].first), y, c02DateStr(nx.months[na].first), y+1), "same month"
					}
					for i := b; i < len(t.months); i++ {
						j := na + i - b
						if j >= len(nx.months) {
							break
						}
						p, q := t.months[i], nx.months[j]
						if p.first != q.first || p.month != q.month || p.year != q.year || p.days != q.days {
							return false, fmt.Sprintf("table %d index %d = %d:%d@%s(%dd), table %d index %d = %d:%d@%s(%dd)", y, i, p.year, p.month, c02DateStr(p.first), p.days, y+1, j, q.year, q.month, c02DateStr(q.first), q.days), "the same month record"
						}
					}
					return true, "", ""
				})
			}
		}
	}

	// ------------------------------------------------------------------------------------------ (2a) new-moon day
	var nmTotal, nmDiff, nmMargin, nmNear [3]int
	var nmHist [3][10]int
	for ly := 1644; ly <= 3000; ly++ {
		if (ly-1644)%shardN != shardI {
			continue
		}
		t := load(ly)
		if t == nil {
			continue
		}
		for _, m := range t.months {
			if m.year != ly {
				continue
			}
			cy, _, _ := c02FromJdn(m.first)
			if cy < 1645 || cy > 3000 {
				continue
			}
			era := c02Era(cy)
			margin := c02MarginNewMoonMin[era]
			m := m
			in := c02DateStr(m.first)
			chk("month-start-not-new-moon-day", in, func() (bool, string, string) {
				_, local := c02NewMoonNear(m.first)
				myDay, frac := c02DayFrac(local)
				dist := c02DistMin(frac)
				nmTotal[era]++
				if dist <= margin {
					nmNear[era]++
				}
				if len(samples) < 2 && ly%97 == 0 && m.month == 1 {
					samples = append(samples, fmt.Sprintf("month %d-%d begins %s, independent new moon %s UTC+8", m.year, m.month, in, c02LocalStr(local)))
				}
				if myDay == m.first {
					return true, "", ""
				}
				nmDiff[era]++
				nmHist[era][c02Bucket(dist)]++
				fmt.Fprintf(out, "#INFO newmoon-diff month %d-%d begins %s, independent new moon %s UTC+8, %.2f min from midnight\n", m.year, m.month, in, c02LocalStr(local), dist)
				if c02Excusable(m.first, myDay, frac, margin) {
					nmMargin[era]++
					return true, "", ""
				}
				return false, fmt.Sprintf("lunar month %d-%d begins %s", m.year, m.month, in),
					fmt.Sprintf("%s (independent new moon %s UTC+8, %.1f min from midnight, margin %.0f min)", c02DateStr(myDay), c02LocalStr(local), dist, margin)
			})
		}
	}

	// ------------------------------------------------------------------------------------------ (2b) major-term day
	var tmTotal, tmDiff, tmMargin, tmNear [3]int
	var tmHist [3][10]int
	maxTermDiffSec := 0.0
	for y := 1929; y <= 3000; y++ {
		if (y-1929)%shardN != shardI {
			continue
		}
		t := load(y)
		if t == nil {
			continue
		}
		for e := 1; e <= 25; e += 2 {
			if e == 25 && y != 3000 {
				continue // it is entry 1 of table y+1
			}
			cy, _, _ := c02FromJdn(t.termDay[e])
			if cy < 1929 || cy > 3000 {
				continue
			}
			era := c02Era(cy)
			e := e
			in := fmt.Sprintf("%d entry %d %s", y, e, c02LocalStr(t.termLoc[e]))
			chk("major-term-day", in, func() (bool, string, string) {
				local, ok := c02TermLocal(y, e)
				if !ok {
					return false, "library instant " + c02LocalStr(t.termLoc[e]), fmt.Sprintf("independent longitude has no crossing of %d deg within 8 days of the expected date", (255+15*e)%360)
				}
				myDay, frac := c02DayFrac(local)
				dist := c02DistMin(frac)
				tmTotal[era]++
				if dist <= c02MarginTermMin {
					tmNear[era]++
				}
				if d := math.Abs(local-t.termLoc[e]) * 86400; d > maxTermDiffSec {
					maxTermDiffSec = d
				}
				if len(samples) < 3 && e == 7 && y%101 == 0 {
					samples = append(samples, fmt.Sprintf("term %d entry %d: library %s, independent %s UTC+8", y, e, c02LocalStr(t.termLoc[e]), c02LocalStr(local)))
				}
				if myDay == t.termDay[e] {
					return true, "", ""
				}
				tmDiff[era]++
				tmHist[era][c02Bucket(dist)]++
				fmt.Fprintf(out, "#INFO term-diff year %d entry %d library %s, independent %s UTC+8, %.2f min from midnight\n", y, e, c02LocalStr(t.termLoc[e]), c02LocalStr(local), dist)
				if c02Excusable(t.termDay[e], myDay, frac, c02MarginTermMin) {
					tmMargin[era]++
					return true, "", ""
				}
				return false, "library instant " + c02LocalStr(t.termLoc[e]),
					fmt.Sprintf("day %s (independent crossing %s UTC+8, %.1f min from midnight, margin %.0f min)", c02DateStr(myDay), c02LocalStr(local), dist, c02MarginTermMin)
			})
		}
	}

	// ----------------------------------------------------------------------------- (2c) independent month numbering
	indepSame, indepMargin := 0, 0
	for y := 1929; y <= 3000; y++ {
		if (y-1929)%shardN != shardI {
			continue
		}
		t := load(y)
		if t == nil {
			continue
		}
		la, lb, ok := span(t)
		if !ok {
			continue // already reported by the rule level
		}
		libStarts := map[int]bool{}
		for _, m := range t.months {
			libStarts[m.first] = true
		}
		era := c02Era(y)
		// build(snap): month starts and numbers of the span from the independent ephemeris; with snap, events inside
		// their margin of midnight take the library's day when that is the adjacent day
		build := func(snap bool) (starts []int, nums []int, err string) {
			var z [13]int // major-term days: entries 1,3,...,25
			for j := 0; j <= 12; j++ {
				local, ok := c02TermLocal(y, 1+2*j)
				if !ok {
					return nil, nil, "no longitude crossing"
				}
				d, frac := c02DayFrac(local)
				if snap && d != t.termDay[1+2*j] && c02Excusable(t.termDay[1+2*j], d, frac, c02MarginTermMin) {
					d = t.termDay[1+2*j]
				}
				z[j] = d
			}
			k0 := int(math.Floor((float64(z[0])-2451550.09766)/29.530588861)) - 2
			var nm []int
			for k := k0; k < k0+19; k++ {
				local := c02Local(c02NewMoonJDE(float64(k)))
				d, frac := c02DayFrac(local)
				if snap && !libStarts[d] {
					for _, alt := range []int{d - 1, d + 1} {
						if libStarts[alt] && c02Excusable(alt, d, frac, c02MarginNewMoonMin[era]) {
							d = alt
							break
						}
					}
				}
				nm = append(nm, d)
			}
			a, b := -1, -1
			for j, d := range nm {
				if d <= z[0] {
					a = j
				}
				if d <= z[12] {
					b = j
				}
			}
			if a < 0 || b+1 >= len(nm) || b <= a {
				return nil, nil, "solstice months not found"
			}
			n := b - a
			if n != 12 && n != 13 {
				return nil, nil, fmt.Sprintf("%d lunations between solstice months", n)
			}
			leap := -1
			if n == 13 {
				for j := a + 1; j < b; j++ {
					has := false
					for _, d := range z {
						if nm[j] <= d && d < nm[j+1] {
							has = true
						}
					}
					if !has {
						leap = j
						break
					}
				}
				if leap < 0 {
					return nil, nil, "13 lunations, all with a major term"
				}
			}
			num := 11
			for j := a; j <= b; j++ {
				starts = append(starts, nm[j])
				if j == a {
					nums = append(nums, 11)
				} else if j == leap {
					nums = append(nums, -num)
				} else {
					num = num%12 + 1
					nums = append(nums, num)
				}
			}
			return starts, nums, ""
		}
		same := func(starts, nums []int) bool {
			if len(starts) != lb-la+1 {
				return false
			}
			for i := range starts {
				if t.months[la+i].first != starts[i] || t.months[la+i].month != nums[i] {
					return false
				}
			}
			return true
		}
		str := func(starts, nums []int) string {
			s := ""
			for i := range starts {
				s += fmt.Sprintf("%d@%s ", nums[i], c02DateStr(starts[i]))
			}
			return s
		}
		chk("independent-table", fmt.Sprint(y), func() (bool, string, string) {
			s0, n0, e0 := build(false)
			if e0 == "" && same(s0, n0) {
				indepSame++
				return true, "", ""
			}
			s1, n1, e1 := build(true)
			if e1 == "" && same(s1, n1) {
				indepMargin++
				fmt.Fprintf(out, "#INFO independent-table %d differs only through margin events: library %s | independent %s %s\n", y, t, str(s0, n0), e0)
				return true, "", ""
			}
			return false, "library " + t.String(), "independent (margin events snapped) " + str(s1, n1) + e1
		})
	}

	// ------------------------------------------------------------------------------------------------------ output
	fmt.Fprintf(out, "COUNT %d\n", count)
	fmt.Fprintf(out, "STAT rule_years_13=%d\n", years13)
	fmt.Fprintf(out, "STAT rule_years_12=%d\n", years12)
	fmt.Fprintf(out, "STAT rule_override_years=%d\n", overrideYears)
	mn, mt := 0, 0
	for e := 0; e < 3; e++ {
		fmt.Fprintf(out, "STAT newmoon_months_%s=%d\n", c02EraName[e], nmTotal[e])
		fmt.Fprintf(out, "STAT newmoon_daydiff_%s=%d\n", c02EraName[e], nmDiff[e])
		fmt.Fprintf(out, "STAT newmoon_daydiff_in_margin_%s=%d\n", c02EraName[e], nmMargin[e])
		fmt.Fprintf(out, "STAT newmoon_within_margin_of_midnight_%s=%d\n", c02EraName[e], nmNear[e])
		for b, c := range nmHist[e] {
			if c > 0 {
				fmt.Fprintf(out, "STAT newmoon_daydiff_%s_%s=%d\n", c02EraName[e], c02BucketName[b], c)
			}
		}
		mn += nmMargin[e]
	}
	for e := 1; e < 3; e++ {
		fmt.Fprintf(out, "STAT term_instants_%s=%d\n", c02EraName[e], tmTotal[e])
		fmt.Fprintf(out, "STAT term_daydiff_%s=%d\n", c02EraName[e], tmDiff[e])
		fmt.Fprintf(out, "STAT term_daydiff_in_margin_%s=%d\n", c02EraName[e], tmMargin[e])
		fmt.Fprintf(out, "STAT term_within_margin_of_midnight_%s=%d\n", c02EraName[e], tmNear[e])
		for b, c := range tmHist[e] {
			if c > 0 {
				fmt.Fprintf(out, "STAT term_daydiff_%s_%s=%d\n", c02EraName[e], c02BucketName[b], c)
			}
		}
		mt += tmMargin[e]
	}
	fmt.Fprintf(out, "STAT margin_newmoon=%d\n", mn)
	fmt.Fprintf(out, "STAT margin_term=%d\n", mt)
	fmt.Fprintf(out, "STAT independent_table_same=%d\n", indepSame)
	fmt.Fprintf(out, "STAT independent_table_margin=%d\n", indepMargin)
	fmt.Fprintf(out, "#INFO max |independent - library| major-term instant in this shard: %.0f s\n", maxTermDiffSec)
	for k, c := range capped {
		if c > 20 {
			fmt.Fprintf(out, "#INFO %d further %s violations suppressed\n", c-20, k)
		}
	}
	for _, s := range samples {
		fmt.Fprintf(out, "SAMPLE %s\n", s)
	}
}
