package main

// search-C11: alternative routes to the same fact agree.
//  (a) hour object (Lunar.GetTime / GetTimes) vs the lunar date's hour accessors
//  (b) NewLunarYear(lunar.GetYear()) vs the lunar date's New-Year-based year accessors
//  (c) deprecated aliases vs replacements
//  (d) default-school accessors vs the explicit school they document
//  (e) every derived attribute of an eight-character pillar is a function of (that pillar, the day stem selected by the
//      sect); two charts with equal pillars report identical attribute vectors.
// Violation inputs are the defining inputs of the compared pair where the pair is table driven (so that one defect
// gives the same few keys in every shard), the moment otherwise.

import (
	"container/list"
	"fmt"
	"strings"
	"time"

	"github.com/6tail/lunar-go/calendar"
)

func init() {
	modes["search-C11"] = searchC11
}

type c11Pair struct {
	name string // compared pair
	root string // root input for the violation key ("" = the moment)
	a, b string
}

func c11Star(s *calendar.NineStar) string {
	if s == nil {
		return "nil"
	}
	return fmt.Sprintf("%d:%s", s.GetIndex(), s.String())
}

func c11JQ(j *calendar.JieQi) string {
	if j == nil {
		return "nil"
	}
	return j.GetName() + "@" + j.GetSolar().ToYmdHms()
}

func c11Solars(l *list.List) string {
	var p []string
	for e := l.Front(); e != nil; e = e.Next() {
		p = append(p, e.Value.(*calendar.Solar).ToYmdHms())
	}
	return strings.Join(p, ",")
}

func c11Arr(a [4]string) string { return strings.Join(a[:], " ") }

// c11Chart: the attribute vector of a chart under its current sect
func c11Chart(e *calendar.EightChar) string {
	return strings.Join([]string{
		strings.Join([]string{e.GetYearGan(), e.GetYearZhi(), e.GetMonthGan(), e.GetMonthZhi(), e.GetDayGan(), e.GetDayZhi(), e.GetTimeGan(), e.GetTimeZhi()}, ""),
		strings.Join([]string{e.GetYearWuXing(), e.GetMonthWuXing(), e.GetDayWuXing(), e.GetTimeWuXing()}, " "),
		strings.Join([]string{e.GetYearNaYin(), e.GetMonthNaYin(), e.GetDayNaYin(), e.GetTimeNaYin()}, " "),
		strings.Join([]string{e.GetYearShiShenGan(), e.GetMonthShiShenGan(), e.GetDayShiShenGan(), e.GetTimeShiShenGan()}, " "),
		strings.Join([]string{dqJoin(e.GetYearShiShenZhi()), dqJoin(e.GetMonthShiShenZhi()), dqJoin(e.GetDayShiShenZhi()), dqJoin(e.GetTimeShiShenZhi())}, " "),
		strings.Join([]string{strings.Join(e.GetYearHideGan(), ","), strings.Join(e.GetMonthHideGan(), ","), strings.Join(e.GetDayHideGan(), ","), strings.Join(e.GetTimeHideGan(), ",")}, " "),
		strings.Join([]string{e.GetYearDiShi(), e.GetMonthDiShi(), e.GetDayDiShi(), e.GetTimeDiShi()}, " "),
		strings.Join([]string{e.GetYearXun(), e.GetMonthXun(), e.GetDayXun(), e.GetTimeXun()}, " "),
		strings.Join([]string{e.GetYearXunKong(), e.GetMonthXunKong(), e.GetDayXunKong(), e.GetTimeXunKong()}, " "),
		strings.Join([]string{e.GetTaiYuan(), e.GetTaiYuanNaYin(), e.GetTaiXi(), e.GetTaiXiNaYin(), e.GetMingGong(), e.GetMingGongNaYin(), e.GetShenGong(), e.GetShenGongNaYin()}, " "),
		fmt.Sprintf("%d %d", e.GetDayGanIndex(), e.GetDayZhiIndex()),
	}, "|")
}

type c11State struct {
	ck     *dqCk
	fn     *c18Maps // function maps for (e)
	charts map[string]c18Obs
	nPairs int
}

func (st *c11State) cmp(when string, ps []c11Pair) {
	for _, p := range ps {
		st.ck.count++
		st.nPairs++
		if p.a != p.b {
			in := p.root
			if in == "" {
				in = when
			}
			st.ck.report(p.name, in, p.a+" (at "+when+")", p.b)
		}
	}
}

// hourPairs: hour object t (for the moment of l) against l's own hour accessors
func c11HourPairs(l *calendar.Lunar, t *calendar.LunarTime) []c11Pair {
	hs, hb, hp := "hourStem="+l.GetTimeGan(), "hourBranch="+l.GetTimeZhi(), "hourPillar="+l.GetTimeInGanZhi()
	dh := "dayBranchExact=" + l.GetDayZhiExact() + " " + hb
	dp := "dayPillarExact=" + l.GetDayInGanZhiExact() + " " + hp
	n := func(s string) string { return "hour-object:" + s }
	ps := []c11Pair{
		{n("GetGanZhi~GetTimeInGanZhi"), "", t.GetGanZhi(), l.GetTimeInGanZhi()},
		{n("GetGan~GetTimeGan"), "", t.GetGan(), l.GetTimeGan()},
		{n("GetZhi~GetTimeZhi"), "", t.GetZhi(), l.GetTimeZhi()},
		{n("GetGanIndex~GetTimeGanIndex"), "", fmt.Sprint(t.GetGanIndex()), fmt.Sprint(l.GetTimeGanIndex())},
		{n("GetZhiIndex~GetTimeZhiIndex"), "", fmt.Sprint(t.GetZhiIndex()), fmt.Sprint(l.GetTimeZhiIndex())},
		{n("GetShengXiao~GetTimeShengXiao"), hb, t.GetShengXiao(), l.GetTimeShengXiao()},
		{n("GetNineStar~GetTimeNineStar"), "", c11Star(t.GetNineStar()), c11Star(l.GetTimeNineStar())},
		{n("GetTianShen~GetTimeTianShen"), dh, t.GetTianShen(), l.GetTimeTianShen()},
		{n("GetTianShenType~GetTimeTianShenType"), dh, t.GetTianShenType(), l.GetTimeTianShenType()},
		{n("GetTianShenLuck~GetTimeTianShenLuck"), dh, t.GetTianShenLuck(), l.GetTimeTianShenLuck()},
		{n("GetPositionXi~GetTimePositionXi"), hs, t.GetPositionXi(), l.GetTimePositionXi()},
		{n("GetPositionXiDesc~GetTimePositionXiDesc"), hs, t.GetPositionXiDesc(), l.GetTimePositionXiDesc()},
		{n("GetPositionYangGui~GetTimePositionYangGui"), hs, t.GetPositionYangGui(), l.GetTimePositionYangGui()},
		{n("GetPositionYangGuiDesc~GetTimePositionYangGuiDesc"), hs, t.GetPositionYangGuiDesc(), l.GetTimePositionYangGuiDesc()},
		{n("GetPositionYinGui~GetTimePositionYinGui"), hs, t.GetPositionYinGui(), l.GetTimePositionYinGui()},
		{n("GetPositionYinGuiDesc~GetTimePositionYinGuiDesc"), hs, t.GetPositionYinGuiDesc(), l.GetTimePositionYinGuiDesc()},
		{n("GetPositionFu~GetTimePositionFu"), hs, t.GetPositionFu(), l.GetTimePositionFu()},
		{n("GetPositionFuDesc~GetTimePositionFuDesc"), hs, t.GetPositionFuDesc(), l.GetTimePositionFuDesc()},
		{n("GetPositionCai~GetTimePositionCai"), hs, t.GetPositionCai(), l.GetTimePositionCai()},
		{n("GetPositionCaiDesc~GetTimePositionCaiDesc"), hs, t.GetPositionCaiDesc(), l.GetTimePositionCaiDesc()},
		{n("GetChong~GetTimeChong"), hb, t.GetChong(), l.GetTimeChong()},
		{n("GetChongGan~GetTimeChongGan"), hs, t.GetChongGan(), l.GetTimeChongGan()},
		{n("GetChongGanTie~GetTimeChongGanTie"), hs, t.GetChongGanTie(), l.GetTimeChongGanTie()},
		{n("GetChongShengXiao~GetTimeChongShengXiao"), hb, t.GetChongShengXiao(), l.GetTimeChongShengXiao()},
		{n("GetChongDesc~GetTimeChongDesc"), hp, t.GetChongDesc(), l.GetTimeChongDesc()},
		{n("GetSha~GetTimeSha"), hb, t.GetSha(), l.GetTimeSha()},
		{n("GetYi~GetTimeYi"), dp, dqJoin(t.GetYi()), dqJoin(l.GetTimeYi())},
		{n("GetJi~GetTimeJi"), dp, dqJoin(t.GetJi()), dqJoin(l.GetTimeJi())},
		{n("GetNaYin~GetTimeNaYin"), hp, t.GetNaYin(), l.GetTimeNaYin()},
		{n("GetXun~GetTimeXun"), hp, t.GetXun(), l.GetTimeXun()},
		{n("GetXunKong~GetTimeXunKong"), hp, t.GetXunKong(), l.GetTimeXunKong()},
	}
	return ps
}

func c11YunStr(y *calendar.Yun) string {
	return fmt.Sprintf("%v %d %d %d %d %s", y.IsForward(), y.GetStartYear(), y.GetStartMonth(), y.GetStartDay(), y.GetStartHour(), y.GetStartSolar().ToYmdHms())
}

func c11DaYunStr(ds []*calendar.DaYun) string {
	var p []string
	for _, d := range ds {
		p = append(p, fmt.Sprintf("%d:%d-%d:%d-%d:%s", d.GetIndex(), d.GetStartYear(), d.GetEndYear(), d.GetStartAge(), d.GetEndAge(), d.GetGanZhi()))
	}
	return strings.Join(p, ",")
}

// feed (e): attribute function maps and the chart map for one chart under its current sect
func (st *c11State) chart(e *calendar.EightChar, sect int, when string) {
	who := fmt.Sprintf("%s sect=%d", when, sect)
	ds := e.GetDayGan()
	type pil struct {
		pos, gz, gan, zhi, wuxing, nayin, ssg, ssz, hide, dishi, xun, kong string
	}
	ps := []pil{
		{"Year", e.GetYear(), e.GetYearGan(), e.GetYearZhi(), e.GetYearWuXing(), e.GetYearNaYin(), e.GetYearShiShenGan(), dqJoin(e.GetYearShiShenZhi()), strings.Join(e.GetYearHideGan(), ","), e.GetYearDiShi(), e.GetYearXun(), e.GetYearXunKong()},
		{"Month", e.GetMonth(), e.GetMonthGan(), e.GetMonthZhi(), e.GetMonthWuXing(), e.GetMonthNaYin(), e.GetMonthShiShenGan(), dqJoin(e.GetMonthShiShenZhi()), strings.Join(e.GetMonthHideGan(), ","), e.GetMonthDiShi(), e.GetMonthXun(), e.GetMonthXunKong()},
		{"Day", e.GetDay(), e.GetDayGan(), e.GetDayZhi(), e.GetDayWuXing(), e.GetDayNaYin(), e.GetDayShiShenGan(), dqJoin(e.GetDayShiShenZhi()), strings.Join(e.GetDayHideGan(), ","), e.GetDayDiShi(), e.GetDayXun(), e.GetDayXunKong()},
		{"Time", e.GetTime(), e.GetTimeGan(), e.GetTimeZhi(), e.GetTimeWuXing(), e.GetTimeNaYin(), e.GetTimeShiShenGan(), dqJoin(e.GetTimeShiShenZhi()), strings.Join(e.GetTimeHideGan(), ","), e.GetTimeDiShi(), e.GetTimeXun(), e.GetTimeXunKong()},
	}
	for _, p := range ps {
		acc := "EightChar.Get" + p.pos
		kp := "pillar=" + p.gz
		kd := kp + " dayStem=" + ds
		st.ck.count++
		if p.gan+p.zhi != p.gz {
			st.ck.report("pillar-parts:"+p.pos, who, p.gan+"+"+p.zhi, p.gz)
		}
		st.fn.put("WuXing", kp, p.wuxing, acc+"WuXing", who)
		st.fn.put("NaYin", kp, p.nayin, acc+"NaYin", who)
		st.fn.put("Xun", kp, p.xun, acc+"Xun", who)
		st.fn.put("XunKong", kp, p.kong, acc+"XunKong", who)
		st.fn.put("HideGan", "branch="+p.zhi, p.hide, acc+"HideGan", who)
		if p.pos == "Day" {
			st.fn.put("ShiShenGan(day pillar)", kd, p.ssg, acc+"ShiShenGan", who)
		} else {
			st.fn.put("ShiShenGan", "stem="+p.gan+" dayStem="+ds, p.ssg, acc+"ShiShenGan", who)
		}
		st.fn.put("ShiShenZhi", "branch="+p.zhi+" dayStem="+ds, p.ssz, acc+"ShiShenZhi", who)
		st.fn.put("DiShi", "branch="+p.zhi+" dayStem="+ds, p.dishi, acc+"DiShi", who)
	}
	st.fn.put("TaiYuan", "pillar="+e.GetMonth(), e.GetTaiYuan(), "EightChar.GetTaiYuan", who)
	st.fn.put("TaiXi", "pillar="+e.GetDay(), e.GetTaiXi(), "EightChar.GetTaiXi", who)
	key := e.GetYear() + " " + e.GetMonth() + " " + e.GetDay() + " " + e.GetTime()
	v := c11Chart(e)
	st.ck.count++
	if o, ok := st.charts[key]; ok {
		if o.val != v {
			st.ck.report("charts-with-equal-pillars-differ", key, v+" ("+who+")", o.val+" ("+o.where+")")
		}
	} else {
		st.charts[key] = c18Obs{v, who}
	}
}

func searchC11() {
	defer dqProf()()
	ck := dqNew("C11", 12)
	st := &c11State{ck: ck, charts: map[string]c18Obs{}}
	st.fn = &c18Maps{ck: ck, m: map[string]map[string]c18Obs{}}
	nowYear := time.Now().Local().Year()
	nMoments, nTimes, nBaZi, nSameChart := 0, 0, 0, 0
	var samples []string
	nRandom := 25
	for _, y := range sweepYears(nRandom) {
		for di, dd := range daysOfYearList(y) {
			y, m, d := dd.y, dd.m, dd.d
			var l0 *calendar.Lunar
			day := fmt.Sprintf("%04d-%02d-%02d", y, m, d)
			ck.chk("construct", day, func() (bool, string, string) {
				l0 = sol(y, m, d, 0, 0, 0).GetLunar()
				return true, "", ""
			})
			if l0 == nil {
				continue
			}
			ts := timesFor(l0, y, m, d, 1)
			if tier == "thorough" && len(ts) == 2 && di%2 != y%2 {
				ts = ts[:0] // thorough tier: ordinary days every other day (term days always); the per-day checks still run
			}
			// directed: late rat hour today (sect 1) and early rat hour tomorrow (sect 2) give equal pillars
			pairDay := di%4 < 2
			if pairDay {
				ts = append(ts, hms{23, 30, 0}, hms{0, 30, 0})
			}
			for ti, t := range ts {
				t := t
				when := dqYmdHms(y, m, d, t)
				nMoments++
				ck.chk("moment", when, func() (bool, string, string) {
					s := sol(y, m, d, t.h, t.mi, t.s)
					l := s.GetLunar()
					tm := l.GetTime()
					st.cmp(when+" via GetTime()", c11HourPairs(l, tm))
					if (di+ti)%9 == 0 {
						nTimes++
						idx := 0
						if t.h > 0 {
							idx = (t.h + 1) / 2
						}
						st.cmp(when+" via GetTimes()[slot]", c11HourPairs(l, l.GetTimes()[idx]))
					}
					e := l.GetEightChar()
					// (c) deprecated aliases, (d) default schools
					ps := []c11Pair{
						{"deprecated:GetGan~GetYearGan", "", l.GetGan(), l.GetYearGan()},
						{"deprecated:GetZhi~GetYearZhi", "", l.GetZhi(), l.GetYearZhi()},
						{"deprecated:GetShengxiao~GetYearShengXiao", "", l.GetShengxiao(), l.GetYearShengXiao()},
						{"deprecated:GetPositionXi~GetDayPositionXi", "", l.GetPositionXi(), l.GetDayPositionXi()},
						{"deprecated:GetPositionXiDesc~GetDayPositionXiDesc", "", l.GetPositionXiDesc(), l.GetDayPositionXiDesc()},
						{"deprecated:GetPositionYangGui~GetDayPositionYangGui", "", l.GetPositionYangGui(), l.GetDayPositionYangGui()},
						{"deprecated:GetPositionYangGuiDesc~GetDayPositionYangGuiDesc", "", l.GetPositionYangGuiDesc(), l.GetDayPositionYangGuiDesc()},
						{"deprecated:GetPositionYinGui~GetDayPositionYinGui", "", l.GetPositionYinGui(), l.GetDayPositionYinGui()},
						{"deprecated:GetPositionYinGuiDesc~GetDayPositionYinGuiDesc", "", l.GetPositionYinGuiDesc(), l.GetDayPositionYinGuiDesc()},
						{"deprecated:GetPositionFu~GetDayPositionFu", "", l.GetPositionFu(), l.GetDayPositionFu()},
						{"deprecated:GetPositionFuDesc~GetDayPositionFuDesc", "", l.GetPositionFuDesc(), l.GetDayPositionFuDesc()},
						{"deprecated:GetPositionCai~GetDayPositionCai", "", l.GetPositionCai(), l.GetDayPositionCai()},
						{"deprecated:GetPositionCaiDesc~GetDayPositionCaiDesc", "", l.GetPositionCaiDesc(), l.GetDayPositionCaiDesc()},
						{"deprecated:GetChong~GetDayChong", "", l.GetChong(), l.GetDayChong()},
						{"deprecated:GetChongGan~GetDayChongGan", "", l.GetChongGan(), l.GetDayChongGan()},
						{"deprecated:GetChongGanTie~GetDayChongGanTie", "", l.GetChongGanTie(), l.GetDayChongGanTie()},
						{"deprecated:GetChongShengXiao~GetDayChongShengXiao", "", l.GetChongShengXiao(), l.GetDayChongShengXiao()},
						{"deprecated:GetChongDesc~GetDayChongDesc", "", l.GetChongDesc(), l.GetDayChongDesc()},
						{"deprecated:GetSha~GetDaySha", "", l.GetSha(), l.GetDaySha()},
						{"deprecated:Solar.GetXingzuo~GetXingZuo", "", s.GetXingzuo(), s.GetXingZuo()},
						{"default-school:GetDayPositionFu~BySect(2)", "dayStem=" + l.GetDayGan(), l.GetDayPositionFu(), l.GetDayPositionFuBySect(2)},
						{"default-school:GetDayPositionFuDesc~BySect(2)", "dayStem=" + l.GetDayGan(), l.GetDayPositionFuDesc(), l.GetDayPositionFuDescBySect(2)},
						{"default-school:LunarTime.GetPositionFu~BySect(2)", "hourStem=" + tm.GetGan(), tm.GetPositionFu(), tm.GetPositionFuBySect(2)},
						{"default-school:LunarTime.GetPositionFuDesc~BySect(2)", "hourStem=" + tm.GetGan(), tm.GetPositionFuDesc(), tm.GetPositionFuDescBySect(2)},
						{"default-school:GetYearPositionTaiSui~BySect(2)", "", l.GetYearPositionTaiSui(), l.GetYearPositionTaiSuiBySect(2)},
						{"default-school:GetYearPositionTaiSuiDesc~BySect(2)", "", l.GetYearPositionTaiSuiDesc(), l.GetYearPositionTaiSuiDescBySect(2)},
						{"default-school:GetMonthPositionTaiSui~BySect(2)", "", l.GetMonthPositionTaiSui(), l.GetMonthPositionTaiSuiBySect(2)},
						{"default-school:GetMonthPositionTaiSuiDesc~BySect(2)", "", l.GetMonthPositionTaiSuiDesc(), l.GetMonthPositionTaiSuiDescBySect(2)},
						{"default-school:GetDayPositionTaiSui~BySect(2)", "", l.GetDayPositionTaiSui(), l.GetDayPositionTaiSuiBySect(2)},
						{"default-school:GetDayPositionTaiSuiDesc~BySect(2)", "", l.GetDayPositionTaiSuiDesc(), l.GetDayPositionTaiSuiDescBySect(2)},
						{"default-school:GetYearNineStar~BySect(2)", "", c11Star(l.GetYearNineStar()), c11Star(l.GetYearNineStarBySect(2))},
						{"default-school:GetMonthNineStar~BySect(2)", "", c11Star(l.GetMonthNineStar()), c11Star(l.GetMonthNineStarBySect(2))},
						{"default-school:GetDayYi~BySect(1)", "", dqJoin(l.GetDayYi()), dqJoin(l.GetDayYiBySect(1))},
						{"default-school:GetDayJi~BySect(1)", "", dqJoin(l.GetDayJi()), dqJoin(l.GetDayJiBySect(1))},
						{"default-school:GetNextJie~ByWholeDay(false)", "", c11JQ(l.GetNextJie()), c11JQ(l.GetNextJieByWholeDay(false))},
						{"default-school:GetPrevJie~ByWholeDay(false)", "", c11JQ(l.GetPrevJie()), c11JQ(l.GetPrevJieByWholeDay(false))},
						{"default-school:GetNextQi~ByWholeDay(false)", "", c11JQ(l.GetNextQi()), c11JQ(l.GetNextQiByWholeDay(false))},
						{"default-school:GetPrevQi~ByWholeDay(false)", "", c11JQ(l.GetPrevQi()), c11JQ(l.GetPrevQiByWholeDay(false))},
						{"default-school:GetNextJieQi~ByWholeDay(false)", "", c11JQ(l.GetNextJieQi()), c11JQ(l.GetNextJieQiByWholeDay(false))},
						{"default-school:GetPrevJieQi~ByWholeDay(false)", "", c11JQ(l.GetPrevJieQi()), c11JQ(l.GetPrevJieQiByWholeDay(false))},
						{"same-fact:Lunar.GetWeek~Solar.GetWeek", "", fmt.Sprint(l.GetWeek()), fmt.Sprint(s.GetWeek())},
						{"same-fact:Lunar.GetWeekInChinese~Solar.GetWeekInChinese", "", l.GetWeekInChinese(), s.GetWeekInChinese()},
						{"same-fact:Solar.Next(n,false)~NextDay(n)", "", s.Next(di%41-20, false).ToYmdHms(), s.NextDay(di%41 - 20).ToYmdHms()},
						{"same-fact:LunarTime.String~ToString", "", tm.String(), tm.ToString()},
						{"default-school:EightChar.GetSect", "", fmt.Sprint(e.GetSect()), "2"},
					}
					dflt := c11Chart(e)
					e.SetSect(2)
					ps = append(ps, c11Pair{"default-school:EightChar~SetSect(2)", "", dflt, c11Chart(e)})
					st.cmp(when, ps)
					// deprecated eight-character arrays and (e) for both sects
					for _, sect := range []int{1, 2} {
						e.SetSect(sect)
						w2 := fmt.Sprintf("%s sect=%d", when, sect)
						st.cmp(w2, []c11Pair{
							{"deprecated:GetBaZi~EightChar", "", c11Arr(l.GetBaZi()), e.GetYear() + " " + e.GetMonth() + " " + e.GetDay() + " " + e.GetTime()},
							{"deprecated:GetBaZiWuXing~EightChar", "", c11Arr(l.GetBaZiWuXing()), e.GetYearWuXing() + " " + e.GetMonthWuXing() + " " + e.GetDayWuXing() + " " + e.GetTimeWuXing()},
							{"deprecated:GetBaZiNaYin~EightChar", "", c11Arr(l.GetBaZiNaYin()), e.GetYearNaYin() + " " + e.GetMonthNaYin() + " " + e.GetDayNaYin() + " " + e.GetTimeNaYin()},
							{"deprecated:GetBaZiShiShenGan~EightChar", "", c11Arr(l.GetBaZiShiShenGan()), e.GetYearShiShenGan() + " " + e.GetMonthShiShenGan() + " " + e.GetDayShiShenGan() + " " + e.GetTimeShiShenGan()},
							{"deprecated:GetBaZiShiShenZhi~EightChar", "", c11Arr(l.GetBaZiShiShenZhi()), fmt.Sprint(e.GetYearShiShenZhi().Front().Value, " ", e.GetMonthShiShenZhi().Front().Value, " ", e.GetDayShiShenZhi().Front().Value, " ", e.GetTimeShiShenZhi().Front().Value)},
							{"deprecated:GetBaZiShiShenYearZhi~EightChar", "", dqJoin(l.GetBaZiShiShenYearZhi()), dqJoin(e.GetYearShiShenZhi())},
							{"deprecated:GetBaZiShiShenMonthZhi~EightChar", "", dqJoin(l.GetBaZiShiShenMonthZhi()), dqJoin(e.GetMonthShiShenZhi())},
							{"deprecated:GetBaZiShiShenDayZhi~EightChar", "", dqJoin(l.GetBaZiShiShenDayZhi()), dqJoin(e.GetDayShiShenZhi())},
							{"deprecated:GetBaZiShiShenTimeZhi~EightChar", "", dqJoin(l.GetBaZiShiShenTimeZhi()), dqJoin(e.GetTimeShiShenZhi())},
							{"same-fact:EightChar.GetDay~Lunar", "", e.GetDay(), map[int]string{1: l.GetDayInGanZhiExact(), 2: l.GetDayInGanZhiExact2()}[sect]},
							{"same-fact:EightChar.GetYear~Lunar", "", e.GetYear(), l.GetYearInGanZhiExact()},
							{"same-fact:EightChar.GetMonth~Lunar", "", e.GetMonth(), l.GetMonthInGanZhiExact()},
							{"same-fact:EightChar.GetTime~Lunar", "", e.GetTime(), l.GetTimeInGanZhi()},
						})
						st.chart(e, sect, when)
					}
					e.SetSect(2)
					// fortune: default school 1; default list lengths
					if (di+ti)%7 == 0 {
						for _, g := range []int{0, 1} {
							y1, y2 := e.GetYun(g), e.GetYunBySect(g, 1)
							dys := y1.GetDaYun()
							st.cmp(fmt.Sprintf("%s gender=%d", when, g), []c11Pair{
								{"default-school:GetYun(g)~GetYunBySect(g,1)", "", c11YunStr(y1), c11YunStr(y2)},
								{"default-school:GetDaYun~GetDaYunBy(10)", "", c11DaYunStr(dys), c11DaYunStr(y1.GetDaYunBy(10))},
								{"default-school:GetLiuNian~GetLiuNianBy(10)", "", fmt.Sprint(len(dys[2].GetLiuNian()), dys[2].GetLiuNian()[9].GetGanZhi()), fmt.Sprint(len(dys[2].GetLiuNianBy(10)), dys[2].GetLiuNianBy(10)[9].GetGanZhi())},
								{"default-school:GetXiaoYun~GetXiaoYunBy(10)", "", fmt.Sprint(len(dys[2].GetXiaoYun()), dys[2].GetXiaoYun()[9].GetGanZhi()), fmt.Sprint(len(dys[2].GetXiaoYunBy(10)), dys[2].GetXiaoYunBy(10)[9].GetGanZhi())},
							})
						}
					}
					// reverse lookup: default sect 2, default base year 1900; charts 60 years apart share their attributes
					if y >= 1900 && y <= nowYear && (di+ti)%10 == 0 {
						for _, sect := range []int{1, 2} {
							e.SetSect(sect)
							a, b, c, dd := e.GetYear(), e.GetMonth(), e.GetDay(), e.GetTime()
							bySect := calendar.ListSolarFromBaZiBySect(a, b, c, dd, sect)
							nBaZi++
							ps := []c11Pair{{"default-school:ListSolarFromBaZiBySect~AndBaseYear(1900)", "", c11Solars(bySect), c11Solars(calendar.ListSolarFromBaZiBySectAndBaseYear(a, b, c, dd, sect, 1900))}}
							if sect == 2 {
								ps = append(ps, c11Pair{"default-school:ListSolarFromBaZi~BySect(2)", "", c11Solars(calendar.ListSolarFromBaZi(a, b, c, dd)), c11Solars(bySect)})
							}
							st.cmp(fmt.Sprintf("%s sect=%d", when, sect), ps)
							for x := bySect.Front(); x != nil; x = x.Next() {
								o := x.Value.(*calendar.Solar)
								oe := o.GetLunar().GetEightChar()
								oe.SetSect(sect)
								if oe.GetYear() == a && oe.GetMonth() == b && oe.GetDay() == c && oe.GetTime() == dd {
									nSameChart++
									st.chart(oe, sect, o.ToYmdHms())
								}
							}
						}
						e.SetSect(2)
					}
					return true, "", ""
				})
				if len(samples) < 3 && rng.Intn(1500) == 0 {
					samples = append(samples, when+" all pairs compared")
				}
			}
			// (b) once per day: the lunar-year object against the New-Year-based year accessors
			ck.chk("lunar-year", day, func() (bool, string, string) {
				l := l0
				ly := calendar.NewLunarYear(l.GetYear())
				lm := ly.GetMonth(l.GetMonth())
				ps := []c11Pair{
					{"lunar-year:GetGanZhi~GetYearInGanZhi", "", ly.GetGanZhi(), l.GetYearInGanZhi()},
					{"lunar-year:GetGan~GetYearGan", "", ly.GetGan(), l.GetYearGan()},
					{"lunar-year:GetZhi~GetYearZhi", "", ly.GetZhi(), l.GetYearZhi()},
					{"lunar-year:GetGanIndex~GetYearGanIndex", "", fmt.Sprint(ly.GetGanIndex()), fmt.Sprint(l.GetYearGanIndex())},
					{"lunar-year:GetZhiIndex~GetYearZhiIndex", "", fmt.Sprint(ly.GetZhiIndex()), fmt.Sprint(l.GetYearZhiIndex())},
					{"lunar-year:GetNineStar~GetYearNineStarBySect(1)", "", c11Star(ly.GetNineStar()), c11Star(l.GetYearNineStarBySect(1))},
					{"lunar-year:GetPositionTaiSui~GetYearPositionTaiSuiBySect(1)", "", ly.GetPositionTaiSui(), l.GetYearPositionTaiSuiBySect(1)},
					{"lunar-year:GetPositionTaiSuiDesc~GetYearPositionTaiSuiDescBySect(1)", "", ly.GetPositionTaiSuiDesc(), l.GetYearPositionTaiSuiDescBySect(1)},
					{"lunar-year:GetYear~Lunar.GetYear", "", fmt.Sprint(ly.GetYear()), fmt.Sprint(l.GetYear())},
					{"default-school:LunarYear.GetPositionFu~BySect(2)", "yearStem=" + ly.GetGan(), ly.GetPositionFu(), ly.GetPositionFuBySect(2)},
					{"default-school:LunarYear.GetPositionFuDesc~BySect(2)", "yearStem=" + ly.GetGan(), ly.GetPositionFuDesc(), ly.GetPositionFuDescBySect(2)},
				}
				if lm != nil {
					ps = append(ps,
						c11Pair{"default-school:LunarMonth.GetPositionFu~BySect(2)", "monthStem=" + lm.GetGan(), lm.GetPositionFu(), lm.GetPositionFuBySect(2)},
						c11Pair{"default-school:LunarMonth.GetPositionFuDesc~BySect(2)", "monthStem=" + lm.GetGan(), lm.GetPositionFuDesc(), lm.GetPositionFuDescBySect(2)},
						c11Pair{"lunar-year:GetMonth(m)~Lunar.GetMonth", "", fmt.Sprintf("%d-%d", lm.GetYear(), lm.GetMonth()), fmt.Sprintf("%d-%d", l.GetYear(), l.GetMonth())},
						c11Pair{"same-fact:Tao/Foto.GetMonth~Lunar.GetMonth", "", fmt.Sprint(l.GetTao().GetMonth(), l.GetFoto().GetMonth(), l.GetTao().GetDay(), l.GetFoto().GetDay()), fmt.Sprint(l.GetMonth(), l.GetMonth(), l.GetDay(), l.GetDay())})
				} else {
					ps = append(ps, c11Pair{"lunar-year:GetMonth(m)~Lunar.GetMonth", "", "nil", fmt.Sprintf("%d-%d", l.GetYear(), l.GetMonth())})
				}
				st.cmp(day, ps)
				return true, "", ""
			})
		}
	}
	keys := 0
	for _, mm := range st.fn.m {
		keys += len(mm)
	}
	ck.finish(map[string]int{"moments": nMoments, "pairs_compared": st.nPairs, "gettimes_checks": nTimes, "bazi_lookups": nBaZi, "charts_from_lookup": nSameChart,
		"distinct_charts": len(st.charts), "attribute_keys": keys}, samples)
}
