package main

// search-C10: eight-character reverse lookup. For moments from Xiaohan of the base year to the end of the current year:
// (a) soundness - every returned moment has exactly the queried pillars under the requested sect, year >= base;
// (b) order - strictly increasing; (c) completeness - a returned moment lies in the original's two-hour slot
// (rat slot 23:00-00:59 across midnight for sect 1; for sect 2 the 23:00 hour is a slot of its own day).

import (
	"fmt"
	"strings"
	"time"

	"github.com/6tail/lunar-go/calendar"
)

var c10JieClassReported bool

func init() {
	modes["search-C10"] = searchC10
}

type c10Jie struct {
	name string
	at   *calendar.Solar
}

// the twelve Jie whose instant lies in civil year y (小寒 .. 大雪), from the library's term table
func c10Jies(y int) []c10Jie {
	l := sol(y, 6, 1, 0, 0, 0).GetLunar()
	tab := l.GetJieQiTable()
	var r []c10Jie
	for i := 2; i <= 24; i += 2 {
		name := calendar.JIE_QI_IN_USE[i]
		if s := tab[name]; s != nil && s.GetYear() == y {
			r = append(r, c10Jie{name, s})
		}
	}
	return r
}

func c10Abs(s *calendar.Solar) int64 {
	return int64(dqJdn(s.GetYear(), s.GetMonth(), s.GetDay()))*86400 + int64(s.GetHour()*3600+s.GetMinute()*60+s.GetSecond())
}

// slot identity of a moment under the sect's day-boundary convention
func c10SlotKey(s *calendar.Solar, sect int) string {
	if sect == 1 {
		return fmt.Sprint((c10Abs(s) + 3600) / 7200)
	}
	k := (s.GetHour() + 1) / 2
	if s.GetHour() == 23 {
		k = 12
	}
	return fmt.Sprintf("%d/%d", dqJdn(s.GetYear(), s.GetMonth(), s.GetDay()), k)
}

// moment at (day of j) + off seconds from the start of that day; off may leave the day by less than one day
func c10Shift(j *calendar.Solar, off int) *calendar.Solar {
	day := sol(j.GetYear(), j.GetMonth(), j.GetDay(), 0, 0, 0)
	for off < 0 {
		day = day.NextDay(-1)
		off += 86400
	}
	for off >= 86400 {
		day = day.NextDay(1)
		off -= 86400
	}
	return sol(day.GetYear(), day.GetMonth(), day.GetDay(), off/3600, off/60%60, off%60)
}

func searchC10() {
	defer dqProf()()
	ck := dqNew("C10", 20)
	endYear := time.Now().Local().Year()
	nLookups, nReturned, nEmpty, nJieInSlot, nIncompleteOther, nOutOfDomain := 0, 0, 0, 0, 0, 0
	var samples []string
	jieKeys := map[string]bool{}
	nBeforeLichun := 0
	xiaohan := map[int]*calendar.Solar{}
	firstJie := func(base int) *calendar.Solar {
		if s, ok := xiaohan[base]; ok {
			return s
		}
		var r *calendar.Solar
		if js := c10Jies(base); len(js) > 0 {
			r = js[0].at
		}
		xiaohan[base] = r
		return r
	}

	one := func(s *calendar.Solar, sect, base int) {
		in := fmt.Sprintf("%s sect=%d base=%d", s.ToYmdHms(), sect, base)
		nLookups++
		var yg, mg, dg, tg string
		var l *calendar.Lunar
		var res []*calendar.Solar
		okRun := false
		ck.chk("lookup", in, func() (bool, string, string) {
			l = s.GetLunar()
			e := l.GetEightChar()
			e.SetSect(sect)
			yg, mg, dg, tg = e.GetYear(), e.GetMonth(), e.GetDay(), e.GetTime()
			e.SetSect(2)
			lst := calendar.ListSolarFromBaZiBySectAndBaseYear(yg, mg, dg, tg, sect, base)
			for x := lst.Front(); x != nil; x = x.Next() {
				res = append(res, x.Value.(*calendar.Solar))
			}
			okRun = true
			return true, "", ""
		})
		if !okRun {
			return
		}
		q := strings.Join([]string{yg, mg, dg, tg}, " ")
		nReturned += len(res)
		if len(res) == 0 {
			nEmpty++
		}
		// (a) soundness
		for _, r := range res {
			r := r
			ck.chk("bazi-unsound", in+" -> "+r.ToYmdHms(), func() (bool, string, string) {
				re := r.GetLunar().GetEightChar()
				re.SetSect(sect)
				got := strings.Join([]string{re.GetYear(), re.GetMonth(), re.GetDay(), re.GetTime()}, " ")
				if r.GetYear() < base {
					return false, fmt.Sprintf("year %d", r.GetYear()), fmt.Sprintf(">= %d", base)
				}
				return got == q, got, q
			})
		}
		// (b) strictly increasing
		ck.chk("bazi-order", in, func() (bool, string, string) {
			for i := 1; i < len(res); i++ {
				if c10Abs(res[i-1]) >= c10Abs(res[i]) {
					return false, res[i-1].ToYmdHms() + " then " + res[i].ToYmdHms(), "strictly increasing"
				}
			}
			return true, "", ""
		})
		// (c) completeness inside the domain
		fj := firstJie(base)
		if fj == nil || c10Abs(s) < c10Abs(fj) || s.GetYear() > endYear {
			nOutOfDomain++
			return
		}
		ck.count++
		key := c10SlotKey(s, sect)
		for _, r := range res {
			if c10SlotKey(r, sect) == key {
				return
			}
		}
		var lst []string
		for _, r := range res {
			lst = append(lst, r.ToYmdHms())
		}
		obs := fmt.Sprintf("[%s] for %s (queried as %s sect=%d base=%d)", strings.Join(lst, ","), q, s.ToYmdHms(), sect, base)
		// shape: a Jie instant inside the moment's slot, after the moment
		if nj := l.GetNextJie(); nj != nil && c10SlotKey(nj.GetSolar(), sect) == key && c10Abs(nj.GetSolar()) > c10Abs(s) {
			nJieInSlot++
			// KNOWN defect class, keyed by call site: the lookup verifies its candidate at the slot's even hour :00:00
			// (or the Jie's own minute/second only when the candidate DAY is the Jie day and the hour equals the Jie hour),
			// which for these moments lies on the other side of the Jie instant. One aggregated report per shard;
			// the number of distinct (year, Jie, sect) cases is in STAT incomplete_jie_in_slot_distinct.
			kin := fmt.Sprintf("%d %s sect=%d base=%d", nj.GetSolar().GetYear(), nj.GetName(), sect, base)
			jieKeys[kin] = true
			if !c10JieClassReported {
				c10JieClassReported = true
				ck.report("bazi-incomplete-jie-in-slot", "ListSolarFromBaZiBySectAndBaseYear:jie-instant-inside-slot-after-moment", "e.g. "+obs+"; "+nj.GetName()+" at "+nj.GetSolar().ToYmdHms(), "a moment in the same two-hour slot")
			}
			return
		}
		// shape: the moment lies between Xiaohan and Lichun of the base year (its year pillar is that of base-1)
		if lc := l.GetJieQiTable()["立春"]; s.GetYear() == base && lc != nil && lc.GetYear() == base && c10Abs(s) < c10Abs(lc) {
			nBeforeLichun++
			ck.report("bazi-incomplete-before-lichun-of-base-year", fmt.Sprintf("base=%d sect=%d", base, sect), obs, "a moment in the same two-hour slot")
			return
		}
		nIncompleteOther++
		ck.report("bazi-incomplete", in, obs, "a moment in the same two-hour slot")
	}
	both := func(s *calendar.Solar, base int) {
		one(s, 1, base)
		one(s, 2, base)
	}

	// directed: every Jie instant of the years 1900..now (default base), its slot, the rat hour, Lichun day
	jieMoments := func(j c10Jie) []*calendar.Solar {
		sec := j.at.GetHour()*3600 + j.at.GetMinute()*60 + j.at.GetSecond()
		slotStart := (sec+3600)/7200*7200 - 3600
		ms := []*calendar.Solar{
			j.at, c10Shift(j.at, sec-1), c10Shift(j.at, sec+1),
			c10Shift(j.at, slotStart), c10Shift(j.at, slotStart+7199),
			c10Shift(j.at, slotStart+3600), c10Shift(j.at, slotStart+3599),
			c10Shift(j.at, 23*3600+1800), c10Shift(j.at, 1800),
		}
		if j.name == "立春" {
			ms = append(ms, c10Shift(j.at, 0), c10Shift(j.at, 12*3600), c10Shift(j.at, 86399), c10Shift(j.at, -1800), c10Shift(j.at, 86400+1800))
		}
		return ms
	}
	for y := 1900; y <= endYear; y++ {
		if y%shardN != shardI {
			continue
		}
		var js []c10Jie
		ck.chk("term-table", fmt.Sprint(y), func() (bool, string, string) {
			js = c10Jies(y)
			return len(js) == 12, fmt.Sprint(len(js), " Jie in the year"), "12"
		})
		for _, j := range js {
			for _, s := range jieMoments(j) {
				both(s, 1900)
			}
		}
		if len(samples) < 2 && len(js) > 3 {
			samples = append(samples, fmt.Sprintf("%s %s and its two-hour slot, both sects", js[3].name, js[3].at.ToYmdHms()))
		}
	}
	// other base years: the Jie slots at the start of the range and seeded random moments
	type bcfg struct{ base, nJieYears, nRandom int }
	cfgs := []bcfg{{1900, 0, 260}, {1984, 2, 60}, {1600, 1, 30}, {1, 1, 10}}
	if tier == "thorough" {
		cfgs = []bcfg{{1900, 0, 6000}, {1984, 3, 1500}, {1600, 2, 600}, {1, 2, 250}}
	}
	item := 0
	for _, c := range cfgs {
		for y := c.base; y < c.base+c.nJieYears; y++ {
			var js []c10Jie
			ck.chk("term-table", fmt.Sprint(y), func() (bool, string, string) {
				js = c10Jies(y)
				return len(js) == 12, fmt.Sprint(len(js), " Jie in the year"), "12"
			})
			for _, j := range js {
				item++
				if item%shardN != shardI {
					continue
				}
				for k, s := range jieMoments(j) {
					if c.base < 1000 && k > 4 {
						break
					}
					both(s, c.base)
				}
			}
		}
		// the first and the last moments of the domain
		item++
		if item%shardN == shardI {
			if fj := firstJie(c.base); fj != nil {
				both(fj, c.base)
				both(c10Shift(fj, fj.GetHour()*3600+fj.GetMinute()*60+fj.GetSecond()-1), c.base) // one second before: out of domain, soundness only
				both(c10Shift(fj, 86400+12*3600), c.base)
			}
			both(sol(endYear, 12, 31, 23, 59, 59), c.base)
			both(sol(endYear, 12, 31, 12, 0, 0), c.base)
		}
		for i := 0; i < c.nRandom; i++ {
			y := c.base + rng.Intn(endYear-c.base+1)
			days := daysOfYearList(y)
			dd := days[rng.Intn(len(days))]
			var t hms
			switch rng.Intn(4) {
			case 0:
				ts := dayTimes()
				t = ts[rng.Intn(len(ts))]
			default:
				t = randTime()
			}
			s := sol(dd.y, dd.m, dd.d, t.h, t.mi, t.s)
			one(s, 1+rng.Intn(2), c.base)
			if len(samples) < 3 && i == 7 {
				samples = append(samples, fmt.Sprintf("%s random moment, base %d", s.ToYmdHms(), c.base))
			}
		}
	}
	// years whose lunar New Year falls in the previous civil year (16 and 19): the candidate year's term table must be the civil
	// year's (repaired by fix ad2a43f); always probed with base year 1
	if shardI == 0 {
		for _, c := range [][6]int{{16, 6, 19, 4, 54, 22}, {16, 3, 25, 4, 0, 25}, {16, 8, 13, 10, 22, 10}, {19, 7, 5, 7, 26, 13}, {19, 6, 18, 13, 49, 44}, {19, 11, 2, 23, 30, 0}} {
			both(sol(c[0], c[1], c[2], c[3], c[4], c[5]), 1)
		}
	}
	ck.finish(map[string]int{"lookups": nLookups, "returned_moments": nReturned, "empty_results": nEmpty, "incomplete_jie_in_slot": nJieInSlot, "incomplete_jie_in_slot_distinct": len(jieKeys), "incomplete_before_lichun_of_base_year": nBeforeLichun,
		"incomplete_other": nIncompleteOther, "outside_completeness_domain": nOutOfDomain}, samples)
}
