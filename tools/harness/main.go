package main

import (
	"bufio"
	"flag"
	"fmt"
	"math/rand"
	"os"
	"strings"
)

// harness <mode> -tier quick|thorough -seed N -shard i/n
// modes: gen-<family> (observation lines for modeldrv), search-<Cxx> (direct property search
// on the implementation; prints "VIOL <json>" lines), astro-dump, facts ...
var modes = map[string]func(){}

// the mode this process runs (generators scale their thorough domain by it)
var curMode string

func main() {
	if len(os.Args) < 2 {
		fatal("usage: harness <mode> [flags]")
	}
	mode := os.Args[1]
	curMode = mode
	if mode == "astro-dump" {
		astroDump()
		return
	}
	fs := flag.NewFlagSet(mode, flag.ExitOnError)
	fs.StringVar(&tier, "tier", "quick", "quick|thorough")
	fs.Int64Var(&seed, "seed", 1, "PRNG seed")
	shard := fs.String("shard", "0/1", "i/n")
	fs.Parse(os.Args[2:])
	fmt.Sscanf(*shard, "%d/%d", &shardI, &shardN)
	if shardN < 1 {
		shardN = 1
	}
	rng = rand.New(rand.NewSource(seed*1000003 + int64(shardI)))
	out = bufio.NewWriterSize(os.Stdout, 1<<20)
	defer out.Flush()
	f, ok := modes[mode]
	if !ok {
		fatal("unknown mode " + mode)
	}
	f()
	if strings.HasPrefix(mode, "gen-") {
		flushStats()
	}
}
