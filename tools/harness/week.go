package main

import (
	"container/list"
	"fmt"
	"strings"

	"github.com/6tail/lunar-go/SolarUtil"
	"github.com/6tail/lunar-go/calendar"
)

func init() {
	modes["gen-week"] = genWeek
	modes["gen-fmt"] = genFmt
	modes["gen-box"] = genBox
}

func ymdStr(s *calendar.Solar) string { return fmt.Sprintf("%d-%d-%d", s.GetYear(), s.GetMonth(), s.GetDay()) }

func daysStr(l *list.List) string {
	if l.Len() == 0 {
		return "-"
	}
	var p []string
	for e := l.Front(); e != nil; e = e.Next() {
		p = append(p, ymdStr(e.Value.(*calendar.Solar)))
	}
	return strings.Join(p, ",")
}

func genWeek() {
	steps := []int{1, -1, 2, -2, 3, -3, 4, 5, -5, 9, -9, 26, -26, 53, -53, 0}
	for _, y := range sweepYears(25) {
		for m := 1; m <= 12; m++ {
			mm := m
			if shardI == 0 || true {
				emit("mon.days", fmt.Sprintf("%d %d", y, m), safe(func() string { return daysStr(calendar.NewSolarMonthFromYm(y, mm).GetDays()) }))
				for _, n := range []int{0, 1, -1, 5, -7, 13, -25, rng.Intn(4001) - 2000} {
					nn := n
					emit("units", fmt.Sprintf("%d %d %d", y, m, n), safe(func() string {
						se := calendar.NewSolarSeasonFromYm(y, mm)
						hy := calendar.NewSolarHalfYearFromYm(y, mm)
						sy := calendar.NewSolarYearFromYear(y)
						yms := func(l *list.List) string {
							var p []string
							for e := l.Front(); e != nil; e = e.Next() {
								x := e.Value.(*calendar.SolarMonth)
								p = append(p, fmt.Sprintf("%d-%d", x.GetYear(), x.GetMonth()))
							}
							return strings.Join(p, ",")
						}
						sn := se.Next(nn)
						hn := hy.Next(nn)
						return strings.Join([]string{fmt.Sprint(se.GetIndex()), yms(se.GetMonths()), fmt.Sprint(hy.GetIndex()), yms(hy.GetMonths()), yms(sy.GetMonths()),
							fmt.Sprintf("%d-%d", sn.GetYear(), sn.GetMonth()), fmt.Sprintf("%d-%d", hn.GetYear(), hn.GetMonth())}, "|")
					}))
				}
			}
			for start := 0; start < 7; start++ {
				st := start
				emit("wk.ofmonth", fmt.Sprintf("%d %d %d", y, m, start), safe(func() string {
					var p []string
					for e := calendar.NewSolarMonthFromYm(y, mm).GetWeeks(st).Front(); e != nil; e = e.Next() {
						w := e.Value.(*calendar.SolarWeek)
						p = append(p, fmt.Sprintf("%d-%d-%d", w.GetYear(), w.GetMonth(), w.GetDay()))
					}
					return fmt.Sprint(SolarUtil.GetWeeksOfMonth(y, mm, st)) + "|" + strings.Join(p, ",")
				}))
			}
		}
		for i, dd := range daysOfYearList(y) {
			if tier != "thorough" && i%2 != rng.Intn(2) {
				continue
			}
			start := rng.Intn(7)
			for _, st := range []int{start, (start + 1 + rng.Intn(6)) % 7} {
				w := calendar.NewSolarWeekFromYmd(dd.y, dd.m, dd.d, st)
				emit("wk", fmt.Sprintf("%d %d %d %d", dd.y, dd.m, dd.d, st), safe(func() string {
					fdm := "nil"
					if x := w.GetFirstDayInMonth(); x != nil {
						fdm = ymdStr(x)
					}
					return strings.Join([]string{fmt.Sprint(w.GetIndex()), fmt.Sprint(w.GetIndexInYear()), ymdStr(w.GetFirstDay()), daysStr(w.GetDays()), daysStr(w.GetDaysInMonth()), fdm}, "|")
				}))
				n := steps[rng.Intn(len(steps))]
				for _, sep := range []int{0, 1} {
					sp := sep
					emit("wk.next", fmt.Sprintf("%d %d %d %d %d %d", dd.y, dd.m, dd.d, st, n, sep), safe(func() string {
						r := w.Next(n, sp == 1)
						return fmt.Sprintf("%d-%d-%d", r.GetYear(), r.GetMonth(), r.GetDay())
					}))
				}
			}
		}
	}
}

func genFmt() {
	cmp := func(a, b string) string {
		switch {
		case a < b:
			return "-1"
		case a > b:
			return "1"
		}
		return "0"
	}
	ys := sweepYears(40)
	ys = append(ys, 9999)
	for _, y := range ys {
		var prev *calendar.Solar
		for i, dd := range daysOfYearList(y) {
			if tier != "thorough" && i%3 != 0 {
				continue
			}
			t := randTime()
			s := sol(dd.y, dd.m, dd.d, t.h, t.mi, t.s)
			emit("fmt", solarStr(s), s.ToYmd()+"|"+s.ToYmdHms())
			others := []*calendar.Solar{sol(dd.y, dd.m, dd.d, (t.h+1)%24, t.mi, t.s), sol(dd.y, dd.m, dd.d, t.h, t.mi, (t.s+1)%60)}
			if prev != nil {
				others = append(others, prev)
			}
			oy := 1 + rng.Intn(9999)
			od := daysOfYearList(oy)
			o := od[rng.Intn(len(od))]
			others = append(others, sol(o.y, o.m, o.d, rng.Intn(24), rng.Intn(60), rng.Intn(60)))
			for _, b := range others {
				emit("fmt.cmp", solarStr(s)+" "+solarStr(b), cmp(s.ToYmd(), b.ToYmd())+" "+cmp(s.ToYmdHms(), b.ToYmdHms()))
			}
			prev = s
		}
	}
}

// the box around the valid ranges (C07)
func genBox() {
	for _, y := range sweepYears(12) {
		for m := -1; m <= 14; m++ {
			for d := -1; d <= 33; d++ {
				mm, dd := m, d
				emit("newsolar", fmt.Sprintf("%d %d %d 12 30 30", y, m, d), safe(func() string { calendar.NewSolar(y, mm, dd, 12, 30, 30); return "ok" }))
			}
		}
		for _, h := range []int{-1, 0, 23, 24} {
			for _, mi := range []int{-1, 0, 59, 60} {
				for _, s := range []int{-1, 0, 59, 60} {
					hh, mmi, ss := h, mi, s
					emit("newsolar", fmt.Sprintf("%d 2 28 %d %d %d", y, h, mi, s), safe(func() string { calendar.NewSolar(y, 2, 28, hh, mmi, ss); return "ok" }))
				}
			}
		}
		if y >= 2 && y <= 9997 {
			for m := -12; m <= 13; m++ {
				for d := 0; d <= 31; d++ {
					mm, dd := m, d
					emit("l.fy", fmt.Sprintf("%d %d %d 0 0 0", y, m, d), safe(func() string { return lunarFields(calendar.NewLunar(y, mm, dd, 0, 0, 0)) }))
					if (d == 1 || d == 30 || d == 0 || d == 31) && m != 0 {
						emit("newtao", fmt.Sprintf("%d %d %d 0 0 0", y+2697, m, d), safe(func() string { return lunarFields(calendar.NewTao(y+2697, mm, dd, 0, 0, 0).GetLunar()) }))
						emit("newfoto", fmt.Sprintf("%d %d %d 0 0 0", y+544, m, d), safe(func() string { return lunarFields(calendar.NewFoto(y+544, mm, dd, 0, 0, 0).GetLunar()) }))
					}
				}
			}
			for _, t := range []hms{{-1, 0, 0}, {24, 0, 0}, {0, 60, 0}, {0, 0, 60}, {23, 59, 59}} {
				tt := t
				emit("l.fy", fmt.Sprintf("%d 1 1 %d %d %d", y, t.h, t.mi, t.s), safe(func() string { return lunarFields(calendar.NewLunar(y, 1, 1, tt.h, tt.mi, tt.s)) }))
			}
		}
	}
}
