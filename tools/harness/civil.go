package main

import (
	"encoding/json"
	"fmt"
	"math"

	"github.com/6tail/lunar-go/SolarUtil"
	"github.com/6tail/lunar-go/calendar"
)

func init() {
	modes["gen-civil"] = genCivil
	modes["gen-jd"] = genJD
	modes["search-C04"] = searchC04
}

func viol(prop string, kind string, input interface{}, observed string, expected string) {
	b, _ := json.Marshal(map[string]interface{}{"property": prop, "kind": kind, "input": input, "observed": observed, "expected": expected})
	fmt.Fprintf(out, "VIOL %s\n", b)
}

func sol(y, m, d, h, mi, s int) *calendar.Solar { return calendar.NewSolar(y, m, d, h, mi, s) }

func genCivil() {
	// unit tables for every year (shard 0 only)
	if shardI == 0 {
		for y := 1; y <= 9999; y++ {
			emit("leap", fmt.Sprint(y), b2s(SolarUtil.IsLeapYear(y)))
			emit("doy", fmt.Sprint(y), fmt.Sprint(SolarUtil.GetDaysOfYear(y)))
			for m := 1; m <= 12; m++ {
				emit("dim", fmt.Sprintf("%d %d", y, m), fmt.Sprint(SolarUtil.GetDaysOfMonth(y, m)))
			}
		}
		for _, n := range stepCounts(200) {
			for _, ym := range [][2]int{{1, 1}, {1582, 10}, {2020, 2}, {2021, 12}, {5000, 6}, {9998, 12}} {
				nn := n % 120000
				emit("nextym", fmt.Sprintf("%d %d %d", ym[0], ym[1], nn), safe(func() string {
					r := calendar.NewSolarMonthFromYm(ym[0], ym[1]).Next(nn)
					return fmt.Sprintf("%d %d", r.GetYear(), r.GetMonth())
				}))
			}
		}
	}
	steps := stepCounts(40)
	times := dayTimes()
	for _, y := range sweepYears(40) {
		for _, dd := range daysOfYearList(y) {
			y, m, d := dd.y, dd.m, dd.d
			a3 := fmt.Sprintf("%d %d %d", y, m, d)
			emit("jdn", a3, safe(func() string { return fmt.Sprint(int(SolarUtil.GetJulianDay(y, m, d, 0, 0, 0) + 0.5)) }))
			emit("week", a3, safe(func() string { return fmt.Sprint(SolarUtil.GetWeek(y, m, d)) }))
			emit("diy", a3, safe(func() string { return fmt.Sprint(SolarUtil.GetDaysInYear(y, m, d)) }))
			t := times[rng.Intn(len(times))]
			if rng.Intn(2) == 0 {
				t = randTime()
			}
			a6 := fmt.Sprintf("%s %d %d %d", a3, t.h, t.mi, t.s)
			s := sol(y, m, d, t.h, t.mi, t.s)
			jd := s.GetJulianDay()
			emit("tojd", a6, f64hex(jd))
			emit("fromjd", f64hex(jd), safe(func() string { return solarStr(calendar.NewSolarFromJulianDay(jd)) }))
			for _, n := range []int{1, -1, steps[rng.Intn(len(steps))]} {
				emit("nextday", fmt.Sprintf("%s %d", a6, n), safe(func() string { return solarStr(s.NextDay(n)) }))
			}
			nm := steps[rng.Intn(len(steps))] % 40000
			emit("nextmonth", fmt.Sprintf("%s %d", a6, nm), safe(func() string { return solarStr(s.NextMonth(nm)) }))
			ny := steps[rng.Intn(len(steps))] % 3000
			emit("nextyear", fmt.Sprintf("%s %d", a6, ny), safe(func() string { return solarStr(s.NextYear(ny)) }))
			nh := steps[rng.Intn(len(steps))]
			if rng.Intn(2) == 0 {
				nh = rng.Intn(97) - 48
			}
			emit("nexthour", fmt.Sprintf("%s %d", a6, nh), safe(func() string { return solarStr(s.NextHour(nh)) }))
			// difference to another date: near and far
			var o *calendar.Solar
			if rng.Intn(2) == 0 {
				o = safeSolar(func() *calendar.Solar { return s.NextDay(rng.Intn(801) - 400) })
			} else {
				oy := 1 + rng.Intn(9998)
				l := daysOfYearList(oy)
				od := l[rng.Intn(len(l))]
				ot := randTime()
				o = sol(od.y, od.m, od.d, ot.h, ot.mi, ot.s)
			}
			if o != nil {
				emit("sub", fmt.Sprintf("%s %d %d %d", a3, o.GetYear(), o.GetMonth(), o.GetDay()), safe(func() string { return fmt.Sprint(s.Subtract(o)) }))
				emit("submin", fmt.Sprintf("%s %d %d %d %d %d %d %d", a3, t.h, t.mi, o.GetYear(), o.GetMonth(), o.GetDay(), o.GetHour(), o.GetMinute()), safe(func() string { return fmt.Sprint(s.SubtractMinute(o)) }))
				emit("before", fmt.Sprintf("%s %s", a6, solarStr(o)), safe(func() string { return b2s(s.IsBefore(o)) }))
				emit("after", fmt.Sprintf("%s %s", a6, solarStr(o)), safe(func() string { return b2s(s.IsAfter(o)) }))
			}
			// same-day comparisons differing in one field
			o2 := sol(y, m, d, t.h, t.mi, (t.s+1)%60)
			emit("before", fmt.Sprintf("%s %s", a6, solarStr(o2)), b2s(s.IsBefore(o2)))
			emit("after", fmt.Sprintf("%s %s", a6, solarStr(o2)), b2s(s.IsAfter(o2)))
			// lexicographic family: the first k fields equal, field k differs, the rest independent (often in the opposite order)
			for _, pr := range lexPairs(y, m, d, t) {
				emit("before", solarStr(pr[0])+" "+solarStr(pr[1]), b2s(pr[0].IsBefore(pr[1])))
				emit("after", solarStr(pr[0])+" "+solarStr(pr[1]), b2s(pr[0].IsAfter(pr[1])))
			}
		}
	}
}

// lexPairs: for one pivot field k (chosen at random; all six in turn over a run) a pair of moments that agree on the fields
// before k, differ on k, and have independent later fields; both orders. Pairs that are not valid dates are skipped.
func lexPairs(y, m, d int, t hms) [][2]*calendar.Solar {
	a := [6]int{y, m, d, t.h, t.mi, t.s}
	b := a
	k := rng.Intn(6)
	lim := [6][2]int{{1, 9998}, {1, 12}, {1, 28}, {0, 23}, {0, 59}, {0, 59}}
	for i := k; i < 6; i++ {
		b[i] = lim[i][0] + rng.Intn(lim[i][1]-lim[i][0]+1)
	}
	if rng.Intn(2) == 0 { // later fields deliberately ordered against field k
		for i := k + 1; i < 6; i++ {
			ai := a[i]
			if ai > lim[i][1] {
				ai = lim[i][1]
			}
			if b[k] < a[k] {
				b[i] = ai + rng.Intn(lim[i][1]-ai+1)
			} else {
				b[i] = lim[i][0] + rng.Intn(ai-lim[i][0]+1)
			}
		}
	}
	if !validYmd(b[0], b[1], b[2]) || !validYmd(a[0], a[1], a[2]) {
		return nil
	}
	sa := sol(a[0], a[1], a[2], a[3], a[4], a[5])
	sb := sol(b[0], b[1], b[2], b[3], b[4], b[5])
	return [][2]*calendar.Solar{{sa, sb}, {sb, sa}}
}

func safeSolar(f func() *calendar.Solar) (r *calendar.Solar) {
	defer func() {
		if e := recover(); e != nil {
			r = nil
		}
	}()
	return f()
}

// sweep family J: real-valued Julian Days
func genJD() {
	lo := SolarUtil.GetJulianDay(1, 1, 1, 0, 0, 0)
	hi := SolarUtil.GetJulianDay(9998, 12, 31, 23, 59, 59)
	one := func(jd float64) {
		if jd < lo || jd > hi {
			return
		}
		emit("fromjd", f64hex(jd), safe(func() string { return solarStr(calendar.NewSolarFromJulianDay(jd)) }))
	}
	n := 20000
	if tier == "thorough" {
		n = 400000
	}
	for i := 0; i < n; i++ {
		one(lo + rng.Float64()*(hi-lo))
	}
	// integer and half-integer JDs
	step := 97
	if tier == "thorough" {
		step = 1
	}
	for d := int(lo) + shardI*step; d < int(hi); d += step * shardN {
		one(float64(d))
		one(float64(d) + 0.5)
		one(math.Nextafter(float64(d)+0.5, 0))
		one(math.Nextafter(float64(d)+0.5, 1e9))
	}
	// neighbourhood of second boundaries, and the last second before midnight on month ends
	years := sweepYears(20)
	for _, y := range years {
		for m := 1; m <= 12; m++ {
			last := SolarUtil.GetDaysOfMonth(y, m)
			if y == 1582 && m == 10 {
				last = 31
			}
			for _, d := range []int{1, last} {
				for _, t := range []hms{{23, 59, 59}, {0, 0, 0}, {23, 59, 58}, {11, 59, 59}, {12, 0, 0}, randTime()} {
					jd := SolarUtil.GetJulianDay(y, m, d, t.h, t.mi, t.s)
					x := jd
					for k := 0; k < 3; k++ {
						one(x)
						x = math.Nextafter(x, 1e9)
					}
					x = jd
					for k := 0; k < 3; k++ {
						x = math.Nextafter(x, 0)
						one(x)
					}
					one(jd + 0.4/86400)
					one(jd + 0.5/86400)
					one(jd + 0.6/86400)
					one(jd - 0.4/86400)
				}
			}
		}
	}
}

func eqSolar(a, b *calendar.Solar) bool {
	return a.GetYear() == b.GetYear() && a.GetMonth() == b.GetMonth() && a.GetDay() == b.GetDay() && a.GetHour() == b.GetHour() && a.GetMinute() == b.GetMinute() && a.GetSecond() == b.GetSecond()
}

// direct search for a violation of C04 on the implementation
func searchC04() {
	count := 0
	chk := func(kind string, input string, f func() (bool, string, string)) {
		count++
		defer func() {
			if r := recover(); r != nil {
				viol("C04", kind, input, fmt.Sprintf("panic: %v", r), "no panic")
			}
		}()
		if ok, obs, exp := f(); !ok {
			viol("C04", kind, input, obs, exp)
		}
	}
	steps := stepCounts(30)
	times := dayTimes()
	var prevJdn, prevWeek int
	havePrev := false
	for _, y := range sweepYears(40) {
		days := daysOfYearList(y)
		havePrev = false
		for _, dd := range days {
			y, m, d := dd.y, dd.m, dd.d
			t := times[rng.Intn(len(times))]
			if rng.Intn(3) == 0 {
				t = randTime()
			}
			s := sol(y, m, d, t.h, t.mi, t.s)
			in := solarStr(s)
			jd := s.GetJulianDay()
			chk("jd-roundtrip", in, func() (bool, string, string) {
				r := calendar.NewSolarFromJulianDay(jd)
				return eqSolar(r, s), solarStr(r), in
			})
			j0 := int(SolarUtil.GetJulianDay(y, m, d, 0, 0, 0) + 0.5)
			w0 := s.GetWeek()
			if havePrev {
				chk("consecutive-days", in, func() (bool, string, string) {
					return j0 == prevJdn+1 && w0 == (prevWeek+1)%7, fmt.Sprintf("jdn %d week %d", j0, w0), fmt.Sprintf("jdn %d week %d", prevJdn+1, (prevWeek+1)%7)
				})
			}
			prevJdn, prevWeek, havePrev = j0, w0, true
			n := steps[rng.Intn(len(steps))]
			n2 := steps[rng.Intn(len(steps))]
			chk("nextday-jd", fmt.Sprintf("%s n=%d", in, n), func() (bool, string, string) {
				r := s.NextDay(n)
				if r.GetYear() < 1 || r.GetYear() > 9999 {
					return true, "", ""
				}
				j1 := int(SolarUtil.GetJulianDay(r.GetYear(), r.GetMonth(), r.GetDay(), 0, 0, 0) + 0.5)
				if j1 != j0+n {
					return false, fmt.Sprintf("%s jdn %d", solarStr(r), j1), fmt.Sprintf("jdn %d", j0+n)
				}
				back := r.NextDay(-n)
				if !eqSolar(back, s) {
					return false, "back " + solarStr(back), in
				}
				if r.Subtract(s) != n {
					return false, fmt.Sprintf("Subtract %d", r.Subtract(s)), fmt.Sprint(n)
				}
				r2 := r.NextDay(n2)
				r3 := s.NextDay(n + n2)
				if r3.GetYear() >= 1 && r3.GetYear() <= 9999 && r2.GetYear() >= 1 && !eqSolar(r2, r3) {
					return false, "compose " + solarStr(r2), solarStr(r3)
				}
				// before/after agree with day count
				if n != 0 && (s.IsBefore(r) != (n > 0) || s.IsAfter(r) != (n < 0)) {
					return false, "isBefore/isAfter disagree with day count", ""
				}
				// minute difference
				if n > -3000000 && n < 3000000 {
					o := calendar.NewSolar(r.GetYear(), r.GetMonth(), r.GetDay(), (t.h+7)%24, (t.mi+13)%60, 0)
					exp := n*1440 + (o.GetHour()*60 + o.GetMinute()) - (t.h*60 + t.mi)
					if o.SubtractMinute(s) != exp {
						return false, fmt.Sprintf("SubtractMinute %d", o.SubtractMinute(s)), fmt.Sprint(exp)
					}
				}
				return true, "", ""
			})
			for _, pr := range lexPairs(y, m, d, t) {
				pa, pb := pr[0], pr[1]
				chk("order-lex", solarStr(pa)+" vs "+solarStr(pb), func() (bool, string, string) {
					fa := [6]int{pa.GetYear(), pa.GetMonth(), pa.GetDay(), pa.GetHour(), pa.GetMinute(), pa.GetSecond()}
					fb := [6]int{pb.GetYear(), pb.GetMonth(), pb.GetDay(), pb.GetHour(), pb.GetMinute(), pb.GetSecond()}
					c := 0
					for i := 0; i < 6 && c == 0; i++ {
						if fa[i] < fb[i] {
							c = -1
						} else if fa[i] > fb[i] {
							c = 1
						}
					}
					got := fmt.Sprintf("IsBefore=%v IsAfter=%v", pa.IsBefore(pb), pa.IsAfter(pb))
					exp := fmt.Sprintf("IsBefore=%v IsAfter=%v", c < 0, c > 0)
					return got == exp, got, exp
				})
			}
			nh := rng.Intn(200001) - 100000
			chk("nexthour", fmt.Sprintf("%s h=%d", in, nh), func() (bool, string, string) {
				r := s.NextHour(nh)
				tot := t.h + nh
				dn := int(math.Floor(float64(tot) / 24))
				hh := tot - dn*24
				e := s.NextDay(dn)
				ok := r.GetHour() == hh && r.GetYear() == e.GetYear() && r.GetMonth() == e.GetMonth() && r.GetDay() == e.GetDay() && r.GetMinute() == t.mi && r.GetSecond() == t.s
				return ok, solarStr(r), fmt.Sprintf("%d %d %d %d", e.GetYear(), e.GetMonth(), e.GetDay(), hh)
			})
			nm := rng.Intn(2401) - 1200
			chk("nextmonth", fmt.Sprintf("%s m=%d", in, nm), func() (bool, string, string) {
				r := s.NextMonth(nm)
				tm := (y*12 + (m - 1)) + nm
				ey, em := tm/12, tm%12+1
				if ey < 1 {
					return true, "", ""
				}
				ok := r.GetYear() == ey && r.GetMonth() == em && validYmd(r.GetYear(), r.GetMonth(), r.GetDay())
				return ok, solarStr(r), fmt.Sprintf("%d-%d", ey, em)
			})
			ny := rng.Intn(401) - 200
			chk("nextyear", fmt.Sprintf("%s y=%d", in, ny), func() (bool, string, string) {
				if y+ny < 1 {
					return true, "", ""
				}
				r := s.NextYear(ny)
				ok := r.GetYear() == y+ny && r.GetMonth() == m && validYmd(r.GetYear(), r.GetMonth(), r.GetDay())
				return ok, solarStr(r), fmt.Sprintf("%d-%d", y+ny, m)
			})
		}
	}
	// the 1582 gap
	chk("gap", "1582-10-04 +1", func() (bool, string, string) {
		r := sol(1582, 10, 4, 0, 0, 0).NextDay(1)
		return r.ToYmd() == "1582-10-15", r.ToYmd(), "1582-10-15"
	})
	for d := 5; d <= 14; d++ {
		dd := d
		count++
		func() {
			defer func() { recover() }()
			calendar.NewSolarFromYmd(1582, 10, dd)
			viol("C04", "gap-accepted", fmt.Sprintf("1582-10-%d", dd), "accepted", "panic")
		}()
	}
	// every instant given as a JD converts to a valid date-time (family J, sampled)
	lo := SolarUtil.GetJulianDay(1, 1, 1, 0, 0, 0)
	hi := SolarUtil.GetJulianDay(9998, 12, 31, 23, 59, 59)
	nj := 30000
	if tier == "thorough" {
		nj = 1000000
	}
	for i := 0; i < nj; i++ {
		jd := lo + rng.Float64()*(hi-lo)
		if i%3 == 0 { // just below a day boundary
			jd = math.Nextafter(math.Floor(jd)+0.5, 0)
			if i%2 == 0 {
				jd -= 0.3 / 86400
			}
		}
		chk("fromjd-total", f64hex(jd), func() (bool, string, string) {
			r := calendar.NewSolarFromJulianDay(jd)
			back := r.GetJulianDay()
			return math.Abs(back-jd) <= 0.5/86400+1e-8, fmt.Sprintf("%s (jd %v)", solarStr(r), back), fmt.Sprintf("within 0.5 s of %v", jd)
		})
	}
	fmt.Fprintf(out, "COUNT %d\n", count)
}
