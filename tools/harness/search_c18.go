package main

// search-C18: almanac attributes are pure functions of their defining inputs (maps from the inputs named in the
// statement to the observed value, kept across the whole sweep; any conflict is a violation) + the classical laws
// (28 mansions, duty god, clash branch, nayin pairs) against hard-coded classical expectations.

import (
	"fmt"
	"strings"

	"github.com/6tail/lunar-go/LunarUtil"
	"github.com/6tail/lunar-go/calendar"
)

func init() {
	modes["search-C18"] = searchC18
}

type c18Obs struct {
	val   string
	where string
}

type c18Maps struct {
	ck   *dqCk
	m    map[string]map[string]c18Obs
	nObs int
}

// put records attribute attr (observed through accessor acc) for the defining inputs key
func (f *c18Maps) put(attr, key, val, acc, when string) {
	f.ck.count++
	f.nObs++
	mm := f.m[attr]
	if mm == nil {
		mm = map[string]c18Obs{}
		f.m[attr] = mm
	}
	if o, ok := mm[key]; ok {
		if o.val != val {
			f.ck.report("not-a-function:"+attr, key, fmt.Sprintf("%q by %s at %s", val, acc, when), fmt.Sprintf("%q as %s", o.val, o.where))
		}
		return
	}
	mm[key] = c18Obs{val, acc + " at " + when}
}

// the classical order of the 28 mansions; 角 belongs to Thursday (木), then one weekday per mansion
var c18Xiu28 = []string{"角", "亢", "氐", "房", "心", "尾", "箕", "斗", "牛", "女", "虚", "危", "室", "壁", "奎", "娄", "胃", "昴", "毕", "觜", "参", "井", "鬼", "柳", "星", "张", "翼", "轸"}
var c18ZhiXing = []string{"建", "除", "满", "平", "定", "执", "破", "危", "成", "收", "开", "闭"}
var c18ShengXiao = []string{"鼠", "牛", "虎", "兔", "龙", "蛇", "马", "羊", "猴", "鸡", "狗", "猪"}

func c18Idx(xs []string, s string) int {
	for i, x := range xs {
		if x == s {
			return i
		}
	}
	return -1
}

func searchC18() {
	defer dqProf()()
	ck := dqNew("C18", 6)
	f := &c18Maps{ck: ck, m: map[string]map[string]c18Obs{}}
	nDays, nMoments, nConsecutive := 0, 0, 0
	var samples []string

	// table-level laws on the published tables
	ck.chk("law-nayin-pairs-table", "LunarUtil.NAYIN", func() (bool, string, string) {
		for k := 0; k < 30; k++ {
			a, b := LunarUtil.NAYIN[LunarUtil.JIA_ZI[2*k]], LunarUtil.NAYIN[LunarUtil.JIA_ZI[2*k+1]]
			if a == "" || a != b {
				return false, fmt.Sprintf("%s=%q %s=%q", LunarUtil.JIA_ZI[2*k], a, LunarUtil.JIA_ZI[2*k+1], b), "one nayin for the pair"
			}
		}
		return true, "", ""
	})
	ck.chk("law-chong-table", "LunarUtil.CHONG", func() (bool, string, string) {
		for i := 0; i < 12; i++ {
			if LunarUtil.CHONG[i] != dqZhi[(i+6)%12] || LunarUtil.ZHI[i+1] != dqZhi[i] {
				return false, fmt.Sprintf("CHONG[%d]=%s", i, LunarUtil.CHONG[i]), dqZhi[(i+6)%12]
			}
		}
		return true, "", ""
	})
	ck.chk("law-jiazi-table", "LunarUtil.JIA_ZI", func() (bool, string, string) {
		for i := 0; i < 60; i++ {
			if LunarUtil.JIA_ZI[i] != dqPillar(i) {
				return false, fmt.Sprintf("JIA_ZI[%d]=%s", i, LunarUtil.JIA_ZI[i]), dqPillar(i)
			}
		}
		return true, "", ""
	})

	nRandom := 300
	for _, y := range sweepYears(nRandom) {
		prevXiu, prevJdn := "", -1
		for _, dd := range daysOfYearList(y) {
			y, m, d := dd.y, dd.m, dd.d
			nDays++
			var l0 *calendar.Lunar
			day := fmt.Sprintf("%04d-%02d-%02d", y, m, d)
			ck.chk("construct", day, func() (bool, string, string) {
				l0 = sol(y, m, d, 0, 0, 0).GetLunar()
				return true, "", ""
			})
			if l0 == nil {
				prevXiu = ""
				continue
			}
			jdn := dqJdn(y, m, d)
			// ---- classical law: mansions advance one per day in the fixed order, in step with the weekday
			ck.chk("law-xiu-order", day, func() (bool, string, string) {
				x := l0.GetXiu()
				i := c18Idx(c18Xiu28, x)
				if i < 0 {
					return false, x, "one of the 28 mansions"
				}
				if (i+4)%7 != l0.GetWeek() {
					return false, fmt.Sprintf("%s on weekday %d", x, l0.GetWeek()), fmt.Sprintf("weekday %d", (i+4)%7)
				}
				if prevXiu != "" && jdn == prevJdn+1 {
					nConsecutive++
					if exp := c18Xiu28[(c18Idx(c18Xiu28, prevXiu)+1)%28]; exp != x {
						return false, fmt.Sprintf("%s after %s", x, prevXiu), exp
					}
				}
				prevXiu, prevJdn = x, jdn
				return true, "", ""
			})
			ts := timesFor(l0, y, m, d, 1)
			for _, t := range ts {
				t := t
				when := dqYmdHms(y, m, d, t)
				nMoments++
				ck.chk("accessors", when, func() (bool, string, string) {
					c18Moment(f, sol(y, m, d, t.h, t.mi, t.s).GetLunar(), when)
					return true, "", ""
				})
				if len(samples) < 3 && rng.Intn(3000) == 0 {
					samples = append(samples, when+" all attribute maps fed")
				}
			}
		}
	}
	// nayin pairs through the API: every observed pillar pair 2k, 2k+1 carries the same nayin
	if mm := f.m["nayin"]; mm != nil {
		for k := 0; k < 30; k++ {
			a, okA := mm[dqPillar(2*k)]
			b, okB := mm[dqPillar(2*k+1)]
			if okA && okB {
				k := k
				ck.chk("law-nayin-pairs", dqPillar(2*k)+"/"+dqPillar(2*k+1), func() (bool, string, string) {
					ra, rb := []rune(a.val), []rune(b.val)
					return a.val == b.val && len(ra) > 0 && ra[len(ra)-1] == rb[len(rb)-1], a.val + " vs " + b.val, "same nayin (same element)"
				})
			}
		}
	}
	keys := 0
	for _, mm := range f.m {
		keys += len(mm)
	}
	// call history: no attribute of a lunar date (or of its Taoist / Buddhist view) moves when the day-boundary school of the date's
	// shared eight-character object is switched — the attributes are functions of the pillars named in the statement, not of that setting
	nProbe := 400
	if tier == "thorough" {
		nProbe = 6000
	}
	histProbes, histAccessors := histSectSweep(ck, nProbe)
	ck.finish(map[string]int{"eightchar_school_probes": histProbes, "eightchar_school_accessor_comparisons": histAccessors, "days": nDays, "moments": nMoments, "consecutive_day_pairs": nConsecutive, "attributes": len(f.m), "distinct_keys": keys, "observations": f.nObs}, samples)
}

// c18Moment feeds every attribute of one moment into the function maps and checks the per-moment classical laws
func c18Moment(f *c18Maps, l *calendar.Lunar, when string) {
	ck := f.ck
	dayGan, dayZhi, dayGZ := l.GetDayGan(), l.GetDayZhi(), l.GetDayInGanZhi()
	timeGan, timeZhi, timeGZ := l.GetTimeGan(), l.GetTimeZhi(), l.GetTimeInGanZhi()
	monthZhi := l.GetMonthZhi()
	dayGZExact, dayZhiExact := l.GetDayInGanZhiExact(), l.GetDayZhiExact()
	lm := l.GetMonth()
	t := l.GetTime()

	// --- by the day stem
	for _, a := range []struct{ n, v string }{
		{"PositionXi", l.GetDayPositionXi()}, {"PositionXiDesc", l.GetDayPositionXiDesc()},
		{"PositionYangGui", l.GetDayPositionYangGui()}, {"PositionYangGuiDesc", l.GetDayPositionYangGuiDesc()},
		{"PositionYinGui", l.GetDayPositionYinGui()}, {"PositionYinGuiDesc", l.GetDayPositionYinGuiDesc()},
		{"PositionFu", l.GetDayPositionFu()}, {"PositionFuDesc", l.GetDayPositionFuDesc()},
		{"PositionFuBySect1", l.GetDayPositionFuBySect(1)}, {"PositionFuDescBySect1", l.GetDayPositionFuDescBySect(1)},
		{"PositionFuBySect2", l.GetDayPositionFuBySect(2)}, {"PositionFuDescBySect2", l.GetDayPositionFuDescBySect(2)},
		{"PositionCai", l.GetDayPositionCai()}, {"PositionCaiDesc", l.GetDayPositionCaiDesc()},
		{"PengZuGan", l.GetPengZuGan()}, {"ChongGan", l.GetDayChongGan()}, {"ChongGanTie", l.GetDayChongGanTie()},
	} {
		f.put("day."+a.n, "dayStem="+dayGan, a.v, "Lunar.GetDay"+a.n, when)
	}
	// --- by the hour stem (lunar date's hour accessors and the hour object, separately)
	for _, a := range []struct{ n, v string }{
		{"PositionXi", l.GetTimePositionXi()}, {"PositionXiDesc", l.GetTimePositionXiDesc()},
		{"PositionYangGui", l.GetTimePositionYangGui()}, {"PositionYangGuiDesc", l.GetTimePositionYangGuiDesc()},
		{"PositionYinGui", l.GetTimePositionYinGui()}, {"PositionYinGuiDesc", l.GetTimePositionYinGuiDesc()},
		{"PositionFu", l.GetTimePositionFu()}, {"PositionFuDesc", l.GetTimePositionFuDesc()},
		{"PositionCai", l.GetTimePositionCai()}, {"PositionCaiDesc", l.GetTimePositionCaiDesc()},
		{"ChongGan", l.GetTimeChongGan()}, {"ChongGanTie", l.GetTimeChongGanTie()},
	} {
		f.put("time."+a.n, "hourStem="+timeGan, a.v, "Lunar.GetTime"+a.n, when)
	}
	tGan, tZhi, tGZ := t.GetGan(), t.GetZhi(), t.GetGanZhi()
	for _, a := range []struct{ n, v string }{
		{"PositionXi", t.GetPositionXi()}, {"PositionXiDesc", t.GetPositionXiDesc()},
		{"PositionYangGui", t.GetPositionYangGui()}, {"PositionYangGuiDesc", t.GetPositionYangGuiDesc()},
		{"PositionYinGui", t.GetPositionYinGui()}, {"PositionYinGuiDesc", t.GetPositionYinGuiDesc()},
		{"PositionFu", t.GetPositionFu()}, {"PositionFuDesc", t.GetPositionFuDesc()},
		{"PositionFuBySect1", t.GetPositionFuBySect(1)}, {"PositionFuBySect2", t.GetPositionFuBySect(2)},
		{"PositionCai", t.GetPositionCai()}, {"PositionCaiDesc", t.GetPositionCaiDesc()},
		{"ChongGan", t.GetChongGan()}, {"ChongGanTie", t.GetChongGanTie()},
	} {
		f.put("hour."+a.n, "hourStem="+tGan, a.v, "LunarTime.Get"+a.n, when)
	}
	// --- by the branch
	f.put("day.Chong", "dayBranch="+dayZhi, l.GetDayChong(), "Lunar.GetDayChong", when)
	f.put("day.ChongShengXiao", "dayBranch="+dayZhi, l.GetDayChongShengXiao(), "Lunar.GetDayChongShengXiao", when)
	f.put("day.Sha", "dayBranch="+dayZhi, l.GetDaySha(), "Lunar.GetDaySha", when)
	f.put("day.PengZuZhi", "dayBranch="+dayZhi, l.GetPengZuZhi(), "Lunar.GetPengZuZhi", when)
	f.put("day.ShengXiao", "dayBranch="+dayZhi, l.GetDayShengXiao(), "Lunar.GetDayShengXiao", when)
	f.put("time.Chong", "hourBranch="+timeZhi, l.GetTimeChong(), "Lunar.GetTimeChong", when)
	f.put("time.ChongShengXiao", "hourBranch="+timeZhi, l.GetTimeChongShengXiao(), "Lunar.GetTimeChongShengXiao", when)
	f.put("time.Sha", "hourBranch="+timeZhi, l.GetTimeSha(), "Lunar.GetTimeSha", when)
	f.put("hour.Chong", "hourBranch="+tZhi, t.GetChong(), "LunarTime.GetChong", when)
	f.put("hour.ChongShengXiao", "hourBranch="+tZhi, t.GetChongShengXiao(), "LunarTime.GetChongShengXiao", when)
	f.put("hour.Sha", "hourBranch="+tZhi, t.GetSha(), "LunarTime.GetSha", when)
	// the clash description is made of the clash stem (by stem) and the clash animal (by branch): by the pillar
	f.put("day.ChongDesc", "dayPillar="+dayGZ, l.GetDayChongDesc(), "Lunar.GetDayChongDesc", when)
	f.put("time.ChongDesc", "hourPillar="+timeGZ, l.GetTimeChongDesc(), "Lunar.GetTimeChongDesc", when)
	f.put("hour.ChongDesc", "hourPillar="+tGZ, t.GetChongDesc(), "LunarTime.GetChongDesc", when)

	// --- classical law: the clash branch is six places away (and the clash animal is that branch's animal)
	for _, c := range []struct{ who, zhi, chong, animal string }{
		{"Lunar.GetDayChong", dayZhi, l.GetDayChong(), l.GetDayChongShengXiao()},
		{"Lunar.GetTimeChong", timeZhi, l.GetTimeChong(), l.GetTimeChongShengXiao()},
		{"LunarTime.GetChong", tZhi, t.GetChong(), t.GetChongShengXiao()},
	} {
		c := c
		ck.chk("law-chong-six-away", c.who+" branch="+c.zhi, func() (bool, string, string) {
			i := c18Idx(dqZhi, c.zhi)
			if i < 0 {
				return false, "branch " + c.zhi, "one of the twelve branches"
			}
			j := (i + 6) % 12
			return c.chong == dqZhi[j] && c.animal == c18ShengXiao[j], c.chong + " " + c.animal + " at " + when, dqZhi[j] + " " + c18ShengXiao[j]
		})
	}

	// --- by the stem-branch pair: nayin, xun, empty branches (one shared map each, whatever object/position reports it)
	e := l.GetEightChar()
	type pv struct{ acc, gz, nayin, xun, kong string }
	pvs := []pv{
		{"Lunar.GetYear*", l.GetYearInGanZhi(), l.GetYearNaYin(), l.GetYearXun(), l.GetYearXunKong()},
		{"Lunar.GetYear*ByLiChun", l.GetYearInGanZhiByLiChun(), "", l.GetYearXunByLiChun(), l.GetYearXunKongByLiChun()},
		{"Lunar.GetYear*Exact", l.GetYearInGanZhiExact(), "", l.GetYearXunExact(), l.GetYearXunKongExact()},
		{"Lunar.GetMonth*", l.GetMonthInGanZhi(), l.GetMonthNaYin(), l.GetMonthXun(), l.GetMonthXunKong()},
		{"Lunar.GetMonth*Exact", l.GetMonthInGanZhiExact(), "", l.GetMonthXunExact(), l.GetMonthXunKongExact()},
		{"Lunar.GetDay*", dayGZ, l.GetDayNaYin(), l.GetDayXun(), l.GetDayXunKong()},
		{"Lunar.GetDay*Exact", dayGZExact, "", l.GetDayXunExact(), l.GetDayXunKongExact()},
		{"Lunar.GetDay*Exact2", l.GetDayInGanZhiExact2(), "", l.GetDayXunExact2(), l.GetDayXunKongExact2()},
		{"Lunar.GetTime*", timeGZ, l.GetTimeNaYin(), l.GetTimeXun(), l.GetTimeXunKong()},
		{"LunarTime.Get*", tGZ, t.GetNaYin(), t.GetXun(), t.GetXunKong()},
	}
	for _, sect := range []int{1, 2} {
		e.SetSect(sect)
		s := fmt.Sprintf("EightChar[sect=%d].Get", sect)
		pvs = append(pvs,
			pv{s + "Year*", e.GetYear(), e.GetYearNaYin(), e.GetYearXun(), e.GetYearXunKong()},
			pv{s + "Month*", e.GetMonth(), e.GetMonthNaYin(), e.GetMonthXun(), e.GetMonthXunKong()},
			pv{s + "Day*", e.GetDay(), e.GetDayNaYin(), e.GetDayXun(), e.GetDayXunKong()},
			pv{s + "Time*", e.GetTime(), e.GetTimeNaYin(), e.GetTimeXun(), e.GetTimeXunKong()},
			pv{s + "TaiYuan*", e.GetTaiYuan(), e.GetTaiYuanNaYin(), "", ""},
			pv{s + "TaiXi*", e.GetTaiXi(), e.GetTaiXiNaYin(), "", ""},
			pv{s + "MingGong*", e.GetMingGong(), e.GetMingGongNaYin(), "", ""},
			pv{s + "ShenGong*", e.GetShenGong(), e.GetShenGongNaYin(), "", ""})
	}
	e.SetSect(2)
	for _, p := range pvs {
		if p.nayin != "" {
			f.put("nayin", "pillar="+p.gz, p.nayin, p.acc+"NaYin", when)
		}
		if p.xun != "" || p.kong != "" {
			f.put("xun", "pillar="+p.gz, p.xun, p.acc+"Xun", when)
			f.put("xunkong", "pillar="+p.gz, p.kong, p.acc+"XunKong", when)
		}
	}

	// --- by (month branch, day branch): duty god and the day's heavenly spirit
	mdKey := "monthBranch=" + monthZhi + " dayBranch=" + dayZhi
	zx := l.GetZhiXing()
	f.put("ZhiXing", mdKey, zx, "Lunar.GetZhiXing", when)
	dts := l.GetDayTianShen()
	f.put("DayTianShen", mdKey, dts, "Lunar.GetDayTianShen", when)
	f.put("TianShenType", "tianShen="+dts, l.GetDayTianShenType(), "Lunar.GetDayTianShenType", when)
	f.put("TianShenLuck", "tianShen="+dts, l.GetDayTianShenLuck(), "Lunar.GetDayTianShenLuck", when)
	// classical law: 建 when the day branch equals the month branch, then one duty god per day branch
	ck.chk("law-zhixing", mdKey, func() (bool, string, string) {
		mi, di := c18Idx(dqZhi, monthZhi), c18Idx(dqZhi, dayZhi)
		if mi < 0 || di < 0 {
			return false, mdKey, "branches"
		}
		exp := c18ZhiXing[dqMod(di-mi, 12)]
		return zx == exp, zx + " at " + when, exp
	})
	// --- the hour's heavenly spirit by (day branch as used for the hour pillar, hour branch)
	dhKey := "dayBranchExact=" + dayZhiExact + " hourBranch=" + timeZhi
	tts := l.GetTimeTianShen()
	f.put("TimeTianShen", dhKey, tts, "Lunar.GetTimeTianShen", when)
	f.put("TianShenType", "tianShen="+tts, l.GetTimeTianShenType(), "Lunar.GetTimeTianShenType", when)
	f.put("TianShenLuck", "tianShen="+tts, l.GetTimeTianShenLuck(), "Lunar.GetTimeTianShenLuck", when)
	hts := t.GetTianShen()
	f.put("TimeTianShen", "dayBranchExact="+dayZhiExact+" hourBranch="+tZhi, hts, "LunarTime.GetTianShen", when)
	f.put("TianShenType", "tianShen="+hts, t.GetTianShenType(), "LunarTime.GetTianShenType", when)
	f.put("TianShenLuck", "tianShen="+hts, t.GetTianShenLuck(), "LunarTime.GetTianShenLuck", when)

	// --- suitable / avoid lists by (month pillar, day pillar); school 2 uses the exact month pillar
	k1 := "monthPillar=" + l.GetMonthInGanZhi() + " dayPillar=" + dayGZ
	k2 := "monthPillar=" + l.GetMonthInGanZhiExact() + " dayPillar=" + dayGZ
	f.put("DayYi", k1, dqJoin(l.GetDayYi()), "Lunar.GetDayYi", when)
	f.put("DayJi", k1, dqJoin(l.GetDayJi()), "Lunar.GetDayJi", when)
	f.put("DayYi", k1, dqJoin(l.GetDayYiBySect(1)), "Lunar.GetDayYiBySect(1)", when)
	f.put("DayJi", k1, dqJoin(l.GetDayJiBySect(1)), "Lunar.GetDayJiBySect(1)", when)
	f.put("DayYi", k2, dqJoin(l.GetDayYiBySect(2)), "Lunar.GetDayYiBySect(2)", when)
	f.put("DayJi", k2, dqJoin(l.GetDayJiBySect(2)), "Lunar.GetDayJiBySect(2)", when)
	// --- spirits by (lunar month, day pillar)
	am := lm
	if am < 0 {
		am = -am
	}
	k3 := fmt.Sprintf("lunarMonth=%d dayPillar=%s", am, dayGZ)
	f.put("DayJiShen", k3, dqJoin(l.GetDayJiShen()), "Lunar.GetDayJiShen", when)
	f.put("DayXiongSha", k3, dqJoin(l.GetDayXiongSha()), "Lunar.GetDayXiongSha", when)
	// --- hour lists by (day pillar as used for the hour pillar, hour pillar)
	k4 := "dayPillarExact=" + dayGZExact + " hourPillar=" + timeGZ
	f.put("TimeYi", k4, dqJoin(l.GetTimeYi()), "Lunar.GetTimeYi", when)
	f.put("TimeJi", k4, dqJoin(l.GetTimeJi()), "Lunar.GetTimeJi", when)
	k5 := "dayPillarExact=" + dayGZExact + " hourPillar=" + tGZ
	f.put("TimeYi", k5, dqJoin(t.GetYi()), "LunarTime.GetYi", when)
	f.put("TimeJi", k5, dqJoin(t.GetJi()), "LunarTime.GetJi", when)
	// --- by (lunar month, day)
	k6 := fmt.Sprintf("lunarMonth=%d lunarDay=%d", lm, l.GetDay())
	f.put("YueXiang", k6, l.GetYueXiang(), "Lunar.GetYueXiang", when)
	f.put("LiuYao", k6, l.GetLiuYao(), "Lunar.GetLiuYao", when)
	f.put("Season", k6, l.GetSeason(), "Lunar.GetSeason", when)
	// --- the 28 mansions by (day branch, weekday) and their attributes by the mansion
	xiu := l.GetXiu()
	f.put("Xiu", fmt.Sprintf("dayBranch=%s week=%d", dayZhi, l.GetWeek()), xiu, "Lunar.GetXiu", when)
	f.put("Zheng", "xiu="+xiu, l.GetZheng(), "Lunar.GetZheng", when)
	f.put("Animal", "xiu="+xiu, l.GetAnimal(), "Lunar.GetAnimal", when)
	gong := l.GetGong()
	f.put("Gong", "xiu="+xiu, gong, "Lunar.GetGong", when)
	f.put("Shou", "gong="+gong, l.GetShou(), "Lunar.GetShou", when)
	f.put("XiuLuck", "xiu="+xiu, l.GetXiuLuck(), "Lunar.GetXiuLuck", when)
	f.put("XiuSong", "xiu="+xiu, l.GetXiuSong(), "Lunar.GetXiuSong", when)
	// the mansion's luminary is the weekday's
	ck.chk("law-xiu-weekday", "xiu="+xiu, func() (bool, string, string) {
		exp := strings.Split("日 月 火 水 木 金 土", " ")[l.GetWeek()]
		return l.GetZheng() == exp, l.GetZheng() + " at " + when, exp
	})
	// the Buddhist 27-mansion attributes by the mansion
	fo := l.GetFoto()
	fx := fo.GetXiu()
	f.put("Foto.Xiu", k6, fx, "Foto.GetXiu", when)
	f.put("Zheng", "xiu="+fx, fo.GetZheng(), "Foto.GetZheng", when)
	f.put("Animal", "xiu="+fx, fo.GetAnimal(), "Foto.GetAnimal", when)
	f.put("Gong", "xiu="+fx, fo.GetGong(), "Foto.GetGong", when)
	f.put("XiuLuck", "xiu="+fx, fo.GetXiuLuck(), "Foto.GetXiuLuck", when)
	// --- daily Tai Sui direction by (day pillar, year branch) for each school
	f.put("DayPositionTaiSui", fmt.Sprintf("dayPillar=%s yearBranch=%d", dayGZ, l.GetYearZhiIndex()), l.GetDayPositionTaiSuiBySect(1), "Lunar.GetDayPositionTaiSuiBySect(1)", when)
	f.put("DayPositionTaiSui", fmt.Sprintf("dayPillar=%s yearBranch=%d", l.GetDayInGanZhiExact2(), l.GetYearZhiIndexByLiChun()), l.GetDayPositionTaiSuiBySect(2), "Lunar.GetDayPositionTaiSuiBySect(2)", when)
	f.put("DayPositionTaiSui", fmt.Sprintf("dayPillar=%s yearBranch=%d", dayGZ, l.GetYearZhiIndexExact()), l.GetDayPositionTaiSuiBySect(3), "Lunar.GetDayPositionTaiSuiBySect(3)", when)
	f.put("DayPositionTai", "dayPillar="+dayGZ, l.GetDayPositionTai(), "Lunar.GetDayPositionTai", when)
	f.put("DayLu", "dayPillar="+dayGZ, l.GetDayLu(), "Lunar.GetDayLu", when)
}
