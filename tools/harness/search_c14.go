package main

import (
	"container/list"
	"fmt"
	"math/rand"
	"sort"
	"strings"

	"github.com/6tail/lunar-go/HolidayUtil"
	"github.com/6tail/lunar-go/calendar"
)

func init() {
	modes["search-C14"] = searchC14
}

// one record of the packed table, parsed by the harness itself
type c14Rec struct {
	day    string // YYYYMMDD
	name   int    // index into the name table
	work   bool   // '0' = make-up working day
	target string // YYYYMMDD
}

func c14Dash(s string) string { return s[0:4] + "-" + s[4:6] + "-" + s[6:8] }

func c14ParseTable(data string) ([]c14Rec, bool) {
	if len(data)%18 != 0 {
		return nil, false
	}
	var l []c14Rec
	for i := 0; i+18 <= len(data); i += 18 {
		r := data[i : i+18]
		for j := 0; j < 18; j++ {
			if j == 8 || j == 9 {
				continue
			}
			if r[j] < '0' || r[j] > '9' {
				return nil, false
			}
		}
		if r[9] != '0' && r[9] != '1' {
			return nil, false
		}
		l = append(l, c14Rec{day: r[0:8], name: int(r[8] - '0'), work: r[9] == '0', target: r[10:18]})
	}
	return l, true
}

// rendering of an expected record / of a library record in one comparable form
func c14RecStr(r c14Rec, names []string) string {
	nm := "?"
	if r.name >= 0 && r.name < len(names) {
		nm = names[r.name]
	}
	w := 0
	if r.work {
		w = 1
	}
	return fmt.Sprintf("%s/%s/%d/%s", c14Dash(r.day), nm, w, c14Dash(r.target))
}

func c14HolStr(h *HolidayUtil.Holiday) string {
	if h == nil {
		return "nil"
	}
	w := 0
	if h.IsWork() {
		w = 1
	}
	return fmt.Sprintf("%s/%s/%d/%s", h.GetDay(), h.GetName(), w, h.GetTarget())
}

func c14ListStrs(l *list.List) []string {
	var p []string
	if l == nil {
		return p
	}
	for e := l.Front(); e != nil; e = e.Next() {
		h, ok := e.Value.(*HolidayUtil.Holiday)
		if !ok {
			p = append(p, fmt.Sprintf("<%T>", e.Value))
			continue
		}
		p = append(p, c14HolStr(h))
	}
	return p
}

func c14Join(p []string) string {
	if len(p) == 0 {
		return "-"
	}
	return strings.Join(p, ",")
}

// c14Trim drops the common prefix and suffix of two long lists so that a report shows the differing part
func c14Trim(got, want []string) (string, string) {
	if len(got) <= 10 && len(want) <= 10 {
		return c14Join(got), c14Join(want)
	}
	p := 0
	for p < len(got) && p < len(want) && got[p] == want[p] {
		p++
	}
	q := 0
	for q < len(got)-p && q < len(want)-p && got[len(got)-1-q] == want[len(want)-1-q] {
		q++
	}
	f := func(l []string) string {
		mid := l[p : len(l)-q]
		return fmt.Sprintf("[%d equal] %s [%d equal]", p, c14Join(mid), q)
	}
	return f(got), f(want)
}

func c14EqStrs(a, b []string) bool {
	if len(a) != len(b) {
		return false
	}
	for i := range a {
		if a[i] != b[i] {
			return false
		}
	}
	return true
}

func c14SameSet(a, b []string) bool {
	x := append([]string{}, a...)
	y := append([]string{}, b...)
	sort.Strings(x)
	sort.Strings(y)
	return c14EqStrs(x, y)
}

// ---- independent proleptic-Gregorian day arithmetic (only used for years >= 1999) ----

func c14DaysFromCivil(y, m, d int) int { // days since 1970-01-01
	if m <= 2 {
		y--
	}
	era := y / 400 // y > 0 here
	yoe := y - era*400
	mp := (m + 9) % 12
	doy := (153*mp+2)/5 + d - 1
	doe := yoe*365 + yoe/4 - yoe/100 + doy
	return era*146097 + doe - 719468
}

func c14CivilFromDays(z int) (int, int, int) {
	z += 719468
	era := z / 146097
	doe := z - era*146097
	yoe := (doe - doe/1460 + doe/36524 - doe/146096) / 365
	y := yoe + era*400
	doy := doe - (365*yoe + yoe/4 - yoe/100)
	mp := (5*doy + 2) / 153
	d := doy - (153*mp+2)/5 + 1
	m := mp + 3
	if m > 12 {
		m -= 12
	}
	if m <= 2 {
		y++
	}
	return y, m, d
}

// 0 = Sunday .. 6 = Saturday (1970-01-01 was a Thursday)
func c14Weekday(days int) int { return ((days+4)%7 + 7) % 7 }

func c14Key(y, m, d int) string { return fmt.Sprintf("%04d%02d%02d", y, m, d) }

// ---- reporter with de-duplication and a per-kind cap ----

type c14Reporter struct {
	seen    map[string]bool
	perKind map[string]int
}

func (r *c14Reporter) report(kind, input, observed, expected string) {
	k := kind + "\x00" + input
	if r.seen[k] {
		return
	}
	r.seen[k] = true
	r.perKind[kind]++
	if r.perKind[kind] > 20 {
		return
	}
	viol("C14", kind, input, observed, expected)
}

// kinds used by one pass over the four views
type c14Kinds struct {
	day, month, year               string
	tgtMissing, tgtExtra, tgtOrder string
}

// c14CheckViews compares all four views (and their string-keyed twins) with the expected record list
// (sorted by day, one record per day). Every mismatch goes to sink with its category
// ("day", "month", "year", "target"), kind, key (the queried day / month / year / target), observed and
// expected. Returns the number of evaluations.
func c14CheckViews(sink func(cat, kind, key, observed, expected string), exp []c14Rec, names []string, years []int, kinds c14Kinds, extraTargets []string) int {
	count := 0
	byDay := map[string]c14Rec{}
	byMonth := map[string][]string{}
	byYear := map[string][]string{}
	byTarget := map[string][]string{}
	for _, r := range exp {
		byDay[r.day] = r
		s := c14RecStr(r, names)
		byMonth[r.day[0:6]] = append(byMonth[r.day[0:6]], s)
		byYear[r.day[0:4]] = append(byYear[r.day[0:4]], s)
		byTarget[r.target] = append(byTarget[r.target], s)
	}
	guard := func(cat, kind, key string, f func()) {
		count++
		defer func() {
			if e := recover(); e != nil {
				sink(cat, kind, key, fmt.Sprintf("panic: %v", e), "no panic")
			}
		}()
		f()
	}
	cmpList := func(cat, kind, key, via string, got []string, want []string) {
		if !c14EqStrs(got, want) {
			g, w := c14Trim(got, want)
			sink(cat, kind, key, via+" = "+g, w)
		}
	}
	cmpTarget := func(key, via string, got []string, want []string) {
		if c14EqStrs(got, want) {
			return
		}
		if c14SameSet(got, want) {
			sink("target", kinds.tgtOrder, key, via+" = "+c14Join(got), c14Join(want))
			return
		}
		// missing or extra?
		have := map[string]int{}
		for _, g := range got {
			have[g]++
		}
		missing := false
		for _, w := range want {
			if have[w] == 0 {
				missing = true
			} else {
				have[w]--
			}
		}
		kind := kinds.tgtExtra
		if missing {
			kind = kinds.tgtMissing
		}
		sink("target", kind, key, via+" = "+c14Join(got), c14Join(want))
	}
	checkTarget := func(y, m, d int) {
		key := c14Key(y, m, d)
		dk := c14Dash(key)
		want := byTarget[key]
		guard("target", kinds.tgtMissing, dk, func() {
			cmpTarget(dk, "GetHolidaysByTargetYmd", c14ListStrs(HolidayUtil.GetHolidaysByTargetYmd(y, m, d)), want)
		})
		guard("target", kinds.tgtMissing, dk, func() {
			cmpTarget(dk, "GetHolidaysByTarget(dashed)", c14ListStrs(HolidayUtil.GetHolidaysByTarget(dk)), want)
		})
		guard("target", kinds.tgtMissing, dk, func() {
			cmpTarget(dk, "GetHolidaysByTarget(plain)", c14ListStrs(HolidayUtil.GetHolidaysByTarget(key)), want)
		})
	}
	for _, y := range years {
		y := y
		ykey := fmt.Sprintf("%04d", y)
		guard("year", kinds.year, ykey, func() {
			cmpList("year", kinds.year, ykey, "GetHolidaysByYear", c14ListStrs(HolidayUtil.GetHolidaysByYear(y)), byYear[ykey])
		})
		guard("year", kinds.year, ykey, func() {
			cmpList("year", kinds.year, ykey, "GetHolidays(year)", c14ListStrs(HolidayUtil.GetHolidays(ykey)), byYear[ykey])
		})
		for m := 1; m <= 12; m++ {
			m := m
			mkey := fmt.Sprintf("%04d%02d", y, m)
			mdash := fmt.Sprintf("%04d-%02d", y, m)
			guard("month", kinds.month, mdash, func() {
				cmpList("month", kinds.month, mdash, "GetHolidaysByYm", c14ListStrs(HolidayUtil.GetHolidaysByYm(y, m)), byMonth[mkey])
			})
			guard("month", kinds.month, mdash, func() {
				cmpList("month", kinds.month, mdash, "GetHolidays(month)", c14ListStrs(HolidayUtil.GetHolidays(mdash)), byMonth[mkey])
			})
			for d := 1; d <= 31; d++ {
				d := d
				if !validYmd(y, m, d) {
					continue
				}
				key := c14Key(y, m, d)
				dk := c14Dash(key)
				want := "nil"
				var wantL []string
				if r, ok := byDay[key]; ok {
					want = c14RecStr(r, names)
					wantL = []string{want}
				}
				one := func(via string, f func() *HolidayUtil.Holiday) {
					guard("day", kinds.day, dk, func() {
						got := c14HolStr(f())
						if got != want {
							sink("day", kinds.day, dk, via+" = "+got, want)
						}
					})
				}
				one("GetHolidayByYmd", func() *HolidayUtil.Holiday { return HolidayUtil.GetHolidayByYmd(y, m, d) })
				one("GetHoliday(dashed)", func() *HolidayUtil.Holiday { return HolidayUtil.GetHoliday(dk) })
				one("GetHoliday(plain)", func() *HolidayUtil.Holiday { return HolidayUtil.GetHoliday(key) })
				guard("day", kinds.day, dk, func() {
					cmpList("day", kinds.day, dk, "GetHolidays(day)", c14ListStrs(HolidayUtil.GetHolidays(dk)), wantL)
				})
				checkTarget(y, m, d)
			}
		}
	}
	// targets outside the swept years (e.g. far-away fix-ups)
	for _, t := range extraTargets {
		var y, m, d int
		fmt.Sscanf(t[0:4], "%d", &y)
		fmt.Sscanf(t[4:6], "%d", &m)
		fmt.Sscanf(t[6:8], "%d", &d)
		checkTarget(y, m, d)
	}
	return count
}

// one seeded fix-up history: several calls, each a concatenation of 18-character segments
type c14Fix struct {
	calls []string
	kind  string // "" = decide from the shape of the edit
	extra int    // number of custom names appended to the built-in name table (passed with the first call)
}

// c14ApplyExpected edits the harness' own record list the way the fix-up is documented to work:
// a segment replaces the record of its day, adds it when the day has none, and removes it when tagged '~'.
// It also reports whether an added record is earlier than some record already present (the table is then
// no longer in date order if the record is simply appended).
func c14ApplyExpected(exp []c14Rec, calls []string) (res []c14Rec, unsorted bool, ok bool) {
	m := map[string]c14Rec{}
	maxDay := ""
	for _, r := range exp {
		m[r.day] = r
		if r.day > maxDay {
			maxDay = r.day
		}
	}
	for _, dt := range calls {
		for len(dt) >= 18 {
			seg := dt[:18]
			dt = dt[18:]
			day := seg[:8]
			if seg[8] == '~' {
				delete(m, day)
				continue
			}
			rs, good := c14ParseTable(seg)
			if !good {
				return nil, false, false
			}
			if _, have := m[day]; !have {
				if day < maxDay {
					unsorted = true
				}
				if day > maxDay {
					maxDay = day
				}
			}
			m[day] = rs[0]
		}
	}
	for _, r := range m {
		res = append(res, r)
	}
	sort.Slice(res, func(i, j int) bool { return res[i].day < res[j].day })
	return res, unsorted, true
}

func searchC14() {
	defer HolidayUtil.VerifReset()
	HolidayUtil.VerifReset()
	count := 0
	rep := &c14Reporter{seen: map[string]bool{}, perKind: map[string]int{}}
	names := append([]string{}, HolidayUtil.VerifNamesInUse()...)
	base, ok := c14ParseTable(HolidayUtil.VerifDataInUse())
	if !ok {
		viol("C14", "table-malformed", "built-in", fmt.Sprintf("length %d", len(HolidayUtil.VerifDataInUse())), "a sequence of 18-character records")
		fmt.Fprintf(out, "COUNT 1\n")
		return
	}
	lastYear := 2001
	for _, r := range base {
		var y int
		fmt.Sscanf(r.day[0:4], "%d", &y)
		if y > lastYear {
			lastYear = y
		}
	}
	// the expected list is kept in date order (the views promise date order whatever the table order)
	sorted := append([]c14Rec{}, base...)
	sort.SliceStable(sorted, func(i, j int) bool { return sorted[i].day < sorted[j].day })
	dupDays := 0
	for i := 1; i < len(sorted); i++ {
		if sorted[i].day == sorted[i-1].day {
			dupDays++
		}
	}
	if dupDays > 0 {
		viol("C14", "table-duplicate-day", "built-in", fmt.Sprintf("%d days with two records", dupDays), "one record per day")
	}

	// ---------- 1. the four views on the built-in table ----------
	var myYears []int
	for y := 2001; y <= lastYear+1; y++ {
		if (y-2001)%shardN == shardI {
			myYears = append(myYears, y)
		}
	}
	pristine := c14Kinds{day: "day-view", month: "month-view", year: "year-view",
		tgtMissing: "target-view-missing", tgtExtra: "target-view-extra", tgtOrder: "target-view-order"}
	// silent pass over all years: which keys already disagree on the built-in table (every shard needs this
	// to keep the fix-up checks below from re-reporting a defect of the built-in table under a fix-up kind)
	var allYears []int
	for y := 2001; y <= lastYear+1; y++ {
		allYears = append(allYears, y)
	}
	var extra []string
	seenT := map[string]bool{}
	for _, r := range sorted {
		var y int
		fmt.Sscanf(r.target[0:4], "%d", &y)
		if (y < 2001 || y > lastYear+1) && !seenT[r.target] {
			seenT[r.target] = true
			extra = append(extra, r.target)
		}
	}
	baseBad := map[string]bool{}
	c14CheckViews(func(cat, kind, key, observed, expected string) { baseBad[cat+"|"+key] = true }, sorted, names, allYears, pristine, extra)
	// reporting pass: this shard's years (targets outside 2001..lastYear+1 go to shard 0)
	direct := func(cat, kind, key, observed, expected string) { rep.report(kind, key, observed, expected) }
	count += c14CheckViews(direct, sorted, names, myYears, pristine, nil)
	if len(extra) > 0 && shardI == 0 {
		count += c14CheckViews(direct, sorted, names, nil, pristine, extra)
	}

	// ---------- 2. workday stepping and pay rate ----------
	recOf := map[string]c14Rec{}
	for _, r := range sorted {
		recOf[r.day] = r
	}
	d0 := c14DaysFromCivil(1999, 1, 1)
	d1 := c14DaysFromCivil(lastYear+3, 12, 31)
	nDays := d1 - d0 + 1
	works := make([]bool, nDays)
	for i := 0; i < nDays; i++ {
		y, m, d := c14CivilFromDays(d0 + i)
		if r, have := recOf[c14Key(y, m, d)]; have {
			works[i] = r.work
		} else {
			wd := c14Weekday(d0 + i)
			works[i] = wd >= 1 && wd <= 5
		}
	}
	allN := []int{0}
	for n := 1; n <= 30; n++ {
		allN = append(allN, n, -n)
	}
	allN = append(allN, 100, -100, 260, -260)
	// start days: every recorded day and its neighbours, plus random days (all days at the thorough tier)
	startSet := map[int]bool{}
	lo := c14DaysFromCivil(2001, 1, 1)
	hi := c14DaysFromCivil(lastYear+1, 12, 31)
	if tier == "thorough" {
		for z := lo; z <= hi; z++ {
			startSet[z] = true
		}
	} else {
		for _, r := range sorted {
			var y, m, d int
			fmt.Sscanf(r.day[0:4], "%d", &y)
			fmt.Sscanf(r.day[4:6], "%d", &m)
			fmt.Sscanf(r.day[6:8], "%d", &d)
			z := c14DaysFromCivil(y, m, d)
			for _, dz := range []int{-1, 0, 1} {
				if z+dz >= lo && z+dz <= hi {
					startSet[z+dz] = true
				}
			}
		}
		g := rand.New(rand.NewSource(seed*7919 + 14)) // same in every shard
		for i := 0; i < 600; i++ {
			startSet[lo+g.Intn(hi-lo+1)] = true
		}
	}
	var starts []int
	for z := range startSet {
		starts = append(starts, z)
	}
	sort.Ints(starts)
	nHol, nMake, nWeekend, nPlain := 0, 0, 0, 0
	samples := 0
	for si, z := range starts {
		if si%shardN != shardI {
			continue
		}
		y, m, d := c14CivilFromDays(z)
		key := c14Key(y, m, d)
		if r, have := recOf[key]; have {
			if r.work {
				nMake++
			} else {
				nHol++
			}
		} else if wd := c14Weekday(z); wd == 0 || wd == 6 {
			nWeekend++
		} else {
			nPlain++
		}
		ns := allN
		if tier != "thorough" {
			ns = []int{0, 1, -1, 2, -2, 3, -3, 5, -5}
			for k := 0; k < 8; k++ {
				ns = append(ns, allN[rng.Intn(len(allN))])
			}
		}
		t := randTime()
		for _, n := range ns {
			n := n
			// expected landing day, by the harness' own walk
			i := z - d0
			step := 1
			rest := n
			if n < 0 {
				step = -1
				rest = -n
			}
			for rest > 0 {
				i += step
				if i < 0 || i >= nDays {
					break
				}
				if works[i] {
					rest--
				}
			}
			if rest > 0 {
				continue // walked off the harness' window (cannot happen with the step counts used)
			}
			ey, em, ed := c14CivilFromDays(d0 + i)
			in := fmt.Sprintf("%s n=%d", c14Dash(key), n)
			count++
			func() {
				defer func() {
					if e := recover(); e != nil {
						rep.report("workday-step", in, fmt.Sprintf("panic: %v", e), "no panic")
					}
				}()
				r := sol(y, m, d, t.h, t.mi, t.s).Next(n, true)
				if n == 0 {
					if r.GetYear() != y || r.GetMonth() != m || r.GetDay() != d || r.GetHour() != t.h || r.GetMinute() != t.mi || r.GetSecond() != t.s {
						rep.report("workday-step-zero", in, r.ToYmdHms(), fmt.Sprintf("%s %02d:%02d:%02d", c14Dash(key), t.h, t.mi, t.s))
					}
					return
				}
				if r.GetYear() != ey || r.GetMonth() != em || r.GetDay() != ed {
					// describe the landing day in the statement's terms
					rz := c14DaysFromCivil(r.GetYear(), r.GetMonth(), r.GetDay())
					desc := "not a working day"
					passed := 0
					if rz-d0 >= 0 && rz-d0 < nDays {
						if works[rz-d0] {
							desc = "a working day"
						}
						a, b := z+1, rz
						if n < 0 {
							a, b = rz, z-1
						}
						for q := a; q <= b; q++ {
							if works[q-d0] {
								passed++
							}
						}
					}
					rep.report("workday-step", in, fmt.Sprintf("%s (%s, %d working days passed)", r.ToYmd(), desc, passed),
						fmt.Sprintf("%s (a working day, %d working days passed)", c14Dash(c14Key(ey, em, ed)), c14Abs(n)))
				}
			}()
			if samples < 2 && (n > 5 || n < -5) {
				samples++
				fmt.Fprintf(out, "SAMPLE workday step %s => %s\n", in, c14Dash(c14Key(ey, em, ed)))
			}
		}
	}

	// pay rate: every day of the shard's years
	fest3 := map[string]string{}
	for y := 2000; y <= lastYear+2; y++ {
		fest3[c14Key(y, 1, 1)] = "Jan 1"
		fest3[c14Key(y, 5, 1)] = "May 1"
		for d := 1; d <= 3; d++ {
			fest3[c14Key(y, 10, d)] = "Oct 1-3"
		}
		func() {
			defer func() { recover() }()
			put := func(lm, ld int, what string) {
				s := calendar.NewLunarFromYmd(y, lm, ld).GetSolar()
				fest3[c14Key(s.GetYear(), s.GetMonth(), s.GetDay())] = what
			}
			put(1, 1, "lunar 1-1")
			put(1, 2, "lunar 1-2")
			put(1, 3, "lunar 1-3")
			put(5, 5, "lunar 5-5")
			put(8, 15, "lunar 8-15")
			q := calendar.NewLunarFromYmd(y, 3, 1).GetJieQiTable()["清明"]
			if q != nil && q.GetYear() == y {
				fest3[c14Key(q.GetYear(), q.GetMonth(), q.GetDay())] = "Qingming"
			} else {
				// fall back: the Qingming entry of the table seen from a mid-year date
				q2 := calendar.NewSolarFromYmd(y, 6, 1).GetLunar().GetJieQiTable()["清明"]
				fest3[c14Key(q2.GetYear(), q2.GetMonth(), q2.GetDay())] = "Qingming"
			}
		}()
	}
	n3, n2, n1 := 0, 0, 0
	for _, y := range myYears {
		for _, dd := range daysOfYearList(y) {
			m, d := dd.m, dd.d
			key := c14Key(y, m, d)
			want := 1
			why := "working day"
			if w, is := fest3[key]; is {
				want, why = 3, "statutory festival day ("+w+")"
			} else if r, have := recOf[key]; have {
				if !r.work {
					want, why = 2, "recorded day off"
				} else {
					why = "recorded make-up day"
				}
			} else if wd := c14Weekday(c14DaysFromCivil(y, m, d)); wd == 0 || wd == 6 {
				want, why = 2, "unrecorded weekend"
			}
			switch want {
			case 3:
				n3++
			case 2:
				n2++
			default:
				n1++
			}
			t := randTime()
			in := c14Dash(key)
			count++
			func() {
				defer func() {
					if e := recover(); e != nil {
						rep.report("salary-rate", in, fmt.Sprintf("panic: %v", e), "no panic")
					}
				}()
				got := sol(y, m, d, t.h, t.mi, t.s).GetSalaryRate()
				if got != want {
					rep.report("salary-rate", in, fmt.Sprint(got), fmt.Sprintf("%d (%s)", want, why))
				}
			}()
		}
	}

	// ---------- 3. fix-ups ----------
	fixes := []c14Fix{
		{calls: []string{"209912310120991231"}},                                               // add a day later than everything
		{calls: []string{"200101010020010101"}},                                               // add a day earlier than everything
		{calls: []string{"202001020120200101"}},                                               // add a day in the middle of a recorded month
		{calls: []string{"202606010120260601"}},                                               // add a later day in a year without records
		{calls: []string{"202001011020200101"}},                                               // replace an existing record (name and flag)
		{calls: []string{"202001250120200124"}},                                               // replace an existing record (target moves)
		{calls: []string{"20200101~000000000"}},                                               // remove one
		{calls: []string{"20990101~000000000"}},                                               // remove a day that has no record
		{calls: []string{"20191001~000000000" + "202210010120221001" + "209912310120991231"}}, // several in one call
		{calls: []string{"202001011020200101", "20200101~000000000"}},                         // replace, then remove
		{calls: []string{"209912300120991231", "209912310120991231"}},                         // two adds in date order, two calls
		{calls: []string{"209912300120991231" + "209912310120991231"}},                        // two adds in date order, one call
		{calls: []string{"209912310120991231", "209912300120991231"}},                         // two adds, second earlier
		{calls: []string{"209912310120991231", "209912311020991231"}},                         // add, then replace the added record
		{calls: []string{"209912310120991231", "20991231~000000000"}},                         // add, then remove the added record
		{calls: []string{"20011229~000000000", "200112290020020101"}},                         // remove the first record, then add it back
		{calls: []string{"209912310120991231" + "209912311020991231"}, kind: "fix-same-day-twice-in-one-call"},
		// extended name tables: records with name index 9 ('9') and 10 (':'), then replaced / removed like any other
		{calls: []string{"20210312:120210312"}, extra: 2},
		{calls: []string{"20210312:120210312", "202103129020210308"}, extra: 2},
		{calls: []string{"20210312:120210312", "20210312~000000000"}, extra: 2},
		{calls: []string{"202103139120210313", "20210313:020210312", "20210313~000000000"}, extra: 3},
	}
	// seeded random histories on existing records (replace / remove / add around them)
	nRandFix := 6
	if tier == "thorough" {
		nRandFix = 60
	}
	for i := 0; i < nRandFix; i++ {
		r := sorted[rng.Intn(len(sorted))]
		flag := byte('1')
		if !r.work {
			flag = '0' // flip the flag
		}
		repl := r.day + string(rune('0'+(r.name+1)%len(names))) + string(rune(flag)) + r.target
		switch i % 3 {
		case 0:
			fixes = append(fixes, c14Fix{calls: []string{repl}})
		case 1:
			fixes = append(fixes, c14Fix{calls: []string{r.day + "~" + "000000000"}})
		default:
			r2 := sorted[rng.Intn(len(sorted))]
			fixes = append(fixes, c14Fix{calls: []string{repl + r2.day + "~" + "000000000", "209901010120990101"}})
		}
	}
	nUnsorted := 0
	for fi, fx := range fixes {
		if fi%shardN != shardI {
			continue
		}
		input := strings.Join(fx.calls, ";")
		func() {
			defer HolidayUtil.VerifReset()
			HolidayUtil.VerifReset()
			exp, unsorted, good := c14ApplyExpected(sorted, fx.calls)
			if !good {
				return
			}
			kind := fx.kind
			if kind == "" {
				kind = "fix-view-mismatch"
				if unsorted {
					kind = "fix-append-unsorted"
					nUnsorted++
				}
			}
			applied := true
			fxNames := names
			if fx.extra > 0 {
				fxNames = append([]string{}, names...)
				for j := 1; j <= fx.extra; j++ {
					fxNames = append(fxNames, fmt.Sprintf("X%d", j))
				}
			}
			for di, dt := range fx.calls {
				func() {
					defer func() {
						if e := recover(); e != nil {
							applied = false
							rep.report(kind, input, fmt.Sprintf("Fix panicked: %v", e), "no panic")
						}
					}()
					var nm []string
					if fx.extra > 0 && di == 0 {
						nm = fxNames
					}
					HolidayUtil.Fix(nm, dt)
				}()
			}
			count++
			if !applied {
				return
			}
			years := append([]int{}, allYears...)
			ys := map[int]bool{}
			var extraT []string
			for _, r := range exp {
				var y, ty int
				fmt.Sscanf(r.day[0:4], "%d", &y)
				fmt.Sscanf(r.target[0:4], "%d", &ty)
				if (y < 2001 || y > lastYear+1) && !ys[y] {
					ys[y] = true
					years = append(years, y)
				}
				if ty < 2001 || ty > lastYear+1 {
					extraT = append(extraT, r.target)
				}
			}
			// the target-order kind is kept apart: the statement promises date order for month and year results only
			// targets whose records are not adjacent in the expected (date-ordered) list
			nonContig := map[string]bool{}
			lastPos := map[string]int{}
			for i, r := range exp {
				if p, have := lastPos[r.target]; have && p != i-1 {
					nonContig[r.target] = true
				}
				lastPos[r.target] = i
			}
			k := c14Kinds{day: kind, month: kind, year: kind, tgtMissing: kind, tgtExtra: kind, tgtOrder: kind + "-target-order"}
			count += c14CheckViews(func(cat, kd, key, observed, expected string) {
				if baseBad[cat+"|"+key] {
					return // this key is already wrong on the built-in table and reported under its own kind
				}
				if cat == "target" && kd == kind && nonContig[strings.Replace(key, "-", "", -1)] {
					kd = "fix-target-noncontiguous" // same mechanism as target-view-missing, brought about by the fix-up
				}
				rep.report(kd, input, cat+" view of "+key+": "+observed, expected)
			}, exp, fxNames, years, k, extraT)
		}()
	}
	HolidayUtil.VerifReset()
	// the reset really restored the built-in table (otherwise later searches in this process would be polluted)
	if again, ok2 := c14ParseTable(HolidayUtil.VerifDataInUse()); !ok2 || len(again) != len(base) {
		viol("C14", "reset-failed", "VerifReset", fmt.Sprintf("%d records", len(again)), fmt.Sprintf("%d records", len(base)))
	}

	fmt.Fprintf(out, "COUNT %d\n", count)
	fmt.Fprintf(out, "STAT records=%d\n", len(base))
	fmt.Fprintf(out, "STAT lastYear=%d\n", lastYear)
	fmt.Fprintf(out, "STAT startsHoliday=%d\n", nHol)
	fmt.Fprintf(out, "STAT startsMakeup=%d\n", nMake)
	fmt.Fprintf(out, "STAT startsWeekend=%d\n", nWeekend)
	fmt.Fprintf(out, "STAT startsPlain=%d\n", nPlain)
	fmt.Fprintf(out, "STAT rate3=%d\n", n3)
	fmt.Fprintf(out, "STAT rate2=%d\n", n2)
	fmt.Fprintf(out, "STAT rate1=%d\n", n1)
	fmt.Fprintf(out, "STAT fixUnsorted=%d\n", nUnsorted)
}

func c14Abs(n int) int {
	if n < 0 {
		return -n
	}
	return n
}
