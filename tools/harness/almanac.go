package main

import (
	"container/list"
	"fmt"
	"strings"

	"github.com/6tail/lunar-go/calendar"
)

func init() {
	modes["gen-alm"] = genAlmanac
}

func sl(l *list.List) string { return strList(l) }

// order must match Driver/OpsAlmanac.lean almVector
func almStr(l *calendar.Lunar) string {
	v := []string{
		l.GetDayPositionXi(), l.GetDayPositionXiDesc(), l.GetDayPositionYangGui(), l.GetDayPositionYangGuiDesc(),
		l.GetDayPositionYinGui(), l.GetDayPositionYinGuiDesc(), l.GetDayPositionFu(), l.GetDayPositionFuBySect(1), l.GetDayPositionFuDesc(),
		l.GetDayPositionCai(), l.GetDayPositionCaiDesc(),
		l.GetPengZuGan(), l.GetPengZuZhi(),
		l.GetDayChong(), l.GetDayChongGan(), l.GetDayChongGanTie(), l.GetDayChongShengXiao(), l.GetDayChongDesc(), l.GetDaySha(),
		l.GetYearNaYin(), l.GetMonthNaYin(), l.GetDayNaYin(), l.GetTimeNaYin(),
		l.GetZhiXing(), l.GetDayTianShen(), l.GetDayTianShenType(), l.GetDayTianShenLuck(), l.GetTimeTianShen(), l.GetTimeTianShenType(), l.GetTimeTianShenLuck(),
		l.GetDayPositionTai(), dash(l.GetMonthPositionTai()),
		l.GetXiu(), l.GetXiuLuck(), l.GetZheng(), l.GetAnimal(), l.GetGong(), l.GetShou(),
		l.GetYueXiang(), l.GetLiuYao(), l.GetSeason(), l.GetDayLu(),
		sl(l.GetDayYi()), sl(l.GetDayJi()), sl(l.GetDayYiBySect(2)), sl(l.GetDayJiBySect(2)),
		sl(l.GetDayJiShen()), sl(l.GetDayXiongSha()), sl(l.GetTimeYi()), sl(l.GetTimeJi()),
		l.GetTimePositionXi(), l.GetTimePositionYangGui(), l.GetTimePositionYinGui(), l.GetTimePositionFu(), l.GetTimePositionCai(),
		l.GetTimeChong(), l.GetTimeChongGan(), l.GetTimeChongGanTie(), l.GetTimeChongShengXiao(), l.GetTimeChongDesc(), l.GetTimeSha(),
		l.GetYearXun(), l.GetYearXunByLiChun(), l.GetYearXunExact(),
		l.GetYearXunKong(), l.GetYearXunKongByLiChun(), l.GetYearXunKongExact(),
		l.GetMonthXun(), l.GetMonthXunExact(), l.GetMonthXunKong(), l.GetMonthXunKongExact(),
		l.GetDayXun(), l.GetDayXunExact(), l.GetDayXunExact2(),
		l.GetDayXunKong(), l.GetDayXunKongExact(), l.GetDayXunKongExact2(),
		l.GetTimeXun(), l.GetTimeXunKong(),
		l.GetYearPositionTaiSuiBySect(1), l.GetYearPositionTaiSuiBySect(2), l.GetYearPositionTaiSuiBySect(3),
		l.GetMonthPositionTaiSuiBySect(2), l.GetMonthPositionTaiSuiBySect(3),
		l.GetDayPositionTaiSuiBySect(1), l.GetDayPositionTaiSuiBySect(2), l.GetDayPositionTaiSuiBySect(3),
		l.GetYearShengXiao(), l.GetYearShengXiaoByLiChun(), l.GetYearShengXiaoExact(), l.GetMonthShengXiao(), l.GetDayShengXiao(), l.GetTimeShengXiao(),
	}
	return strings.Join(v, "|")
}

func timeStr(t *calendar.LunarTime) string {
	v := []string{
		t.GetGanZhi(), t.GetShengXiao(), t.GetPositionXi(), t.GetPositionXiDesc(), t.GetPositionYangGui(), t.GetPositionYinGui(),
		t.GetPositionFu(), t.GetPositionFuBySect(1), t.GetPositionCai(), t.GetNaYin(), t.GetTianShen(), t.GetTianShenType(), t.GetTianShenLuck(),
		t.GetChong(), t.GetSha(), t.GetChongGan(), t.GetChongGanTie(), t.GetChongShengXiao(), t.GetChongDesc(),
		sl(t.GetYi()), sl(t.GetJi()), t.GetXun(), t.GetXunKong(), fmt.Sprint(t.GetNineStar().GetIndex()),
	}
	return strings.Join(v, "|")
}

func ymStr(l *calendar.Lunar) string {
	y := calendar.NewLunarYear(l.GetYear())
	m := y.GetMonth(l.GetMonth())
	v := []string{
		y.GetGanZhi(), y.GetPositionXi(), y.GetPositionYangGui(), y.GetPositionYinGui(), y.GetPositionFu(), y.GetPositionFuBySect(1), y.GetPositionCai(),
		y.GetPositionTaiSui(), fmt.Sprint(y.GetNineStar().GetIndex()),
		m.GetGanZhi(), m.GetPositionXi(), m.GetPositionYangGui(), m.GetPositionYinGui(), m.GetPositionFu(), m.GetPositionCai(),
		fmt.Sprint(m.GetNineStar().GetIndex()),
	}
	return strings.Join(v, "|")
}

func bstr(bs ...bool) string {
	var sb strings.Builder
	for _, b := range bs {
		if b {
			sb.WriteByte('1')
		} else {
			sb.WriteByte('0')
		}
	}
	return sb.String()
}

func tfStr(l *calendar.Lunar) string {
	t := l.GetTao()
	f := l.GetFoto()
	var tf []string
	for e := t.GetFestivals().Front(); e != nil; e = e.Next() {
		x := e.Value.(*calendar.TaoFestival)
		s := x.GetName()
		if x.GetRemark() != "" {
			s += "/" + x.GetRemark()
		}
		tf = append(tf, s)
	}
	var ff []string
	for e := f.GetFestivals().Front(); e != nil; e = e.Next() {
		ff = append(ff, e.Value.(*calendar.FotoFestival).GetName())
	}
	j := func(a []string) string {
		if len(a) == 0 {
			return "-"
		}
		return strings.Join(a, ",")
	}
	return strings.Join([]string{fmt.Sprint(t.GetYear()), fmt.Sprint(f.GetYear()),
		bstr(t.IsDaySanHui(), t.IsDaySanYuan(), t.IsDayWuLa(), t.IsDayBaJie(), t.IsDayBaHui(), t.IsDayMingWu(), t.IsDayAnWu(), t.IsDayWu()),
		bstr(f.IsMonthZhai(), f.IsDayYangGong(), f.IsDayZhaiShuoWang(), f.IsDayZhaiSix(), f.IsDayZhaiTen(), f.IsDayZhaiGuanYin()),
		f.GetXiu(), j(tf), j(ff), sl(f.GetOtherFestivals()), l.String(), t.String(), f.String()}, "|")
}

func genAlmanac() {
	for _, y := range sweepYears(25) {
		for i, dd := range daysOfYearList(y) {
			y, m, d := dd.y, dd.m, dd.d
			l0 := sol(y, m, d, 0, 0, 0).GetLunar()
			a3 := fmt.Sprintf("%d %d %d 0 0 0", y, m, d)
			emit("tf", a3, safe(func() string { return tfStr(l0) }))
			if i%4 == 0 {
				emit("newtao", fmt.Sprintf("%d %d %d 1 2 3", l0.GetYear()+2697, l0.GetMonth(), l0.GetDay()), safe(func() string {
					return lunarFields(calendar.NewTao(l0.GetYear()+2697, l0.GetMonth(), l0.GetDay(), 1, 2, 3).GetLunar())
				}))
				emit("newfoto", fmt.Sprintf("%d %d %d 1 2 3", l0.GetYear()+544, l0.GetMonth(), l0.GetDay()), safe(func() string {
					return lunarFields(calendar.NewFoto(l0.GetYear()+544, l0.GetMonth(), l0.GetDay(), 1, 2, 3).GetLunar())
				}))
			}
			for _, t := range timesFor(l0, y, m, d, 1) {
				t := t
				a6 := fmt.Sprintf("%d %d %d %d %d %d", y, m, d, t.h, t.mi, t.s)
				l := sol(y, m, d, t.h, t.mi, t.s).GetLunar()
				emit("alm", a6, safe(func() string { return almStr(l) }))
				emit("alm.time", a6, safe(func() string { return timeStr(l.GetTime()) }))
				if rng.Intn(4) == 0 {
					emit("alm.ym", a6, safe(func() string { return ymStr(l) }))
				}
			}
		}
	}
}
