package main

import (
	"container/list"
	"fmt"
	"strings"

	"github.com/6tail/lunar-go/HolidayUtil"
)

func init() {
	modes["gen-holiday"] = genHoliday
}

func holStr(h *HolidayUtil.Holiday) string {
	w := 0
	if h.IsWork() {
		w = 1
	}
	return fmt.Sprintf("%s/%s/%d/%s", h.GetDay(), h.GetName(), w, h.GetTarget())
}

func holList(l *list.List) string {
	if l.Len() == 0 {
		return "-"
	}
	var p []string
	for e := l.Front(); e != nil; e = e.Next() {
		p = append(p, holStr(e.Value.(*HolidayUtil.Holiday)))
	}
	return strings.Join(p, ",")
}

// fix-up histories exercised by the sweep ("-" = pristine data)
func fixHistories() []string {
	h := []string{"-"}
	// add a later day; add an earlier day; replace an existing record; remove one; mixed
	h = append(h,
		"209912310120991231",                   // add (later than everything)
		"200101010020010101",                   // add (earlier than everything)
		"202001011020200101",                   // replace 2020-01-01 (name/flag changed)
		"20200101~000000000",                   // remove 2020-01-01
		"202001011020200101;20200101~000000000", // replace then remove
		"209912310120991231;209912300120991231", // two adds, second earlier than first
		"20191001~000000000202210010120221001", // remove + replace in one call
		// extended name table (N<k>@ = the built-in names plus k custom ones are passed with that call): name indices 9 and 10
		// (encoded '9' and ':'), then replace and remove such records
		"N2@20210312:120210312",
		"N2@20210312:120210312;202103129020210308",
		"N2@20210312:120210312;202103129020210308;20210312:120210312;20210312~000000000",
		"N3@202103139120210313;20210313~000000000",
	)
	return h
}

func genHoliday() {
	defer HolidayUtil.VerifReset()
	hist := fixHistories()
	lastYear := 2001
	data := HolidayUtil.VerifDataInUse()
	for i := 0; i+18 <= len(data); i += 18 {
		var y int
		fmt.Sscanf(data[i:i+4], "%d", &y)
		if y > lastYear {
			lastYear = y
		}
	}
	for hi, fx := range hist {
		if hi%shardN != shardI {
			continue
		}
		HolidayUtil.VerifReset()
		if fx != "-" {
			ok := true
			for _, dt := range strings.Split(fx, ";") {
				func() {
					defer func() {
						if recover() != nil {
							ok = false
						}
					}()
					var names []string
					if strings.HasPrefix(dt, "N") && strings.Contains(dt, "@") {
						var k int
						fmt.Sscanf(dt[1:strings.Index(dt, "@")], "%d", &k)
						names = append(names, HolidayUtil.NAMES...)
						for j := 1; j <= k; j++ {
							names = append(names, fmt.Sprintf("X%d", j))
						}
						dt = dt[strings.Index(dt, "@")+1:]
					}
					HolidayUtil.Fix(names, dt)
				}()
			}
			if !ok {
				emit("hol.data", fx, "!")
				continue
			}
		}
		emit("hol.data", fx, HolidayUtil.VerifDataInUse())
		y0, y1 := 2001, lastYear+1
		if fx != "-" { // histories: the years they touch plus neighbours
			y0, y1 = 2019, 2023
		}
		targets := map[string]bool{}
		for y := y0; y <= y1; y++ {
			yy := y
			emit("hol.year", fmt.Sprintf("%s %d", fx, y), safe(func() string { return holList(HolidayUtil.GetHolidaysByYear(yy)) }))
			for m := 1; m <= 12; m++ {
				mm := m
				emit("hol.month", fmt.Sprintf("%s %d %d", fx, y, m), safe(func() string { return holList(HolidayUtil.GetHolidaysByYm(yy, mm)) }))
				for d := 1; d <= 31; d++ {
					if !validYmd(y, m, d) {
						continue
					}
					dd := d
					emit("hol.day", fmt.Sprintf("%s %d %d %d", fx, y, m, d), safe(func() string {
						h := HolidayUtil.GetHolidayByYmd(yy, mm, dd)
						if h == nil {
							return "-"
						}
						targets[h.GetTarget()] = true
						return holStr(h)
					}))
					if fx == "-" || d%5 == 0 {
						emit("hol.target", fmt.Sprintf("%s %d %d %d", fx, y, m, d), safe(func() string { return holList(HolidayUtil.GetHolidaysByTargetYmd(yy, mm, dd)) }))
					}
				}
			}
		}
		// extra years for the far-away fix-ups
		for _, y := range []int{2099, 2001} {
			yy := y
			emit("hol.year", fmt.Sprintf("%s %d", fx, y), safe(func() string { return holList(HolidayUtil.GetHolidaysByYear(yy)) }))
			emit("hol.target", fmt.Sprintf("%s %d 12 31", fx, y), safe(func() string { return holList(HolidayUtil.GetHolidaysByTargetYmd(yy, 12, 31)) }))
		}
		// workday stepping
		ns := []int{1, -1, 2, -2, 3, 5, -5, 7, 10, -10, 22, 30, -30, 100, -100, 260, -260, 0}
		for y := 2010; y <= lastYear; y += 3 {
			for _, md := range [][2]int{{1, 1}, {2, 10}, {4, 30}, {5, 1}, {9, 28}, {10, 1}, {10, 8}, {12, 31}} {
				for _, n := range ns {
					s := sol(y, md[0], md[1], 0, 0, 0)
					nn := n
					emit("hol.nextwork", fmt.Sprintf("%s %d %d %d %d", fx, y, md[0], md[1], n), safe(func() string { return solarStr(s.Next(nn, true)) }))
				}
			}
		}
	}
}
