package main

// search-C08: reflection sweep. Every exported zero-argument method of every object reachable from a civil date and its
// lunar date is called (panic = violation) and its result checked for the well-formedness the statement promises:
// index-like ints inside their tables, names from the published vocabularies, always-present strings non-empty,
// lists/slices without duplicate entries.
//
// Also holds the small helpers shared by search_c08..c12/c18 (prefix dq).

import (
	"container/list"
	"fmt"
	"os"
	"reflect"
	"regexp"
	"runtime/pprof"
	"sort"
	"strings"

	"github.com/6tail/lunar-go/HolidayUtil"
	"github.com/6tail/lunar-go/LunarUtil"
	"github.com/6tail/lunar-go/SolarUtil"
	"github.com/6tail/lunar-go/calendar"
)

func init() {
	modes["search-C08"] = searchC08
}

// ---------------------------------------------------------------- shared helpers (dq)

type dqCk struct {
	prop    string
	count   int
	cap     int
	perKind map[string]int
	seen    map[string]bool
	nViol   int
}

func dqNew(prop string, cap int) *dqCk {
	return &dqCk{prop: prop, cap: cap, perKind: map[string]int{}, seen: map[string]bool{}}
}

func (c *dqCk) report(kind, input, obs, exp string) {
	k := kind + "\x00" + input
	if c.seen[k] {
		return
	}
	c.seen[k] = true
	if c.perKind[kind] >= c.cap {
		return
	}
	c.perKind[kind]++
	c.nViol++
	viol(c.prop, kind, input, obs, exp)
}

// chk evaluates one property instance; a panic inside is reported under the same kind
func (c *dqCk) chk(kind, input string, f func() (bool, string, string)) {
	c.count++
	defer func() {
		if r := recover(); r != nil {
			c.report(kind, input, fmt.Sprintf("panic: %v", r), "no panic")
		}
	}()
	if ok, obs, exp := f(); !ok {
		c.report(kind, input, obs, exp)
	}
}

func (c *dqCk) finish(stats map[string]int, samples []string) {
	fmt.Fprintf(out, "COUNT %d\n", c.count)
	var ks []string
	for k := range stats {
		ks = append(ks, k)
	}
	sort.Strings(ks)
	for _, k := range ks {
		fmt.Fprintf(out, "STAT %s=%d\n", k, stats[k])
	}
	for i, s := range samples {
		if i >= 3 {
			break
		}
		fmt.Fprintf(out, "SAMPLE %s\n", s)
	}
}

// dqProf: optional CPU profile (env DQ_PROF=<file>) used while tuning the tier sizes
func dqProf() func() {
	p := os.Getenv("DQ_PROF")
	if p == "" {
		return func() {}
	}
	f, err := os.Create(p)
	if err != nil {
		return func() {}
	}
	pprof.StartCPUProfile(f)
	return func() { pprof.StopCPUProfile(); f.Close() }
}

func dqMod(a, n int) int { return ((a % n) + n) % n }

func dqJdn(y, m, d int) int { return int(SolarUtil.GetJulianDay(y, m, d, 0, 0, 0) + 0.5) }

func dqYmdHms(y, m, d int, t hms) string {
	return fmt.Sprintf("%04d-%02d-%02d %02d:%02d:%02d", y, m, d, t.h, t.mi, t.s)
}

func dqListStrs(l *list.List) []string {
	var p []string
	if l == nil {
		return p
	}
	for e := l.Front(); e != nil; e = e.Next() {
		p = append(p, fmt.Sprint(e.Value))
	}
	return p
}

func dqJoin(l *list.List) string { return strings.Join(dqListStrs(l), ",") }

func dqSet(xs ...string) map[string]bool {
	m := map[string]bool{}
	for _, x := range xs {
		m[x] = true
	}
	return m
}

func dqVals(m map[string]string) map[string]bool {
	r := map[string]bool{}
	for _, v := range m {
		r[v] = true
	}
	return r
}

var dqGan = []string{"甲", "乙", "丙", "丁", "戊", "己", "庚", "辛", "壬", "癸"}
var dqZhi = []string{"子", "丑", "寅", "卯", "辰", "巳", "午", "未", "申", "酉", "戌", "亥"}

// dqPillar: i-th pillar of the sexagenary cycle from the two independent cycles
func dqPillar(i int) string { i = dqMod(i, 60); return dqGan[i%10] + dqZhi[i%12] }

// dqPillarIndex: inverse of dqPillar (-1 when s is not a pillar)
func dqPillarIndex(s string) int {
	for i := 0; i < 60; i++ {
		if dqPillar(i) == s {
			return i
		}
	}
	return -1
}

// ---------------------------------------------------------------- C08

type c08Rule struct {
	lo, hi    int // int range (when hasRange)
	hasRange  bool
	notZero   bool
	vocab     map[string]bool // allowed values for a string result / for every string element
	vocabName string
	check     func(string) bool // alternative to vocab
	nonEmpty  bool              // string (or every string element) must be non-empty
}

type c08W struct {
	ck      *dqCk
	methods map[string]int
	rules   map[string]*c08Rule
	in      string
	objects int
	calls   int
}

var (
	c08ReGan = regexp.MustCompile(`^Get(Year|Month|Day|Time)?Gan(Exact2?|ByLiChun)?$`)
	c08ReZhi = regexp.MustCompile(`^Get(Year|Month|Day|Time)?Zhi(Exact2?|ByLiChun)?$`)
)

var c08V struct {
	gan, zhi, jiaZi, shengXiao, zhiXing, tianShen, xiu, pos, posDesc, changSheng, shiShen, naYin, wuHou, liuYao, yueXiang,
	season, xun, xunKong, jieQi, jieQiOrEmpty, huangHei, jiXiong, sha, pengZuGan, pengZuZhi, week, xingZuo, dayCn, taiDay, taiMonthOrEmpty,
	xiuSong, zheng, animal, gong, shou, fuName, shuJiuName map[string]bool
}

func c08InitVocab() {
	v := &c08V
	v.gan = dqSet(LunarUtil.GAN[1:]...)
	v.zhi = dqSet(LunarUtil.ZHI[1:]...)
	v.jiaZi = dqSet(LunarUtil.JIA_ZI...)
	v.shengXiao = dqSet(LunarUtil.SHENG_XIAO[1:]...)
	v.zhiXing = dqSet(LunarUtil.ZHI_XING[1:]...)
	v.tianShen = dqSet(LunarUtil.TIAN_SHEN[1:]...)
	v.xiu = dqVals(LunarUtil.XIU)
	v.pos = map[string]bool{}
	for k := range LunarUtil.POSITION_DESC {
		v.pos[k] = true
	}
	v.posDesc = dqVals(LunarUtil.POSITION_DESC)
	v.changSheng = dqSet(calendar.CHANG_SHENG...)
	v.shiShen = dqVals(LunarUtil.SHI_SHEN)
	v.shiShen["日主"] = true
	v.naYin = dqVals(LunarUtil.NAYIN)
	v.wuHou = dqSet(LunarUtil.WU_HOU...)
	v.liuYao = dqSet(LunarUtil.LIU_YAO...)
	v.yueXiang = dqSet(LunarUtil.YUE_XIANG[1:]...)
	v.season = dqSet(LunarUtil.SEASON[1:]...)
	v.xun = dqSet(LunarUtil.XUN...)
	v.xunKong = dqSet(LunarUtil.XUN_KONG...)
	v.jieQi = dqSet(calendar.JIE_QI...)
	v.jieQiOrEmpty = dqSet(calendar.JIE_QI...)
	v.jieQiOrEmpty[""] = true
	v.huangHei = dqVals(LunarUtil.TIAN_SHEN_TYPE)
	v.jiXiong = dqVals(LunarUtil.TIAN_SHEN_TYPE_LUCK)
	v.sha = dqVals(LunarUtil.SHA)
	v.pengZuGan = dqSet(LunarUtil.PENGZU_GAN[1:]...)
	v.pengZuZhi = dqSet(LunarUtil.PENGZU_ZHI[1:]...)
	v.week = dqSet(SolarUtil.WEEK...)
	v.xingZuo = dqSet(SolarUtil.XINGZUO...)
	v.dayCn = dqSet(LunarUtil.DAY[1:]...)
	v.taiDay = dqSet(LunarUtil.POSITION_TAI_DAY...)
	v.taiMonthOrEmpty = dqSet(LunarUtil.POSITION_TAI_MONTH...)
	v.taiMonthOrEmpty[""] = true
	v.xiuSong = dqVals(LunarUtil.XIU_SONG)
	v.zheng = dqVals(LunarUtil.ZHENG)
	v.animal = dqVals(LunarUtil.ANIMAL)
	v.gong = dqVals(LunarUtil.GONG)
	v.shou = dqVals(LunarUtil.SHOU)
	v.fuName = dqSet("初伏", "中伏", "末伏")
	v.shuJiuName = map[string]bool{}
	for i := 1; i <= 9; i++ {
		v.shuJiuName[LunarUtil.NUMBER[i]+"九"] = true
	}
}

func c08WuXingOK(s string) bool {
	r := []rune(s)
	if len(r) != 2 {
		return false
	}
	for _, c := range r {
		if !strings.ContainsRune("金木水火土", c) {
			return false
		}
	}
	return true
}

func c08MonthCnOK(s string) bool {
	s = strings.TrimPrefix(s, "闰")
	for _, m := range LunarUtil.MONTH[1:] {
		if s == m {
			return true
		}
	}
	return false
}

func c08HouOK(s string) bool {
	p := strings.Split(s, " ")
	if len(p) != 2 || !c08V.jieQi[p[0]] {
		return false
	}
	for _, h := range LunarUtil.HOU {
		if p[1] == h {
			return true
		}
	}
	return false
}

func c08ChongDescOK(s string) bool {
	r := []rune(s)
	return len(r) == 5 && r[0] == '(' && r[3] == ')' && c08V.gan[string(r[1])] && c08V.zhi[string(r[2])] && c08V.shengXiao[string(r[4])]
}

// strings that may legitimately be empty (not promised by the statement)
var c08MayBeEmpty = map[string]bool{
	"Lunar.GetJieQi": true, "Lunar.GetJie": true, "Lunar.GetQi": true, "Lunar.GetMonthPositionTai": true,
	"DaYun.GetGanZhi": true, "DaYun.GetXun": true, "DaYun.GetXunKong": true,
	"NineStar.GetBaMenInQiMen": true,
	"TaoFestival.GetRemark":    true, "FotoFestival.GetResult": true, "FotoFestival.GetRemark": true,
}

func c08Vocab(name string, m map[string]bool) *c08Rule {
	return &c08Rule{vocab: m, vocabName: name, nonEmpty: !m[""]}
}

func c08NineStarTable(mn string) []string {
	switch mn {
	case "GetNumber":
		return calendar.NUMBER
	case "GetColor":
		return calendar.COLOR
	case "GetWuXing":
		return calendar.WU_XING
	case "GetPosition":
		return calendar.POSITION
	case "GetNameInXuanKong":
		return calendar.NAME_XUAN_KONG
	case "GetNameInBeiDou":
		return calendar.NAME_BEI_DOU
	case "GetNameInQiMen":
		return calendar.NAME_QI_MEN
	case "GetNameInTaiYi":
		return calendar.NAME_TAI_YI
	case "GetLuckInQiMen":
		return calendar.LUCK_QI_MEN
	case "GetLuckInXuanKong":
		return calendar.LUCK_XUAN_KONG
	case "GetYinYangInQiMen":
		return calendar.YIN_YANG_QI_MEN
	case "GetTypeInTaiYi":
		return calendar.TYPE_TAI_YI
	case "GetBaMenInQiMen":
		return calendar.BA_MEN_QI_MEN
	case "GetSongInTaiYi":
		return calendar.SONG_TAI_YI
	}
	return nil
}

// c08StringRule: rule for a string result (or string elements of a list/array result) of Type.Method
func c08StringRule(tn, mn string) *c08Rule {
	v := &c08V
	full := tn + "." + mn
	has := func(s string) bool { return strings.Contains(mn, s) }
	if tn == "NineStar" {
		if mn == "GetPositionDesc" {
			return c08Vocab("POSITION_DESC values", v.posDesc)
		}
		if t := c08NineStarTable(mn); t != nil {
			return c08Vocab("NineStar table of "+mn, dqSet(t...))
		}
		return &c08Rule{nonEmpty: true}
	}
	switch {
	case mn == "GetDayPositionTai":
		return c08Vocab("POSITION_TAI_DAY", v.taiDay)
	case mn == "GetMonthPositionTai":
		return c08Vocab("POSITION_TAI_MONTH or empty", v.taiMonthOrEmpty)
	case has("Position") && strings.Contains(mn, "Desc"):
		return c08Vocab("POSITION_DESC values", v.posDesc)
	case has("Position"):
		return c08Vocab("POSITION_DESC keys", v.pos)
	case has("NaYin"):
		return c08Vocab("NAYIN values", v.naYin)
	case has("XunKong"):
		if c08MayBeEmpty[full] {
			m := dqSet(LunarUtil.XUN_KONG...)
			m[""] = true
			return c08Vocab("XUN_KONG or empty", m)
		}
		return c08Vocab("XUN_KONG", v.xunKong)
	case has("Xun"):
		if c08MayBeEmpty[full] {
			m := dqSet(LunarUtil.XUN...)
			m[""] = true
			return c08Vocab("XUN or empty", m)
		}
		return c08Vocab("XUN", v.xun)
	case has("ShengXiao") || mn == "GetShengxiao":
		return c08Vocab("SHENG_XIAO", v.shengXiao)
	case has("TianShenType"):
		return c08Vocab("TIAN_SHEN_TYPE values", v.huangHei)
	case has("TianShenLuck"):
		return c08Vocab("TIAN_SHEN_TYPE_LUCK values", v.jiXiong)
	case has("TianShen"):
		return c08Vocab("TIAN_SHEN", v.tianShen)
	case mn == "GetZhiXing":
		return c08Vocab("ZHI_XING", v.zhiXing)
	case mn == "GetXiu" && tn == "Lunar":
		return c08Vocab("XIU values", v.xiu)
	case mn == "GetXiu":
		return c08Vocab("XIU_LUCK keys", func() map[string]bool {
			m := map[string]bool{}
			for k := range LunarUtil.XIU_LUCK {
				m[k] = true
			}
			return m
		}())
	case mn == "GetXiuLuck":
		return c08Vocab("XIU_LUCK values", dqVals(LunarUtil.XIU_LUCK))
	case mn == "GetXiuSong":
		return c08Vocab("XIU_SONG values", v.xiuSong)
	case mn == "GetZheng":
		return c08Vocab("ZHENG values", v.zheng)
	case mn == "GetAnimal":
		return c08Vocab("ANIMAL values", v.animal)
	case mn == "GetGong":
		return c08Vocab("GONG values", v.gong)
	case mn == "GetShou":
		return c08Vocab("SHOU values", v.shou)
	case has("DiShi"):
		return c08Vocab("CHANG_SHENG", v.changSheng)
	case has("ShiShen"):
		return c08Vocab("SHI_SHEN values", v.shiShen)
	case has("WuXing"):
		return &c08Rule{check: c08WuXingOK, vocabName: "two of 金木水火土", nonEmpty: true}
	case has("HideGan"):
		return c08Vocab("GAN", v.gan)
	case has("ChongDesc"):
		return &c08Rule{check: c08ChongDescOK, vocabName: "(<GAN><ZHI>)<SHENG_XIAO>", nonEmpty: true}
	case has("ChongGan"):
		return c08Vocab("GAN", v.gan)
	case has("Chong"):
		return c08Vocab("ZHI", v.zhi)
	case strings.HasSuffix(mn, "Sha") && mn != "GetDayXiongSha":
		return c08Vocab("SHA values", v.sha)
	case mn == "GetPengZuGan":
		return c08Vocab("PENGZU_GAN", v.pengZuGan)
	case mn == "GetPengZuZhi":
		return c08Vocab("PENGZU_ZHI", v.pengZuZhi)
	case has("InGanZhi") || strings.HasSuffix(mn, "GanZhi") || mn == "GetBaZi" ||
		(tn == "EightChar" && (mn == "GetYear" || mn == "GetMonth" || mn == "GetDay" || mn == "GetTime" || mn == "GetTaiYuan" || mn == "GetTaiXi" || mn == "GetMingGong" || mn == "GetShenGong")):
		if c08MayBeEmpty[full] {
			m := dqSet(LunarUtil.JIA_ZI...)
			m[""] = true
			return c08Vocab("JIA_ZI or empty", m)
		}
		return c08Vocab("JIA_ZI", v.jiaZi)
	case tn == "LunarTime" && (mn == "String" || mn == "ToString"):
		return c08Vocab("JIA_ZI", v.jiaZi)
	case c08ReGan.MatchString(mn):
		return c08Vocab("GAN", v.gan)
	case c08ReZhi.MatchString(mn):
		return c08Vocab("ZHI", v.zhi)
	case mn == "GetWuHou":
		return c08Vocab("WU_HOU", v.wuHou)
	case mn == "GetHou":
		return &c08Rule{check: c08HouOK, vocabName: "<JIE_QI> <HOU>", nonEmpty: true}
	case mn == "GetLiuYao":
		return c08Vocab("LIU_YAO", v.liuYao)
	case mn == "GetYueXiang":
		return c08Vocab("YUE_XIANG", v.yueXiang)
	case mn == "GetSeason":
		return c08Vocab("SEASON", v.season)
	case tn == "Lunar" && (mn == "GetJieQi" || mn == "GetJie" || mn == "GetQi"):
		return c08Vocab("JIE_QI or empty", v.jieQiOrEmpty)
	case tn == "JieQi" && (mn == "GetName" || mn == "String"):
		return c08Vocab("JIE_QI", v.jieQi)
	case mn == "GetWeekInChinese":
		return c08Vocab("SolarUtil.WEEK", v.week)
	case mn == "GetXingZuo" || mn == "GetXingzuo":
		return c08Vocab("SolarUtil.XINGZUO", v.xingZuo)
	case mn == "GetDayInChinese":
		return c08Vocab("DAY", v.dayCn)
	case mn == "GetMonthInChinese":
		return &c08Rule{check: c08MonthCnOK, vocabName: "[闰]MONTH", nonEmpty: true}
	case tn == "Fu" && (mn == "GetName" || mn == "String" || mn == "ToString"):
		return c08Vocab("初伏/中伏/末伏", v.fuName)
	case tn == "ShuJiu" && (mn == "GetName" || mn == "String" || mn == "ToString"):
		return c08Vocab("一九..九九", v.shuJiuName)
	case tn == "LunarYear" && mn == "GetYuan":
		return c08Vocab("YUAN+元", dqSet(calendar.YUAN[0]+"元", calendar.YUAN[1]+"元", calendar.YUAN[2]+"元"))
	case tn == "LunarYear" && mn == "GetYun":
		m := map[string]bool{}
		for _, x := range calendar.YUN {
			m[x+"运"] = true
		}
		return c08Vocab("YUN+运", m)
	}
	if c08MayBeEmpty[full] {
		return &c08Rule{}
	}
	return &c08Rule{nonEmpty: true}
}

func c08IntRule(tn, mn string) *c08Rule {
	rg := func(lo, hi int) *c08Rule { return &c08Rule{lo: lo, hi: hi, hasRange: true} }
	switch {
	case strings.Contains(mn, "GanIndex"):
		return rg(0, 9)
	case strings.Contains(mn, "ZhiIndex"):
		return rg(0, 11)
	case mn == "GetWeek":
		return rg(0, 6)
	case mn == "GetHour":
		return rg(0, 23)
	case mn == "GetMinute" || mn == "GetSecond":
		return rg(0, 59)
	}
	switch tn + "." + mn {
	case "NineStar.GetIndex":
		return rg(0, 8)
	case "Solar.GetMonth", "SolarWeek.GetMonth", "SolarMonth.GetMonth", "SolarSeason.GetMonth", "SolarHalfYear.GetMonth":
		return rg(1, 12)
	case "Solar.GetDay", "SolarWeek.GetDay":
		return rg(1, 31)
	case "Lunar.GetMonth", "Tao.GetMonth", "Foto.GetMonth", "LunarMonth.GetMonth":
		r := rg(-12, 12)
		r.notZero = true
		return r
	case "Lunar.GetDay", "Tao.GetDay", "Foto.GetDay":
		return rg(1, 30)
	case "LunarYear.GetLeapMonth":
		return rg(0, 12)
	case "LunarMonth.GetIndex":
		return rg(1, 15)
	case "SolarWeek.GetIndex":
		return rg(1, 6)
	case "SolarWeek.GetIndexInYear":
		return rg(1, 54)
	case "SolarSeason.GetIndex":
		return rg(1, 4)
	case "SolarHalfYear.GetIndex":
		return rg(1, 2)
	case "DaYun.GetIndex":
		return rg(0, 9)
	case "LiuYue.GetIndex":
		return rg(0, 11)
	case "LiuNian.GetIndex", "XiaoYun.GetIndex":
		return rg(0, 200)
	case "Fu.GetIndex":
		return rg(1, 20)
	case "ShuJiu.GetIndex":
		return rg(1, 9)
	case "EightChar.GetSect":
		return rg(1, 2)
	case "Yun.GetGender":
		return rg(0, 1)
	case "Solar.GetSalaryRate":
		return rg(1, 3)
	}
	return nil
}

// c08EntryKey: identity of a list entry for the duplicate check
func c08EntryKey(v reflect.Value) string {
	for v.Kind() == reflect.Interface {
		if v.IsNil() {
			return "nil"
		}
		v = v.Elem()
	}
	switch v.Kind() {
	case reflect.String:
		return "s:" + v.String()
	case reflect.Ptr:
		if v.IsNil() {
			return "nil"
		}
		x := v.Interface()
		tn := v.Type().Elem().Name()
		switch o := x.(type) {
		case *calendar.Solar:
			return tn + ":" + o.ToYmdHms()
		case *calendar.DaYun:
			return fmt.Sprintf("%s:%d", tn, o.GetIndex())
		case *calendar.LiuNian:
			return fmt.Sprintf("%s:%d", tn, o.GetIndex())
		case *calendar.LiuYue:
			return fmt.Sprintf("%s:%d", tn, o.GetIndex())
		case *calendar.XiaoYun:
			return fmt.Sprintf("%s:%d", tn, o.GetIndex())
		case *calendar.LunarTime:
			return fmt.Sprintf("%s:%s:%s", tn, o.GetGanZhi(), o.GetMinHm())
		}
		if f, ok := x.(interface{ ToFullString() string }); ok {
			return tn + ":" + f.ToFullString()
		}
		if f, ok := x.(fmt.Stringer); ok {
			return tn + ":" + f.String()
		}
		return fmt.Sprintf("%s:%p", tn, x)
	}
	return fmt.Sprintf("%v", v.Interface())
}

func (w *c08W) ruleFor(tn, mn string, rt reflect.Type) *c08Rule {
	full := tn + "." + mn
	if r, ok := w.rules[full]; ok {
		return r
	}
	var r *c08Rule
	switch rt.Kind() {
	case reflect.Int:
		r = c08IntRule(tn, mn)
	case reflect.String:
		r = c08StringRule(tn, mn)
	case reflect.Slice, reflect.Array:
		if rt.Elem().Kind() == reflect.String {
			r = c08StringRule(tn, mn)
		}
	case reflect.Ptr:
		if rt == reflect.TypeOf((*list.List)(nil)) {
			r = c08StringRule(tn, mn) // applied to string elements only
			if strings.Contains(mn, "Festival") || strings.HasSuffix(mn, "Yi") || strings.HasSuffix(mn, "Ji") || strings.HasSuffix(mn, "JiShen") || strings.HasSuffix(mn, "XiongSha") || mn == "GetJieQiList" {
				r = &c08Rule{nonEmpty: true}
			}
		}
	}
	w.rules[full] = r
	return r
}

func (w *c08W) checkString(full, path, s string, r *c08Rule, elem string) {
	if r == nil {
		return
	}
	if r.nonEmpty && s == "" {
		w.ck.report("empty:"+full, w.in+" "+path, "empty string"+elem, "non-empty")
		return
	}
	if r.vocab != nil && !r.vocab[s] {
		w.ck.report("vocab:"+full, w.in+" "+path, fmt.Sprintf("%q%s", s, elem), "member of "+r.vocabName)
	} else if r.check != nil && !r.check(s) {
		w.ck.report("vocab:"+full, w.in+" "+path, fmt.Sprintf("%q%s", s, elem), r.vocabName)
	}
}

func (w *c08W) call(m reflect.Value, full, path string) (res []reflect.Value, ok bool) {
	defer func() {
		if r := recover(); r != nil {
			w.ck.report("panic:"+full, w.in+" "+path, fmt.Sprintf("panic: %v", r), "no panic")
			ok = false
		}
	}()
	return m.Call(nil), true
}

var c08ListType = reflect.TypeOf((*list.List)(nil))

// visit calls every exported zero-argument method of obj and checks the results
func (w *c08W) visit(obj interface{}, path string) {
	v := reflect.ValueOf(obj)
	if !v.IsValid() || v.Kind() != reflect.Ptr || v.IsNil() {
		return
	}
	w.objects++
	t := v.Type()
	tn := t.Elem().Name()
	for i := 0; i < t.NumMethod(); i++ {
		mt := t.Method(i)
		if mt.Type.NumIn() != 1 { // receiver only
			continue
		}
		full := tn + "." + mt.Name
		w.methods[full]++
		w.ck.count++
		w.calls++
		res, ok := w.call(v.Method(i), full, path)
		if !ok || len(res) == 0 {
			continue
		}
		rv := res[0]
		r := w.ruleFor(tn, mt.Name, rv.Type())
		switch rv.Kind() {
		case reflect.Int:
			if r != nil && r.hasRange {
				n := int(rv.Int())
				if n < r.lo || n > r.hi || (r.notZero && n == 0) {
					w.ck.report("index-range:"+full, w.in+" "+path, fmt.Sprint(n), fmt.Sprintf("%d..%d", r.lo, r.hi))
				}
			}
		case reflect.String:
			w.checkString(full, path, rv.String(), r, "")
		case reflect.Slice, reflect.Array:
			seen := map[string]int{}
			for k := 0; k < rv.Len(); k++ {
				e := rv.Index(k)
				if e.Kind() == reflect.String {
					w.checkString(full, path, e.String(), r, fmt.Sprintf(" at [%d]", k))
				}
				if e.Kind() == reflect.Ptr && e.IsNil() {
					w.ck.report("nil-entry:"+full, w.in+" "+path, fmt.Sprintf("nil at [%d]", k), "object")
				}
				if rv.Kind() == reflect.Slice {
					key := c08EntryKey(e)
					if j, dup := seen[key]; dup {
						w.ck.report("duplicate:"+full, w.dupInput(obj, full, path), fmt.Sprintf("[%d] and [%d] both %s (%s %s)", j, k, key, w.in, path), "no duplicate entries")
					}
					seen[key] = k
				}
			}
		case reflect.Ptr:
			if rv.Type() == c08ListType && !rv.IsNil() {
				l := rv.Interface().(*list.List)
				seen := map[string]int{}
				k := 0
				for e := l.Front(); e != nil; e = e.Next() {
					if s, isStr := e.Value.(string); isStr {
						w.checkString(full, path, s, r, fmt.Sprintf(" at [%d]", k))
					}
					key := c08EntryKey(reflect.ValueOf(e.Value))
					if j, dup := seen[key]; dup {
						w.ck.report("duplicate:"+full, w.dupInput(obj, full, path), fmt.Sprintf("[%d] and [%d] both %s (%s %s)", j, k, key, w.in, path), "no duplicate entries")
					}
					seen[key] = k
					k++
				}
			}
		}
	}
}

// try runs f (which reaches objects through parameterised API calls) and reports a panic under the given path
func (w *c08W) try(path string, f func()) {
	defer func() {
		if r := recover(); r != nil {
			w.ck.report("panic:reach "+c08Generic(path), w.in+" "+path, fmt.Sprintf("panic: %v", r), "no panic")
		}
	}()
	f()
}

var c08ReNum = regexp.MustCompile(`\d+`)

func c08Generic(path string) string { return c08ReNum.ReplaceAllString(path, "#") }

// shallow: the objects every moment visits
func (w *c08W) shallow(s *calendar.Solar, l *calendar.Lunar) {
	w.visit(s, "solar")
	w.visit(l, "lunar")
	w.try("lunar.GetEightChar()", func() {
		e := l.GetEightChar()
		for _, sect := range []int{1, 2} {
			e.SetSect(sect)
			w.visit(e, fmt.Sprintf("lunar.GetEightChar()[sect=%d]", sect))
		}
		e.SetSect(2)
	})
	w.try("lunar.GetTime()", func() { w.visit(l.GetTime(), "lunar.GetTime()") })
	for sect := 1; sect <= 3; sect++ {
		sect := sect
		w.try(fmt.Sprintf("lunar.GetYearNineStarBySect(%d)", sect), func() {
			w.visit(l.GetYearNineStarBySect(sect), fmt.Sprintf("lunar.GetYearNineStarBySect(%d)", sect))
		})
		w.try(fmt.Sprintf("lunar.GetMonthNineStarBySect(%d)", sect), func() {
			w.visit(l.GetMonthNineStarBySect(sect), fmt.Sprintf("lunar.GetMonthNineStarBySect(%d)", sect))
		})
	}
	w.try("lunar.GetDayNineStar()", func() { w.visit(l.GetDayNineStar(), "lunar.GetDayNineStar()") })
	w.try("lunar.GetTimeNineStar()", func() { w.visit(l.GetTimeNineStar(), "lunar.GetTimeNineStar()") })
	w.try("lunar.GetTao()", func() {
		t := l.GetTao()
		w.visit(t, "lunar.GetTao()")
		k := 0
		for e := t.GetFestivals().Front(); e != nil; e = e.Next() {
			w.visit(e.Value, fmt.Sprintf("lunar.GetTao().GetFestivals()[%d]", k))
			k++
		}
	})
	w.try("lunar.GetFoto()", func() {
		f := l.GetFoto()
		w.visit(f, "lunar.GetFoto()")
		k := 0
		for e := f.GetFestivals().Front(); e != nil; e = e.Next() {
			w.visit(e.Value, fmt.Sprintf("lunar.GetFoto().GetFestivals()[%d]", k))
			k++
		}
	})
	for _, wd := range []bool{false, true} {
		wd := wd
		w.try(fmt.Sprintf("lunar.Get*JieQiByWholeDay(%v)", wd), func() {
			w.visit(l.GetPrevJieByWholeDay(wd), fmt.Sprintf("lunar.GetPrevJieByWholeDay(%v)", wd))
			w.visit(l.GetNextJieByWholeDay(wd), fmt.Sprintf("lunar.GetNextJieByWholeDay(%v)", wd))
			w.visit(l.GetPrevQiByWholeDay(wd), fmt.Sprintf("lunar.GetPrevQiByWholeDay(%v)", wd))
			w.visit(l.GetNextQiByWholeDay(wd), fmt.Sprintf("lunar.GetNextQiByWholeDay(%v)", wd))
			w.visit(l.GetPrevJieQiByWholeDay(wd), fmt.Sprintf("lunar.GetPrevJieQiByWholeDay(%v)", wd))
			w.visit(l.GetNextJieQiByWholeDay(wd), fmt.Sprintf("lunar.GetNextJieQiByWholeDay(%v)", wd))
		})
	}
	w.try("lunar.GetCurrent*()", func() {
		w.visit(l.GetCurrentJieQi(), "lunar.GetCurrentJieQi()")
		w.visit(l.GetCurrentJie(), "lunar.GetCurrentJie()")
		w.visit(l.GetCurrentQi(), "lunar.GetCurrentQi()")
	})
	w.try("lunar.GetShuJiu()", func() { w.visit(l.GetShuJiu(), "lunar.GetShuJiu()") })
	w.try("lunar.GetFu()", func() { w.visit(l.GetFu(), "lunar.GetFu()") })
	w.try("HolidayUtil.GetHolidayByYmd", func() {
		w.visit(HolidayUtil.GetHolidayByYmd(s.GetYear(), s.GetMonth(), s.GetDay()), "HolidayUtil.GetHolidayByYmd(y,m,d)")
	})
}

// dupInput: the violation key of a duplicate entry. For the table-driven almanac lists it is the table row (their defining
// inputs), so that one defective row gives one finding whatever date exhibits it; otherwise the moment and the path.
func (w *c08W) dupInput(obj interface{}, full, path string) (in string) {
	in = w.in + " " + path
	defer func() { recover() }()
	switch o := obj.(type) {
	case *calendar.Lunar:
		m := o.GetMonth()
		if m < 0 {
			m = -m
		}
		switch full {
		case "Lunar.GetDayJiShen", "Lunar.GetDayXiongSha":
			return fmt.Sprintf("lunarMonth=%d day=%s", m, o.GetDayInGanZhi())
		case "Lunar.GetDayYi", "Lunar.GetDayJi":
			return fmt.Sprintf("month=%s day=%s", o.GetMonthInGanZhi(), o.GetDayInGanZhi())
		case "Lunar.GetTimeYi", "Lunar.GetTimeJi":
			return fmt.Sprintf("day=%s time=%s", o.GetDayInGanZhiExact(), o.GetTimeInGanZhi())
		case "Lunar.GetFestivals", "Lunar.GetOtherFestivals":
			return fmt.Sprintf("lunar %d-%d-%d", o.GetYear(), o.GetMonth(), o.GetDay())
		}
	case *calendar.Solar:
		if full == "Solar.GetFestivals" || full == "Solar.GetOtherFestivals" {
			return o.ToYmd()
		}
	}
	return in
}

func c08Pick(n int) []int {
	var ix []int
	for _, k := range []int{0, 1, n - 1} {
		if k >= 0 && k < n && (len(ix) == 0 || ix[len(ix)-1] < k) {
			ix = append(ix, k)
		}
	}
	return ix
}

// yunTree: fortune objects for both genders and both schools; every Yun and all of its DaYun are visited, the
// LiuNian/XiaoYun/LiuYue below them for one (gender, school) combination per call (rotating with turn)
func (w *c08W) yunTree(l *calendar.Lunar, ecSect int, turn int) {
	combo := 0
	for _, gender := range []int{1, 0} {
		for _, sect := range []int{1, 2} {
			p := fmt.Sprintf("lunar.GetEightChar()[sect=%d].GetYunBySect(%d,%d)", ecSect, gender, sect)
			gender, sect := gender, sect
			children := combo == turn%4
			combo++
			w.try(p, func() {
				e := l.GetEightChar()
				e.SetSect(ecSect)
				defer e.SetSect(2)
				yun := e.GetYunBySect(gender, sect)
				w.visit(yun, p)
				for i, dy := range yun.GetDaYun() {
					pd := fmt.Sprintf("%s.GetDaYun()[%d]", p, i)
					w.visit(dy, pd)
					if !children {
						continue
					}
					lns := dy.GetLiuNian()
					for _, k := range c08Pick(len(lns)) {
						pl := fmt.Sprintf("%s.GetLiuNian()[%d]", pd, k)
						w.visit(lns[k], pl)
						lys := lns[k].GetLiuYue()
						if k == 0 {
							for q := range lys {
								if q == 0 || q == len(lys)-1 || i == (turn/4)%10 {
									w.visit(lys[q], fmt.Sprintf("%s.GetLiuYue()[%d]", pl, q))
								}
							}
						}
					}
					xys := dy.GetXiaoYun()
					for _, k := range c08Pick(len(xys)) {
						w.visit(xys[k], fmt.Sprintf("%s.GetXiaoYun()[%d]", pd, k))
					}
				}
			})
		}
	}
}

// deep: the remaining reachable objects (visited on a subset of the moments)
func (w *c08W) deep(s *calendar.Solar, l *calendar.Lunar, turn int) {
	w.yunTree(l, 1+turn%2, turn)
	w.try("lunar.GetTimes()", func() {
		for i, t := range l.GetTimes() {
			w.visit(t, fmt.Sprintf("lunar.GetTimes()[%d]", i))
		}
	})
	w.try("NewLunarYear(lunar.GetYear())", func() {
		ly := calendar.NewLunarYear(l.GetYear())
		w.visit(ly, "NewLunarYear(lunar.GetYear())")
		w.visit(ly.GetMonth(l.GetMonth()), "NewLunarYear(lunar.GetYear()).GetMonth(lunar.GetMonth())")
		k := 0
		for e := ly.GetMonths().Front(); e != nil; e = e.Next() {
			w.visit(e.Value, fmt.Sprintf("NewLunarYear(lunar.GetYear()).GetMonths()[%d]", k))
			k++
		}
	})
	y, m, d := s.GetYear(), s.GetMonth(), s.GetDay()
	for start := 0; start < 7; start++ {
		start := start
		p := fmt.Sprintf("NewSolarWeekFromYmd(y,m,d,%d)", start)
		w.try(p, func() { w.visit(calendar.NewSolarWeekFromYmd(y, m, d, start), p) })
	}
	w.try("NewSolarMonthFromYm(y,m)", func() { w.visit(calendar.NewSolarMonthFromYm(y, m), "NewSolarMonthFromYm(y,m)") })
	w.try("NewSolarSeasonFromYm(y,m)", func() { w.visit(calendar.NewSolarSeasonFromYm(y, m), "NewSolarSeasonFromYm(y,m)") })
	w.try("NewSolarHalfYearFromYm(y,m)", func() { w.visit(calendar.NewSolarHalfYearFromYm(y, m), "NewSolarHalfYearFromYm(y,m)") })
	w.try("NewSolarYearFromYear(y)", func() { w.visit(calendar.NewSolarYearFromYear(y), "NewSolarYearFromYear(y)") })
}

// listsOnly: the list-valued day accessors (cheap), used by the directed sweep over the almanac table rows
func (w *c08W) listsOnly(s *calendar.Solar, l *calendar.Lunar) {
	call := func(obj interface{}, tn string, names ...string) {
		v := reflect.ValueOf(obj)
		for _, n := range names {
			m := v.MethodByName(n)
			if !m.IsValid() {
				continue
			}
			full := tn + "." + n
			w.ck.count++
			res, ok := w.call(m, full, tn)
			if !ok || len(res) == 0 || res[0].IsNil() {
				continue
			}
			lst := res[0].Interface().(*list.List)
			seen := map[string]int{}
			k := 0
			for e := lst.Front(); e != nil; e = e.Next() {
				key := c08EntryKey(reflect.ValueOf(e.Value))
				if j, dup := seen[key]; dup {
					w.ck.report("duplicate:"+full, w.dupInput(obj, full, strings.ToLower(tn)), fmt.Sprintf("[%d] and [%d] both %s (%s %s)", j, k, key, w.in, strings.ToLower(tn)), "no duplicate entries")
				}
				if s, isStr := e.Value.(string); isStr && s == "" {
					w.ck.report("empty:"+full, w.in+" "+strings.ToLower(tn), fmt.Sprintf("empty string at [%d]", k), "non-empty")
				}
				seen[key] = k
				k++
			}
		}
	}
	call(l, "Lunar", "GetDayYi", "GetDayJi", "GetDayJiShen", "GetDayXiongSha", "GetTimeYi", "GetTimeJi", "GetFestivals", "GetOtherFestivals")
	call(s, "Solar", "GetFestivals", "GetOtherFestivals")
	call(l.GetTao(), "Tao", "GetFestivals")
	call(l.GetFoto(), "Foto", "GetFestivals", "GetOtherFestivals")
}

func searchC08() {
	defer dqProf()()
	c08InitVocab()
	w := &c08W{ck: dqNew("C08", 4), methods: map[string]int{}, rules: map[string]*c08Rule{}}
	moments, deepMoments, rowDays := 0, 0, 0
	var samples []string
	stride, deepEvery, nRandom, rowYears := 5, 8, 10, 60
	if tier == "thorough" {
		stride, deepEvery, rowYears = 8, 24, 420
	}
	turn := 0
	for _, y := range sweepYears(nRandom) {
		days := daysOfYearList(y)
		phase := rng.Intn(stride)
		for i, dd := range days {
			y, m, d := dd.y, dd.m, dd.d
			var l0 *calendar.Lunar
			w.in = dqYmdHms(y, m, d, hms{0, 0, 0})
			w.try("NewSolar(y,m,d,0,0,0).GetLunar()", func() { l0 = sol(y, m, d, 0, 0, 0).GetLunar() })
			if l0 == nil {
				continue
			}
			ts := timesFor(l0, y, m, d, 1) // [boundary time, random time, term instant, -1 s, +1 s ...]
			hasTerm := len(ts) > 2
			edge := i < 2 || i >= len(days)-2
			if !(i%stride == phase || hasTerm || edge) {
				continue
			}
			if hasTerm && tier == "thorough" {
				ts = []hms{ts[2], ts[3+rng.Intn(len(ts)-3)]} // the term instant and one of its neighbouring seconds
			} else if hasTerm {
				ts = ts[1:]
			} else {
				k := rng.Intn(2)
				ts = ts[k : k+1]
			}
			for j, t := range ts {
				w.in = dqYmdHms(y, m, d, t)
				var s *calendar.Solar
				var l *calendar.Lunar
				w.try("NewSolar(y,m,d,h,mi,s).GetLunar()", func() {
					s = sol(y, m, d, t.h, t.mi, t.s)
					l = s.GetLunar()
				})
				if l == nil {
					continue
				}
				moments++
				w.shallow(s, l)
				if moments%deepEvery == 0 || (edge && j == 0) || (hasTerm && j == 1 && tier != "thorough" && rng.Intn(6) == 0) {
					deepMoments++
					turn++
					w.deep(s, l, turn)
					if len(samples) < 3 && rng.Intn(20) == 0 {
						samples = append(samples, fmt.Sprintf("%s deep sweep no. %d, %d objects so far", w.in, deepMoments, w.objects))
					}
				}
			}
		}
	}
	// directed sweep over the rows of the packed almanac tables: every day of a window of consecutive years at two times
	for y := 1990 + shardI; y < 1990+rowYears; y += shardN {
		for _, dd := range daysOfYearList(y) {
			for _, t := range []hms{{rng.Intn(23), 30, 0}, {23, 30, 0}} {
				w.in = dqYmdHms(dd.y, dd.m, dd.d, t)
				t := t
				w.try("lists", func() {
					s := sol(dd.y, dd.m, dd.d, t.h, t.mi, t.s)
					w.listsOnly(s, s.GetLunar())
				})
			}
			rowDays++
		}
	}
	// directed: fortune objects of births in October 1560..1582 — their start moment (birth + years + months + days + hours) can land
	// in October 1582, whose days 5..14 do not exist; and of 29 February births (start in a non-leap year)
	gapBirths := 0
	for y := 1560 + shardI; y <= 1582; y += shardN {
		for d := 1; d <= 20; d++ {
			if !validYmd(y, 10, d) {
				continue
			}
			dd := d
			w.in = dqYmdHms(y, 10, dd, hms{12, 0, 0})
			w.try("yun-start-in-october-1582", func() {
				l := sol(y, 10, dd, 12, 0, 0).GetLunar()
				w.yunTree(l, 1, 0)
				w.yunTree(l, 2, 1)
			})
			gapBirths++
		}
	}
	for y := 1904 + 4*shardI; y <= 2024; y += 4 * shardN {
		yy := y
		w.in = dqYmdHms(yy, 2, 29, hms{12, 0, 0})
		w.try("yun-leap-day-birth", func() {
			l := sol(yy, 2, 29, 12, 0, 0).GetLunar()
			w.yunTree(l, 1, 0)
			w.yunTree(l, 2, 1)
		})
		gapBirths++
	}
	st := map[string]int{"methods": len(w.methods), "moments": moments, "deep_moments": deepMoments, "objects": w.objects, "calls": w.calls, "row_sweep_days": rowDays, "directed_fortune_births": gapBirths}
	types := map[string]bool{}
	for k := range w.methods {
		types[k[:strings.Index(k, ".")]] = true
	}
	st["types"] = len(types)
	if os.Getenv("DQ_C08_RULES") != "" {
		var ks []string
		for k := range w.methods {
			ks = append(ks, k)
		}
		sort.Strings(ks)
		for _, k := range ks {
			d := "-"
			if r := w.rules[k]; r != nil {
				d = fmt.Sprintf("range=%v[%d,%d] vocab=%s nonEmpty=%v", r.hasRange, r.lo, r.hi, r.vocabName, r.nonEmpty)
			}
			fmt.Fprintf(out, "#RULE %s %s\n", k, d)
		}
	}
	w.ck.finish(st, samples)
}
