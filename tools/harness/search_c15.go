package main

import (
	"container/list"
	"fmt"
	"sort"
	"strings"

	"github.com/6tail/lunar-go/SolarUtil"
	"github.com/6tail/lunar-go/calendar"
)

func init() {
	modes["search-C15"] = searchC15
}

// ---- independent civil calendar of the harness (Julian before 1582-10-15, Gregorian from then on) ----

func c15Jdn(y, m, d int) int {
	a := (14 - m) / 12
	yy := y + 4800 - a
	mm := m + 12*a - 3
	if y > 1582 || (y == 1582 && (m > 10 || (m == 10 && d >= 15))) {
		return d + (153*mm+2)/5 + 365*yy + yy/4 - yy/100 + yy/400 - 32045
	}
	return d + (153*mm+2)/5 + 365*yy + yy/4 - 32083
}

func c15FromJdn(j int) (int, int, int) {
	f := j + 1401
	if j >= 2299161 {
		f += (((4*j+274277)/146097)*3)/4 - 38
	}
	e := 4*f + 3
	g := (e % 1461) / 4
	h := 5*g + 2
	d := (h%153)/5 + 1
	m := (h/153+2)%12 + 1
	y := e/1461 - 4716 + (12+2-m)/12
	return y, m, d
}

// 0 = Sunday .. 6 = Saturday
func c15Wd(j int) int { return (j + 1) % 7 }

func c15MonthFirst(y, m int) int { return c15Jdn(y, m, 1) }

// JDN of the last day of month (y, m)
func c15MonthLast(y, m int) int {
	if m == 12 {
		return c15Jdn(y+1, 1, 1) - 1
	}
	return c15Jdn(y, m+1, 1) - 1
}

// first day (JDN) of the week containing j when weeks begin on weekday start
func c15WeekFirst(j, start int) int { return j - ((c15Wd(j)-start)%7+7)%7 }

// number of week starts passed: 1 + #{days in (from, j] whose weekday is start}
func c15Index(from, j, start int) int {
	n := 1
	for q := from + 1; q <= j; q++ {
		if c15Wd(q) == start {
			n++
		}
	}
	return n
}

// number of distinct weeks meeting month (y, m)
func c15WeeksOfMonth(y, m, start int) int {
	return c15Index(c15MonthFirst(y, m), c15MonthLast(y, m), start)
}

func c15Ymd(j int) string {
	y, m, d := c15FromJdn(j)
	return fmt.Sprintf("%04d-%02d-%02d", y, m, d)
}

func c15SolarList(l *list.List) []string {
	var p []string
	if l == nil {
		return p
	}
	for e := l.Front(); e != nil; e = e.Next() {
		s, ok := e.Value.(*calendar.Solar)
		if !ok {
			p = append(p, fmt.Sprintf("<%T>", e.Value))
			continue
		}
		p = append(p, s.ToYmd())
	}
	return p
}

func c15MonthList(l *list.List) []string {
	var p []string
	if l == nil {
		return p
	}
	for e := l.Front(); e != nil; e = e.Next() {
		s, ok := e.Value.(*calendar.SolarMonth)
		if !ok {
			p = append(p, fmt.Sprintf("<%T>", e.Value))
			continue
		}
		p = append(p, fmt.Sprintf("%d-%d", s.GetYear(), s.GetMonth()))
	}
	return p
}

func c15Range(from, n int) []string {
	var p []string
	for i := 0; i < n; i++ {
		p = append(p, c15Ymd(from+i))
	}
	return p
}

func c15Eq(a, b []string) bool {
	if len(a) != len(b) {
		return false
	}
	for i := range a {
		if a[i] != b[i] {
			return false
		}
	}
	return true
}

func c15J(p []string) string {
	if len(p) == 0 {
		return "-"
	}
	return strings.Join(p, ",")
}

// absolute month number and back
func c15Mi(y, m int) int { return y*12 + (m - 1) }
func c15Ym(mi int) (int, int) {
	return mi / 12, mi%12 + 1
}

const c15Oct1582 = 1582*12 + 9

func searchC15() {
	count := 0
	seen := map[string]bool{}
	perKind := map[string]int{}
	chk := func(kind string, input string, f func() (bool, string, string)) {
		count++
		rep := func(obs, exp string) {
			k := kind + "\x00" + input
			if seen[k] {
				return
			}
			seen[k] = true
			perKind[kind]++
			if perKind[kind] <= 20 {
				viol("C15", kind, input, obs, exp)
			}
		}
		defer func() {
			if r := recover(); r != nil {
				rep(fmt.Sprintf("panic: %v", r), "no panic")
			}
		}()
		if ok, obs, exp := f(); !ok {
			rep(obs, exp)
		}
	}
	// kind suffix for inputs that involve October 1582 (21 days: 1-4, 15-31)
	tag := func(kind string, miLo, miHi int) string {
		if miLo > miHi {
			miLo, miHi = miHi, miLo
		}
		// one month of margin: stepping back into week 1 of November 1582 consults October
		if miLo-1 <= c15Oct1582 && c15Oct1582 <= miHi+1 {
			return kind + "-1582-10"
		}
		return kind
	}
	smallN := []int{1, -1, 2, -2, 3, -3, 4, -4, 5, -5, 6, -6}
	bigN := []int{7, -7, 9, -9, 13, -13, 26, -26, 52, -52, 53, -53, 54, -54, 105, -105}
	// expected position after n steps of the month-separated walk from (mi, idx)
	walk := func(mi, idx, start, n int) (int, int) {
		for n > 0 {
			y, m := c15Ym(mi)
			if idx < c15WeeksOfMonth(y, m, start) {
				idx++
			} else {
				mi++
				idx = 1
			}
			n--
		}
		for n < 0 {
			if idx > 1 {
				idx--
			} else {
				mi--
				y, m := c15Ym(mi)
				if y < 1 {
					return mi, 0
				}
				idx = c15WeeksOfMonth(y, m, start)
			}
			n++
		}
		return mi, idx
	}
	inRange := func(mi int) bool { return mi >= c15Mi(1, 1) && mi <= c15Mi(9998, 12) }
	nWeekChecks, nWalks, nOct1582 := 0, 0, 0
	samples := 0

	years := sweepYears(60)
	// visit 1582 and its neighbours first so that the capped reports show the smallest inputs
	pri := func(y int) int {
		switch y {
		case 1582:
			return 0
		case 1583:
			return 1
		case 1581:
			return 2
		}
		return 3
	}
	sort.SliceStable(years, func(a, b int) bool { return pri(years[a]) < pri(years[b]) })
	// every check on the weeks of the days jFrom..jTo of year y; fixedNs (if given) replaces the random step counts
	sweepDays := func(y, jFrom, jTo int, fixedNs []int) {
		jan1 := c15Jdn(y, 1, 1)
		for j := jFrom; j <= jTo; j++ {
			yy, m, d := c15FromJdn(j)
			if yy != y {
				continue // cannot happen
			}
			mi := c15Mi(y, m)
			if mi == c15Oct1582 && fixedNs == nil {
				nOct1582++
			}
			m1 := c15MonthFirst(y, m)
			mLast := c15MonthLast(y, m)
			for start := 0; start < 7; start++ {
				start := start
				in := fmt.Sprintf("%04d-%02d-%02d start=%d", y, m, d, start)
				w := calendar.NewSolarWeekFromYmd(y, m, d, start)
				f := c15WeekFirst(j, start)
				nWeekChecks++
				chk("week-first-day", in, func() (bool, string, string) {
					r := w.GetFirstDay().ToYmd()
					return r == c15Ymd(f), r, c15Ymd(f)
				})
				chk("week-days", in, func() (bool, string, string) {
					got := c15SolarList(w.GetDays())
					exp := c15Range(f, 7)
					return c15Eq(got, exp), c15J(got), c15J(exp)
				})
				// the days of the week lying in the date's month
				lo, hi := f, f+6
				if lo < m1 {
					lo = m1
				}
				if hi > mLast {
					hi = mLast
				}
				chk("week-days-in-month", in, func() (bool, string, string) {
					got := c15SolarList(w.GetDaysInMonth())
					exp := c15Range(lo, hi-lo+1)
					return c15Eq(got, exp), c15J(got), c15J(exp)
				})
				chk("week-first-day-in-month", in, func() (bool, string, string) {
					r := w.GetFirstDayInMonth()
					if r == nil {
						return false, "nil", c15Ymd(lo)
					}
					return r.ToYmd() == c15Ymd(lo), r.ToYmd(), c15Ymd(lo)
				})
				idx := c15Index(m1, j, start)
				chk(tag("week-index", mi, mi), in, func() (bool, string, string) {
					r := w.GetIndex()
					return r == idx, fmt.Sprint(r), fmt.Sprintf("%d (1 + week starts in %s..%s after the 1st)", idx, c15Ymd(m1), c15Ymd(j))
				})
				idxY := c15Index(jan1, j, start)
				chk("week-index-in-year", in, func() (bool, string, string) {
					r := w.GetIndexInYear()
					return r == idxY, fmt.Sprint(r), fmt.Sprint(idxY)
				})
				// stepping: two small step counts always, a big one now and then
				ns := []int{0, smallN[rng.Intn(len(smallN))], smallN[rng.Intn(len(smallN))]}
				if rng.Intn(7) == 0 {
					ns = append(ns, bigN[rng.Intn(len(bigN))])
				}
				if rng.Intn(40) == 0 {
					ns = append(ns, rng.Intn(241)-120)
				}
				if fixedNs != nil {
					ns = fixedNs
				} else if y == 1582 && m >= 9 && m <= 11 {
					ns = append([]int{0}, smallN...) // every small step around the 1582 reform
				}
				for _, n := range ns {
					n := n
					inN := fmt.Sprintf("%s n=%d", in, n)
					// whole weeks: +7n days, and back
					if ty, _, _ := c15FromJdn(j + 7*n); ty >= 1 && ty <= 9998 {
						tmi := c15Mi(c15FromJdn2(j + 7*n))
						chk(tag("week-next-7n-days", mi, tmi), inN, func() (bool, string, string) {
							r := w.Next(n, false)
							got := fmt.Sprintf("%04d-%02d-%02d", r.GetYear(), r.GetMonth(), r.GetDay())
							return got == c15Ymd(j+7*n), got, c15Ymd(j + 7*n)
						})
						chk(tag("week-roundtrip", mi, tmi), inN, func() (bool, string, string) {
							r := w.Next(n, false).Next(-n, false)
							rj := c15Jdn(r.GetYear(), r.GetMonth(), r.GetDay())
							return c15WeekFirst(rj, start) == f, fmt.Sprintf("week of %s", c15Ymd(rj)), fmt.Sprintf("week of %s", c15Ymd(j))
						})
					}
					// month-separated weeks: one position of (month, week 1..k), (next month, week 1..k') per step
					emi, eidx := walk(mi, idx, start, n)
					if !inRange(emi) || eidx == 0 {
						continue
					}
					nWalks++
					ey, em := c15Ym(emi)
					expS := fmt.Sprintf("%d-%d week %d", ey, em, eidx)
					if samples < 3 && n > 3 && start == 3 {
						samples++
						fmt.Fprintf(out, "SAMPLE walk %s sep => %s\n", inN, expS)
					}
					unit := func(r *calendar.SolarWeek) (string, bool) {
						ry, rm, rd := r.GetYear(), r.GetMonth(), r.GetDay()
						if rm < 1 || rm > 12 || rd < 1 || c15Ymd(c15Jdn(ry, rm, rd)) != fmt.Sprintf("%04d-%02d-%02d", ry, rm, rd) {
							return fmt.Sprintf("%d-%d-%d (not a date)", ry, rm, rd), false
						}
						ri := c15Index(c15MonthFirst(ry, rm), c15Jdn(ry, rm, rd), start)
						return fmt.Sprintf("%d-%d week %d", ry, rm, ri), true
					}
					var fwd *calendar.SolarWeek
					chk(tag("week-walk", mi, emi), inN+" sep", func() (bool, string, string) {
						fwd = w.Next(n, true)
						u, _ := unit(fwd)
						return u == expS, u + fmt.Sprintf(" (date %04d-%02d-%02d)", fwd.GetYear(), fwd.GetMonth(), fwd.GetDay()), expS
					})
					chk(tag("week-walk-roundtrip", mi, emi), inN+" sep", func() (bool, string, string) {
						if fwd == nil {
							return true, "", "" // the forward step already failed
						}
						r := fwd.Next(-n, true)
						u, _ := unit(r)
						me := fmt.Sprintf("%d-%d week %d", y, m, idx)
						return u == me, u + fmt.Sprintf(" (date %04d-%02d-%02d)", r.GetYear(), r.GetMonth(), r.GetDay()), me
					})
				}
			}
		}
	}
	// smallest inputs around the October 1582 reform first (the reports are capped per kind)
	for _, y := range years {
		if y == 1582 {
			sweepDays(1582, c15Jdn(1582, 9, 24), c15Jdn(1582, 11, 7), []int{1, -1})
			sweepDays(1582, c15Jdn(1582, 9, 24), c15Jdn(1582, 11, 7), []int{2, -2, 3, -3})
		}
	}
	for _, y := range years {
		sweepDays(y, c15Jdn(y, 1, 1), c15Jdn(y, 12, 31), nil)
		// per month
		for m := 1; m <= 12; m++ {
			m := m
			mi := c15Mi(y, m)
			m1 := c15MonthFirst(y, m)
			mLast := c15MonthLast(y, m)
			inM := fmt.Sprintf("%04d-%02d", y, m)
			sm := calendar.NewSolarMonthFromYm(y, m)
			chk("month-days", inM, func() (bool, string, string) {
				got := c15SolarList(sm.GetDays())
				exp := c15Range(m1, mLast-m1+1)
				return c15Eq(got, exp), c15J(got), c15J(exp)
			})
			for start := 0; start < 7; start++ {
				start := start
				in := fmt.Sprintf("%s start=%d", inM, start)
				var exp []string
				for f := c15WeekFirst(m1, start); f <= mLast; f += 7 {
					exp = append(exp, c15Ymd(f))
				}
				listLen := -1
				chk("month-weeks", in, func() (bool, string, string) {
					l := sm.GetWeeks(start)
					var got []string
					for e := l.Front(); e != nil; e = e.Next() {
						wk, ok := e.Value.(*calendar.SolarWeek)
						if !ok {
							got = append(got, fmt.Sprintf("<%T>", e.Value))
							continue
						}
						// a week is identified by its seven days: first day, and the date it was built from lies in it
						fd := wk.GetFirstDay()
						wj := c15Jdn(wk.GetYear(), wk.GetMonth(), wk.GetDay())
						fj := c15Jdn(fd.GetYear(), fd.GetMonth(), fd.GetDay())
						if c15WeekFirst(wj, start) != fj {
							got = append(got, fd.ToYmd()+"(first day of another week than that of "+c15Ymd(wj)+")")
							continue
						}
						got = append(got, fd.ToYmd())
					}
					listLen = len(got)
					return c15Eq(got, exp), "weeks starting " + c15J(got), "weeks starting " + c15J(exp)
				})
				chk("month-weeks-count", in, func() (bool, string, string) {
					r := SolarUtil.GetWeeksOfMonth(y, m, start)
					if listLen >= 0 && r != listLen {
						return false, fmt.Sprintf("GetWeeksOfMonth %d", r), fmt.Sprintf("%d = length of GetWeeks", listLen)
					}
					return r == len(exp), fmt.Sprintf("GetWeeksOfMonth %d", r), fmt.Sprint(len(exp))
				})
			}
			// containing season / half-year / year
			chk("season-months", inM, func() (bool, string, string) {
				got := c15MonthList(calendar.NewSolarSeasonFromYm(y, m).GetMonths())
				q := (m - 1) / 3
				exp := []string{fmt.Sprintf("%d-%d", y, 3*q+1), fmt.Sprintf("%d-%d", y, 3*q+2), fmt.Sprintf("%d-%d", y, 3*q+3)}
				return c15Eq(got, exp), c15J(got), c15J(exp)
			})
			chk("halfyear-months", inM, func() (bool, string, string) {
				got := c15MonthList(calendar.NewSolarHalfYearFromYm(y, m).GetMonths())
				q := (m - 1) / 6
				var exp []string
				for i := 1; i <= 6; i++ {
					exp = append(exp, fmt.Sprintf("%d-%d", y, 6*q+i))
				}
				return c15Eq(got, exp), c15J(got), c15J(exp)
			})
			if m == 1 {
				chk("year-months", fmt.Sprint(y), func() (bool, string, string) {
					got := c15MonthList(calendar.NewSolarYearFromYear(y).GetMonths())
					var exp []string
					for i := 1; i <= 12; i++ {
						exp = append(exp, fmt.Sprintf("%d-%d", y, i))
					}
					return c15Eq(got, exp), c15J(got), c15J(exp)
				})
			}
			// forward then back
			ns := []int{0, 1, -1, 11, -11, 12, -12, 13, -13, rng.Intn(61) - 30, rng.Intn(2401) - 1200, rng.Intn(200001) - 100000}
			for _, n := range ns {
				n := n
				inN := fmt.Sprintf("%s n=%d", inM, n)
				if inRange(mi + n) {
					chk("month-roundtrip", inN, func() (bool, string, string) {
						r := sm.Next(n).Next(-n)
						return r.GetYear() == y && r.GetMonth() == m, fmt.Sprintf("%d-%d", r.GetYear(), r.GetMonth()), fmt.Sprintf("%d-%d", y, m)
					})
				}
				if n > -30000 && n < 30000 && inRange(mi+3*n) {
					chk("season-roundtrip", inN, func() (bool, string, string) {
						r := calendar.NewSolarSeasonFromYm(y, m).Next(n).Next(-n)
						ok := r.GetYear() == y && r.GetMonth() >= 1 && r.GetMonth() <= 12 && (r.GetMonth()-1)/3 == (m-1)/3
						return ok, fmt.Sprintf("%d month %d", r.GetYear(), r.GetMonth()), fmt.Sprintf("%d season %d", y, (m-1)/3+1)
					})
				}
				if n > -15000 && n < 15000 && inRange(mi+6*n) {
					chk("halfyear-roundtrip", inN, func() (bool, string, string) {
						r := calendar.NewSolarHalfYearFromYm(y, m).Next(n).Next(-n)
						ok := r.GetYear() == y && r.GetMonth() >= 1 && r.GetMonth() <= 12 && (r.GetMonth()-1)/6 == (m-1)/6
						return ok, fmt.Sprintf("%d month %d", r.GetYear(), r.GetMonth()), fmt.Sprintf("%d half %d", y, (m-1)/6+1)
					})
				}
				if m == 1 && y+n >= 1 && y+n <= 9998 {
					chk("year-roundtrip", fmt.Sprintf("%d n=%d", y, n), func() (bool, string, string) {
						r := calendar.NewSolarYearFromYear(y).Next(n).Next(-n)
						return r.GetYear() == y, fmt.Sprint(r.GetYear()), fmt.Sprint(y)
					})
				}
			}
		}
	}
	fmt.Fprintf(out, "COUNT %d\n", count)
	fmt.Fprintf(out, "STAT years=%d\n", len(years))
	fmt.Fprintf(out, "STAT weekChecks=%d\n", nWeekChecks)
	fmt.Fprintf(out, "STAT walks=%d\n", nWalks)
	fmt.Fprintf(out, "STAT daysInOct1582=%d\n", nOct1582)
}

func c15FromJdn2(j int) (int, int) {
	y, m, _ := c15FromJdn(j)
	return y, m
}
