package main

// search-C17: Taoist / Buddhist dates are the lunar date with a fixed year offset (2697 / 544) and round-trip;
// the day-class predicates depend only on (lunar month, lunar day, day pillar, the day's solar term
// [, month length for the six fasting days]) and equal their definitions.

import (
	"fmt"
	"strings"

	"github.com/6tail/lunar-go/FotoUtil"
	"github.com/6tail/lunar-go/TaoUtil"
	"github.com/6tail/lunar-go/calendar"
)

func init() {
	modes["search-C17"] = searchC17
}

type c17Ck struct {
	count int
	seen  map[string]int
}

func (c *c17Ck) report(kind, input, obs, exp string) {
	c.seen[kind]++
	if c.seen[kind] <= 20 {
		viol("C17", kind, input, obs, exp)
	}
}

func (c *c17Ck) chk(kind, input string, f func() (bool, string, string)) {
	c.count++
	defer func() {
		if r := recover(); r != nil {
			c.report(kind, input, fmt.Sprintf("panic: %v", r), "no panic")
		}
	}()
	if ok, obs, exp := f(); !ok {
		c.report(kind, input, obs, exp)
	}
}

var c17PredNames = []string{"Foto.IsMonthZhai", "Foto.IsDayZhaiShuoWang", "Foto.IsDayZhaiSix", "Foto.IsDayZhaiTen", "Foto.IsDayZhaiGuanYin", "Foto.IsDayYangGong",
	"Tao.IsDaySanHui", "Tao.IsDaySanYuan", "Tao.IsDayWuLa", "Tao.IsDayBaJie", "Tao.IsDayBaHui", "Tao.IsDayMingWu", "Tao.IsDayAnWu", "Tao.IsDayWu"}

const c17IdxSix = 2

func c17Preds(f *calendar.Foto, t *calendar.Tao) []bool {
	return []bool{f.IsMonthZhai(), f.IsDayZhaiShuoWang(), f.IsDayZhaiSix(), f.IsDayZhaiTen(), f.IsDayZhaiGuanYin(), f.IsDayYangGong(),
		t.IsDaySanHui(), t.IsDaySanYuan(), t.IsDayWuLa(), t.IsDayBaJie(), t.IsDayBaHui(), t.IsDayMingWu(), t.IsDayAnWu(), t.IsDayWu()}
}

func c17In(list []string, k string) bool {
	for _, v := range list {
		if v == k {
			return true
		}
	}
	return false
}

func c17IntIn(list []int, k int) bool {
	for _, v := range list {
		if v == k {
			return true
		}
	}
	return false
}

var c17Gan = []string{"甲", "乙", "丙", "丁", "戊", "己", "庚", "辛", "壬", "癸"}
var c17Zhi = []string{"子", "丑", "寅", "卯", "辰", "巳", "午", "未", "申", "酉", "戌", "亥"}

// c17Def: the predicate vector from the definitions. ok[i]=false where the definition leaves the value open
// (leap months, for the predicates keyed by a month number: the tables only list ordinary months).
func c17Def(lm, ld, gan, zhi int, term string, monthLen int) (want []bool, ok []bool) {
	am := lm
	if am < 0 {
		am = -am
	}
	key := fmt.Sprintf("%d-%d", am, ld)
	plain := lm > 0
	yang := false
	for _, f := range FotoUtil.FESTIVAL[key] {
		if len(f) > 0 && f[0] == "杨公忌" {
			yang = true
		}
	}
	_, baJie := TaoUtil.BA_JIE[term]
	_, baHui := TaoUtil.BA_HUI[c17Gan[gan]+c17Zhi[zhi]]
	mingWu := gan == 4
	anWu := am >= 1 && am <= 12 && c17Zhi[zhi] == TaoUtil.AN_WU[am-1]
	six := c17IntIn([]int{8, 14, 15, 23, 29, 30}, ld) || (ld == 28 && monthLen != 30)
	want = []bool{
		am == 1 || am == 5 || am == 9,
		ld == 1 || ld == 15,
		six,
		c17IntIn([]int{1, 8, 14, 15, 18, 23, 24, 28, 29, 30}, ld),
		c17In(FotoUtil.DAY_ZHAI_GUAN_YIN, key),
		yang,
		c17In(TaoUtil.SAN_HUI, key),
		c17In(TaoUtil.SAN_YUAN, key),
		c17In(TaoUtil.WU_LA, key),
		baJie,
		baHui,
		mingWu,
		anWu,
		mingWu || anWu,
	}
	//            MonthZhai ShuoWang Six   Ten   GuanYin YangGong SanHui SanYuan WuLa  BaJie BaHui MingWu AnWu  Wu
	ok = []bool{plain, true, true, true, plain, plain, plain, plain, plain, true, true, true, plain, plain}
	return
}

func c17Vec(v []bool) string {
	var sb strings.Builder
	for _, b := range v {
		sb.WriteString(b2s(b))
	}
	return sb.String()
}

type c17Key struct {
	lm, ld, gan, zhi int
	term             string
}

type c17Seen struct {
	vec   string
	first string
}

func searchC17() {
	ck := &c17Ck{seen: map[string]int{}}
	// predicate vector (all but ZhaiSix) per (month, day, pillar, term); ZhaiSix additionally per month length
	seen := map[c17Key]c17Seen{}
	type k6 struct {
		k   c17Key
		len int
	}
	seen6 := map[k6]c17Seen{}
	var nLeapDays, nAhead, nBehind, nTermDays, nTrue int
	var samples []string

	for _, y := range sweepYears(100) {
		// month lengths of the lunar years met in this civil year
		monthLen := map[[2]int]int{}
		for _, ly := range []int{y - 1, y + 1, y} {
			func() {
				defer func() { recover() }()
				for e := calendar.NewLunarYear(ly).GetMonthsInYear().Front(); e != nil; e = e.Next() {
					m := e.Value.(*calendar.LunarMonth)
					monthLen[[2]int{ly, m.GetMonth()}] = m.GetDayCount()
				}
			}()
		}
		for _, dd := range daysOfYearList(y) {
			y, m, d := dd.y, dd.m, dd.d
			times := []hms{dayTimes()[rng.Intn(len(dayTimes()))], {23, 30, 0}}
			if rng.Intn(2) == 0 {
				times[0] = randTime()
			}
			if rng.Intn(4) == 0 {
				times[1] = hms{23, rng.Intn(60), rng.Intn(60)}
			}
			var term0 string
			for ti, t := range times {
				t := t
				s := sol(y, m, d, t.h, t.mi, t.s)
				in := solarStr(s)
				var l *calendar.Lunar
				var tao *calendar.Tao
				var foto *calendar.Foto
				ck.chk("year-offset", in, func() (bool, string, string) {
					l = s.GetLunar()
					tao, foto = l.GetTao(), l.GetFoto()
					if tao.GetYear() != l.GetYear()+2697 || tao.GetMonth() != l.GetMonth() || tao.GetDay() != l.GetDay() {
						return false, fmt.Sprintf("Tao %d/%d/%d", tao.GetYear(), tao.GetMonth(), tao.GetDay()), fmt.Sprintf("%d/%d/%d (lunar %d/%d/%d, year + 2697)", l.GetYear()+2697, l.GetMonth(), l.GetDay(), l.GetYear(), l.GetMonth(), l.GetDay())
					}
					if foto.GetYear() != l.GetYear()+544 || foto.GetMonth() != l.GetMonth() || foto.GetDay() != l.GetDay() {
						return false, fmt.Sprintf("Foto %d/%d/%d", foto.GetYear(), foto.GetMonth(), foto.GetDay()), fmt.Sprintf("%d/%d/%d (lunar %d/%d/%d, year + 544)", l.GetYear()+544, l.GetMonth(), l.GetDay(), l.GetYear(), l.GetMonth(), l.GetDay())
					}
					return true, "", ""
				})
				if l == nil || tao == nil || foto == nil {
					continue
				}
				if ti == 0 {
					if l.GetMonth() < 0 {
						nLeapDays++
					}
					if l.GetYear() > y {
						nAhead++
					} else if l.GetYear() < y {
						nBehind++
					}
				}
				ly, lm, ld := l.GetYear(), l.GetMonth(), l.GetDay()
				// constructing from the numbers gives the same moment as the lunar date and converts back
				ck.chk("tao-roundtrip", fmt.Sprintf("NewTao(%d,%d,%d,%d,%d,%d)", ly+2697, lm, ld, t.h, t.mi, t.s), func() (bool, string, string) {
					o := calendar.NewTao(ly+2697, lm, ld, t.h, t.mi, t.s)
					if o.GetYear() != ly+2697 || o.GetMonth() != lm || o.GetDay() != ld {
						return false, fmt.Sprintf("reads back %d/%d/%d", o.GetYear(), o.GetMonth(), o.GetDay()), "the numbers given"
					}
					ol := o.GetLunar()
					if !eqSolar(ol.GetSolar(), s) {
						return false, "moment " + solarStr(ol.GetSolar()), in
					}
					if ol.GetYear() != ly || ol.GetMonth() != lm || ol.GetDay() != ld || ol.GetHour() != t.h || ol.GetMinute() != t.mi || ol.GetSecond() != t.s {
						return false, fmt.Sprintf("lunar %d/%d/%d %d:%d:%d", ol.GetYear(), ol.GetMonth(), ol.GetDay(), ol.GetHour(), ol.GetMinute(), ol.GetSecond()), fmt.Sprintf("lunar %d/%d/%d at the given time", ly, lm, ld)
					}
					b := ol.GetSolar().GetLunar().GetTao()
					if b.GetYear() != ly+2697 || b.GetMonth() != lm || b.GetDay() != ld {
						return false, fmt.Sprintf("via the civil date: %d/%d/%d", b.GetYear(), b.GetMonth(), b.GetDay()), "the numbers given"
					}
					return true, "", ""
				})
				ck.chk("foto-roundtrip", fmt.Sprintf("NewFoto(%d,%d,%d,%d,%d,%d)", ly+544, lm, ld, t.h, t.mi, t.s), func() (bool, string, string) {
					o := calendar.NewFoto(ly+544, lm, ld, t.h, t.mi, t.s)
					if o.GetYear() != ly+544 || o.GetMonth() != lm || o.GetDay() != ld {
						return false, fmt.Sprintf("reads back %d/%d/%d", o.GetYear(), o.GetMonth(), o.GetDay()), "the numbers given"
					}
					ol := o.GetLunar()
					if !eqSolar(ol.GetSolar(), s) {
						return false, "moment " + solarStr(ol.GetSolar()), in
					}
					if ol.GetYear() != ly || ol.GetMonth() != lm || ol.GetDay() != ld || ol.GetHour() != t.h || ol.GetMinute() != t.mi || ol.GetSecond() != t.s {
						return false, fmt.Sprintf("lunar %d/%d/%d %d:%d:%d", ol.GetYear(), ol.GetMonth(), ol.GetDay(), ol.GetHour(), ol.GetMinute(), ol.GetSecond()), fmt.Sprintf("lunar %d/%d/%d at the given time", ly, lm, ld)
					}
					b := ol.GetSolar().GetLunar().GetFoto()
					if b.GetYear() != ly+544 || b.GetMonth() != lm || b.GetDay() != ld {
						return false, fmt.Sprintf("via the civil date: %d/%d/%d", b.GetYear(), b.GetMonth(), b.GetDay()), "the numbers given"
					}
					return true, "", ""
				})
				if ti == 0 && (t.h+t.mi+t.s)%5 == 0 {
					ck.chk("ymd-constructors", fmt.Sprintf("NewTaoFromYmd(%d,%d,%d)/NewFotoFromYmd(%d,%d,%d)", ly+2697, lm, ld, ly+544, lm, ld), func() (bool, string, string) {
						a := calendar.NewTaoFromYmd(ly+2697, lm, ld)
						b := calendar.NewFotoFromYmd(ly+544, lm, ld)
						e := sol(y, m, d, 0, 0, 0)
						if !eqSolar(a.GetLunar().GetSolar(), e) || a.GetYear() != ly+2697 || a.GetMonth() != lm || a.GetDay() != ld {
							return false, fmt.Sprintf("Tao %d/%d/%d at %s", a.GetYear(), a.GetMonth(), a.GetDay(), solarStr(a.GetLunar().GetSolar())), solarStr(e)
						}
						if !eqSolar(b.GetLunar().GetSolar(), e) || b.GetYear() != ly+544 || b.GetMonth() != lm || b.GetDay() != ld {
							return false, fmt.Sprintf("Foto %d/%d/%d at %s", b.GetYear(), b.GetMonth(), b.GetDay(), solarStr(b.GetLunar().GetSolar())), solarStr(e)
						}
						return true, "", ""
					})
				}

				// day-class predicates
				gan, zhi := l.GetDayGanIndex(), l.GetDayZhiIndex()
				term := l.GetJieQi()
				if ti == 0 {
					term0 = term
					if term != "" {
						nTermDays++
					}
				}
				ml, haveLen := monthLen[[2]int{ly, lm}]
				var vec []bool
				ck.chk("predicates-total", in, func() (bool, string, string) {
					vec = c17Preds(foto, tao)
					return true, "", ""
				})
				if vec == nil {
					continue
				}
				for _, b := range vec {
					if b {
						nTrue++
					}
				}
				// call history: the day classes read the lunar day pillar, not the eight-character object of the same lunar date —
				// selecting the other day-boundary school (sect 1: the day pillar of the eight characters advances at 23:00) on that
				// shared object changes none of them (late-evening probe only: the one window in which the two schools differ)
				if ti == 1 {
					ck.chk("predicate-depends-on-eightchar-school", in+" after GetEightChar().SetSect(1)", func() (bool, string, string) {
						ec := l.GetEightChar()
						old := ec.GetSect()
						ec.SetSect(1)
						v2 := c17Preds(foto, tao)
						ec.SetSect(old)
						if c17Vec(v2) != c17Vec(vec) {
							return false, c17Vec(v2), c17Vec(vec) + " (before the setter call; order: " + strings.Join(c17PredNames, ",") + ")"
						}
						return true, "", ""
					})
				}
				k := c17Key{lm, ld, gan, zhi, term0}
				where := fmt.Sprintf("%s (lunar %d/%d/%d)", in, ly, lm, ld)
				// function of (month, day, pillar, term): same inputs on any other day / time of day -> same values
				ck.chk("predicate-not-function-of-inputs", fmt.Sprintf("month %d day %d pillar %s%s term %q", lm, ld, c17Gan[gan], c17Zhi[zhi], term0), func() (bool, string, string) {
					rest := append(append([]bool{}, vec[:c17IdxSix]...), vec[c17IdxSix+1:]...)
					v := c17Vec(rest)
					if p, ok := seen[k]; ok {
						if p.vec != v {
							return false, fmt.Sprintf("%s gives %s", where, v), fmt.Sprintf("%s gave %s (order: %s)", p.first, p.vec, strings.Join(append(append([]string{}, c17PredNames[:c17IdxSix]...), c17PredNames[c17IdxSix+1:]...), ","))
						}
					} else {
						seen[k] = c17Seen{v, where}
					}
					if haveLen {
						kk := k6{k, ml}
						v6 := b2s(vec[c17IdxSix])
						if p, ok := seen6[kk]; ok {
							if p.vec != v6 {
								return false, fmt.Sprintf("IsDayZhaiSix: %s gives %s", where, v6), fmt.Sprintf("%s gave %s (same month, day, pillar, term and month length %d)", p.first, p.vec, ml)
							}
						} else {
							seen6[kk] = c17Seen{v6, where}
						}
					}
					return true, "", ""
				})
				// each predicate equals its definition
				if haveLen {
					want, defined := c17Def(lm, ld, gan, zhi, term0, ml)
					for i := range vec {
						if !defined[i] || vec[i] == want[i] {
							ck.count++
							continue
						}
						i := i
						ck.chk("predicate-definition", fmt.Sprintf("%s %s", c17PredNames[i], where), func() (bool, string, string) {
							return false, fmt.Sprint(vec[i]), fmt.Sprintf("%v from the definition (pillar %s%s, term %q, month length %d)", want[i], c17Gan[gan], c17Zhi[zhi], term0, ml)
						})
					}
				}
				if len(samples) < 3 && ti == 0 && ((lm < 0 && ld == 15) || (len(samples) == 1 && term != "" && vec[9]) || (len(samples) == 2 && vec[5])) {
					samples = append(samples, fmt.Sprintf("%s lunar %d/%d/%d pillar %s%s term %q preds %s", in, ly, lm, ld, c17Gan[gan], c17Zhi[zhi], term, c17Vec(vec)))
				}
			}
		}
	}
	fmt.Fprintf(out, "COUNT %d\n", ck.count)
	fmt.Fprintf(out, "STAT input_tuples=%d\n", len(seen))
	fmt.Fprintf(out, "STAT leap_month_days=%d\n", nLeapDays)
	fmt.Fprintf(out, "STAT days_lunar_year_ahead=%d\n", nAhead)
	fmt.Fprintf(out, "STAT days_lunar_year_behind=%d\n", nBehind)
	fmt.Fprintf(out, "STAT term_days=%d\n", nTermDays)
	fmt.Fprintf(out, "STAT predicates_true=%d\n", nTrue)
	for i, s := range samples {
		if i < 3 {
			fmt.Fprintf(out, "SAMPLE %s\n", s)
		}
	}
}
