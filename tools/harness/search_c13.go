package main

// search-C13: nine-nines, dog days, pentads, New Year's Eve, Cold Food, She days against independently computed expectations.
// Uses the shared helpers of search_c03.go (c03x...) and c05NewYear of search_c05.go.

import (
	"container/list"
	"fmt"

	"github.com/6tail/lunar-go/LunarUtil"
	"github.com/6tail/lunar-go/calendar"
)

func init() {
	modes["search-C13"] = searchC13
}

var c13Num = []string{"一", "二", "三", "四", "五", "六", "七", "八", "九"}
var c13Hou = []string{"初候", "二候", "三候"}

// day stem from the Julian Day Number (0 = jia ... 6 = geng, 4 = wu)
func c13Stem(jdn int) int { return c05Mod(jdn-11, 10) }

// first day on or after jdn whose stem is the given one
func c13FirstStemOnOrAfter(jdn int, stem int) int { return jdn + c05Mod(stem-c13Stem(jdn), 10) }

func c13Has(l *list.List, name string) int {
	n := 0
	if l == nil {
		return 0
	}
	for e := l.Front(); e != nil; e = e.Next() {
		if s, ok := e.Value.(string); ok && s == name {
			n++
		}
	}
	return n
}

func c13ShuJiuStr(x *calendar.ShuJiu) string {
	if x == nil {
		return "nil"
	}
	return fmt.Sprintf("%s#%d", x.GetName(), x.GetIndex())
}

func c13FuStr(x *calendar.Fu) string {
	if x == nil {
		return "nil"
	}
	return fmt.Sprintf("%s#%d", x.GetName(), x.GetIndex())
}

func searchC13() {
	c03xSelfTest()
	c := c03xNewChecker("C13")
	nDays, nShuJiu, nFu, nLongZhongFu, nChuxi, nHanshi, nShe := 0, 0, 0, 0, 0, 0, 0
	samples := 0
	for _, y := range sweepYears(200) {
		ys := fmt.Sprint(y)
		a, msg := c03xLoadAround(y)
		if a == nil || len(a.cur) != 31 {
			c.count++
			c.report("table-unreadable", ys, msg, "31-entry table")
			continue
		}
		ny, nyNext, okNy := 0, 0, false
		c.chk("new-year-readable", ys, func() (bool, string, string) {
			ny, nyNext, okNy = c05NewYear(y)
			return okNy, "month table unreadable", "first month of the lunar year"
		})
		sol(y, 6, 1, 0, 0, 0).GetLunar() // year cache back on y
		tab := a.cur
		wPrev := tab[c03xIdxDongZhiPrev].at.jdn // winter solstice day of December y-1
		wCur := tab[c03xIdxDongZhi].at.jdn      // winter solstice day of December y
		xiaZhi := tab[c03xIdxXiaZhi].at.jdn
		liQiu := tab[c03xIdxLiQiu].at.jdn
		liChun := tab[c03xIdxLiChun].at.jdn
		qingMing := tab[c03xIdxQingMing].at.jdn
		// dog days
		g1 := c13FirstStemOnOrAfter(xiaZhi, 6)  // first geng day on or after the summer solstice
		chuFu := g1 + 20                        // third geng day
		zhongFu := g1 + 30                      // fourth geng day
		moFu := c13FirstStemOnOrAfter(liQiu, 6) // first geng day on or after Liqiu
		if moFu-zhongFu == 20 {
			nLongZhongFu++
		}
		chunShe := c13FirstStemOnOrAfter(liChun, 4) + 40 // fifth wu day counted from Lichun
		qiuShe := c13FirstStemOnOrAfter(liQiu, 4) + 40

		for _, dd := range daysOfYearList(y) {
			nDays++
			jdn := c03xJdn(y, dd.m, dd.d)
			rt := randTime()
			for pass, tm := range []hms{{0, 0, 0}, rt} {
				t := c03xMomentOf(y, dd.m, dd.d, tm.h, tm.mi, tm.s)
				in := t.Ymd()
				if pass == 1 {
					in = t.String()
				}
				var l *calendar.Lunar
				// a day-level failure already reported for midnight is not repeated for the random time of the same day
				chk := func(kind string, f func() (bool, string, string)) {
					if pass == 1 && c.has(kind, t.Ymd()) {
						c.count++
						return
					}
					c.chk(kind, in, f)
				}
				c.chk("lunar-of-moment", in, func() (bool, string, string) {
					l = t.lunar()
					return l != nil, "nil", "a lunar object"
				})
				if l == nil {
					continue
				}
				// ---- nine-nines
				chk("shujiu", func() (bool, string, string) {
					exp := "nil"
					k := -1
					if jdn-wPrev >= 0 && jdn-wPrev < 81 {
						k = jdn - wPrev
					} else if jdn-wCur >= 0 && jdn-wCur < 81 {
						k = jdn - wCur
					}
					if k >= 0 {
						exp = fmt.Sprintf("%s九#%d", c13Num[k/9], k%9+1)
						if pass == 0 {
							nShuJiu++
						}
					}
					obs := c13ShuJiuStr(l.GetShuJiu())
					return obs == exp, obs, exp
				})
				// ---- dog days
				chk("fu", func() (bool, string, string) {
					exp := "nil"
					switch {
					case jdn >= chuFu && jdn < zhongFu:
						exp = fmt.Sprintf("初伏#%d", jdn-chuFu+1)
					case jdn >= zhongFu && jdn < moFu:
						exp = fmt.Sprintf("中伏#%d", jdn-zhongFu+1)
					case jdn >= moFu && jdn < moFu+10:
						exp = fmt.Sprintf("末伏#%d", jdn-moFu+1)
					}
					if exp != "nil" && pass == 0 {
						nFu++
					}
					obs := c13FuStr(l.GetFu())
					return obs == exp, obs, exp
				})
				// ---- pentads
				chk("hou", func() (bool, string, string) {
					p := a.prevTerm(t, 0, true)
					if p == nil {
						return true, "", ""
					}
					pent := (jdn - p.at.jdn) / 5
					if pent > 2 {
						pent = 2
					}
					exp := p.name + " " + c13Hou[pent] + "|" + LunarUtil.WU_HOU[(3*p.cyc+pent)%72]
					obs := l.GetHou() + "|" + l.GetWuHou()
					return obs == exp, obs, exp + fmt.Sprintf(" (day %d after %s %s)", jdn-p.at.jdn, p.name, p.at.Ymd())
				})
				// ---- New Year's Eve
				if okNy {
					chk("chuxi", func() (bool, string, string) {
						last := jdn == ny-1 || jdn == nyNext-1
						n := c13Has(l.GetFestivals(), "除夕")
						if last && pass == 0 {
							nChuxi++
						}
						if last {
							return n == 1, fmt.Sprintf("除夕 x%d on lunar %d-%d-%d, the last day of its lunar year", n, l.GetYear(), l.GetMonth(), l.GetDay()), "除夕 once"
						}
						return n == 0, fmt.Sprintf("除夕 x%d on lunar %d-%d-%d, not the last day of a lunar year", n, l.GetYear(), l.GetMonth(), l.GetDay()), "no 除夕"
					})
				}
				// ---- Cold Food and She days
				chk("other-festivals", func() (bool, string, string) {
					of := l.GetOtherFestivals()
					exp := [3]int{}
					if jdn == qingMing-1 {
						exp[0] = 1
						if pass == 0 {
							nHanshi++
						}
					}
					if jdn == chunShe {
						exp[1] = 1
						if pass == 0 {
							nShe++
						}
					}
					if jdn == qiuShe {
						exp[2] = 1
						if pass == 0 {
							nShe++
						}
					}
					obs := [3]int{c13Has(of, "寒食节"), c13Has(of, "春社"), c13Has(of, "秋社")}
					return obs == exp, fmt.Sprintf("寒食节 x%d 春社 x%d 秋社 x%d", obs[0], obs[1], obs[2]), fmt.Sprintf("寒食节 x%d 春社 x%d 秋社 x%d (Qingming %s, Lichun %s, Liqiu %s)", exp[0], exp[1], exp[2], tab[c03xIdxQingMing].at.Ymd(), tab[c03xIdxLiChun].at.Ymd(), tab[c03xIdxLiQiu].at.Ymd())
				})
				if samples < 3 && pass == 0 && (jdn == chuFu || jdn == moFu) && rng.Intn(6) == 0 {
					samples++
					fmt.Fprintf(out, "SAMPLE %s fu=%s hou=%s wuhou=%s\n", in, c13FuStr(l.GetFu()), l.GetHou(), l.GetWuHou())
				}
			}
		}
	}
	c.finish()
	fmt.Fprintf(out, "STAT days=%d\n", nDays)
	fmt.Fprintf(out, "STAT shujiu_days=%d\n", nShuJiu)
	fmt.Fprintf(out, "STAT fu_days=%d\n", nFu)
	fmt.Fprintf(out, "STAT years_with_20_day_zhongfu=%d\n", nLongZhongFu)
	fmt.Fprintf(out, "STAT last_days_of_lunar_year=%d\n", nChuxi)
	fmt.Fprintf(out, "STAT hanshi_days=%d\n", nHanshi)
	fmt.Fprintf(out, "STAT she_days=%d\n", nShe)
}
