package main

import (
	"fmt"
	"sort"
	"time"
)

func init() {
	modes["dq-c09-times"] = func() {
		ops := c09Ops()
		type tt struct {
			n string
			d time.Duration
		}
		var ts []tt
		var tot time.Duration
		for _, o := range ops {
			t0 := time.Now()
			o.run()
			d := time.Since(t0)
			tot += d
			ts = append(ts, tt{o.name, d})
		}
		sort.Slice(ts, func(i, j int) bool { return ts[i].d > ts[j].d })
		for _, t := range ts[:25] {
			fmt.Fprintf(out, "%v %s\n", t.d, t.n)
		}
		fmt.Fprintf(out, "total %v\n", tot)
	}
}
