package main

// search-C12: fortune periods. For birth moments x 2 genders x 2 start-offset schools: direction rule, start offset
// recomputed from the previous/next Jie instants, start date, great-fortune chaining (years, ages, pillars),
// annual / monthly / minor fortune years, ages and pillars, list indices.

import (
	"fmt"

	"github.com/6tail/lunar-go/calendar"
)

func init() {
	modes["search-C12"] = searchC12
}

// two-hour slot of a clock time as school 1 counts it (the 23:00 hour stays on its own day as the last slot)
func c12Slot(h int) int {
	if h == 23 {
		return 11
	}
	return (h + 1) / 2
}

type c12Offset struct{ y, m, d, h int }

func (o c12Offset) String() string { return fmt.Sprintf("%dy %dm %dd %dh", o.y, o.m, o.d, o.h) }

// expected start offset from the two instants start <= end
func c12Expect(sect int, start, end *calendar.Solar) (c12Offset, string) {
	js, je := dqJdn(start.GetYear(), start.GetMonth(), start.GetDay()), dqJdn(end.GetYear(), end.GetMonth(), end.GetDay())
	if sect == 2 {
		minutes := (je-js)*1440 + (end.GetHour()*60 + end.GetMinute()) - (start.GetHour()*60 + start.GetMinute())
		if minutes < 0 {
			return c12Offset{}, fmt.Sprintf("negative distance %d min", minutes)
		}
		return c12Offset{minutes / 4320, minutes % 4320 / 360, minutes % 360 / 12, minutes % 12 * 2}, ""
	}
	hourDiff := c12Slot(end.GetHour()) - c12Slot(start.GetHour())
	dayDiff := je - js
	if hourDiff < 0 {
		hourDiff += 12
		dayDiff--
	}
	if dayDiff < 0 {
		return c12Offset{}, fmt.Sprintf("negative distance %d days %d slots", dayDiff, hourDiff)
	}
	months := dayDiff*4 + hourDiff/3
	return c12Offset{months / 12, months % 12, hourDiff % 3 * 10, 0}, ""
}

func c12Before(a, b *calendar.Solar) bool {
	x := []int{a.GetYear(), a.GetMonth(), a.GetDay(), a.GetHour(), a.GetMinute(), a.GetSecond()}
	z := []int{b.GetYear(), b.GetMonth(), b.GetDay(), b.GetHour(), b.GetMinute(), b.GetSecond()}
	for i := range x {
		if x[i] != z[i] {
			return x[i] < z[i]
		}
	}
	return false
}

func searchC12() {
	defer dqProf()()
	ck := dqNew("C12", 8)
	nBirths, nYun, nDaYun, nLiuNian, nLiuYue, nXiaoYun := 0, 0, 0, 0, 0, 0
	var samples []string
	// self-test of the independent year-pillar arithmetic against the library on known years (1984 = 甲子)
	ck.chk("selftest-year-pillar", "1984/2024", func() (bool, string, string) {
		a := sol(1984, 7, 1, 0, 0, 0).GetLunar().GetYearInGanZhiExact()
		b := sol(2024, 7, 1, 0, 0, 0).GetLunar().GetYearInGanZhiExact()
		return dqPillar(1984-4) == "甲子" && a == "甲子" && dqPillar(2024-4) == b && b == "甲辰", a + " " + b, "甲子 甲辰"
	})
	turn := 0
	one := func(y, m, d int, t hms) {
		when := dqYmdHms(y, m, d, t)
		nBirths++
		turn++
		var s *calendar.Solar
		var l *calendar.Lunar
		var prev, next *calendar.JieQi
		ck.chk("construct", when, func() (bool, string, string) {
			s = sol(y, m, d, t.h, t.mi, t.s)
			l = s.GetLunar()
			prev, next = l.GetPrevJie(), l.GetNextJie()
			if prev == nil || next == nil {
				return false, "no neighbouring Jie", "previous and next Jie"
			}
			if !prev.IsJie() || !next.IsJie() || c12Before(s, prev.GetSolar()) || !c12Before(s, next.GetSolar()) {
				return false, prev.GetName() + "@" + prev.GetSolar().ToYmdHms() + " .. " + next.GetName() + "@" + next.GetSolar().ToYmdHms(), "prev Jie <= birth < next Jie"
			}
			return true, "", ""
		})
		if l == nil || prev == nil || next == nil {
			return
		}
		// every other birth (and always when the lunar year leads the civil year) is built through the lunar-date constructor:
		// the statement quantifies over moments, not over construction paths
		if turn%2 == 0 || l.GetYear() > y {
			ck.chk("construct-lunar", when, func() (bool, string, string) {
				l2 := calendar.NewLunar(l.GetYear(), l.GetMonth(), l.GetDay(), t.h, t.mi, t.s)
				if l2.GetSolar().ToYmdHms() != s.ToYmdHms() {
					return false, l2.GetSolar().ToYmdHms(), s.ToYmdHms()
				}
				l = l2
				return true, "", ""
			})
		}
		// year stem at the exact Lichun boundary, independently: Lichun of the civil year from the term table
		yearNo := y
		if lc, ok := l.GetJieQiTable()["立春"]; ok && lc.GetYear() == y {
			if c12Before(s, lc) {
				yearNo = y - 1
			}
		} else {
			ck.count++
			ck.report("lichun-missing", when, "no 立春 of the civil year in the term table", "present")
			return
		}
		yang := dqMod(yearNo-4, 10)%2 == 0
		monthIdx := dqPillarIndex(l.GetMonthInGanZhiExact())
		hourIdx := dqPillarIndex(l.GetTimeInGanZhi())
		combo := 0
		for _, gender := range []int{1, 0} {
			for _, sect := range []int{1, 2} {
				gender, sect := gender, sect
				in := fmt.Sprintf("%s gender=%d sect=%d", when, gender, sect)
				full := combo == turn%4
				combo++
				nYun++
				var yun *calendar.Yun
				ck.chk("yun", in, func() (bool, string, string) {
					yun = l.GetEightChar().GetYunBySect(gender, sect)
					return yun != nil, "nil", "Yun"
				})
				if yun == nil {
					continue
				}
				forward := (yang && gender == 1) || (!yang && gender == 0)
				ck.chk("direction", in, func() (bool, string, string) {
					return yun.IsForward() == forward && yun.GetGender() == gender, fmt.Sprintf("forward=%v gender=%d", yun.IsForward(), yun.GetGender()), fmt.Sprintf("forward=%v (year %d %s)", forward, yearNo, dqPillar(yearNo-4))
				})
				got := c12Offset{yun.GetStartYear(), yun.GetStartMonth(), yun.GetStartDay(), yun.GetStartHour()}
				ck.chk("start-offset-range", in, func() (bool, string, string) {
					ok := got.y >= 0 && got.m >= 0 && got.m <= 11 && got.d >= 0 && got.d <= 29 && got.h >= 0 && got.h <= 23
					return ok, got.String(), "years>=0 months 0-11 days 0-29 hours 0-23"
				})
				ck.chk("start-offset", in, func() (bool, string, string) {
					a, b := s, next.GetSolar()
					if !forward {
						a, b = prev.GetSolar(), s
					}
					exp, bad := c12Expect(sect, a, b)
					if bad != "" {
						return false, bad, "start <= end"
					}
					return got == exp, got.String(), fmt.Sprintf("%s (from %s to %s)", exp, a.ToYmdHms(), b.ToYmdHms())
				})
				var startSolar *calendar.Solar
				ck.chk("start-solar", in, func() (bool, string, string) {
					startSolar = yun.GetStartSolar()
					exp := s.NextYear(got.y).NextMonth(got.m).NextDay(got.d).NextHour(got.h)
					return startSolar.ToYmdHms() == exp.ToYmdHms() && !c12Before(startSolar, s), startSolar.ToYmdHms(), exp.ToYmdHms()
				})
				if startSolar == nil {
					continue
				}
				startYear := startSolar.GetYear()
				var dys []*calendar.DaYun
				ck.chk("dayun-list", in, func() (bool, string, string) {
					dys = yun.GetDaYun()
					return len(dys) == 10, fmt.Sprint(len(dys)), "10"
				})
				dir := 1
				if !forward {
					dir = -1
				}
				for i, dy := range dys {
					i, dy := i, dy
					nDaYun++
					ind := fmt.Sprintf("%s dayun=%d", in, i)
					sy, ey, sa, ea := y, startYear-1, 1, startYear-y
					if i >= 1 {
						sy = startYear + 10*(i-1)
						ey = sy + 9
						sa, ea = sy-y+1, ey-y+1
					}
					ck.chk("dayun-span", ind, func() (bool, string, string) {
						obs := fmt.Sprintf("index %d years %d-%d ages %d-%d", dy.GetIndex(), dy.GetStartYear(), dy.GetEndYear(), dy.GetStartAge(), dy.GetEndAge())
						exp := fmt.Sprintf("index %d years %d-%d ages %d-%d", i, sy, ey, sa, ea)
						if i >= 1 && dys[i-1].GetEndYear()+1 != dy.GetStartYear() {
							return false, obs + " after a period ending " + fmt.Sprint(dys[i-1].GetEndYear()), "contiguous periods"
						}
						return obs == exp, obs, exp
					})
					if i >= 1 {
						ck.chk("dayun-pillar", ind, func() (bool, string, string) {
							return dy.GetGanZhi() == dqPillar(monthIdx+dir*i), dy.GetGanZhi(), dqPillar(monthIdx+dir*i) + " (month pillar " + dqPillar(monthIdx) + ")"
						})
					}
					n := 10
					if i == 0 {
						n = ey - sy + 1
						if n < 0 {
							n = 0
						}
					}
					var lns []*calendar.LiuNian
					var xys []*calendar.XiaoYun
					ck.chk("liunian-list", ind, func() (bool, string, string) {
						lns, xys = dy.GetLiuNian(), dy.GetXiaoYun()
						return len(lns) == n && len(xys) == n, fmt.Sprintf("%d annual, %d minor", len(lns), len(xys)), fmt.Sprint(n)
					})
					for k, ln := range lns {
						if !full && k != 0 && k != len(lns)-1 {
							continue
						}
						k, ln := k, ln
						nLiuNian++
						ink := fmt.Sprintf("%s liunian=%d", ind, k)
						ck.chk("liunian", ink, func() (bool, string, string) {
							obs := fmt.Sprintf("index %d year %d age %d %s", ln.GetIndex(), ln.GetYear(), ln.GetAge(), ln.GetGanZhi())
							exp := fmt.Sprintf("index %d year %d age %d %s", k, sy+k, sy+k-y+1, dqPillar(sy+k-4))
							return obs == exp, obs, exp
						})
						// monthly fortunes: for one annual fortune of each period (all of them in the first period of a full pass)
						if k == (turn+i)%10 || (full && i <= 1 && k == 0) || k == len(lns)-1 && i == 9 {
							ck.chk("liuyue", ink, func() (bool, string, string) {
								lys := ln.GetLiuYue()
								if len(lys) != 12 {
									return false, fmt.Sprint(len(lys), " months"), "12"
								}
								stem := dqMod(sy+k-4, 10)
								first := (stem%5)*2 + 2
								for q, ly := range lys {
									nLiuYue++
									exp := dqGan[(first+q)%10] + dqZhi[(q+2)%12]
									if ly.GetIndex() != q || ly.GetGanZhi() != exp {
										return false, fmt.Sprintf("month %d index %d %s", q, ly.GetIndex(), ly.GetGanZhi()), fmt.Sprintf("index %d %s (year stem %s)", q, exp, dqGan[stem])
									}
								}
								return true, "", ""
							})
						}
					}
					for k, xy := range xys {
						k, xy := k, xy
						nXiaoYun++
						ck.chk("xiaoyun", fmt.Sprintf("%s xiaoyun=%d", ind, k), func() (bool, string, string) {
							age := sy + k - y + 1
							obs := fmt.Sprintf("index %d year %d age %d %s", xy.GetIndex(), xy.GetYear(), xy.GetAge(), xy.GetGanZhi())
							exp := fmt.Sprintf("index %d year %d age %d %s", k, sy+k, age, dqPillar(hourIdx+dir*age))
							return obs == exp, obs, exp + " (hour pillar " + dqPillar(hourIdx) + ")"
						})
					}
				}
			}
		}
		if len(samples) < 3 && rng.Intn(300) == 0 {
			samples = append(samples, when+" 4 fortune trees checked")
		}
	}
	nRandom, stride := 30, 10
	if tier == "thorough" {
		stride = 16
	}
	for _, y := range sweepYears(nRandom) {
		days := daysOfYearList(y)
		phase := rng.Intn(stride)
		var l0 *calendar.Lunar
		ck.chk("construct", fmt.Sprint(y), func() (bool, string, string) {
			l0 = sol(y, 6, 1, 0, 0, 0).GetLunar()
			return true, "", ""
		})
		if l0 == nil {
			continue
		}
		// the twelve Jie instants of the year: the instant, one second before, and the neighbouring two-hour slots
		for i, name := range calendar.JIE_QI_IN_USE {
			if i%2 != 0 {
				continue
			}
			j := l0.GetJieQiTable()[name]
			if j == nil || j.GetYear() != y {
				continue
			}
			sec := j.GetHour()*3600 + j.GetMinute()*60 + j.GetSecond()
			cands := []int{sec, sec - 1, sec + 1, sec - 7200, sec + 7200}
			pick := cands[:3]
			if rng.Intn(2) == 0 {
				pick = append(pick, cands[3+rng.Intn(2)])
			}
			for _, c := range pick {
				if c < 0 || c > 86399 {
					continue
				}
				one(j.GetYear(), j.GetMonth(), j.GetDay(), hms{c / 3600, c / 60 % 60, c % 60})
			}
		}
		for i, dd := range days {
			if i%stride != phase && i != 0 && i != len(days)-1 {
				continue
			}
			ts := dayTimes()
			t := ts[rng.Intn(len(ts))]
			if rng.Intn(3) == 0 {
				t = randTime()
			}
			one(dd.y, dd.m, dd.d, t)
		}
	}
	ck.finish(map[string]int{"births": nBirths, "yun": nYun, "dayun": nDaYun, "liunian": nLiuNian, "liuyue": nLiuYue, "xiaoyun": nXiaoYun}, samples)
}
