package main

import (
	"fmt"
	"strings"

	"github.com/6tail/lunar-go/calendar"
)

func init() {
	modes["gen-ly"] = genLy
	modes["gen-lunar"] = genLunar
}

func monthRecStr(m *calendar.LunarMonth) string {
	return fmt.Sprintf("%d:%d:%d:%d:%d", m.GetYear(), m.GetMonth(), m.GetDayCount(), int(m.GetFirstJulianDay()), m.GetIndex())
}

// sweep family Y: every year table (exhaustive at every tier)
func genLy() {
	for y := 0; y <= 10000; y++ {
		if y%shardN != shardI {
			continue
		}
		yy := y
		emit("ly", fmt.Sprint(y), safe(func() string {
			ly := calendar.NewLunarYear(yy)
			var parts []string
			for e := ly.GetMonths().Front(); e != nil; e = e.Next() {
				parts = append(parts, monthRecStr(e.Value.(*calendar.LunarMonth)))
			}
			return strings.Join(parts, " ")
		}))
		emit("lyacc", fmt.Sprint(y), safe(func() string {
			ly := calendar.NewLunarYear(yy)
			return fmt.Sprintf("%d %d %d", ly.GetLeapMonth(), ly.GetDayCount(), ly.GetMonthsInYear().Len())
		}))
		if y >= 1 && y <= 9999 {
			emit("terms", fmt.Sprint(y), safe(func() string {
				l := calendar.NewSolarFromYmd(yy, 6, 1).GetLunar()
				t := l.GetJieQiTable()
				var parts []string
				for _, n := range calendar.JIE_QI_IN_USE {
					s := t[n]
					parts = append(parts, fmt.Sprintf("%d-%d-%d-%d-%d-%d", s.GetYear(), s.GetMonth(), s.GetDay(), s.GetHour(), s.GetMinute(), s.GetSecond()))
				}
				return strings.Join(parts, " ")
			}))
			// every table instant is the conversion of the raw Julian Day the ephemeris produced (exhaustive at every tier):
			// the model converts the 31 raw doubles itself
			func() {
				defer func() { recover() }()
				raw := calendar.NewLunarYear(yy).GetJieQiJulianDays()
				var hexs []string
				for _, x := range raw {
					hexs = append(hexs, f64hex(x))
				}
				emit("termjd", strings.Join(hexs, " "), safe(func() string {
					l := calendar.NewSolarFromYmd(yy, 6, 1).GetLunar()
					t := l.GetJieQiTable()
					var parts []string
					for _, n := range calendar.JIE_QI_IN_USE {
						parts = append(parts, solarStr(t[n]))
					}
					return strings.Join(parts, " | ")
				}))
			}()
		}
	}
	// month walks
	nw := 300
	if tier == "thorough" {
		nw = 5000
	}
	for i := 0; i < nw; i++ {
		y := 1 + rng.Intn(9998)
		ly := calendar.NewLunarYear(y)
		ms := ly.GetMonthsInYear()
		k := rng.Intn(ms.Len())
		e := ms.Front()
		for j := 0; j < k; j++ {
			e = e.Next()
		}
		m := e.Value.(*calendar.LunarMonth)
		ns := []int{0, 1, -1, 2, -2, 12, 13, -12, -13, 25, -25, rng.Intn(2001) - 1000}
		if i%10 == 0 {
			ns = append(ns, rng.Intn(80001)-40000)
		}
		for _, n := range ns {
			nn := n
			emit("lm.next", fmt.Sprintf("%d %d %d", m.GetYear(), m.GetMonth(), n), safe(func() string {
				r := m.Next(nn)
				if r == nil {
					return "nil"
				}
				if r.GetYear() < 1 || r.GetYear() > 9999 {
					return "SKIP"
				}
				return monthRecStr(r)
			}))
		}
	}
}

func lunarFields(l *calendar.Lunar) string {
	s := l.GetSolar()
	return joinInts([]int{l.GetYear(), l.GetMonth(), l.GetDay(), l.GetYearGanIndex(), l.GetYearZhiIndex(), l.GetYearGanIndexByLiChun(),
		l.GetYearZhiIndexByLiChun(), l.GetYearGanIndexExact(), l.GetYearZhiIndexExact(), l.GetMonthGanIndex(), l.GetMonthZhiIndex(),
		l.GetMonthGanIndexExact(), l.GetMonthZhiIndexExact(), l.GetDayGanIndex(), l.GetDayZhiIndex(), l.GetDayGanIndexExact(),
		l.GetDayZhiIndexExact(), l.GetDayGanIndexExact2(), l.GetDayZhiIndexExact2(), l.GetTimeGanIndex(), l.GetTimeZhiIndex(),
		l.GetWeek(), s.GetYear(), s.GetMonth(), s.GetDay(),
		// identity of the solar-term table the object carries (it must be the civil year's, whatever the construction path)
		termYear(l, calendar.JIE_QI_IN_USE[0]), termYear(l, "立春")})
}

func termYear(l *calendar.Lunar, name string) int {
	if s := l.GetJieQiTable()[name]; s != nil {
		return s.GetYear()
	}
	return -9999
}

// timesFor: boundary times for a day, incl. the instants of any term falling on it (±1 s)
func timesFor(l *calendar.Lunar, y, m, d int, nBoundary int) []hms {
	var ts []hms
	all := dayTimes()
	for i := 0; i < nBoundary; i++ {
		ts = append(ts, all[rng.Intn(len(all))])
	}
	ts = append(ts, randTime())
	for _, s := range l.GetJieQiTable() {
		if s.GetYear() == y && s.GetMonth() == m && s.GetDay() == d {
			t := hms{s.GetHour(), s.GetMinute(), s.GetSecond()}
			ts = append(ts, t)
			sec := t.h*3600 + t.mi*60 + t.s
			if sec > 0 {
				p := sec - 1
				ts = append(ts, hms{p / 3600, p / 60 % 60, p % 60})
			}
			if sec < 86399 {
				p := sec + 1
				ts = append(ts, hms{p / 3600, p / 60 % 60, p % 60})
			}
		}
	}
	return ts
}

// sweep D×T for the Lunar structure (both construction paths)
func genLunar() {
	steps := stepCounts(20)
	for _, y := range sweepYears(30) {
		for _, dd := range daysOfYearList(y) {
			y, m, d := dd.y, dd.m, dd.d
			l0 := sol(y, m, d, 0, 0, 0).GetLunar()
			for _, t := range timesFor(l0, y, m, d, 1) {
				t := t
				a6 := fmt.Sprintf("%d %d %d %d %d %d", y, m, d, t.h, t.mi, t.s)
				var l *calendar.Lunar
				emit("l.fs", a6, safe(func() string {
					l = sol(y, m, d, t.h, t.mi, t.s).GetLunar()
					return lunarFields(l)
				}))
				if l != nil {
					emit("l.fy", fmt.Sprintf("%d %d %d %d %d %d", l.GetYear(), l.GetMonth(), l.GetDay(), t.h, t.mi, t.s), safe(func() string {
						return lunarFields(calendar.NewLunar(l.GetYear(), l.GetMonth(), l.GetDay(), t.h, t.mi, t.s))
					}))
				}
			}
			if rng.Intn(8) == 0 {
				n := steps[rng.Intn(len(steps))]
				if j := int(sol(y, m, d, 12, 0, 0).GetJulianDay()) + n; j < 1721424 || j > 5373119 {
					continue
				}
				emit("l.next", fmt.Sprintf("%d %d %d 0 0 0 %d", y, m, d, n), safe(func() string {
					r := l0.Next(n)
					if r.GetSolar().GetYear() < 1 || r.GetSolar().GetYear() > 9999 {
						return "SKIP"
					}
					return lunarFields(r)
				}))
			}
		}
	}
}
