package main

// history_probe.go — a reflective probe for hidden dependence on the ONE piece of caller-settable state that hangs off a
// lunar date: the day-boundary school ("sect") of its shared eight-character object. Every exported zero-argument
// accessor of *Lunar, and of the Taoist, Buddhist and hour objects obtained from it, is rendered before and after
// `l.GetEightChar().SetSect(1)`; only the accessors that by definition report the eight-character object (BaZi*,
// GetEightChar) may change. The two schools differ from 23:00 on, so the probe is run on late-evening moments (and a few
// others). Used by search-C09 (call history) and search-C18 (attributes are functions of their defining inputs).

import (
	"container/list"
	"fmt"
	"reflect"
	"sort"
	"strings"

	"github.com/6tail/lunar-go/calendar"
)

var histListType = reflect.TypeOf((*list.List)(nil))

func histRender(v reflect.Value, depth int) string {
	if !v.IsValid() {
		return "<invalid>"
	}
	switch v.Kind() {
	case reflect.String, reflect.Int, reflect.Int64, reflect.Bool, reflect.Float64:
		return fmt.Sprint(v.Interface())
	case reflect.Array, reflect.Slice:
		var parts []string
		for i := 0; i < v.Len(); i++ {
			parts = append(parts, histRender(v.Index(i), depth))
		}
		return "[" + strings.Join(parts, ",") + "]"
	case reflect.Map:
		var parts []string
		for _, k := range v.MapKeys() {
			parts = append(parts, fmt.Sprint(k.Interface())+"="+histRender(v.MapIndex(k), depth))
		}
		sort.Strings(parts)
		return "{" + strings.Join(parts, ",") + "}"
	case reflect.Interface:
		if v.IsNil() {
			return "nil"
		}
		return histRender(v.Elem(), depth)
	case reflect.Ptr:
		if v.IsNil() {
			return "nil"
		}
		if v.Type() == histListType {
			var parts []string
			for e := v.Interface().(*list.List).Front(); e != nil; e = e.Next() {
				parts = append(parts, histRender(reflect.ValueOf(e.Value), depth))
			}
			return "(" + strings.Join(parts, ",") + ")"
		}
		if s, ok := v.Interface().(*calendar.Solar); ok {
			return s.ToYmdHms()
		}
		for _, mn := range []string{"ToFullString", "String"} {
			if m := v.MethodByName(mn); m.IsValid() && m.Type().NumIn() == 0 && m.Type().NumOut() == 1 && m.Type().Out(0).Kind() == reflect.String {
				return v.Type().Elem().Name() + ":" + m.Call(nil)[0].String()
			}
		}
		return v.Type().String()
	}
	return v.Type().String()
}

// histSnapshot: accessor name -> rendered value ("panic: …" when the call panics)
func histSnapshot(prefix string, obj interface{}, into map[string]string) {
	v := reflect.ValueOf(obj)
	t := v.Type()
	for i := 0; i < t.NumMethod(); i++ {
		m := t.Method(i)
		if m.Type.NumIn() != 1 || m.Type.NumOut() != 1 {
			continue
		}
		if strings.Contains(m.Name, "BaZi") || strings.Contains(m.Name, "EightChar") {
			continue // by definition the view of the eight-character object
		}
		if m.Name == "Next" || m.Name == "GetSolar" || m.Name == "GetLunar" {
			continue
		}
		name := prefix + m.Name
		func() {
			defer func() {
				if r := recover(); r != nil {
					into[name] = fmt.Sprint("panic: ", r)
				}
			}()
			into[name] = histRender(v.Method(i).Call(nil)[0], 0)
		}()
	}
}

func histLunarSnapshot(l *calendar.Lunar) map[string]string {
	m := map[string]string{}
	histSnapshot("Lunar.", l, m)
	func() {
		defer func() { recover() }()
		histSnapshot("Tao.", l.GetTao(), m)
		histSnapshot("Foto.", l.GetFoto(), m)
	}()
	return m
}

// histSectProbe: (ok, observed, expected, number of accessors compared)
func histSectProbe(l *calendar.Lunar) (bool, string, string, int) {
	before := histLunarSnapshot(l)
	ec := l.GetEightChar()
	old := ec.GetSect()
	ec.SetSect(1)
	after := histLunarSnapshot(l)
	ec.SetSect(old)
	var names []string
	for k := range before {
		names = append(names, k)
	}
	sort.Strings(names)
	for _, k := range names {
		if before[k] != after[k] {
			return false, fmt.Sprintf("%s = %s after GetEightChar().SetSect(1)", k, after[k]), fmt.Sprintf("%s (its value before the setter call; the accessor is not a view of the eight-character object)", before[k]), len(names)
		}
	}
	return true, "", "", len(names)
}

// histSectSweep: the probe on n random late-evening moments (and n/4 moments at any time of day) of years 1..9998, sharded
func histSectSweep(ck *dqCk, n int) (probes, accessors int) { // accessors: comparisons made in total
	for i := 0; i < n+n/4; i++ {
		y, m := 1+rng.Intn(9998), 1+rng.Intn(12)
		d := 1 + rng.Intn(28)
		if y == 1582 && m == 10 && d > 4 && d < 15 {
			d = 20
		}
		t := hms{23, rng.Intn(60), rng.Intn(60)}
		if i >= n {
			t = randTime()
		}
		if i%shardN != shardI {
			continue
		}
		in := fmt.Sprintf("%04d-%02d-%02d %02d:%02d:%02d", y, m, d, t.h, t.mi, t.s)
		ck.chk("accessor-depends-on-eightchar-school", in, func() (bool, string, string) {
			// two conversions of ONE civil date object are independent: a setter call on the first result is invisible in the second
			so := sol(y, m, d, t.h, t.mi, t.s)
			first := so.GetLunar()
			ref := first.GetEightChar().GetDay()
			first.GetEightChar().SetSect(1)
			second := so.GetLunar().GetEightChar()
			if second.GetSect() != 2 || second.GetDay() != ref {
				return false, fmt.Sprintf("second GetLunar() of the same Solar: school %d, day pillar %s", second.GetSect(), second.GetDay()), fmt.Sprintf("school 2, day pillar %s (SetSect(1) was called on the FIRST result only)", ref)
			}
			l := sol(y, m, d, t.h, t.mi, t.s).GetLunar()
			ok, obs, exp, k := histSectProbe(l)
			probes++
			accessors += k
			return ok, obs, exp
		})
	}
	return
}
