package main

// search-C16: the nine stars of year, month, day and hour.
// Uses the shared helpers of search_c03.go (c03x...) and c05Mod of search_c05.go.

import (
	"fmt"

	"github.com/6tail/lunar-go/LunarUtil"
	"github.com/6tail/lunar-go/calendar"
)

var c16KnownFormulaReported bool

func init() {
	modes["search-C16"] = searchC16
}

// position of a day in the 60-cycle from its Julian Day Number (2000-01-01 = JDN 2451545 = wu-wu = 54)
func c16Day60(jdn int) int { return c05Mod(jdn-11, 60) }

// the jiazi day(s) nearest to a day: one candidate, or two when the day sits exactly 30 days from both
func c16NearestJiaZi(jdn int) []int {
	i := c16Day60(jdn)
	switch {
	case i < 30:
		return []int{jdn - i}
	case i > 30:
		return []int{jdn + 60 - i}
	}
	return []int{jdn - 30, jdn + 30}
}

// expected hour star: start value per (group of the day branch, half), one step per two-hour slot
func c16HourStar(dayBranch int, asc bool, slot int) int {
	var start int
	switch dayBranch % 3 {
	case 0: // zi wu mao you
		start = 8
		if asc {
			start = 0
		}
	case 1: // chou chen wei xu
		start = 5
		if asc {
			start = 3
		}
	default: // yin shen si hai
		start = 2
		if asc {
			start = 6
		}
	}
	if asc {
		return c05Mod(start+slot, 9)
	}
	return c05Mod(start-slot, 9)
}

// every naming getter of a star must index the same star
func c16NamingOK(s *calendar.NineStar) (bool, string) {
	i := s.GetIndex()
	if i < 0 || i > 8 {
		return false, fmt.Sprintf("index %d", i)
	}
	type pair struct {
		name     string
		got, exp string
	}
	ps := []pair{
		{"GetNumber", s.GetNumber(), calendar.NUMBER[i]},
		{"GetColor", s.GetColor(), calendar.COLOR[i]},
		{"GetWuXing", s.GetWuXing(), calendar.WU_XING[i]},
		{"GetPosition", s.GetPosition(), calendar.POSITION[i]},
		{"GetPositionDesc", s.GetPositionDesc(), LunarUtil.POSITION_DESC[calendar.POSITION[i]]},
		{"GetNameInXuanKong", s.GetNameInXuanKong(), calendar.NAME_XUAN_KONG[i]},
		{"GetNameInBeiDou", s.GetNameInBeiDou(), calendar.NAME_BEI_DOU[i]},
		{"GetNameInQiMen", s.GetNameInQiMen(), calendar.NAME_QI_MEN[i]},
		{"GetNameInTaiYi", s.GetNameInTaiYi(), calendar.NAME_TAI_YI[i]},
		{"GetLuckInQiMen", s.GetLuckInQiMen(), calendar.LUCK_QI_MEN[i]},
		{"GetLuckInXuanKong", s.GetLuckInXuanKong(), calendar.LUCK_XUAN_KONG[i]},
		{"GetYinYangInQiMen", s.GetYinYangInQiMen(), calendar.YIN_YANG_QI_MEN[i]},
		{"GetTypeInTaiYi", s.GetTypeInTaiYi(), calendar.TYPE_TAI_YI[i]},
		{"GetBaMenInQiMen", s.GetBaMenInQiMen(), calendar.BA_MEN_QI_MEN[i]},
		{"GetSongInTaiYi", s.GetSongInTaiYi(), calendar.SONG_TAI_YI[i]},
		{"String", s.String(), calendar.NUMBER[i] + calendar.COLOR[i] + calendar.WU_XING[i] + calendar.NAME_BEI_DOU[i]},
	}
	for _, p := range ps {
		if p.got != p.exp {
			return false, fmt.Sprintf("index %d: %s=%s", i, p.name, p.got)
		}
	}
	return true, ""
}

func searchC16() {
	c03xSelfTest()
	c := c03xNewChecker("C16")
	nMoments, nDays, nYearSteps, nMonthSteps, nTwoRoutes, nAmbiguousAnchor, nBeforeAscAnchor, nSolsticeDays, nSect1Pattern, nBeforeAnchorBad := 0, 0, 0, 0, 0, 0, 0, 0, 0, 0
	samples := 0
	// the naming tables have nine entries each and every index names consistently
	c.chk("naming-tables", "tables", func() (bool, string, string) {
		for n, t := range map[string][]string{"NUMBER": calendar.NUMBER, "COLOR": calendar.COLOR, "WU_XING": calendar.WU_XING, "POSITION": calendar.POSITION, "NAME_BEI_DOU": calendar.NAME_BEI_DOU, "NAME_XUAN_KONG": calendar.NAME_XUAN_KONG, "NAME_QI_MEN": calendar.NAME_QI_MEN, "BA_MEN_QI_MEN": calendar.BA_MEN_QI_MEN, "NAME_TAI_YI": calendar.NAME_TAI_YI, "TYPE_TAI_YI": calendar.TYPE_TAI_YI, "SONG_TAI_YI": calendar.SONG_TAI_YI, "LUCK_XUAN_KONG": calendar.LUCK_XUAN_KONG, "LUCK_QI_MEN": calendar.LUCK_QI_MEN, "YIN_YANG_QI_MEN": calendar.YIN_YANG_QI_MEN} {
			if len(t) != 9 {
				return false, fmt.Sprintf("%s has %d entries", n, len(t)), "9"
			}
		}
		return true, "", ""
	})
	for i := 0; i < 9; i++ {
		i := i
		c.chk("naming", fmt.Sprintf("star %d", i), func() (bool, string, string) {
			ok, why := c16NamingOK(calendar.NewNineStar(i))
			return ok, why, "every getter names star " + fmt.Sprint(i)
		})
	}
	extra := []hms{{23, 0, 0}, {22, 59, 59}}
	for _, y := range sweepYears(12) {
		ys := fmt.Sprint(y)
		a, msg := c03xLoadAround(y)
		if a == nil || len(a.cur) != 31 {
			c.count++
			c.report("table-unreadable", ys, msg, "31-entry table")
			continue
		}
		tab := a.cur
		// ---- LunarYear / LunarMonth stars
		c.chk("lunaryear-star", ys, func() (bool, string, string) {
			ly := calendar.NewLunarYear(y)
			s := ly.GetNineStar()
			if ok, why := c16NamingOK(s); !ok {
				return false, why, "consistent star 0..8"
			}
			exp := c05Mod(2026-y, 9)
			if s.GetIndex() != exp {
				return false, fmt.Sprint(s.GetIndex()), fmt.Sprintf("%d (2024 is index 2, one step back per year)", exp)
			}
			return true, "", ""
		})
		c.chk("lunarmonth-star", ys, func() (bool, string, string) {
			for e := calendar.NewLunarYear(y).GetMonths().Front(); e != nil; e = e.Next() {
				m := e.Value.(*calendar.LunarMonth)
				ms := m.GetNineStar()
				if ok, why := c16NamingOK(ms); !ok {
					return false, fmt.Sprintf("month %d-%d: %s", m.GetYear(), m.GetMonth(), why), "consistent star 0..8"
				}
			}
			return true, "", ""
		})
		ny, nyNext, okNy := c05NewYear(y)
		sol(y, 6, 1, 0, 0, 0).GetLunar() // year cache back on y

		// ---- anchors of the day star
		w0, s1, w1 := tab[c03xIdxDongZhiPrev].at.jdn, tab[c03xIdxXiaZhi].at.jdn, tab[c03xIdxDongZhi].at.jdn
		a1s, a2s, a3s := c16NearestJiaZi(w0), c16NearestJiaZi(s1), c16NearestJiaZi(w1)
		var a0s []int
		if a.prev != nil {
			a0s = c16NearestJiaZi(a.prev[c03xIdxXiaZhi].at.jdn)
		}
		if len(a1s) > 1 || len(a2s) > 1 || len(a3s) > 1 || len(a0s) > 1 {
			nAmbiguousAnchor++
		}
		// the day stars the statement allows for a day (one value unless an anchor is ambiguous)
		dayStars := func(j int) (map[int]bool, string) {
			r := map[int]bool{}
			why := ""
			for _, a3 := range a3s {
				for _, a2 := range a2s {
					for _, a1 := range a1s {
						switch {
						case j >= a3:
							r[c05Mod(j-a3, 9)] = true
							why = fmt.Sprintf("day %d up from the jiazi day %s nearest the winter solstice %s", j-a3, c03xMomentOfSec(int64(a3)*86400).Ymd(), tab[c03xIdxDongZhi].at.Ymd())
						case j >= a2:
							r[c05Mod(8-(j-a2), 9)] = true
							why = fmt.Sprintf("day %d down from the jiazi day %s nearest the summer solstice %s", j-a2, c03xMomentOfSec(int64(a2)*86400).Ymd(), tab[c03xIdxXiaZhi].at.Ymd())
						case j >= a1:
							r[c05Mod(j-a1, 9)] = true
							why = fmt.Sprintf("day %d up from the jiazi day %s nearest the winter solstice %s", j-a1, c03xMomentOfSec(int64(a1)*86400).Ymd(), tab[c03xIdxDongZhiPrev].at.Ymd())
						default:
							for _, a0 := range a0s {
								r[c05Mod(8-(j-a0), 9)] = true
								why = fmt.Sprintf("day %d down from the jiazi day %s nearest the summer solstice %s", j-a0, c03xMomentOfSec(int64(a0)*86400).Ymd(), a.prev[c03xIdxXiaZhi].at.Ymd())
							}
						}
					}
				}
			}
			return r, why
		}
		halfAsc := func(j int) bool { return j < s1 || j >= w1 }

		// ---- moments
		type prevState struct {
			ok          bool
			monthPillar [4]int
			monthStar   [4]int
			yearPillar  [4]int
			yearStar    [4]int
			at          string
			jdn         int
		}
		var prev prevState
		beforeAnchorReported := false
		lichunJdn := tab[c03xIdxLiChun].at.jdn
		perDay := 2
		if tier == "thorough" {
			perDay = 1 // every year is visited: keep a 1/16 shard within the budget
		}
		moments := c03xYearMoments(a, perDay, extra...)
		lastDay := -1
		for _, t := range moments {
			t := t
			in := t.String()
			nMoments++
			var l *calendar.Lunar
			c.chk("lunar-of-moment", in, func() (bool, string, string) {
				l = t.lunar()
				return l != nil, "nil", "a lunar object"
			})
			if l == nil {
				prev.ok = false
				continue
			}
			firstOfDay := t.jdn != lastDay
			lastDay = t.jdn
			if firstOfDay {
				nDays++
			}
			cur := prevState{at: in, jdn: t.jdn}
			curOK := true
			// ---- year star per sect
			for sect := 1; sect <= 3; sect++ {
				sect := sect
				c.chk(fmt.Sprintf("year-star-sect%d", sect), in, func() (bool, string, string) {
					s := l.GetYearNineStarBySect(sect)
					idx := s.GetIndex()
					if idx < 0 || idx > 8 {
						curOK = false
						return false, fmt.Sprint(idx), "0..8"
					}
					pillar := l.GetYearInGanZhi()
					if sect == 2 {
						pillar = l.GetYearInGanZhiByLiChun()
					} else if sect == 3 {
						pillar = l.GetYearInGanZhiExact()
					}
					p := LunarUtil.GetJiaZiIndex(pillar)
					cur.yearPillar[sect], cur.yearStar[sect] = p, idx
					// the year number the pillar stands for (near the civil year)
					yearNo, found := 0, false
					for _, cand := range []int{y, y - 1, y + 1} {
						if c05Mod(cand-4, 60) == p {
							yearNo, found = cand, true
							break
						}
					}
					if !found {
						return true, "", "" // a wrong year pillar is C05's business
					}
					exp := c05Mod(2026-yearNo, 9)
					if idx != exp {
						return false, fmt.Sprintf("index %d with year pillar %s", idx, pillar), fmt.Sprintf("index %d: year %d, 2024 is index 2 and each year steps back one", exp, yearNo)
					}
					if firstOfDay {
						if ok, why := c16NamingOK(s); !ok {
							return false, why, "consistent naming"
						}
					}
					return true, "", ""
				})
			}
			// ---- month star per sect
			for sect := 1; sect <= 3; sect++ {
				sect := sect
				c.chk(fmt.Sprintf("month-star-sect%d", sect), in, func() (bool, string, string) {
					s := l.GetMonthNineStarBySect(sect)
					idx := s.GetIndex()
					if idx < 0 || idx > 8 {
						curOK = false
						return false, fmt.Sprint(idx), "0..8"
					}
					pillar := l.GetMonthInGanZhi()
					if sect == 3 {
						pillar = l.GetMonthInGanZhiExact()
					}
					p := LunarUtil.GetJiaZiIndex(pillar)
					cur.monthPillar[sect], cur.monthStar[sect] = p, idx
					if firstOfDay {
						if ok, why := c16NamingOK(s); !ok {
							return false, why, "consistent naming"
						}
					}
					if !prev.ok || p < 0 || prev.monthPillar[sect] < 0 {
						return true, "", ""
					}
					dp := c05Mod(p-prev.monthPillar[sect], 60)
					ds := c05Mod(idx-prev.monthStar[sect], 9)
					ok, obs, exp := true, "", ""
					switch dp {
					case 0:
						ok, obs, exp = ds == 0, fmt.Sprintf("star index %d -> %d between %s and %s while the month pillar stays %s", prev.monthStar[sect], idx, prev.at, in, pillar), "unchanged"
					case 1:
						if sect == 1 {
							nMonthSteps++
						}
						ok, obs, exp = ds == 8, fmt.Sprintf("star index %d -> %d between %s and %s while the month pillar steps to %s", prev.monthStar[sect], idx, prev.at, in, pillar), fmt.Sprintf("one step back (index %d)", c05Mod(prev.monthStar[sect]-1, 9))
					default:
						return true, "", "" // a jumping month pillar is C05's business
					}
					if !ok && sect == 1 && okNy && prev.jdn == t.jdn-1 {
						// One systematic deviation of sect 1 is reported once, under one key: sect 1 takes the year branch that
						// changes at lunar New Year together with the month branch that changes on the Jie day, so the star
						// jumps three back at New Year (beyond the step of a Jie falling on that day, if any) and two forward
						// instead of one back on the Lichun day, whenever the two days differ.
						normal := 0 // the step the statement asks for
						if dp == 1 {
							normal = 8
						}
						isNewYear := t.jdn == ny || t.jdn == nyNext
						atNewYear := isNewYear && t.jdn != lichunJdn && ds == c05Mod(normal-3, 9)
						atLichun := t.jdn == lichunJdn && !isNewYear && dp == 1 && ds == c05Mod(normal+3, 9)
						if atNewYear || atLichun {
							nSect1Pattern++
							c.report("month-star-sect1-new-year-vs-lichun", "sect=1", obs, exp)
							return true, "", ""
						}
					}
					return ok, obs, exp
				})
			}
			// year star steps (explicit form of the absolute check above; counts the steps exercised)
			if prev.ok && curOK {
				for sect := 1; sect <= 3; sect++ {
					sect := sect
					if cur.yearPillar[sect] < 0 || prev.yearPillar[sect] < 0 {
						continue
					}
					c.chk(fmt.Sprintf("year-star-step-sect%d", sect), in, func() (bool, string, string) {
						dp := c05Mod(cur.yearPillar[sect]-prev.yearPillar[sect], 60)
						ds := c05Mod(cur.yearStar[sect]-prev.yearStar[sect], 9)
						switch dp {
						case 0:
							return ds == 0, fmt.Sprintf("star index %d -> %d between %s and %s within one year pillar", prev.yearStar[sect], cur.yearStar[sect], prev.at, in), "unchanged"
						case 1:
							nYearSteps++
							return ds == 8, fmt.Sprintf("star index %d -> %d between %s and %s across the year pillar change", prev.yearStar[sect], cur.yearStar[sect], prev.at, in), "one step back"
						}
						return true, "", ""
					})
				}
			}
			prev = cur
			prev.ok = curOK
			// ---- the default-sect getters are stars too
			c.chk("default-sect-range", in, func() (bool, string, string) {
				ys, ms := l.GetYearNineStar().GetIndex(), l.GetMonthNineStar().GetIndex()
				return ys >= 0 && ys <= 8 && ms >= 0 && ms <= 8, fmt.Sprintf("%d %d", ys, ms), "0..8"
			})
			// ---- hour star, two routes
			// (LunarTime rebuilds the lunar object from the lunar date, which recomputes two year tables before lunar New Year)
			if firstOfDay || (t.h == 23 && t.mi == 0) || rng.Intn(4) == 0 {
				c.chk("hour-star-two-routes", in, func() (bool, string, string) {
					nTwoRoutes++
					s1 := l.GetTimeNineStar()
					s2 := l.GetTime().GetNineStar()
					if s1.GetIndex() < 0 || s1.GetIndex() > 8 || s2.GetIndex() < 0 || s2.GetIndex() > 8 {
						return false, fmt.Sprintf("%d / %d", s1.GetIndex(), s2.GetIndex()), "0..8"
					}
					if firstOfDay {
						if ok, why := c16NamingOK(s2); !ok {
							return false, why, "consistent naming"
						}
					}
					return s1.GetIndex() == s2.GetIndex(), fmt.Sprintf("Lunar.GetTimeNineStar %d, LunarTime.GetNineStar %d", s1.GetIndex(), s2.GetIndex()), "equal"
				})
				// call history: the stars of a moment are fixed by the date, the slot and the year/month convention passed in — not by
				// the day-boundary school selected on the lunar date's shared eight-character object (the two schools differ from 23:00 on,
				// so the probe runs on the late-evening moments): whichever day's branch governs 23:00–23:59, ONE moment has ONE hour star
				if t.h == 23 {
					c.chk("star-depends-on-eightchar-school", in+" after GetEightChar().SetSect(1)", func() (bool, string, string) {
						vec := func() string {
							return fmt.Sprintf("hour %d year %d/%d/%d month %d/%d/%d", l.GetTimeNineStar().GetIndex(),
								l.GetYearNineStarBySect(1).GetIndex(), l.GetYearNineStarBySect(2).GetIndex(), l.GetYearNineStarBySect(3).GetIndex(),
								l.GetMonthNineStarBySect(1).GetIndex(), l.GetMonthNineStarBySect(2).GetIndex(), l.GetMonthNineStarBySect(3).GetIndex())
						}
						before := vec()
						ec := l.GetEightChar()
						old := ec.GetSect()
						ec.SetSect(1)
						after := vec()
						ec.SetSect(old)
						return before == after, after, before + " (before the setter call)"
					})
				}
			}
			// ---- day star: once per day, plus a second look at another time of some days
			// (GetDayNineStar recomputes two year tables per call: at the quick tier every day is looked at in the windows
			// that can hold an anchor or a year boundary, every second day elsewhere)
			dayStarDay := tier != "quick" || t.m <= 2 || (t.m == 5 && t.d >= 15) || t.m == 6 || t.m == 7 || (t.m == 11 && t.d >= 15) || t.m == 12 || t.jdn%2 == 0
			if (firstOfDay && dayStarDay) || rng.Intn(60) == 0 {
				c.chk("day-star", t.Ymd(), func() (bool, string, string) {
					s := l.GetDayNineStar()
					idx := s.GetIndex()
					if idx < 0 || idx > 8 {
						return false, fmt.Sprint(idx), "0..8"
					}
					if ok, why := c16NamingOK(s); !ok {
						return false, why, "consistent naming"
					}
					exp, why := dayStars(t.jdn)
					if len(exp) == 0 {
						return true, "", "" // before the ascending anchor in year 1: the previous summer is out of range
					}
					if t.jdn < a1s[0] && firstOfDay {
						nBeforeAscAnchor++
					}
					var es []int
					for k := 0; k < 9; k++ {
						if exp[k] {
							es = append(es, k)
						}
					}
					if !exp[idx] && t.jdn < a1s[len(a1s)-1] {
						// the days of January before the ascending anchor fail together: one report per year (its first day)
						nBeforeAnchorBad++
						// KNOWN defect class (call site: last branch of Lunar.GetDayNineStar): before the winter anchor the
						// library counts (8 + days-to-anchor) mod 9, which is right only when the summer-to-winter anchor gap
						// is 180 days. Values that follow exactly that formula are aggregated under one call-site key;
						// anything else is reported with its date.
						known := false
						for _, a := range a1s {
							if idx == c05Mod(8+(a-t.jdn), 9) {
								known = true
							}
						}
						if known {
							if !c16KnownFormulaReported {
								c16KnownFormulaReported = true
								c.report("day-star-before-winter-anchor-formula", "Lunar.GetDayNineStar:last-branch", fmt.Sprintf("e.g. %s -> %d", t.Ymd(), idx), fmt.Sprintf("%v: %s", es, why))
							}
						} else if !beforeAnchorReported {
							beforeAnchorReported = true
							c.report("day-star-before-winter-anchor", t.Ymd(), fmt.Sprint(idx), fmt.Sprintf("%v: %s", es, why))
						}
						return true, "", ""
					}
					return exp[idx], fmt.Sprint(idx), fmt.Sprintf("%v: %s", es, why)
				})
			}
		}
		// ---- hour star: every slot of every day through the Lunar route; both routes on a few days
		for _, dd := range daysOfYearList(y) {
			jdn := c03xJdn(y, dd.m, dd.d)
			branch := c05Mod(jdn-11, 12)
			solstice := jdn == s1 || jdn == w1
			if solstice {
				nSolsticeDays++
			}
			both := solstice || rng.Intn(60) == 0
			okAsc, okDesc := true, true
			var seen []string
			for _, h := range []int{0, 1, 3, 5, 7, 9, 11, 13, 15, 17, 19, 21, 23} {
				h := h
				// start of the slot on even days, its last second on odd days
				t := c03xMomentOf(y, dd.m, dd.d, h, 0, 0)
				if jdn%2 == 1 {
					if h == 0 || h == 23 {
						t = c03xMomentOf(y, dd.m, dd.d, h, 59, 59)
					} else {
						t = c03xMomentOf(y, dd.m, dd.d, h+1, 59, 59)
					}
				}
				in := t.String()
				slot := ((h + 1) / 2) % 12
				c.chk("hour-star", in, func() (bool, string, string) {
					l := t.lunar()
					s := l.GetTimeNineStar()
					idx := s.GetIndex()
					if idx < 0 || idx > 8 {
						return false, fmt.Sprint(idx), "0..8"
					}
					if both {
						nTwoRoutes++
						if i2 := l.GetTime().GetNineStar().GetIndex(); i2 != idx {
							return false, fmt.Sprintf("Lunar.GetTimeNineStar %d, LunarTime.GetNineStar %d", idx, i2), "equal"
						}
					}
					if h == 23 {
						return true, "", "" // which day's branch governs 23:00-23:59 is not fixed by the statement
					}
					ea, ed := c16HourStar(branch, true, slot), c16HourStar(branch, false, slot)
					if solstice {
						// on the solstice day itself either half is accepted, but the same one for the whole day
						okAsc = okAsc && idx == ea
						okDesc = okDesc && idx == ed
						seen = append(seen, fmt.Sprintf("%02d:%d", h, idx))
						return true, "", ""
					}
					exp := ed
					half := "descending"
					if halfAsc(jdn) {
						exp, half = ea, "ascending"
					}
					return idx == exp, fmt.Sprint(idx), fmt.Sprintf("%d: day branch %s, %s half, slot %d", exp, c05Zhi[branch], half, slot)
				})
			}
			if solstice {
				c.chk("hour-star-solstice-day", fmt.Sprintf("%04d-%02d-%02d", y, dd.m, dd.d), func() (bool, string, string) {
					return okAsc || okDesc, fmt.Sprint(seen), "all slots of the day on the ascending rule or all on the descending rule"
				})
			}
			if samples < 3 && jdn == w1 {
				samples++
				l := sol(y, dd.m, dd.d, 12, 0, 0).GetLunar()
				fmt.Fprintf(out, "SAMPLE %04d-%02d-%02d 12:00 year=%d month=%d day=%d hour=%d\n", y, dd.m, dd.d, l.GetYearNineStarBySect(2).GetIndex(), l.GetMonthNineStarBySect(2).GetIndex(), l.GetDayNineStar().GetIndex(), l.GetTimeNineStar().GetIndex())
			}
		}
	}
	c.finish()
	fmt.Fprintf(out, "STAT moments=%d\n", nMoments)
	fmt.Fprintf(out, "STAT days=%d\n", nDays)
	fmt.Fprintf(out, "STAT year_star_steps=%d\n", nYearSteps)
	fmt.Fprintf(out, "STAT month_star_steps_sect1=%d\n", nMonthSteps)
	fmt.Fprintf(out, "STAT two_route_comparisons=%d\n", nTwoRoutes)
	fmt.Fprintf(out, "STAT years_with_ambiguous_anchor=%d\n", nAmbiguousAnchor)
	fmt.Fprintf(out, "STAT days_before_ascending_anchor=%d\n", nBeforeAscAnchor)
	fmt.Fprintf(out, "STAT solstice_days=%d\n", nSolsticeDays)
	fmt.Fprintf(out, "STAT sect1_month_star_new_year_vs_lichun_deviations=%d\n", nSect1Pattern)
	fmt.Fprintf(out, "STAT days_before_ascending_anchor_off=%d\n", nBeforeAnchorBad)
}
