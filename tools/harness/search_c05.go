package main

// search-C05: the four pillars (year x3 conventions, month x2, day x3, hour) against independently computed expectations.
// Uses the shared helpers of search_c03.go (c03x...).

import (
	"fmt"
	"math"

	"github.com/6tail/lunar-go/LunarUtil"
	"github.com/6tail/lunar-go/calendar"
)

func init() {
	modes["search-C05"] = searchC05
}

// own copies of the stems and branches
var c05Gan = []string{"甲", "乙", "丙", "丁", "戊", "己", "庚", "辛", "壬", "癸"}
var c05Zhi = []string{"子", "丑", "寅", "卯", "辰", "巳", "午", "未", "申", "酉", "戌", "亥"}

func c05Mod(a, n int) int { return ((a % n) + n) % n }

// pillar string of a position in the 60-cycle
func c05Pillar(i int) string { i = c05Mod(i, 60); return c05Gan[i%10] + c05Zhi[i%12] }

// position in the 60-cycle of a stem/branch pair of equal parity
func c05Index(stem, branch int) int { return c05Mod(6*stem-5*branch, 60) }

// c05NewYear: the Julian Day Numbers of the first day of lunar year y and of lunar year y+1, read from the month table
// of lunar year y (first month carrying year y; plus the day count of the year).
func c05NewYear(y int) (ny int, nyNext int, ok bool) {
	defer func() {
		if r := recover(); r != nil {
			ok = false
		}
	}()
	ly := calendar.NewLunarYear(y)
	ms := ly.GetMonthsInYear()
	if ms.Len() == 0 {
		return 0, 0, false
	}
	first := ms.Front().Value.(*calendar.LunarMonth)
	ny = int(math.Round(first.GetFirstJulianDay()))
	n := 0
	for e := ms.Front(); e != nil; e = e.Next() {
		n += e.Value.(*calendar.LunarMonth).GetDayCount()
	}
	return ny, ny + n, true
}

// the year number whose pillar applies, per convention (1 lunar New Year, 2 Lichun day, 3 Lichun instant)
func c05YearOf(t c03xMoment, conv int, ny, nyNext int, lichun c03xMoment) int {
	y := t.y
	switch conv {
	case 1:
		if t.jdn < ny {
			return y - 1
		}
		if t.jdn >= nyNext {
			return y + 1
		}
		return y
	case 2:
		if t.jdn < lichun.jdn {
			return y - 1
		}
		return y
	default:
		if t.sec < lichun.sec {
			return y - 1
		}
		return y
	}
}

// expected month pillar: the latest Jie at or before the moment fixes the month (Lichun month = first, branch yin),
// the stem follows the five-tigers rule from the year stem of the matching convention
func c05MonthOf(a *c03xAround, t c03xMoment, exact bool, yearNo int) (int, bool) {
	j := a.prevTerm(t, 1, !exact)
	if j == nil {
		return 0, false
	}
	mo := c05Mod((j.cyc-3)/2, 12)
	g := c05Mod(yearNo-4, 10)
	return c05Index(c05Mod(2*(g%5)+2+mo, 10), c05Mod(2+mo, 12)), true
}

func searchC05() {
	c03xSelfTest()
	c := c03xNewChecker("C05")
	// reference for the day pillar: the library's own pillar of 2000-01-01; every other day must be the matching number of steps away
	refJdn := c03xJdn(2000, 1, 1)
	refIdx := -1
	c.chk("day-pillar-reference", "2000-01-01", func() (bool, string, string) {
		p := sol(2000, 1, 1, 12, 0, 0).GetLunar().GetDayInGanZhi()
		refIdx = LunarUtil.GetJiaZiIndex(p)
		return refIdx >= 0, p, "one of the 60 pairs"
	})
	if refIdx < 0 {
		c.finish()
		return
	}
	dayIdx := func(jdn int) int { return c05Mod(refIdx+jdn-refJdn, 60) }

	nMoments, nJieMoments, nLichunMoments, nNewYearDays, nMinuteDays, n23 := 0, 0, 0, 0, 0, 0
	samples := 0
	extra := []hms{{23, 0, 0}, {22, 59, 59}}
	for _, y := range sweepYears(30) {
		ys := fmt.Sprint(y)
		a, msg := c03xLoadAround(y)
		if a == nil || len(a.cur) != 31 {
			c.count++
			c.report("table-unreadable", ys, msg, "31-entry table")
			continue
		}
		lichun := a.cur[c03xIdxLiChun]
		okLichun := true
		c.chk("lichun-in-year", ys, func() (bool, string, string) {
			okLichun = lichun.at.y == y && lichun.key == "立春"
			return okLichun, lichun.key + "@" + lichun.at.String(), "Lichun of the civil year"
		})
		ny, nyNext, okNy := 0, 0, false
		c.chk("new-year-readable", ys, func() (bool, string, string) {
			ny, nyNext, okNy = c05NewYear(y)
			return okNy, "month table unreadable", "first month of the lunar year"
		})
		// put the year cache back on y
		sol(y, 6, 1, 0, 0, 0).GetLunar()

		checkHourAndDay := func(t c03xMoment, l *calendar.Lunar, in string) {
			d := dayIdx(t.jdn)
			early := d
			if t.h == 23 {
				early = d + 1
				n23++
			}
			c.chk("day-pillar-step", t.Ymd(), func() (bool, string, string) {
				p := l.GetDayInGanZhi()
				if p != c05Pillar(d) {
					return false, p, c05Pillar(d) + fmt.Sprintf(" (%d days from 2000-01-01 %s)", t.jdn-refJdn, c05Pillar(refIdx))
				}
				if l.GetDayGanIndex() != d%10 || l.GetDayZhiIndex() != d%12 {
					return false, fmt.Sprintf("indices %d %d", l.GetDayGanIndex(), l.GetDayZhiIndex()), fmt.Sprintf("%d %d", d%10, d%12)
				}
				return LunarUtil.GetJiaZiIndex(p) == d, fmt.Sprintf("JIA_ZI index %d", LunarUtil.GetJiaZiIndex(p)), fmt.Sprint(d)
			})
			c.chk("day-pillar-rat-conventions", in, func() (bool, string, string) {
				obs := l.GetDayInGanZhiExact() + "|" + l.GetDayInGanZhiExact2()
				exp := c05Pillar(early) + "|" + c05Pillar(d)
				if obs != exp {
					return false, obs, exp
				}
				e := c05Mod(early, 60)
				if l.GetDayGanIndexExact() != e%10 || l.GetDayZhiIndexExact() != e%12 || l.GetDayGanIndexExact2() != d%10 || l.GetDayZhiIndexExact2() != d%12 {
					return false, fmt.Sprintf("indices %d %d %d %d", l.GetDayGanIndexExact(), l.GetDayZhiIndexExact(), l.GetDayGanIndexExact2(), l.GetDayZhiIndexExact2()), fmt.Sprintf("%d %d %d %d", e%10, e%12, d%10, d%12)
				}
				return true, "", ""
			})
			slot := ((t.h + 1) / 2) % 12
			hstem := c05Mod((c05Mod(early, 60)%10)%5*2+slot, 10)
			c.chk("hour-pillar", in, func() (bool, string, string) {
				p := l.GetTimeInGanZhi()
				exp := c05Gan[hstem] + c05Zhi[slot]
				if p != exp {
					return false, p, exp
				}
				if l.GetTimeGanIndex() != hstem || l.GetTimeZhiIndex() != slot {
					return false, fmt.Sprintf("indices %d %d", l.GetTimeGanIndex(), l.GetTimeZhiIndex()), fmt.Sprintf("%d %d", hstem, slot)
				}
				return LunarUtil.GetJiaZiIndex(p) >= 0, p, "one of the 60 pairs"
			})
		}

		moments := c03xYearMoments(a, 3, extra...)
		// one LunarTime route per day (it rebuilds the lunar object from the lunar date: slow in January/February)
		ltAt := map[int]int64{}
		for _, t := range moments {
			if _, ok := ltAt[t.jdn]; !ok || rng.Intn(5) == 0 {
				ltAt[t.jdn] = t.sec
			}
		}
		for _, t := range moments {
			t := t
			in := t.String()
			nMoments++
			var l *calendar.Lunar
			c.chk("lunar-of-moment", in, func() (bool, string, string) {
				l = t.lunar()
				return l != nil, "nil", "a lunar object"
			})
			if l == nil {
				continue
			}
			checkHourAndDay(t, l, in)
			if on := a.termOnDay(t.jdn); on != nil && on.cyc%2 == 1 {
				nJieMoments++
				if on.cyc == 3 {
					nLichunMoments++
				}
			}
			if t.jdn == ny || t.jdn == ny-1 || t.jdn == nyNext || t.jdn == nyNext-1 {
				nNewYearDays++
			}
			// ---- year pillar, three conventions
			var yearNo [4]int
			if okNy && okLichun {
				for conv := 1; conv <= 3; conv++ {
					yearNo[conv] = c05YearOf(t, conv, ny, nyNext, lichun.at)
				}
				c.chk("year-pillar-new-year", in, func() (bool, string, string) {
					e := c05Mod(yearNo[1]-4, 60)
					p := l.GetYearInGanZhi()
					if p != c05Pillar(e) || l.GetYearGanIndex() != e%10 || l.GetYearZhiIndex() != e%12 {
						return false, fmt.Sprintf("%s (%d %d)", p, l.GetYearGanIndex(), l.GetYearZhiIndex()), fmt.Sprintf("%s = (%d-4) mod 60; lunar year starts %s", c05Pillar(e), yearNo[1], c03xMomentOfSec(int64(ny)*86400).Ymd())
					}
					return LunarUtil.GetJiaZiIndex(p) == e, fmt.Sprintf("JIA_ZI index %d", LunarUtil.GetJiaZiIndex(p)), fmt.Sprint(e)
				})
				c.chk("year-pillar-lichun-day", in, func() (bool, string, string) {
					e := c05Mod(yearNo[2]-4, 60)
					p := l.GetYearInGanZhiByLiChun()
					if p != c05Pillar(e) || l.GetYearGanIndexByLiChun() != e%10 || l.GetYearZhiIndexByLiChun() != e%12 {
						return false, fmt.Sprintf("%s (%d %d)", p, l.GetYearGanIndexByLiChun(), l.GetYearZhiIndexByLiChun()), fmt.Sprintf("%s = (%d-4) mod 60; Lichun %s", c05Pillar(e), yearNo[2], lichun.at)
					}
					return LunarUtil.GetJiaZiIndex(p) == e, fmt.Sprintf("JIA_ZI index %d", LunarUtil.GetJiaZiIndex(p)), fmt.Sprint(e)
				})
				c.chk("year-pillar-lichun-instant", in, func() (bool, string, string) {
					e := c05Mod(yearNo[3]-4, 60)
					p := l.GetYearInGanZhiExact()
					if p != c05Pillar(e) || l.GetYearGanIndexExact() != e%10 || l.GetYearZhiIndexExact() != e%12 {
						return false, fmt.Sprintf("%s (%d %d)", p, l.GetYearGanIndexExact(), l.GetYearZhiIndexExact()), fmt.Sprintf("%s = (%d-4) mod 60; Lichun %s", c05Pillar(e), yearNo[3], lichun.at)
					}
					return LunarUtil.GetJiaZiIndex(p) == e, fmt.Sprintf("JIA_ZI index %d", LunarUtil.GetJiaZiIndex(p)), fmt.Sprint(e)
				})
			}
			// ---- month pillar, two conventions
			mDay, mExact, okM := 0, 0, false
			if okLichun {
				var ok1, ok2 bool
				mDay, ok1 = c05MonthOf(a, t, false, c05YearOf(t, 2, ny, nyNext, lichun.at))
				mExact, ok2 = c05MonthOf(a, t, true, c05YearOf(t, 3, ny, nyNext, lichun.at))
				okM = ok1 && ok2
			}
			if okM {
				c.chk("month-pillar-jie-day", in, func() (bool, string, string) {
					p := l.GetMonthInGanZhi()
					j := a.prevTerm(t, 1, true)
					if p != c05Pillar(mDay) || l.GetMonthGanIndex() != mDay%10 || l.GetMonthZhiIndex() != mDay%12 {
						return false, fmt.Sprintf("%s (%d %d)", p, l.GetMonthGanIndex(), l.GetMonthZhiIndex()), fmt.Sprintf("%s: month of %s %s, year stem %s", c05Pillar(mDay), j.name, j.at.Ymd(), c05Gan[c05Mod(c05YearOf(t, 2, ny, nyNext, lichun.at)-4, 10)])
					}
					return LunarUtil.GetJiaZiIndex(p) == mDay, fmt.Sprintf("JIA_ZI index %d", LunarUtil.GetJiaZiIndex(p)), fmt.Sprint(mDay)
				})
				c.chk("month-pillar-jie-instant", in, func() (bool, string, string) {
					p := l.GetMonthInGanZhiExact()
					j := a.prevTerm(t, 1, false)
					if p != c05Pillar(mExact) || l.GetMonthGanIndexExact() != mExact%10 || l.GetMonthZhiIndexExact() != mExact%12 {
						return false, fmt.Sprintf("%s (%d %d)", p, l.GetMonthGanIndexExact(), l.GetMonthZhiIndexExact()), fmt.Sprintf("%s: month of %s %s, year stem %s", c05Pillar(mExact), j.name, j.at, c05Gan[c05Mod(c05YearOf(t, 3, ny, nyNext, lichun.at)-4, 10)])
					}
					return LunarUtil.GetJiaZiIndex(p) == mExact, fmt.Sprintf("JIA_ZI index %d", LunarUtil.GetJiaZiIndex(p)), fmt.Sprint(mExact)
				})
			}
			// ---- the same through EightChar, both sects
			if okNy && okLichun && okM {
				d := dayIdx(t.jdn)
				early := d
				if t.h == 23 {
					early = d + 1
				}
				slot := ((t.h + 1) / 2) % 12
				hstem := c05Mod((c05Mod(early, 60)%10)%5*2+slot, 10)
				for sect := 1; sect <= 2; sect++ {
					sect := sect
					c.chk(fmt.Sprintf("eightchar-sect%d", sect), in, func() (bool, string, string) {
						ec := l.GetEightChar()
						ec.SetSect(sect)
						ed := d
						if sect == 1 {
							ed = early
						}
						obs := ec.GetYear() + " " + ec.GetMonth() + " " + ec.GetDay() + " " + ec.GetTime()
						exp := c05Pillar(yearNo[3]-4) + " " + c05Pillar(mExact) + " " + c05Pillar(ed) + " " + c05Gan[hstem] + c05Zhi[slot]
						if obs != exp {
							return false, obs, exp
						}
						if ec.GetDayGanIndex() != c05Mod(ed, 60)%10 || ec.GetDayZhiIndex() != c05Mod(ed, 60)%12 {
							return false, fmt.Sprintf("day indices %d %d", ec.GetDayGanIndex(), ec.GetDayZhiIndex()), fmt.Sprintf("%d %d", c05Mod(ed, 60)%10, c05Mod(ed, 60)%12)
						}
						return true, "", ""
					})
				}
				if samples < 3 && rng.Intn(3000) == 0 {
					samples++
					ec := l.GetEightChar()
					ec.SetSect(2)
					fmt.Fprintf(out, "SAMPLE %s => %s\n", in, ec.String())
				}
			}
			// ---- the hour pillar through LunarTime
			if ltAt[t.jdn] == t.sec {
				c.chk("hour-pillar-lunartime", in, func() (bool, string, string) {
					d := dayIdx(t.jdn)
					if t.h == 23 {
						d++
					}
					slot := ((t.h + 1) / 2) % 12
					hstem := c05Mod((c05Mod(d, 60)%10)%5*2+slot, 10)
					lt := l.GetTime()
					return lt.GetGanZhi() == c05Gan[hstem]+c05Zhi[slot] && lt.GetGanIndex() == hstem && lt.GetZhiIndex() == slot, lt.GetGanZhi(), c05Gan[hstem] + c05Zhi[slot]
				})
			}
		}
		// ---- every minute of a few days: hour pillar and the two rat conventions
		days := daysOfYearList(y)
		var full []ymd
		for i := 0; i < 2; i++ {
			full = append(full, days[rng.Intn(len(days))])
		}
		if y == 1582 {
			full = append(full, ymd{1582, 10, 4}, ymd{1582, 10, 15})
		}
		if okNy {
			if yy, m, d := c03xFromJdn(ny); yy == y {
				full = append(full, ymd{y, m, d})
			}
		}
		for _, dd := range full {
			nMinuteDays++
			for mm := 0; mm < 1440; mm++ {
				t := c03xMomentOf(y, dd.m, dd.d, mm/60, mm%60, rng.Intn(60))
				var l *calendar.Lunar
				c.chk("lunar-of-moment", t.String(), func() (bool, string, string) {
					l = t.lunar()
					return l != nil, "nil", "a lunar object"
				})
				if l != nil {
					checkHourAndDay(t, l, t.String())
				}
			}
		}
	}
	c.finish()
	fmt.Fprintf(out, "STAT moments=%d\n", nMoments)
	fmt.Fprintf(out, "STAT moments_on_jie_days=%d\n", nJieMoments)
	fmt.Fprintf(out, "STAT moments_on_lichun_days=%d\n", nLichunMoments)
	fmt.Fprintf(out, "STAT moments_on_new_year_eve_or_day=%d\n", nNewYearDays)
	fmt.Fprintf(out, "STAT moments_in_23h=%d\n", n23)
	fmt.Fprintf(out, "STAT full_minute_days=%d\n", nMinuteDays)
}
